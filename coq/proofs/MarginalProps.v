(* Lemmas about model/Marginal.v (property C10).  World Q, no axioms.
   Reuses proofs/BiasProps.v (partition of the rows into groups, permutation invariance of the
   statistics), proofs/BinningProps.v (bins contain their members, number of groups) and
   proofs/PartialDepProps.v (stacked computation = definitional partial dependence). *)
From Coq Require Import ZArith QArith Qabs Qreduction Lqa Lia List Bool Arith String Permutation.
Import ListNotations.
Open Scope Q_scope.
From MD Require Import lib.QLists model.Functionals model.Binning model.PartialDep model.Bias model.Marginal
  proofs.BinningProps proofs.PartialDepProps proofs.BiasProps.

(* ------------------------------------------------------------------ *)
(* the groups of model/Marginal.v are the groups of model/Bias.v *)
Lemma grp_rows_grp g rows : grp_rows g rows = grp g rows.
Proof. reflexivity. Qed.

Lemma wtot_obs l : wtot (map obs_elt l) == qsum (map r_w l).
Proof. induction l as [|r l IH]; simpl; [reflexivity|]. rewrite IH. unfold ew, obs_elt. simpl. lra. Qed.
Lemma wtot_pred l : wtot (map pred_elt l) == qsum (map r_w l).
Proof. induction l as [|r l IH]; simpl; [reflexivity|]. rewrite IH. unfold ew, pred_elt. simpl. lra. Qed.
Lemma wsum_obs l : wsum (map obs_elt l) == qsum (map (fun r => r_w r * r_y r) l).
Proof. induction l as [|r l IH]; simpl; [reflexivity|]. rewrite IH. unfold ew, ey, obs_elt. simpl. lra. Qed.
Lemma wsum_pred l : wsum (map pred_elt l) == qsum (map (fun r => r_w r * r_z r) l).
Proof. induction l as [|r l IH]; simpl; [reflexivity|]. rewrite IH. unfold ew, ey, pred_elt. simpl. lra. Qed.

Lemma mstat_key g rows : m_key (mstat_of g rows) = g.
Proof. reflexivity. Qed.

(* ------------------------------------------------------------------ *)
(* C10: every output row is the definition applied to exactly the rows of its group:
   weighted means of y_obs and y_pred, Bessel-corrected squared standard errors, count, weight sum *)
Theorem marg_row_is_definition rows s :
  In s (marg_groups rows) ->
  let g := m_key s in
  let members := grp_rows g rows in                    (* exactly the rows whose key is g *)
  present g rows = true /\
  s = mstat_of g rows /\
  y_obs_mean s == wsum (map obs_elt members) / wtot (map obs_elt members) /\
  y_pred_mean s == wsum (map pred_elt members) / wtot (map pred_elt members) /\
  m_count s = List.length members /\
  m_weights s == qsum (map r_w members) /\
  y_obs_stderr2 s == wssq (y_obs_mean s) (map obs_elt members) / wtot (map obs_elt members)
                     / Qnat (Nat.max 1 (m_count s - 1)) /\
  y_pred_stderr2 s == wssq (y_pred_mean s) (map pred_elt members) / wtot (map pred_elt members)
                      / Qnat (Nat.max 1 (m_count s - 1)).
Proof.
  unfold marg_groups. intros H. apply in_map_iff in H. destruct H as [k [<- Hk]].
  apply filter_In in Hk. destruct Hk as [_ Hk]. cbv zeta. rewrite mstat_key.
  unfold y_obs_mean, y_pred_mean, y_obs_stderr2, y_pred_stderr2, m_count, m_weights, mstat_of.
  cbn [m_obs m_pred]. unfold obs_members, pred_members.
  repeat split.
  - exact Hk.
  - apply stat_mean.
  - apply stat_mean.
  - rewrite stat_count. apply map_length.
  - rewrite stat_weights. apply wtot_obs.
  - rewrite stat_stderr2. rewrite !stat_count, !map_length. reflexivity.
  - rewrite stat_stderr2. rewrite !stat_count, !map_length. reflexivity.
Qed.

Theorem marg_group_exists rows r :
  In r rows -> exists s, In s (marg_groups rows) /\ m_key s = r_key r.
Proof.
  intros H. exists (mstat_of (r_key r) rows). split; [|reflexivity].
  unfold marg_groups. apply in_map_iff. exists (r_key r). split; [reflexivity|].
  apply filter_In. split; [apply key_in_universe; exact H|].
  apply present_iff. exists r. auto.
Qed.

(* the ungrouped path: the same definition over all rows *)
Theorem marg_all_is_definition rows :
  let s := marg_all rows in
  y_obs_mean s == wsum (map obs_elt rows) / wtot (map obs_elt rows) /\
  y_pred_mean s == wsum (map pred_elt rows) / wtot (map pred_elt rows) /\
  m_count s = List.length rows /\
  m_weights s == qsum (map r_w rows) /\
  y_obs_stderr2 s == wssq (y_obs_mean s) (map obs_elt rows) / wtot (map obs_elt rows)
                     / Qnat (Nat.max 1 (List.length rows - 1)) /\
  y_pred_stderr2 s == wssq (y_pred_mean s) (map pred_elt rows) / wtot (map pred_elt rows)
                      / Qnat (Nat.max 1 (List.length rows - 1)).
Proof.
  cbv zeta. unfold y_obs_mean, y_pred_mean, y_obs_stderr2, y_pred_stderr2, m_count, m_weights, marg_all.
  cbn [m_obs m_pred]. repeat split.
  - apply stat_mean.
  - apply stat_mean.
  - rewrite stat_count. apply map_length.
  - rewrite stat_weights. apply wtot_obs.
  - rewrite stat_stderr2, map_length. reflexivity.
  - rewrite stat_stderr2, map_length. reflexivity.
Qed.

(* C10: counts sum to the number of rows *)
Theorem marg_counts_sum rows :
  nsum (map m_count (marg_groups rows)) = List.length rows.
Proof.
  unfold marg_groups. rewrite map_map.
  rewrite (nsum_ext _ (fun g => nsum (map (fun _ => 1%nat) (grp g rows)))).
  2:{ intros g _. unfold m_count, mstat_of. cbn [m_obs]. rewrite stat_count. unfold obs_members.
      rewrite map_length, grp_rows_grp. generalize (grp g rows). intros l. induction l; simpl; auto. }
  rewrite nsum_filter_present.
  2:{ intros g Hg. rewrite (grp_absent _ _ Hg). reflexivity. }
  rewrite partition_nsum; [|apply key_universe_nodup| apply key_in_universe].
  induction rows; simpl; auto.
Qed.

(* C10: group weights sum to the total weight *)
Theorem marg_weights_sum rows :
  qsum (map m_weights (marg_groups rows)) == qsum (map r_w rows).
Proof.
  unfold marg_groups. rewrite map_map.
  rewrite (qsum_ext _ (fun g => qsum (map r_w (grp g rows)))).
  2:{ intros g _. unfold m_weights, mstat_of. cbn [m_obs]. rewrite stat_weights. unfold obs_members.
      rewrite grp_rows_grp. apply wtot_obs. }
  rewrite qsum_filter_present.
  2:{ intros g Hg. rewrite (grp_absent _ _ Hg). reflexivity. }
  apply partition_qsum; [apply key_universe_nodup| apply key_in_universe].
Qed.

(* C10: null feature values keep their own group, which comes first *)
Theorem marg_null_group rows :
  (present None rows = true ->
     exists rest, marg_groups rows = mstat_of None rows :: rest /\
                  (forall s, In s rest -> m_key s <> None) /\
                  m_count (mstat_of None rows)
                    = List.length (filter (fun r => okey_eqb (r_key r) None) rows)) /\
  (present None rows = false -> forall s, In s (marg_groups rows) -> m_key s <> None).
Proof.
  unfold marg_groups, key_universe. simpl filter.
  assert (Hrest : forall s, In s (map (fun g0 => mstat_of g0 rows)
                     (filter (fun g0 => present g0 rows) (map Some (seq 0 (S (max_key rows)))))) ->
                   m_key s <> None).
  { intros s Hs. apply in_map_iff in Hs. destruct Hs as [k [<- Hk]]. rewrite mstat_key.
    apply filter_In in Hk. destruct Hk as [Hk _]. apply in_map_iff in Hk.
    destruct Hk as [x [<- _]]. discriminate. }
  split; intros Hp; rewrite Hp.
  - eexists. split; [reflexivity|]. split; [exact Hrest|].
    unfold m_count, mstat_of. cbn [m_obs]. rewrite stat_count. unfold obs_members, grp_rows.
    apply map_length.
  - exact Hrest.
Qed.

(* ------------------------------------------------------------------ *)
(* C10: y_pred_mean - y_obs_mean is compute_bias's bias_mean (functional mean) on the same rows and bins:
   linearity of the weighted mean.  Row by row, in the same order, with the same keys, counts and weights. *)
Lemma Forall2_map_same {A B C} (R : B -> C -> Prop) (f : A -> B) (g : A -> C) l :
  (forall x, In x l -> R (f x) (g x)) -> Forall2 R (map f l) (map g l).
Proof.
  induction l as [|x l IH]; intros H; simpl; constructor.
  - apply H. left. reflexivity.
  - apply IH. intros y Hy. apply H. right. exact Hy.
Qed.

Lemma wsum_vmean a l :
  wsum (map (velt FMean a) l) == wsum (map pred_elt l) - wsum (map obs_elt l).
Proof.
  induction l as [|r l IH]; simpl; [lra|]. rewrite IH.
  unfold ew, ey, velt, pred_elt, obs_elt, Vq. simpl. lra.
Qed.

Lemma mean_difference a g l :
  g_mean (stat_of g (map pred_elt l)) - g_mean (stat_of g (map obs_elt l))
  == g_mean (stat_of g (map (velt FMean a) l)).
Proof.
  rewrite !stat_mean. rewrite wsum_vmean.
  rewrite wtot_pred, wtot_obs, (wtot_map FMean a l).
  unfold Qdiv. ring.
Qed.

Theorem marg_minus_obs_is_bias a rows :
  map m_key (marg_groups rows) = map g_key (bias_groups FMean a rows) /\
  Forall2 (fun s g => y_pred_mean s - y_obs_mean s == g_mean g /\
                      m_count s = g_count g /\ m_weights s == g_weights g)
          (marg_groups rows) (bias_groups FMean a rows).
Proof.
  unfold marg_groups, bias_groups. split.
  - rewrite !map_map. apply map_ext. intros g. reflexivity.
  - apply Forall2_map_same. intros g _.
    unfold y_pred_mean, y_obs_mean, m_count, m_weights, mstat_of. cbn [m_obs m_pred].
    unfold obs_members, pred_members. rewrite members_grp, grp_rows_grp.
    split; [apply mean_difference|]. split.
    + rewrite !stat_count, !map_length. reflexivity.
    + rewrite !stat_weights. rewrite wtot_obs, wtot_map. reflexivity.
Qed.

Theorem marg_minus_obs_is_bias_ungrouped a rows :
  y_pred_mean (marg_all rows) - y_obs_mean (marg_all rows) == g_mean (bias_all FMean a rows).
Proof.
  unfold y_pred_mean, y_obs_mean, marg_all, bias_all. cbn [m_obs m_pred].
  fold (velt FMean a). apply mean_difference.
Qed.

(* ------------------------------------------------------------------ *)
(* C10 (extra): the table is invariant under a permutation of the rows - syntactically equal *)
Theorem marg_perm rows rows' :
  Permutation rows rows' -> marg_groups rows = marg_groups rows'.
Proof.
  intros H. unfold marg_groups.
  assert (EU : key_universe rows = key_universe rows').
  { unfold key_universe, max_key. rewrite (list_max_perm _ _ (Permutation_map _ H)). reflexivity. }
  rewrite <- EU.
  rewrite (filter_ext _ (fun g => present g rows') (fun g => present_perm g _ _ H)).
  apply map_ext. intros g. unfold mstat_of, obs_members, pred_members, grp_rows.
  f_equal; apply stat_of_perm; apply Permutation_map; apply filter_perm; exact H.
Qed.

Theorem marg_all_perm rows rows' :
  Permutation rows rows' -> marg_all rows = marg_all rows'.
Proof.
  intros H. unfold marg_all. f_equal; apply stat_of_perm; apply Permutation_map; exact H.
Qed.

(* ------------------------------------------------------------------ *)
(* `.sort("__priority").head(n_bins)` (lines 808-816) never drops a row when n_bins is the value the binning
   helper returned *)
Lemma marg_groups_length a rows :
  List.length (marg_groups rows) = List.length (bias_groups FMean a rows).
Proof. unfold marg_groups, bias_groups. rewrite !map_length. reflexivity. Qed.

Theorem marg_no_truncation_numeric feature n_bins m interior n edges table nrows ys zs ws :
  bin_numeric KNum (xfeature feature) n_bins m interior = NOk n edges table nrows ->
  List.length ys = List.length feature -> List.length zs = List.length feature ->
  List.length ws = List.length feature ->
  table_of (MFNum feature m interior) n_bins ys zs ws = TOk (num_table feature nrows ys zs ws).
Proof.
  intros H Hy Hz Hw. unfold table_of. rewrite H.
  pose proof (groups_le_returned _ _ _ _ _ _ _ _ _ H) as G.
  destruct (bin_total _ _ _ _ _ _ _ _ _ H) as [Hlen _].
  assert (Hxl : List.length (xfeature feature) = List.length feature) by (unfold xfeature; apply map_length).
  assert (Hk : List.length (numeric_keys nrows) = List.length feature)
    by (unfold numeric_keys; rewrite map_length; exact (eq_trans Hlen Hxl)).
  pose proof (groups_length_le FMean 0 (zip4 ys zs (numeric_keys nrows) ws)) as L.
  rewrite zip4_keys in L by congruence.
  unfold ngroups in G. change (map row_group nrows) with (numeric_keys nrows) in G.
  unfold num_table. rewrite map_length, (marg_groups_length 0).
  destruct (List.length (bias_groups FMean 0 (zip4 ys zs (numeric_keys nrows) ws)) <=? n)%nat eqn:E;
    [reflexivity|]. apply Nat.leb_gt in E. lia.
Qed.

Theorem marg_no_truncation_string kind names feature n_bins n kept_ label k bins ys zs ws :
  bin_string kind names feature n_bins = SOk n kept_ label k bins ->
  List.length ys = List.length feature -> List.length zs = List.length feature ->
  List.length ws = List.length feature ->
  table_of (MFStr kind names feature) n_bins ys zs ws = TOk (str_table kind names label bins ys zs ws).
Proof.
  intros H Hy Hz Hw. unfold table_of. rewrite H.
  destruct (sgroups_le_n_bins _ _ _ _ _ _ _ _ _ H) as [G _].
  destruct (sbin_total _ _ _ _ _ _ _ _ _ H) as [Hlen _].
  assert (Hform : exists h, string_keys kind names label bins = map h bins).
  { unfold string_keys. destruct kind; eexists; reflexivity. }
  destruct Hform as [h Hh].
  assert (Hk : List.length (string_keys kind names label bins) = List.length feature)
    by (rewrite Hh, map_length; exact Hlen).
  pose proof (groups_length_le FMean 0 (zip4 ys zs (string_keys kind names label bins) ws)) as L.
  rewrite zip4_keys in L by congruence.
  rewrite Hh in L at 2.
  pose proof (nodup_map_length sbin_dec onat_dec h bins) as M. unfold sgroups in G.
  unfold str_table. rewrite map_length, (marg_groups_length 0).
  destruct (List.length (bias_groups FMean 0 (zip4 ys zs (string_keys kind names label bins) ws)) <=? n)%nat eqn:E;
    [reflexivity|]. apply Nat.leb_gt in E. lia.
Qed.

(* ------------------------------------------------------------------ *)
(* numerical features: the members of a bin, its reported edges, mean and standard deviation *)
Lemma numeric_keys_digitize fmin fmax edges feature :
  numeric_keys (digitize_rows KNum fmin fmax edges (xfeature feature))
  = map (fun o => option_map (fun v => digitize edges (Fin v)) o) feature.
Proof.
  unfold numeric_keys, digitize_rows, xfeature. rewrite !map_map. apply map_ext.
  intros [v|]; reflexivity.
Qed.

Lemma combine_map_l {A B} (h : A -> B) l : combine (map h l) l = map (fun x => (h x, x)) l.
Proof. induction l as [|x l IH]; simpl; [reflexivity| rewrite IH; reflexivity]. Qed.

Lemma fmembers_in (h : option Q -> option nat) g feature v :
  In v (fmembers g (map h feature) feature) <-> In (Some v) feature /\ okey_eqb (h (Some v)) g = true.
Proof.
  unfold fmembers. rewrite combine_map_l, in_nonnull. split.
  - intros H. apply in_map_iff in H. destruct H as [kv [Hs Hk]].
    apply filter_In in Hk. destruct Hk as [Hk Hg]. apply in_map_iff in Hk.
    destruct Hk as [o [<- Ho]]. simpl in Hs, Hg. subst o. auto.
  - intros [Hin Hg]. apply in_map_iff. exists (h (Some v), Some v). split; [reflexivity|].
    apply filter_In. split; [|exact Hg]. apply in_map_iff. exists (Some v). auto.
Qed.

Lemma fmembers_digitize fmin fmax edges feature k v :
  In v (fmembers (Some k) (numeric_keys (digitize_rows KNum fmin fmax edges (xfeature feature))) feature)
  <-> In (Some v) feature /\ digitize edges (Fin v) = k.
Proof.
  rewrite numeric_keys_digitize, fmembers_in. simpl. rewrite Nat.eqb_eq. reflexivity.
Qed.

Lemma edge_of_digitize fmin fmax edges feature k :
  (exists v, In (Some v) feature /\ digitize edges (Fin v) = k) ->
  edge_of k (digitize_rows KNum fmin fmax edges (xfeature feature))
  = Some (nth k (edge_table fmin fmax edges) (fmin, fmax)).
Proof.
  unfold edge_of, digitize_rows, xfeature. rewrite map_map.
  induction feature as [|o feature IH]; intros [v [Hin Hd]]; [contradiction|].
  cbn [map find]. destruct o as [u|]; cbn [option_map stored_bin].
  - destruct (Nat.eqb (digitize edges (Fin u)) k) eqn:E.
    + apply Nat.eqb_eq in E. rewrite E. reflexivity.
    + destruct Hin as [Hin|Hin]; [inversion Hin; subst; rewrite Nat.eqb_refl in E; discriminate|].
      apply IH. exists v. auto.
  - destruct Hin as [Hin|Hin]; [discriminate|]. apply IH. exists v; auto.
Qed.

Lemma zip4_key_in ys zs ks ws r : In r (zip4 ys zs ks ws) -> In (r_key r) ks.
Proof.
  revert ys zs ws. induction ks as [|k ks IH]; intros ys zs ws H.
  - destruct ys, zs, ws; simpl in H; contradiction.
  - destruct ys as [|y ys], zs as [|z zs], ws as [|w ws]; simpl in H; try contradiction.
    destruct H as [<-|H]; [left; reflexivity| right; eapply IH; exact H].
Qed.

Lemma in_nonnull_xfeature feature v : In (Some v) feature -> In (Fin v) (nonnull (xfeature feature)).
Proof.
  intros H. apply in_nonnull. unfold xfeature. apply in_map_iff. exists (Some v). auto.
Qed.

(* C10: for a numerical feature the reported triple is (lower edge, std of the members' feature values [squared
   here], upper edge) of the bin the group stands for; the feature column holds the mean of the members; the
   members are exactly the non-null rows digitised into that bin, and every member lies inside the reported
   edges: lower < v <= upper, the first bin closed on the left *)
Theorem marg_bin_edges feature n_bins m interior n edges table nrows ys zs ws r k :
  bin_numeric KNum (xfeature feature) n_bins m interior = NOk n edges table nrows ->
  (m = NumpyRule -> xsorted (map Fin interior)) ->
  In r (num_table feature nrows ys zs ws) -> m_key (o_stat r) = Some k ->
  let vals := fmembers (Some k) (numeric_keys nrows) feature in
  exists lo hi,
    (k < List.length table)%nat /\ nth k table (lo, hi) = (lo, hi) /\
    o_edges r = Some (lo, fvar0 vals, hi) /\
    o_cell r = FCNum (fmean vals) /\
    vals <> [] /\
    (forall v, In v vals <-> In (Some v) feature /\ digitize edges (Fin v) = k) /\
    (forall v, In v vals ->
       (if (k =? 0)%nat then xleb lo (Fin v) else xltb lo (Fin v)) = true /\ xleb (Fin v) hi = true).
Proof.
  intros H Hnp Hr Hk vals.
  unfold num_table in Hr. apply in_map_iff in Hr. destruct Hr as [s [Hrs Hs]].
  assert (Hks : m_key s = Some k).
  { subst r. unfold num_row in Hk. destruct (m_key s) eqn:E; cbn [o_stat] in Hk; congruence. }
  destruct (marg_row_is_definition _ _ Hs) as [Hpres _]. rewrite Hks in Hpres.
  apply present_iff in Hpres. destruct Hpres as [row [Hrow Hrk]].
  apply zip4_key_in in Hrow. rewrite Hrk in Hrow.
  apply bin_numeric_inv in H.
  destruct H as [(_ & _ & _ & _ & Hrows & _) | (fmin & fmax & m_out & Hmin & Hmax & Htab & Hrows & _ & _ & _ & _ & Hed & Hso)].
  { subst nrows. unfold numeric_keys in Hrow. rewrite map_map in Hrow. apply in_map_iff in Hrow.
    destruct Hrow as [x [Hx _]]. discriminate. }
  assert (Hsorted : xsorted edges).
  { destruct m; try (apply Hso; discriminate). rewrite (Hed eq_refl). apply Hnp. reflexivity. }
  assert (Hmem : forall v, In v vals <-> In (Some v) feature /\ digitize edges (Fin v) = k).
  { intros v. unfold vals. subst nrows. apply fmembers_digitize. }
  assert (Hex : exists v, In (Some v) feature /\ digitize edges (Fin v) = k).
  { subst nrows. rewrite numeric_keys_digitize in Hrow. apply in_map_iff in Hrow.
    destruct Hrow as [o [Ho Hin]]. destruct o as [v|]; [|discriminate]. simpl in Ho.
    exists v. split; [exact Hin| congruence]. }
  apply xmin_opt_spec in Hmin. apply xmax_opt_spec in Hmax.
  destruct (nth k (edge_table fmin fmax edges) (fmin, fmax)) as [lo hi] eqn:E.
  assert (Hlt : (k < List.length (edge_table fmin fmax edges))%nat).
  { destruct Hex as [v [_ Hd]]. unfold edge_table. rewrite pairs_length, full_edges_length.
    pose proof (digitize_le_length edges (Fin v)). lia. }
  exists lo, hi. subst table.
  split; [exact Hlt|]. split; [rewrite (nth_indep _ _ (fmin, fmax) Hlt); exact E|].
  split.
  { subst r. unfold num_row. rewrite Hks. cbn [o_edges]. fold vals.
    subst nrows. rewrite (edge_of_digitize _ _ _ _ _ Hex), E. reflexivity. }
  split.
  { subst r. unfold num_row. rewrite Hks. reflexivity. }
  split.
  { destruct Hex as [v Hv]. apply Hmem in Hv. intros Hnil. rewrite Hnil in Hv. contradiction. }
  split; [exact Hmem|].
  intros v Hv. apply Hmem in Hv. destruct Hv as [Hin Hd].
  pose proof (in_nonnull_xfeature _ _ Hin) as Hnn.
  pose proof (table_contains fmin fmax edges (Fin v) Hsorted (proj2 Hmin _ Hnn) (proj2 Hmax _ Hnn)) as T.
  cbv zeta in T. rewrite Hd, E in T. destruct T as (T1 & T2 & _ & _). split; assumption.
Qed.

(* C10: the null group of a numerical feature reports [null, null, null] and a null feature value *)
Theorem marg_null_edges feature nrows ys zs ws r :
  In r (num_table feature nrows ys zs ws) -> m_key (o_stat r) = None ->
  o_edges r = None /\ o_cell r = FCNull.
Proof.
  intros Hr Hk. unfold num_table in Hr. apply in_map_iff in Hr. destruct Hr as [s [<- Hs]].
  unfold num_row in *. destruct (m_key s) eqn:E; cbn [o_stat o_edges o_cell] in *; [congruence| auto].
Qed.

(* C10: the bins are consecutive (the upper edge of a bin is the lower edge of the next) and span the feature
   range: the first lower edge is the minimum and the last upper edge the maximum of the non-null values *)
Theorem marg_bins_consecutive_span feature n_bins m interior n edges table nrows :
  bin_numeric KNum (xfeature feature) n_bins m interior = NOk n edges table nrows ->
  nonnull feature <> [] ->
  exists fmin fmax,
    In (Some fmin) feature /\ In (Some fmax) feature /\
    (forall v, In (Some v) feature -> fmin <= v /\ v <= fmax) /\
    List.length table = S (List.length edges) /\
    fst (nth 0 table (MInf, PInf)) = Fin fmin /\
    snd (nth (List.length edges) table (MInf, PInf)) = Fin fmax /\
    forall b, (S b < List.length table)%nat ->
      snd (nth b table (MInf, PInf)) = fst (nth (S b) table (MInf, PInf)).
Proof.
  intros H Hne. apply bin_numeric_inv in H.
  destruct H as [(Hnn & _) | (xmin & xmax & m_out & Hmin & Hmax & Htab & _)].
  { exfalso. apply Hne. destruct (nonnull feature) as [|v l] eqn:E; [reflexivity|].
    assert (Hin : In (Fin v) (nonnull (xfeature feature))).
    { apply in_nonnull_xfeature. apply in_nonnull. rewrite E. left. reflexivity. }
    rewrite Hnn in Hin. contradiction. }
  apply xmin_opt_spec in Hmin. apply xmax_opt_spec in Hmax.
  destruct Hmin as [Hmin1 Hmin2]. destruct Hmax as [Hmax1 Hmax2].
  assert (Hfin : forall x, In x (nonnull (xfeature feature)) -> exists v, x = Fin v /\ In (Some v) feature).
  { intros x Hx. apply in_nonnull in Hx. unfold xfeature in Hx. apply in_map_iff in Hx.
    destruct Hx as [o [Ho Hin]]. destruct o as [v|]; [|discriminate]. simpl in Ho. inversion Ho.
    exists v. auto. }
  destruct (Hfin _ Hmin1) as [fmin [-> Hfmin]]. destruct (Hfin _ Hmax1) as [fmax [-> Hfmax]].
  exists fmin, fmax. split; [exact Hfmin|]. split; [exact Hfmax|].
  split.
  { intros v Hv. pose proof (in_nonnull_xfeature _ _ Hv) as Hnn.
    pose proof (Hmin2 _ Hnn) as A. pose proof (Hmax2 _ Hnn) as B. simpl in A, B.
    apply Qle_bool_iff in A. apply Qle_bool_iff in B. auto. }
  subst table. unfold edge_table.
  assert (Hl : List.length (pairs (full_edges (Fin fmin) (Fin fmax) edges)) = S (List.length edges)).
  { rewrite pairs_length, full_edges_length. lia. }
  split; [exact Hl|].
  split.
  { rewrite pairs_nth by (rewrite full_edges_length; lia). reflexivity. }
  split.
  { rewrite pairs_nth by (rewrite full_edges_length; lia). cbn [snd].
    unfold full_edges. change (nth (S (List.length edges)) (Fin fmin :: edges ++ [Fin fmax]) PInf)
      with (nth (List.length edges) (edges ++ [Fin fmax]) PInf).
    rewrite app_nth2 by lia. rewrite Nat.sub_diag. reflexivity. }
  intros b Hb. rewrite Hl in Hb.
  rewrite !pairs_nth by (rewrite full_edges_length; lia). cbn [fst snd].
  apply nth_indep. rewrite full_edges_length. lia.
Qed.

(* C10: the bins do not overlap - members of a lower bin are strictly below the members of a higher bin *)
Theorem marg_bins_disjoint_ordered fmin fmax edges feature k1 k2 v1 v2 :
  let keys := numeric_keys (digitize_rows KNum fmin fmax edges (xfeature feature)) in
  In v1 (fmembers (Some k1) keys feature) -> In v2 (fmembers (Some k2) keys feature) ->
  (k1 < k2)%nat -> v1 < v2.
Proof.
  cbv zeta. intros H1 H2 Hk. apply fmembers_digitize in H1. apply fmembers_digitize in H2.
  destruct H1 as [_ H1]. destruct H2 as [_ H2].
  destruct (Qlt_le_dec v1 v2) as [Hlt|Hle]; [exact Hlt|].
  assert (Hx : xleb (Fin v2) (Fin v1) = true) by (simpl; apply Qle_bool_iff; exact Hle).
  pose proof (digitize_monotone edges _ _ Hx). lia.
Qed.

(* ------------------------------------------------------------------ *)
(* the order of the output rows of a numerical feature: `.sort(feature_name)` (line 817) sorts by the mean of
   the feature inside the bin; the model orders by bin number.  The two agree: the mean strictly increases
   with the bin number. *)
Lemma Qnat_S n : Qnat (S n) == Qnat n + 1.
Proof. unfold Qnat. rewrite Nat2Z.inj_succ. unfold Z.succ. rewrite inject_Z_plus. reflexivity. Qed.

Lemma Qnat_pos_length {A} (l : list A) : l <> [] -> 0 < Qnat (List.length l).
Proof.
  destruct l as [|x l]; [congruence|]. intros _. cbn [List.length]. rewrite Qnat_S.
  pose proof (Qnat_nonneg (List.length l)). lra.
Qed.

Lemma qsum_le_bound l c : (forall x, In x l -> x <= c) -> qsum l <= c * Qnat (List.length l).
Proof.
  induction l as [|x l IH]; intros H; cbn [qsum List.length].
  - change (Qnat 0) with 0. lra.
  - rewrite Qnat_S. pose proof (H x (or_introl eq_refl)).
    assert (qsum l <= c * Qnat (List.length l)) by (apply IH; intros y Hy; apply H; right; exact Hy). lra.
Qed.

Lemma qsum_gt_bound l c : l <> [] -> (forall x, In x l -> c < x) -> c * Qnat (List.length l) < qsum l.
Proof.
  intros Hne H.
  assert (G : forall l', (forall x, In x l' -> c < x) -> c * Qnat (List.length l') <= qsum l').
  { induction l' as [|x l' IH]; intros H'; cbn [qsum List.length].
    - change (Qnat 0) with 0. lra.
    - rewrite Qnat_S. pose proof (H' x (or_introl eq_refl)).
      assert (c * Qnat (List.length l') <= qsum l') by (apply IH; intros y Hy; apply H'; right; exact Hy). lra. }
  destruct l as [|x l]; [congruence|]. cbn [qsum List.length]. rewrite Qnat_S.
  pose proof (H x (or_introl eq_refl)).
  assert (c * Qnat (List.length l) <= qsum l) by (apply G; intros y Hy; apply H; right; exact Hy). lra.
Qed.

Lemma fmean_eq l : fmean l == qsum l / Qnat (List.length l).
Proof. unfold fmean. apply Qred_correct. Qed.

Lemma fmean_le l c : l <> [] -> (forall x, In x l -> x <= c) -> fmean l <= c.
Proof.
  intros Hne H. rewrite fmean_eq. apply Qle_shift_div_r; [apply Qnat_pos_length; exact Hne|].
  apply qsum_le_bound. exact H.
Qed.
Lemma fmean_gt l c : l <> [] -> (forall x, In x l -> c < x) -> c < fmean l.
Proof.
  intros Hne H. rewrite fmean_eq. apply Qlt_shift_div_l; [apply Qnat_pos_length; exact Hne|].
  apply qsum_gt_bound; assumption.
Qed.

Lemma exists_max (l : list Q) : l <> [] -> exists c, In c l /\ forall x, In x l -> x <= c.
Proof.
  induction l as [|x l IH]; [congruence|]. intros _.
  destruct l as [|y l].
  - exists x. split; [left; reflexivity|]. intros z [<-|[]]. lra.
  - destruct IH as [c [Hc Hmax]]; [discriminate|].
    destruct (Qlt_le_dec c x) as [Hlt|Hle].
    + exists x. split; [left; reflexivity|]. intros z [<-|Hz]; [lra|]. pose proof (Hmax z Hz). lra.
    + exists c. split; [right; exact Hc|]. intros z [<-|Hz]; [exact Hle| apply Hmax; exact Hz].
Qed.

Theorem marg_feature_means_increasing fmin fmax edges feature k1 k2 :
  let keys := numeric_keys (digitize_rows KNum fmin fmax edges (xfeature feature)) in
  let vals1 := fmembers (Some k1) keys feature in
  let vals2 := fmembers (Some k2) keys feature in
  vals1 <> [] -> vals2 <> [] -> (k1 < k2)%nat -> fmean vals1 < fmean vals2.
Proof.
  cbv zeta. intros H1 H2 Hk.
  destruct (exists_max _ H1) as [c [Hc Hmax]].
  apply Qle_lt_trans with c; [apply fmean_le; assumption|].
  apply fmean_gt; [exact H2|]. intros x Hx.
  exact (marg_bins_disjoint_ordered fmin fmax edges feature k1 k2 c x Hc Hx Hk).
Qed.

(* the standard deviation reported in the triple: population variance of the members, unweighted *)
Lemma fvar0_eq l :
  fvar0 l == qsum (map (fun x => (x - fmean l) * (x - fmean l)) l) / Qnat (List.length l).
Proof. unfold fvar0. apply Qred_correct. Qed.

(* ------------------------------------------------------------------ *)
(* partial dependence *)

(* the definitional partial dependence at ONE value v: the weighted average, over the (sub)sampled rows, of the
   prediction for the row with the feature column overwritten by v *)
Definition pd_at (f : xrow -> Q) (Xs : matrix) (j : nat) (ws : option (list Q)) (v : Q) : Q :=
  wmean (combine (map (fun r => f (set_col j v r)) Xs)
                 (match ws with Some w => w | None => repeat 1 (List.length Xs) end)).

Lemma pd_def_pd_at f Xs j grid ws : pd_def f Xs j grid ws = map (pd_at f Xs j ws) grid.
Proof. reflexivity. Qed.

Lemma fill_kept {A} (F : A -> Q) mask (cells : list A) :
  List.length mask = List.length cells ->
  fill mask (map F (kept mask cells))
  = map (fun bc : bool * A => if fst bc then None else Some (F (snd bc))) (combine mask cells).
Proof.
  revert cells. induction mask as [|b mask IH]; intros cells Hl.
  - destruct cells; reflexivity.
  - destruct cells as [|c cells]; [simpl in Hl; lia|]. simpl in Hl.
    destruct b; cbn [kept fill map combine fst snd].
    + rewrite IH by lia. reflexivity.
    + rewrite IH by lia. reflexivity.
Qed.

Lemma drop_mask_length rule str rows mask :
  drop_mask rule str rows = Some mask -> List.length mask = List.length rows.
Proof.
  unfold drop_mask. destruct (negb str).
  - intros H. inversion H. apply map_length.
  - destruct rule.
    + intros H. inversion H. apply map_length.
    + destruct (rev rows) as [|lastr before] eqn:E.
      * intros H. inversion H. rewrite <- (rev_length rows), E. reflexivity.
      * destruct (o_label lastr); [|discriminate]. intros H. inversion H.
        rewrite app_length, map_length, <- (rev_length rows), E. simpl. lia.
Qed.

Lemma combine_map_r {A B C} (g : B -> C) (a : list A) (b : list B) :
  combine a (map g b) = map (fun xy => (fst xy, g (snd xy))) (combine a b).
Proof.
  revert b. induction a as [|x a IH]; intros [|y b]; simpl; try reflexivity. rewrite IH. reflexivity.
Qed.

(* C10: the partial_dependence column.  Whenever the code returns, the entry of every row that was put into the
   grid is the DIRECTLY computed partial dependence at the value in its feature column (bin mean / category /
   null), over the (sub)sampled rows and weights; the rows taken out of the grid hold null.
   Which rows are taken out is `drop_mask`: see marg_mask_code / marg_mask_code below. *)
Theorem marg_pd_column_by_mask f rule str p w rows mask width :
  drop_mask rule str rows = Some mask ->
  rows_of_width width (pi_X p) -> (pi_j p < width)%nat ->
  pd_grid p mask rows <> [] ->
  sample_rows (pi_X p) (pi_nmax p) (pi_idx p) <> [] ->
  oracle_ok (List.length (pi_X p)) (pi_nmax p) (pi_idx p) ->
  weights_ok (List.length (pi_X p)) w (pi_nmax p) (pi_idx p) ->
  let Xs := sample_rows (pi_X p) (pi_nmax p) (pi_idx p) in
  let wsS := sample_weights (List.length (pi_X p)) w (pi_nmax p) (pi_idx p) in
  pd_column f rule str p w rows
  = PCOk (map (fun br : bool * mrow => if fst br then None
                         else Some (pd_at f Xs (pi_j p) wsS (enc_cell p (o_cell (snd br)))))
              (combine mask rows))
         (pred_input CFloat (pi_X p) (pi_j p) (pd_grid p mask rows) (pi_nmax p) (pi_idx p)).
Proof.
  intros Hm HX Hj Hg Hne Ho Hw Xs wsS. unfold pd_column. rewrite Hm.
  rewrite (pd_stacked_eq_def_float f (pi_X p) width (pi_j p) _ w (pi_nmax p) (pi_idx p) HX Hj Hg Hne Ho Hw).
  fold Xs wsS. rewrite pd_def_pd_at. unfold pd_grid. rewrite map_map.
  rewrite (fill_kept (fun c => pd_at f Xs (pi_j p) wsS (enc_cell p c)) mask (map o_cell rows))
    by (rewrite map_length; eapply drop_mask_length; exact Hm).
  rewrite combine_map_r, map_map. reflexivity.
Qed.

Lemma nth_error_combine {A B} (a : list A) (b : list B) i :
  nth_error (combine a b) i
  = match nth_error a i, nth_error b i with Some x, Some y => Some (x, y) | _, _ => None end.
Proof.
  revert b i. induction a as [|x a IH]; intros b i.
  - destruct i; reflexivity.
  - destruct b as [|y b]; destruct i as [|i]; simpl; try reflexivity.
    + destruct (nth_error a i); reflexivity.
    + apply IH.
Qed.

(* the same, row by row *)
Corollary marg_pd_column_by_mask_row f rule str p w rows mask width col seen i r b :
  drop_mask rule str rows = Some mask ->
  rows_of_width width (pi_X p) -> (pi_j p < width)%nat ->
  pd_grid p mask rows <> [] ->
  sample_rows (pi_X p) (pi_nmax p) (pi_idx p) <> [] ->
  oracle_ok (List.length (pi_X p)) (pi_nmax p) (pi_idx p) ->
  weights_ok (List.length (pi_X p)) w (pi_nmax p) (pi_idx p) ->
  pd_column f rule str p w rows = PCOk col seen ->
  nth_error rows i = Some r -> nth_error mask i = Some b ->
  nth_error col i
  = Some (if b then None
          else Some (pd_at f (sample_rows (pi_X p) (pi_nmax p) (pi_idx p)) (pi_j p)
                           (sample_weights (List.length (pi_X p)) w (pi_nmax p) (pi_idx p))
                           (enc_cell p (o_cell r)))).
Proof.
  intros Hm HX Hj Hg Hne Ho Hw Hc Hr Hb.
  rewrite (marg_pd_column_by_mask f rule str p w rows mask width Hm HX Hj Hg Hne Ho Hw) in Hc.
  inversion Hc as [[Hcol Hseen]]. clear Hc Hseen.
  assert (E : nth_error (combine mask rows) i = Some (b, r))
    by (rewrite nth_error_combine, Hb, Hr; reflexivity).
  rewrite (map_nth_error _ _ _ E). reflexivity.
Qed.

(* which rows the code takes out of the grid: never for a numerical feature (line 880); for a string-like
   feature exactly the pooled row (lines 868-879, marg_mask_code below) *)
Theorem marg_mask_code_numeric rule rows : drop_mask rule false rows = Some (map (fun _ => false) rows).
Proof. reflexivity. Qed.

(* OLD rule (before /repo fix 7801489): the LAST row iff its label contains "other " *)

Lemma map_const_rev {A B} (c : B) (l : list A) : map (fun _ => c) (rev l) = map (fun _ => c) l.
Proof.
  induction l as [|x l IH]; simpl; [reflexivity|]. rewrite map_app, IH. simpl.
  clear. induction l as [|y l IH]; simpl; [reflexivity| rewrite IH; reflexivity].
Qed.

Theorem marg_mask_old_rule_string before lastr s :
  o_label lastr = Some s ->
  drop_mask ByLastLabel true (before ++ [lastr])
  = Some (map (fun _ => false) before ++ [contains_other s]).
Proof.
  intros H. unfold drop_mask. cbn [negb]. rewrite rev_app_distr. cbn [rev app]. rewrite H.
  rewrite map_const_rev. reflexivity.
Qed.

(* THE CODE (lines 868-882): exactly the pooled row, wherever it sorts *)
Theorem marg_mask_code rows : drop_mask ByBin true rows = Some (map is_pooled rows).
Proof. reflexivity. Qed.

(* C10: the partial-dependence column of a string-like feature equals the directly computed partial dependence
   at each REAL feature value (every category the feature takes, and null); the pooled row, and only it, holds
   null *)
Corollary marg_pd_is_direct f p w rows width col seen i r :
  rows_of_width width (pi_X p) -> (pi_j p < width)%nat ->
  pd_grid p (map is_pooled rows) rows <> [] ->
  sample_rows (pi_X p) (pi_nmax p) (pi_idx p) <> [] ->
  oracle_ok (List.length (pi_X p)) (pi_nmax p) (pi_idx p) ->
  weights_ok (List.length (pi_X p)) w (pi_nmax p) (pi_idx p) ->
  pd_column f ByBin true p w rows = PCOk col seen ->
  nth_error rows i = Some r ->
  nth_error col i
  = Some (if is_pooled r then None
          else Some (pd_at f (sample_rows (pi_X p) (pi_nmax p) (pi_idx p)) (pi_j p)
                           (sample_weights (List.length (pi_X p)) w (pi_nmax p) (pi_idx p))
                           (enc_cell p (o_cell r)))).
Proof.
  intros HX Hj Hg Hne Ho Hw Hc Hr.
  eapply (marg_pd_column_by_mask_row f ByBin true p w rows (map is_pooled rows) width col seen i r (is_pooled r));
    eauto. apply map_nth_error. exact Hr.
Qed.

(* numerical feature: every row, the null row included, holds the direct partial dependence at its feature value *)
Corollary marg_pd_is_direct_numeric f rule p w rows width col seen i r :
  rows_of_width width (pi_X p) -> (pi_j p < width)%nat ->
  rows <> [] ->
  sample_rows (pi_X p) (pi_nmax p) (pi_idx p) <> [] ->
  oracle_ok (List.length (pi_X p)) (pi_nmax p) (pi_idx p) ->
  weights_ok (List.length (pi_X p)) w (pi_nmax p) (pi_idx p) ->
  pd_column f rule false p w rows = PCOk col seen ->
  nth_error rows i = Some r ->
  nth_error col i
  = Some (Some (pd_at f (sample_rows (pi_X p) (pi_nmax p) (pi_idx p)) (pi_j p)
                      (sample_weights (List.length (pi_X p)) w (pi_nmax p) (pi_idx p))
                      (enc_cell p (o_cell r)))).
Proof.
  intros HX Hj Hrows Hne Ho Hw Hc Hr.
  assert (Hm : drop_mask rule false rows = Some (map (fun _ => false) rows)) by reflexivity.
  assert (Hg : pd_grid p (map (fun _ => false) rows) rows <> []).
  { unfold pd_grid. destruct rows as [|r0 rows']; [congruence|]. simpl. discriminate. }
  rewrite (marg_pd_column_by_mask_row f rule false p w rows _ width col seen i r false Hm HX Hj Hg Hne Ho Hw Hc Hr);
    [reflexivity|].
  erewrite map_nth_error; [reflexivity| exact Hr].
Qed.

(* ------------------------------------------------------------------ *)
(* what the predictor is shown in the feature column *)

(* every value in the feature column of the matrix handed to the predictor is a grid value *)
Lemma shown_in_grid p grid width v :
  rows_of_width width (pi_X p) -> (pi_j p < width)%nat ->
  oracle_ok (List.length (pi_X p)) (pi_nmax p) (pi_idx p) ->
  In v (shown_values p grid) -> In v grid.
Proof.
  intros HX Hj Ho Hv. unfold shown_values, pred_input in Hv. rewrite stacked_rows_flat in Hv.
  apply in_map_iff in Hv. destruct Hv as [r [<- Hr]].
  apply in_flat_map in Hr. destruct Hr as [g [Hg Hr]].
  apply in_map_iff in Hr. destruct Hr as [x [<- Hx]].
  assert (Hw : rows_of_width width (sample_rows (pi_X p) (pi_nmax p) (pi_idx p))).
  { unfold sample_rows, oracle_ok in *. destruct (subsampling (List.length (pi_X p)) (pi_nmax p)); [| exact HX].
    apply index_rows_width; [exact HX| apply Ho]. }
  unfold rows_of_width in Hw. rewrite Forall_forall in Hw. specialize (Hw x Hx).
  rewrite set_col_same by (rewrite Hw; exact Hj). exact Hg.
Qed.

Lemma kept_map_filter {A B} (P : A -> bool) (F : A -> B) l :
  kept (map P l) (map F l) = map F (filter (fun x => negb (P x)) l).
Proof.
  induction l as [|x l IH]; [reflexivity|]. cbn [map kept filter].
  destruct (P x); cbn [negb]; [exact IH| cbn [map]; rewrite IH; reflexivity].
Qed.

Lemma bin_of_in g keys bins :
  In g keys -> List.length keys = List.length bins -> In (bin_of g keys bins) bins.
Proof.
  revert bins. induction keys as [|k keys IH]; intros bins Hin Hl; [contradiction|].
  destruct bins as [|b bins]; [simpl in Hl; lia|]. cbn [bin_of].
  destruct (okey_eqb k g) eqn:E; [left; reflexivity|].
  right. apply IH; [|simpl in Hl; lia].
  destruct Hin as [->|Hin]; [rewrite okey_eqb_refl in E; discriminate| exact Hin].
Qed.

Lemma sbin_in_feature kind names feature n_bins n kept_ label k bins b :
  bin_string kind names feature n_bins = SOk n kept_ label k bins ->
  In b bins ->
  match b with
  | SBNull => In None feature
  | SBKeep c => In (Some c) feature
  | SBOther => label <> None
  end.
Proof.
  intros H Hb. destruct (sbin_total _ _ _ _ _ _ _ _ _ H) as [_ T].
  apply In_nth_error in Hb. destruct Hb as [i Hi]. specialize (T i).
  destruct (nth_error feature i) as [o|] eqn:E; [|congruence].
  pose proof (nth_error_In _ _ E) as Hin.
  destruct o as [c|].
  - destruct T as [[T1 _]|[T1 [_ T3]]]; rewrite T1 in Hi; inversion Hi; subst; [exact Hin| exact T3].
  - rewrite T in Hi. inversion Hi; subst. exact Hin.
Qed.

(* the feature cell of every row of the table of a string-like feature is null (and the feature has a null),
   a category the feature really takes, or the pooled bin *)
Lemma str_table_cells kind names feature n_bins n kept_ label k bins ys zs ws r :
  bin_string kind names feature n_bins = SOk n kept_ label k bins ->
  In r (str_table kind names label bins ys zs ws) ->
  match o_cell r with
  | FCNull => In None feature
  | FCCat c => In (Some c) feature
  | FCPooled => label <> None
  | _ => False
  end.
Proof.
  intros H Hr. unfold str_table in Hr. apply in_map_iff in Hr. destruct Hr as [s [<- Hs]].
  destruct (marg_row_is_definition _ _ Hs) as [Hpres _].
  apply present_iff in Hpres. destruct Hpres as [row [Hrow Hrk]].
  apply zip4_key_in in Hrow. rewrite Hrk in Hrow.
  assert (Hl : List.length (string_keys kind names label bins) = List.length bins).
  { unfold string_keys. destruct kind; apply map_length. }
  pose proof (bin_of_in _ _ _ Hrow Hl) as Hb.
  pose proof (sbin_in_feature _ _ _ _ _ _ _ _ _ _ H Hb) as Hf.
  unfold str_row. cbn [o_cell].
  destruct (bin_of (m_key s) (string_keys kind names label bins) bins); exact Hf.
Qed.

(* C10 (the code as it is, rule ByBin): the artificial pooled category is never shown to the model - every
   value the predictor finds in the feature column is the code of a category the feature really takes, or
   the null code (and then the feature has a null) *)
Theorem marg_pooled_never_shown kind names feature n_bins n kept_ label k bins ys zs ws p width v :
  bin_string kind names feature n_bins = SOk n kept_ label k bins ->
  rows_of_width width (pi_X p) -> (pi_j p < width)%nat ->
  oracle_ok (List.length (pi_X p)) (pi_nmax p) (pi_idx p) ->
  let rows := str_table kind names label bins ys zs ws in
  In v (shown_values p (pd_grid p (map is_pooled rows) rows)) ->
  (v = pi_nullq p /\ In None feature) \/ (exists c, v = Qnat c /\ In (Some c) feature).
Proof.
  intros H HX Hj Ho rows Hv.
  apply (shown_in_grid p _ width v HX Hj Ho) in Hv.
  unfold pd_grid in Hv. rewrite kept_map_filter in Hv. rewrite map_map in Hv.
  apply in_map_iff in Hv. destruct Hv as [r [<- Hr]]. apply filter_In in Hr. destruct Hr as [Hr Hnp].
  pose proof (str_table_cells _ _ _ _ _ _ _ _ _ _ _ _ r H Hr) as Hc.
  unfold is_pooled in Hnp. destruct (o_cell r) as [| |mean|c|]; cbn [enc_cell] in *;
    try contradiction; try discriminate.
  - left. auto.
  - right. exists c. auto.
Qed.

(* RECORD OF THE OLD RULE (ByLastLabel, before /repo fix 7801489): the same held only on inputs on which the old
   lines 868-870 picked exactly the pooled row; without that hypothesis it was FALSE
   (marg_pooled_never_shown_refuted) *)
Theorem marg_old_rule_pooled_never_shown_partial kind names feature n_bins n kept_ label k bins ys zs ws p width mask v :
  bin_string kind names feature n_bins = SOk n kept_ label k bins ->
  rows_of_width width (pi_X p) -> (pi_j p < width)%nat ->
  oracle_ok (List.length (pi_X p)) (pi_nmax p) (pi_idx p) ->
  let rows := str_table kind names label bins ys zs ws in
  drop_mask ByLastLabel true rows = Some mask ->
  mask = map is_pooled rows ->               (* the last row is the pooled one, or nothing is pooled and the last
                                                label does not contain "other " *)
  In v (shown_values p (pd_grid p mask rows)) ->
  (v = pi_nullq p /\ In None feature) \/ (exists c, v = Qnat c /\ In (Some c) feature).
Proof.
  intros H HX Hj Ho rows _ -> Hv.
  exact (marg_pooled_never_shown _ _ _ _ _ _ _ _ _ ys zs ws p width v H HX Hj Ho Hv).
Qed.

(* numerical feature: the predictor sees the values of the feature column of the result (bin means; the null
   code for the null row) and nothing else *)
Theorem marg_numeric_shown rule p rows width v :
  rows_of_width width (pi_X p) -> (pi_j p < width)%nat ->
  oracle_ok (List.length (pi_X p)) (pi_nmax p) (pi_idx p) ->
  In v (shown_values p (pd_grid p (map (fun _ => false) rows) rows)) ->
  drop_mask rule false rows = Some (map (fun _ => false) rows) /\
  exists r, In r rows /\ v = enc_cell p (o_cell r).
Proof.
  intros HX Hj Ho Hv. split; [reflexivity|].
  apply (shown_in_grid p _ width v HX Hj Ho) in Hv.
  unfold pd_grid in Hv. rewrite (kept_map_filter (fun _ : mrow => false) o_cell rows) in Hv.
  rewrite map_map in Hv. apply in_map_iff in Hv. destruct Hv as [r [<- Hr]].
  apply filter_In in Hr. exists r. split; [tauto| reflexivity].
Qed.

(* ------------------------------------------------------------------ *)
(* RECORDS OF THE OLD RULE - before /repo fix 7801489 ("compute_marginal shows the pooled category to the model
   and drops the partial dependence of real categories").  `ByLastLabel` is the rule the code USED to apply;
   each witness also states what the current rule (ByBin) gives on the same input.  These theorems say nothing
   about the current code except through their ByBin parts. *)
Definition pd_cols (r : mres) : list (option (list (option Q))) :=
  match r with MOk l _ => map snd l | _ => [] end.
Definition labels_of (r : mres) : list (list (option string)) :=
  match r with MOk l _ => map (fun t => map o_label (fst t)) l | _ => [] end.
Definition cells_of (r : mres) : list (list fcell) :=
  match r with MOk l _ => map (fun t => map o_cell (fst t)) l | _ => [] end.
Definition shown_of (j : nat) (r : mres) : list Q :=
  match r with MOk _ (Some seen) => map (fun x => nth j x 0) seen | _ => [] end.

(* former finding D4 (OLD rule).  Categories zz x3, yy x2, xx, ww, vv (ranks vv=0 .. zz=4), n_bins = 3: "zz" and "yy" are kept, the other
   three are pooled as "other 3", which sorts FIRST.  The last label "zz" does not contain "other ", so the
   pooled label stays in the grid: the predictor (row sum) is called with the artificial category (code 99),
   and the pooled row gets a "partial dependence". *)
Definition d4_names : list string := ["vv"; "ww"; "xx"; "yy"; "zz"]%string.
Definition d4_feature : list (option nat) := [Some 4; Some 4; Some 4; Some 3; Some 3; Some 2; Some 1; Some 0]%nat.
Definition d4_y : list Q := [0; 1; 2; 3; 4; 5; 6; 7].
Definition d4_z : list Q := [1; 2; 3; 4; 5; 6; 7; 8].
Definition d4_p : pdin :=
  mkpdin [[4; 0]; [4; 1]; [4; 2]; [3; 3]; [3; 4]; [2; 5]; [1; 6]; [0; 7]] 0 (-1) 99 None [].
Definition d4_run (rule : pool_rule) : mres :=
  compute_marginal rowsum rule d4_y [d4_z] (MFStr SString d4_names d4_feature) 3 None (Some d4_p).

Theorem marg_pooled_never_shown_refuted :
  labels_of (d4_run ByLastLabel) = [[Some "other 3"; Some "yy"; Some "zz"]]%string /\
  cells_of (d4_run ByLastLabel) = [[FCPooled; FCCat 3; FCCat 4]] /\
  pd_cols (d4_run ByLastLabel) = [Some [Some (205 # 2); Some (13 # 2); Some (15 # 2)]] /\
  existsb (Qeq_bool 99) (shown_of 0 (d4_run ByLastLabel)) = true /\            (* the pooled code IS shown *)
  forallb (fun o => match o with Some c => negb (Qeq_bool (Qnat c) 99) | None => true end) d4_feature = true /\
  (* the intended rule on the same input *)
  pd_cols (d4_run ByBin) = [Some [None; Some (13 # 2); Some (15 # 2)]] /\
  existsb (Qeq_bool 99) (shown_of 0 (d4_run ByBin)) = false.
Proof. vm_compute. repeat split. Qed.

(* former finding D5 (OLD rule).  Categories a, a, b, "other x", nothing pooled (n_bins = 10).  The REAL category "other x" sorts last and
   contains "other ": it is taken out of the grid and its partial dependence is null. *)
Definition d5_names : list string := ["a"; "b"; "other x"]%string.
Definition d5_feature : list (option nat) := [Some 0; Some 0; Some 1; Some 2]%nat.
Definition d5_p : pdin := mkpdin [[0; 0]; [0; 1]; [1; 2]; [2; 3]] 0 (-1) 99 None [].
Definition d5_run (rule : pool_rule) : mres :=
  compute_marginal rowsum rule [0; 1; 2; 3] [[1; 2; 3; 4]] (MFStr SString d5_names d5_feature) 10 None (Some d5_p).

Theorem marg_real_other_lost_pd_refuted :
  labels_of (d5_run ByLastLabel) = [[Some "a"; Some "b"; Some "other x"]]%string /\
  cells_of (d5_run ByLastLabel) = [[FCCat 0; FCCat 1; FCCat 2]] /\            (* three REAL categories *)
  pd_cols (d5_run ByLastLabel) = [Some [Some (3 # 2); Some (5 # 2); None]] /\   (* the last one has no value *)
  pd_cols (d5_run ByBin) = [Some [Some (3 # 2); Some (5 # 2); Some (7 # 2)]].
Proof. vm_compute. repeat split. Qed.

(* OLD rule: a single real category containing "other ": the grid was empty, the code raised (ZeroDivisionError /
   IndexError).  Current rule: returns, the category has its partial dependence. *)
Theorem marg_only_other_category_raises :
  compute_marginal rowsum ByLastLabel [0; 1] [[1; 2]] (MFStr SString ["other x"%string] [Some 0%nat; Some 0%nat]) 3 None
    (Some (mkpdin [[0; 0]; [0; 1]] 0 (-1) 99 None [])) = MPdErr EEmptyGrid /\
  pd_cols (compute_marginal rowsum ByBin [0; 1] [[1; 2]] (MFStr SString ["other x"%string] [Some 0%nat; Some 0%nat]) 3 None
    (Some (mkpdin [[0; 0]; [0; 1]] 0 (-1) 99 None []))) = [Some [Some (1 # 2)]].
Proof. vm_compute. split; reflexivity. Qed.

(* OLD rule: an all-null string-like feature with a predict function: `"other " in None`, TypeError at the old
   line 869.  Current rule: returns, the null group has the partial dependence at null. *)
Theorem marg_all_null_string_raises :
  compute_marginal rowsum ByLastLabel [0; 1] [[1; 2]] (MFStr SString [] [None; None]) 3 None
    (Some (mkpdin [[-1; 0]; [-1; 1]] 0 (-1) 99 None [])) = MNullLabel /\
  cells_of (compute_marginal rowsum ByBin [0; 1] [[1; 2]] (MFStr SString [] [None; None]) 3 None
    (Some (mkpdin [[-1; 0]; [-1; 1]] 0 (-1) 99 None []))) = [[FCNull]] /\
  pd_cols (compute_marginal rowsum ByBin [0; 1] [[1; 2]] (MFStr SString [] [None; None]) 3 None
    (Some (mkpdin [[-1; 0]; [-1; 1]] 0 (-1) 99 None []))) = [Some [Some (-1 # 2)]].
Proof. vm_compute. repeat split. Qed.

(* ------------------------------------------------------------------ *)
(* sanity: the two docstring examples (lines 617-651).  First: y_obs_mean 0.5, y_pred_mean 0.75,
   stderr^2 = 0.288675^2 = 1/12 and 0.629153^2 = 19/48, count 4, weights 4.  Second (feature column 0 of X,
   8 numpy-"sturges" bins collapse to interior edges [1; 2]): feature column 0.5, 2, 3; bin_edges
   [0, 0.5, 1], [1, 0, 2], [2, 0, 3] (std squared here: 1/4, 0, 0). *)
Example marg_docstring_example_1 :
  match compute_marginal rowsum ByBin [0; 0; 1; 1] [[-1; 1; 1; 2]] MFNone 10 None None with
  | MOk [([r], None)] None =>
      y_obs_mean (o_stat r) = 1 # 2 /\ y_pred_mean (o_stat r) = 3 # 4 /\
      y_obs_stderr2 (o_stat r) = 1 # 12 /\ y_pred_stderr2 (o_stat r) = 19 # 48 /\
      m_count (o_stat r) = 4%nat /\ m_weights (o_stat r) = 4
  | _ => False
  end.
Proof. vm_compute. repeat split. Qed.

Example marg_docstring_example_2 :
  let r := compute_marginal (fun r => Qred ((-1 # 8) + (1 # 4) * nth 0 r 0 + (1 # 4) * nth 1 r 0)) ByBin
             [0; 0; 1; 1] [[1 # 8; 3 # 8; 5 # 8; 7 # 8]] (MFNum [Some 0; Some 1; Some 2; Some 3] NumpyRule [1; 2]) 10 None
             (Some (mkpdin [[0; 1]; [1; 1]; [2; 2]; [3; 2]] 0 (-1) 99 (Some 1000%nat) [])) in
  cells_of r = [[FCNum (1 # 2); FCNum 2; FCNum 3]] /\
  match r with
  | MOk [(t, _)] _ => map o_edges t = [Some (Fin 0, 1 # 4, Fin 1); Some (Fin 1, 0, Fin 2); Some (Fin 2, 0, Fin 3)]
  | _ => False
  end /\
  pd_cols r = [Some [Some (3 # 8); Some (3 # 4); Some 1]].
Proof. vm_compute. repeat split. Qed.

(* ------------------------------------------------------------------ *)
(* the whole function: what a successful run consists of.  Every per-model table is `table_of` of that model
   column (hence num_table / str_table / the ungrouped row by marg_no_truncation_numeric, _string), and with a
   predict function and a feature every partial_dependence column is `pd_column` of that table *)
Lemma all_models_inv ts tabs :
  all_models ts = inr tabs -> Forall2 (fun t tab => t = TOk tab) ts tabs.
Proof.
  revert tabs. induction ts as [|t ts IH]; intros tabs H; simpl in H.
  - inversion H. constructor.
  - destruct t; try discriminate. destruct (all_models ts) as [e|l]; [discriminate|].
    inversion H; subst. constructor; [reflexivity| apply IH; reflexivity].
Qed.

Lemma with_pd_inv f rule str p w tabs l :
  with_pd f rule str p w tabs = inr l ->
  (map fst l = tabs)%type /\
  Forall (fun tc => exists col seen, pd_column f rule str p w (fst tc) = PCOk col seen /\ snd tc = Some col) l.
Proof.
  revert l. induction tabs as [|t tabs IH]; intros l H; simpl in H.
  - inversion H. split; [reflexivity| constructor].
  - destruct (pd_column f rule str p w t) as [col seen| |e] eqn:E; try discriminate.
    destruct (with_pd f rule str p w tabs) as [e|l']; [discriminate|].
    inversion H; subst. destruct (IH l' eq_refl) as [I1 I2].
    split; [simpl; rewrite I1; reflexivity|].
    constructor; [|exact I2]. exists col, seen. auto.
Qed.

Theorem marg_compute_structure f rule ys models ft n_bins weights pd l seen :
  compute_marginal f rule ys models ft n_bins weights pd = MOk l seen ->
  let ws := match weights with Some w => w | None => map (fun _ => 1) ys end in
  Forall2 (fun zs t => table_of ft n_bins ys zs ws = TOk t) models (map fst l) /\
  match pd with
  | Some p =>
      if has_feature ft
      then Forall (fun tc => exists col seen', pd_column f rule (is_str ft) p weights (fst tc) = PCOk col seen' /\
                                               snd tc = Some col) l
      else Forall (fun tc => snd tc = None) l
  | None => Forall (fun tc => snd tc = None) l
  end.
Proof.
  unfold compute_marginal. intros H.
  set (ws := match weights with Some w => w | None => map (fun _ => 1) ys end) in *.
  destruct (all_models (map (fun zs => table_of ft n_bins ys zs ws) models)) as [e|tabs] eqn:E.
  { destruct e; discriminate. }
  apply all_models_inv in E.
  assert (HF : Forall2 (fun zs t => table_of ft n_bins ys zs ws = TOk t) models tabs).
  { clear H. revert tabs E. induction models as [|zs models IH]; intros tabs E; inversion E; subst; constructor; auto. }
  assert (Hnone : forall tabs', Forall (fun tc : list mrow * option (list (option Q)) => snd tc = None)
                                       (map (fun t => (t, None)) tabs')).
  { intros tabs'. apply Forall_forall. intros tc Htc. apply in_map_iff in Htc. destruct Htc as [t [<- _]]. reflexivity. }
  destruct pd as [p|].
  - destruct (has_feature ft).
    + destruct (with_pd f rule (is_str ft) p weights tabs) as [e|l'] eqn:Ew.
      { destruct e; discriminate. }
      inversion H; subst. apply with_pd_inv in Ew. destruct Ew as [W1 W2]. rewrite W1. split; assumption.
    + inversion H; subst. rewrite map_map. cbn [fst]. rewrite map_id. split; [exact HF| apply Hnone].
  - inversion H; subst. rewrite map_map. cbn [fst]. rewrite map_id. split; [exact HF| apply Hnone].
Qed.

(* the hypotheses of marg_pd_column_by_mask are satisfiable: the docstring example (X = [[0,1],[1,1],[2,2],[3,2]]) *)
Example marg_pd_hypotheses_satisfiable :
  let p := mkpdin [[0; 1]; [1; 1]; [2; 2]; [3; 2]] 0 (-1) 99 (Some 1000%nat) [] in
  rows_of_width 2 (pi_X p) /\ (pi_j p < 2)%nat /\
  sample_rows (pi_X p) (pi_nmax p) (pi_idx p) <> [] /\
  oracle_ok (List.length (pi_X p)) (pi_nmax p) (pi_idx p) /\
  weights_ok (List.length (pi_X p)) None (pi_nmax p) (pi_idx p).
Proof.
  cbv zeta. split; [|split; [|split; [|split]]].
  - unfold rows_of_width. cbn [pi_X]. repeat (constructor; [reflexivity|]). constructor.
  - cbn [pi_j]. lia.
  - vm_compute. discriminate.
  - vm_compute. exact I.
  - vm_compute. exact I.
Qed.

Print Assumptions marg_compute_structure.
Print Assumptions marg_all_is_definition.
Print Assumptions marg_group_exists.
Print Assumptions marg_counts_sum.
Print Assumptions marg_weights_sum.
Print Assumptions marg_null_group.
Print Assumptions marg_minus_obs_is_bias.
Print Assumptions marg_minus_obs_is_bias_ungrouped.
Print Assumptions marg_perm.
Print Assumptions marg_all_perm.
Print Assumptions marg_no_truncation_numeric.
Print Assumptions marg_no_truncation_string.
Print Assumptions marg_bin_edges.
Print Assumptions marg_null_edges.
Print Assumptions marg_bins_consecutive_span.
Print Assumptions marg_bins_disjoint_ordered.
Print Assumptions marg_feature_means_increasing.
Print Assumptions marg_pd_column_by_mask.
Print Assumptions marg_pd_column_by_mask_row.
Print Assumptions marg_pd_is_direct.
Print Assumptions marg_pd_is_direct_numeric.
Print Assumptions marg_mask_old_rule_string.
Print Assumptions marg_pooled_never_shown.
Print Assumptions marg_old_rule_pooled_never_shown_partial.
Print Assumptions marg_numeric_shown.
Print Assumptions marg_pooled_never_shown_refuted.
Print Assumptions marg_real_other_lost_pd_refuted.
Print Assumptions marg_only_other_category_raises.
Print Assumptions marg_all_null_string_raises.
