(* C06, signs of the decomposition for the score families NOT covered by
   proofs/DecomposeProps.v (which has: squared error, degree-2 expectile score, pinball
   loss in exact arithmetic; all Bregman scores of the mean in world R).

   World R, the model `recalibrate` of model/Decompose.v:

   Part A  recal_sign_R        generic: from "the isotonic fit minimises the total real score TR
                               among all admissible monotone rational sequences" to "the
                               recalibrated forecast scores no worse than the forecast and than
                               any admissible constant";  recal_ge_min: every recalibrated value
                               is >= the smallest observation.
   Part B  recal_expectile_sign  every HomogeneousExpectileScore(degree h, level a), 0 < a < 1,
                               expectile functional, weights allowed
                               (Sa_subgrad_anyY: the sub-gradient inequality of the asymmetric
                               Bregman score needs no hypothesis on the observation).
   Part C  recal_logloss_sign  LogLoss, mean functional; HYPOTHESIS: the recalibrated values
                               are in (0,1) (a block of observations that are all 0 or all 1 is
                               recalibrated to 0 or 1, where the library's log loss is not finite).
   Part D  recal_quantile_sign every HomogeneousQuantileScore(degree h, level a) incl. pinball
                               loss, quantile functional (the library rejects weights there).
   Part E  decomp_dsc_zero_if_constant_quantile   discrimination = 0 for a constant forecast
                               column, quantile functional (exact arithmetic, no axioms): the
                               recalibrated value of the single tie group and the marginal are
                               the same midpoint of lower and upper quantile (recal_constant_quantile).
   Part F  marginal_ge_min     the marginal forecast is >= the smallest observation (all functionals);
           recal_expectile_sign_marginal, recal_quantile_sign_marginal: Parts B and D with the model's
           own marginal as the constant (mcb >= 0 and dsc >= 0 in R under "min y admissible" alone);
           recal_range; recal_logloss_sign_interior (observations strictly inside (0,1)).
   Part G  recal_idempotent_quantile   x = recalibrate(x0) => recalibrate(x) == x, quantile
                               functional (exact arithmetic, no axioms), from cert_unique_blocks:
                               a certified partition into pooled blocks is unique (any instance).
   Part H  recal_idempotent (mean, expectile), recal_idempotent_all, and
           decomp_mcb_zero_if_recalibrated: miscalibration = 0 for a forecast column that is the
                               OUTPUT of a recalibration (mean, expectile, quantile, median alias).
   Checked besides the proofs: the quantile idempotence was first searched for counterexamples by
   vm_compute over all y in {0..3}^5 / {0..2}^6, several tie patterns of x0 and five levels
   (31 415 cases, none found) before it was proved.

   The total real score of a forecast vector u is  tlossR TR (combine y wl) u
   = sum_i w_i * TR y_i u_i  (DecomposeProps.tlossR); mcb = (score(x) - score(r)) / sum w,
   dsc = (score(marginal) - score(r)) / sum w, so the two inequalities of every theorem are
   mcb >= 0 and dsc >= 0 in R. *)
From Coq Require Import QArith Qabs Qreduction Lqa Lia List Bool Permutation Sorted.
Import ListNotations.
From Coq Require Import Qreals Reals Lra.
From MD Require Import lib.QLists lib.NumpyR model.Functionals model.Gpava model.Isotonic model.Decompose
  spec.Scores
  theory.GpavaMerge theory.GInst theory.GpavaCert theory.Optimal theory.InstMean theory.InstExpectile
  theory.InstQuantile theory.Transport theory.IsoOptimal theory.Bregman theory.Powers
  proofs.IsoProps proofs.IsoQuantProps proofs.IsoContract proofs.ScoreProps proofs.Consistency
  proofs.DecomposeProps.
Open Scope Q_scope.

(* ================================================================== *)
(* Part A.  Generic: from optimality of the fit to the two signs       *)
(* ================================================================== *)
Lemma in_combine_exists (A B : Type) : forall (ks : list A) (v : list B) q,
  length ks = length v -> In q v -> exists k, In (k, q) (combine ks v).
Proof.
  induction ks as [|k ks IH]; intros v q Hl Hq.
  - destruct v; [destruct Hq| discriminate Hl].
  - destruct v as [|z v]; [destruct Hq|]. cbn [length] in Hl.
    destruct Hq as [->|Hq].
    + exists k. left. reflexivity.
    + destruct (IH v q ltac:(lia) Hq) as (k' & Hk'). exists k'. right. exact Hk'.
Qed.

(* the entries of the un-sorted vector are the entries of the fit *)
Lemma unsort_in_r (ks : list nat) (v : list Q) q :
  In q (map snd (isort idx_le (combine ks v))) -> In q v.
Proof.
  intros H. apply in_map_iff in H. destruct H as ([k q'] & <- & Hin). cbn [snd].
  assert (Hin2 : In (k, q') (combine ks v)) by (eapply Permutation_in; [apply isort_perm| exact Hin]).
  exact (in_combine_r _ _ _ _ Hin2).
Qed.

Lemma unsort_in_v (ks : list nat) (v : list Q) q : length ks = length v ->
  In q v -> In q (map snd (isort idx_le (combine ks v))).
Proof.
  intros Hl Hq. destruct (in_combine_exists _ _ ks v q Hl Hq) as (k & Hk).
  change q with (snd (k, q)). apply in_map.
  eapply Permutation_in; [apply Permutation_sym, isort_perm| exact Hk].
Qed.

(* every recalibrated value is at least the smallest observation (all functionals) *)
Theorem recal_ge_min : forall f a x y w r,
  length x = length y ->
  (match w with None => True | Some wl => length wl = length y end) ->
  recalibrate f a x y w = DOk r ->
  Forall (fun q => minQ (hd 0 y) (tl y) <= q) r.
Proof.
  intros f a x y w r Hx Hw Hr.
  set (wl := weights_or_ones (length y) w).
  assert (Hwl : length wl = length y).
  { unfold wl. destruct w as [wl0|]; cbn [weights_or_ones]; [exact Hw| apply repeat_length]. }
  unfold recalibrate in Hr.
  set (srt := sorted_rows x y w) in *.
  set (ws := match w with None => None | Some _ => Some (map r_w srt) end) in *.
  destruct (isotonic_regression (map r_y srt) ws true f a) as [[v rr]|e] eqn:Ei; [|discriminate Hr].
  injection Hr as <-.
  destruct (iso_contract_all _ _ _ _ _ _ _ Ei) as (_ & _ & _ & _ & _ & _ & Hrange).
  assert (Hperm : Permutation srt (mkrows 0 x y wl)) by (unfold srt, sorted_rows; apply isort_perm).
  apply Forall_forall. intros q Hq. apply unsort_in_r in Hq.
  destruct (Hrange q Hq) as (lo & hi & Hlo & _ & Hle & _).
  assert (Hin : In lo y).
  { rewrite <- (mkrows_y x y wl 0 Hx Hwl). apply in_map_iff in Hlo. destruct Hlo as (r0 & <- & Hr0).
    apply in_map. eapply Permutation_in; [exact Hperm| exact Hr0]. }
  destruct y as [|y0 ytl]; [destruct Hin|]. cbn [hd tl].
  destruct (minQ_le y0 ytl) as [M1 M2].
  destruct Hin as [<-|Hin]; [Lqa.lra|]. pose proof (M2 lo Hin). Lqa.lra.
Qed.

Section SignR.
Variable TR : R -> R -> R.
Variable f : ifun.
Variable a : Q.
Variable domq : Q -> Prop.      (* the admissible predictions of the score *)
Variable domy : Q -> Prop.      (* what the optimality proof needs of the observations *)

(* the fit minimises the total score among the admissible monotone rational sequences,
   provided its own values are admissible *)
Hypothesis HoptR : forall ys ws v rr, ys <> [] -> valid_w ys ws ->
  isotonic_regression ys ws true f a = IOk (v, rr) -> Forall domq v -> Forall domy ys ->
  length v = length ys /\
  forall u : list Q, length u = length ys -> sortedQ u -> Forall domq u ->
    (tlossR TR (data ys ws) v <= tlossR TR (data ys ws) u)%R.

Theorem recal_sign_R : forall x y w r,
  y <> [] -> length x = length y ->
  (match w with None => True | Some wl => length wl = length y end) ->
  all_pos_w w = true ->
  recalibrate f a x y w = DOk r ->
  Forall domq r -> Forall domq x -> Forall domy y ->
  let wl := weights_or_ones (length y) w in
  length r = length y /\
  (tlossR TR (combine y wl) r <= tlossR TR (combine y wl) x)%R /\
  forall c, domq c ->
    (tlossR TR (combine y wl) r <= tlossR TR (combine y wl) (repeat c (length y)))%R.
Proof.
  intros x y w r Hn Hx Hw Hp Hr Hrd Hxd Hyd wl.
  assert (Hwl : length wl = length y).
  { unfold wl. destruct w as [wl0|]; cbn [weights_or_ones]; [exact Hw| apply repeat_length]. }
  destruct (sorted_data x y w Hx Hw Hp) as (Hv & Hd & Hpw & Hlen). cbv zeta in Hv, Hd, Hpw, Hlen.
  unfold recalibrate in Hr.
  set (srt := sorted_rows x y w) in *.
  set (ws := match w with None => None | Some _ => Some (map r_w srt) end) in *.
  destruct (isotonic_regression (map r_y srt) ws true f a) as [[v rr]|e] eqn:Ei; [|discriminate Hr].
  injection Hr as <-.
  assert (Hperm : Permutation srt (mkrows 0 x y wl)) by (unfold srt, sorted_rows; apply isort_perm).
  assert (Hysd : Forall domy (map r_y srt)).
  { apply Forall_forall. intros q Hq. rewrite Forall_forall in Hyd. apply Hyd.
    rewrite <- (mkrows_y x y wl 0 Hx Hwl). apply in_map_iff in Hq. destruct Hq as (r0 & <- & Hr0).
    apply in_map. eapply Permutation_in; [exact Hperm| exact Hr0]. }
  assert (Hne : map r_y srt <> []).
  { intros E. apply (f_equal (@length Q)) in E. rewrite map_length, Hlen in E.
    destruct y; [congruence| discriminate E]. }
  assert (Lv : length v = length y).
  { destruct (iso_contract_all _ _ _ _ _ _ _ Ei) as (L & _). rewrite L, map_length. exact Hlen. }
  assert (Hvd : Forall domq v).
  { apply Forall_forall. intros q Hq. rewrite Forall_forall in Hrd. apply Hrd.
    apply unsort_in_v; [rewrite map_length; congruence| exact Hq]. }
  destruct (HoptR _ _ _ _ Hne Hv Ei Hvd Hysd) as (_ & HO). rewrite Hd in HO.
  assert (Lr : length (map snd (isort idx_le (combine (map r_idx srt) v))) = length y).
  { rewrite map_length, isort_length, combine_length, map_length, Hlen, Lv. apply Nat.min_id. }
  split; [exact Lr|].
  assert (ER : tlossR TR (combine y wl) (map snd (isort idx_le (combine (map r_idx srt) v)))
               = tlossR TR (map elt_of srt) v).
  { exact (total_recalR TR x y wl v Hx Hwl Lv). }
  assert (EF : tlossR TR (combine y wl) x = tlossR TR (map elt_of srt) (map r_x srt)).
  { exact (total_forecastR TR x y wl Hx Hwl). }
  assert (EC : forall m, tlossR TR (combine y wl) (repeat m (length y))
                         = tlossR TR (map elt_of srt) (repeat m (length srt))).
  { intros m. exact (total_constantR TR x y wl m Hx Hwl). }
  split.
  - rewrite ER, EF. apply HO.
    + rewrite !map_length. reflexivity.
    + apply sorted_rows_x. unfold srt, sorted_rows. apply isort_sorted. exact row_le_total.
    + apply Forall_forall. intros q Hq. apply in_map_iff in Hq. destruct Hq as (r0 & <- & Hr0).
      assert (Hin : In (r_x r0) x).
      { rewrite <- (mkrows_x x y wl 0 Hx Hwl). apply in_map.
        eapply Permutation_in; [exact Hperm| exact Hr0]. }
      rewrite Forall_forall in Hxd. exact (Hxd _ Hin).
  - intros c Hc. rewrite ER, (EC c). apply HO.
    + rewrite repeat_length, map_length. reflexivity.
    + apply sortedQ_repeat.
    + apply Forall_forall. intros q Hq. apply repeat_spec in Hq. subst q. exact Hc.
Qed.
End SignR.

(* block values of a certified stack are admissible when the fitted values are *)
Lemma F2_Qeq_In_r : forall a b, Forall2 Qeq a b -> forall v', In v' b -> exists v, In v a /\ v == v'.
Proof.
  intros a b H. induction H as [|p q a b Hpq H IH]; intros v' Hin; [destruct Hin|].
  destruct Hin as [<-|Hin].
  - exists p. split; [left; reflexivity| exact Hpq].
  - destruct (IH v' Hin) as (v & Hv & E). exists v. split; [right; exact Hv| exact E].
Qed.

Lemma stack_dom_of_fit (I : GInst) (dom : R -> Prop) stk (v : list Q) :
  stack_ok I stk -> Forall2 Qeq v (expand (g_elt I) stk) ->
  Forall (fun q => dom (Q2R q)) v -> Forall (fun b => dom (Q2R (bv b))) stk.
Proof.
  intros Hok HQ Hd. apply Forall_forall. intros b Hb.
  pose proof (stack_ok_nonempty I stk Hok) as Hne. rewrite Forall_forall in Hne.
  pose proof (Hne b Hb) as Hbn. cbv beta in Hbn.
  assert (Hin : In (bv b) (expand (g_elt I) stk)).
  { unfold expand. apply in_flat_map. exists b. split; [apply -> in_rev; exact Hb|].
    destruct (bel b) as [|e l]; [congruence|]. left. reflexivity. }
  destruct (F2_Qeq_In_r _ _ HQ _ Hin) as (q & Hq & E).
  rewrite Forall_forall in Hd. rewrite <- (Qeq_eqR _ _ E). exact (Hd q Hq).
Qed.

(* ================================================================== *)
(* Part B.  Asymmetric Bregman scores: HomogeneousExpectileScore(h, a) *)
(* ================================================================== *)
Section SaAnyY.
Local Open Scope R_scope.
Variables dY dZ : R -> Prop.
Variables phi dphi : R -> R.
Hypothesis dZ_sub : forall x, dZ x -> dY x.
Hypothesis dZ_convex : forall a b x, dZ a -> dZ b -> a <= x <= b -> dZ x.
Hypothesis D_nonneg : forall y z, dY y -> dZ z -> 0 <= phi y - phi z - dphi z * (y - z).
Hypothesis dphi_mono : forall a b, dZ a -> dZ b -> a <= b -> dphi a <= dphi b.

(* Bregman.Sa_subgrad without the hypothesis "y is an admissible observation": when y is
   not between t and u only the algebraic three-point identity is used *)
Lemma Sa_subgrad_anyY a y t u :
  0 < a < 1 -> dZ t -> dZ u ->
  Sa phi dphi a y u - Sa phi dphi a y t >= (dphi u - dphi t) * Scores.V_expectile a y t.
Proof.
  intros Ha Ht Hu. unfold Sa, Scores.V_expectile.
  pose proof (three_point phi dphi y t u) as TP.
  pose proof (D_ge0 dY dZ phi dphi D_nonneg t u (dZ_sub _ Ht) Hu) as Dtu.
  assert (E : D phi dphi y u = D phi dphi y t + D phi dphi t u + (dphi u - dphi t) * (t - y)) by lra.
  destruct (Rle_dec y t) as [Hyt|Hyt]; destruct (Rle_dec y u) as [Hyu|Hyu].
  - rewrite (asym_ge_lvl a y t Hyt Ha), (asym_ge_lvl a y u Hyu Ha).
    assert (0 <= (1 - a) * D phi dphi t u) as Hp by (apply Rmult_le_pos; lra).
    rewrite E. lra.
  - (* u < y <= t *)
    assert (Hzy : dZ y) by (apply (dZ_convex u t); [assumption| assumption| lra]).
    pose proof (D_ge0 dY dZ phi dphi D_nonneg y u (dZ_sub _ Hzy) Hu) as Dyu.
    rewrite (asym_ge_lvl a y t Hyt Ha).
    rewrite (asym_lt a y u) by (assumption || lra).
    assert (D phi dphi y u <= D phi dphi t u) as Hf
      by (apply (D_far_first dY dZ phi dphi dZ_sub dZ_convex D_nonneg dphi_mono); try assumption; right; lra).
    assert (0 <= (1 - a) * (D phi dphi t u - D phi dphi y u)) as Hp1 by (apply Rmult_le_pos; lra).
    assert (0 <= a * D phi dphi y u) as Hp2 by (apply Rmult_le_pos; lra).
    assert (D phi dphi y t = D phi dphi y u - D phi dphi t u - (dphi u - dphi t) * (t - y)) as E' by lra.
    rewrite E'. lra.
  - (* t < y <= u *)
    assert (Hzy : dZ y) by (apply (dZ_convex t u); [assumption| assumption| lra]).
    pose proof (D_ge0 dY dZ phi dphi D_nonneg y u (dZ_sub _ Hzy) Hu) as Dyu.
    rewrite (asym_ge_lvl a y u Hyu Ha).
    rewrite (asym_lt a y t) by (assumption || lra).
    assert (D phi dphi y u <= D phi dphi t u) as Hf
      by (apply (D_far_first dY dZ phi dphi dZ_sub dZ_convex D_nonneg dphi_mono); try assumption; left; lra).
    assert (0 <= a * (D phi dphi t u - D phi dphi y u)) as Hp1 by (apply Rmult_le_pos; lra).
    assert (0 <= (1 - a) * D phi dphi y u) as Hp2 by (apply Rmult_le_pos; lra).
    assert (D phi dphi y t = D phi dphi y u - D phi dphi t u - (dphi u - dphi t) * (t - y)) as E' by lra.
    rewrite E'. lra.
  - rewrite (asym_lt a y t) by (assumption || lra).
    rewrite (asym_lt a y u) by (assumption || lra).
    assert (0 <= a * D phi dphi t u) as Hp by (apply Rmult_le_pos; lra).
    rewrite E. lra.
Qed.
End SaAnyY.

Lemma asym_kR al yy t : (0 < al < 1)%R -> asym al yy t = (2 * kR al yy t)%R.
Proof.
  intros Ha. unfold kR. destruct (Rle_dec yy t) as [H|H].
  - apply asym_ge_lvl; assumption.
  - apply asym_lt; [lra| exact Ha].
Qed.

Definition kap_zero (_ : elt) : R := 0%R.
Lemma kap_zero_nonneg : forall e, (0 <= kap_zero e)%R.
Proof. intros e. unfold kap_zero. lra. Qed.

Section Expectile.
Variable h : R.
Variable a : Q.
Hypothesis Ha : 0 < a /\ a < 1.
Local Open Scope R_scope.

Definition LE (e : elt) (u : R) : R := wp e * hes_val h (Q2R a) (Q2R (ey e)) u.

Lemma LE_SG : forall e t u, domZ h t -> domZ h u ->
  LE e u - LE e t >= (gB h u - gB h t) * VR_exp a e t + kap_zero e * (u - t)^2.
Proof.
  intros e t u Ht Hu. pose proof (level_R a Ha) as HaR.
  pose proof (Sa_subgrad_anyY (domY h) (domZ h) (phi h) (dphi h)
                (domZ_sub h) (domZ_convex h) (hes_D_nonneg h) (dphi_mono h)
                (Q2R a) (Q2R (ey e)) t u HaR Ht Hu) as HS.
  unfold Scores.V_expectile in HS. rewrite (asym_kR _ _ _ HaR) in HS.
  pose proof (wp_nonneg e) as Hw.
  unfold LE, hes_val, gB, VR_exp, kap_zero. rewrite !asym_breg_Sa.
  set (S1 := Sa (phi h) (dphi h) (Q2R a) (Q2R (ey e)) u) in *.
  set (S0 := Sa (phi h) (dphi h) (Q2R a) (Q2R (ey e)) t) in *.
  set (K := kR (Q2R a) (Q2R (ey e)) t) in *.
  assert (HP : 0 <= wp e * (S1 - S0 - (dphi h u - dphi h t) * (2 * K * (t - Q2R (ey e)))))
    by (apply Rmult_le_pos; lra).
  nra.
Qed.

(* optimality of the expectile fit for the real score of degree h and level a *)
Lemma expectile_opt_R : forall ys ws v rr, ys <> [] -> valid_w ys ws ->
  isotonic_regression ys ws true IFexpectile a = IOk (v, rr) ->
  Forall (fun q => domZ h (Q2R q)) v -> Forall (fun _ : Q => True) ys ->
  length v = length ys /\
  forall u : list Q, length u = length ys -> sortedQ u -> Forall (fun q => domZ h (Q2R q)) u ->
    tlossR (hes_val h (Q2R a)) (data ys ws) v <= tlossR (hes_val h (Q2R a)) (data ys ws) u.
Proof.
  intros ys ws v rr Hn Hv H Hvd _.
  pose proof (run_expectile ys ws true a Ha v rr Hn Hv H) as HR.
  assert (HL : length v = length ys).
  { rewrite <- (data_length ys ws Hv). exact (run_length _ _ _ _ _ HR). }
  split; [exact HL|].
  destruct HR as (stk & x0 & E1 & Hok & Hflat & HQ & Ex & _).
  cbn [dir] in E1, Hflat, Ex. subst x0.
  pose proof (data_posw ys ws Hv) as Hp.
  pose proof (stack_dom_of_fit (expectile_inst a Ha) (domZ h) stk v Hok HQ Hvd) as Hdom.
  pose proof (gpava_transport_optimal (expectile_inst a Ha) (VR_exp a) (VR_exp a)
                (exp_VR_ok a Ha) (exp_VR_ok a Ha)
                LE (gB h) kap_zero (domZ h) (gB_mono h) kap_zero_nonneg
                (fun e t u Ht Hu _ => LE_SG e t u Ht Hu) (fun e t u Ht Hu _ => LE_SG e t u Ht Hu)
                (data ys ws) stk Hp E1 Hdom) as HT.
  cbv zeta in HT. destruct HT as (_ & HfL & HO).
  pose proof (map_Q2R_Qeq v _ HQ) as EQ.
  rewrite <- EQ in HO, HfL.
  intros u Hu Hs Hd.
  assert (HuL : length (map Q2R u) = length (data ys ws)).
  { rewrite map_length, (data_length ys ws Hv). exact Hu. }
  assert (HdR : Forall (domZ h) (map Q2R u)).
  { apply Forall_forall. intros z Hz. apply in_map_iff in Hz. destruct Hz as (q & <- & Hq).
    rewrite Forall_forall in Hd. exact (Hd q Hq). }
  pose proof (HO (map Q2R u) HuL (sortedR_map_Q2R u Hs) HdR) as HI.
  assert (HK : 0 <= kdist elt kap_zero (data ys ws) (map Q2R u) (map Q2R v)).
  { apply (kdist_nonneg elt kap_zero kap_zero_nonneg). }
  rewrite !(tlossR_loss (hes_val h (Q2R a)) _ _ Hp).
  change (fun (e : elt) (z : R) => wp e * hes_val h (Q2R a) (Q2R (ey e)) z) with LE.
  change (g_elt (expectile_inst a Ha)) with elt in HI. lra.
Qed.
End Expectile.

Lemma domZ_up_Q h (p q : Q) : domZ h (Q2R p) -> p <= q -> domZ h (Q2R q).
Proof. intros Hp Hpq. apply (domZ_up h (Q2R p)); [exact Hp| apply Qle_Rle; exact Hpq]. Qed.

(* C06 signs, world R: HomogeneousExpectileScore of ANY degree h and level 0 < a < 1
   (hes_val h (Q2R a) is its per-observation value, Consistency.hes_val_is_spec / _is_gen),
   expectile functional at the same level, optional positive weights.
   Hypotheses as in the property text: the smallest observation (hence every recalibrated
   value and the marginal) and the forecasts are admissible predictions. *)
Theorem recal_expectile_sign : forall (h : R) (a : Q) x y w r,
  0 < a /\ a < 1 ->
  y <> [] -> length x = length y ->
  (match w with None => True | Some wl => length wl = length y end) ->
  all_pos_w w = true ->
  recalibrate IFexpectile a x y w = DOk r ->
  domZ h (Q2R (minQ (hd 0 y) (tl y))) ->
  Forall (fun c => domZ h (Q2R c)) x ->
  let wl := weights_or_ones (length y) w in
  Forall (fun q => domZ h (Q2R q)) r /\
  (tlossR (hes_val h (Q2R a)) (combine y wl) r <= tlossR (hes_val h (Q2R a)) (combine y wl) x)%R /\
  forall c, domZ h (Q2R c) ->
    (tlossR (hes_val h (Q2R a)) (combine y wl) r
     <= tlossR (hes_val h (Q2R a)) (combine y wl) (repeat c (length y)))%R.
Proof.
  intros h a x y w r Ha Hn Hx Hw Hp Hr Hmin Hxd wl.
  assert (Hrd : Forall (fun q => domZ h (Q2R q)) r).
  { eapply Forall_impl; [|exact (recal_ge_min _ _ _ _ _ _ Hx Hw Hr)].
    intros q Hq. exact (domZ_up_Q h _ _ Hmin Hq). }
  split; [exact Hrd|].
  destruct (recal_sign_R (hes_val h (Q2R a)) IFexpectile a (fun q => domZ h (Q2R q)) (fun _ => True)
              (expectile_opt_R h a Ha) x y w r Hn Hx Hw Hp Hr Hrd Hxd (all_dom _ y)) as (_ & H1 & H2).
  split; [exact H1| exact H2].
Qed.

Print Assumptions recal_expectile_sign.

(* ================================================================== *)
(* Part C.  LogLoss (mean functional)                                  *)
(* ================================================================== *)
Section LogLoss.
Local Open Scope R_scope.

Definition LL (e : elt) (u : R) : R := wp e * spec_logloss (Q2R (ey e)) u.
Definition domLL (q : Q) : Prop := 0 < Q2R q < 1.

Lemma dphi_ll_mono_Z : forall p q, llZ p -> llZ q -> p <= q -> dphi_ll p <= dphi_ll q.
Proof. intros p q Hp Hq Hpq. exact (dphi_ll_mono p q Hp Hq Hpq). Qed.

Lemma LL_SG : forall e t u, llZ t -> llZ u ->
  LL e u - LL e t >= (dphi_ll u - dphi_ll t) * VR_mean e t + kap_zero e * (u - t)^2.
Proof.
  intros e t u Ht Hu.
  assert (Hhalf : 0 < 1/2 < 1) by lra.
  pose proof (Sa_subgrad_anyY llY llZ phi_ll dphi_ll llZ_sub llZ_convex ll_nonneg dphi_ll_mono_Z
                (1/2) (Q2R (ey e)) t u Hhalf Ht Hu) as HS.
  rewrite V_expectile_half in HS. unfold Scores.V_mean in HS.
  pose proof (wp_nonneg e) as Hw.
  unfold LL, VR_mean, kap_zero. rewrite !spec_logloss_Sa.
  set (S1 := Sa phi_ll dphi_ll (1/2) (Q2R (ey e)) u) in *.
  set (S0 := Sa phi_ll dphi_ll (1/2) (Q2R (ey e)) t) in *.
  assert (HP : 0 <= wp e * (S1 - S0 - (dphi_ll u - dphi_ll t) * (t - Q2R (ey e))))
    by (apply Rmult_le_pos; lra).
  nra.
Qed.

Lemma logloss_opt_R a : forall ys ws v rr, ys <> [] -> valid_w ys ws ->
  isotonic_regression ys ws true IFmean a = IOk (v, rr) ->
  Forall domLL v -> Forall (fun _ : Q => True) ys ->
  length v = length ys /\
  forall u : list Q, length u = length ys -> sortedQ u -> Forall domLL u ->
    tlossR spec_logloss (data ys ws) v <= tlossR spec_logloss (data ys ws) u.
Proof.
  intros ys ws v rr Hn Hv H Hvd _.
  pose proof (run_mean ys ws true a v rr Hn Hv H) as HR.
  assert (HL : length v = length ys).
  { rewrite <- (data_length ys ws Hv). exact (run_length _ _ _ _ _ HR). }
  split; [exact HL|].
  destruct HR as (stk & x0 & E1 & Hok & Hflat & HQ & Ex & _).
  cbn [dir] in E1, Hflat, Ex. subst x0.
  pose proof (data_posw ys ws Hv) as Hp.
  pose proof (stack_dom_of_fit mean_inst llZ stk v Hok HQ Hvd) as Hdom.
  pose proof (gpava_transport_optimal mean_inst VR_mean VR_mean mean_VR_ok mean_VR_ok
                LL dphi_ll kap_zero llZ dphi_ll_mono_Z kap_zero_nonneg
                (fun e t u Ht Hu _ => LL_SG e t u Ht Hu) (fun e t u Ht Hu _ => LL_SG e t u Ht Hu)
                (data ys ws) stk Hp E1 Hdom) as HT.
  cbv zeta in HT. destruct HT as (_ & HfL & HO).
  pose proof (map_Q2R_Qeq v _ HQ) as EQ.
  rewrite <- EQ in HO, HfL.
  intros u Hu Hs Hd.
  assert (HuL : length (map Q2R u) = length (data ys ws)).
  { rewrite map_length, (data_length ys ws Hv). exact Hu. }
  assert (HdR : Forall llZ (map Q2R u)).
  { apply Forall_forall. intros z Hz. apply in_map_iff in Hz. destruct Hz as (q & <- & Hq).
    rewrite Forall_forall in Hd. exact (Hd q Hq). }
  pose proof (HO (map Q2R u) HuL (sortedR_map_Q2R u Hs) HdR) as HI.
  assert (HK : 0 <= kdist elt kap_zero (data ys ws) (map Q2R u) (map Q2R v)).
  { apply (kdist_nonneg elt kap_zero kap_zero_nonneg). }
  rewrite !(tlossR_loss spec_logloss _ _ Hp).
  change (fun (e : elt) (z : R) => wp e * spec_logloss (Q2R (ey e)) z) with LL.
  change (g_elt mean_inst) with elt in HI. lra.
Qed.
End LogLoss.

(* C06 signs, world R: LogLoss (spec_logloss y z = Bregman divergence of the binary entropy; the
   library's -xlogy(y,z) - xlogy(1-y,1-z) minus its value at z = y), mean functional, optional
   positive weights.  Admissible predictions: 0 < z < 1.
   HYPOTHESIS on the recalibrated values: they are in (0,1).  It is NOT implied by "the smallest
   observation is admissible": a block whose observations are all 1 (or, when min y = 0, all 0)
   is recalibrated to 1 (to 0).  The library has no domain check for the log loss and evaluates
   such a row to xlogy(1,1) + xlogy(0,0) = 0, but the real-valued specification spec_logloss
   (ln z - ln (1-z) in dphi_ll) does not represent the boundary z in {0,1}; hence the hypothesis.
   When 0 < min y and max y < 1 it holds (recal_ge_min and its mirror image).  Nothing is assumed
   about the observations: the inequality is an identity in phi(y). *)
Theorem recal_logloss_sign : forall (a : Q) x y w r,
  y <> [] -> length x = length y ->
  (match w with None => True | Some wl => length wl = length y end) ->
  all_pos_w w = true ->
  recalibrate IFmean a x y w = DOk r ->
  Forall (fun q => (0 < Q2R q < 1)%R) r ->
  Forall (fun c => (0 < Q2R c < 1)%R) x ->
  let wl := weights_or_ones (length y) w in
  (tlossR spec_logloss (combine y wl) r <= tlossR spec_logloss (combine y wl) x)%R /\
  forall c, (0 < Q2R c < 1)%R ->
    (tlossR spec_logloss (combine y wl) r <= tlossR spec_logloss (combine y wl) (repeat c (length y)))%R.
Proof.
  intros a x y w r Hn Hx Hw Hp Hr Hrd Hxd wl.
  destruct (recal_sign_R spec_logloss IFmean a domLL (fun _ => True)
              (logloss_opt_R a) x y w r Hn Hx Hw Hp Hr Hrd Hxd (all_dom _ y)) as (_ & H1 & H2).
  split; [exact H1| exact H2].
Qed.

Print Assumptions recal_logloss_sign.

(* ================================================================== *)
(* Part D.  Quantile-type scores: HomogeneousQuantileScore(h, a),      *)
(*          in particular PinballLoss (h = 1)                          *)
(* ================================================================== *)
Section QuantileR.
Variable h : R.
Variable a : Q.
Hypothesis Ha : 0 < a /\ a < 1.
Local Open Scope R_scope.

(* the sub-gradient inequalities of Bregman.v without the hypothesis on the observation:
   an observation outside the domain is below every admissible prediction *)
Lemma dQ_dec y : dQ_h h y \/ (hqs_whole_line h = false /\ y <= 0).
Proof.
  unfold dQ_h. destruct (hqs_whole_line h); [left; left; reflexivity|].
  destruct (Rlt_dec 0 y) as [H|H]; [left; right; exact H| right; split; [reflexivity| lra]].
Qed.

Lemma dQ_pos y : hqs_whole_line h = false -> dQ_h h y -> 0 < y.
Proof. intros E [H|H]; [congruence| exact H]. Qed.

Lemma Sq_subgrad_p_anyY al y t u : 0 < al < 1 -> dQ_h h t -> dQ_h h u -> t <= u ->
  Sq (Gq h) al y u - Sq (Gq h) al y t >= (Gq h u - Gq h t) * Vp_q al y t.
Proof.
  intros Hal Ht Hu Htu. destruct (dQ_dec y) as [Hy|[E Hy]].
  - exact (Sq_subgrad_p (dQ_h h) (Gq h) (Gq_mono_dQ h) al y t u Hal Hy Ht Hu Htu).
  - pose proof (dQ_pos t E Ht) as Ht0. pose proof (dQ_pos u E Hu) as Hu0.
    unfold Sq, Vp_q. rewrite (ge_ind_ge t y) by lra. rewrite (ge_ind_ge u y) by lra.
    apply Req_ge. ring.
Qed.

Lemma Sq_subgrad_m_anyY al y t u : 0 < al < 1 -> dQ_h h t -> dQ_h h u -> u <= t ->
  Sq (Gq h) al y u - Sq (Gq h) al y t >= (Gq h u - Gq h t) * Vm_q al y t.
Proof.
  intros Hal Ht Hu Htu. destruct (dQ_dec y) as [Hy|[E Hy]].
  - exact (Sq_subgrad_m (dQ_h h) (Gq h) (Gq_mono_dQ h) al y t u Hal Hy Ht Hu Htu).
  - pose proof (dQ_pos t E Ht) as Ht0. pose proof (dQ_pos u E Hu) as Hu0.
    unfold Sq, Vm_q. rewrite (ge_ind_ge t y) by lra. rewrite (ge_ind_ge u y) by lra.
    assert (Hlt : y < t) by lra. rewrite (proj2 (Rltb_true y t) Hlt).
    apply Req_ge. ring.
Qed.

Definition LQ (e : elt) (u : R) : R := hqs_val h (Q2R a) (Q2R (ey e)) u.

Lemma VpR_q_eq e t : VpR_q a e t = Vp_q (Q2R a) (Q2R (ey e)) t.
Proof. unfold VpR_q, Vp_q, ge_ind, Rleb. destruct (Rle_dec (Q2R (ey e)) t); reflexivity. Qed.

Lemma VmR_q_eq e t : VmR_q a e t = Vm_q (Q2R a) (Q2R (ey e)) t.
Proof. unfold VmR_q, Vm_q, Rltb. destruct (Rlt_dec (Q2R (ey e)) t); reflexivity. Qed.

Lemma LQ_SGp : forall e t u, dQ_h h t -> dQ_h h u -> t <= u ->
  LQ e u - LQ e t >= (Gq h u - Gq h t) * VpR_q a e t + kap_zero e * (u - t)^2.
Proof.
  intros e t u Ht Hu Htu. rewrite VpR_q_eq. unfold LQ, kap_zero. rewrite !hqs_val_Sq.
  pose proof (Sq_subgrad_p_anyY (Q2R a) (Q2R (ey e)) t u (level_R a Ha) Ht Hu Htu). lra.
Qed.

Lemma LQ_SGm : forall e t u, dQ_h h t -> dQ_h h u -> u <= t ->
  LQ e u - LQ e t >= (Gq h u - Gq h t) * VmR_q a e t + kap_zero e * (u - t)^2.
Proof.
  intros e t u Ht Hu Htu. rewrite VmR_q_eq. unfold LQ, kap_zero. rewrite !hqs_val_Sq.
  pose proof (Sq_subgrad_m_anyY (Q2R a) (Q2R (ey e)) t u (level_R a Ha) Ht Hu Htu). lra.
Qed.

Lemma dQ_up p q : dQ_h h p -> p <= q -> dQ_h h q.
Proof. intros [H|H] Hpq; [left; exact H| right; lra]. Qed.

(* the score of a block is constant between its lower and its upper quantile *)
Lemma block_flat_G B s : B <> [] -> (qlow a B <= s)%Q -> (s <= qupp a B)%Q ->
  dQ_h h (Q2R (qlow a B)) ->
  loss elt LQ B (repeat (Q2R s) (length B)) = loss elt LQ B (repeat (Q2R (qlow a B)) (length B)).
Proof.
  intros Bn Hts Hsu Hd.
  assert (HtsR : Q2R (qlow a B) <= Q2R s) by (apply Qle_Rle; exact Hts).
  pose proof (dQ_up _ _ Hd HtsR) as Hds.
  pose proof (const_sum_p elt (VpR_q a) LQ (Gq h) kap_zero (dQ_h h) kap_zero_nonneg LQ_SGp
                B (Q2R (qlow a B)) (Q2R s) Hd Hds HtsR) as H1.
  pose proof (const_sum_m elt (VmR_q a) LQ (Gq h) kap_zero (dQ_h h) kap_zero_nonneg LQ_SGm
                B (Q2R s) (Q2R (qlow a B)) Hds Hd HtsR) as H2.
  pose proof (sumVp_qlow_nonneg a Ha B Bn) as P.
  pose proof (sumVm_le_qupp_nonpos a Ha B s Bn Hsu) as M.
  pose proof (Gq_mono_dQ h _ _ Hd Hds HtsR) as HG.
  assert (P1 : 0 <= (Gq h (Q2R s) - Gq h (Q2R (qlow a B))) * sumV elt (VpR_q a) B (Q2R (qlow a B))).
  { apply Rmult_le_pos; lra. }
  assert (P2 : 0 <= (Gq h (Q2R (qlow a B)) - Gq h (Q2R s)) * sumV elt (VmR_q a) B (Q2R s)).
  { replace ((Gq h (Q2R (qlow a B)) - Gq h (Q2R s)) * sumV elt (VmR_q a) B (Q2R s))
      with ((Gq h (Q2R s) - Gq h (Q2R (qlow a B))) * (- sumV elt (VmR_q a) B (Q2R s))) by ring.
    apply Rmult_le_pos; lra. }
  lra.
Qed.

Lemma xfit_loss_G : forall ps, Forall (pgood a) ps ->
  Forall (fun p => dQ_h h (Q2R (bv (fst p)))) ps ->
  loss elt LQ (concat (map bel (map fst ps))) (map Q2R (xfit ps)) =
  loss elt LQ (concat (map bel (map fst ps))) (map Q2R (lowfit (map fst ps))).
Proof.
  induction ps as [|p ps IH]; intros HF HD; [reflexivity|].
  pose proof (Forall_inv HF) as Hp. pose proof (Forall_inv_tail HF) as HF'.
  pose proof (Forall_inv HD) as Hdp. pose proof (Forall_inv_tail HD) as HD'.
  rewrite xfit_cons. cbn [map concat]. rewrite lowfit_cons.
  rewrite !map_app, !map_repeat_Q2R.
  rewrite !(loss_app elt LQ) by apply repeat_length.
  rewrite (IH HF' HD').
  destruct (mval_bounds a p Hp) as (B1 & B2 & _).
  destruct Hp as (Bn & Eb & _ & _).
  cbv beta in Hdp. rewrite (Qeq_eqR _ _ Eb) in Hdp.
  rewrite (block_flat_G (bel (fst p)) (mval p) Bn B1 B2 Hdp).
  rewrite (Qeq_eqR _ _ Eb). reflexivity.
Qed.

Lemma tlossR_unit (TR : R -> R -> R) : forall l u, Forall (fun e => ew e = 1%Q) l ->
  tlossR TR l u = loss elt (fun e z => TR (Q2R (ey e)) z) l (map Q2R u).
Proof.
  induction l as [|e l IH]; intros u Hl; [reflexivity|].
  destruct u as [|q u]; [reflexivity|].
  inversion Hl as [|e' l' He Hl']; subst.
  cbn [tlossR map loss]. rewrite (IH u Hl'), He, Q2R_1. ring.
Qed.

(* optimality of the quantile fit (midpoint of lower and upper solution) for the real score *)
Lemma quantile_opt_R : forall ys ws v rr, ys <> [] -> valid_w ys ws ->
  isotonic_regression ys ws true IFquantile a = IOk (v, rr) ->
  Forall (fun q => dQ_h h (Q2R q)) v -> Forall (fun q => dQ_h h (Q2R q)) ys ->
  length v = length ys /\
  forall u : list Q, length u = length ys -> sortedQ u -> Forall (fun q => dQ_h h (Q2R q)) u ->
    tlossR (hqs_val h (Q2R a)) (data ys ws) v <= tlossR (hqs_val h (Q2R a)) (data ys ws) u.
Proof.
  intros ys ws v rr Hn Hv H _ Hyd.
  destruct ws as [wl|].
  { exfalso. unfold isotonic_regression in H.
    rewrite (level_guard a Ha) in H. cbn [andb] in H. discriminate H. }
  change (data ys None) with (udata ys).
  rewrite (iso_quantile_unfold ys true a Ha) in H.
  destruct (quantile_path a (udata ys)) as [[x0 r0]|] eqn:HP; [|discriminate H].
  injection H as <- <-.
  destruct (qp_struct a Ha (udata ys) x0 r0 HP) as (_ & stk & ps & HL & Hok & Hflat & Hfst & HG & HS & Hx & _).
  assert (Hl : concat (map bel (map fst ps)) = udata ys) by (rewrite Hfst; exact Hflat).
  assert (Lx : length x0 = length ys).
  { rewrite Hx, xfit_length, Hl. apply udata_length. }
  split; [exact Lx|].
  (* every block value is at least an observation of its block *)
  assert (Hdom : Forall (fun b => dQ_h h (Q2R (bv b))) stk).
  { apply Forall_forall. intros b Hb.
    pose proof (stack_ok_nonempty (quantile_inst a Ha) stk Hok) as Hne. rewrite Forall_forall in Hne.
    pose proof (Hne b Hb) as Hbn. cbv beta in Hbn.
    destruct (IsoProps.exists_min _ (g_yv (quantile_inst a Ha)) (bel b) Hbn) as (m & Hm & Hmin).
    destruct (IsoProps.exists_max _ (g_yv (quantile_inst a Ha)) (bel b) Hbn) as (M & HM & Hmax).
    destruct (block_range (quantile_inst a Ha) stk b Hok Hb (g_yv (quantile_inst a Ha) m)
                (g_yv (quantile_inst a Ha) M)) as [L1 _].
    { intros e He. split; [exact (Hmin e He)| exact (Hmax e He)]. }
    assert (Hin : In m (udata ys)).
    { rewrite <- Hflat. unfold flat. apply in_concat. exists (bel b). split; [|exact Hm].
      apply in_map. apply in_rev. rewrite rev_involutive. exact Hb. }
    assert (Hiny : In (ey m) ys).
    { unfold udata in Hin. destruct m as [q1 q2]. apply in_combine_l in Hin. exact Hin. }
    rewrite Forall_forall in Hyd.
    apply (dQ_up (Q2R (ey m))); [exact (Hyd _ Hiny)|]. apply Qle_Rle. exact L1. }
  pose proof (gpava_transport_optimal (quantile_inst a Ha) (VpR_q a) (VmR_q a)
                (q_VpR_ok a Ha) (q_VmR_ok a Ha)
                LQ (Gq h) kap_zero (dQ_h h) (Gq_mono_dQ h) kap_zero_nonneg LQ_SGp LQ_SGm
                (udata ys) stk (all_dom _ (udata ys)) HL Hdom) as HT.
  cbv zeta in HT. destruct HT as (_ & HfL & HO).
  assert (HDps : Forall (fun p => dQ_h h (Q2R (bv (fst p)))) ps).
  { apply Forall_forall. intros p Hp. rewrite Forall_forall in Hdom. apply Hdom.
    apply in_rev. rewrite <- Hfst. apply in_map. exact Hp. }
  pose proof (xfit_loss_G ps HG HDps) as E. rewrite Hl, Hfst in E.
  intros u Hu Hs Hd.
  assert (HuL : length (map Q2R u) = length (udata ys)).
  { rewrite map_length, udata_length. exact Hu. }
  assert (HdR : Forall (dQ_h h) (map Q2R u)).
  { apply Forall_forall. intros z Hz. apply in_map_iff in Hz. destruct Hz as (q & <- & Hq).
    rewrite Forall_forall in Hd. exact (Hd q Hq). }
  pose proof (HO (map Q2R u) HuL (sortedR_map_Q2R u Hs) HdR) as HI.
  assert (HK : 0 <= kdist elt kap_zero (udata ys) (map Q2R u) (map Q2R (expand elt stk))).
  { apply (kdist_nonneg elt kap_zero kap_zero_nonneg). }
  rewrite !(tlossR_unit (hqs_val h (Q2R a)) _ _ (udata_ones ys)).
  change (fun (e : elt) (z : R) => hqs_val h (Q2R a) (Q2R (ey e)) z) with LQ.
  rewrite Hx, E.
  change (g_elt (quantile_inst a Ha)) with elt in HI.
  unfold expand in HI, HK. unfold lowfit. lra.
Qed.
End QuantileR.

Lemma dQ_up_Q h (p q : Q) : dQ_h h (Q2R p) -> p <= q -> dQ_h h (Q2R q).
Proof. intros Hp Hpq. apply (dQ_up h (Q2R p)); [exact Hp| apply Qle_Rle; exact Hpq]. Qed.

Lemma min_le_all (y : list Q) : forall q, In q y -> minQ (hd 0 y) (tl y) <= q.
Proof.
  intros q Hin. destruct y as [|y0 ytl]; [destruct Hin|]. cbn [hd tl].
  destruct (minQ_le y0 ytl) as [M1 M2]. destruct Hin as [<-|Hin]; [exact M1| exact (M2 q Hin)].
Qed.

(* C06 signs, world R: HomogeneousQuantileScore of ANY degree h and level 0 < a < 1 (PinballLoss
   is h = 1; hqs_val h (Q2R a) is the per-observation value, Consistency.hqs_val_is_spec / _is_gen),
   quantile functional at the same level.  A successful recalibration has no weights (the
   library's isotonic quantile fit rejects them), so the weights below are all 1.
   Hypotheses as in the property text: the smallest observation (hence every observation, every
   recalibrated value and the marginal) and the forecasts are admissible: dQ_h h = the whole
   line for degree 1 and odd degrees > 1, the positive reals otherwise. *)
Theorem recal_quantile_sign : forall (h : R) (a : Q) x y w r,
  0 < a /\ a < 1 ->
  y <> [] -> length x = length y ->
  (match w with None => True | Some wl => length wl = length y end) ->
  all_pos_w w = true ->
  recalibrate IFquantile a x y w = DOk r ->
  dQ_h h (Q2R (minQ (hd 0 y) (tl y))) ->
  Forall (fun c => dQ_h h (Q2R c)) x ->
  let wl := weights_or_ones (length y) w in
  Forall (fun q => dQ_h h (Q2R q)) r /\
  (tlossR (hqs_val h (Q2R a)) (combine y wl) r <= tlossR (hqs_val h (Q2R a)) (combine y wl) x)%R /\
  forall c, dQ_h h (Q2R c) ->
    (tlossR (hqs_val h (Q2R a)) (combine y wl) r
     <= tlossR (hqs_val h (Q2R a)) (combine y wl) (repeat c (length y)))%R.
Proof.
  intros h a x y w r Ha Hn Hx Hw Hp Hr Hmin Hxd wl.
  assert (Hrd : Forall (fun q => dQ_h h (Q2R q)) r).
  { eapply Forall_impl; [|exact (recal_ge_min _ _ _ _ _ _ Hx Hw Hr)].
    intros q Hq. exact (dQ_up_Q h _ _ Hmin Hq). }
  assert (Hyd : Forall (fun q => dQ_h h (Q2R q)) y).
  { apply Forall_forall. intros q Hq. exact (dQ_up_Q h _ _ Hmin (min_le_all y q Hq)). }
  split; [exact Hrd|].
  destruct (recal_sign_R (hqs_val h (Q2R a)) IFquantile a (fun q => dQ_h h (Q2R q))
              (fun q => dQ_h h (Q2R q))
              (quantile_opt_R h a Ha) x y w r Hn Hx Hw Hp Hr Hrd Hxd Hyd) as (_ & H1 & H2).
  split; [exact H1| exact H2].
Qed.

Print Assumptions recal_quantile_sign.

(* ================================================================== *)
(* Part E.  C06: discrimination = 0 for a constant forecast column,    *)
(*          quantile functional (exact arithmetic).                    *)
(*   The rows of a constant column are sorted by observation           *)
(*   descending, so the lower-quantile pooling ends with ONE block B = *)
(*   all rows; its fitted value is Qred((qlow B + cummin[qupp B])/2) = *)
(*   Qred((qlow B + qupp B)/2), and the marginal is the same midpoint  *)
(*   of the lower and the upper quantile of the observations in the    *)
(*   caller's order; both quantiles are invariant under permutation.   *)
(* ================================================================== *)
Lemma recal_constant_quantile a c y w r m :
  0 < a /\ a < 1 ->
  y <> [] -> (match w with None => True | Some wl => length wl = length y end) ->
  all_pos_w w = true ->
  marginal IFquantile a y (weights_or_ones (length y) w) = Some m ->
  recalibrate IFquantile a (repeat c (length y)) y w = DOk r ->
  Forall2 Qeq r (repeat m (length y)).
Proof.
  intros Ha Hn Hw Hp Hm Hr.
  assert (Hx : length (repeat c (length y)) = length y) by apply repeat_length.
  destruct (sorted_data (repeat c (length y)) y w Hx Hw Hp) as (Hv & Hd & Hpw & Hlen).
  cbv zeta in Hv, Hd, Hpw, Hlen.
  pose proof (const_rows_desc c y w Hw) as HS. cbv zeta in HS.
  unfold recalibrate in Hr.
  set (srt := sorted_rows (repeat c (length y)) y w) in *.
  set (ws := match w with None => None | Some _ => Some (map r_w srt) end) in *.
  destruct (isotonic_regression (map r_y srt) ws true IFquantile a) as [[v rr]|e] eqn:Ei; [|discriminate Hr].
  injection Hr as <-.
  destruct w as [wl0|].
  { exfalso. unfold ws, isotonic_regression in Ei.
    rewrite (level_guard a Ha) in Ei. cbn [andb] in Ei. discriminate Ei. }
  unfold ws in *. clear ws.
  change (data (map r_y srt) None) with (udata (map r_y srt)) in Hd.
  rewrite (iso_quantile_unfold (map r_y srt) true a Ha), Hd in Ei.
  set (l := map elt_of srt) in *.
  destruct (quantile_path a l) as [[x0 r0]|] eqn:HP; [|discriminate Ei].
  injection Ei as <- <-.
  destruct (qp_unfold a l x0 r0 HP) as (Ln & stk & HL & Ex & _).
  destruct (gpava_stack (quantile_inst a Ha) l stk (all_dom _ l) HL) as [Hok Hflat].
  assert (Hfn : flat (g_elt (quantile_inst a Ha)) stk <> []) by (rewrite Hflat; exact Ln).
  assert (HS' : StronglySorted (fun e1 e2 => g_yv (quantile_inst a Ha) e2 <= g_yv (quantile_inst a Ha) e1)
                  (flat (g_elt (quantile_inst a Ha)) stk)) by (rewrite Hflat; exact HS).
  destruct (single_block (quantile_inst a Ha) stk Hok Hfn HS') as [b Eb]. subst stk.
  assert (Hbel : bel b = l).
  { rewrite <- Hflat. unfold flat. cbn [rev app map concat]. rewrite app_nil_r. reflexivity. }
  destruct Hok as [HF _]. inversion HF as [|b' l' HI _]; subst b' l'.
  destruct HI as (_ & _ & Et & _ & _). cbn [g_T quantile_inst] in Et.
  cbn [rev app map cummin_right combine] in Ex. rewrite xfit_cons in Ex.
  cbn [xfit flat_map fst] in Ex. rewrite app_nil_r in Ex.
  assert (Hwl : length (weights_or_ones (length y) None) = length y) by apply repeat_length.
  assert (Hperm : Permutation l (combine y (weights_or_ones (length y) None))).
  { unfold l. rewrite <- (mkrows_elt (repeat c (length y)) y _ 0 Hx Hwl).
    apply Permutation_map. unfold srt, sorted_rows. apply isort_perm. }
  cbn [marginal] in Hm. injection Hm as <-.
  change (weights_or_ones (length y) None) with (repeat 1 (length y)) in Hperm.
  rewrite <- (midq_perm a _ _ Ha Ln Hperm).
  assert (Emid : mval (b, qupp a (bel b)) == midq a l).
  { rewrite mval_eq. unfold midq. rewrite Qred_correct. cbn [fst snd]. rewrite Et, Hbel. reflexivity. }
  assert (Lv : length x0 = length y).
  { rewrite Ex, repeat_length. transitivity (length l); [exact (f_equal (@length elt) Hbel)|].
    unfold l. rewrite map_length. exact Hlen. }
  set (r := map snd (isort idx_le (combine (map r_idx srt) x0))).
  assert (Lr : length r = length y).
  { unfold r. rewrite map_length, isort_length, combine_length, map_length, Hlen, Lv. apply Nat.min_id. }
  rewrite <- Lr. apply Forall_repeat_F2.
  apply Forall_forall. intros q Hq. unfold r in Hq. apply unsort_in_r in Hq.
  rewrite Ex in Hq. apply repeat_spec in Hq. subst q. exact Emid.
Qed.

(* "quantile" directly, or "median" as its alias when the variant has it *)
Theorem decomp_dsc_zero_if_constant_quantile :
  forall (vr : variant) (S : Q -> Q -> option Q),
  (forall y z z', z == z' -> S y z = S y z') ->
  forall sf_fun sf_level y cols w functional level rows fa a,
  infer sf_fun sf_level functional level = DOk fa ->
  alias vr fa = (IFquantile, a) ->
  (* the smallest observation is an admissible prediction *)
  allowed S (hd 0 y) (minQ (hd 0 y) (tl y)) = true ->
  decompose vr S sf_fun sf_level y cols w functional level = DOk rows ->
  Forall2 (fun x r => (exists c, x = repeat c (length y)) -> dsc r == 0) cols rows.
Proof.
  intros vr S S_proper sf_fun sf_level y cols w functional level rows fa a Hinf Hal Hadm H.
  destruct (decompose_inv _ _ _ _ _ _ _ _ _ _ H) as (f' & a' & m & ymin & ok & sm & HR).
  destruct HR as ((fa' & Hinf' & Ha') & Hc & Hw & Hp & _ & Hpre & Hcols).
  rewrite Hinf in Hinf'. injection Hinf' as <-.
  rewrite Hal in Ha'. injection Ha' as <- <-.
  destruct (prelude_inv _ _ _ _ _ _ _ _ _ Hpre) as (Hn & Hm & Hsm & Hymin & Hok).
  assert (Eok : ok = true) by (rewrite Hok, Hymin; exact Hadm).
  pose proof (infer_level_alias vr _ _ _ _ _ _ _ Hinf Hal eq_refl) as Ha.
  pose proof (columns_inv _ _ _ _ _ _ _ _ _ _ _ Hcols) as HF.
  clear Hcols H Hpre.
  induction HF as [|x row cols rows Hx HF IH]; constructor.
  - clear IH. intros [c ->].
    destruct (column_inv _ _ _ _ _ _ _ _ _ _ _ Hx) as (r & s & sr & Hrf & _ & Hsr & _ & ->).
    unfold recal_final in Hrf.
    destruct (recalibrate IFquantile a (repeat c (length y)) y w) as [r0|e] eqn:Er; [|discriminate Hrf].
    rewrite Eok in Hrf. cbn [negb andb] in Hrf. injection Hrf as <-.
    pose proof (recal_constant_quantile a c y w r0 m Ha Hn Hw Hp Hm Er) as HQ.
    unfold avg_score in Hsr, Hsm. rewrite (scores_proper S S_proper y _ _ HQ) in Hsr.
    destruct (scores S y (repeat m (length y))) as [ss|]; [|discriminate Hsm].
    injection Hsm as <-. injection Hsr as <-. cbn [dsc]. ring.
  - apply IH. inversion Hc; assumption.
Qed.

Print Assumptions decomp_dsc_zero_if_constant_quantile.

(* the pinball loss does not distinguish equal rationals: no hypothesis on the score is left *)
Lemma pin_score_proper a y z z' : z == z' -> pin_score a y z = pin_score a y z'.
Proof.
  intros E. unfold pin_score. rewrite (Qle_bool_proper_r y z z' E). apply Qred_complete.
  rewrite E. reflexivity.
Qed.

Corollary decomp_dsc_zero_if_constant_pinball : forall v sf_fun sf_level y cols w functional level rows a,
  infer sf_fun sf_level functional level = DOk (IFquantile, a) ->
  decompose v (total (pin_score a)) sf_fun sf_level y cols w functional level = DOk rows ->
  Forall2 (fun x r => (exists c, x = repeat c (length y)) -> dsc r == 0) cols rows.
Proof.
  intros v sf_fun sf_level y cols w functional level rows a Hi H.
  exact (decomp_dsc_zero_if_constant_quantile v (total (pin_score a)) (total_proper _ (pin_score_proper a))
           _ _ _ _ _ _ _ _ (IFquantile, a) a Hi eq_refl eq_refl H).
Qed.

(* ================================================================== *)
(* Part F.  The marginal forecast is at least the smallest observation *)
(*   (so "min y admissible" makes the marginal an admissible constant  *)
(*   c in the theorems of Parts B and D: dsc >= 0)                     *)
(* ================================================================== *)
Theorem marginal_ge_min : forall f a y w m,
  (has_level f = true -> 0 < a /\ a < 1) ->
  y <> [] -> (match w with None => True | Some wl => length wl = length y end) ->
  all_pos_w w = true ->
  marginal f a y (weights_or_ones (length y) w) = Some m ->
  minQ (hd 0 y) (tl y) <= m.
Proof.
  intros f a y w m Hlev Hn Hw Hp Hm.
  set (wl := weights_or_ones (length y) w) in *.
  assert (Hwl : length wl = length y).
  { unfold wl. destruct w as [wl0|]; cbn [weights_or_ones]; [exact Hw| apply repeat_length]. }
  assert (Hl : @length elt (combine y wl) = length y).
  { change (@length (Q * Q) (combine y wl) = length y). rewrite combine_length, Hwl. apply Nat.min_id. }
  assert (Hne : combine y wl <> []).
  { intros E. rewrite E in Hl. destruct y; [congruence| discriminate Hl]. }
  assert (Hpw : Forall posw (combine y wl)).
  { apply Forall_forall. intros e He. destruct e as [q1 q2]. apply in_combine_r in He.
    unfold posw, ew. cbn [snd]. unfold wl in He. destruct w as [wl0|]; cbn [weights_or_ones] in He.
    - pose proof (all_pos_Forall wl0 Hp) as F. rewrite Forall_forall in F. exact (F _ He).
    - apply repeat_spec in He. subst q2. reflexivity. }
  assert (Hmin : forall e, In e (combine y wl) -> minQ (hd 0 y) (tl y) <= ey e).
  { intros [q1 q2] He. apply in_combine_l in He. exact (min_le_all y q1 He). }
  unfold marginal in Hm. destruct f; try discriminate Hm; injection Hm as <-.
  - exact (I_T_ge_min mean_inst (combine y wl) _ Hne Hpw Hmin).
  - pose proof (Hlev eq_refl) as Ha.
    exact (I_T_ge_min (expectile_inst a Ha) (combine y wl) _ Hne Hpw Hmin).
  - pose proof (Hlev eq_refl) as Ha.
    destruct (qlow_in a Ha (combine y wl) Hne) as (e1 & He1 & E1).
    pose proof (qlow_le_qupp a Ha (combine y wl) Hne) as Hlu.
    pose proof (Hmin e1 He1) as H1.
    unfold midq. rewrite Qred_correct. Lqa.lra.
Qed.

Print Assumptions marginal_ge_min.

(* the two signs with the model's own marginal as the constant competitor *)
Corollary recal_expectile_sign_marginal : forall (h : R) (a : Q) x y w r m,
  0 < a /\ a < 1 ->
  y <> [] -> length x = length y ->
  (match w with None => True | Some wl => length wl = length y end) ->
  all_pos_w w = true ->
  recalibrate IFexpectile a x y w = DOk r ->
  marginal IFexpectile a y (weights_or_ones (length y) w) = Some m ->
  domZ h (Q2R (minQ (hd 0 y) (tl y))) ->
  Forall (fun c => domZ h (Q2R c)) x ->
  let wl := weights_or_ones (length y) w in
  domZ h (Q2R m) /\
  (tlossR (hes_val h (Q2R a)) (combine y wl) r <= tlossR (hes_val h (Q2R a)) (combine y wl) x)%R /\
  (tlossR (hes_val h (Q2R a)) (combine y wl) r
   <= tlossR (hes_val h (Q2R a)) (combine y wl) (repeat m (length y)))%R.
Proof.
  intros h a x y w r m Ha Hn Hx Hw Hp Hr Hm Hmin Hxd wl.
  assert (Hmd : domZ h (Q2R m)).
  { exact (domZ_up_Q h _ _ Hmin (marginal_ge_min IFexpectile a y w m (fun _ => Ha) Hn Hw Hp Hm)). }
  destruct (recal_expectile_sign h a x y w r Ha Hn Hx Hw Hp Hr Hmin Hxd) as (_ & H1 & H2).
  split; [exact Hmd|]. split; [exact H1| exact (H2 m Hmd)].
Qed.

Corollary recal_quantile_sign_marginal : forall (h : R) (a : Q) x y w r m,
  0 < a /\ a < 1 ->
  y <> [] -> length x = length y ->
  (match w with None => True | Some wl => length wl = length y end) ->
  all_pos_w w = true ->
  recalibrate IFquantile a x y w = DOk r ->
  marginal IFquantile a y (weights_or_ones (length y) w) = Some m ->
  dQ_h h (Q2R (minQ (hd 0 y) (tl y))) ->
  Forall (fun c => dQ_h h (Q2R c)) x ->
  let wl := weights_or_ones (length y) w in
  dQ_h h (Q2R m) /\
  (tlossR (hqs_val h (Q2R a)) (combine y wl) r <= tlossR (hqs_val h (Q2R a)) (combine y wl) x)%R /\
  (tlossR (hqs_val h (Q2R a)) (combine y wl) r
   <= tlossR (hqs_val h (Q2R a)) (combine y wl) (repeat m (length y)))%R.
Proof.
  intros h a x y w r m Ha Hn Hx Hw Hp Hr Hm Hmin Hxd wl.
  assert (Hmd : dQ_h h (Q2R m)).
  { exact (dQ_up_Q h _ _ Hmin (marginal_ge_min IFquantile a y w m (fun _ => Ha) Hn Hw Hp Hm)). }
  destruct (recal_quantile_sign h a x y w r Ha Hn Hx Hw Hp Hr Hmin Hxd) as (_ & H1 & H2).
  split; [exact Hmd|]. split; [exact H1| exact (H2 m Hmd)].
Qed.

(* every recalibrated value lies in the range of the observations; for the log loss: when all
   observations are strictly inside (0,1) the hypothesis of recal_logloss_sign on the
   recalibrated values holds *)
Theorem recal_range : forall f a x y w r lo hi,
  length x = length y ->
  (match w with None => True | Some wl => length wl = length y end) ->
  recalibrate f a x y w = DOk r ->
  (forall q, In q y -> lo <= q /\ q <= hi) ->
  Forall (fun q => lo <= q /\ q <= hi) r.
Proof.
  intros f a x y w r lo hi Hx Hw Hr Hy.
  set (wl := weights_or_ones (length y) w).
  assert (Hwl : length wl = length y).
  { unfold wl. destruct w as [wl0|]; cbn [weights_or_ones]; [exact Hw| apply repeat_length]. }
  unfold recalibrate in Hr.
  set (srt := sorted_rows x y w) in *.
  set (ws := match w with None => None | Some _ => Some (map r_w srt) end) in *.
  destruct (isotonic_regression (map r_y srt) ws true f a) as [[v rr]|e] eqn:Ei; [|discriminate Hr].
  injection Hr as <-.
  destruct (iso_contract_all _ _ _ _ _ _ _ Ei) as (_ & _ & _ & _ & _ & _ & Hrange).
  assert (Hperm : Permutation srt (mkrows 0 x y wl)) by (unfold srt, sorted_rows; apply isort_perm).
  assert (Hin : forall q, In q (map r_y srt) -> In q y).
  { intros q Hq. rewrite <- (mkrows_y x y wl 0 Hx Hwl). apply in_map_iff in Hq. destruct Hq as (r0 & <- & Hr0).
    apply in_map. eapply Permutation_in; [exact Hperm| exact Hr0]. }
  apply Forall_forall. intros q Hq. apply unsort_in_r in Hq.
  destruct (Hrange q Hq) as (l1 & h1 & Hl1 & Hh1 & Hle1 & Hle2).
  pose proof (Hy l1 (Hin l1 Hl1)) as [A1 _]. pose proof (Hy h1 (Hin h1 Hh1)) as [_ A2].
  split; Lqa.lra.
Qed.

Corollary recal_logloss_sign_interior : forall (a : Q) x y w r lo hi,
  0 < lo -> hi < 1 -> (forall q, In q y -> lo <= q /\ q <= hi) ->
  y <> [] -> length x = length y ->
  (match w with None => True | Some wl => length wl = length y end) ->
  all_pos_w w = true ->
  recalibrate IFmean a x y w = DOk r ->
  Forall (fun c => (0 < Q2R c < 1)%R) x ->
  let wl := weights_or_ones (length y) w in
  (tlossR spec_logloss (combine y wl) r <= tlossR spec_logloss (combine y wl) x)%R /\
  forall c, (0 < Q2R c < 1)%R ->
    (tlossR spec_logloss (combine y wl) r <= tlossR spec_logloss (combine y wl) (repeat c (length y)))%R.
Proof.
  intros a x y w r lo hi Hlo Hhi Hy Hn Hx Hw Hp Hr Hxd wl.
  apply (recal_logloss_sign a x y w r Hn Hx Hw Hp Hr); [|exact Hxd].
  eapply Forall_impl; [|exact (recal_range _ _ _ _ _ _ lo hi Hx Hw Hr Hy)].
  intros q [H1 H2]. cbv beta.
  assert (H0 : 0 < q) by Lqa.lra. assert (H1' : q < 1) by Lqa.lra.
  apply Qlt_Rlt in H0, H1'. rewrite RMicromega.Q2R_0 in H0. rewrite RMicromega.Q2R_1 in H1'.
  split; assumption.
Qed.

(* ================================================================== *)
(* Part G.  The recalibration is idempotent, QUANTILE functional:      *)
(*   x = recalibrate(x0) => recalibrate(x) == x  (exact arithmetic,    *)
(*   no axioms).  Route:                                               *)
(*   (1) cert_unique_blocks: for ANY instance of the generic pooling   *)
(*       theory, a certified partition of a sequence into blocks       *)
(*       (block invariant IInv + strictly increasing values) is unique;*)
(*   (2) the rows of the second pass, sorted by (x asc, y desc), are   *)
(*       the concatenation of the tie groups of x = the blocks of the  *)
(*       first pass, each sorted by observation descending (seg_sorted,*)
(*       filter_G, pick_block); a descending run is pooled into ONE    *)
(*       certified block (desc_block), its lower/upper quantile is     *)
(*       that of the first-pass block (permutation invariance);        *)
(*   (3) so the second pass has the blocks of the first pass up to a   *)
(*       permutation inside each block, the same lower values, upper   *)
(*       quantiles, running minimum and midpoints (second_pass).       *)
(* ================================================================== *)
From MD Require proofs.IsoFitPerm.


(* ================================================================== *)
(* uniqueness of a certified partition into blocks (any instance)      *)
(* ================================================================== *)
Section CertUnique.
Variable I : GInst.
Notation E := (g_elt I).

(* blocks in data order *)
Definition bok (bs : list (blk E)) : Prop :=
  Forall (fun b => IInv I (bel b) (bv b)) bs /\ StronglySorted (fun b1 b2 => bv b1 < bv b2) bs.

Lemma bok_of_stack stk : stack_ok I stk -> bok (rev stk).
Proof.
  intros Hok. split; [apply Forall_rev; exact (proj1 Hok)| exact (blocks_increasing I stk Hok)].
Qed.

Lemma straddle : forall (r1 : list (blk E)) (C rest : list E), C <> [] ->
  concat (map bel r1) = C ++ rest ->
  exists d E0 C0 E2, In d r1 /\ E0 <> [] /\ C = C0 ++ E0 /\ bel d = E0 ++ E2.
Proof.
  induction r1 as [|d1 r1 IH]; intros C rest Cn H.
  - cbn [map concat] in H. destruct C; [congruence| discriminate H].
  - cbn [map concat] in H. apply app_eq_app in H. destruct H as (m & [[H1 H2]|[H1 H2]]).
    + exists d1, C, [], m. split; [left; reflexivity|]. split; [exact Cn|]. split; [reflexivity| exact H1].
    + destruct m as [|e m].
      * rewrite app_nil_r in H1. exists d1, C, [], []. split; [left; reflexivity|]. split; [exact Cn|].
        split; [reflexivity|]. rewrite app_nil_r. symmetry. exact H1.
      * destruct (IH (e :: m) rest ltac:(discriminate) H2) as (d & E0 & C0 & E2 & Hd & En & EC & Ed).
        exists d, E0, (bel d1 ++ C0), E2. split; [right; exact Hd|]. split; [exact En|].
        split; [rewrite H1, EC, app_assoc; reflexivity| exact Ed].
Qed.

Lemma Forall_app_r (A : Type) (P : A -> Prop) (l1 l2 : list A) : Forall P (l1 ++ l2) -> Forall P l2.
Proof. intros H. apply Forall_app in H. exact (proj2 H). Qed.
Lemma Forall_app_l (A : Type) (P : A -> Prop) (l1 l2 : list A) : Forall P (l1 ++ l2) -> Forall P l1.
Proof. intros H. apply Forall_app in H. exact (proj1 H). Qed.

Lemma head_conflict (b1 b2 : blk E) (r1 : list (blk E)) (C rest : list E) :
  IInv I (bel b1) (bv b1) -> IInv I (bel b2) (bv b2) ->
  Forall (fun d => IInv I (bel d) (bv d)) r1 -> Forall (fun d => bv b1 < bv d) r1 ->
  bel b2 = bel b1 ++ C -> C <> [] -> concat (map bel r1) = C ++ rest -> False.
Proof.
  intros I1 I2 Ir Hlt E2 Cn Hc.
  destruct (straddle r1 C rest Cn Hc) as (d & E0 & C0 & E3 & Hd & En & EC & Ed).
  rewrite Forall_forall in Ir, Hlt. pose proof (Ir d Hd) as Id. pose proof (Hlt d Hd) as Hbd.
  destruct I1 as (Bn1 & GB1 & Et1 & _ & _).
  destruct I2 as (Bn2 & GB2 & Et2 & SB2 & PB2).
  destruct Id as (Bnd & GBd & Etd & _ & PBd).
  (* the prefix bel b1 of bel b2 *)
  pose proof (PB2 (bel b1) C E2 Bn1) as N1.
  pose proof (g_T4 I (bel b1) (bv b2) Bn1 GB1 N1) as L1.
  (* the suffix E0 of bel b2 *)
  assert (E2' : bel b2 = (bel b1 ++ C0) ++ E0) by (rewrite E2, EC, app_assoc; reflexivity).
  pose proof (SB2 _ _ E2' En) as P2.
  assert (G0 : Forall (g_good I) E0) by (rewrite E2' in GB2; exact (Forall_app_r _ _ _ _ GB2)).
  pose proof (g_T3 I E0 (bv b2) En G0 P2) as L2.
  (* the prefix E0 of bel d *)
  pose proof (PBd E0 E3 Ed En) as N3.
  pose proof (g_T4 I E0 (bv d) En G0 N3) as L3.
  Lqa.lra.
Qed.

Theorem cert_unique_blocks : forall bs1 bs2 : list (blk E), bok bs1 -> bok bs2 ->
  concat (map bel bs1) = concat (map bel bs2) ->
  Forall2 (fun b1 b2 => bel b1 = bel b2 /\ bv b1 == bv b2) bs1 bs2.
Proof.
  induction bs1 as [|b1 r1 IH]; intros bs2 [F1 S1] [F2 S2] Hc.
  - destruct bs2 as [|b2 r2]; [constructor|].
    exfalso. cbn [map concat] in Hc. pose proof (Forall_inv F2) as (Bn & _).
    destruct (bel b2); [congruence| discriminate Hc].
  - destruct bs2 as [|b2 r2].
    { exfalso. cbn [map concat] in Hc. pose proof (Forall_inv F1) as (Bn & _).
      destruct (bel b1); [congruence| discriminate Hc]. }
    pose proof (Forall_inv F1) as I1. pose proof (Forall_inv F2) as I2.
    pose proof (Forall_inv_tail F1) as F1'. pose proof (Forall_inv_tail F2) as F2'.
    destruct (StronglySorted_inv S1) as [S1' L1]. destruct (StronglySorted_inv S2) as [S2' L2].
    cbn [map concat] in Hc. apply app_eq_app in Hc. destruct Hc as (m & [[H1 H2]|[H1 H2]]).
    + destruct m as [|e m].
      * rewrite app_nil_r in H1. cbn [app] in H2. constructor.
        -- split; [exact H1|]. destruct I1 as (_ & _ & Et1 & _). destruct I2 as (_ & _ & Et2 & _).
           rewrite Et1, Et2, H1. reflexivity.
        -- apply IH; [split; assumption| split; assumption| symmetry; exact H2].
      * exfalso. exact (head_conflict b2 b1 r2 (e :: m) _ I2 I1 F2' L2 H1 ltac:(discriminate) H2).
    + destruct m as [|e m].
      * rewrite app_nil_r in H1. cbn [app] in H2. constructor.
        -- split; [symmetry; exact H1|]. destruct I1 as (_ & _ & Et1 & _). destruct I2 as (_ & _ & Et2 & _).
           rewrite Et1, Et2, H1. reflexivity.
        -- apply IH; [split; assumption| split; assumption| exact H2].
      * exfalso. exact (head_conflict b1 b2 r1 (e :: m) _ I1 I2 F1' L1 H1 ltac:(discriminate) H2).
Qed.
End CertUnique.
Print Assumptions cert_unique_blocks.


(* a list with non-increasing observations is pooled into one certified block *)
Lemma desc_block (I : GInst) (l : list (g_elt I)) : l <> [] -> Forall (g_good I) l ->
  StronglySorted (fun e1 e2 => g_yv I e2 <= g_yv I e1) l ->
  exists b : blk (g_elt I), bel b = l /\ IInv I (bel b) (bv b).
Proof.
  intros Ln Gl HS.
  destruct (gpava_blocks_cert I l Gl) as (stk & _ & Hok & Hflat).
  assert (Hfn : flat (g_elt I) stk <> []) by (rewrite Hflat; exact Ln).
  assert (HS' : StronglySorted (fun e1 e2 => g_yv I e2 <= g_yv I e1) (flat (g_elt I) stk))
    by (rewrite Hflat; exact HS).
  destruct (single_block I stk Hok Hfn HS') as [b Eb]. subst stk.
  exists b. split.
  - rewrite <- Hflat. unfold flat. cbn [rev app map concat]. rewrite app_nil_r. reflexivity.
  - destruct Hok as [HF _]. exact (Forall_inv HF).
Qed.

(* ------------------------------------------------------------------ *)
(* list helpers                                                        *)
(* ------------------------------------------------------------------ *)
Lemma filter_perm (A : Type) (f : A -> bool) l l' : Permutation l l' -> Permutation (filter f l) (filter f l').
Proof.
  intros P. induction P as [|p l l' P IH|p q l|l1 l2 l3 P1 IH1 P2 IH2]; cbn [filter].
  - constructor.
  - destruct (f p); [apply perm_skip|]; exact IH.
  - destruct (f p), (f q); try apply Permutation_refl. apply perm_swap.
  - eapply perm_trans; eassumption.
Qed.

Lemma SS_filter (A : Type) (R : A -> A -> Prop) (f : A -> bool) l :
  StronglySorted R l -> StronglySorted R (filter f l).
Proof.
  intros HS. induction HS as [|p l HS IH Hp]; cbn [filter]; [constructor|].
  destruct (f p); [|exact IH]. constructor; [exact IH|].
  apply Forall_forall. intros q Hq. apply filter_In in Hq. rewrite Forall_forall in Hp. exact (Hp q (proj1 Hq)).
Qed.

Lemma filter_all_true (A : Type) (f : A -> bool) l : (forall p, In p l -> f p = true) -> filter f l = l.
Proof.
  induction l as [|p l IH]; intros H; [reflexivity|]. cbn [filter].
  rewrite (H p (or_introl eq_refl)), IH; [reflexivity|]. intros q Hq. apply H. right. exact Hq.
Qed.

Lemma filter_all_false (A : Type) (f : A -> bool) l : (forall p, In p l -> f p = false) -> filter f l = [].
Proof.
  induction l as [|p l IH]; intros H; [reflexivity|]. cbn [filter].
  rewrite (H p (or_introl eq_refl)). apply IH. intros q Hq. apply H. right. exact Hq.
Qed.

Lemma filter_filter_imp (A : Type) (f g : A -> bool) l : (forall p, f p = true -> g p = true) ->
  filter f (filter g l) = filter f l.
Proof.
  intros H. induction l as [|p l IH]; [reflexivity|]. cbn [filter].
  destruct (g p) eqn:Eg.
  - cbn [filter]. rewrite IH. reflexivity.
  - destruct (f p) eqn:Ef; [rewrite (H p Ef) in Eg; discriminate Eg| exact IH].
Qed.

Lemma flat_map_ext_in (A B : Type) (f g : A -> list B) l : (forall a, In a l -> f a = g a) ->
  flat_map f l = flat_map g l.
Proof.
  induction l as [|a l IH]; intros H; [reflexivity|]. cbn [flat_map].
  rewrite (H a (or_introl eq_refl)), IH; [reflexivity|]. intros b Hb. apply H. right. exact Hb.
Qed.

Lemma Qeq_bool_false_of_lt p q : p < q -> Qeq_bool q p = false /\ Qeq_bool p q = false.
Proof.
  intros H. split.
  - destruct (Qeq_bool q p) eqn:E; [|reflexivity]. apply Qeq_bool_iff in E. Lqa.lra.
  - destruct (Qeq_bool p q) eqn:E; [|reflexivity]. apply Qeq_bool_iff in E. Lqa.lra.
Qed.

(* a list sorted by a key whose values all lie (up to ==) in a strictly increasing list ms
   is the concatenation of its key groups, in the order of ms *)
Section Segment.
Variable A : Type.
Variable key : A -> Q.
Definition keq (m : Q) (p : A) : bool := Qeq_bool (key p) m.

Lemma seg_head m : forall l, StronglySorted (fun p q => key p <= key q) l ->
  Forall (fun p => m <= key p) l ->
  l = filter (keq m) l ++ filter (fun p => negb (keq m p)) l.
Proof.
  induction l as [|p l IH]; intros HS HM; [reflexivity|].
  destruct (StronglySorted_inv HS) as [HS' Hp].
  pose proof (Forall_inv HM) as Hm. pose proof (Forall_inv_tail HM) as HM'.
  cbn [filter]. destruct (keq m p) eqn:E; cbn [negb app].
  - f_equal. exact (IH HS' HM').
  - unfold keq in E.
    assert (Hlt : m < key p).
    { apply Qle_lteq in Hm. destruct Hm as [Hm|Hm]; [exact Hm|].
      symmetry in Hm. apply Qeq_bool_iff in Hm. congruence. }
    rewrite (filter_all_false _ (keq m) l), (filter_all_true _ (fun q => negb (keq m q)) l); [reflexivity| |].
    + intros q Hq. rewrite Forall_forall in Hp. pose proof (Hp q Hq) as Hpq. cbv beta in Hpq.
      unfold keq. rewrite (proj1 (Qeq_bool_false_of_lt m (key q) ltac:(Lqa.lra))). reflexivity.
    + intros q Hq. rewrite Forall_forall in Hp. pose proof (Hp q Hq) as Hpq. cbv beta in Hpq.
      unfold keq. exact (proj1 (Qeq_bool_false_of_lt m (key q) ltac:(Lqa.lra))).
Qed.

Lemma seg_sorted : forall ms l, StronglySorted Qlt ms ->
  StronglySorted (fun p q => key p <= key q) l ->
  Forall (fun p => exists m, In m ms /\ key p == m) l ->
  l = flat_map (fun m => filter (keq m) l) ms.
Proof.
  induction ms as [|m ms IH]; intros l Hms HS HK.
  - destruct l as [|p l]; [reflexivity|]. destruct (Forall_inv HK) as (m & [] & _).
  - destruct (StronglySorted_inv Hms) as [Hms' Hm]. rewrite Forall_forall in Hm.
    cbn [flat_map].
    assert (HM : Forall (fun p => m <= key p) l).
    { eapply Forall_impl; [|exact HK]. intros p (m' & [<-|Hin] & E); [Lqa.lra|].
      pose proof (Hm m' Hin). Lqa.lra. }
    set (l2 := filter (fun p => negb (keq m p)) l).
    assert (E2 : l2 = flat_map (fun m' => filter (keq m') l2) ms).
    { apply IH; [exact Hms'| apply SS_filter; exact HS|].
      apply Forall_forall. intros p Hp. unfold l2 in Hp. apply filter_In in Hp. destruct Hp as [Hp Hn].
      rewrite Forall_forall in HK. destruct (HK p Hp) as (m' & [<-|Hin] & E).
      - exfalso. unfold keq in Hn. apply Qeq_bool_iff in E. rewrite E in Hn. discriminate Hn.
      - exists m'. split; [exact Hin| exact E]. }
    assert (E3 : flat_map (fun m' => filter (keq m') l2) ms = flat_map (fun m' => filter (keq m') l) ms).
    { apply flat_map_ext_in. intros m' Hin. unfold l2. apply filter_filter_imp.
      intros p Hp. unfold keq in *. apply Qeq_bool_iff in Hp.
      pose proof (Hm m' Hin) as Hlt.
      rewrite (proj1 (Qeq_bool_false_of_lt m (key p) ltac:(Lqa.lra))). reflexivity. }
    rewrite <- E3, <- E2. exact (seg_head m l HS HM).
Qed.
End Segment.

(* ------------------------------------------------------------------ *)
(* rows                                                                *)
(* ------------------------------------------------------------------ *)
Definition sx (p : srow * Q) : srow := mksrow (r_idx (fst p)) (snd p) (r_y (fst p)) (r_w (fst p)).

Lemma mkrows_sx : forall x0 y wl xs i, length x0 = length y -> length xs = length y -> length wl = length y ->
  mkrows i xs y wl = map sx (combine (mkrows i x0 y wl) xs).
Proof.
  induction x0 as [|c x0 IH]; intros y wl xs i H0 Hs Hw.
  - destruct y; [|discriminate H0]. destruct xs; [|discriminate Hs]. reflexivity.
  - destruct y as [|b y]; [discriminate H0|]. destruct wl as [|d wl]; [discriminate Hw|].
    destruct xs as [|z xs]; [discriminate Hs|]. cbn [length] in *.
    cbn [mkrows combine map]. rewrite (IH y wl xs (S i)) by lia. reflexivity.
Qed.

Lemma row_le_iff p q : row_le p q = true <-> (r_x p == r_x q /\ r_y q <= r_y p) \/ r_x p < r_x q.
Proof.
  unfold row_le. destruct (Qeq_bool (r_x p) (r_x q)) eqn:E.
  - apply Qeq_bool_iff in E. rewrite Qle_bool_iff. split.
    + intros H. left. split; assumption.
    + intros [[_ H]|H]; [exact H| Lqa.lra].
  - rewrite Qle_bool_iff. split.
    + intros H. right. apply Qle_lteq in H. destruct H as [H|H]; [exact H|].
      apply Qeq_bool_iff in H. congruence.
    + intros [[H _]|H]; [apply Qeq_bool_iff in H; congruence| Lqa.lra].
Qed.

Lemma row_le_trans p q r : row_le p q = true -> row_le q r = true -> row_le p r = true.
Proof.
  rewrite !row_le_iff. intros [[H1 H2]|H1] [[H3 H4]|H3].
  - left. split; Lqa.lra.
  - right. Lqa.lra.
  - right. Lqa.lra.
  - right. Lqa.lra.
Qed.

Lemma sorted_rows_SS l : StronglySorted (fun p q => row_le p q = true) (isort row_le l).
Proof.
  apply Sorted_StronglySorted; [|apply isort_sorted; exact row_le_total].
  intros p q r. apply row_le_trans.
Qed.

Lemma combine_nil_r (A B : Type) (l : list A) : combine l (@nil B) = [].
Proof. destruct l; reflexivity. Qed.

Lemma combine_app (A B : Type) : forall (a1 a2 : list A) (b1 b2 : list B), length a1 = length b1 ->
  combine (a1 ++ a2) (b1 ++ b2) = combine a1 b1 ++ combine a2 b2.
Proof.
  induction a1 as [|x a1 IH]; intros a2 b1 b2 H.
  - destruct b1; [reflexivity| discriminate H].
  - destruct b1 as [|z b1]; [discriminate H|]. cbn [app combine]. rewrite IH by (cbn [length] in H; lia).
    reflexivity.
Qed.

Lemma sx_repeat_elt mv : forall s : list srow, map elt_of (map sx (combine s (repeat mv (length s)))) = map elt_of s.
Proof. induction s as [|r s IH]; [reflexivity|]. cbn [length repeat combine map]. rewrite IH. reflexivity. Qed.

Lemma sx_repeat_x mv (s : list srow) k q : In q (map sx (combine s (repeat mv k))) -> r_x q = mv.
Proof.
  intros H. apply in_map_iff in H. destruct H as ([r v] & <- & Hin).
  apply in_combine_r in Hin. apply repeat_spec in Hin. subst v. reflexivity.
Qed.

(* the rows of the second pass whose forecast is == m carry the observations of the
   blocks of the first pass whose fitted value is == m *)
Lemma filter_G m : forall (ps : list (blk elt * Q)) (srt : list srow),
  map elt_of srt = concat (map bel (map fst ps)) ->
  map elt_of (filter (keq srow r_x m) (map sx (combine srt (xfit ps))))
  = concat (map (fun p => if Qeq_bool (mval p) m then bel (fst p) else []) ps).
Proof.
  induction ps as [|p ps IH]; intros srt H.
  - cbn [xfit flat_map]. rewrite combine_nil_r. reflexivity.
  - cbn [map concat] in H. apply map_eq_app in H. destruct H as (s1 & s2 & -> & H1 & H2).
    rewrite xfit_cons.
    assert (Ln : length (bel (fst p)) = length s1) by (rewrite <- H1, map_length; reflexivity).
    rewrite Ln, combine_app by (rewrite repeat_length; reflexivity).
    rewrite map_app, filter_app, map_app, (IH s2 H2). cbn [map concat]. f_equal.
    destruct (Qeq_bool (mval p) m) eqn:E.
    + rewrite filter_all_true.
      * rewrite sx_repeat_elt. exact H1.
      * intros q Hq. unfold keq. rewrite (sx_repeat_x _ _ _ _ Hq). exact E.
    + rewrite filter_all_false; [reflexivity|].
      intros q Hq. unfold keq. rewrite (sx_repeat_x _ _ _ _ Hq). exact E.
Qed.

Lemma concat_nils (A B : Type) (l : list A) (f : A -> list B) : (forall a, In a l -> f a = []) -> concat (map f l) = [].
Proof.
  induction l as [|a l IH]; intros H; [reflexivity|]. cbn [map concat].
  rewrite (H a (or_introl eq_refl)), IH; [reflexivity|]. intros b Hb. apply H. right. exact Hb.
Qed.

Lemma pick_block : forall ps : list (blk elt * Q), StronglySorted (fun p p' => mval p < mval p') ps ->
  forall p, In p ps ->
  concat (map (fun p' => if Qeq_bool (mval p') (mval p) then bel (fst p') else []) ps) = bel (fst p).
Proof.
  intros ps HS. induction HS as [|p0 ps HS IH Hp0]; intros p Hin; [destruct Hin|].
  cbn [map concat]. rewrite Forall_forall in Hp0. destruct Hin as [<-|Hin].
  - assert (E : Qeq_bool (mval p0) (mval p0) = true) by (apply Qeq_bool_iff; reflexivity).
    rewrite E, concat_nils; [apply app_nil_r|].
    intros p' Hp'. pose proof (Hp0 p' Hp') as Hlt.
    rewrite (proj1 (Qeq_bool_false_of_lt _ _ Hlt)). reflexivity.
  - pose proof (Hp0 p Hin) as Hlt. rewrite (proj2 (Qeq_bool_false_of_lt _ _ Hlt)).
    cbn [app]. exact (IH p Hin).
Qed.

Lemma Forall_ex_F2 (A B : Type) (R : B -> A -> Prop) : forall l : list A,
  Forall (fun a => exists b, R b a) l -> exists bs, Forall2 R bs l.
Proof.
  induction l as [|a l IH]; intros H; [exists []; constructor|].
  destruct (Forall_inv H) as (b & Hb). destruct (IH (Forall_inv_tail H)) as (bs & Hbs).
  exists (b :: bs). constructor; assumption.
Qed.

Lemma F2_In_l (A B : Type) (R : A -> B -> Prop) : forall l l', Forall2 R l l' ->
  forall a, In a l -> exists b, In b l' /\ R a b.
Proof.
  intros l l' H. induction H as [|x z l l' Hxz H IH]; intros a Ha; [destruct Ha|].
  destruct Ha as [<-|Ha].
  - exists z. split; [left; reflexivity| exact Hxz].
  - destruct (IH a Ha) as (b & Hb & Rab). exists b. split; [right; exact Hb| exact Rab].
Qed.

Lemma SS_transfer (A B : Type) (R : A -> B -> Prop) (g : A -> Q) (f : B -> Q) :
  (forall c p, R c p -> g c == f p) ->
  forall cs ps, Forall2 R cs ps -> StronglySorted (fun p p' => f p < f p') ps ->
  StronglySorted (fun c c' => g c < g c') cs.
Proof.
  intros HR cs ps H. induction H as [|c p cs ps Hcp H IH]; intros HS; [constructor|].
  destruct (StronglySorted_inv HS) as [HS' Hp]. constructor; [exact (IH HS')|].
  rewrite Forall_forall in Hp. apply Forall_forall. intros c' Hc'.
  destruct (F2_In_l _ _ _ _ _ H c' Hc') as (p' & Hp' & Rcp').
  pose proof (Hp p' Hp') as Hlt. rewrite (HR c p Hcp), (HR c' p' Rcp'). exact Hlt.
Qed.

(* ------------------------------------------------------------------ *)
(* the quantile path: structure with strictly increasing fitted values *)
(* ------------------------------------------------------------------ *)
Lemma qupp_perm a l l' : 0 < a /\ a < 1 -> l <> [] -> Permutation l l' -> qupp a l == qupp a l'.
Proof.
  intros Ha Hn P. unfold qupp.
  assert (Ha' : 0 < 1 - a /\ 1 - a < 1) by (destruct Ha; split; Lqa.lra).
  assert (Hn2 : map negy l <> []) by (destruct l; [congruence| discriminate]).
  rewrite (qlow_perm (1 - a) (map negy l) (map negy l') Ha' Hn2 (Permutation_map negy P)). reflexivity.
Qed.

Lemma cummin_length : forall q, length (cummin_right q) = length q.
Proof.
  induction q as [|z q IH]; [reflexivity|]. rewrite cummin_cons.
  destruct (cummin_right q) as [|m c] eqn:E.
  - destruct q; [reflexivity|]. cbn [length] in IH. discriminate IH.
  - cbn [length]. rewrite <- IH. reflexivity.
Qed.

Lemma map_snd_combine (A B : Type) : forall (a : list A) (b : list B), length a = length b ->
  map snd (combine a b) = b.
Proof.
  induction a as [|x a IH]; intros b H; destruct b as [|z b]; try discriminate H; [reflexivity|].
  cbn [combine map snd]. rewrite IH by (cbn [length] in H; lia). reflexivity.
Qed.

Lemma qp_struct_strict a (Ha : 0 < a /\ a < 1) l x r : quantile_path a l = Some (x, r) ->
  exists (bs : list (blk elt)) (q : list Q),
    bok (quantile_inst a Ha) bs /\ concat (map bel bs) = l /\
    q = cummin_right (map (fun b => qupp a (bel b)) bs) /\
    map fst (combine bs q) = bs /\ map snd (combine bs q) = q /\
    Forall (pgood a) (combine bs q) /\
    StronglySorted (fun p p' => mval p < mval p') (combine bs q) /\
    x = xfit (combine bs q).
Proof.
  intros H. destruct (qp_unfold a l x r H) as (Ln & stk & HL & Hx & _).
  destruct (gpava_stack (quantile_inst a Ha) l stk (all_dom _ l) HL) as [Hok Hflat].
  pose proof (stack_gb a Ha stk Hok) as HG.
  pose proof (blocks_increasing (quantile_inst a Ha) stk Hok) as HS.
  cbn [g_elt quantile_inst] in HS.
  destruct (cummin_inv a Ha (rev stk) HG HS) as [C1 C2].
  destruct (combine_pgood a _ _ HG C1) as [P1 P2].
  exists (rev stk), (cummin_right (map (fun b => qupp a (bel b)) (rev stk))).
  split; [exact (bok_of_stack (quantile_inst a Ha) stk Hok)|].
  split; [exact Hflat|]. split; [reflexivity|]. split; [exact P2|].
  split; [apply map_snd_combine; rewrite cummin_length, map_length; reflexivity|].
  split; [exact P1|]. split; [|exact Hx].
  pose proof (combine_SS _ _ _ _ _ _ HS C2) as HC.
  eapply SS_impl; [|exact HC].
  intros p1 p2 [Q1 Q2]. pose proof (mval_eq p1) as E1. pose proof (mval_eq p2) as E2. Lqa.lra.
Qed.

Lemma SS_impl_in (A : Type) (R1 R2 : A -> A -> Prop) (l : list A) :
  (forall x z, In x l -> In z l -> R1 x z -> R2 x z) -> StronglySorted R1 l -> StronglySorted R2 l.
Proof.
  intros HR HS. induction HS as [|x l HS IH Hx]; constructor.
  - apply IH. intros a b Ha Hb. apply HR; right; assumption.
  - rewrite Forall_forall in *. intros z Hz. apply HR; [left; reflexivity| right; exact Hz| exact (Hx z Hz)].
Qed.

Lemma flat_map_map (A B C : Type) (f : B -> list C) (g : A -> B) : forall l,
  flat_map f (map g l) = flat_map (fun x => f (g x)) l.
Proof. induction l as [|a l IH]; [reflexivity|]. cbn [map flat_map]. rewrite IH. reflexivity. Qed.

Lemma map_flat_map (A B C : Type) (f : B -> C) (g : A -> list B) : forall l,
  map f (flat_map g l) = flat_map (fun x => map f (g x)) l.
Proof. induction l as [|a l IH]; [reflexivity|]. cbn [flat_map]. rewrite map_app, IH. reflexivity. Qed.

Lemma F2_compose (A B C : Type) (R1 : A -> B -> Prop) (R2 : B -> C -> Prop) : forall a b, Forall2 R1 a b ->
  forall c, Forall2 R2 b c -> Forall2 (fun x z => exists y, R1 x y /\ R2 y z) a c.
Proof.
  intros a b H. induction H as [|x y a b Hxy H IH]; intros c H2; inversion H2; subst; constructor.
  - eexists. split; eassumption.
  - apply IH. assumption.
Qed.

Lemma F2_impl (A B : Type) (R1 R2 : A -> B -> Prop) : (forall a b, R1 a b -> R2 a b) ->
  forall l l', Forall2 R1 l l' -> Forall2 R2 l l'.
Proof. intros H l l' HF. induction HF; constructor; auto. Qed.

Lemma F2_map_r (A B C : Type) (R : A -> C -> Prop) (f : B -> C) : forall l l',
  Forall2 (fun a b => R a (f b)) l l' -> Forall2 R l (map f l').
Proof. intros l l' H. induction H; cbn [map]; constructor; assumption. Qed.

Lemma F2_map_l (A B C : Type) (R : C -> B -> Prop) (f : A -> C) : forall l l',
  Forall2 (fun a b => R (f a) b) l l' -> Forall2 R (map f l) l'.
Proof. intros l l' H. induction H; cbn [map]; constructor; assumption. Qed.

Lemma F2_unmap_r (A B C : Type) (R : A -> C -> Prop) (f : B -> C) : forall l l',
  Forall2 R l (map f l') -> Forall2 (fun a b => R a (f b)) l l'.
Proof.
  intros l l'. revert l. induction l' as [|b l' IH]; intros l H; inversion H; subst; constructor; auto.
Qed.

Lemma F2_flip (A B : Type) (R : A -> B -> Prop) : forall l l', Forall2 R l l' -> Forall2 (fun b a => R a b) l' l.
Proof. intros l l' H. induction H; constructor; assumption. Qed.

Lemma F2_Forall_l (A B : Type) (R : A -> B -> Prop) (P : A -> Prop) : (forall a b, R a b -> P a) ->
  forall l l', Forall2 R l l' -> Forall P l.
Proof. intros H l l' HF. induction HF; constructor; eauto. Qed.

Lemma repeat_F2 (v : Q) : forall l : list srow, Forall (fun r => v == r_x r) l ->
  Forall2 (fun row v' => v' == r_x row) l (repeat v (length l)).
Proof. intros l H. induction H; cbn [length repeat]; constructor; assumption. Qed.

Lemma seg_F2 (Sg : blk elt * Q -> list srow) : forall (ps1 : list (blk elt * Q)) (bs2 : list (blk elt)) (q2 : list Q),
  Forall2 (fun b2 p => length (bel b2) = length (Sg p) /\ bv b2 == bv (fst p)) bs2 ps1 ->
  Forall2 (fun z p => z == snd p) q2 ps1 ->
  (forall p, In p ps1 -> forall r, In r (Sg p) -> r_x r == mval p) ->
  Forall2 (fun row v => v == r_x row) (flat_map Sg ps1) (xfit (combine bs2 q2)).
Proof.
  induction ps1 as [|p ps1 IH]; intros bs2 q2 HB HQ HX; inversion HB; inversion HQ; subst.
  - constructor.
  - cbn [flat_map combine]. rewrite xfit_cons. apply Forall2_app.
    + cbn [fst]. match goal with H : _ /\ _ |- _ => destruct H as [HL HV] end.
      rewrite HL. apply repeat_F2. apply Forall_forall. intros r Hr.
      rewrite (HX p (or_introl eq_refl) r Hr), !mval_eq. cbn [fst snd].
      match goal with H : _ == snd p |- _ => rewrite H end. rewrite HV. reflexivity.
    + apply IH; [assumption| assumption|]. intros p' Hp'. apply HX. right. exact Hp'.
Qed.

(* ------------------------------------------------------------------ *)
(* the second pass                                                     *)
(* ------------------------------------------------------------------ *)
Section SecondPass.
Variable a : Q.
Hypothesis Ha : 0 < a /\ a < 1.
Notation IQ := (quantile_inst a Ha).

Lemma second_pass srt1 v1 r1 srt2 v2 r2 :
  quantile_path a (map elt_of srt1) = Some (v1, r1) ->
  Permutation srt2 (map sx (combine srt1 v1)) ->
  StronglySorted (fun p q => row_le p q = true) srt2 ->
  quantile_path a (map elt_of srt2) = Some (v2, r2) ->
  Forall2 (fun row v => v == r_x row) srt2 v2.
Proof.
  intros H1 Hperm Hsort H2.
  destruct (qp_struct_strict a Ha _ _ _ H1) as (bs1 & q1 & Hbok1 & Hc1 & Eq1 & Hfst1 & Hsnd1 & HG1 & HS1 & Ev1).
  destruct (qp_struct_strict a Ha _ _ _ H2) as (bs2 & q2 & Hbok2 & Hc2 & Eq2 & _ & _ & _ & _ & Ev2).
  set (ps1 := combine bs1 q1) in *.
  set (ms := map mval ps1).
  assert (Hms : StronglySorted Qlt ms) by (apply SS_map; exact HS1).
  assert (Hkeys : Forall (fun r => exists m, In m ms /\ r_x r == m) srt2).
  { apply Forall_forall. intros r Hr.
    assert (HrG : In r (map sx (combine srt1 v1))) by (eapply Permutation_in; [exact Hperm| exact Hr]).
    apply in_map_iff in HrG. destruct HrG as ([r0 v] & <- & Hin).
    apply in_combine_r in Hin. rewrite Ev1 in Hin. destruct (xfit_in ps1 v Hin) as (p & Hp & ->).
    exists (mval p). split; [apply in_map; exact Hp| reflexivity]. }
  assert (Hsx : StronglySorted (fun p q => r_x p <= r_x q) srt2).
  { eapply SS_impl; [|exact Hsort]. intros p q Hpq. apply row_le_x. exact Hpq. }
  pose proof (seg_sorted srow r_x ms srt2 Hms Hsx Hkeys) as Eseg.
  set (Sg := fun p : blk elt * Q => filter (keq srow r_x (mval p)) srt2).
  assert (Eseg' : srt2 = flat_map Sg ps1).
  { unfold ms in Eseg. rewrite flat_map_map in Eseg. exact Eseg. }
  assert (HSgx : forall p r, In r (Sg p) -> r_x r == mval p).
  { intros p r Hr. unfold Sg in Hr. apply filter_In in Hr. destruct Hr as [_ Hk].
    unfold keq in Hk. apply Qeq_bool_iff. exact Hk. }
  assert (Hel1 : map elt_of srt1 = concat (map bel (map fst ps1))) by (rewrite Hfst1; symmetry; exact Hc1).
  assert (HC : forall p, In p ps1 -> Permutation (map elt_of (Sg p)) (bel (fst p))).
  { intros p Hp.
    pose proof (Permutation_map elt_of (filter_perm _ (keq srow r_x (mval p)) _ _ Hperm)) as P.
    rewrite Ev1 in P. rewrite (filter_G (mval p) ps1 srt1 Hel1), (pick_block ps1 HS1 p Hp) in P. exact P. }
  assert (Hdesc : forall p, StronglySorted (fun e1 e2 => ey e2 <= ey e1) (map elt_of (Sg p))).
  { intros p. apply SS_map.
    apply (SS_impl_in _ (fun p q => row_le p q = true)); [|apply SS_filter; exact Hsort].
    intros r r' Hr Hr' Hle. apply row_le_iff in Hle.
    pose proof (HSgx p r Hr) as E1. pose proof (HSgx p r' Hr') as E2.
    unfold elt_of, ey. cbn [fst]. destruct Hle as [[_ Hy]|Hlt]; [exact Hy| Lqa.lra]. }
  (* certified blocks on the groups of the second pass *)
  assert (Hbs1 : StronglySorted (fun p p' => bv (fst p) < bv (fst p')) ps1).
  { apply (SS_unmap _ _ fst (fun b b' : blk elt => bv b < bv b')). rewrite Hfst1. exact (proj2 Hbok1). }
  set (R := fun (c : blk elt) (p : blk elt * Q) =>
              bel c = map elt_of (Sg p) /\ IInv IQ (bel c) (bv c) /\ bv c == bv (fst p) /\
              qupp a (bel c) == qupp a (bel (fst p))).
  assert (Hex : Forall (fun p => exists c, R c p) ps1).
  { apply Forall_forall. intros p Hp.
    rewrite Forall_forall in HG1. destruct (HG1 p Hp) as (Bn & Eb & _ & _).
    pose proof (HC p Hp) as P.
    assert (Cn : map elt_of (Sg p) <> []) by exact (perm_nonempty _ _ _ (Permutation_sym P) Bn).
    destruct (desc_block IQ (map elt_of (Sg p)) Cn (all_dom _ _) (Hdesc p)) as (c & Ec & Ic).
    exists c. unfold R. cbn [g_elt quantile_inst] in Ec. split; [exact Ec|]. split; [exact Ic|].
    destruct Ic as (_ & _ & Et & _). cbn [g_T g_elt quantile_inst] in Et.
    split.
    - rewrite Et, Eb, Ec. exact (qlow_perm a _ _ Ha Cn P).
    - rewrite Ec. exact (qupp_perm a _ _ Ha Cn P). }
  destruct (Forall_ex_F2 _ _ R ps1 Hex) as (cs & Hcs).
  assert (Hbokcs : bok IQ cs).
  { split.
    - exact (F2_Forall_l _ _ R _ (fun c p H => proj1 (proj2 H)) cs ps1 Hcs).
    - exact (SS_transfer _ _ R bv (fun p => bv (fst p)) (fun c p H => proj1 (proj2 (proj2 H))) cs ps1 Hcs Hbs1). }
  assert (Hccs : concat (map bel cs) = map elt_of srt2).
  { transitivity (map elt_of (flat_map Sg ps1)); [|f_equal; symmetry; exact Eseg'].
    rewrite map_flat_map. clear - Hcs. induction Hcs as [|c p cs ps Hcp H IH]; [reflexivity|].
    cbn [map concat flat_map]. rewrite IH. destruct Hcp as (Ec & _). rewrite Ec. reflexivity. }
  pose proof (cert_unique_blocks IQ bs2 cs Hbok2 Hbokcs (eq_trans Hc2 (eq_sym Hccs))) as HU.
  cbn [g_elt quantile_inst] in HU.
  pose proof (F2_compose _ _ _ _ _ _ _ HU _ Hcs) as HBP.
  (* upper envelopes *)
  assert (Hq : Forall2 (fun z p => z == snd p) q2 ps1).
  { apply F2_unmap_r. rewrite Hsnd1.
    assert (HQ0 : Forall2 (fun u1 u2 : Q => u2 == u1) (map (fun b => qupp a (bel b)) bs1)
                          (map (fun b => qupp a (bel b)) bs2)).
    { rewrite <- Hfst1. rewrite map_map. apply F2_map_l, F2_map_r, F2_flip.
      eapply F2_impl; [|exact HBP]. intros b2 p (c & [Eb _] & (_ & _ & _ & Eu)). cbv beta.
      rewrite Eb. exact Eu. }
    pose proof (IsoFitPerm.cummin_RQ _ _ HQ0) as HQ1.
    rewrite <- Eq1, <- Eq2 in HQ1. apply F2_flip in HQ1. exact HQ1. }
  rewrite Ev2. rewrite Eseg' at 1.
  apply seg_F2; [|exact Hq| intros p _ r Hr; exact (HSgx p r Hr)].
  eapply F2_impl; [|exact HBP]. intros b2 p (c & [Eb Ev] & (Ec & _ & Evc & _)). cbv beta.
  split; [rewrite Eb, Ec, map_length; reflexivity| rewrite Ev; exact Evc].
Qed.
End SecondPass.

Lemma F2_combine_Forall (A B : Type) (P : A -> B -> Prop) : forall l l', Forall2 P l l' ->
  Forall (fun p => P (fst p) (snd p)) (combine l l').
Proof. intros l l' H. induction H; cbn [combine]; constructor; assumption. Qed.

Lemma Forall_pairs_F2 : forall back : list (srow * Q), Forall (fun p => snd p == r_x (fst p)) back ->
  Forall2 Qeq (map snd back) (map r_x (map fst back)).
Proof. intros back H. induction H; cbn [map]; constructor; assumption. Qed.

(* the quantile recalibration, seen through the model's own data flow *)
Lemma recal_quantile_inv a x y r : 0 < a /\ a < 1 -> length x = length y ->
  recalibrate IFquantile a x y None = DOk r ->
  let wl := repeat 1 (length y) in
  let srt := isort row_le (mkrows 0 x y wl) in
  exists v rr, quantile_path a (map elt_of srt) = Some (v, rr) /\ length v = length y /\
    r = map snd (isort idx_le (combine (map r_idx srt) v)).
Proof.
  intros Ha Hx Hr wl srt.
  destruct (sorted_data x y None Hx Logic.I eq_refl) as (Hv & Hd & Hpw & Hlen).
  cbv zeta in Hv, Hd, Hpw, Hlen.
  unfold recalibrate in Hr. unfold sorted_rows in Hr, Hd, Hlen. cbn [weights_or_ones] in Hr, Hd, Hlen.
  fold wl in Hr, Hd, Hlen. fold srt in Hr, Hd, Hlen.
  destruct (isotonic_regression (map r_y srt) None true IFquantile a) as [[v rr]|e] eqn:Ei; [|discriminate Hr].
  injection Hr as <-.
  assert (Lv : length v = length y).
  { destruct (iso_contract_all _ _ _ _ _ _ _ Ei) as (L & _). rewrite L, map_length. exact Hlen. }
  change (data (map r_y srt) None) with (udata (map r_y srt)) in Hd.
  rewrite (iso_quantile_unfold (map r_y srt) true a Ha), Hd in Ei.
  destruct (quantile_path a (map elt_of srt)) as [[x0 r0]|] eqn:HP; [|discriminate Ei].
  injection Ei as <- <-.
  exists x0, r0. split; [reflexivity|]. split; [exact Lv| reflexivity].
Qed.

Lemma recal_quantile_unweighted a x y w r : 0 < a /\ a < 1 ->
  recalibrate IFquantile a x y w = DOk r -> w = None.
Proof.
  intros Ha Hr. destruct w as [wl0|]; [|reflexivity]. exfalso.
  unfold recalibrate in Hr. unfold isotonic_regression in Hr.
  rewrite (level_guard a Ha) in Hr. cbn [andb] in Hr. discriminate Hr.
Qed.

(* the recalibration is idempotent: quantile functional *)
Theorem recal_idempotent_quantile : forall a x0 x y w r',
  0 < a /\ a < 1 -> length x0 = length y ->
  recalibrate IFquantile a x0 y w = DOk x ->
  recalibrate IFquantile a x y w = DOk r' ->
  Forall2 Qeq r' x.
Proof.
  intros a x0 x y w r' Ha Hx0 H1 H2.
  pose proof (recal_quantile_unweighted a x0 y w x Ha H1) as ->.
  set (wl := repeat 1 (length y)).
  assert (Hwl : length wl = length y) by apply repeat_length.
  destruct (recal_quantile_inv a x0 y x Ha Hx0 H1) as (v1 & rr1 & HP1 & Lv1 & Ex).
  cbv zeta in HP1, Ex. fold wl in HP1, Ex.
  set (srt1 := isort row_le (mkrows 0 x0 y wl)) in *.
  destruct (unsort_rows x0 y wl v1 Hx0 Hwl Lv1) as (A1 & A2 & A3). cbv zeta in A1, A2, A3.
  fold srt1 in A1, A2, A3.
  set (back1 := isort key_le (combine srt1 v1)) in *.
  assert (Ex' : x = map snd back1) by (rewrite A2; exact Ex).
  assert (Lx : length x = length y).
  { rewrite Ex', map_length. unfold back1. rewrite isort_length, combine_length.
    unfold srt1. rewrite isort_length, mkrows_length by assumption. lia. }
  destruct (recal_quantile_inv a x y r' Ha Lx H2) as (v2 & rr2 & HP2 & Lv2 & Er).
  cbv zeta in HP2, Er. fold wl in HP2, Er.
  set (srt2 := isort row_le (mkrows 0 x y wl)) in *.
  assert (Erows : mkrows 0 x y wl = map sx back1).
  { rewrite (mkrows_sx x0 y wl x 0 Hx0 Lx Hwl), <- A1, Ex', combine_split. reflexivity. }
  assert (Hperm : Permutation srt2 (map sx (combine srt1 v1))).
  { unfold srt2. eapply perm_trans; [apply isort_perm|]. rewrite Erows. apply Permutation_map. exact A3. }
  pose proof (second_pass a Ha srt1 v1 rr1 srt2 v2 rr2 HP1 Hperm (sorted_rows_SS _) HP2) as F.
  destruct (unsort_rows x y wl v2 Lx Hwl Lv2) as (B1 & B2 & B3). cbv zeta in B1, B2, B3.
  fold srt2 in B1, B2, B3.
  set (back2 := isort key_le (combine srt2 v2)) in *.
  pose proof (F2_combine_Forall _ _ _ _ _ F) as FC. cbv beta in FC.
  pose proof (Forall_perm _ _ _ _ (Permutation_sym B3) FC) as FB.
  pose proof (Forall_pairs_F2 back2 FB) as FQ.
  rewrite B1, (mkrows_x x y wl 0 Lx Hwl), B2, <- Er in FQ. exact FQ.
Qed.

Print Assumptions recal_idempotent_quantile.

(* ================================================================== *)
(* Part H.  C06: miscalibration = 0 for a forecast that is the OUTPUT  *)
(*   of a recalibration: x = recalibrate(x0) => recalibrate(x) == x.   *)
(*   Mean and expectile (strictly convex losses): the second fit as a  *)
(*   function of x0 (P2 o P1) is a monotone competitor of the first    *)
(*   fit, the identity is a monotone competitor of the second fit over *)
(*   the rows (x_i, y_i, w_i); both optimalities carry a positive      *)
(*   quadratic gap, so P2(P1(x0_i)) = P1(x0_i) at every row.           *)
(* ================================================================== *)
From MD Require Import model.IsoFit proofs.IsoFitProps proofs.IsoFitPerm.
(* from here on row, mkrow, row_le, insert, isort, sorted_rows are those of model/IsoFit.v *)
Open Scope Q_scope.

Lemma mk_rows_cons a b c X y w :
  mk_rows (a :: X) (b :: y) (c :: w) = IsoFit.mkrow a b c :: mk_rows X y w.
Proof. reflexivity. Qed.

(* substituting the X column *)
Lemma rsum_subst (K K' : IsoFit.row -> R) (T : Q -> Q) : forall x0 x, Forall2 (fun p q => q == T p) x0 x ->
  (forall p q yy ww, q == T p -> K (IsoFit.mkrow q yy ww) = K' (IsoFit.mkrow p yy ww)) ->
  forall y wl, rsum K (mk_rows x y wl) = rsum K' (mk_rows x0 y wl).
Proof.
  intros x0 x HF HK. induction HF as [|p q x0 x Hpq HF IH]; intros y wl.
  - reflexivity.
  - destruct y as [|b y]; [reflexivity|]. destruct wl as [|c wl]; [reflexivity|].
    rewrite !mk_rows_cons. cbn [rsum]. rewrite (HK p q b c Hpq), IH. reflexivity.
Qed.

Lemma predict_val_proper X y w inc f lvl ft p q : fit X y w inc f lvl = FOk ft ->
  p == q -> predict_val ft p == predict_val ft q.
Proof.
  intros H Hpq.
  destruct (predict_total _ _ _ _ _ _ _ p H) as (vp & Ep).
  destruct (predict_total _ _ _ _ _ _ _ q H) as (vq & Eq).
  unfold predict_val. rewrite Ep, Eq.
  exact (predict_proper _ _ _ _ _ _ _ p q vp vq H Hpq Ep Eq).
Qed.

Lemma predict_val_mono X y w f lvl ft p q : fit X y w true f lvl = FOk ft ->
  p <= q -> predict_val ft p <= predict_val ft q.
Proof.
  intros H Hpq.
  destruct (predict_total _ _ _ _ _ _ _ p H) as (vp & Ep).
  destruct (predict_total _ _ _ _ _ _ _ q H) as (vq & Eq).
  unfold predict_val. rewrite Ep, Eq.
  exact (predict_monotone _ _ _ _ _ _ _ p q vp vq H Hpq Ep Eq).
Qed.

Lemma Q2R_dmono : dmonoR true Q2R.
Proof. intros p q Hpq. apply Qle_Rle. exact Hpq. Qed.

Section Idempotent.
Variable L : (Q -> R) -> IsoFit.row -> R.
Variable c : R.
Hypothesis c_pos : (0 < c)%R.
(* the row loss reads the X column through the candidate function only *)
Hypothesis L_subst : forall (G : Q -> R) (T : Q -> Q) p q yy ww, G q = G (T p) ->
  L G (IsoFit.mkrow q yy ww) = L (fun z => G (T z)) (IsoFit.mkrow p yy ww).
Variables x0 x y : list Q.
Variable w : option (list Q).
Variable f : ifun.
Variable a : Q.
Variables ft1 ft2 : fitted.
Hypothesis HF1 : fit x0 y w true f a = FOk ft1.
Hypothesis HF2 : fit x y w true f a = FOk ft2.
Hypothesis Hx : Forall2 (fun p q => q == predict_val ft1 p) x0 x.
Let P1 := fun q => Q2R (predict_val ft1 q).
Let P2 := fun q => Q2R (predict_val ft2 q).
Hypothesis opt1 : forall g : Q -> R, dmonoR true g ->
  (rsum (L g) (rows_of x0 y w) >= rsum (L P1) (rows_of x0 y w) + c * rsum (row_gap g P1) (rows_of x0 y w))%R.
Hypothesis opt2 : forall g : Q -> R, dmonoR true g ->
  (rsum (L g) (rows_of x y w) >= rsum (L P2) (rows_of x y w) + c * rsum (row_gap g P2) (rows_of x y w))%R.

Lemma idem_rows : forall rw, In rw (rows_of x0 y w) ->
  predict_val ft2 (predict_val ft1 (rX rw)) == predict_val ft1 (rX rw).
Proof using c_pos L_subst HF1 HF2 Hx opt1 opt2.
  set (T := predict_val ft1).
  set (g := fun q => P2 (T q)).
  assert (Hg : dmonoR true g).
  { intros p q Hpq. unfold g.
    apply (predict_val_dmono _ _ _ _ _ _ _ HF2 (T p) (T q)).
    exact (predict_val_mono _ _ _ _ _ _ p q HF1 Hpq). }
  pose proof (opt1 g Hg) as O1.
  pose proof (opt2 Q2R Q2R_dmono) as O2.
  set (wl := match w with Some w' => w' | None => map (fun _ => 1) y end).
  assert (E1 : rsum (L Q2R) (rows_of x y w) = rsum (L P1) (rows_of x0 y w)).
  { unfold rows_of. apply (rsum_subst _ _ T x0 x Hx).
    intros p q yy ww Hpq. apply (L_subst Q2R T). apply Qeq_eqR. exact Hpq. }
  assert (E2 : rsum (L P2) (rows_of x y w) = rsum (L g) (rows_of x0 y w)).
  { unfold rows_of. apply (rsum_subst _ _ T x0 x Hx).
    intros p q yy ww Hpq. apply (L_subst P2 T). unfold P2. apply Qeq_eqR.
    exact (predict_val_proper _ _ _ _ _ _ _ q (T p) HF2 Hpq). }
  assert (E3 : rsum (row_gap Q2R P2) (rows_of x y w) = rsum (row_gap P1 g) (rows_of x0 y w)).
  { unfold rows_of. apply (rsum_subst _ _ T x0 x Hx).
    intros p q yy ww Hpq. unfold row_gap, g, P1, P2. cbn [rW rX].
    rewrite (Qeq_eqR _ _ Hpq).
    rewrite (Qeq_eqR _ _ (predict_val_proper _ _ _ _ _ _ _ q (T p) HF2 Hpq)). reflexivity. }
  rewrite E1, E2, E3 in O2.
  intros rw Hin.
  pose proof (two_sided_optimal_equal L c P1 g (rows_of x0 y w) c_pos
                (fit_rows_pos _ _ _ _ _ _ _ HF1) O1 O2 rw Hin) as E.
  unfold P1, g, P2 in E. apply eqR_Qeq in E. symmetry. exact E.
Qed.
End Idempotent.

Lemma row_sq_subst (G : Q -> R) (T : Q -> Q) p q yy ww : G q = G (T p) ->
  row_sq G (IsoFit.mkrow q yy ww) = row_sq (fun z => G (T z)) (IsoFit.mkrow p yy ww).
Proof. intros E. unfold row_sq. cbn [rW rY rX]. rewrite E. reflexivity. Qed.

Lemma row_as_subst lvl (G : Q -> R) (T : Q -> Q) p q yy ww : G q = G (T p) ->
  row_as lvl G (IsoFit.mkrow q yy ww) = row_as lvl (fun z => G (T z)) (IsoFit.mkrow p yy ww).
Proof. intros E. unfold row_as. cbn [rW rY rX]. rewrite E. reflexivity. Qed.

Lemma fit_level X y w inc lvl ft : fit X y w inc IFexpectile lvl = FOk ft -> 0 < lvl /\ lvl < 1.
Proof.
  intros HF. destruct (fit_inv _ _ _ _ _ _ _ HF) as (_ & yiso & r & idx & HI & _).
  destruct (iso_ok_inv _ _ _ _ _ _ _ HI) as (_ & _ & [C|[[_ Hl]|[(C & _)|[C _]]]]); try discriminate C.
  exact Hl.
Qed.

(* the recalibration is idempotent: mean and expectile functional *)
Theorem recal_idempotent : forall f a x0 x y w r',
  f = IFmean \/ f = IFexpectile ->
  length x0 = length y ->
  (match w with None => True | Some wl => length wl = length y end) ->
  recalibrate f a x0 y w = DOk x ->
  recalibrate f a x y w = DOk r' ->
  Forall2 Qeq r' x.
Proof.
  intros f a x0 x y w r' Hf Hx0 Hw H1 H2.
  destruct (recal_bridge _ _ _ _ _ _ Hx0 Hw H1) as (ft1 & HF1 & F1).
  assert (Lx : length x = length y).
  { rewrite <- Hx0. symmetry. exact (F2_length _ _ _ _ _ F1). }
  destruct (recal_bridge _ _ _ _ _ _ Lx Hw H2) as (ft2 & HF2 & F2).
  assert (Hrows : forall rw, In rw (rows_of x0 y w) ->
            predict_val ft2 (predict_val ft1 (rX rw)) == predict_val ft1 (rX rw)).
  { destruct Hf as [->| ->].
    - apply (idem_rows row_sq 1%R ltac:(lra) row_sq_subst x0 x y w IFmean a ft1 ft2 HF1 HF2 F1).
      + intros g Hg. pose proof (fit_predict_optimal_rows_mean _ _ _ _ _ _ HF1 g Hg) as O.
        cbv zeta in O. lra.
      + intros g Hg. pose proof (fit_predict_optimal_rows_mean _ _ _ _ _ _ HF2 g Hg) as O.
        cbv zeta in O. lra.
    - pose proof (fit_level _ _ _ _ _ _ HF1) as Hl.
      assert (Hc : (0 < Rmin (Q2R a) (1 - Q2R a))%R).
      { destruct Hl as [Hl0 Hl1]. apply Qlt_Rlt in Hl0, Hl1.
        rewrite RMicromega.Q2R_0 in Hl0. rewrite RMicromega.Q2R_1 in Hl1.
        unfold Rmin. destruct (Rle_dec (Q2R a) (1 - Q2R a)); lra. }
      apply (idem_rows (row_as a) _ Hc (row_as_subst a) x0 x y w IFexpectile a ft1 ft2 HF1 HF2 F1).
      + intros g Hg. exact (fit_predict_optimal_rows_expectile _ _ _ _ _ _ HF1 g Hg).
      + intros g Hg. exact (fit_predict_optimal_rows_expectile _ _ _ _ _ _ HF2 g Hg). }
  assert (H3 : Forall (fun p => predict_val ft2 (predict_val ft1 p) == predict_val ft1 p) x0).
  { apply Forall_forall. intros p Hp. destruct (In_nth _ _ 0 Hp) as (k & Hk & <-).
    destruct (rows_of_nth x0 y w k Hx0 Hw Hk) as (rw & Hin & <-). exact (Hrows rw Hin). }
  assert (Hprop : forall p q, p == q -> predict_val ft2 p == predict_val ft2 q).
  { intros p q Hpq. exact (predict_val_proper _ _ _ _ _ _ _ p q HF2 Hpq). }
  clear - F1 F2 H3 Hprop. revert r' F2. induction F1 as [|p q x0 x Hpq F1 IH]; intros r' F2.
  - inversion F2. constructor.
  - inversion F2 as [|q' s x' r'' Hs F2' E1 E2]; subst.
    constructor.
    + rewrite Hs, (Hprop q _ Hpq), (Forall_inv H3). symmetry. exact Hpq.
    + exact (IH (Forall_inv_tail H3) _ F2').
Qed.

Print Assumptions recal_idempotent.

(* every functional of the library *)
Theorem recal_idempotent_all : forall f a x0 x y w r',
  f = IFmean \/ f = IFexpectile \/ (f = IFquantile /\ 0 < a /\ a < 1) ->
  length x0 = length y ->
  (match w with None => True | Some wl => length wl = length y end) ->
  recalibrate f a x0 y w = DOk x ->
  recalibrate f a x y w = DOk r' ->
  Forall2 Qeq r' x.
Proof.
  intros f a x0 x y w r' Hf Hx0 Hw H1 H2. destruct Hf as [Hf|[Hf|[-> Ha]]].
  - exact (recal_idempotent f a x0 x y w r' (or_introl Hf) Hx0 Hw H1 H2).
  - exact (recal_idempotent f a x0 x y w r' (or_intror Hf) Hx0 Hw H1 H2).
  - exact (recal_idempotent_quantile a x0 x y w r' Ha Hx0 H1 H2).
Qed.

(* C06: miscalibration = 0 for a forecast column that is itself the recalibrated output of
   some forecast x0 (same observations, weights, functional and level): mean, expectile and
   quantile functional ("median" as the alias of quantile 1/2 when the variant has it), every
   score S that does not distinguish equal rationals *)
Theorem decomp_mcb_zero_if_recalibrated : forall (v : variant) (S : Q -> Q -> option Q),
  (forall y z z', z == z' -> S y z = S y z') ->
  forall sf_fun sf_level y cols w functional level rows fa f a,
  infer sf_fun sf_level functional level = DOk fa ->
  alias v fa = (f, a) ->
  f = IFmean \/ f = IFexpectile \/ f = IFquantile ->
  (* the smallest observation is an admissible prediction *)
  allowed S (hd 0 y) (minQ (hd 0 y) (tl y)) = true ->
  decompose v S sf_fun sf_level y cols w functional level = DOk rows ->
  Forall2 (fun x r => (exists x0, length x0 = length y /\ recalibrate f a x0 y w = DOk x) -> mcb r == 0)
          cols rows.
Proof.
  intros v S S_proper sf_fun sf_level y cols w functional level rows fa f a Hinf Hal Hf Hadm H.
  destruct (decompose_inv _ _ _ _ _ _ _ _ _ _ H) as (f' & a' & m & ymin & ok & sm & HR).
  destruct HR as ((fa' & Hinf' & Ha') & Hc & Hw & Hp & _ & Hpre & Hcols).
  rewrite Hinf in Hinf'. injection Hinf' as <-.
  rewrite Hal in Ha'. injection Ha' as <- <-.
  destruct (prelude_inv _ _ _ _ _ _ _ _ _ Hpre) as (Hn & Hm & Hsm & Hymin & Hok).
  assert (Eok : ok = true) by (rewrite Hok, Hymin; exact Hadm).
  assert (Hf' : f = IFmean \/ f = IFexpectile \/ (f = IFquantile /\ 0 < a /\ a < 1)).
  { destruct Hf as [Hf|[Hf|Hf]]; [left; exact Hf| right; left; exact Hf|].
    right. right. split; [exact Hf|]. subst f. exact (infer_level_alias v _ _ _ _ _ _ _ Hinf Hal eq_refl). }
  pose proof (columns_inv _ _ _ _ _ _ _ _ _ _ _ Hcols) as HF.
  clear Hcols H Hpre.
  induction HF as [|x row cols rows Hx HF IH]; constructor.
  - clear IH. intros (x0 & Lx0 & Hx0).
    destruct (column_inv _ _ _ _ _ _ _ _ _ _ _ Hx) as (r & s & sr & Hrf & Hs & Hsr & _ & ->).
    unfold recal_final in Hrf.
    destruct (recalibrate f a x y w) as [r0|e] eqn:Er; [|discriminate Hrf].
    rewrite Eok in Hrf. cbn [negb andb] in Hrf. injection Hrf as <-.
    pose proof (recal_idempotent_all f a x0 x y w r0 Hf' Lx0 Hw Hx0 Er) as HQ.
    unfold avg_score in Hs, Hsr. rewrite (scores_proper S S_proper y _ _ HQ) in Hsr.
    destruct (scores S y x) as [ss|]; [|discriminate Hs].
    injection Hs as <-. injection Hsr as <-. cbn [mcb]. ring.
  - apply IH. inversion Hc; assumption.
Qed.

Print Assumptions decomp_mcb_zero_if_recalibrated.

(* the quantile functional alone: no axiom *)
Theorem decomp_mcb_zero_if_recalibrated_quantile : forall (v : variant) (S : Q -> Q -> option Q),
  (forall y z z', z == z' -> S y z = S y z') ->
  forall sf_fun sf_level y cols w functional level rows fa a,
  infer sf_fun sf_level functional level = DOk fa ->
  alias v fa = (IFquantile, a) ->
  allowed S (hd 0 y) (minQ (hd 0 y) (tl y)) = true ->
  decompose v S sf_fun sf_level y cols w functional level = DOk rows ->
  Forall2 (fun x r => (exists x0, length x0 = length y /\ recalibrate IFquantile a x0 y w = DOk x) -> mcb r == 0)
          cols rows.
Proof.
  intros v S S_proper sf_fun sf_level y cols w functional level rows fa a Hinf Hal Hadm H.
  destruct (decompose_inv _ _ _ _ _ _ _ _ _ _ H) as (f' & a' & m & ymin & ok & sm & HR).
  destruct HR as ((fa' & Hinf' & Ha') & Hc & Hw & Hp & _ & Hpre & Hcols).
  rewrite Hinf in Hinf'. injection Hinf' as <-.
  rewrite Hal in Ha'. injection Ha' as <- <-.
  destruct (prelude_inv _ _ _ _ _ _ _ _ _ Hpre) as (Hn & Hm & Hsm & Hymin & Hok).
  assert (Eok : ok = true) by (rewrite Hok, Hymin; exact Hadm).
  pose proof (infer_level_alias v _ _ _ _ _ _ _ Hinf Hal eq_refl) as Ha.
  pose proof (columns_inv _ _ _ _ _ _ _ _ _ _ _ Hcols) as HF.
  clear Hcols H Hpre.
  induction HF as [|x row cols rows Hx HF IH]; constructor.
  - clear IH. intros (x0 & Lx0 & Hx0).
    destruct (column_inv _ _ _ _ _ _ _ _ _ _ _ Hx) as (r & s & sr & Hrf & Hs & Hsr & _ & ->).
    unfold recal_final in Hrf.
    destruct (recalibrate IFquantile a x y w) as [r0|e] eqn:Er; [|discriminate Hrf].
    rewrite Eok in Hrf. cbn [negb andb] in Hrf. injection Hrf as <-.
    pose proof (recal_idempotent_quantile a x0 x y w r0 Ha Lx0 Hx0 Er) as HQ.
    unfold avg_score in Hs, Hsr. rewrite (scores_proper S S_proper y _ _ HQ) in Hsr.
    destruct (scores S y x) as [ss|]; [|discriminate Hs].
    injection Hs as <-. injection Hsr as <-. cbn [mcb]. ring.
  - apply IH. inversion Hc; assumption.
Qed.

Print Assumptions decomp_mcb_zero_if_recalibrated_quantile.

(* ================================================================== *)
(* The hypotheses are satisfiable                                      *)
(* ================================================================== *)
Lemma Q2R_pos_lit (q : Q) : 0 < q -> (0 < Q2R q)%R.
Proof. intros H. apply Qlt_Rlt in H. rewrite RMicromega.Q2R_0 in H. exact H. Qed.

(* Poisson-type asymmetric score (degree 1, level 1/5), weights, ties *)
Definition ex_x : list Q := [1; 2; 2; 3; 1].
Definition ex_y : list Q := [3; 1; 2; 2; 1#2].
Definition ex_w : list Q := [1; 2; 1; 3; 1].
Definition ex_y2 : list Q := [3; -1; 2; 2; 0].
Definition ex_ones : list Q := repeat 1 5.

Example recal_expectile_sign_example :
  exists r, recalibrate IFexpectile (1#5) ex_x ex_y (Some ex_w) = DOk r /\
    (tlossR (hes_val 1 (Q2R (1#5))) (combine ex_y ex_w) r
     <= tlossR (hes_val 1 (Q2R (1#5))) (combine ex_y ex_w) ex_x)%R.
Proof.
  eexists. split; [vm_compute; reflexivity|].
  assert (D : forall q : Q, 0 < q -> domZ 1 (Q2R q)).
  { intros q Hq. unfold domZ. rewrite hrange_1. exact (Q2R_pos_lit q Hq). }
  refine (proj1 (proj2 (recal_expectile_sign 1 (1#5) ex_x ex_y (Some ex_w) _
           _ _ _ _ _ _ _ _))).
  - split; reflexivity.
  - discriminate.
  - reflexivity.
  - reflexivity.
  - reflexivity.
  - vm_compute. reflexivity.
  - apply D. reflexivity.
  - unfold ex_x. repeat (apply Forall_cons; [apply D; reflexivity|]). apply Forall_nil.
Qed.

(* pinball loss (degree 1: every real is admissible), level 1/4 *)
Example recal_quantile_sign_example :
  exists r, recalibrate IFquantile (1#4) ex_x ex_y2 None = DOk r /\
    forall c : Q,
    (tlossR (hqs_val 1 (Q2R (1#4))) (combine ex_y2 ex_ones) r
     <= tlossR (hqs_val 1 (Q2R (1#4))) (combine ex_y2 ex_ones) (repeat c 5))%R.
Proof.
  eexists. split; [vm_compute; reflexivity|].
  assert (W : hqs_whole_line 1 = true).
  { unfold hqs_whole_line, Reqb. destruct (Req_EM_T 1 1) as [_|C]; [reflexivity| congruence]. }
  assert (D : forall q : Q, dQ_h 1 (Q2R q)) by (intros q; left; exact W).
  intros c.
  refine (proj2 (proj2 (recal_quantile_sign 1 (1#4) ex_x ex_y2 None _
           _ _ _ _ _ _ _ _)) c (D c)).
  - split; reflexivity.
  - discriminate.
  - reflexivity.
  - exact Logic.I.
  - reflexivity.
  - vm_compute. reflexivity.
  - apply D.
  - apply Forall_forall. intros q _. apply D.
Qed.

(* a recalibrated forecast is a fixed point; a constant column has no discrimination *)
Example recal_idempotent_example :
  exists x r', recalibrate IFmean (1#2) [1; 2; 2; 3; 1] [3; 1; 2; 2; 0] None = DOk x /\
               recalibrate IFmean (1#2) x [3; 1; 2; 2; 0] None = DOk r' /\ Forall2 Qeq r' x.
Proof.
  do 2 eexists. split; [vm_compute; reflexivity|]. split; [vm_compute; reflexivity|].
  repeat constructor.
Qed.

Example recal_idempotent_quantile_example :
  exists x r', recalibrate IFquantile (1#3) [1; 2; 3; 4; 5; 6; 7; 8] [1; 3; 0; 2; 5; 4; 4; 7] None = DOk x /\
               recalibrate IFquantile (1#3) x [1; 3; 0; 2; 5; 4; 4; 7] None = DOk r' /\ Forall2 Qeq r' x.
Proof.
  do 2 eexists. split; [vm_compute; reflexivity|]. split; [vm_compute; reflexivity|].
  repeat constructor.
Qed.

Example dsc_zero_quantile_example :
  exists r, decompose fixed (total (pin_score (1#4))) (Some IFquantile) (Some (1#4)) [3; 1; 2; 2; 0]
              [[7; 7; 7; 7; 7]] None None None = DOk [r] /\ dsc r == 0.
Proof. eexists. split; [vm_compute; reflexivity| reflexivity]. Qed.
