(* Lemmas about model/PlotMarginal.v (what plot_marginal draws), for ALL tables / inputs.
   Companion statement of C19: "the marginal plot draws compute_marginal's numbers".

     pm_plot_structure            plot_marginal draws exactly the table compute_marginal returns for the same arguments
     pm_series_items              the series are mean y_obs, mean y_pred (, partial dependence), in that order, with those labels
     pm_lines_are_table_columns   y data of every series = that column of the table, in table order
     pm_lines_are_table_means     ... spelled out for y_obs_mean / y_pred_mean on the table itself
     pm_pd_is_table_pd            y data of the dashed series = the partial_dependence column
     pm_x_positions               x data: 0, 1, .. (categorical) / the feature column (numerical; null row NaN)
     pm_points_per_group          exactly one point with a finite x per non-null group
     pm_null_marker               the diamond carries the null row's value of the same column
     pm_bar_heights               bar heights = weights / total weight (non-null rows; null row)
     pm_bars_sum                  they sum to 1 (total weight <> 0, at most one null row)
     pm_bars_sum_num_table / pm_bars_sum_str_table      ... for the tables of compute_marginal (no extra hypothesis)
     pm_no_shape_error            distinct feature cells: the categorical branch never hits matplotlib's shape error
     pm_all_null_numeric_raises, pm_single_column_2d_is_model_column      the two findings, as computed witnesses *)
From Coq Require Import ZArith QArith Qabs Qreduction Lqa Lia List Bool Arith String.
Import ListNotations.
Open Scope Q_scope.
From MD Require Import lib.QLists model.Functionals model.Binning model.PartialDep model.Bias model.Marginal
  model.PlotMarginal proofs.BiasProps proofs.MarginalProps.

(* ------------------------------------------------------------------ *)
(* lists *)

Lemma pm_map_snd_combine {A B} (a : list A) (b : list B) :
  (List.length b <= List.length a)%nat -> map snd (combine a b) = b.
Proof.
  revert b. induction a as [|x a IH]; intros b Hl.
  - destruct b; [reflexivity| simpl in Hl; lia].
  - destruct b as [|y b]; [reflexivity|]. cbn [combine map snd]. rewrite IH; [reflexivity| simpl in Hl; lia].
Qed.

Lemma pm_map_fst_combine {A B} (a : list A) (b : list B) :
  (List.length a <= List.length b)%nat -> map fst (combine a b) = a.
Proof.
  revert b. induction a as [|x a IH]; intros b Hl; [reflexivity|].
  destruct b as [|y b]; [simpl in Hl; lia|]. cbn [combine map fst]. rewrite IH; [reflexivity| simpl in Hl; lia].
Qed.

Lemma pm_filter_lengths {A} (P : A -> bool) (l : list A) :
  (List.length (filter P l) + List.length (filter (fun x => negb (P x)) l) = List.length l)%nat.
Proof.
  induction l as [|x l IH]; [reflexivity|]. cbn [filter]. destruct (P x); cbn [negb List.length]; lia.
Qed.

Lemma pm_existsb_filter {A} (P : A -> bool) (l : list A) :
  existsb P l = negb (Nat.eqb (List.length (filter P l)) 0).
Proof.
  induction l as [|x l IH]; [reflexivity|]. cbn [existsb filter]. destruct (P x); [reflexivity| exact IH].
Qed.

Lemma pm_find_filter {A} (P : A -> bool) (l : list A) :
  find P l = match filter P l with x :: _ => Some x | [] => None end.
Proof.
  induction l as [|x l IH]; [reflexivity|]. cbn [find filter]. destruct (P x); [reflexivity| exact IH].
Qed.

Lemma pm_all_some_map {A B} (f : A -> option B) (l : list A) r :
  all_some (map f l) = Some r -> map f l = map Some r.
Proof.
  revert r. induction l as [|x l IH]; intros r H.
  - cbn in H. inversion H. reflexivity.
  - cbn [map all_some] in H. destruct (f x) as [b|] eqn:E; [|discriminate].
    destruct (all_some (map f l)) as [r'|] eqn:E'; [|discriminate]. inversion H; subst.
    cbn [map]. rewrite E, (IH r' eq_refl). reflexivity.
Qed.

Lemma pm_all_some_length {A B} (f : A -> option B) (l : list A) r :
  all_some (map f l) = Some r -> List.length r = List.length l.
Proof.
  intros H. apply pm_all_some_map in H. apply (f_equal (@List.length _)) in H. rewrite !map_length in H. auto.
Qed.

(* ------------------------------------------------------------------ *)
(* the frame is the table (same rows, same order) with its partial_dependence column *)

Lemma attach_rows t col : map fst (attach t col) = t.
Proof.
  revert col. induction t as [|r t IH]; intros col; [reflexivity|].
  destruct col as [|c col]; cbn [attach map fst]; rewrite IH; reflexivity.
Qed.

Lemma frame_rows t pdcol : map fst (frame t pdcol) = t.
Proof. apply attach_rows. Qed.

Lemma frame_length t pdcol : List.length (frame t pdcol) = List.length t.
Proof. rewrite <- (frame_rows t pdcol) at 2. rewrite map_length. reflexivity. Qed.

Lemma attach_pd t col : List.length col = List.length t -> map snd (attach t col) = col.
Proof.
  revert col. induction t as [|r t IH]; intros col Hl.
  - destruct col; [reflexivity| discriminate].
  - destruct col as [|c col]; [discriminate|]. cbn [attach map snd]. rewrite IH; [reflexivity| simpl in Hl; lia].
Qed.

Lemma frame_pd t col : List.length col = List.length t -> map snd (frame t (Some col)) = col.
Proof. apply attach_pd. Qed.

Definition table_no_nulls (t : list mrow) : list mrow := filter (fun r => negb (is_null_row r)) t.

Lemma no_nulls_rows fr : map fst (no_nulls fr) = table_no_nulls (map fst fr).
Proof.
  induction fr as [|p fr IH]; [reflexivity|]. unfold no_nulls, table_no_nulls in *. cbn [filter map].
  unfold is_null_prow at 1. destruct (is_null_row (fst p)); cbn [negb map]; [exact IH| rewrite IH; reflexivity].
Qed.

Lemma no_nulls_pd t col :
  List.length col = List.length t ->
  map snd (no_nulls (attach t col)) = kept (map is_null_row t) col.
Proof.
  revert col. induction t as [|r t IH]; intros col Hl.
  - destruct col; reflexivity.
  - destruct col as [|c col]; [discriminate|]. cbn [attach map kept]. unfold no_nulls in *. cbn [filter].
    unfold is_null_prow at 1. cbn [fst]. destruct (is_null_row r); cbn [negb].
    + apply IH. simpl in Hl; lia.
    + cbn [map snd]. rewrite IH; [reflexivity| simpl in Hl; lia].
Qed.

Lemma null_count_frame t pdcol :
  List.length (filter is_null_prow (frame t pdcol)) = List.length (filter is_null_row t).
Proof.
  rewrite <- (frame_rows t pdcol) at 2. generalize (frame t pdcol). intros fr.
  induction fr as [|p fr IH]; [reflexivity|]. cbn [filter map]. unfold is_null_prow at 1.
  destruct (is_null_row (fst p)); cbn [List.length]; rewrite IH; reflexivity.
Qed.

(* ------------------------------------------------------------------ *)
(* inversion of the two branches *)

Definition drawn_rows (is_cat : bool) (fr : list prow) : list prow := if is_cat then no_nulls fr else fr.

Definition cat_series (fr : list prow) (sl : show_lines) (i : item) : series :=
  let nx := n_x fr in
  mkser i (item_label i) (main_style true sl i)
        (map (fun xp => (Some (fst xp), value_of i (snd xp)))
             (combine (positions (nx - (if has_null_rows fr then 1 else 0))) (no_nulls fr)))
        (option_map (fun p => (Qnat (nx - 1), value_of i p)) (null_row fr)).

Lemma draw_cat_inv fr with_pd sl fname mname p :
  draw_cat fr with_pd sl fname mname = PMOk p ->
  n_x fr = List.length fr /\
  pm_series p = map (cat_series fr sl) (plot_items with_pd) /\
  pm_bars p = default_bars (total_weight fr) (positions (n_x fr - (if has_null_rows fr then 1 else 0))) (no_nulls fr) /\
  pm_null_bar p = option_map (fun q => mkbar (Qnat (n_x fr - 1)) (Some eight_tenths)
                                             (height (total_weight fr) (row_weight q))) (null_row fr).
Proof.
  unfold draw_cat. destruct (Nat.eqb (n_x fr) (List.length fr)) eqn:E; cbn [negb]; [|discriminate].
  intros H. inversion H; subst; clear H. cbn [pm_series pm_bars pm_null_bar].
  apply Nat.eqb_eq in E. repeat split; try exact E; reflexivity.
Qed.

Lemma cat_positions_enough fr :
  n_x fr = List.length fr ->
  (List.length (no_nulls fr) <= List.length (positions (n_x fr - (if has_null_rows fr then 1 else 0))))%nat.
Proof.
  intros E. unfold positions. rewrite map_length, seq_length, E.
  pose proof (pm_filter_lengths is_null_prow fr) as HL. fold (no_nulls fr) in HL.
  unfold has_null_rows. rewrite pm_existsb_filter.
  destruct (List.length (filter is_null_prow fr)) as [|k] eqn:Ek; cbn [Nat.eqb negb]; lia.
Qed.

Definition num_series (fr : list prow) (sl : show_lines) (g : option (Q * Q)) (i : item) : series :=
  mkser i (item_label i) (main_style false sl i)
        (map (fun p => (cell_x (fst p), value_of i p)) fr)
        (match g, null_row fr with
         | Some (xnull, _), Some p => Some (xnull, value_of i p)
         | _, _ => None
         end).

Lemma draw_num_inv fr with_pd sl fname mname p :
  draw_num fr with_pd sl fname mname = PMOk p ->
  exists es xs g,
    all_some (map (fun q => fin_edges (fst q)) (no_nulls fr)) = Some es /\
    all_some (map (fun q => cell_x (fst q)) (no_nulls fr)) = Some xs /\
    (has_null_rows fr = true -> exists gg, g = Some gg) /\
    pm_series p = map (num_series fr sl g) (plot_items with_pd) /\
    pm_bars p = (if num_as_cat xs es then default_bars (total_weight fr) xs (no_nulls fr)
                 else hist_bars (total_weight fr) (List.length (no_nulls fr)) es (no_nulls fr)) /\
    pm_null_bar p = match g, null_row fr with
                    | Some (xnull, w), Some q => Some (mkbar xnull (Some w) (height (total_weight fr) (row_weight q)))
                    | _, _ => None
                    end.
Proof.
  unfold draw_num.
  destruct (all_some (map (fun q => fin_edges (fst q)) (no_nulls fr))) as [es|] eqn:Ees; [|discriminate].
  destruct (all_some (map (fun q => cell_x (fst q)) (no_nulls fr))) as [xs|] eqn:Exs; [|discriminate].
  destruct (has_null_rows fr) eqn:Ehn.
  - destruct (null_geometry (n_x fr) xs (map (fun e => snd e) es)) as [g|] eqn:Eg; [|discriminate].
    intros H. inversion H; subst; clear H. exists es, xs, (Some g). cbn [pm_series pm_bars pm_null_bar].
    repeat split; try reflexivity. intros _. exists g. reflexivity.
  - intros H. inversion H; subst; clear H. exists es, xs, None. cbn [pm_series pm_bars pm_null_bar].
    repeat split; try reflexivity. intros Hc. discriminate.
Qed.

(* ------------------------------------------------------------------ *)
(* the series *)

Theorem pm_series_items is_cat with_pd t pdcol sl fname mname p :
  draw is_cat with_pd t pdcol sl fname mname = PMOk p ->
  map s_item (pm_series p) = plot_items with_pd /\
  map s_label (pm_series p) = map item_label (plot_items with_pd).
Proof.
  unfold draw. destruct is_cat; intros H.
  - apply draw_cat_inv in H. destruct H as [_ [-> _]]. rewrite !map_map. cbn [cat_series s_item s_label].
    split; [apply map_id| reflexivity].
  - apply draw_num_inv in H. destruct H as [es [xs [g [_ [_ [_ [-> _]]]]]]]. rewrite !map_map.
    cbn [num_series s_item s_label]. split; [apply map_id| reflexivity].
Qed.

(* y data of every series: the values of its column on the drawn rows, in the order of the table
   (categorical: the non-null rows; numerical: every row) *)
Theorem pm_lines_are_table_columns is_cat with_pd t pdcol sl fname mname p s :
  draw is_cat with_pd t pdcol sl fname mname = PMOk p ->
  In s (pm_series p) ->
  map snd (s_main s) = map (value_of (s_item s)) (drawn_rows is_cat (frame t pdcol)).
Proof.
  unfold draw. destruct is_cat; intros H Hs.
  - apply draw_cat_inv in H. destruct H as [Enx [Hser _]]. rewrite Hser in Hs.
    apply in_map_iff in Hs. destruct Hs as [i [<- _]]. cbn [cat_series s_main s_item drawn_rows].
    rewrite map_map. cbn [snd].
    rewrite <- (map_map snd (value_of i)). rewrite pm_map_snd_combine; [reflexivity|].
    apply cat_positions_enough. exact Enx.
  - apply draw_num_inv in H. destruct H as [es [xs [g [_ [_ [_ [Hser _]]]]]]]. rewrite Hser in Hs.
    apply in_map_iff in Hs. destruct Hs as [i [<- _]]. cbn [num_series s_main s_item drawn_rows].
    rewrite map_map. reflexivity.
Qed.

(* the columns of the table, as drawn: None = NaN (zero total weight in the group) *)
Definition obs_cell (r : mrow) : option Q :=
  if g_defined (m_obs (o_stat r)) then Some (y_obs_mean (o_stat r)) else None.
Definition pred_cell (r : mrow) : option Q :=
  if g_defined (m_pred (o_stat r)) then Some (y_pred_mean (o_stat r)) else None.
Definition table_rows (is_cat : bool) (t : list mrow) : list mrow := if is_cat then table_no_nulls t else t.

Lemma drawn_rows_table is_cat t pdcol : map fst (drawn_rows is_cat (frame t pdcol)) = table_rows is_cat t.
Proof.
  destruct is_cat; cbn [drawn_rows table_rows]; [rewrite no_nulls_rows|]; rewrite frame_rows; reflexivity.
Qed.

(* C19 companion: the y data of "mean y_obs" / "mean y_pred" are exactly the table's y_obs_mean / y_pred_mean,
   in table order *)
Theorem pm_lines_are_table_means is_cat with_pd t pdcol sl fname mname p s :
  draw is_cat with_pd t pdcol sl fname mname = PMOk p ->
  In s (pm_series p) ->
  (s_item s = IObs -> map snd (s_main s) = map obs_cell (table_rows is_cat t)) /\
  (s_item s = IPred -> map snd (s_main s) = map pred_cell (table_rows is_cat t)).
Proof.
  intros H Hs. rewrite (pm_lines_are_table_columns _ _ _ _ _ _ _ _ _ H Hs).
  rewrite <- (drawn_rows_table is_cat t pdcol). rewrite !map_map.
  split; intros ->; reflexivity.
Qed.

(* the dashed series carries the partial_dependence column (the null row's entry left out for a
   categorical feature, where the null row is drawn as a diamond only) *)
Theorem pm_pd_is_table_pd is_cat with_pd t col sl fname mname p s :
  List.length col = List.length t ->
  draw is_cat with_pd t (Some col) sl fname mname = PMOk p ->
  In s (pm_series p) -> s_item s = IPD ->
  map snd (s_main s) = if is_cat then kept (map is_null_row t) col else col.
Proof.
  intros Hl H Hs Hi. rewrite (pm_lines_are_table_columns _ _ _ _ _ _ _ _ _ H Hs). rewrite Hi.
  change (map (value_of IPD)) with (map (@snd mrow (option Q))).
  destruct is_cat; cbn [drawn_rows].
  - apply no_nulls_pd. exact Hl.
  - apply frame_pd. exact Hl.
Qed.

(* x data *)
Theorem pm_x_positions is_cat with_pd t pdcol sl fname mname p s :
  draw is_cat with_pd t pdcol sl fname mname = PMOk p ->
  In s (pm_series p) ->
  map fst (s_main s) =
    if is_cat then map (fun k => Some (Qnat k)) (seq 0 (List.length (table_no_nulls t)))
    else map cell_x t.
Proof.
  unfold draw. destruct is_cat; intros H Hs.
  - apply draw_cat_inv in H. destruct H as [Enx [Hser _]]. rewrite Hser in Hs.
    apply in_map_iff in Hs. destruct Hs as [i [<- _]]. cbn [cat_series s_main].
    rewrite map_map. cbn [fst].
    pose proof (cat_positions_enough _ Enx) as Hle.
    set (k := (n_x (frame t pdcol) - (if has_null_rows (frame t pdcol) then 1 else 0))%nat) in *.
    assert (Hn : List.length (no_nulls (frame t pdcol)) = List.length (table_no_nulls t)).
    { rewrite <- (frame_rows t pdcol) at 2. rewrite <- no_nulls_rows, map_length. reflexivity. }
    rewrite <- Hn. generalize (no_nulls (frame t pdcol)) Hle. unfold positions. generalize 0%nat.
    clear. induction k as [|k IH]; intros a nn Hle.
    + destruct nn; [reflexivity| simpl in Hle; lia].
    + destruct nn as [|q nn]; [reflexivity|]. cbn [seq map combine fst List.length].
      f_equal. apply IH. simpl in Hle. lia.
  - apply draw_num_inv in H. destruct H as [es [xs [g [_ [_ [_ [Hser _]]]]]]]. rewrite Hser in Hs.
    apply in_map_iff in Hs. destruct Hs as [i [<- _]]. cbn [num_series s_main].
    rewrite map_map. cbn [fst]. rewrite <- (frame_rows t pdcol) at 2. rewrite map_map. reflexivity.
Qed.

Definition has_x (pt : option Q * option Q) : bool := match fst pt with Some _ => true | None => false end.

(* exactly one point with a finite x per non-null group *)
Theorem pm_points_per_group is_cat with_pd t pdcol sl fname mname p s :
  draw is_cat with_pd t pdcol sl fname mname = PMOk p ->
  In s (pm_series p) ->
  List.length (filter has_x (s_main s)) = List.length (table_no_nulls t).
Proof.
  intros H Hs.
  assert (Hx : List.length (filter has_x (s_main s))
               = List.length (filter (fun o => match o with Some _ => true | None => false end) (map fst (s_main s)))).
  { generalize (s_main s). intros l. induction l as [|pt l IH]; [reflexivity|].
    cbn [filter map]. unfold has_x at 1. destruct (fst pt); cbn [List.length]; rewrite IH; reflexivity. }
  rewrite Hx, (pm_x_positions _ _ _ _ _ _ _ _ _ H Hs). clear Hx.
  destruct is_cat.
  - generalize (seq 0 (List.length (table_no_nulls t))) (seq_length (List.length (table_no_nulls t)) 0).
    intros l Hl. rewrite <- Hl. clear. induction l as [|k l IH]; [reflexivity|]. cbn. rewrite IH. reflexivity.
  - unfold draw in H. apply draw_num_inv in H. destruct H as [es [xs [g [_ [Hxs _]]]]].
    apply pm_all_some_map in Hxs. rewrite <- map_map in Hxs. rewrite no_nulls_rows, frame_rows in Hxs.
    unfold table_no_nulls in *. revert xs Hxs. induction t as [|r t IH]; intros xs Hxs; [reflexivity|].
    cbn [filter map] in *. unfold is_null_row at 1 3. unfold is_null_row at 1 in Hxs. unfold cell_x at 1.
    destruct (o_cell r) eqn:Ec; cbn [negb] in *.
    + destruct xs as [|x xs]; [discriminate|]. cbn [map] in Hxs. unfold cell_x at 1 in Hxs. rewrite Ec in Hxs. discriminate.
    + apply (IH xs Hxs).
    + destruct xs as [|x xs]; [discriminate|]. cbn [map] in Hxs. inversion Hxs. cbn [List.length].
      f_equal. apply (IH xs). assumption.
    + destruct xs as [|x xs]; [discriminate|]. cbn [map] in Hxs. unfold cell_x at 1 in Hxs. rewrite Ec in Hxs. discriminate.
    + destruct xs as [|x xs]; [discriminate|]. cbn [map] in Hxs. unfold cell_x at 1 in Hxs. rewrite Ec in Hxs. discriminate.
Qed.

(* the diamond of a series is the null row's value of the same column; it is there iff the table has a null row *)
Theorem pm_null_marker is_cat with_pd t pdcol sl fname mname p :
  draw is_cat with_pd t pdcol sl fname mname = PMOk p ->
  exists xnull, forall s, In s (pm_series p) ->
    s_null s = option_map (fun q => (xnull, value_of (s_item s) q)) (null_row (frame t pdcol)).
Proof.
  unfold draw. destruct is_cat; intros H.
  - apply draw_cat_inv in H. destruct H as [_ [Hser _]]. exists (Qnat (n_x (frame t pdcol) - 1)).
    intros s Hs. rewrite Hser in Hs. apply in_map_iff in Hs. destruct Hs as [i [<- _]]. reflexivity.
  - apply draw_num_inv in H. destruct H as [es [xs [g [_ [_ [Hg [Hser _]]]]]]].
    exists (match g with Some (x, _) => x | None => 0 end).
    intros s Hs. rewrite Hser in Hs. apply in_map_iff in Hs. destruct Hs as [i [<- _]]. cbn [num_series s_null s_item].
    destruct (null_row (frame t pdcol)) as [q|] eqn:Eq.
    + assert (Hhn : has_null_rows (frame t pdcol) = true).
      { unfold has_null_rows, null_row in *. apply find_some in Eq. apply existsb_exists. exists q. exact Eq. }
      destruct (Hg Hhn) as [[x w] ->]. reflexivity.
    + destruct g as [[x w]|]; reflexivity.
Qed.

(* ------------------------------------------------------------------ *)
(* the bars *)

Lemma default_bars_heights tot xs rows :
  (List.length rows <= List.length xs)%nat ->
  map b_height (default_bars tot xs rows) = map (fun q => height tot (row_weight q)) rows.
Proof.
  intros Hl. unfold default_bars. rewrite map_map. cbn [b_height].
  rewrite <- (map_map snd (fun q => height tot (row_weight q))). rewrite pm_map_snd_combine; [reflexivity| exact Hl].
Qed.

Lemma hist_bars_heights tot n es rows :
  List.length es = List.length rows ->
  map b_height (hist_bars tot n es rows) = map (fun q => height tot (row_weight q)) rows.
Proof.
  intros Hl. unfold hist_bars. rewrite map_map.
  rewrite <- (pm_map_snd_combine es rows) at 2 by lia. rewrite map_map.
  apply map_ext. intros [[[lo v] hi] q]. reflexivity.
Qed.

(* bar heights are weights over total weight: one bar per non-null row in table order, and the null row's bar *)
Theorem pm_bar_heights is_cat with_pd t pdcol sl fname mname p :
  draw is_cat with_pd t pdcol sl fname mname = PMOk p ->
  let fr := frame t pdcol in
  map b_height (pm_bars p) = map (fun q => height (total_weight fr) (row_weight q)) (no_nulls fr) /\
  option_map b_height (pm_null_bar p) = option_map (fun q => height (total_weight fr) (row_weight q)) (null_row fr).
Proof.
  intros H. cbv zeta. unfold draw in H. destruct is_cat.
  - apply draw_cat_inv in H. destruct H as [Enx [_ [-> ->]]]. split.
    + apply default_bars_heights. apply cat_positions_enough. exact Enx.
    + destruct (null_row (frame t pdcol)); reflexivity.
  - apply draw_num_inv in H. destruct H as [es [xs [g [Hes [Hxs [Hg [_ [-> ->]]]]]]]]. split.
    + destruct (num_as_cat xs es).
      * apply default_bars_heights. rewrite (pm_all_some_length _ _ _ Hxs). apply Nat.le_refl.
      * apply hist_bars_heights. apply (pm_all_some_length _ _ _ Hes).
    + destruct (null_row (frame t pdcol)) as [q|] eqn:Eq.
      * assert (Hhn : has_null_rows (frame t pdcol) = true).
        { unfold has_null_rows, null_row in *. apply find_some in Eq. apply existsb_exists. exists q. exact Eq. }
        destruct (Hg Hhn) as [[x w] ->]. reflexivity.
      * destruct g as [[x w]|]; reflexivity.
Qed.

Definition hval (h : option Q) : Q := match h with Some v => v | None => 0 end.
Definition heights_sum (p : pmplot) : Q :=
  qsum (map (fun b => hval (b_height b)) (pm_bars p)) +
  match pm_null_bar p with Some b => hval (b_height b) | None => 0 end.

Lemma qsum_div_red tot (l : list Q) :
  ~ tot == 0 -> qsum (map (fun w => Qred (w / tot)) l) == qsum l / tot.
Proof.
  intros Ht. induction l as [|w l IH]; cbn [map qsum]; [field; exact Ht|].
  rewrite IH, Qred_correct. field. exact Ht.
Qed.

Lemma qsum_partition {A} (P : A -> bool) (f : A -> Q) (l : list A) :
  qsum (map f l) == qsum (map f (filter P l)) + qsum (map f (filter (fun x => negb (P x)) l)).
Proof.
  induction l as [|x l IH]; cbn [map qsum filter]; [lra|].
  destruct (P x); cbn [negb map qsum]; rewrite IH; lra.
Qed.

(* C19 companion: the normalised bar heights sum to 1 *)
Theorem pm_bars_sum is_cat with_pd t pdcol sl fname mname p :
  draw is_cat with_pd t pdcol sl fname mname = PMOk p ->
  ~ total_weight (frame t pdcol) == 0 ->
  (List.length (filter is_null_row t) <= 1)%nat ->
  heights_sum p == 1.
Proof.
  intros H Ht Hn. pose proof (pm_bar_heights _ _ _ _ _ _ _ _ H) as HB. cbv zeta in HB. destruct HB as [Hb Hnb].
  set (fr := frame t pdcol) in *. set (tot := total_weight fr) in *.
  assert (Hq : Qeq_bool tot 0 = false).
  { destruct (Qeq_bool tot 0) eqn:E; [|reflexivity]. apply Qeq_bool_iff in E. contradiction. }
  unfold heights_sum.
  assert (H1 : qsum (map (fun b => hval (b_height b)) (pm_bars p))
               == qsum (map row_weight (no_nulls fr)) / tot).
  { rewrite <- (map_map b_height hval), Hb, map_map.
    rewrite <- (qsum_div_red tot (map row_weight (no_nulls fr)) Ht). rewrite map_map.
    unfold height. rewrite Hq. reflexivity. }
  assert (H2 : match pm_null_bar p with Some b => hval (b_height b) | None => 0 end
               == qsum (map row_weight (filter is_null_prow fr)) / tot).
  { rewrite <- (null_count_frame t pdcol) in Hn. fold fr in Hn.
    unfold null_row in Hnb. rewrite pm_find_filter in Hnb.
    destruct (filter is_null_prow fr) as [|q [|q' l]] eqn:Ef; [| |simpl in Hn; lia].
    - destruct (pm_null_bar p); [discriminate|]. cbn [map qsum]. field. exact Ht.
    - destruct (pm_null_bar p) as [b|]; [|discriminate]. cbn [option_map] in Hnb. inversion Hnb as [Hh].
      rewrite Hh. unfold height. rewrite Hq. cbn [hval map qsum]. rewrite Qred_correct. field. exact Ht. }
  rewrite H1, H2.
  assert (Hp := qsum_partition is_null_prow row_weight fr). fold (no_nulls fr) in Hp.
  assert (Htot : tot == qsum (map row_weight fr)).
  { unfold tot, total_weight. rewrite Qred_correct. reflexivity. }
  rewrite Htot in *.
  setoid_replace (qsum (map row_weight (no_nulls fr)) / qsum (map row_weight fr) +
                  qsum (map row_weight (filter is_null_prow fr)) / qsum (map row_weight fr))
    with ((qsum (map row_weight (filter is_null_prow fr)) + qsum (map row_weight (no_nulls fr)))
          / qsum (map row_weight fr)) by (field; exact Ht).
  rewrite <- Hp. field. exact Ht.
Qed.

(* ------------------------------------------------------------------ *)
(* the tables of compute_marginal have at most one null row *)

Lemma marg_groups_one_null rows :
  (List.length (filter (fun s => match m_key s with None => true | Some _ => false end) (marg_groups rows)) <= 1)%nat.
Proof.
  unfold marg_groups, key_universe. cbn [filter].
  assert (Hrest : forall l, filter (fun s => match m_key s with None => true | Some _ => false end)
                      (map (fun g => mstat_of g rows) (filter (fun g => present g rows) (map Some l))) = []).
  { intros l. induction l as [|k l IH]; [reflexivity|]. cbn [map filter].
    destruct (present (Some k) rows); [cbn [map filter]; rewrite mstat_key|]; exact IH. }
  destruct (present None rows); cbn [map filter]; [rewrite mstat_key|]; rewrite Hrest; simpl; lia.
Qed.

Lemma filter_map_comm {A B} (f : A -> B) (P : B -> bool) l : filter P (map f l) = map f (filter (fun x => P (f x)) l).
Proof.
  induction l as [|x l IH]; [reflexivity|]. cbn [map filter]. destruct (P (f x)); cbn [map]; rewrite IH; reflexivity.
Qed.

Theorem num_table_one_null feature nrows ys zs ws :
  (List.length (filter is_null_row (num_table feature nrows ys zs ws)) <= 1)%nat.
Proof.
  unfold num_table. rewrite filter_map_comm, map_length.
  erewrite filter_ext; [apply marg_groups_one_null|].
  intros s. unfold num_row, is_null_row. destruct (m_key s); reflexivity.
Qed.

Lemma bin_of_map_key (F : sbin -> option nat) g bins :
  In g (map F bins) -> okey_eqb (F (bin_of g (map F bins) bins)) g = true.
Proof.
  induction bins as [|b bins IH]; intros Hin; [contradiction|]. cbn [map bin_of].
  destruct (okey_eqb (F b) g) eqn:E; [exact E|]. apply IH. destruct Hin as [Hb|Hin]; [|exact Hin].
  rewrite Hb in E. rewrite okey_eqb_refl in E. discriminate.
Qed.

Lemma string_keys_as_map kind names label bins :
  exists F, string_keys kind names label bins = map F bins /\ F SBNull = None /\
            (forall b, b <> SBNull -> F b <> None).
Proof.
  unfold string_keys. destruct kind.
  - eexists. split; [reflexivity|]. split; [reflexivity|]. intros b Hb. destruct b; cbn [render]; try congruence.
    destruct label; discriminate.
  - eexists. split; [reflexivity|]. split; [reflexivity|]. intros b Hb. destruct b; cbn [render]; try congruence.
    destruct label; discriminate.
  - eexists. split; [reflexivity|]. split; [reflexivity|]. intros b Hb. destruct b; congruence.
Qed.

Theorem str_table_one_null kind names label bins ys zs ws :
  (List.length (filter is_null_row (str_table kind names label bins ys zs ws)) <= 1)%nat.
Proof.
  unfold str_table. rewrite filter_map_comm, map_length.
  set (keys := string_keys kind names label bins).
  set (rows := zip4 ys zs keys ws).
  pose proof (marg_groups_one_null rows) as H1.
  eapply Nat.le_trans; [|exact H1].
  (* a row with a key Some k is not the null row *)
  assert (Hsub : forall l, (forall s, In s l -> In s (marg_groups rows)) ->
            (List.length (filter (fun x => is_null_row (str_row names label keys bins x)) l)
             <= List.length (filter (fun s => match m_key s with None => true | Some _ => false end) l))%nat).
  { induction l as [|s l IH]; intros Hall; [reflexivity|]. cbn [filter].
    assert (IH' := IH (fun s' Hs' => Hall s' (or_intror Hs'))).
    destruct (m_key s) as [k|] eqn:Ek.
    - assert (Hnn : is_null_row (str_row names label keys bins s) = false).
      { unfold str_row, is_null_row. cbn [o_cell]. rewrite Ek.
        destruct (marg_row_is_definition _ _ (Hall s (or_introl eq_refl))) as [Hpres _].
        apply present_iff in Hpres. destruct Hpres as [row [Hrow Hrk]].
        apply zip4_key_in in Hrow. rewrite Hrk, Ek in Hrow.
        destruct (string_keys_as_map kind names label bins) as [F [HF [HF0 HFn]]].
        subst keys. rewrite HF in *.
        pose proof (bin_of_map_key F (Some k) bins Hrow) as Hk.
        destruct (bin_of (Some k) (map F bins) bins) eqn:Eb; try reflexivity.
        rewrite HF0 in Hk. discriminate. }
      rewrite Hnn. exact IH'.
    - destruct (is_null_row (str_row names label keys bins s)); cbn [List.length]; lia. }
  apply Hsub. auto.
Qed.

Corollary pm_bars_sum_num_table with_pd feature nrows ys zs ws pdcol sl fname mname p :
  let t := num_table feature nrows ys zs ws in
  draw false with_pd t pdcol sl fname mname = PMOk p ->
  ~ total_weight (frame t pdcol) == 0 ->
  heights_sum p == 1.
Proof.
  intros t H Ht. apply (pm_bars_sum _ _ _ _ _ _ _ _ H Ht). apply num_table_one_null.
Qed.

Corollary pm_bars_sum_str_table with_pd kind names label bins ys zs ws pdcol sl fname mname p :
  let t := str_table kind names label bins ys zs ws in
  draw true with_pd t pdcol sl fname mname = PMOk p ->
  ~ total_weight (frame t pdcol) == 0 ->
  heights_sum p == 1.
Proof.
  intros t H Ht. apply (pm_bars_sum _ _ _ _ _ _ _ _ H Ht). apply str_table_one_null.
Qed.

(* ------------------------------------------------------------------ *)
(* matplotlib's shape error is never reached when the feature cells of the table are pairwise distinct
   (labels of a string-like feature are group keys; the bin means of a numerical feature increase strictly,
   MarginalProps.marg_feature_means_increasing) *)
Fixpoint all_distinct (cells : list fcell) : bool :=
  match cells with
  | [] => true
  | c :: l => negb (existsb (cell_eqb c) l) && all_distinct l
  end.

Lemma n_unique_distinct cells : all_distinct cells = true -> n_unique cells = List.length cells.
Proof.
  induction cells as [|c l IH]; [reflexivity|]. cbn [all_distinct n_unique List.length].
  intros H. apply andb_true_iff in H. destruct H as [H1 H2]. apply negb_true_iff in H1. rewrite H1, (IH H2). reflexivity.
Qed.

Theorem pm_no_shape_error with_pd t pdcol sl fname mname :
  all_distinct (map o_cell t) = true ->
  draw true with_pd t pdcol sl fname mname <> PMShapeError.
Proof.
  intros Hd. unfold draw, draw_cat.
  assert (E : n_x (frame t pdcol) = List.length (frame t pdcol)).
  { unfold n_x. rewrite <- (map_map fst o_cell), frame_rows, (n_unique_distinct _ Hd), map_length, frame_length. reflexivity. }
  rewrite E, Nat.eqb_refl. cbn [negb]. discriminate.
Qed.

(* ------------------------------------------------------------------ *)
(* the whole call: what is drawn is drawn from the table compute_marginal returns for the SAME arguments *)
Theorem pm_plot_structure f ys models two_d ft n_bins weights pd sl fname mname p :
  plot_marginal f ys models two_d ft n_bins weights pd sl fname mname = PMOk p ->
  exists t pdcol seen,
    compute_marginal f ByBin ys models ft n_bins weights pd = MOk [(t, pdcol)] seen /\
    two_d = false /\ has_feature ft = true /\ sl <> SLInvalid /\
    draw (is_str ft) (match pd with Some _ => true | None => false end) t pdcol sl fname mname = PMOk p.
Proof.
  unfold plot_marginal. intros H.
  assert (Hsl : sl <> SLInvalid) by (intros ->; discriminate).
  assert (H' : (if two_d && (2 <=? List.length models)%nat then PMValueError
                else match compute_marginal f ByBin ys models ft n_bins weights pd with
                     | MOk [(t, pdcol)] _ =>
                         if two_d then PMModelColumn
                         else if negb (has_feature ft) then PMNoFeature
                         else draw (is_str ft) (match pd with Some _ => true | None => false end) t pdcol sl fname mname
                     | r => PMMarg r
                     end) = PMOk p) by (destruct sl; [exact H| exact H| discriminate]).
  clear H. destruct (two_d && (2 <=? List.length models)%nat); [discriminate|].
  destruct (compute_marginal f ByBin ys models ft n_bins weights pd) as [per seen| | | | |] eqn:Ec; try discriminate.
  destruct per as [|[t pdcol] [|x per]]; try discriminate.
  destruct two_d; [discriminate|]. destruct (has_feature ft) eqn:Ef; cbn [negb] in H'; [|discriminate].
  exists t, pdcol, seen. repeat split; auto.
Qed.

(* end to end: the y data of the first two series of the real call are the y_obs_mean / y_pred_mean columns of
   compute_marginal's table *)
Corollary pm_plot_draws_marginal_means f ys models two_d ft n_bins weights pd sl fname mname p :
  plot_marginal f ys models two_d ft n_bins weights pd sl fname mname = PMOk p ->
  exists t pdcol seen,
    compute_marginal f ByBin ys models ft n_bins weights pd = MOk [(t, pdcol)] seen /\
    map s_item (pm_series p) = plot_items (match pd with Some _ => true | None => false end) /\
    forall s, In s (pm_series p) ->
      (s_item s = IObs -> map snd (s_main s) = map obs_cell (table_rows (is_str ft) t)) /\
      (s_item s = IPred -> map snd (s_main s) = map pred_cell (table_rows (is_str ft) t)) /\
      List.length (filter has_x (s_main s)) = List.length (table_no_nulls t).
Proof.
  intros H. destruct (pm_plot_structure _ _ _ _ _ _ _ _ _ _ _ _ H) as [t [pdcol [seen [Hc [_ [_ [_ Hd]]]]]]].
  exists t, pdcol, seen. split; [exact Hc|]. split; [apply (pm_series_items _ _ _ _ _ _ _ _ Hd)|].
  intros s Hs. destruct (pm_lines_are_table_means _ _ _ _ _ _ _ _ _ Hd Hs) as [Ho Hp].
  split; [exact Ho|]. split; [exact Hp|]. apply (pm_points_per_group _ _ _ _ _ _ _ _ _ Hd Hs).
Qed.

(* ------------------------------------------------------------------ *)
(* computed witnesses *)

(* FINDING 1: a numerical feature without any non-null value: compute_marginal returns the one null row,
   plot_marginal raises TypeError (plots.py line 1135: `x_null - bin_edges.arr.last().max()` with max() = None) *)
Example pm_all_null_numeric_raises :
  plot_marginal (fun _ => 0) [0; 1; 2] [[1; 4; 2]] false (MFNum [None; None; None] Uniform []) 3 None None
                SLNumerical "feature 0" "" = PMTypeError.
Proof. vm_compute. reflexivity. Qed.

(* FINDING 2: y_pred of shape (n_obs, 1): compute_marginal succeeds, its first column is "model" *)
Example pm_single_column_2d_is_model_column :
  plot_marginal (fun _ => 0) [0; 1; 2; 3] [[1; 4; 2; 0]] true (MFNum [Some 0; Some 1; Some 2; Some 3] Uniform []) 3
                None None SLNumerical "feature 0" "" = PMModelColumn.
Proof. vm_compute. reflexivity. Qed.

(* the hypotheses are satisfiable: a numerical feature with a null, weights; the bars sum to 1 *)
Definition pm_ex : pmres :=
  plot_marginal (fun _ => 0) [0; 1; 2; 3; 4; 5] [[1; 2; 3; 4; 5; 6]] false
                (MFNum [Some 0; Some 1; None; Some 3; Some 10; None] Uniform []) 3 (Some [1; 2; 3; 1; 2; 3]) None
                SLNumerical "feature 0" "m1".

Example pm_example_draws :
  match pm_ex with
  | PMOk p => List.length (pm_series p) = 2%nat /\ List.length (pm_bars p) = 2%nat /\
              (exists b, pm_null_bar p = Some b) /\ heights_sum p == 1 /\
              pm_legend p = ["mean y_obs"; "mean y_pred"; "Null values"]%string /\
              pm_title p = "Marginal Plot m1"%string /\ pm_xlabel p = "binned feature 0"%string
  | _ => False
  end.
Proof. vm_compute. repeat split; try reflexivity. eexists. reflexivity. Qed.

Print Assumptions pm_series_items.
Print Assumptions pm_lines_are_table_columns.
Print Assumptions pm_lines_are_table_means.
Print Assumptions pm_pd_is_table_pd.
Print Assumptions pm_x_positions.
Print Assumptions pm_points_per_group.
Print Assumptions pm_null_marker.
Print Assumptions pm_bar_heights.
Print Assumptions pm_bars_sum.
Print Assumptions num_table_one_null.
Print Assumptions str_table_one_null.
Print Assumptions pm_bars_sum_num_table.
Print Assumptions pm_bars_sum_str_table.
Print Assumptions pm_no_shape_error.
Print Assumptions pm_plot_structure.
Print Assumptions pm_plot_draws_marginal_means.
Print Assumptions pm_all_null_numeric_raises.
Print Assumptions pm_single_column_2d_is_model_column.
Print Assumptions pm_example_draws.
