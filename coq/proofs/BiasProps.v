(* Lemmas about model/Bias.v (property C09).  World Q, no axioms. *)
From Coq Require Import QArith Qabs Qreduction Lqa Lia List Bool Arith String Permutation FinFun.
Import ListNotations.
Open Scope Q_scope.
From MD Require Import lib.QLists model.Functionals model.Binning model.Bias proofs.BinningProps.

(* ------------------------------------------------------------------ *)
(* keys *)
Lemma okey_eqb_iff a b : okey_eqb a b = true <-> a = b.
Proof.
  destruct a as [x|], b as [y|]; simpl; split; intros H; try discriminate; try reflexivity.
  - apply Nat.eqb_eq in H. congruence.
  - inversion H. apply Nat.eqb_refl.
Qed.
Lemma okey_eqb_refl a : okey_eqb a a = true.
Proof. apply okey_eqb_iff. reflexivity. Qed.

Lemma key_universe_nodup rows : NoDup (key_universe rows).
Proof.
  unfold key_universe. constructor.
  - intros H. apply in_map_iff in H. destruct H as [x [H _]]. discriminate.
  - apply Injective_map_NoDup; [intros x y H; congruence| apply seq_NoDup].
Qed.

Lemma list_max_ge l x : In x l -> (x <= list_max l)%nat.
Proof.
  intros H. assert (F : Forall (fun k => (k <= list_max l)%nat) l) by (apply list_max_le; lia).
  rewrite Forall_forall in F. apply F. exact H.
Qed.

Lemma key_in_universe rows r : In r rows -> In (r_key r) (key_universe rows).
Proof.
  intros H. unfold key_universe. destruct (r_key r) as [k|] eqn:E; [|left; reflexivity].
  right. apply in_map. apply in_seq. split; [lia|]. simpl.
  assert (k <= max_key rows)%nat; [|lia].
  unfold max_key. apply list_max_ge. apply in_map_iff. exists r. rewrite E. auto.
Qed.

Lemma present_iff g rows : present g rows = true <-> exists r, In r rows /\ r_key r = g.
Proof.
  unfold present. rewrite existsb_exists. split; intros [r [H1 H2]]; exists r; split; auto;
    apply okey_eqb_iff; exact H2.
Qed.

(* ------------------------------------------------------------------ *)
(* sums over the groups *)
Fixpoint nsum (l : list nat) : nat := match l with [] => 0%nat | x :: l' => (x + nsum l')%nat end.

Definition grp (g : option nat) (rows : list row) : list row :=
  filter (fun r => okey_eqb (r_key r) g) rows.

Lemma indicator_nsum (U : list (option nat)) k :
  NoDup U -> In k U -> nsum (map (fun g => if okey_eqb k g then 1%nat else 0%nat) U) = 1%nat.
Proof.
  induction U as [|u U IH]; intros Hnd Hin; [contradiction|].
  inversion Hnd as [|? ? Hnot Hnd']; subst. simpl.
  destruct (okey_eqb k u) eqn:E.
  - apply okey_eqb_iff in E. subst u.
    assert (Z : nsum (map (fun g => if okey_eqb k g then 1%nat else 0%nat) U) = 0%nat).
    { clear IH Hnd Hnd' Hin. induction U as [|v U IH]; [reflexivity|]. simpl.
      destruct (okey_eqb k v) eqn:E.
      - apply okey_eqb_iff in E. subst. exfalso. apply Hnot. left. reflexivity.
      - apply IH. intros H. apply Hnot. right. exact H. }
    rewrite Z. reflexivity.
  - destruct Hin as [->|Hin]; [rewrite okey_eqb_refl in E; discriminate|].
    rewrite IH; auto.
Qed.

Lemma indicator_qsum (U : list (option nat)) k (a : Q) :
  NoDup U -> In k U -> qsum (map (fun g => if okey_eqb k g then a else 0) U) == a.
Proof.
  induction U as [|u U IH]; intros Hnd Hin; [contradiction|].
  inversion Hnd as [|? ? Hnot Hnd']; subst. simpl.
  destruct (okey_eqb k u) eqn:E.
  - apply okey_eqb_iff in E. subst u.
    assert (Z : qsum (map (fun g => if okey_eqb k g then a else 0) U) == 0).
    { clear IH Hnd Hnd' Hin. induction U as [|v U IH]; [reflexivity|]. simpl.
      destruct (okey_eqb k v) eqn:E.
      - apply okey_eqb_iff in E. subst. exfalso. apply Hnot. left. reflexivity.
      - rewrite IH; [lra|]. intros H. apply Hnot. right. exact H. }
    rewrite Z. lra.
  - destruct Hin as [->|Hin]; [rewrite okey_eqb_refl in E; discriminate|].
    rewrite IH; auto. lra.
Qed.

Lemma nsum_add {A} (f g : A -> nat) l :
  nsum (map (fun x => (f x + g x)%nat) l) = (nsum (map f l) + nsum (map g l))%nat.
Proof. induction l as [|x l IH]; simpl; [reflexivity| rewrite IH; lia]. Qed.
Lemma qsum_add {A} (f g : A -> Q) l :
  qsum (map (fun x => f x + g x) l) == qsum (map f l) + qsum (map g l).
Proof. induction l as [|x l IH]; simpl; [lra| rewrite IH; lra]. Qed.
Lemma nsum_ext {A} (f g : A -> nat) l : (forall x, In x l -> f x = g x) -> nsum (map f l) = nsum (map g l).
Proof.
  induction l as [|x l IH]; intros H; simpl; [reflexivity|].
  rewrite (H x (or_introl eq_refl)), IH; auto. intros y Hy. apply H. right. exact Hy.
Qed.
Lemma qsum_ext {A} (f g : A -> Q) l : (forall x, In x l -> f x == g x) -> qsum (map f l) == qsum (map g l).
Proof.
  induction l as [|x l IH]; intros H; simpl; [reflexivity|].
  rewrite (H x (or_introl eq_refl)), IH; [reflexivity|]. intros y Hy. apply H. right. exact Hy.
Qed.

(* every row belongs to exactly one group of the universe *)
Lemma partition_nsum (U : list (option nat)) (h : row -> nat) rows :
  NoDup U -> (forall r, In r rows -> In (r_key r) U) ->
  nsum (map (fun g => nsum (map h (grp g rows))) U) = nsum (map h rows).
Proof.
  intros Hnd. induction rows as [|r rows IH]; intros Hcov.
  - simpl. clear Hnd Hcov. induction U as [|u U IHU]; [reflexivity|]. simpl. exact IHU.
  - transitivity (nsum (map (fun g => ((if okey_eqb (r_key r) g then h r else 0) + nsum (map h (grp g rows)))%nat) U)).
    + apply nsum_ext. intros g _. unfold grp. simpl. destruct (okey_eqb (r_key r) g); reflexivity.
    + rewrite nsum_add. rewrite IH by (intros x Hx; apply Hcov; right; exact Hx).
      simpl. f_equal.
      assert (Hk : In (r_key r) U) by (apply Hcov; left; reflexivity).
      clear IH Hcov. revert Hnd Hk. generalize (r_key r) as k. intros k Hnd Hk.
      induction U as [|u U IHU]; [contradiction|].
      inversion Hnd as [|? ? Hnot Hnd']; subst. simpl.
      destruct (okey_eqb k u) eqn:E.
      * apply okey_eqb_iff in E. subst u.
        assert (Z : nsum (map (fun g => if okey_eqb k g then h r else 0%nat) U) = 0%nat).
        { clear IHU Hnd Hnd' Hk. induction U as [|v U IHV]; [reflexivity|]. simpl.
          destruct (okey_eqb k v) eqn:E.
          - apply okey_eqb_iff in E. subst. exfalso. apply Hnot. left. reflexivity.
          - apply IHV. intros H. apply Hnot. right. exact H. }
        rewrite Z. lia.
      * destruct Hk as [->|Hk]; [rewrite okey_eqb_refl in E; discriminate|].
        rewrite IHU; auto.
Qed.

Lemma partition_qsum (U : list (option nat)) (h : row -> Q) rows :
  NoDup U -> (forall r, In r rows -> In (r_key r) U) ->
  qsum (map (fun g => qsum (map h (grp g rows))) U) == qsum (map h rows).
Proof.
  intros Hnd. induction rows as [|r rows IH]; intros Hcov.
  - simpl. clear Hnd Hcov. induction U as [|u U IHU]; [reflexivity|]. simpl. rewrite IHU. lra.
  - transitivity (qsum (map (fun g => (if okey_eqb (r_key r) g then h r else 0) + qsum (map h (grp g rows))) U)).
    + apply qsum_ext. intros g _. unfold grp. simpl. destruct (okey_eqb (r_key r) g); simpl; lra.
    + rewrite qsum_add. rewrite IH by (intros x Hx; apply Hcov; right; exact Hx).
      simpl. rewrite indicator_qsum; [reflexivity| exact Hnd|]. apply Hcov. left. reflexivity.
Qed.

(* sums over the groups that are present = sums over the whole universe when absent groups contribute nothing *)
Lemma nsum_filter_present {A} (p : A -> bool) (F : A -> nat) U :
  (forall g, p g = false -> F g = 0%nat) ->
  nsum (map F (filter p U)) = nsum (map F U).
Proof.
  intros H. induction U as [|u U IH]; [reflexivity|]. simpl.
  destruct (p u) eqn:E; simpl; rewrite IH; [reflexivity|]. rewrite (H u E). reflexivity.
Qed.
Lemma qsum_filter_present {A} (p : A -> bool) (F : A -> Q) U :
  (forall g, p g = false -> F g == 0) ->
  qsum (map F (filter p U)) == qsum (map F U).
Proof.
  intros H. induction U as [|u U IH]; [reflexivity|]. simpl.
  destruct (p u) eqn:E; simpl; rewrite IH; [reflexivity|]. rewrite (H u E). lra.
Qed.

Lemma grp_absent g rows : present g rows = false -> grp g rows = [].
Proof.
  unfold present, grp. induction rows as [|r rows IH]; [reflexivity|]. simpl.
  destruct (okey_eqb (r_key r) g); simpl; [discriminate| exact IH].
Qed.

(* ------------------------------------------------------------------ *)
(* statistics of a list of (V, w) pairs *)
Definition velt (f : functional) (a : Q) (r : row) : elt := (Vq f a (r_y r) (r_z r), r_w r).

Lemma members_grp f a g rows : members f a g rows = map (velt f a) (grp g rows).
Proof. reflexivity. Qed.

Lemma wtot_map f a l : wtot (map (velt f a) l) == qsum (map r_w l).
Proof. induction l as [|r l IH]; simpl; [reflexivity|]. rewrite IH. unfold ew, velt. simpl. lra. Qed.
Lemma wsum_map f a l :
  wsum (map (velt f a) l) == qsum (map (fun r => r_w r * Vq f a (r_y r) (r_z r)) l).
Proof. induction l as [|r l IH]; simpl; [reflexivity|]. rewrite IH. unfold ew, ey, velt. simpl. lra. Qed.

Lemma stat_count g l : g_count (stat_of g l) = List.length l.
Proof. reflexivity. Qed.
Lemma stat_weights g l : g_weights (stat_of g l) == wtot l.
Proof. simpl. apply Qred_correct. Qed.
Lemma stat_mean g l : g_mean (stat_of g l) == wsum l / wtot l.
Proof. simpl. apply wmean_eq. Qed.
Lemma stat_key g l : g_key (stat_of g l) = g.
Proof. reflexivity. Qed.

(* the standard error as the code computes it:
   sum w (V - mean)^2 / sum w / max(1, count - 1) *)
Lemma stat_stderr2 g l :
  g_stderr2 (stat_of g l) ==
  wssq (g_mean (stat_of g l)) l / wtot l / Qnat (Nat.max 1 (List.length l - 1)).
Proof.
  unfold stat_of. cbn [g_stderr2 g_mean]. destruct (1 <? List.length l)%nat eqn:E.
  - apply Nat.ltb_lt in E. rewrite !Qred_correct.
    replace (Nat.max 1 (List.length l - 1)) with (List.length l - 1)%nat by lia. reflexivity.
  - apply Nat.ltb_ge in E. rewrite Qred_correct.
    replace (Nat.max 1 (List.length l - 1)) with 1%nat by lia.
    unfold Qnat. simpl. set (x := wssq (wmean l) l / wtot l).
    unfold Qdiv. setoid_replace (/ inject_Z 1) with 1 by reflexivity. ring.
Qed.

(* the t statistic and the degrees of freedom handed to the Student t distribution *)
Lemma stat_p_student g l t2 df :
  g_p (stat_of g l) = PStudent t2 df ->
  df = (List.length l - 1)%nat /\ 0 < g_stderr2 (stat_of g l) /\
  t2 == g_mean (stat_of g l) * g_mean (stat_of g l) / g_stderr2 (stat_of g l).
Proof.
  unfold stat_of. cbn [g_p g_stderr2 g_mean].
  set (se2 := if (1 <? List.length l)%nat
              then Qred (Qred (wssq (wmean l) l / wtot l) / Qnat (List.length l - 1))
              else Qred (wssq (wmean l) l / wtot l)).
  destruct (Qeq_bool se2 0) eqn:E0.
  - destruct (1 <? List.length l)%nat; discriminate.
  - destruct (Qle_bool 0 se2) eqn:E1; [|discriminate].
    intros H.
    assert (Ht : Qred (wmean l * wmean l / se2) = t2) by congruence.
    assert (Hd : (List.length l - 1)%nat = df) by congruence.
    clear H. subst t2 df. split; [reflexivity|].
    apply Qle_bool_iff in E1. apply Qeq_bool_neq in E0.
    split; [lra| apply Qred_correct].
Qed.

(* ------------------------------------------------------------------ *)
(* C09: every output row is the definition applied to exactly the rows of its group *)
Theorem bias_row_is_definition f a rows g :
  In g (bias_groups f a rows) ->
  present (g_key g) rows = true /\
  g = stat_of (g_key g) (members f a (g_key g) rows).
Proof.
  unfold bias_groups. intros H. apply in_map_iff in H. destruct H as [k [<- Hk]].
  apply filter_In in Hk. rewrite stat_key. tauto.
Qed.

Theorem bias_group_exists f a rows r :
  In r rows -> exists g, In g (bias_groups f a rows) /\ g_key g = r_key r.
Proof.
  intros H. exists (stat_of (r_key r) (members f a (r_key r) rows)). split; [|reflexivity].
  unfold bias_groups. apply in_map_iff. exists (r_key r). split; [reflexivity|].
  apply filter_In. split; [apply key_in_universe; exact H|].
  apply present_iff. exists r. auto.
Qed.

(* C09: counts sum to the number of rows *)
Theorem bias_counts_sum f a rows :
  nsum (map g_count (bias_groups f a rows)) = List.length rows.
Proof.
  unfold bias_groups. rewrite map_map.
  rewrite (nsum_ext _ (fun g => nsum (map (fun _ => 1%nat) (grp g rows)))).
  2:{ intros g _. rewrite stat_count, members_grp, map_length.
      generalize (grp g rows). intros l. induction l; simpl; auto. }
  rewrite nsum_filter_present.
  2:{ intros g Hg. rewrite (grp_absent _ _ Hg). reflexivity. }
  rewrite partition_nsum; [|apply key_universe_nodup| apply key_in_universe].
  induction rows; simpl; auto.
Qed.

(* C09: group weights sum to the total weight *)
Theorem bias_weights_sum f a rows :
  qsum (map g_weights (bias_groups f a rows)) == qsum (map r_w rows).
Proof.
  unfold bias_groups. rewrite map_map.
  rewrite (qsum_ext _ (fun g => qsum (map r_w (grp g rows)))).
  2:{ intros g _. rewrite stat_weights, members_grp. apply wtot_map. }
  rewrite qsum_filter_present.
  2:{ intros g Hg. rewrite (grp_absent _ _ Hg). reflexivity. }
  apply partition_qsum; [apply key_universe_nodup| apply key_in_universe].
Qed.

Lemma qsum_pos l : l <> [] -> (forall x, In x l -> 0 < x) -> 0 < qsum l.
Proof.
  destruct l as [|x l]; [congruence|]. intros _ H.
  assert (Hn : forall l', (forall y, In y l' -> 0 < y) -> 0 <= qsum l').
  { induction l' as [|y l' IH]; simpl; intros Hy; [lra|].
    pose proof (Hy y (or_introl eq_refl)). assert (0 <= qsum l') by (apply IH; intros z Hz; apply Hy; right; exact Hz). lra. }
  simpl. pose proof (H x (or_introl eq_refl)).
  assert (0 <= qsum l) by (apply Hn; intros z Hz; apply H; right; exact Hz). lra.
Qed.

(* C09: the weight-averaged group biases are the overall bias (positive weights) *)
Theorem bias_means_sum f a rows :
  (forall r, In r rows -> 0 < r_w r) ->
  qsum (map (fun g => g_weights g * g_mean g) (bias_groups f a rows))
  == qsum (map (fun r => r_w r * Vq f a (r_y r) (r_z r)) rows).
Proof.
  intros Hpos. unfold bias_groups. rewrite map_map.
  rewrite (qsum_ext _ (fun g => qsum (map (fun r => r_w r * Vq f a (r_y r) (r_z r)) (grp g rows)))).
  2:{ intros g Hg. apply filter_In in Hg. destruct Hg as [_ Hg].
      rewrite stat_weights, stat_mean, members_grp. rewrite <- wsum_map.
      assert (Hw : 0 < wtot (map (velt f a) (grp g rows))).
      { rewrite wtot_map. apply qsum_pos.
        - apply present_iff in Hg. destruct Hg as [r [Hr Hk]]. intros E.
          assert (Hin : In r (grp g rows)) by (apply filter_In; split; [exact Hr| apply okey_eqb_iff; exact Hk]).
          apply (in_map r_w) in Hin. rewrite E in Hin. contradiction.
        - intros x Hx. apply in_map_iff in Hx. destruct Hx as [r [<- Hr]].
          apply Hpos. apply filter_In in Hr. tauto. }
      field. lra. }
  rewrite qsum_filter_present.
  2:{ intros g Hg. rewrite (grp_absent _ _ Hg). reflexivity. }
  apply partition_qsum; [apply key_universe_nodup| apply key_in_universe].
Qed.

Theorem bias_means_average f a rows :
  rows <> [] -> (forall r, In r rows -> 0 < r_w r) ->
  qsum (map (fun g => g_weights g * g_mean g) (bias_groups f a rows))
    / qsum (map g_weights (bias_groups f a rows))
  == g_mean (bias_all f a rows).
Proof.
  intros Hne Hpos. rewrite bias_means_sum by exact Hpos. rewrite bias_weights_sum.
  unfold bias_all. rewrite stat_mean. fold (velt f a). rewrite wsum_map, wtot_map. reflexivity.
Qed.

(* C09: null feature values keep their own group, which comes first *)
Theorem bias_null_group f a rows :
  (present None rows = true ->
     exists rest, bias_groups f a rows = stat_of None (members f a None rows) :: rest /\
                  (forall g, In g rest -> g_key g <> None) /\
                  g_count (stat_of None (members f a None rows))
                    = List.length (filter (fun r => okey_eqb (r_key r) None) rows)) /\
  (present None rows = false -> forall g, In g (bias_groups f a rows) -> g_key g <> None).
Proof.
  unfold bias_groups, key_universe. simpl filter.
  assert (Hrest : forall g, In g (map (fun g0 => stat_of g0 (members f a g0 rows))
                     (filter (fun g0 => present g0 rows) (map Some (seq 0 (S (max_key rows)))))) ->
                   g_key g <> None).
  { intros g Hg. apply in_map_iff in Hg. destruct Hg as [k [<- Hk]]. rewrite stat_key.
    apply filter_In in Hk. destruct Hk as [Hk _]. apply in_map_iff in Hk.
    destruct Hk as [x [<- _]]. discriminate. }
  split; intros Hp; rewrite Hp.
  - eexists. split; [reflexivity|]. split; [exact Hrest|].
    rewrite stat_count. unfold members. rewrite map_length. reflexivity.
  - exact Hrest.
Qed.

(* ------------------------------------------------------------------ *)
(* invariance under a permutation of the rows *)
Lemma filter_perm {A} (p : A -> bool) l l' : Permutation l l' -> Permutation (filter p l) (filter p l').
Proof.
  induction 1 as [|x l l' H IH|x y l|l l' l'' H1 IH1 H2 IH2]; simpl.
  - constructor.
  - destruct (p x); [constructor|]; exact IH.
  - destruct (p x), (p y); try apply Permutation_refl. apply perm_swap.
  - eapply perm_trans; eauto.
Qed.

Lemma list_max_perm l l' : Permutation l l' -> list_max l = list_max l'.
Proof.
  induction 1 as [|x l l' H IH|x y l|l l' l'' H1 IH1 H2 IH2]; simpl; (lia || congruence).
Qed.

Lemma wsum_perm l l' : Permutation l l' -> wsum l == wsum l'.
Proof. induction 1; simpl; lra. Qed.
Lemma wtot_perm l l' : Permutation l l' -> wtot l == wtot l'.
Proof. induction 1; simpl; lra. Qed.
Lemma wssq_perm m l l' : Permutation l l' -> wssq m l == wssq m l'.
Proof. induction 1; simpl; lra. Qed.

Lemma Qeq_bool_compat a b c : a == b -> Qeq_bool a c = Qeq_bool b c.
Proof.
  intros H. destruct (Qeq_bool a c) eqn:E1, (Qeq_bool b c) eqn:E2; auto.
  - apply Qeq_bool_iff in E1. apply Qeq_bool_neq in E2. exfalso. apply E2. rewrite <- H. exact E1.
  - apply Qeq_bool_iff in E2. apply Qeq_bool_neq in E1. exfalso. apply E1. rewrite H. exact E2.
Qed.

Lemma stat_of_perm g l l' : Permutation l l' -> stat_of g l = stat_of g l'.
Proof.
  intros H. unfold stat_of.
  assert (Em : wmean l = wmean l').
  { unfold wmean. apply Qred_complete. rewrite (wsum_perm _ _ H), (wtot_perm _ _ H). reflexivity. }
  assert (En : List.length l = List.length l') by (apply Permutation_length; exact H).
  assert (Ev : Qred (wssq (wmean l) l / wtot l) = Qred (wssq (wmean l) l' / wtot l')).
  { apply Qred_complete. rewrite (wssq_perm _ _ _ H), (wtot_perm _ _ H). reflexivity. }
  assert (Ew : Qred (wtot l) = Qred (wtot l')) by (apply Qred_complete; apply wtot_perm; exact H).
  assert (Ed : Qeq_bool (wtot l) 0 = Qeq_bool (wtot l') 0) by (apply Qeq_bool_compat; apply wtot_perm; exact H).
  rewrite <- Em, <- En, <- Ev, <- Ew, <- Ed. reflexivity.
Qed.

Lemma present_perm g rows rows' : Permutation rows rows' -> present g rows = present g rows'.
Proof.
  intros H. destruct (present g rows) eqn:E1, (present g rows') eqn:E2; auto.
  - apply present_iff in E1. destruct E1 as [r [Hr Hk]].
    assert (present g rows' = true) by (apply present_iff; exists r; split; [eapply Permutation_in; eauto| exact Hk]).
    congruence.
  - apply present_iff in E2. destruct E2 as [r [Hr Hk]].
    assert (present g rows = true)
      by (apply present_iff; exists r; split; [eapply Permutation_in; [apply Permutation_sym|]; eauto| exact Hk]).
    congruence.
Qed.

(* C09: the result is independent of the row order - the whole table, not only up to == *)
Theorem bias_perm f a rows rows' :
  Permutation rows rows' -> bias_groups f a rows = bias_groups f a rows'.
Proof.
  intros H. unfold bias_groups.
  assert (EU : key_universe rows = key_universe rows').
  { unfold key_universe, max_key. rewrite (list_max_perm _ _ (Permutation_map _ H)). reflexivity. }
  rewrite <- EU.
  rewrite (filter_ext _ (fun g => present g rows') (fun g => present_perm g _ _ H)).
  apply map_ext. intros g. apply stat_of_perm. unfold members.
  apply Permutation_map. apply filter_perm. exact H.
Qed.

Theorem bias_all_perm f a rows rows' :
  Permutation rows rows' -> bias_all f a rows = bias_all f a rows'.
Proof. intros H. unfold bias_all. apply stat_of_perm. apply Permutation_map. exact H. Qed.

(* ------------------------------------------------------------------ *)
(* `.head(n_bins)` never drops a group when n_bins is the value the binning helper returned *)
Lemma groups_length_le f a rows :
  (List.length (bias_groups f a rows) <= List.length (nodup onat_dec (map r_key rows)))%nat.
Proof.
  unfold bias_groups. rewrite map_length.
  apply NoDup_incl_length.
  - apply NoDup_filter. apply key_universe_nodup.
  - intros g Hg. apply filter_In in Hg. destruct Hg as [_ Hg]. apply present_iff in Hg.
    destruct Hg as [r [Hr <-]]. apply nodup_In. apply in_map. exact Hr.
Qed.

Lemma zip4_keys ys zs ks ws :
  List.length ys = List.length ks -> List.length zs = List.length ks -> List.length ws = List.length ks ->
  map r_key (zip4 ys zs ks ws) = ks.
Proof.
  revert ys zs ws. induction ks as [|k ks IH]; intros ys zs ws H1 H2 H3.
  - destruct ys, zs, ws; simpl in *; try discriminate; reflexivity.
  - destruct ys as [|y ys], zs as [|z zs], ws as [|w ws]; simpl in *; try discriminate.
    unfold r_key at 1. simpl. f_equal. apply IH; lia.
Qed.

Lemma nodup_map_length {A B} (decA : forall x y : A, {x = y} + {x <> y})
      (decB : forall x y : B, {x = y} + {x <> y}) (h : A -> B) l :
  (List.length (nodup decB (map h l)) <= List.length (nodup decA l))%nat.
Proof.
  rewrite <- (map_length h (nodup decA l)).
  apply NoDup_incl_length; [apply NoDup_nodup|].
  intros x Hx. apply nodup_In in Hx. apply in_map_iff in Hx. destruct Hx as [y [<- Hy]].
  apply in_map. apply nodup_In. exact Hy.
Qed.

Theorem bias_no_truncation_numeric kind feature n_bins m interior n edges table nrows f a ys zs ws :
  bin_numeric kind feature n_bins m interior = NOk n edges table nrows ->
  List.length ys = List.length feature -> List.length zs = List.length feature ->
  List.length ws = List.length feature ->
  bias_one f a ys zs (Some (numeric_keys nrows, n)) ws
  = Some (bias_groups f a (zip4 ys zs (numeric_keys nrows) ws)).
Proof.
  intros H Hy Hz Hw. unfold bias_one.
  pose proof (groups_le_returned _ _ _ _ _ _ _ _ _ H) as G.
  destruct (bin_total _ _ _ _ _ _ _ _ _ H) as [Hlen _].
  assert (Hk : List.length (numeric_keys nrows) = List.length feature)
    by (unfold numeric_keys; rewrite map_length; exact Hlen).
  pose proof (groups_length_le f a (zip4 ys zs (numeric_keys nrows) ws)) as L.
  rewrite zip4_keys in L by congruence.
  unfold ngroups in G. change (map row_group nrows) with (numeric_keys nrows) in G.
  destruct (List.length (bias_groups f a (zip4 ys zs (numeric_keys nrows) ws)) <=? n)%nat eqn:E;
    [reflexivity|]. apply Nat.leb_gt in E. lia.
Qed.

Theorem bias_no_truncation_string kind names feature n_bins n kept label k bins f a ys zs ws :
  bin_string kind names feature n_bins = SOk n kept label k bins ->
  List.length ys = List.length feature -> List.length zs = List.length feature ->
  List.length ws = List.length feature ->
  bias_one f a ys zs (Some (string_keys kind names label bins, n)) ws
  = Some (bias_groups f a (zip4 ys zs (string_keys kind names label bins) ws)).
Proof.
  intros H Hy Hz Hw. unfold bias_one.
  destruct (sgroups_le_n_bins _ _ _ _ _ _ _ _ _ H) as [G _].
  destruct (sbin_total _ _ _ _ _ _ _ _ _ H) as [Hlen _].
  assert (Hform : exists h, string_keys kind names label bins = map h bins).
  { unfold string_keys. destruct kind; eexists; reflexivity. }
  destruct Hform as [h Hh].
  assert (Hk : List.length (string_keys kind names label bins) = List.length feature)
    by (rewrite Hh, map_length; exact Hlen).
  pose proof (groups_length_le f a (zip4 ys zs (string_keys kind names label bins) ws)) as L.
  rewrite zip4_keys in L by congruence.
  rewrite Hh in L at 2.
  pose proof (nodup_map_length sbin_dec onat_dec h bins) as M. unfold sgroups in G.
  destruct (List.length (bias_groups f a (zip4 ys zs (string_keys kind names label bins) ws)) <=? n)%nat eqn:E;
    [reflexivity|]. apply Nat.leb_gt in E. lia.
Qed.

(* ------------------------------------------------------------------ *)
(* sanity: the docstring example of compute_bias (lines 275-283): bias_mean 0.25, count 4,
   weights 4, stderr^2 = 0.229166..., t^2 = 3/11 with 3 degrees of freedom *)
Example bias_docstring_example :
  compute_bias FMean (1 # 2) [0; 0; 1; 1] [[-1; 1; 1; 2]] None None
  = BOk [[mkg None true (1 # 4) 4 4 (11 # 48) (PStudent (3 # 11) 3)]].
Proof. vm_compute. reflexivity. Qed.

Print Assumptions bias_row_is_definition.
Print Assumptions bias_counts_sum.
Print Assumptions bias_weights_sum.
Print Assumptions bias_means_sum.
Print Assumptions bias_means_average.
Print Assumptions bias_null_group.
Print Assumptions bias_perm.
Print Assumptions bias_all_perm.
Print Assumptions stat_stderr2.
Print Assumptions stat_p_student.
Print Assumptions bias_no_truncation_numeric.
Print Assumptions bias_no_truncation_string.
