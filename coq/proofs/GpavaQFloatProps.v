(* STRUCTURAL theorems about the binary64 twin model/GpavaQFloat.v (quantile / median path
   of isotonic_regression).  They hold for EVERY float input whatsoever (NaN, infinities,
   signed zeros, subnormals, any level): no float algebra is used, the primitive operations
   (and the whole of np.quantile) are black boxes.  `Print Assumptions` therefore lists only
   primitive float / integer operations mentioned by the definitions (Coq 8.16 prints
   primitives under the heading "Axioms:"); nothing from FloatAxioms.
   The block machinery (bexpand, fstarts, block_form_rel, chain, ...) is the one of
   proofs/PavaFloatProps.v. *)
From Coq Require Import PrimFloat List Bool Arith Lia Sorted.
Import ListNotations.
From MD Require Import model.PavaFloat model.GpavaQFloat proofs.PavaFloatProps.

(* ------------------------------------------------------------------ *)
(* Blocks with their data                                              *)
(* ------------------------------------------------------------------ *)
(* the stack as PavaFloat blocks, and the data it covers, in data order *)
Definition qstk (stk : list qblk) : list fblk := map qfb stk.
Definition qdata (stk : list qblk) : list float := concat (map qd (rev stk)).

(* a block value is `fun` of the block's data, or the block is the single datum itself
   (lines 216, 242: "Let us assume fun(x) = x, for a single data point x") *)
Definition blk_ok (f : list float -> float) (b : qblk) : Prop := qv b = f (qd b) \/ qd b = [qv b].

Lemma qdata_cons b stk : qdata (b :: stk) = qdata stk ++ qd b.
Proof. unfold qdata. cbn [rev]. rewrite map_app, concat_app. cbn [map concat]. rewrite app_nil_r. reflexivity. Qed.

Lemma qdata_app pre stk : qdata (pre ++ stk) = qdata stk ++ qdata pre.
Proof. unfold qdata. rewrite rev_app_distr, map_app, concat_app. reflexivity. Qed.

Lemma cnt_qstk_data bs : cnt (map qfb bs) = length (concat (map qd bs)).
Proof.
  induction bs as [|b bs IH]; [reflexivity|]. cbn [map cnt concat]. rewrite app_length, IH. reflexivity.
Qed.

Lemma cnt_qstk stk : cnt (qstk stk) = length (qdata stk).
Proof. unfold qstk, qdata. rewrite <- cnt_qstk_data, map_rev, cnt_rev. reflexivity. Qed.

(* ------------------------------------------------------------------ *)
(* Invariants of the loops of gpava                                    *)
(* ------------------------------------------------------------------ *)
Lemma gup_spec f : forall rest xb d xb' d' rest',
  gup f xb d rest = (xb', d', rest') -> xb = f d ->
  d' ++ rest' = d ++ rest /\ length d <= length d' /\ length rest' <= length rest /\ xb' = f d'.
Proof.
  induction rest as [|y1 rest IH]; intros xb d xb' d' rest' H Hf; cbn [gup] in H.
  - inversion H; subst. repeat split; auto.
  - destruct (fge xb y1).
    + apply IH in H; [|reflexivity]. destruct H as (H1 & H2 & H3 & H4).
      rewrite <- app_assoc in H1. cbn [app] in H1. rewrite app_length in H2. cbn [length] in *.
      repeat split; [exact H1|lia|lia|exact H4].
    + inversion H; subst. repeat split; auto.
Qed.

Lemma gdown_spec f : forall stk xb d xb' d' stk',
  gdown f xb d stk = (xb', d', stk') -> xb = f d ->
  (exists pre, stk = pre ++ stk' /\ d' = qdata pre ++ d) /\ length d <= length d' /\ xb' = f d' /\
  match stk' with [] => True | q :: _ => not_ge (qv q) xb' end.
Proof.
  induction stk as [|p stk IH]; intros xb d xb' d' stk' H Hf; cbn [gdown] in H.
  - inversion H; subst. split; [exists []; split; reflexivity|]. repeat split; auto.
  - destruct (fge (qv p) xb) eqn:E.
    + apply IH in H; [|reflexivity]. destruct H as ([pre [Hpre Hd]] & H2 & H3 & H4).
      split.
      * exists (p :: pre). split; [cbn [app]; f_equal; exact Hpre|].
        rewrite qdata_cons, <- app_assoc. exact Hd.
      * rewrite app_length in H2. repeat split; [lia|exact H3|exact H4].
    + inversion H; subst. split; [exists []; split; reflexivity|]. repeat split; auto.
Qed.

Lemma gstep_spec f stk y1 rest stk1 rest1 :
  gstep f stk y1 rest = (stk1, rest1) ->
  allpos (qstk stk) -> chain (qstk stk) -> Forall (blk_ok f) stk ->
  allpos (qstk stk1) /\ chain (qstk stk1) /\ Forall (blk_ok f) stk1 /\
  qdata stk1 ++ rest1 = qdata stk ++ y1 :: rest /\ length rest1 <= length rest.
Proof.
  unfold gstep. intros H Hp Hc Hb.
  destruct stk as [|p stk'].
  - inversion H; subst. split; [constructor; [cbn; lia|constructor]|]. split; [exact I|].
    split; [constructor; [right; reflexivity|constructor]|]. split; [reflexivity|lia].
  - destruct (fge (qv p) y1) eqn:E.
    + destruct (gup f _ _ rest) as [[xb1 d1] rest1'] eqn:Eu.
      destruct (gdown f xb1 d1 stk') as [[xb2 d2] stk2] eqn:Ed.
      inversion H; subst. apply gup_spec in Eu; [|reflexivity].
      destruct Eu as (U1 & U2 & U3 & U4).
      apply gdown_spec in Ed; [|exact U4]. destruct Ed as ([pre [Dpre Dd]] & D2 & D3 & D4).
      rewrite app_length in U2. cbn [length] in U2.
      unfold allpos, qstk in Hp. cbn [map] in Hp. inversion Hp as [|p0 l0 Hp1 Hp2]; subst l0 p0.
      rewrite Dpre, map_app, Forall_app in Hp2. destruct Hp2 as [_ Hp3].
      inversion Hb as [|p0 l0 Hb1 Hb2]; subst l0 p0.
      rewrite Dpre, Forall_app in Hb2. destruct Hb2 as [_ Hb3].
      split; [constructor; [cbn; lia|exact Hp3]|].
      split.
      * unfold qstk in Hc. cbn [map] in Hc. rewrite Dpre, map_app in Hc.
        assert (Hc' : chain (map qfb stk2)) by (apply (chain_suffix (qfb p :: map qfb pre)); exact Hc).
        unfold qstk. destruct stk2 as [|q t]; [exact I|]. cbn [map]. split; [exact D4|exact Hc'].
      * split; [constructor; [left; exact D3|exact Hb3]|].
        split; [|exact U3].
        rewrite Dpre, !qdata_cons, qdata_app, Dd.
        cbn [qd]. rewrite <- !app_assoc. f_equal. f_equal.
        rewrite U1. rewrite <- app_assoc. reflexivity.
    + inversion H; subst.
      split; [constructor; [cbn; lia|exact Hp]|].
      split; [split; [exact E|exact Hc]|].
      split; [constructor; [right; reflexivity|exact Hb]|].
      split; [|lia]. rewrite !qdata_cons. cbn [qd]. rewrite <- app_assoc. reflexivity.
Qed.

Lemma gloop_spec f : forall fuel stk rest, length rest <= fuel ->
  allpos (qstk stk) -> chain (qstk stk) -> Forall (blk_ok f) stk ->
  exists stk', gloop f fuel stk rest = Some stk' /\ allpos (qstk stk') /\ chain (qstk stk') /\
               Forall (blk_ok f) stk' /\ qdata stk' = qdata stk ++ rest.
Proof.
  induction fuel as [|fuel IH]; intros stk rest Hf Hp Hc Hb; destruct rest as [|e rest]; cbn [length] in Hf.
  - exists stk. cbn. rewrite app_nil_r. repeat split; assumption.
  - lia.
  - exists stk. cbn. rewrite app_nil_r. repeat split; assumption.
  - cbn [gloop]. destruct (gstep f stk e rest) as [stk1 rest1] eqn:Es.
    destruct (gstep_spec _ _ _ _ _ _ Es Hp Hc Hb) as (S1 & S2 & S3 & S4 & S5).
    destruct (IH stk1 rest1 ltac:(lia) S1 S2 S3) as [stk' (L1 & L2 & L3 & L4 & L5)].
    exists stk'. repeat split; try assumption. rewrite L5. exact S4.
Qed.

(* ------------------------------------------------------------------ *)
(* Theorems about gpava_f (any `fun`)                                  *)
(* ------------------------------------------------------------------ *)
(* fuel = length of the data is never exhausted; the blocks partition the data IN ORDER; every
   block value is `fun` of its data or the block is a single datum; no adjacent pair of block
   values satisfies the pooling test >= *)
Theorem gpava_blocks_f_total f y :
  exists stk, gpava_blocks_f f y = Some stk /\ allpos (qstk stk) /\ chain (qstk stk) /\
              Forall (blk_ok f) stk /\ qdata stk = y.
Proof.
  unfold gpava_blocks_f.
  destruct (gloop_spec f (length y) [] y (le_n _) (Forall_nil _) I (Forall_nil _)) as [stk (H1 & H2 & H3 & H4 & H5)].
  exists stk. repeat split; assumption.
Qed.

Theorem gpava_f_fuel f y :
  exists stk, gpava_blocks_f f y = Some stk /\ gpava_f f y = (fexpand (qstk stk), frvec (qstk stk)).
Proof.
  destruct (gpava_blocks_f_total f y) as [stk [H _]]. exists stk. split; [exact H|].
  unfold gpava_f. rewrite H. reflexivity.
Qed.

Theorem gpava_f_block_form f y : block_form_rel not_ge (fst (gpava_f f y)) (snd (gpava_f f y)).
Proof.
  destruct (gpava_blocks_f_total f y) as [stk (H1 & H2 & H3 & _)].
  unfold gpava_f. rewrite H1. cbn [fst snd]. exists (rev (qstk stk)).
  split; [apply allpos_rev; exact H2|]. split; [apply chain_adjR; exact H3|]. split; reflexivity.
Qed.

Theorem gpava_f_length f y : length (fst (gpava_f f y)) = length y.
Proof.
  destruct (gpava_blocks_f_total f y) as [stk (H1 & H2 & H3 & H4 & H5)].
  unfold gpava_f. rewrite H1. cbn [fst]. unfold fexpand. fold (bexpand (rev (qstk stk))).
  rewrite bexpand_length, cnt_rev, cnt_qstk, H5. reflexivity.
Qed.

Theorem gpava_f_r_ends f y :
  hd 0 (snd (gpava_f f y)) = 0 /\ last (snd (gpava_f f y)) 0 = length y.
Proof.
  pose proof (block_form_rel_weaken _ _ _ (gpava_f_block_form f y)) as B.
  split; [apply (block_form_first _ _ B)|]. rewrite <- (block_form_length _ _ B). apply gpava_f_length.
Qed.

Theorem gpava_f_r_strict f y : forall j, S j < length (snd (gpava_f f y)) ->
  nth j (snd (gpava_f f y)) 0 < nth (S j) (snd (gpava_f f y)) 0.
Proof. apply (block_form_strict (fst (gpava_f f y))). apply (block_form_rel_weaken not_ge). apply gpava_f_block_form. Qed.

Theorem gpava_f_const f y : forall j i d, S j < length (snd (gpava_f f y)) ->
  nth j (snd (gpava_f f y)) 0 <= i -> i < nth (S j) (snd (gpava_f f y)) 0 ->
  nth i (fst (gpava_f f y)) d = nth (nth j (snd (gpava_f f y)) 0) (fst (gpava_f f y)) d.
Proof. apply block_form_const. apply (block_form_rel_weaken not_ge). apply gpava_f_block_form. Qed.

(* at an inner boundary k = r[j]:  (x[k-1] >= x[k]) = false, as IEEE comparison *)
Theorem gpava_f_boundary f y : forall j d, 1 <= j -> S j < length (snd (gpava_f f y)) ->
  PrimFloat.leb (nth (nth j (snd (gpava_f f y)) 0) (fst (gpava_f f y)) d)
                (nth (nth j (snd (gpava_f f y)) 0 - 1) (fst (gpava_f f y)) d) = false.
Proof. intros j d H1 H2. exact (block_form_boundary not_ge _ _ (gpava_f_block_form f y) j d H1 H2). Qed.

(* ------------------------------------------------------------------ *)
(* The recomputed block vector (lines 417-418)                          *)
(* ------------------------------------------------------------------ *)
(* np.diff(x)[i] != 0 *)
Definition fdiff_nz (x : list float) (d : float) (i : nat) : bool :=
  negb (PrimFloat.eqb (PrimFloat.sub (nth (S i) x d) (nth i x d)) PrimFloat.zero).

Lemma fdiffpos_In : forall x pos k d,
  In k (fdiffpos pos x) <-> exists i, k = pos + S i /\ S i < length x /\ fdiff_nz x d i = true.
Proof.
  induction x as [|a x IH]; intros pos k d.
  - cbn. split; [intros []|intros [i [_ [H _]]]; lia].
  - destruct x as [|b t].
    + cbn. split; [intros []|intros [i [_ [H _]]]; lia].
    + change (fdiffpos pos (a :: b :: t)) with
        (if PrimFloat.eqb (PrimFloat.sub b a) PrimFloat.zero then fdiffpos (S pos) (b :: t)
         else S pos :: fdiffpos (S pos) (b :: t)).
      assert (Hshift : forall i, fdiff_nz (a :: b :: t) d (S i) = fdiff_nz (b :: t) d i) by (intros i; reflexivity).
      assert (H0 : fdiff_nz (a :: b :: t) d 0 = negb (PrimFloat.eqb (PrimFloat.sub b a) PrimFloat.zero)) by reflexivity.
      specialize (IH (S pos) k d).
      destruct (PrimFloat.eqb (PrimFloat.sub b a) PrimFloat.zero) eqn:E; cbn [negb] in H0.
      * rewrite IH. split.
        -- intros [i (K1 & K2 & K3)]. exists (S i). rewrite Hshift. cbn [length] in *. repeat split; [lia|lia|exact K3].
        -- intros [i (K1 & K2 & K3)]. destruct i as [|i]; [rewrite H0 in K3; discriminate K3|].
           exists i. rewrite Hshift in K3. cbn [length] in *. repeat split; [lia|lia|exact K3].
      * cbn [In]. rewrite IH. split.
        -- intros [Hk|[i (K1 & K2 & K3)]].
           ++ exists 0. cbn [length]. repeat split; [lia|lia|exact H0].
           ++ exists (S i). rewrite Hshift. cbn [length] in *. repeat split; [lia|lia|exact K3].
        -- intros [i (K1 & K2 & K3)]. destruct i as [|i]; [left; lia|].
           right. exists i. rewrite Hshift in K3. cbn [length] in *. repeat split; [lia|lia|exact K3].
Qed.

Lemma fdiffpos_sorted : forall x pos,
  StronglySorted lt (fdiffpos pos x) /\ Forall (fun k => pos < k /\ k < pos + length x) (fdiffpos pos x).
Proof.
  induction x as [|a x IH]; intros pos.
  - cbn. split; constructor.
  - destruct x as [|b t].
    + cbn. split; constructor.
    + change (fdiffpos pos (a :: b :: t)) with
        (if PrimFloat.eqb (PrimFloat.sub b a) PrimFloat.zero then fdiffpos (S pos) (b :: t)
         else S pos :: fdiffpos (S pos) (b :: t)).
      destruct (IH (S pos)) as [I1 I2].
      assert (I3 : Forall (fun k => pos < k /\ k < pos + length (a :: b :: t)) (fdiffpos (S pos) (b :: t))).
      { eapply Forall_impl; [|exact I2]. cbn [length]. intros k Hk. lia. }
      destruct (PrimFloat.eqb (PrimFloat.sub b a) PrimFloat.zero).
      * split; assumption.
      * split.
        -- constructor; [exact I1|]. eapply Forall_impl; [|exact I2]. intros k Hk. cbn beta in Hk. lia.
        -- constructor; [cbn [length]; lia|exact I3].
Qed.

Lemma SSorted_snoc : forall l m, StronglySorted lt l -> Forall (fun k => k < m) l -> StronglySorted lt (l ++ [m]).
Proof.
  induction l as [|a l IH]; intros m Hs Hf.
  - cbn. constructor; constructor.
  - cbn [app]. inversion Hs as [|a0 l0 Hs1 Hs2]; subst. inversion Hf as [|a0 l0 Hf1 Hf2]; subst.
    constructor; [apply IH; assumption|]. rewrite Forall_app. split; [exact Hs2|]. constructor; [exact Hf1|constructor].
Qed.

Lemma SSorted_frame : forall l n, StronglySorted lt l -> Forall (fun k => 0 < k /\ k < n) l -> 0 < n ->
  StronglySorted lt (0 :: l ++ [n]).
Proof.
  intros l n Hs Hf Hn. constructor.
  - apply SSorted_snoc; [exact Hs|]. eapply Forall_impl; [|exact Hf]. intros k Hk. cbn beta in Hk. lia.
  - rewrite Forall_app. split; [eapply Forall_impl; [|exact Hf]; intros k Hk; cbn beta in Hk; lia|].
    constructor; [exact Hn|constructor].
Qed.

Lemma SSorted_nth : forall r, StronglySorted lt r -> forall j, S j < length r -> nth j r 0 < nth (S j) r 0.
Proof.
  induction r as [|a r IH]; intros Hs j Hj; [cbn in Hj; lia|].
  inversion Hs as [|a0 l0 Hs1 Hs2]; subst.
  destruct j as [|j].
  - destruct r as [|b r']; [cbn in Hj; lia|]. cbn [nth]. inversion Hs2; subst. assumption.
  - cbn [nth]. apply IH; [exact Hs1|]. cbn [length] in Hj. lia.
Qed.

Lemma last_snoc (l : list nat) (a d : nat) : last (l ++ [a]) d = a.
Proof. apply last_last. Qed.

(* the mirror image (line 422) of a framed list *)
Lemma mirror_r_frame l n : mirror_r (0 :: l ++ [n]) = 0 :: map (fun k => n - k) (rev l) ++ [n].
Proof.
  unfold mirror_r. change (0 :: l ++ [n]) with ((0 :: l) ++ [n]). rewrite last_snoc.
  rewrite rev_app_distr. cbn [rev app map]. rewrite map_app. cbn [map]. rewrite Nat.sub_diag, Nat.sub_0_r. reflexivity.
Qed.

Lemma SSorted_mirror : forall l n, StronglySorted lt l -> Forall (fun k => 0 < k /\ k < n) l ->
  StronglySorted lt (map (fun k => n - k) (rev l)) /\ Forall (fun k => 0 < k /\ k < n) (map (fun k => n - k) (rev l)).
Proof.
  induction l as [|a l IH]; intros n Hs Hf.
  - cbn. split; constructor.
  - inversion Hs as [|a0 l0 Hs1 Hs2]; subst. inversion Hf as [|a0 l0 Hf1 Hf2]; subst.
    destruct (IH n Hs1 Hf2) as [I1 I2]. cbn [rev]. rewrite map_app. cbn [map]. split.
    + apply SSorted_snoc; [exact I1|]. rewrite Forall_map, Forall_forall. intros k Hk. apply in_rev in Hk.
      rewrite Forall_forall in Hs2, Hf2. specialize (Hs2 k Hk). specialize (Hf2 k Hk). lia.
    + rewrite Forall_app. split; [exact I2|]. constructor; [lia|constructor].
Qed.

(* frecompute: 0, then exactly the positions where the difference of neighbours is nonzero, then n *)
Theorem frecompute_spec x : x <> [] ->
  hd 0 (frecompute x) = 0 /\ last (frecompute x) 0 = length x /\ 2 <= length (frecompute x) /\
  StronglySorted lt (frecompute x) /\
  (forall k d, 0 < k < length x -> (In k (frecompute x) <-> fdiff_nz x d (k - 1) = true)).
Proof.
  intros Hne. unfold frecompute. destruct (fdiffpos_sorted x 0) as [S1 S2]. cbn [Nat.add] in S2.
  assert (Hn : 0 < length x) by (destruct x; [contradiction|cbn; lia]).
  split; [reflexivity|].
  split; [change (0 :: fdiffpos 0 x ++ [length x]) with ((0 :: fdiffpos 0 x) ++ [length x]); apply last_snoc|].
  split; [cbn [length]; rewrite app_length; cbn [length]; lia|].
  split; [apply SSorted_frame; assumption|].
  intros k d Hk. cbn [In]. rewrite in_app_iff. cbn [In]. rewrite (fdiffpos_In x 0 k d). split.
  - intros [H|[[i (K1 & K2 & K3)]|[H|[]]]]; [lia| |lia]. replace (k - 1) with i by lia. exact K3.
  - intros H. right. left. exists (k - 1). repeat split; [lia|lia|exact H].
Qed.

(* ------------------------------------------------------------------ *)
(* Lines 399-415: x is BITWISE constant on the blocks of the lower solution *)
(* ------------------------------------------------------------------ *)
Lemma fminacc_from_length : forall l acc, length (fminacc_from acc l) = length l.
Proof. induction l as [|v l IH]; intros acc; cbn [fminacc_from length]; [reflexivity|]. rewrite IH. reflexivity. Qed.

Lemma fminacc_length l : length (fminacc l) = length l.
Proof. destruct l as [|v l]; [reflexivity|]. cbn [fminacc length]. rewrite fminacc_from_length. reflexivity. Qed.

Lemma fmap2_repeat g a b : forall k l1 l2,
  fmap2 g (repeat a k ++ l1) (repeat b k ++ l2) = repeat (g a b) k ++ fmap2 g l1 l2.
Proof. induction k as [|k IH]; intros l1 l2; [reflexivity|]. cbn [repeat app fmap2]. rewrite IH. reflexivity. Qed.

(* the blocks of x: value g(xl_j, q_j), extent of block j *)
Definition zipblk (g : float -> float -> float) (bs : list qblk) (qs : list float) : list fblk :=
  map (fun bq => mkfb (g (qv (fst bq)) (snd bq)) fone (length (qd (fst bq)))) (combine bs qs).

Lemma fmap2_blocks g : forall bs qs, length qs = length bs ->
  fmap2 g (qexpand bs) (flat_map (fun bq => repeat (snd bq) (length (qd (fst bq)))) (combine bs qs))
  = bexpand (zipblk g bs qs).
Proof.
  induction bs as [|b bs IH]; intros qs Hl; destruct qs as [|q qs]; try discriminate Hl; [reflexivity|].
  cbn [length] in Hl. unfold qexpand, zipblk, bexpand. cbn [flat_map combine map fst snd fv fn].
  rewrite fmap2_repeat. f_equal. apply IH. lia.
Qed.

Lemma zipblk_fn g : forall bs qs, length qs = length bs -> map fn (zipblk g bs qs) = map fn (map qfb bs).
Proof.
  induction bs as [|b bs IH]; intros qs Hl; destruct qs as [|q qs]; try discriminate Hl; [reflexivity|].
  cbn [length] in Hl. unfold zipblk. cbn [combine map fn fst snd qfb]. f_equal. apply IH. lia.
Qed.

Lemma fstarts_ext : forall a b from, map fn a = map fn b -> fstarts from a = fstarts from b.
Proof.
  induction a as [|p a IH]; intros b from H; destruct b as [|q b]; try discriminate H; [reflexivity|].
  cbn [map] in H. inversion H as [[H1 H2]]. cbn [fstarts]. rewrite H1. f_equal. apply IH. exact H2.
Qed.

Lemma allpos_ext : forall a b, map fn a = map fn b -> allpos a -> allpos b.
Proof.
  induction a as [|p a IH]; intros b H Hp; destruct b as [|q b]; try discriminate H; [constructor|].
  cbn [map] in H. inversion H as [[H1 H2]]. inversion Hp as [|p0 l0 Hp1 Hp2]; subst.
  constructor; [rewrite <- H1; exact Hp1|apply (IH b H2 Hp2)].
Qed.

Lemma cnt_ext : forall a b, map fn a = map fn b -> cnt a = cnt b.
Proof.
  induction a as [|p a IH]; intros b H; destruct b as [|q b]; try discriminate H; [reflexivity|].
  cbn [map] in H. inversion H as [[H1 H2]]. cbn [cnt]. rewrite H1, (IH b H2). reflexivity.
Qed.

Theorem quantile_from_blocks_form bs lu : allpos (map qfb bs) ->
  block_form (fst (quantile_from_blocks bs lu)) (fstarts 0 (map qfb bs)) /\
  length (fst (quantile_from_blocks bs lu)) = length (concat (map qd bs)) /\
  snd (quantile_from_blocks bs lu) = frecompute (fst (quantile_from_blocks bs lu)).
Proof.
  intros Hp. unfold quantile_from_blocks. cbn [fst snd].
  set (qs := rev (fminacc (rev (map (fun b => quantile_upper_f (qd b) lu) bs)))).
  assert (Hl : length qs = length bs).
  { unfold qs. rewrite rev_length, fminacc_length, rev_length, map_length. reflexivity. }
  set (g := fun a b => PrimFloat.mul fhalf (PrimFloat.add a b)).
  rewrite (fmap2_blocks g bs qs Hl).
  pose proof (zipblk_fn g bs qs Hl) as Hfn.
  split; [|split; [|reflexivity]].
  - exists (zipblk g bs qs). split; [apply (allpos_ext (map qfb bs)); [symmetry; exact Hfn|exact Hp]|].
    split; [intros j d _; exact I|]. split; [reflexivity|]. apply fstarts_ext. symmetry. exact Hfn.
  - rewrite bexpand_length, (cnt_ext _ _ Hfn). apply cnt_qstk_data.
Qed.

(* the quantile branch on ordered data: lower solution (xl, rl) and result (x, r) *)
Theorem quantile_core_f_spec y level lu :
  exists xl rl,
    (xl, rl) = gpava_f (fun d => quantile_lower_f d level) y /\
    block_form_rel not_ge xl rl /\
    block_form (fst (quantile_core_f y level lu)) rl /\
    length (fst (quantile_core_f y level lu)) = length y /\
    snd (quantile_core_f y level lu) = frecompute (fst (quantile_core_f y level lu)).
Proof.
  pose proof (gpava_f_block_form (fun d => quantile_lower_f d level) y) as B.
  destruct (gpava_blocks_f_total (fun d => quantile_lower_f d level) y) as [stk (H1 & H2 & H3 & H4 & H5)].
  unfold gpava_f in B |- *. unfold quantile_core_f. rewrite H1 in B |- *. cbn [fst snd] in B.
  exists (fexpand (map qfb stk)), (frvec (map qfb stk)). split; [reflexivity|]. split; [exact B|].
  assert (Hp : allpos (map qfb (rev stk))) by (rewrite map_rev; apply allpos_rev; exact H2).
  destruct (quantile_from_blocks_form (rev stk) lu Hp) as (Q1 & Q2 & Q3).
  unfold frvec. rewrite <- map_rev. split; [exact Q1|]. split; [|exact Q3].
  rewrite Q2. fold (qdata stk). rewrite H5. reflexivity.
Qed.

(* ------------------------------------------------------------------ *)
(* The public path                                                     *)
(* ------------------------------------------------------------------ *)
Lemma rev_nonnil {A} (a : A) l : rev (a :: l) <> [].
Proof. intros E. apply (f_equal (@length A)) in E. rewrite rev_length in E. discriminate E. Qed.

(* decreasing = mirror image of the increasing fit of the reversed input *)
Theorem isotonic_quantile_f_decreasing y level lu :
  isotonic_quantile_f y level lu false =
  match isotonic_quantile_f (rev y) level lu true with
  | FOk (x, r) => FOk (rev x, mirror_r r)
  | FErr e => FErr e
  end.
Proof.
  unfold isotonic_quantile_f. destruct (level_bad level); [reflexivity|].
  destruct y as [|a y]; [reflexivity|].
  destruct (rev (a :: y)) as [|b l] eqn:E; [exfalso; exact (rev_nonnil a y E)|].
  destruct (q_invalid level || q_invalid lu)%bool; [reflexivity|].
  destruct (quantile_core_f (b :: l) level lu) as [x r]. reflexivity.
Qed.

(* success exactly under the documented guards: 0 < level < 1 fails (line 363), y non-empty, and
   level / level_upper acceptable to np.quantile (i.e. not NaN) *)
Theorem isotonic_quantile_f_ok_iff y level lu inc :
  (exists xr, isotonic_quantile_f y level lu inc = FOk xr) <->
  level_bad level = false /\ y <> [] /\ q_invalid level = false /\ q_invalid lu = false.
Proof.
  unfold isotonic_quantile_f. split.
  - intros [xr H]. destruct (level_bad level); [discriminate H|]. destruct y as [|a y]; [discriminate H|].
    destruct (q_invalid level || q_invalid lu)%bool eqn:E; [discriminate H|]. apply orb_false_elim in E.
    destruct E as [E1 E2]. repeat split; [discriminate|exact E1|exact E2].
  - intros (H1 & H2 & H3 & H4). rewrite H1, H3, H4. cbn [orb]. destruct y as [|a y]; [contradiction|].
    destruct (quantile_core_f _ level lu) as [x r]. destruct inc; eexists; reflexivity.
Qed.

(* np.diff(x)[k-1] != 0, read in the direction of the fit *)
Definition qdiff_nz (inc : bool) (x : list float) (d : float) (k : nat) : bool :=
  negb (PrimFloat.eqb (if inc then PrimFloat.sub (nth k x d) (nth (k - 1) x d)
                       else PrimFloat.sub (nth (k - 1) x d) (nth k x d)) PrimFloat.zero).

(* the structural contract of the public function, for every float input and level *)
Theorem isotonic_quantile_f_contract y level lu inc x r :
  isotonic_quantile_f y level lu inc = FOk (x, r) ->
  length x = length y /\
  hd 0 r = 0 /\ last r 0 = length y /\ 2 <= length r /\
  (forall j, S j < length r -> nth j r 0 < nth (S j) r 0) /\
  (* r is exactly: 0, the positions where the difference of neighbours is not == 0, n *)
  (forall k d, 0 < k < length y -> (In k r <-> qdiff_nz inc x d k = true)) /\
  (* x is BITWISE constant on the blocks rl of the lower solution xl = gpava(quantile_lower), whose
     neighbouring block values are never in the pooling relation >= (resp. <= for a decreasing fit) *)
  (exists xl rl, block_form_rel (boundary_rel inc) xl rl /\ block_form x rl /\ length xl = length y).
Proof.
  unfold isotonic_quantile_f. intros H.
  destruct (level_bad level); [discriminate H|]. destruct y as [|a y]; [discriminate H|].
  destruct (q_invalid level || q_invalid lu)%bool; [discriminate H|].
  set (y0 := a :: y) in *.
  assert (Hy' : (if inc then y0 else rev y0) <> []).
  { destruct inc; [discriminate|apply rev_nonnil]. }
  assert (Hly : length (if inc then y0 else rev y0) = length y0) by (destruct inc; [reflexivity|apply rev_length]).
  destruct (quantile_core_f_spec (if inc then y0 else rev y0) level lu) as [xl [rl (G1 & G2 & G3 & G4 & G5)]].
  destruct (quantile_core_f (if inc then y0 else rev y0) level lu) as [x0 r0]. cbn [fst snd] in G3, G4, G5.
  rewrite Hly in G4.
  assert (Hx0 : x0 <> []) by (intros E; subst x0; unfold y0 in G4; cbn [length] in G4; discriminate G4).
  destruct (frecompute_spec x0 Hx0) as (F1 & F2 & F3 & F4 & F5). rewrite <- G5 in F1, F2, F3, F4, F5.
  assert (Hxl : length xl = length y0).
  { rewrite (block_form_length _ _ (block_form_rel_weaken _ _ _ G2)), <- (block_form_length _ _ G3). exact G4. }
  destruct inc; inversion H; subst x r; clear H.
  - split; [rewrite G4; reflexivity|]. split; [exact F1|]. split; [rewrite F2, G4; reflexivity|].
    split; [exact F3|]. split; [apply SSorted_nth; exact F4|].
    split.
    + intros k d Hk. rewrite (F5 k d) by (rewrite G4; exact Hk). unfold fdiff_nz, qdiff_nz.
      replace (S (k - 1)) with k by lia. reflexivity.
    + exists xl, rl. split; [exact G2|]. split; [exact G3|exact Hxl].
  - (* decreasing: x = rev x0, r = mirror_r r0 *)
    rewrite G4 in F2, F5.
    assert (Hr0 : r0 = 0 :: fdiffpos 0 x0 ++ [length y0]) by (rewrite G5; unfold frecompute; rewrite G4; reflexivity).
    destruct (fdiffpos_sorted x0 0) as [S1 S2]. cbn [Nat.add] in S2. rewrite G4 in S2.
    destruct (SSorted_mirror _ _ S1 S2) as [M1 M2].
    assert (Hn : 0 < length y0) by (unfold y0; cbn; lia).
    rewrite Hr0, mirror_r_frame.
    split; [rewrite rev_length; exact G4|]. split; [reflexivity|].
    split; [change (0 :: map (fun k => length y0 - k) (rev (fdiffpos 0 x0)) ++ [length y0])
              with ((0 :: map (fun k => length y0 - k) (rev (fdiffpos 0 x0))) ++ [length y0]); apply last_snoc|].
    split; [cbn [length]; rewrite app_length; cbn [length]; lia|].
    split; [apply SSorted_nth; apply SSorted_frame; assumption|].
    split.
    + intros k d Hk. cbn [In]. rewrite in_app_iff. cbn [In]. rewrite in_map_iff.
      assert (Hnth : forall i, i < length y0 -> nth i (rev x0) d = nth (length y0 - S i) x0 d).
      { intros i Hi. rewrite rev_nth by (rewrite G4; exact Hi). rewrite G4. reflexivity. }
      unfold qdiff_nz. rewrite (Hnth k) by lia. rewrite (Hnth (k - 1)) by lia.
      specialize (F5 (length y0 - k) d ltac:(lia)). unfold fdiff_nz in F5.
      replace (S (length y0 - k - 1)) with (length y0 - k) in F5 by lia.
      replace (length y0 - S (k - 1)) with (length y0 - k) by lia.
      replace (length y0 - S k) with (length y0 - k - 1) by lia.
      rewrite <- F5. rewrite Hr0. cbn [In]. rewrite in_app_iff. cbn [In]. split.
      * intros [E|[[k0 [E1 E2]]|[E|[]]]]; [lia| |lia]. apply in_rev in E2.
        rewrite Forall_forall in S2. pose proof (S2 k0 E2) as B0. right. left.
        replace (length y0 - k) with k0 by lia. exact E2.
      * intros [E|[E|[E|[]]]]; [lia| |lia]. right. left. exists (length y0 - k). split; [lia|]. apply in_rev. rewrite rev_involutive. exact E.
    + exists (rev xl), (mirror_r rl). split; [apply (block_form_rel_rev not_ge); exact G2|].
      split; [apply (block_form_rel_rev (fun _ _ => True)); exact G3|]. rewrite rev_length. exact Hxl.
Qed.

(* median = quantile at level 1/2 (lines 366-368) *)
Theorem isotonic_median_f_is_quantile y inc :
  isotonic_median_f y inc = isotonic_quantile_f y fhalf fhalf inc.
Proof. reflexivity. Qed.

(* full statement, not proved: inside a block of the RETURNED r all values of x are == (IEEE) and adjacent
   blocks of r carry values that are not ==; i.e. for S j < length r and r[j] <= i < r[j+1]:
   PrimFloat.eqb (nth i x d) (nth (nth j r 0) x d) = true.  What is proved (isotonic_quantile_f_contract) is
   the test the code itself performs: k is a block start iff  x[k] - x[k-1] == 0  is false.  Passing from
   `b - a == 0` to `a == b` (and its transitivity along a block) needs IEEE facts Coq states only in
   FloatAxioms, and it is FALSE for infinite values: inf - inf = NaN, so y = [1.7e308, 1.7e308], median, gives
   x = [inf, inf] (overflow of xl + xu) and r = [0, 1, 2] - two adjacent blocks with equal values
   (harness/run_gpavaqfloat.py, FIXED).  Bitwise constancy inside a block of r is false as well:
   y = [0.0, -5e-324, 0.0], median, gives x = [-0.0, -0.0, 0.0], r = [0, 3]  (0.5 * -5e-324 rounds to -0.0).
   Proved instead: x is bitwise constant on the blocks rl of the lower solution. *)

(* the hypotheses are satisfiable *)
Example isotonic_quantile_f_example :
  isotonic_quantile_f [1; 3; 2; 5; 4; 4; 0]%float 0x1p-1%float 0x1p-1%float true
  = FOk ([1; 2.5; 2.5; 4; 4; 4; 4]%float, [0; 1; 3; 7]).
Proof. vm_compute. reflexivity. Qed.

(* 3 * fl(1/3) = 1 in float arithmetic: numpy takes the sample {1, 2, 3} at level 0x1.5555555555555p-2 < 1/3 for
   a set-valued quantile [1, 2]; the exact lower AND upper quantile at that level is 1 *)
Example isotonic_quantile_f_example_third :
  isotonic_quantile_f [3; 2; 1]%float 0x1.5555555555555p-2%float 0x1.5555555555556p-1%float true
  = FOk ([1.5; 1.5; 1.5]%float, [0; 3]).
Proof. vm_compute. reflexivity. Qed.

Example isotonic_median_f_example_overflow :
  isotonic_median_f [0x1.e42d130773b76p+1023; 0x1.e42d130773b76p+1023]%float true
  = FOk ([infinity; infinity]%float, [0; 1; 2]).
Proof. vm_compute. reflexivity. Qed.

Example isotonic_median_f_example_signed_zero :
  isotonic_median_f [0; (-0x0.0000000000001p-1022); 0]%float true
  = FOk ([(-0); (-0); 0]%float, [0; 3]).
Proof. vm_compute. reflexivity. Qed.

Print Assumptions gpava_blocks_f_total.
Print Assumptions gpava_f_fuel.
Print Assumptions gpava_f_block_form.
Print Assumptions gpava_f_length.
Print Assumptions gpava_f_r_ends.
Print Assumptions gpava_f_r_strict.
Print Assumptions gpava_f_const.
Print Assumptions gpava_f_boundary.
Print Assumptions frecompute_spec.
Print Assumptions quantile_core_f_spec.
Print Assumptions isotonic_quantile_f_decreasing.
Print Assumptions isotonic_quantile_f_ok_iff.
Print Assumptions isotonic_quantile_f_contract.
