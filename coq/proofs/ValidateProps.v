(* C20: the documented argument constraints are enforced by the validation model
   model/Validate.v.

   `violates e d` formalises, clause by clause and straight from the text of the
   property, "descriptor d violates a documented constraint that is relevant to entry
   point e".  `extra e d` lists the (few) situations in which the code rejects a call
   although no clause of C20 is violated.  Main results, for EVERY entry point and
   EVERY descriptor (any rational level, any integer n_bins, any lengths):

     validate_ok_iff            validate e d = Ok  <->  violates e d = false /\ extra e d = false
     constraint_enforced        violates e d = true  ->  validate e d <> Ok
     valid_accepted             violates e d = false -> extra e d = false -> validate e d = Ok
     constraint_value_error     the exception class is ValueError wherever the text says ValueError
                                (NotImplementedError only for a weighted quantile / median isotonic
                                regression), at every entry point except the private class
                                IsotonicRegression (in_scope)
     weighted_quantile_not_implemented      NotImplementedError for weighted quantile regression
     plot_reliability_shape_error_old_refuted   history: the prelude of plot_reliability_diagram before
                                commit 872bdaf raised polars' ShapeError
*)
From Coq Require Import QArith ZArith Lqa Lia List Bool.
Import ListNotations.
From MD Require Import model.Validate.
Open Scope Q_scope.

(* ------------------------------------------------------------------ the text of the property, clause by clause *)

(* "a level outside the open unit interval" *)
Definition Qlt_b (a b : Q) : bool := negb (Qle_bool b a).
Definition outside_unit (l : Q) : bool := negb (Qlt_b 0 l && Qlt_b l 1).

Lemma outside_unit_spec : forall l, outside_unit l = true <-> ~ (0 < l /\ l < 1).
Proof.
  intro l. unfold outside_unit, Qlt_b.
  destruct (Qle_bool l 0) eqn:E0; destruct (Qle_bool 1 l) eqn:E1; simpl;
    try (apply Qle_bool_iff in E0); try (apply Qle_bool_iff in E1); split; intro H;
    try reflexivity; try discriminate H; try (intros [H0 H1]; lra).
  exfalso. apply H. split.
  - destruct (Qlt_le_dec 0 l) as [Hl | Hl]; [exact Hl |].
    apply Qle_bool_iff in Hl. rewrite Hl in E0. discriminate E0.
  - destruct (Qlt_le_dec l 1) as [Hl | Hl]; [exact Hl |].
    apply Qle_bool_iff in Hl. rewrite Hl in E1. discriminate E1.
Qed.

(* the guard of the code, `level <= 0 or level >= 1`, is exactly that *)
Lemma outside_unit_level_bad : forall l, outside_unit l = level_bad l.
Proof.
  intro l. unfold outside_unit, level_bad, Qlt_b.
  destruct (Qle_bool l 0); destruct (Qle_bool 1 l); reflexivity.
Qed.

Lemma level_bad_spec : forall l, level_bad l = true <-> ~ (0 < l /\ l < 1).
Proof. intro l. rewrite <- outside_unit_level_bad. apply outside_unit_spec. Qed.

(* "fewer than 2 bins" *)
Definition fewer_than_2 (nb : Z) : bool := (nb <? 2)%Z.
Lemma fewer_than_2_spec : forall nb, fewer_than_2 nb = true <-> (nb < 2)%Z.
Proof. intro nb. unfold fewer_than_2. rewrite Z.ltb_lt. lia. Qed.

Lemma len_ne_spec : forall a b, len_ne a b = true <-> a <> b.
Proof.
  intros a b. unfold len_ne. destruct (Nat.eqb_spec a b) as [E | E]; simpl; split; intro H;
    try reflexivity; try discriminate H; try exact E. exfalso. exact (H E).
Qed.

(* the functional argument of the entry point, if it has one *)
Definition fun_arg (e : entry) (d : descriptor) : option functional :=
  match e with
  | E_ident | E_bias | E_plot_bias | E_decompose | E_isoreg | E_isofit | E_plot_rel | E_plot_murphy =>
      Some (d_functional d)
  | E_ctor | E_per_obs | E_call | E_decompose_infer =>
      match d_kind d with KElementary => Some (d_functional d) | _ => None end
  | _ => None
  end.

(* the level is an argument of the entry point and documented as used: the docstrings say
   "mean / median: argument level is neglected"; the expectile / quantile scoring classes always use it *)
Definition level_relevant (e : entry) (d : descriptor) : bool :=
  match e with
  | E_ctor | E_per_obs | E_call | E_decompose_infer =>
      match d_kind d with
      | KHES | KHQS | KPinball => true
      | KElementary => uses_level (d_functional d)
      | _ => false
      end
  | _ => match fun_arg e d with Some f => uses_level f | None => false end
  end.

Definition v_level (e : entry) (d : descriptor) : bool := level_relevant e d && outside_unit (d_level d).

(* "an unknown functional".  A constructor returns no table, fit or score; the unknown functional of an
   ElementaryScore is rejected by score_per_obs / __call__ (E_per_obs, E_call), before any score exists *)
Definition v_functional (e : entry) (d : descriptor) : bool :=
  match e with
  | E_ctor => false
  | _ => match fun_arg e d with Some Fother => true | _ => false end
  end.

(* the feature the entry point bins, if any *)
Definition feat_arg (e : entry) (d : descriptor) : option nat :=
  match e with
  | E_bias | E_marginal | E_plot_bias | E_plot_marginal => d_n_feat d
  | E_bin_feature => Some (match d_n_feat d with Some k => k | None => 0%nat end)   (* feature=None is an empty column *)
  | _ => None
  end.
Definition binned (e : entry) (d : descriptor) : bool := match feat_arg e d with Some _ => true | None => false end.

(* "an unknown ... bin method", "fewer than 2 bins": where a feature is binned *)
Definition v_bin (e : entry) (d : descriptor) : bool :=
  binned e d && match d_bin_method d with BMother => true | BMvalid => false end.
Definition v_nbins (e : entry) (d : descriptor) : bool := binned e d && fewer_than_2 (d_n_bins d).

(* "observation and prediction (or feature) vectors of different length" *)
Definition has_pred (e : entry) : bool :=
  match e with
  | E_ident | E_bias | E_marginal | E_per_obs | E_call | E_decompose | E_decompose_infer | E_isofit
  | E_plot_rel | E_plot_bias | E_plot_marginal | E_plot_murphy | E_val2 | E_valsame => true
  | _ => false
  end.
Definition v_len (e : entry) (d : descriptor) : bool := has_pred e && len_ne (d_n_obs d) (d_n_pred d).
Definition v_feat (e : entry) (d : descriptor) : bool :=
  match feat_arg e d with Some k => len_ne k (d_n_obs d) | None => false end.

(* "weights of different length or more than one dimension" *)
Definition w_misshaped (d : descriptor) : bool :=
  match d_n_w d with Some m => len_ne m (d_n_obs d) || is_r2 (d_w_rank d) | None => false end.
Definition weighted (d : descriptor) : bool := match d_n_w d with Some _ => true | None => false end.
(* "- for compute_bias, compute_marginal, decompose and isotonic regression -" (the plot functions that wrap
   compute_bias / compute_marginal, and plot_reliability_diagram, which draws an isotonic regression, are
   included: a stronger statement) *)
Definition v_weights (e : entry) (d : descriptor) : bool :=
  match e with
  | E_bias | E_marginal | E_decompose | E_decompose_infer | E_isoreg | E_plot_bias | E_plot_marginal
  | E_plot_rel => w_misshaped d
  | _ => false
  end.
(* "non-positive weights for isotonic regression" *)
Definition v_sign (e : entry) (d : descriptor) : bool :=
  match e with E_isoreg => weighted d && nonpos (d_w_sign d) | _ => false end.

(* the functional an isotonic regression is run with, where the entry point runs one *)
Definition iso_functional (e : entry) (d : descriptor) : option functional :=
  match e with
  | E_isoreg | E_isofit | E_plot_rel | E_decompose => Some (d_functional d)
  | E_decompose_infer => Some (functional_of (d_kind d) (d_functional d) (d_level d))
  | _ => None
  end.
(* "(unimplemented weighted quantile regression raises NotImplementedError)" *)
Definition v_wq (e : entry) (d : descriptor) : bool :=
  weighted d && match iso_functional e d with Some Fquantile | Some Fmedian => true | _ => false end.

(* "and for mis-shaped weights handed to a scoring function" (E_call, E_plot_murphy): any exception.
   Beyond the text, the same is stated for the private IsotonicRegression.fit and compute_partial_dependence *)
Definition v_weights_any (e : entry) (d : descriptor) : bool :=
  match e with
  | E_call | E_plot_murphy | E_isofit | E_pd => w_misshaped d
  | _ => false
  end.
(* beyond the text: the private class rejects non-positive weights like the function it calls *)
Definition v_sign_private (e : entry) (d : descriptor) : bool :=
  match e with E_isofit => weighted d && nonpos (d_w_sign d) | _ => false end.

(* the clauses for which the text demands ValueError *)
Definition ve_violates (e : entry) (d : descriptor) : bool :=
  v_level e d || v_functional e d || v_bin e d || v_nbins e d || v_len e d || v_feat e d
  || v_weights e d || v_sign e d.

Definition violates (e : entry) (d : descriptor) : bool :=
  ve_violates e d || v_wq e d || v_weights_any e d || v_sign_private e d.

(* ------------------------------------------------------------------ rejections that no clause of C20 asks for *)
Definition is_expectile (f : functional) : bool := match f with Fexpectile => true | _ => false end.
Definition is_median (f : functional) : bool := match f with Fmedian => true | _ => false end.

Definition extra (e : entry) (d : descriptor) : bool :=
  match e with
  (* ElementaryScore.__init__ checks the level also for mean / median (scoring.py 656), stricter than documented *)
  | E_ctor | E_per_obs | E_call =>
      match d_kind d with
      | KElementary => negb (uses_level (d_functional d)) && outside_unit (d_level d)
      | _ => false
      end
  | E_plot_murphy =>
      negb (uses_level (d_functional d)) && outside_unit (d_level d)
      || Nat.eqb (d_n_pred d) 0 || Nat.eqb (d_n_obs d) 0                        (* empty input: numpy min / max *)
  (* non-positive weights are rejected by the expectile regression inside *)
  | E_decompose => is_expectile (d_functional d) && weighted d && nonpos (d_w_sign d)
  | E_decompose_infer =>
      let f' := functional_of (d_kind d) (d_functional d) (d_level d) in
      match d_kind d with
      | KElementary => negb (uses_level (d_functional d)) && outside_unit (d_level d)
      | _ => false
      end
      || is_expectile f' && weighted d && nonpos (d_w_sign d)
  | E_plot_rel =>
      Nat.eqb (d_n_pred d) 0                                                     (* empty input: numpy min / max *)
      || is_expectile (d_functional d) && weighted d && nonpos (d_w_sign d)
  | E_plot_marginal => match d_n_feat d with None => true | Some _ => false end   (* X=None: identification.py 670 *)
  | _ => false
  end.

(* ------------------------------------------------------------------ scope and the one deviating route *)
(* IsotonicRegression is a class of the private package _utils; the text speaks of public entry points
   (and names the function isotonic regression).  Its exception CLASSES are not claimed. *)
Definition in_scope (e : entry) : bool := match e with E_isofit => false | _ => true end.

(* ------------------------------------------------------------------ proofs *)
Local Ltac unfold_all :=
  cbv beta iota zeta delta
    [validate violates ve_violates extra in_scope v_level v_functional v_bin v_nbins v_len v_feat v_weights v_sign v_wq
     v_weights_any v_sign_private level_relevant fun_arg feat_arg binned has_pred w_misshaped weighted iso_functional
     fewer_than_2 is_expectile is_median
     ident_core bias_core marginal_core ctor_core per_obs_core call_core np_average isoreg_core isofit_core skl_fit
     decompose_core plot_rel_core pd_core bin_core bin_opt weights_1d validate_2_arrays validate_same_first_dimension
     first_of seq guard functional_of level_of uses_level is_other is_r2 nonpos len_ne negb andb orb
     d_level d_functional d_bin_method d_n_bins d_n_obs d_n_pred d_n_feat d_n_w d_w_rank d_w_sign d_kind].

Local Ltac prune := cbv beta iota delta [negb andb orb].

Lemma level_bad_if : forall (c : bool) l, level_bad (if c then l else 1 # 2) = if c then level_bad l else false.
Proof. intros c l. destruct c; reflexivity. Qed.

(* turn the comparisons on the level and on n_bins into boolean variables *)
Local Ltac abstract_atoms :=
  unfold_all; rewrite ?outside_unit_level_bad; rewrite ?level_bad_if;
  repeat (match goal with
  | |- context [Qeq_bool ?a ?b] => let q := fresh "q" in generalize (Qeq_bool a b); intro q; destruct q
  end; prune);
  try change (level_bad (1 # 2)) with false; prune;
  repeat match goal with
  | |- context [level_bad ?l] => generalize (level_bad l); intro
  | |- context [(?a <? ?b)%Z] => generalize (a <? b)%Z; intro
  end.

(* one step of case analysis on something the goal still inspects *)
Local Ltac step :=
  match goal with
  | |- context [Nat.eqb ?a ?b] =>
      let E := fresh "E" in
      destruct (Nat.eqb_spec a b) as [E | E]; [try subst | ]; try (exfalso; apply E; reflexivity)
  | |- context [if ?b then _ else _] => is_var b; destruct b
  | |- context [match ?x with _ => _ end] => is_var x; destruct x
  end.
Local Ltac absurd_neq := match goal with H : ?a <> ?a |- _ => exfalso; apply H; reflexivity end.
Local Ltac go fin := prune; first [ absurd_neq | tryif step then go fin else fin ].

Local Ltac finish :=
  first [ split; [ intros _; split; reflexivity | intros _; reflexivity ]
        | split; [ intro; discriminate | intros [? ?]; discriminate ] ].

Local Ltac solve_entry := abstract_atoms; go finish.

Theorem validate_ok_iff : forall e d, validate e d = Ok <-> violates e d = false /\ extra e d = false.
Proof.
  intros e [l f bm nb no np nf nw rk sg k].
  destruct e; solve_entry.
Qed.

Theorem constraint_enforced : forall e d, violates e d = true -> validate e d <> Ok.
Proof.
  intros e d Hv Hok. apply validate_ok_iff in Hok. destruct Hok as [Hv' _].
  rewrite Hv in Hv'. discriminate Hv'.
Qed.

Theorem valid_accepted : forall e d, violates e d = false -> extra e d = false -> validate e d = Ok.
Proof. intros e d Hv Hx. apply validate_ok_iff. split; assumption. Qed.

(* not vacuous: every entry point accepts some descriptor *)
Definition d_valid : descriptor := mkD (3 # 10) Fexpectile BMvalid 3 7 7 (Some 7%nat) (Some 7%nat) R1 AllPos KElementary.
Example valid_exists : forall e, violates e d_valid = false /\ extra e d_valid = false /\ validate e d_valid = Ok.
Proof. intro e. destruct e; vm_compute; repeat split. Qed.
(* ... and rejects some: every clause is violated by some descriptor at some entry point *)
Definition d_bad : descriptor := mkD 1 Fother BMother 1 7 6 (Some 5%nat) (Some 4%nat) R2 HasNeg KPinball.
Example violation_exists :
  v_level E_call d_bad = true /\ v_functional E_bias d_bad = true /\ v_bin E_bias d_bad = true /\
  v_nbins E_bias d_bad = true /\ v_len E_bias d_bad = true /\ v_feat E_bias d_bad = true /\
  v_weights E_bias d_bad = true /\ v_sign E_isoreg d_bad = true /\ v_weights_any E_call d_bad = true /\
  v_wq E_isoreg (mkD (1 # 2) Fquantile BMvalid 3 7 7 None (Some 7%nat) R1 AllPos KSquared) = true.
Proof. vm_compute. repeat split. Qed.

(* ------------------------------------------------------------------ the exception class *)
Local Ltac finish_class :=
  let H1 := fresh in let H2 := fresh in
  intros H1 H2;
  first [ discriminate H1 | discriminate H2
        | left; reflexivity | right; split; reflexivity ].
Local Ltac solve_class := abstract_atoms; go finish_class.

(* Wherever the text says ValueError the model raises ValueError - or NotImplementedError when the call is
   at the same time a weighted quantile / median isotonic regression (isotonic.py 374 precedes the weight checks). *)
Theorem constraint_value_error : forall e d,
  ve_violates e d = true -> in_scope e = true ->
  validate e d = ValueError \/ (v_wq e d = true /\ validate e d = NotImplementedError).
Proof.
  intros e [l f bm nb no np nf nw rk sg k].
  destruct e; solve_class.
Qed.

(* History.  Up to commit 04732ba plot_reliability_diagram had no length check of its own: with a functional
   other than "mean" the arrays reached IsotonicRegression.fit, whose polars DataFrame construction raises
   ShapeError (not a ValueError).  The OLD prelude, kept only to document what the correspondence run found: *)
Definition plot_rel_core_old_04732ba (d : descriptor) : outcome :=
  seq (guard (Nat.eqb (d_n_pred d) 0) ValueError)
  match d_functional d with
  | Fmean => skl_fit (d_n_pred d) (d_n_obs d) (d_n_w d) (d_w_rank d)
  | f => isofit_core (d_n_pred d) (d_n_obs d) f (d_level d) (d_n_w d) (d_w_rank d) (d_w_sign d)
  end.
Lemma plot_reliability_shape_error_old_refuted : forall d,
  d_functional d <> Fmean -> d_n_pred d <> 0%nat -> d_n_obs d <> d_n_pred d ->
  plot_rel_core_old_04732ba d = OtherException ShapeErr /\ validate E_plot_rel d = ValueError.
Proof.
  intros [l f bm nb no np nf nw rk sg k] Hf Hp Hn. simpl in Hf, Hp, Hn.
  unfold plot_rel_core_old_04732ba. unfold_all.
  destruct (Nat.eqb_spec np 0) as [E | E]; [contradiction |].
  destruct (Nat.eqb_spec np no) as [E' | E']; [subst; contradiction |].
  destruct (Nat.eqb_spec no np) as [E'' | E'']; [contradiction |].
  destruct f; try (split; reflexivity). contradiction.
Qed.

(* "(unimplemented weighted quantile regression raises NotImplementedError)" *)
Local Ltac finish_wq :=
  let H1 := fresh in let H2 := fresh in let H3 := fresh in let H4 := fresh in
  intros H1 H2 H3 H4;
  first [ discriminate H1 | discriminate H2 | discriminate H3 | discriminate H4 | reflexivity ].
Local Ltac solve_wq := abstract_atoms; go finish_wq.

Theorem weighted_quantile_not_implemented : forall e d,
  v_wq e d = true -> ve_violates e d = false -> v_weights_any e d = false -> extra e d = false ->
  validate e d = NotImplementedError.
Proof.
  intros e [l f bm nb no np nf nw rk sg k].
  destruct e; try (unfold v_wq, iso_functional; rewrite andb_false_r; intro H; discriminate H).
  all: solve_wq.
Qed.

(* ------------------------------------------------------------------ the clauses in words (Prop level) *)
Theorem level_outside_rejected : forall e d,
  level_relevant e d = true -> ~ (0 < d_level d /\ d_level d < 1) -> validate e d <> Ok.
Proof.
  intros e d Hr Hl. apply constraint_enforced. unfold violates, ve_violates, v_level.
  rewrite Hr. apply outside_unit_spec in Hl. rewrite Hl. reflexivity.
Qed.

Theorem unknown_functional_rejected : forall e d,
  e <> E_ctor -> fun_arg e d = Some Fother -> validate e d <> Ok.
Proof.
  intros e d He Hf. apply constraint_enforced. unfold violates, ve_violates.
  assert (Hv : v_functional e d = true) by (unfold v_functional; rewrite Hf; destruct e; try reflexivity; contradiction).
  rewrite Hv. rewrite orb_true_r. reflexivity.
Qed.

Theorem unknown_bin_method_rejected : forall e d,
  binned e d = true -> d_bin_method d = BMother -> validate e d <> Ok.
Proof.
  intros e d Hb Hm. apply constraint_enforced. unfold violates, ve_violates.
  assert (Hv : v_bin e d = true) by (unfold v_bin; rewrite Hb, Hm; reflexivity).
  rewrite Hv. rewrite !orb_true_r. reflexivity.
Qed.

Theorem few_bins_rejected : forall e d,
  binned e d = true -> (d_n_bins d < 2)%Z -> validate e d <> Ok.
Proof.
  intros e d Hb Hn. apply constraint_enforced. unfold violates, ve_violates.
  assert (Hv : v_nbins e d = true) by (unfold v_nbins; rewrite Hb; apply fewer_than_2_spec in Hn; rewrite Hn; reflexivity).
  rewrite Hv. rewrite !orb_true_r. reflexivity.
Qed.

Theorem length_mismatch_rejected : forall e d,
  has_pred e = true -> d_n_obs d <> d_n_pred d -> validate e d <> Ok.
Proof.
  intros e d Hp Hn. apply constraint_enforced. unfold violates, ve_violates.
  assert (Hv : v_len e d = true) by (unfold v_len; rewrite Hp; apply len_ne_spec in Hn; rewrite Hn; reflexivity).
  rewrite Hv. rewrite !orb_true_r. reflexivity.
Qed.

Theorem feature_length_mismatch_rejected : forall e d k,
  feat_arg e d = Some k -> k <> d_n_obs d -> validate e d <> Ok.
Proof.
  intros e d k Hf Hn. apply constraint_enforced. unfold violates, ve_violates.
  assert (Hv : v_feat e d = true) by (unfold v_feat; rewrite Hf; apply len_ne_spec; exact Hn).
  rewrite Hv. rewrite !orb_true_r. reflexivity.
Qed.

Print Assumptions validate_ok_iff.
Print Assumptions constraint_enforced.
Print Assumptions valid_accepted.
Print Assumptions constraint_value_error.
Print Assumptions plot_reliability_shape_error_old_refuted.
Print Assumptions weighted_quantile_not_implemented.
Print Assumptions level_outside_rejected.
Print Assumptions few_bins_rejected.
