(* Property-level facts about the SPECIFICATIONS of spec/Scores.v.
   y is the observation, z the prediction, h the degree, a the level.
   PART 1: scores are non-negative, zero at perfect forecasts, order-sensitive,
           and out-of-domain pairs are rejected.
   PART 2: homogeneous scores scale with their degree; named special cases. *)
From Coq Require Import Reals Lra Psatz List Bool.
Import ListNotations. Open Scope R_scope.
From MD Require Import lib.NumpyR spec.Scores theory.Powers theory.Bregman.

(* ================================================================== *)
(* PART 1                                                              *)

(* ------------------------------------------------------------------ *)
(* the specifications as instances of the abstract Bregman sections    *)

Lemma breg_D h y z : breg h y z = 2 * D (phi h) (dphi h) y z.
Proof. unfold breg, D. reflexivity. Qed.

Lemma asym_breg_Sa h a y z :
  asym a y z * breg h y z = 2 * Sa (phi h) (dphi h) a y z.
Proof. unfold Sa. rewrite breg_D. ring. Qed.

Lemma hes_D_nonneg h y z :
  domY h y -> domZ h z -> 0 <= phi h y - phi h z - dphi h z * (y - z).
Proof.
  intros Hy Hz. apply breg_core_nonneg. split; assumption.
Qed.

Lemma spec_hes_ok h a y z s :
  spec_hes h a y z = Ok s -> hes_dom h y z /\ s = asym a y z * breg h y z.
Proof.
  unfold spec_hes. destruct (hes_domb h y z) eqn:E; intros H; [| discriminate H].
  split.
  - apply hes_domb_spec. exact E.
  - injection H as H. symmetry. exact H.
Qed.

Lemma spec_hes_in h a y z :
  hes_dom h y z -> spec_hes h a y z = Ok (asym a y z * breg h y z).
Proof.
  intros Hd. unfold spec_hes.
  rewrite (proj2 (hes_domb_spec h y z) Hd). reflexivity.
Qed.

Theorem spec_hes_domain h a y z : spec_hes h a y z = ValueErr <-> ~ hes_dom h y z.
Proof.
  unfold spec_hes. destruct (hes_domb h y z) eqn:E.
  - split.
    + intros H. discriminate H.
    + intros H. exfalso. apply H. apply hes_domb_spec. exact E.
  - split.
    + intros _ Hd. apply hes_domb_spec in Hd. rewrite Hd in E. discriminate E.
    + intros _. reflexivity.
Qed.

Theorem spec_hes_nonneg h a y z s : 0 < a < 1 -> spec_hes h a y z = Ok s -> 0 <= s.
Proof.
  intros Ha H. apply spec_hes_ok in H. destruct H as [[Hy Hz] Hs]. subst s.
  rewrite asym_breg_Sa.
  pose proof (Sa_nonneg (domY h) (domZ h) (phi h) (dphi h) (hes_D_nonneg h)
                a y z Ha Hy Hz) as Hn.
  lra.
Qed.

Theorem spec_hes_zero h a z : hes_dom h z z -> spec_hes h a z z = Ok 0.
Proof.
  intros Hd. rewrite (spec_hes_in h a z z Hd). f_equal.
  rewrite asym_breg_Sa, Sa_zero. ring.
Qed.

Theorem spec_hes_order h a y z1 z2 s1 s2 : 0 < a < 1 -> (y <= z1 <= z2 \/ z2 <= z1 <= y) ->
  spec_hes h a y z1 = Ok s1 -> spec_hes h a y z2 = Ok s2 -> s1 <= s2.
Proof.
  intros Ha Hord H1 H2.
  apply spec_hes_ok in H1. destruct H1 as [[Hy Hz1] Hs1].
  apply spec_hes_ok in H2. destruct H2 as [[_ Hz2] Hs2].
  subst s1 s2. rewrite !asym_breg_Sa.
  pose proof (Sa_order_sensitive (domY h) (domZ h) (phi h) (dphi h)
                (domZ_sub h) (hes_D_nonneg h) (dphi_mono h)
                a y z1 z2 Ha Hy Hz1 Hz2 Hord) as Ho.
  lra.
Qed.

(* ------------------------------------------------------------------ *)
(* quantile-type scores                                                *)

Definition dQ_h (h x : R) : Prop := hqs_whole_line h = true \/ 0 < x.

Lemma Gq_mono_dQ h a b : dQ_h h a -> dQ_h h b -> a <= b -> Gq h a <= Gq h b.
Proof.
  unfold dQ_h. intros Ha Hb Hab. apply Gq_mono; [| exact Hab].
  destruct Ha as [Ha | Ha]; [left; exact Ha |].
  destruct Hb as [Hb | Hb]; [left; exact Hb |].
  right. split; assumption.
Qed.

Lemma hqs_domb_spec h y z : hqs_domb h y z = true <-> hqs_dom h y z.
Proof.
  unfold hqs_domb, hqs_dom.
  rewrite orb_true_iff, andb_true_iff, !Rltb_true. reflexivity.
Qed.

Lemma hqs_dom_dQ h y z : hqs_dom h y z <-> dQ_h h y /\ dQ_h h z.
Proof.
  unfold hqs_dom, dQ_h. split.
  - intros [H | [Hy Hz]].
    + split; left; exact H.
    + split; right; assumption.
  - intros [[Hy | Hy] [Hz | Hz]]; try (left; assumption).
    right. split; assumption.
Qed.

Lemma spec_hqs_Sq h a y z :
  (ge_ind z y - a) * (Gq h z - Gq h y) = Sq (Gq h) a y z.
Proof. unfold Sq. reflexivity. Qed.

Lemma spec_hqs_ok h a y z s :
  spec_hqs h a y z = Ok s -> hqs_dom h y z /\ s = Sq (Gq h) a y z.
Proof.
  unfold spec_hqs. destruct (hqs_domb h y z) eqn:E; intros H; [| discriminate H].
  split.
  - apply hqs_domb_spec. exact E.
  - injection H as H. symmetry. exact H.
Qed.

Lemma spec_hqs_in h a y z :
  hqs_dom h y z -> spec_hqs h a y z = Ok (Sq (Gq h) a y z).
Proof.
  intros Hd. unfold spec_hqs.
  rewrite (proj2 (hqs_domb_spec h y z) Hd). reflexivity.
Qed.

Theorem spec_hqs_domain h a y z : spec_hqs h a y z = ValueErr <-> ~ hqs_dom h y z.
Proof.
  unfold spec_hqs. destruct (hqs_domb h y z) eqn:E.
  - split.
    + intros H. discriminate H.
    + intros H. exfalso. apply H. apply hqs_domb_spec. exact E.
  - split.
    + intros _ Hd. apply hqs_domb_spec in Hd. rewrite Hd in E. discriminate E.
    + intros _. reflexivity.
Qed.

Theorem spec_hqs_nonneg h a y z s : 0 < a < 1 -> spec_hqs h a y z = Ok s -> 0 <= s.
Proof.
  intros Ha H. apply spec_hqs_ok in H. destruct H as [Hd Hs]. subst s.
  apply hqs_dom_dQ in Hd. destruct Hd as [Hy Hz].
  exact (Sq_nonneg (dQ_h h) (Gq h) (Gq_mono_dQ h) a y z Ha Hy Hz).
Qed.

Theorem spec_hqs_zero h a z : hqs_dom h z z -> spec_hqs h a z z = Ok 0.
Proof.
  intros Hd. rewrite (spec_hqs_in h a z z Hd). f_equal. apply Sq_zero.
Qed.

Theorem spec_hqs_order h a y z1 z2 s1 s2 : 0 < a < 1 -> (y <= z1 <= z2 \/ z2 <= z1 <= y) ->
  spec_hqs h a y z1 = Ok s1 -> spec_hqs h a y z2 = Ok s2 -> s1 <= s2.
Proof.
  intros Ha Hord H1 H2.
  apply spec_hqs_ok in H1. destruct H1 as [Hd1 Hs1].
  apply spec_hqs_ok in H2. destruct H2 as [Hd2 Hs2].
  subst s1 s2.
  apply hqs_dom_dQ in Hd1. destruct Hd1 as [Hy Hz1].
  apply hqs_dom_dQ in Hd2. destruct Hd2 as [_ Hz2].
  exact (Sq_order_sensitive (dQ_h h) (Gq h) (Gq_mono_dQ h)
           a y z1 z2 Ha Hy Hz1 Hz2 Hord).
Qed.

(* ------------------------------------------------------------------ *)
(* log loss                                                            *)

Definition llY (y : R) : Prop := 0 <= y <= 1.
Definition llZ (z : R) : Prop := 0 < z < 1.

Lemma llZ_sub x : llZ x -> llY x.
Proof. unfold llZ, llY. intros H. lra. Qed.

Lemma spec_logloss_D y z : spec_logloss y z = D phi_ll dphi_ll y z.
Proof. unfold spec_logloss, D. reflexivity. Qed.

Lemma spec_logloss_Sa y z : spec_logloss y z = Sa phi_ll dphi_ll (1/2) y z.
Proof. unfold Sa. rewrite asym_half, spec_logloss_D. ring. Qed.

Theorem spec_logloss_nonneg y z : 0 <= y <= 1 -> 0 < z < 1 -> 0 <= spec_logloss y z.
Proof.
  intros Hy Hz. unfold spec_logloss. apply ll_nonneg; assumption.
Qed.

Theorem spec_logloss_zero z : 0 < z < 1 -> spec_logloss z z = 0.
Proof.
  intros _. unfold spec_logloss. ring.
Qed.

Theorem spec_logloss_order y z1 z2 : 0 <= y <= 1 -> 0 < z1 < 1 -> 0 < z2 < 1 ->
  (y <= z1 <= z2 \/ z2 <= z1 <= y) -> spec_logloss y z1 <= spec_logloss y z2.
Proof.
  intros Hy Hz1 Hz2 Hord. rewrite !spec_logloss_Sa.
  assert (Hhalf : 0 < 1/2 < 1) by lra.
  exact (Sa_order_sensitive llY llZ phi_ll dphi_ll llZ_sub ll_nonneg dphi_ll_mono
           (1/2) y z1 z2 Hhalf Hy Hz1 Hz2 Hord).
Qed.

(* ================================================================== *)
(* PART 2                                                              *)

(* ------------------------------------------------------------------ *)
(* scaling of the vocabulary by c > 0                                  *)

Lemma scale_pos c x : 0 < c -> 0 < x -> 0 < c * x.
Proof. intros Hc Hx. apply Rmult_lt_0_compat; assumption. Qed.

Lemma Rpower_scale c x h : 0 < c -> 0 < x -> Rpower (c * x) h = Rpower c h * Rpower x h.
Proof. intros Hc Hx. symmetry. apply Rpower_mult_distr; assumption. Qed.

Lemma Rpower_succ c h : 0 < c -> Rpower c (h - 1) * c = Rpower c h.
Proof.
  intros Hc. rewrite (Rpower_pred c h Hc). field. lra.
Qed.

Lemma ge_ind_scale c y z : 0 < c -> ge_ind (c * z) (c * y) = ge_ind z y.
Proof.
  intros Hc. destruct (Rle_dec y z) as [H | H].
  - rewrite (ge_ind_ge z y H). apply ge_ind_ge.
    apply Rmult_le_compat_l; lra.
  - assert (H' : z < y) by lra.
    rewrite (ge_ind_lt z y H'). apply ge_ind_lt.
    apply Rmult_lt_compat_l; assumption.
Qed.

Lemma asym_scale a c y z : 0 < c -> asym a (c * y) (c * z) = asym a y z.
Proof. intros Hc. unfold asym. rewrite (ge_ind_scale c y z Hc). reflexivity. Qed.

Lemma np_sign_scale c x : 0 < c -> np_sign (c * x) = np_sign x.
Proof.
  intros Hc.
  destruct (Rtotal_order x 0) as [Hx | [Hx | Hx]].
  - rewrite (np_sign_neg x Hx). apply np_sign_neg.
    assert (H : 0 < c * (- x)) by (apply scale_pos; lra). lra.
  - subst x. rewrite Rmult_0_r. reflexivity.
  - rewrite (np_sign_pos x Hx). apply np_sign_pos. apply scale_pos; assumption.
Qed.

Lemma pw_scale_pos c x h : 0 < c -> 0 < x -> pw (c * x) h = Rpower c h * pw x h.
Proof.
  intros Hc Hx.
  rewrite (pw_pos (c * x) h (scale_pos c x Hc Hx)), (pw_pos x h Hx).
  apply Rpower_scale; assumption.
Qed.

Lemma pw_scale_0 c h : h <> 0 -> pw (c * 0) h = Rpower c h * pw 0 h.
Proof.
  intros Hh. rewrite Rmult_0_r, (pw_0 h Hh). ring.
Qed.

Lemma pw_abs_scale c x h : 0 < c -> h <> 0 ->
  pw (Rabs (c * x)) h = Rpower c h * pw (Rabs x) h.
Proof.
  intros Hc Hh. rewrite Rabs_mult, (Rabs_pos_eq c) by lra.
  destruct (Rabs_pos x) as [Hx | Hx].
  - apply pw_scale_pos; assumption.
  - rewrite <- Hx. apply pw_scale_0. exact Hh.
Qed.

Lemma spw_scale c x h : 0 < c -> h <> 0 -> spw h (c * x) = Rpower c h * spw h x.
Proof.
  intros Hc Hh. unfold spw.
  rewrite (np_sign_scale c x Hc), (pw_abs_scale c x h Hc Hh). ring.
Qed.

(* ------------------------------------------------------------------ *)
(* the domains are cones                                               *)

Lemma domZ_scale h c z : 0 < c -> domZ h z -> domZ h (c * z).
Proof.
  intros Hc. unfold domZ.
  destruct (hrange_of h); intros H; try exact I; apply scale_pos; assumption.
Qed.

Lemma nonneg_scale c y : 0 < c -> 0 <= y -> 0 <= c * y.
Proof. intros Hc Hy. apply Rmult_le_pos; lra. Qed.

Lemma domY_scale h c y : 0 < c -> domY h y -> domY h (c * y).
Proof.
  intros Hc. unfold domY.
  destruct (hrange_of h); intros H.
  - exact I.
  - apply nonneg_scale; assumption.
  - apply scale_pos; assumption.
  - destruct (Rltb 0 h).
    + apply nonneg_scale; assumption.
    + apply scale_pos; assumption.
Qed.

Lemma hes_dom_scale h c y z : 0 < c -> hes_dom h y z -> hes_dom h (c * y) (c * z).
Proof.
  intros Hc [Hy Hz]. split; [apply domY_scale | apply domZ_scale]; assumption.
Qed.

Lemma hqs_dom_scale h c y z : 0 < c -> hqs_dom h y z -> hqs_dom h (c * y) (c * z).
Proof.
  intros Hc [H | [Hy Hz]].
  - left. exact H.
  - right. split; apply scale_pos; assumption.
Qed.

(* ------------------------------------------------------------------ *)
(* breg is homogeneous of degree h on its domain                       *)

Lemma breg_scale h c y z : 0 < c -> hes_dom h y z ->
  breg h (c * y) (c * z) = Rpower c h * breg h y z.
Proof.
  intros Hc. unfold hes_dom, domY, domZ, breg, phi, dphi.
  assert (Hc0 : c <> 0) by lra.
  destruct (hrange_cases h) as [[Hh E] | [[Hh E] | [[Hh E] | [Hh [Hh0 E]]]]];
    rewrite E; intros [HY HZ].
  - (* h > 1 *)
    assert (Hh0 : h <> 0) by lra.
    assert (Hh1 : h - 1 <> 0) by lra.
    rewrite (pw_abs_scale c y h Hc Hh0), (pw_abs_scale c z h Hc Hh0),
            (pw_abs_scale c z (h - 1) Hc Hh1), (np_sign_scale c z Hc).
    rewrite <- (Rpower_succ c h Hc).
    timeout 60 field. lra.
  - (* h = 1 *)
    subst h. rewrite (Rpower_1 c Hc).
    assert (Hcz : 0 < c * z) by (apply scale_pos; assumption).
    rewrite (xlogy_nz (c * z) (c * z)), (xlogy_nz z z) by lra.
    rewrite (ln_mult c z Hc HZ).
    destruct HY as [HY | HY].
    + assert (Hcy : 0 < c * y) by (apply scale_pos; assumption).
      rewrite (xlogy_nz (c * y) (c * y)), (xlogy_nz y y) by lra.
      rewrite (ln_mult c y Hc HY). ring.
    + subst y. rewrite Rmult_0_r, xlogy_0. ring.
  - (* h = 0 *)
    subst h. rewrite (Rpower_O c Hc).
    rewrite (ln_mult c y Hc HY), (ln_mult c z Hc HZ).
    timeout 60 field. lra.
  - (* h < 1, h <> 0 *)
    assert (Hh1 : h - 1 <> 0) by lra.
    rewrite (pw_scale_pos c z h Hc HZ), (pw_scale_pos c z (h - 1) Hc HZ).
    assert (HY' : 0 < y \/ y = 0).
    { destruct (Rltb 0 h); [| left; exact HY].
      destruct HY as [HY | HY]; [left; exact HY | right; symmetry; exact HY]. }
    destruct HY' as [HY' | HY'].
    + rewrite (pw_scale_pos c y h Hc HY').
      rewrite <- (Rpower_succ c h Hc).
      timeout 60 field. lra.
    + subst y. rewrite (pw_scale_0 c h Hh0).
      rewrite <- (Rpower_succ c h Hc).
      timeout 60 field. lra.
Qed.

Theorem spec_hes_homogeneous h a y z c s : 0 < c -> spec_hes h a y z = Ok s ->
  spec_hes h a (c * y) (c * z) = Ok (Rpower c h * s).
Proof.
  intros Hc H. apply spec_hes_ok in H. destruct H as [Hd Hs]. subst s.
  rewrite (spec_hes_in h a (c * y) (c * z) (hes_dom_scale h c y z Hc Hd)).
  f_equal.
  rewrite (asym_scale a c y z Hc), (breg_scale h c y z Hc Hd). ring.
Qed.

(* ------------------------------------------------------------------ *)
(* increments of Gq are homogeneous of degree h on the domain          *)

Lemma Gq_scale h c y z : 0 < c -> hqs_dom h y z ->
  Gq h (c * z) - Gq h (c * y) = Rpower c h * (Gq h z - Gq h y).
Proof.
  intros Hc. unfold hqs_dom, hqs_whole_line, Gq. intros Hdom.
  destruct (Reqb h 1) eqn:E1; [apply Reqb_true in E1 | apply Reqb_false in E1].
  - subst h. rewrite (Rpower_1 c Hc). ring.
  - destruct (odd_gt1 h) eqn:E2.
    + unfold odd_gt1 in E2. apply andb_true_iff in E2. destruct E2 as [Hh Hm].
      apply Rltb_true in Hh. apply Reqb_true in Hm.
      assert (Hh0 : h <> 0) by lra.
      rewrite !(np_power_odd _ h Hm Hh0).
      rewrite (spw_scale c z h Hc Hh0), (spw_scale c y h Hc Hh0).
      timeout 60 field. exact Hh0.
    + simpl in Hdom. destruct Hdom as [Hdom | [Hy Hz]]; [discriminate Hdom |].
      destruct (Reqb h 0) eqn:E3; [apply Reqb_true in E3 | apply Reqb_false in E3].
      * subst h. rewrite (Rpower_O c Hc).
        rewrite (ln_mult c y Hc Hy), (ln_mult c z Hc Hz). ring.
      * rewrite (np_power_pos (c * z) h (scale_pos c z Hc Hz)),
                (np_power_pos (c * y) h (scale_pos c y Hc Hy)),
                (np_power_pos z h Hz), (np_power_pos y h Hy).
        rewrite (Rpower_scale c z h Hc Hz), (Rpower_scale c y h Hc Hy).
        timeout 60 field. exact E3.
Qed.

Theorem spec_hqs_homogeneous h a y z c s : 0 < c -> spec_hqs h a y z = Ok s ->
  spec_hqs h a (c * y) (c * z) = Ok (Rpower c h * s).
Proof.
  intros Hc H. apply spec_hqs_ok in H. destruct H as [Hd Hs]. subst s.
  rewrite (spec_hqs_in h a (c * y) (c * z) (hqs_dom_scale h c y z Hc Hd)).
  f_equal. unfold Sq.
  rewrite (ge_ind_scale c y z Hc), (Gq_scale h c y z Hc Hd). ring.
Qed.

(* ------------------------------------------------------------------ *)
(* named special cases, as closed forms of the specification           *)

Lemma hrange_2 : hrange_of 2 = Hgt1.
Proof.
  destruct (hrange_cases 2) as [[_ E] | [[H _] | [[H _] | [H _]]]];
    [exact E | lra | lra | lra].
Qed.

Lemma hrange_1 : hrange_of 1 = Heq1.
Proof.
  destruct (hrange_cases 1) as [[H _] | [[_ E] | [[H _] | [H _]]]];
    [lra | exact E | lra | lra].
Qed.

Lemma hrange_0 : hrange_of 0 = Heq0.
Proof.
  destruct (hrange_cases 0) as [[H _] | [[H _] | [[_ E] | [_ [H _]]]]];
    [lra | lra | exact E | lra].
Qed.

Lemma Rpower_2 x : 0 < x -> Rpower x 2 = x * x.
Proof.
  intros Hx. replace 2 with (1 + 1) by lra.
  rewrite Rpower_plus, (Rpower_1 x Hx). reflexivity.
Qed.

Lemma pw_abs_2 x : pw (Rabs x) 2 = x * x.
Proof.
  destruct (Rtotal_order x 0) as [Hx | [Hx | Hx]].
  - rewrite (Rabs_left x Hx), pw_pos, Rpower_2 by lra. ring.
  - subst x. rewrite Rabs_R0, pw_0 by lra. ring.
  - rewrite (Rabs_pos_eq x), pw_pos, Rpower_2 by lra. ring.
Qed.

Lemma spw_1 x : np_sign x * pw (Rabs x) 1 = x.
Proof.
  change (spw 1 x = x).
  destruct (Rtotal_order x 0) as [Hx | [Hx | Hx]].
  - rewrite (spw_neg 1 x Hx), Rpower_1 by lra. ring.
  - subst x. apply spw_0.
  - rewrite (spw_pos 1 x Hx). apply Rpower_1. exact Hx.
Qed.

(* level 1/2: the symmetric score *)
Theorem spec_hes_half h y z :
  spec_hes h (1/2) y z = (if hes_domb h y z then Ok (breg h y z) else ValueErr).
Proof.
  unfold spec_hes. destruct (hes_domb h y z); [| reflexivity].
  f_equal. rewrite asym_half. ring.
Qed.

Theorem spec_squared_error y z : spec_hes 2 (1/2) y z = Ok ((y - z) * (y - z)).
Proof.
  rewrite spec_hes_half. unfold hes_domb, breg, phi, dphi. rewrite hrange_2.
  f_equal.
  replace (2 - 1) with 1 by lra.
  rewrite (pw_abs_2 y), (pw_abs_2 z), (spw_1 z).
  field.
Qed.

Theorem spec_poisson y z : 0 <= y -> 0 < z ->
  spec_hes 1 (1/2) y z = Ok (2 * (xlogy y (y / z) - y + z)).
Proof.
  intros Hy Hz. rewrite spec_hes_half.
  assert (Hd : hes_dom 1 y z).
  { unfold hes_dom, domY, domZ. rewrite hrange_1. split; assumption. }
  rewrite (proj2 (hes_domb_spec 1 y z) Hd).
  f_equal. unfold breg, phi, dphi. rewrite hrange_1.
  rewrite (xlogy_nz z z) by lra.
  destruct Hy as [Hy | Hy].
  - assert (Hiz : 0 < / z) by (apply Rinv_0_lt_compat; exact Hz).
    rewrite (xlogy_nz y y), (xlogy_nz y (y / z)) by lra.
    unfold Rdiv. rewrite (ln_mult y (/ z) Hy Hiz), (ln_Rinv z Hz). ring.
  - subst y. rewrite !xlogy_0. ring.
Qed.

Theorem spec_gamma y z : 0 < y -> 0 < z ->
  spec_hes 0 (1/2) y z = Ok (2 * (y / z - ln (y / z) - 1)).
Proof.
  intros Hy Hz. rewrite spec_hes_half.
  assert (Hd : hes_dom 0 y z).
  { unfold hes_dom, domY, domZ. rewrite hrange_0. split; assumption. }
  rewrite (proj2 (hes_domb_spec 0 y z) Hd).
  f_equal. unfold breg, phi, dphi. rewrite hrange_0.
  assert (Hiz : 0 < / z) by (apply Rinv_0_lt_compat; exact Hz).
  unfold Rdiv. rewrite (ln_mult y (/ z) Hy Hiz), (ln_Rinv z Hz).
  field. lra.
Qed.

Theorem spec_pinball a y z : spec_hqs 1 a y z = Ok ((ge_ind z y - a) * (z - y)).
Proof.
  assert (E : Reqb 1 1 = true) by (apply Reqb_true; reflexivity).
  unfold spec_hqs, hqs_domb, hqs_whole_line, Gq. rewrite E. simpl. reflexivity.
Qed.

Theorem spec_hqs_half h y z s :
  spec_hqs h (1/2) y z = Ok s -> s = 1/2 * Rabs (Gq h z - Gq h y).
Proof.
  intros H. apply spec_hqs_ok in H. destruct H as [Hd Hs]. subst s.
  apply hqs_dom_dQ in Hd. destruct Hd as [Hy Hz].
  exact (Sq_half (dQ_h h) (Gq h) (Gq_mono_dQ h) y z Hy Hz).
Qed.

Print Assumptions spec_hes_order.
Print Assumptions spec_hes_homogeneous.
Print Assumptions spec_hqs_homogeneous.
