(* Theorems about model/PartialDep.v (compute_partial_dependence), for every row-wise
   predictor f : list Q -> Q, matrices / grids / weights / index vectors of any length.
   World Q, no axioms. *)
From Coq Require Import ZArith QArith Qreduction Lqa Lia List Bool.
Import ListNotations.
Open Scope Q_scope.
From MD Require Import lib.QLists model.PartialDep.

(* ------------------------------------------------------------------ lists *)
Lemma map_repeat_ {A B} (h : A -> B) x n : map h (repeat x n) = repeat (h x) n.
Proof. induction n as [|n IH]; simpl; [reflexivity| now rewrite IH]. Qed.

Lemma map_nth_seq {A} (l : list A) d : map (fun i => nth i l d) (seq 0 (length l)) = l.
Proof.
  induction l as [|a l IH]; simpl; [reflexivity|]. f_equal.
  rewrite <- seq_shift, map_map. exact IH.
Qed.

Lemma combine_app_ {A B} (a c : list A) (b d : list B) :
  length a = length b -> combine (a ++ c) (b ++ d) = combine a b ++ combine c d.
Proof.
  revert b. induction a as [|x a IH]; intros [|y b] H; simpl in *; try discriminate; [reflexivity|].
  f_equal. apply IH. lia.
Qed.

Lemma combine_repeat {A B} (l : list A) (v : B) :
  combine l (repeat v (length l)) = map (fun r => (r, v)) l.
Proof. induction l as [|a l IH]; simpl; [reflexivity| now rewrite IH]. Qed.

Lemma map_flat_map {A B C} (h : B -> C) (g : A -> list B) l :
  map h (flat_map g l) = flat_map (fun x => map h (g x)) l.
Proof. induction l as [|a l IH]; simpl; [reflexivity| now rewrite map_app, IH]. Qed.

Lemma flat_map_ext_ {A B} (g h : A -> list B) l :
  (forall x, g x = h x) -> flat_map g l = flat_map h l.
Proof. intros E. induction l as [|a l IH]; simpl; [reflexivity| now rewrite E, IH]. Qed.

Lemma flat_map_length_const {A B} (g : A -> list B) n l :
  (forall x, length (g x) = n) -> length (flat_map g l) = (length l * n)%nat.
Proof. intros E. induction l as [|a l IH]; simpl; [reflexivity| rewrite app_length, E, IH; lia]. Qed.

Lemma nth_flat_map_const {A B} (g : A -> list B) n l a k dA dB :
  (forall x, length (g x) = n) -> (a < length l)%nat -> (k < n)%nat ->
  nth (a * n + k) (flat_map g l) dB = nth k (g (nth a l dA)) dB.
Proof.
  intros E. revert a. induction l as [|x l IH]; intros a Ha Hk; simpl in *; [lia|].
  destruct a as [|a].
  - simpl. rewrite app_nth1; [reflexivity| rewrite E; exact Hk].
  - rewrite app_nth2; rewrite E; [|lia].
    replace (S a * n + k - n)%nat with (a * n + k)%nat by lia.
    apply IH; [lia| exact Hk].
Qed.

(* --------------------------------------------------- index arithmetic l.77-78 *)
Lemma tile_rows Xs m : index_rows Xs (tile_idx (length Xs) m) = concat (repeat Xs m).
Proof.
  unfold index_rows, tile_idx. rewrite concat_map, map_repeat_, map_nth_seq. reflexivity.
Qed.

Lemma repeat_grid grid n :
  index_q grid (repeat_idx (length grid) n) = flat_map (fun v => repeat v n) grid.
Proof.
  unfold index_q, repeat_idx. rewrite map_flat_map.
  assert (H : flat_map (fun x => map (fun i => nth i grid 0) (repeat x n)) (seq 0 (length grid))
              = flat_map (fun v => repeat v n) (map (fun i => nth i grid 0) (seq 0 (length grid)))).
  { rewrite !flat_map_concat_map, map_map. apply f_equal. apply map_ext. intros a. exact (map_repeat_ (fun i => nth i grid 0) a n). }
  rewrite H, map_nth_seq. reflexivity.
Qed.

Lemma combine_tile (Xs : matrix) (grid : list Q) :
  combine (concat (repeat Xs (length grid))) (flat_map (fun v => repeat v (length Xs)) grid)
  = flat_map (fun v => map (fun r => (r, v)) Xs) grid.
Proof.
  induction grid as [|v grid IH]; simpl; [reflexivity|].
  rewrite combine_app_ by (now rewrite repeat_length).
  rewrite combine_repeat, IH. reflexivity.
Qed.

(* the stacked matrix is, block by block, the rows with column j := (cast of) the grid value *)
Lemma stacked_rows_flat ct Xs j grid :
  stacked_rows ct Xs j grid = flat_map (fun g => map (set_col j (cast ct g)) Xs) grid.
Proof.
  unfold stacked_rows. rewrite tile_rows, repeat_grid, combine_tile, map_flat_map.
  apply flat_map_ext_. intros g. rewrite map_map. reflexivity.
Qed.

Lemma firstn_app_exact {A} (a b : list A) n : length a = n -> firstn n (a ++ b) = a.
Proof. intros H; subst n. induction a as [|x a IH]; simpl; [now destruct b| now rewrite IH]. Qed.
Lemma skipn_app_exact {A} (a b : list A) n : length a = n -> skipn n (a ++ b) = b.
Proof. intros H; subst n. induction a as [|x a IH]; simpl; [reflexivity| exact IH]. Qed.

Lemma reshape_flat (blk : Q -> list Q) n grid :
  (forall g, length (blk g) = n) -> reshape (length grid) n (flat_map blk grid) = map blk grid.
Proof.
  intros E. induction grid as [|g grid IH]; simpl; [reflexivity|].
  rewrite (firstn_app_exact _ _ n (E g)), (skipn_app_exact _ _ n (E g)), IH. reflexivity.
Qed.

Lemma reshape_length m c l : length (reshape m c l) = m.
Proof. revert l. induction m as [|m IH]; intros l; simpl; [reflexivity| now rewrite IH]. Qed.

(* ------------------------------------------------------------- set_col *)
Lemma set_col_length j v r : length (set_col j v r) = length r.
Proof. revert j. induction r as [|x r IH]; intros [|j]; simpl; try reflexivity. now rewrite IH. Qed.

Lemma set_col_other j v r c d : c <> j -> nth c (set_col j v r) d = nth c r d.
Proof.
  revert j c. induction r as [|x r IH]; intros [|j] [|c] H; simpl; try reflexivity; try congruence.
  apply IH. congruence.
Qed.

Lemma set_col_same j v r d : (j < length r)%nat -> nth j (set_col j v r) d = v.
Proof.
  revert j. induction r as [|x r IH]; intros [|j] H; simpl in *; try lia; [reflexivity|].
  apply IH. lia.
Qed.

(* ------------------------------------------------------------- averages *)
Lemma dot_wsum vals w : length w = length vals -> dot w vals == wsum (combine vals w).
Proof.
  revert w. induction vals as [|y vals IH]; intros [|x w] H; simpl in *; try discriminate; try reflexivity.
  unfold ew, ey; simpl. rewrite IH by lia. reflexivity.
Qed.
Lemma qsum_wtot vals w : length w = length vals -> qsum w == wtot (combine vals w).
Proof.
  revert w. induction vals as [|y vals IH]; intros [|x w] H; simpl in *; try discriminate; try reflexivity.
  unfold ew; simpl. rewrite IH by lia. reflexivity.
Qed.
Lemma qsum_wsum_ones vals : qsum vals == wsum (combine vals (repeat 1 (length vals))).
Proof.
  induction vals as [|y vals IH]; simpl; [reflexivity|]. unfold ew, ey; simpl. rewrite <- IH. ring.
Qed.
Lemma len_wtot_ones vals :
  inject_Z (Z.of_nat (length vals)) == wtot (combine vals (repeat 1 (length vals))).
Proof.
  induction vals as [|y vals IH]; [reflexivity|].
  change (length (y :: vals)) with (S (length vals)).
  rewrite Nat2Z.inj_succ. unfold Z.succ. rewrite inject_Z_plus.
  simpl repeat. simpl combine. simpl wtot. unfold ew; simpl fst; simpl snd.
  rewrite <- IH. ring.
Qed.

(* np.average of one block = the definitional weighted mean of (prediction, weight) pairs *)
Lemma average_wmean_some vals w :
  length w = length vals -> average vals (Some w) = wmean (combine vals w).
Proof.
  intros H. unfold average, wmean. apply Qred_complete.
  rewrite (dot_wsum vals w H), (qsum_wtot vals w H). reflexivity.
Qed.
Lemma average_wmean_none vals :
  average vals None = wmean (combine vals (repeat 1 (length vals))).
Proof.
  unfold average, wmean. apply Qred_complete.
  rewrite <- (qsum_wsum_ones vals), <- (len_wtot_ones vals). reflexivity.
Qed.

(* ------------------------------------------- the core: stacked = definitional *)
Definition weights_usable (n : nat) (ws : option (list Q)) : Prop :=
  match ws with None => True | Some w => length w = n /\ ~ qsum w == 0 end.

Lemma blocks_eq f ct Xs j grid :
  grid <> [] ->
  reshape (length grid) (length (map f (stacked_rows ct Xs j grid)) / length grid)
          (map f (stacked_rows ct Xs j grid))
  = map (fun g => map (fun r => f (set_col j (cast ct g) r)) Xs) grid.
Proof.
  intros Hg. rewrite stacked_rows_flat, map_flat_map.
  assert (E : forall g, length (map f (map (set_col j (cast ct g)) Xs)) = length Xs)
    by (intros g; now rewrite !map_length).
  rewrite (flat_map_length_const _ (length Xs) grid E).
  assert (Hm : length grid <> 0%nat) by (destruct grid; simpl; [congruence| lia]).
  rewrite (Nat.mul_comm (length grid)), Nat.div_mul by exact Hm.
  rewrite (reshape_flat _ (length Xs) grid E).
  apply map_ext. intros g. now rewrite map_map.
Qed.

Lemma pd_core_eq_def f ct Xs j grid ws :
  Xs <> [] -> grid <> [] -> col_in_range j Xs = true -> weights_usable (length Xs) ws ->
  pd_core f ct Xs j grid ws = PDOk (pd_def f Xs j (map (cast ct) grid) ws).
Proof.
  intros HX Hg Hc Hw. unfold pd_core.
  destruct (Nat.eqb_spec (length Xs) 0) as [E|_]; [destruct Xs; simpl in E; [congruence| lia]|].
  rewrite Hc. simpl negb. cbv iota.
  destruct (Nat.eqb_spec (length grid) 0) as [E|_]; [destruct grid; simpl in E; [congruence| lia]|].
  rewrite (blocks_eq f ct Xs j grid Hg). unfold pd_def.
  destruct ws as [w|].
  - destruct Hw as [Hl Hs]. rewrite Hl, Nat.eqb_refl. simpl negb. cbv iota.
    destruct (Qeq_bool (qsum w) 0) eqn:Eq; [apply Qeq_bool_iff in Eq; contradiction|].
    apply f_equal. rewrite !map_map. apply map_ext. intros g.
    apply average_wmean_some. now rewrite map_length.
  - apply f_equal. rewrite !map_map. apply map_ext. intros g.
    rewrite average_wmean_none. now rewrite map_length.
Qed.

(* ------------------------------------------------ hypotheses of the main theorem *)
Definition rows_of_width (p : nat) (X : matrix) : Prop := Forall (fun r => length r = p) X.

(* Generator.choice(n, size=n_max, replace=False): n_max indices below n *)
Definition oracle_ok (n0 : nat) (n_max : option nat) (idx : list nat) : Prop :=
  match subsampling n0 n_max with
  | Some k => length idx = k /\ Forall (fun i => (i < n0)%nat) idx
  | None => True
  end.

(* one weight per row of X, and the weights that are used do not sum to zero *)
Definition weights_ok (n0 : nat) (w : option (list Q)) (n_max : option nat) (idx : list nat) : Prop :=
  match w with
  | None => True
  | Some ws => length ws = n0 /\
      match sample_weights n0 w n_max idx with Some u => ~ qsum u == 0 | None => True end
  end.

Lemma idx_in_range_true len idx : Forall (fun i => (i < len)%nat) idx -> idx_in_range len idx = true.
Proof.
  intros H. unfold idx_in_range. apply forallb_forall. intros i Hi.
  rewrite Forall_forall in H. apply Nat.ltb_lt. now apply H.
Qed.

Lemma col_in_range_width p j X : rows_of_width p X -> (j < p)%nat -> col_in_range j X = true.
Proof.
  intros H Hj. unfold col_in_range. apply forallb_forall. intros r Hr.
  unfold rows_of_width in H. rewrite Forall_forall in H. apply Nat.ltb_lt. rewrite (H r Hr). exact Hj.
Qed.

Lemma index_rows_width p X idx :
  rows_of_width p X -> Forall (fun i => (i < length X)%nat) idx -> rows_of_width p (index_rows X idx).
Proof.
  intros H Hi. unfold rows_of_width, index_rows in *. rewrite Forall_forall in *.
  intros r Hr. apply in_map_iff in Hr. destruct Hr as [i [Er Hin]]. subst r.
  apply H. apply nth_In. now apply Hi.
Qed.

(* compute_pd is pd_core on the sampled rows and weights *)
Lemma compute_pd_core f ct X j grid w n_max idx :
  oracle_ok (length X) n_max idx ->
  match w with Some ws => length ws = length X | None => True end ->
  compute_pd f ct X j grid w n_max idx
  = pd_core f ct (sample_rows X n_max idx) j grid (sample_weights (length X) w n_max idx).
Proof.
  intros Ho Hw. unfold compute_pd, sample_rows, sample_weights, oracle_ok in *.
  destruct (subsampling (length X) n_max) as [k|]; [|reflexivity].
  destruct Ho as [Hl Hr]. rewrite Hl, Nat.eqb_refl, (idx_in_range_true _ _ Hr). simpl.
  destruct w as [ws|]; [|reflexivity].
  rewrite Hw, (idx_in_range_true _ _ Hr). reflexivity.
Qed.

(* ===================================================================== *)
(* MAIN: for every storage type, the value the code returns is the definitional partial
   dependence at the CAST grid values, over the sampled rows and the sampled weights *)
Theorem pd_stacked_eq_def_cast : forall (f : row -> Q) ct X p j grid w n_max idx,
  rows_of_width p X -> (j < p)%nat -> grid <> [] ->
  sample_rows X n_max idx <> [] ->
  oracle_ok (length X) n_max idx ->
  weights_ok (length X) w n_max idx ->
  compute_pd f ct X j grid w n_max idx
  = PDOk (pd_def f (sample_rows X n_max idx) j (map (cast ct) grid)
                 (sample_weights (length X) w n_max idx)).
Proof.
  intros f ct X p j grid w n_max idx HX Hj Hg Hne Ho Hw.
  rewrite compute_pd_core; [| exact Ho | destruct w; [apply Hw| exact I]].
  apply pd_core_eq_def; [exact Hne| exact Hg| |].
  - apply (col_in_range_width p); [| exact Hj].
    unfold sample_rows, oracle_ok in *. destruct (subsampling (length X) n_max); [| exact HX].
    apply index_rows_width; [exact HX| apply Ho].
  - unfold weights_usable, weights_ok, sample_weights, sample_rows, oracle_ok in *.
    destruct w as [ws|].
    + destruct Hw as [Hl Hs]. destruct (subsampling (length X) n_max) as [k|]; simpl in *.
      * split; [| exact Hs]. unfold index_q, index_rows. now rewrite !map_length.
      * split; [exact Hl| exact Hs].
    + destruct (subsampling (length X) n_max); simpl; exact I.
Qed.

(* the grid values survive the assignment: float column, or integer-valued grid *)
Definition grid_representable (ct : coltype) (grid : list Q) : Prop :=
  Forall (fun g => cast ct g = g) grid.

Lemma grid_representable_float grid : grid_representable CFloat grid.
Proof. unfold grid_representable. apply Forall_forall. intros g _. reflexivity. Qed.

Lemma grid_representable_int zs : grid_representable CInt (map inject_Z zs).
Proof.
  unfold grid_representable. apply Forall_forall. intros g Hg.
  apply in_map_iff in Hg. destruct Hg as [z [E _]]. subst g.
  unfold cast, qtrunc, inject_Z. simpl. now rewrite Z.quot_1_r.
Qed.

Lemma map_cast_id ct grid : grid_representable ct grid -> map (cast ct) grid = grid.
Proof.
  intros H. induction grid as [|g grid IH]; simpl; [reflexivity|].
  inversion H as [|g' grid' Hg Hrest]; subst. now rewrite Hg, IH.
Qed.

(* C16, clause "each returned value is the weighted average prediction over the
   (sub)sampled rows with the feature column overwritten by the grid value" *)
Theorem pd_stacked_eq_def : forall (f : row -> Q) ct X p j grid w n_max idx,
  grid_representable ct grid ->
  rows_of_width p X -> (j < p)%nat -> grid <> [] ->
  sample_rows X n_max idx <> [] ->
  oracle_ok (length X) n_max idx ->
  weights_ok (length X) w n_max idx ->
  compute_pd f ct X j grid w n_max idx
  = PDOk (pd_def f (sample_rows X n_max idx) j grid (sample_weights (length X) w n_max idx)).
Proof.
  intros f ct X p j grid w n_max idx Hrep HX Hj Hg Hne Ho Hw.
  rewrite (pd_stacked_eq_def_cast f ct X p j grid w n_max idx HX Hj Hg Hne Ho Hw).
  now rewrite (map_cast_id ct grid Hrep).
Qed.

Corollary pd_stacked_eq_def_float : forall (f : row -> Q) X p j grid w n_max idx,
  rows_of_width p X -> (j < p)%nat -> grid <> [] ->
  sample_rows X n_max idx <> [] ->
  oracle_ok (length X) n_max idx ->
  weights_ok (length X) w n_max idx ->
  compute_pd f CFloat X j grid w n_max idx
  = PDOk (pd_def f (sample_rows X n_max idx) j grid (sample_weights (length X) w n_max idx)).
Proof. intros. eapply pd_stacked_eq_def; eauto using grid_representable_float. Qed.

(* WITHOUT the guard the statement is false for the code as it is: integer column, grid
   [1/2; 3/2], predictor = row sum.  Code (and model): [15; 16]; definition: [31/2; 33/2]. *)
Definition rowsum (r : row) : Q := Qred (qsum r).
Theorem pd_int_column_refuted :
  let X := [[1; 10]; [2; 20]] in
  let grid := [1 # 2; 3 # 2] in
  compute_pd rowsum CInt X 0 grid None None [] = PDOk [15; 16] /\
  pd_def rowsum X 0 grid None = [31 # 2; 33 # 2] /\
  compute_pd rowsum CFloat X 0 grid None None [] = PDOk [31 # 2; 33 # 2].
Proof. vm_compute. repeat split. Qed.

(* ===================================================================== *)
(* the matrix handed to the predictor: shape, and what each of its rows is *)
Theorem pd_pred_input_length : forall ct X j grid n_max idx,
  length (pred_input ct X j grid n_max idx)
  = (length grid * length (sample_rows X n_max idx))%nat.
Proof.
  intros. unfold pred_input. rewrite stacked_rows_flat.
  apply flat_map_length_const. intros g. now rewrite map_length.
Qed.

Lemma pred_input_row ct X j grid n_max idx g k :
  (g < length grid)%nat -> (k < length (sample_rows X n_max idx))%nat ->
  nth (g * length (sample_rows X n_max idx) + k) (pred_input ct X j grid n_max idx) []
  = set_col j (cast ct (nth g grid 0)) (nth k (sample_rows X n_max idx) []).
Proof.
  intros Hg Hk. unfold pred_input. rewrite stacked_rows_flat.
  rewrite (@nth_flat_map_const Q row
             (fun g0 : Q => map (set_col j (cast ct g0)) (sample_rows X n_max idx))
             (length (sample_rows X n_max idx)) grid g k 0 (@nil Q));
    [| intros x; now rewrite map_length | exact Hg | exact Hk].
  set (h := set_col j (cast ct (nth g grid 0))).
  assert (E : [] = h []) by (unfold h; destruct j; reflexivity).
  rewrite E at 1. apply map_nth.
Qed.

(* C16, clause "all other columns untouched": row g*n+k of the matrix the predictor sees is
   sampled row k, same length, equal in every column c <> j, and holds the (cast) grid value
   g in column j *)
Theorem pd_other_columns_untouched : forall ct X j grid n_max idx g k c,
  (g < length grid)%nat -> (k < length (sample_rows X n_max idx))%nat ->
  let Xs := sample_rows X n_max idx in
  let r := nth (g * length Xs + k) (pred_input ct X j grid n_max idx) [] in
  length r = length (nth k Xs []) /\
  (c <> j -> nth c r 0 = nth c (nth k Xs []) 0) /\
  ((j < length (nth k Xs []))%nat -> nth j r 0 = cast ct (nth g grid 0)).
Proof.
  intros ct X j grid n_max idx g k c Hg Hk Xs r. unfold r, Xs.
  rewrite (pred_input_row ct X j grid n_max idx g k Hg Hk).
  split; [apply set_col_length|]. split; [apply set_col_other| apply set_col_same].
Qed.

(* ===================================================================== *)
(* C16, sub-sampling: rows and weights are indexed by the SAME index vector; the result is
   the one of the un-sampled computation on (X[idx], weights[idx]) *)
Theorem pd_weights_subsampled : forall (f : row -> Q) ct X j grid w n_max idx k,
  subsampling (length X) n_max = Some k ->
  length idx = k -> Forall (fun i => (i < length X)%nat) idx -> length w = length X ->
  sample_rows X n_max idx = index_rows X idx /\
  sample_weights (length X) (Some w) n_max idx = Some (index_q w idx) /\
  combine (index_rows X idx) (index_q w idx) = map (fun i => (nth i X [], nth i w 0)) idx /\
  compute_pd f ct X j grid (Some w) n_max idx
  = compute_pd f ct (index_rows X idx) j grid (Some (index_q w idx)) None [].
Proof.
  intros f ct X j grid w n_max idx k Hs Hl Hr Hw.
  unfold sample_rows, sample_weights. rewrite Hs. simpl.
  split; [reflexivity|]. split; [reflexivity|]. split.
  - unfold index_rows, index_q. clear. induction idx as [|i idx IH]; simpl; [reflexivity| now rewrite IH].
  - unfold compute_pd at 1. rewrite Hs, Hl, Nat.eqb_refl, (idx_in_range_true _ _ Hr). simpl.
    rewrite Hw, (idx_in_range_true _ _ Hr). simpl. reflexivity.
Qed.

(* same for weights=None: only the rows are indexed *)
Theorem pd_rows_subsampled : forall (f : row -> Q) ct X j grid n_max idx k,
  subsampling (length X) n_max = Some k ->
  length idx = k -> Forall (fun i => (i < length X)%nat) idx ->
  compute_pd f ct X j grid None n_max idx = compute_pd f ct (index_rows X idx) j grid None None [].
Proof.
  intros f ct X j grid n_max idx k Hs Hl Hr.
  unfold compute_pd at 1. rewrite Hs, Hl, Nat.eqb_refl, (idx_in_range_true _ _ Hr). reflexivity.
Qed.

(* ===================================================================== *)
(* one value per grid point, for ALL inputs on which the code returns *)
Lemma pd_core_length f ct Xs j grid ws v :
  pd_core f ct Xs j grid ws = PDOk v -> length v = length grid.
Proof.
  unfold pd_core.
  destruct (length Xs =? 0)%nat; [discriminate|].
  destruct (negb (col_in_range j Xs)); [discriminate|].
  destruct (length grid =? 0)%nat; [discriminate|].
  destruct ws as [w|].
  - destruct (negb (length w =? length Xs)%nat); [discriminate|].
    destruct (Qeq_bool (qsum w) 0); [discriminate|].
    intros H. inversion H. now rewrite map_length, reshape_length.
  - intros H. inversion H. now rewrite map_length, reshape_length.
Qed.

Theorem pd_length : forall (f : row -> Q) ct X j grid w n_max idx v,
  compute_pd f ct X j grid w n_max idx = PDOk v -> length v = length grid.
Proof.
  intros f ct X j grid w n_max idx v. unfold compute_pd.
  destruct (subsampling (length X) n_max) as [k|].
  - destruct (negb ((length idx =? k)%nat && idx_in_range (length X) idx)); [discriminate|].
    destruct (negb match w with Some ws => idx_in_range (length ws) idx | None => true end); [discriminate|].
    apply pd_core_length.
  - apply pd_core_length.
Qed.

(* ===================================================================== *)
(* multiplying all weights by c <> 0 changes nothing, not even the outcome class *)
Lemma qsum_scale c w : qsum (map (Qmult c) w) == c * qsum w.
Proof. induction w as [|x w IH]; simpl; [ring| rewrite IH; ring]. Qed.
Lemma dot_scale c w b : dot (map (Qmult c) w) b == c * dot w b.
Proof.
  revert b. induction w as [|x w IH]; intros [|y b]; simpl; try ring. rewrite IH. ring.
Qed.

Lemma pd_core_scale f ct Xs j grid c u :
  ~ c == 0 -> pd_core f ct Xs j grid (Some (map (Qmult c) u)) = pd_core f ct Xs j grid (Some u).
Proof.
  intros Hc. unfold pd_core.
  destruct (length Xs =? 0)%nat; [reflexivity|].
  destruct (negb (col_in_range j Xs)); [reflexivity|].
  destruct (length grid =? 0)%nat; [reflexivity|].
  rewrite map_length. destruct (negb (length u =? length Xs)%nat); [reflexivity|].
  destruct (Qeq_bool (qsum u) 0) eqn:E0.
  - apply Qeq_bool_iff in E0.
    assert (E1 : Qeq_bool (qsum (map (Qmult c) u)) 0 = true)
      by (apply Qeq_bool_iff; rewrite qsum_scale, E0; ring).
    now rewrite E1.
  - assert (Hn : ~ qsum u == 0) by (intros H; apply Qeq_bool_iff in H; congruence).
    destruct (Qeq_bool (qsum (map (Qmult c) u)) 0) eqn:E1.
    + apply Qeq_bool_iff in E1. rewrite qsum_scale in E1. exfalso.
      destruct (Qmult_integral _ _ E1); contradiction.
    + f_equal. apply map_ext. intros b. unfold average. apply Qred_complete.
      rewrite qsum_scale, dot_scale. field. split; assumption.
Qed.

Lemma index_q_scale c w idx :
  idx_in_range (length w) idx = true ->
  index_q (map (Qmult c) w) idx = map (Qmult c) (index_q w idx).
Proof.
  intros H. unfold index_q, idx_in_range in *. rewrite map_map. apply map_ext_in. intros i Hi.
  rewrite forallb_forall in H. specialize (H i Hi). apply Nat.ltb_lt in H.
  rewrite (nth_indep _ 0 (c * 0)) by (now rewrite map_length). apply map_nth.
Qed.

Theorem pd_weight_scale_invariant : forall (f : row -> Q) ct X j grid w n_max idx c,
  ~ c == 0 ->
  compute_pd f ct X j grid (Some (map (Qmult c) w)) n_max idx
  = compute_pd f ct X j grid (Some w) n_max idx.
Proof.
  intros f ct X j grid w n_max idx c Hc. unfold compute_pd.
  destruct (subsampling (length X) n_max) as [k|]; [| now apply pd_core_scale].
  destruct (negb ((length idx =? k)%nat && idx_in_range (length X) idx)); [reflexivity|].
  rewrite map_length.
  destruct (idx_in_range (length w) idx) eqn:Ei; simpl; [| reflexivity].
  rewrite (index_q_scale c w idx Ei). now apply pd_core_scale.
Qed.

(* the result is a function of the index vector: equal draws give equal results (what
   "equal seeds give equal results" reduces to once Generator.choice is deterministic) *)
Theorem pd_equal_draws_equal_results : forall (f : row -> Q) ct X j grid w n_max idx1 idx2,
  idx1 = idx2 -> compute_pd f ct X j grid w n_max idx1 = compute_pd f ct X j grid w n_max idx2.
Proof. intros; subst; reflexivity. Qed.

(* ===================================================================== *)
(* the hypotheses are satisfiable: a predictor with an interaction, sub-sampling, weights *)
Example pd_example :
  let f := fun r : row => Qred (nth 0 r 0 * nth 1 r 0 + nth 2 r 0) in
  let X := [[1; 2; 3]; [4; 5; 6]; [7; 8; 9]; [1; 0; 1]] in
  let w := Some [1; 2; 3; 4] in
  let idx := [3; 1]%nat in
  rows_of_width 3 X /\ (1 < 3)%nat /\ [10; -1 # 2] <> [] /\ sample_rows X (Some 2%nat) idx <> [] /\
  oracle_ok (length X) (Some 2%nat) idx /\ weights_ok (length X) w (Some 2%nat) idx /\
  compute_pd f CFloat X 1 [10; -1 # 2] w (Some 2%nat) idx = PDOk [68 # 3; 5 # 3].
Proof.
  cbv zeta. split; [repeat constructor|]. split; [lia|]. split; [discriminate|].
  split; [vm_compute; discriminate|].
  split; [vm_compute; split; [reflexivity| repeat constructor]|].
  split; [vm_compute; split; [reflexivity| discriminate]|].
  vm_compute. reflexivity.
Qed.

Print Assumptions pd_stacked_eq_def_cast.
Print Assumptions pd_stacked_eq_def.
Print Assumptions pd_stacked_eq_def_float.
Print Assumptions pd_int_column_refuted.
Print Assumptions pd_pred_input_length.
Print Assumptions pd_other_columns_untouched.
Print Assumptions pd_weights_subsampled.
Print Assumptions pd_rows_subsampled.
Print Assumptions pd_length.
Print Assumptions pd_weight_scale_invariant.
Print Assumptions pd_example.
