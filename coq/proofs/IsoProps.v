(* Properties of the executable model `isotonic_regression` (model/Isotonic.v)
   for the functionals "mean" and "expectile", both directions, with and
   without case weights:
     - totality on admissible inputs,
     - C01: the fit is the unique weighted least-squares monotone fit,
            weighted totals are preserved,
     - C03: the same for the expectile and the asymmetric squared loss,
            level one half gives the mean fit,
     - C12: the output contract on (x, r). *)
From Coq Require Import QArith Qreals Qreduction Reals Lqa Lra Lia List Bool Sorted.
(* Lra after Lqa: unqualified [lra]/[nra] are the real-number tactics; the
   rational ones are [Lqa.lra]/[Lqa.nra]. *)
Import ListNotations.
From MD Require Import lib.QLists model.Functionals model.Gpava model.Pava model.Isotonic
  theory.GpavaMerge theory.GInst theory.GpavaCert theory.PavaSim theory.Optimal
  theory.InstMean theory.InstExpectile theory.Transport theory.IsoOptimal.

(* ------------------------------------------------------------------ *)
(* Admissible inputs                                                   *)
(* ------------------------------------------------------------------ *)

Definition valid_w (y : list Q) (weights : option (list Q)) : Prop :=
  match weights with
  | None => True
  | Some w => length w = length y /\ Forall (fun x => (0 < x)%Q) w
  end.
Definition weights_of (y : list Q) (weights : option (list Q)) : list Q :=
  match weights with None => map (fun _ => 1%Q) y | Some w => w end.
Definition data (y : list Q) (weights : option (list Q)) : list elt :=
  combine y (weights_of y weights).
(* monotone in the requested direction *)
Definition monoR (inc : bool) (u : list R) : Prop := if inc then sortedR u else sortedR (rev u).
Definition monoQ (inc : bool) (x : list Q) : Prop := if inc then sortedQ x else sortedQ (rev x).

(* ------------------------------------------------------------------ *)
(* Unfolding the model                                                 *)
(* ------------------------------------------------------------------ *)

(* the data in the order the core algorithm sees it *)
Definition dir {A : Type} (inc : bool) (l : list A) : list A := if inc then l else rev l.

(* lines 420-422: undo the reversal on the output *)
Definition post (inc : bool) (o : option (list Q * list nat)) : ires (list Q * list nat) :=
  match o with
  | None => IErr EIndex
  | Some (x, r) =>
      if inc then IOk (x, r)
      else IOk (rev x, map (fun k => (length x - k)%nat) (rev r))
  end.

Lemma weights_of_length y weights : valid_w y weights -> length (weights_of y weights) = length y.
Proof.
  destruct weights as [w|]; simpl; intros H.
  - exact (proj1 H).
  - apply map_length.
Qed.

Lemma weights_of_pos y weights : valid_w y weights ->
  Forall (fun x => (0 < x)%Q) (weights_of y weights).
Proof.
  destruct weights as [w|]; simpl; intros H.
  - exact (proj2 H).
  - apply Forall_forall. intros x Hx. apply in_map_iff in Hx.
    destruct Hx as (z & <- & _). reflexivity.
Qed.

Lemma all_pos_true w : Forall (fun x => (0 < x)%Q) w -> all_pos w = true.
Proof.
  intros H. unfold all_pos. apply forallb_forall. intros x Hx.
  rewrite Forall_forall in H. pose proof (H x Hx) as Hp. cbv beta in Hp.
  destruct (Qle_bool x 0) eqn:E; [|reflexivity].
  apply Qle_bool_iff in E. exfalso. apply (Qlt_not_le _ _ Hp). exact E.
Qed.

Lemma iso_unfold_mean y weights inc lvl : valid_w y weights ->
  isotonic_regression y weights inc IFmean lvl =
  post inc (iso_core IFmean lvl (dir inc (data y weights))).
Proof.
  intros Hv. unfold isotonic_regression, data, dir, post.
  cbn [andb]. destruct weights as [w|].
  - destruct Hv as [Hl Hp]. cbn [weights_of].
    rewrite <- Hl, Nat.eqb_refl, (all_pos_true w Hp). cbn [negb].
    destruct inc; reflexivity.
  - cbn [weights_of]. destruct inc; reflexivity.
Qed.

Lemma level_guard lvl : (0 < lvl /\ lvl < 1)%Q -> Qle_bool lvl 0 || Qle_bool 1 lvl = false.
Proof.
  intros [H0 H1].
  destruct (Qle_bool lvl 0) eqn:E0.
  - apply Qle_bool_iff in E0. exfalso. exact (Qlt_not_le _ _ H0 E0).
  - destruct (Qle_bool 1 lvl) eqn:E1; [|reflexivity].
    apply Qle_bool_iff in E1. exfalso. exact (Qlt_not_le _ _ H1 E1).
Qed.

Lemma iso_unfold_expectile y weights inc lvl : valid_w y weights -> (0 < lvl /\ lvl < 1)%Q ->
  isotonic_regression y weights inc IFexpectile lvl =
  post inc (iso_core IFexpectile lvl (dir inc (data y weights))).
Proof.
  intros Hv Hlvl. unfold isotonic_regression, data, dir, post.
  rewrite (level_guard lvl Hlvl). cbn [andb]. destruct weights as [w|].
  - destruct Hv as [Hl Hp]. cbn [weights_of].
    rewrite <- Hl, Nat.eqb_refl, (all_pos_true w Hp). cbn [negb].
    destruct inc; reflexivity.
  - cbn [weights_of]. destruct inc; reflexivity.
Qed.

(* ------------------------------------------------------------------ *)
(* Facts about the data list                                           *)
(* ------------------------------------------------------------------ *)

Lemma data_length y weights : valid_w y weights -> length (data y weights) = length y.
Proof.
  intros Hv. unfold data.
  pose proof (combine_length y (weights_of y weights)) as H.
  rewrite (weights_of_length y weights Hv), Nat.min_id in H. exact H.
Qed.

Lemma data_posw y weights : valid_w y weights -> Forall posw (data y weights).
Proof.
  intros Hv. pose proof (weights_of_pos y weights Hv) as Hp. rewrite Forall_forall in Hp.
  apply Forall_forall. intros [a b] Hin. unfold data in Hin.
  apply in_combine_r in Hin. exact (Hp b Hin).
Qed.

Lemma data_ne y weights : y <> [] -> valid_w y weights -> data y weights <> [].
Proof.
  intros Hn Hv E. pose proof (data_length y weights Hv) as HL. rewrite E in HL.
  destruct y as [|a y']; [congruence| discriminate HL].
Qed.

Lemma dir_length (A : Type) inc (l : list A) : length (dir inc l) = length l.
Proof. destruct inc; simpl; [reflexivity| apply rev_length]. Qed.

Lemma dir_posw inc l : Forall posw l -> Forall posw (dir inc l).
Proof. destruct inc; simpl; [tauto| apply Forall_rev]. Qed.

Lemma dir_ne inc (l : list elt) : l <> [] -> dir inc l <> [].
Proof.
  intros Hn E. pose proof (dir_length elt inc l) as HL. rewrite E in HL.
  destruct l as [|a l']; [congruence| discriminate HL].
Qed.

(* ------------------------------------------------------------------ *)
(* The core algorithm returns the expansion of a certified stack       *)
(* ------------------------------------------------------------------ *)

Lemma gpava_some (T : list elt -> Q) l x r : l <> [] ->
  gpava elt ey T l = Some (x, r) ->
  exists stk, gpava_blocks elt ey T l = Some stk /\ x = expand elt stk /\ r = rvec elt stk.
Proof.
  intros Hn H. unfold gpava in H. destruct l as [|e l']; [congruence|].
  destruct (gpava_blocks elt ey T (e :: l')) as [stk|]; [|discriminate H].
  cbn [option_map] in H. injection H as <- <-.
  exists stk. split; [reflexivity|]. split; reflexivity.
Qed.

Lemma mean_core a l x r : l <> [] -> Forall posw l ->
  iso_core IFmean a l = Some (x, r) ->
  exists stk, gpava_blocks elt ey wmean l = Some stk /\
              Forall2 Qeq x (expand elt stk) /\ r = rvec elt stk.
Proof.
  intros Hn Gl H. cbn [iso_core] in H.
  destruct (pava_sim l Hn Gl) as (x1 & r1 & x1' & EP & EG & HQ).
  rewrite EP in H. injection H as <- <-.
  destruct (gpava_some wmean l x1' r1 Hn EG) as (stk & E1 & E2 & E3).
  exists stk. split; [exact E1|]. split; [rewrite <- E2; exact HQ| exact E3].
Qed.

Lemma mean_core_total a l : l <> [] -> Forall posw l ->
  exists x r, iso_core IFmean a l = Some (x, r).
Proof.
  intros Hn Gl. destruct (pava_sim l Hn Gl) as (x1 & r1 & x1' & EP & _ & _).
  exists x1, r1. exact EP.
Qed.

Lemma exp_core a l x r : l <> [] ->
  iso_core IFexpectile a l = Some (x, r) ->
  exists stk, gpava_blocks elt ey (expectile_Q a) l = Some stk /\
              Forall2 Qeq x (expand elt stk) /\ r = rvec elt stk.
Proof.
  intros Hn H. cbn [iso_core] in H.
  destruct (gpava_some (expectile_Q a) l x r Hn H) as (stk & E1 & E2 & E3).
  exists stk. split; [exact E1|]. split; [|exact E3].
  rewrite E2. clear. induction (expand elt stk) as [|q t IH]; constructor; [reflexivity| exact IH].
Qed.

Lemma exp_core_total a (Ha : (0 < a /\ a < 1)%Q) l : l <> [] -> Forall posw l ->
  exists x r, iso_core IFexpectile a l = Some (x, r).
Proof.
  intros Hn Gl.
  destruct (gpava_blocks_cert (expectile_inst a Ha) l Gl) as (stk & E & _ & _).
  cbn [g_elt g_yv g_T expectile_inst] in E.
  exists (expand elt stk), (rvec elt stk).
  cbn [iso_core]. unfold gpava. destruct l as [|e l']; [congruence|].
  rewrite E. reflexivity.
Qed.

(* ------------------------------------------------------------------ *)
(* Totality                                                            *)
(* ------------------------------------------------------------------ *)

Lemma post_some inc x0 r0 : exists x r, post inc (Some (x0, r0)) = IOk (x, r).
Proof.
  destruct inc; cbn [post].
  - exists x0, r0. reflexivity.
  - exists (rev x0), (map (fun k => (length x0 - k)%nat) (rev r0)). reflexivity.
Qed.

Theorem iso_mean_total : forall y weights inc lvl, y <> [] -> valid_w y weights ->
  exists x r, isotonic_regression y weights inc IFmean lvl = IOk (x, r).
Proof.
  intros y weights inc lvl Hn Hv. rewrite (iso_unfold_mean y weights inc lvl Hv).
  destruct (mean_core_total lvl (dir inc (data y weights))
              (dir_ne inc _ (data_ne y weights Hn Hv))
              (dir_posw inc _ (data_posw y weights Hv))) as (x0 & r0 & E).
  rewrite E. apply post_some.
Qed.

Theorem iso_expectile_total : forall y weights inc lvl, y <> [] -> valid_w y weights ->
  (0 < lvl /\ lvl < 1)%Q ->
  exists x r, isotonic_regression y weights inc IFexpectile lvl = IOk (x, r).
Proof.
  intros y weights inc lvl Hn Hv Hl. rewrite (iso_unfold_expectile y weights inc lvl Hv Hl).
  destruct (exp_core_total lvl Hl (dir inc (data y weights))
              (dir_ne inc _ (data_ne y weights Hn Hv))
              (dir_posw inc _ (data_posw y weights Hv))) as (x0 & r0 & E).
  rewrite E. apply post_some.
Qed.

(* ------------------------------------------------------------------ *)
(* Direction: reversal lemmas                                          *)
(* ------------------------------------------------------------------ *)

Lemma dir_invol (A : Type) inc (l : list A) : dir inc (dir inc l) = l.
Proof. destruct inc; simpl; [reflexivity| apply rev_involutive]. Qed.

Lemma map_dir (A B : Type) (f : A -> B) inc (l : list A) : map f (dir inc l) = dir inc (map f l).
Proof. destruct inc; simpl; [reflexivity| apply map_rev]. Qed.

Lemma monoR_dir inc u : monoR inc u = sortedR (dir inc u).
Proof. destruct inc; reflexivity. Qed.

Lemma monoQ_dir inc x : monoQ inc x = sortedQ (dir inc x).
Proof. destruct inc; reflexivity. Qed.

Lemma post_inv inc o x r : post inc o = IOk (x, r) ->
  exists x0 r0, o = Some (x0, r0) /\ x = dir inc x0 /\
    r = (if inc then r0 else map (fun k => (length x0 - k)%nat) (rev r0)).
Proof.
  intros H. unfold post in H. destruct o as [[x0 r0]|]; [|discriminate H].
  exists x0, r0. split; [reflexivity|].
  destruct inc; injection H as <- <-; split; reflexivity.
Qed.

(* the textbook losses are instances of the generic sums of theory/Optimal.v *)
Definition Lsq0 (e : elt) (x : R) : R := (Q2R (ew e) * (Q2R (ey e) - x)^2)%R.
Definition Las0 (a : Q) (e : elt) (x : R) : R :=
  (Q2R (ew e) * (if Rle_dec (Q2R (ey e)) x then 1 - Q2R a else Q2R a) * (Q2R (ey e) - x)^2)%R.
Definition w0 (e : elt) : R := Q2R (ew e).

Lemma lossSq_loss0 l : forall u, lossSq l u = loss elt Lsq0 l u.
Proof.
  induction l as [|e l IH]; intros u; [reflexivity|].
  destruct u as [|x u']; [reflexivity|].
  cbn [lossSq loss]. rewrite IH. reflexivity.
Qed.

Lemma lossAs_loss0 a l : forall u, lossAs a l u = loss elt (Las0 a) l u.
Proof.
  induction l as [|e l IH]; intros u; [reflexivity|].
  destruct u as [|x u']; [reflexivity|].
  cbn [lossAs loss]. rewrite IH. reflexivity.
Qed.

Lemma wdist_kdist0 l : forall u v, wdist l u v = kdist elt w0 l u v.
Proof.
  induction l as [|e l IH]; intros u v; [reflexivity|].
  destruct u as [|x u']; [reflexivity|]. destruct v as [|z v']; [reflexivity|].
  cbn [wdist kdist]. rewrite IH. reflexivity.
Qed.

Lemma loss_rev (E : Type) (L : E -> R -> R) : forall l u, length u = length l ->
  loss E L (rev l) (rev u) = loss E L l u.
Proof.
  induction l as [|e l IH]; intros u Hlen.
  - destruct u as [|x u']; [reflexivity| discriminate Hlen].
  - destruct u as [|x u']; [discriminate Hlen|].
    cbn [length] in Hlen. injection Hlen as Hlen.
    cbn [rev]. rewrite loss_app by (rewrite !rev_length; exact Hlen).
    rewrite (IH u' Hlen). cbn [loss]. lra.
Qed.

Lemma kdist_rev (E : Type) (kap : E -> R) : forall l u v, length u = length l ->
  length v = length l -> kdist E kap (rev l) (rev u) (rev v) = kdist E kap l u v.
Proof.
  induction l as [|e l IH]; intros u v Hu Hv.
  - destruct u as [|x u']; [reflexivity| discriminate Hu].
  - destruct u as [|x u']; [discriminate Hu|]. destruct v as [|z v']; [discriminate Hv|].
    cbn [length] in Hu, Hv. injection Hu as Hu. injection Hv as Hv.
    cbn [rev]. rewrite kdist_app by (rewrite !rev_length; assumption).
    rewrite (IH u' v' Hu Hv). cbn [kdist]. lra.
Qed.

Lemma lossSq_dir inc l u : length u = length l -> lossSq (dir inc l) (dir inc u) = lossSq l u.
Proof.
  intros H. destruct inc; [reflexivity|]. cbn [dir].
  rewrite !lossSq_loss0. apply loss_rev. exact H.
Qed.

Lemma lossAs_dir a inc l u : length u = length l ->
  lossAs a (dir inc l) (dir inc u) = lossAs a l u.
Proof.
  intros H. destruct inc; [reflexivity|]. cbn [dir].
  rewrite !lossAs_loss0. apply loss_rev. exact H.
Qed.

Lemma wdist_dir inc l u v : length u = length l -> length v = length l ->
  wdist (dir inc l) (dir inc u) (dir inc v) = wdist l u v.
Proof.
  intros Hu Hv. destruct inc; [reflexivity|]. cbn [dir].
  rewrite !wdist_kdist0. apply kdist_rev; assumption.
Qed.

(* optimality / uniqueness for the data in core order give the same for the
   data in the given order *)
Section Direction.
Variable LL : list elt -> list R -> R.
Variable c : R.
Hypothesis LL_dir : forall inc l u, length u = length l -> LL (dir inc l) (dir inc u) = LL l u.

Lemma optimal_dir inc l x0 : length x0 = length l ->
  (forall u0, length u0 = length (dir inc l) -> sortedR u0 ->
     (LL (dir inc l) u0 >= LL (dir inc l) (map Q2R x0)
        + c * wdist (dir inc l) u0 (map Q2R x0))%R) ->
  forall u, length u = length l -> monoR inc u ->
     (LL l u >= LL l (map Q2R (dir inc x0)) + c * wdist l u (map Q2R (dir inc x0)))%R.
Proof.
  intros Hx H u Hu Hm. rewrite monoR_dir in Hm.
  assert (Hf : length (map Q2R (dir inc x0)) = length l).
  { rewrite map_length, dir_length. exact Hx. }
  assert (Hlen : length (dir inc u) = length (dir inc l)) by (rewrite !dir_length; exact Hu).
  pose proof (H (dir inc u) Hlen Hm) as H1.
  assert (E : map Q2R x0 = dir inc (map Q2R (dir inc x0))).
  { rewrite map_dir, dir_invol. reflexivity. }
  rewrite E in H1.
  rewrite !(LL_dir inc l) in H1 by assumption.
  rewrite (wdist_dir inc l) in H1 by assumption.
  exact H1.
Qed.

Lemma unique_dir inc l x0 : length x0 = length l ->
  (forall u0, length u0 = length (dir inc l) -> sortedR u0 ->
     (LL (dir inc l) u0 <= LL (dir inc l) (map Q2R x0))%R -> u0 = map Q2R x0) ->
  forall u, length u = length l -> monoR inc u ->
     (LL l u <= LL l (map Q2R (dir inc x0)))%R -> u = map Q2R (dir inc x0).
Proof.
  intros Hx H u Hu Hm Hle. rewrite monoR_dir in Hm.
  assert (Hf : length (map Q2R (dir inc x0)) = length l).
  { rewrite map_length, dir_length. exact Hx. }
  assert (Hlen : length (dir inc u) = length (dir inc l)) by (rewrite !dir_length; exact Hu).
  assert (E : map Q2R x0 = dir inc (map Q2R (dir inc x0))).
  { rewrite map_dir, dir_invol. reflexivity. }
  assert (H1 : dir inc u = map Q2R x0).
  { apply (H (dir inc u) Hlen Hm). rewrite E.
    rewrite !(LL_dir inc l) by assumption. exact Hle. }
  rewrite <- (dir_invol R inc u), H1, E, dir_invol. reflexivity.
Qed.
End Direction.

(* ------------------------------------------------------------------ *)
(* Qeq-equal lists                                                     *)
(* ------------------------------------------------------------------ *)

Lemma map_Q2R_Qeq a b : Forall2 Qeq a b -> map Q2R a = map Q2R b.
Proof.
  intros H. induction H as [|p q a b Hpq H IH]; [reflexivity|].
  cbn [map]. rewrite (Qeq_eqR p q Hpq), IH. reflexivity.
Qed.

Lemma sortedQ_Qeq a b : Forall2 Qeq a b -> sortedQ b -> sortedQ a.
Proof.
  intros H. induction H as [|p q a b Hpq H IH]; intros Hs; [exact Logic.I|].
  destruct H as [|p' q' a' b' Hpq' H'].
  - exact Logic.I.
  - destruct Hs as [Hle Hs]. split.
    + rewrite Hpq, Hpq'. exact Hle.
    + apply IH. exact Hs.
Qed.

Lemma F2_length (A B : Type) (R : A -> B -> Prop) a b : Forall2 R a b -> length a = length b.
Proof.
  intros H. induction H as [|p q a b Hpq H IH]; [reflexivity|].
  cbn [length]. rewrite IH. reflexivity.
Qed.

Lemma Forall2_Qeq_refl a : Forall2 Qeq a a.
Proof. induction a as [|q t IH]; constructor; [reflexivity| exact IH]. Qed.

(* ------------------------------------------------------------------ *)
(* What every successful run provides (mean and expectile)             *)
(* ------------------------------------------------------------------ *)

(* [run I y weights inc x r]: the output (x, r) is, up to the direction, the
   expansion of a certified stack of the instance I over the data *)
Definition run (I : GInst) (l : list (g_elt I)) (inc : bool) (x : list Q) (r : list nat) : Prop :=
  exists stk x0,
    gpava_blocks (g_elt I) (g_yv I) (g_T I) (dir inc l) = Some stk /\
    stack_ok I stk /\ flat (g_elt I) stk = dir inc l /\
    Forall2 Qeq x0 (expand (g_elt I) stk) /\
    x = dir inc x0 /\
    r = (if inc then rvec (g_elt I) stk
         else map (fun k => (length x0 - k)%nat) (rev (rvec (g_elt I) stk))).

Lemma run_mean y weights inc lvl x r : y <> [] -> valid_w y weights ->
  isotonic_regression y weights inc IFmean lvl = IOk (x, r) ->
  run mean_inst (data y weights) inc x r.
Proof.
  intros Hn Hv H. rewrite (iso_unfold_mean y weights inc lvl Hv) in H.
  destruct (post_inv inc _ x r H) as (x0 & r0 & Hc & Ex & Er).
  pose proof (dir_ne inc _ (data_ne y weights Hn Hv)) as Hne.
  pose proof (dir_posw inc _ (data_posw y weights Hv)) as Hp.
  destruct (mean_core lvl _ x0 r0 Hne Hp Hc) as (stk & E1 & HQ & E3).
  destruct (gpava_stack mean_inst _ stk Hp E1) as [Hok Hflat].
  exists stk, x0. split; [exact E1|]. split; [exact Hok|]. split; [exact Hflat|].
  split; [exact HQ|]. split; [exact Ex|]. rewrite Er, E3. reflexivity.
Qed.

Lemma run_expectile y weights inc lvl (Hl : (0 < lvl /\ lvl < 1)%Q) x r :
  y <> [] -> valid_w y weights ->
  isotonic_regression y weights inc IFexpectile lvl = IOk (x, r) ->
  run (expectile_inst lvl Hl) (data y weights) inc x r.
Proof.
  intros Hn Hv H. rewrite (iso_unfold_expectile y weights inc lvl Hv Hl) in H.
  destruct (post_inv inc _ x r H) as (x0 & r0 & Hc & Ex & Er).
  pose proof (dir_ne inc _ (data_ne y weights Hn Hv)) as Hne.
  pose proof (dir_posw inc _ (data_posw y weights Hv)) as Hp.
  destruct (exp_core lvl _ x0 r0 Hne Hc) as (stk & E1 & HQ & E3).
  destruct (gpava_stack (expectile_inst lvl Hl) _ stk Hp E1) as [Hok Hflat].
  exists stk, x0. split; [exact E1|]. split; [exact Hok|]. split; [exact Hflat|].
  split; [exact HQ|]. split; [exact Ex|]. rewrite Er, E3. reflexivity.
Qed.

(* length and monotonicity of the fit *)
Lemma run_length I l inc x r : run I l inc x r -> length x = length l.
Proof.
  intros (stk & x0 & _ & _ & Hflat & HQ & Ex & _).
  rewrite Ex, dir_length, (F2_length _ _ _ _ _ HQ), expand_length, Hflat, dir_length. reflexivity.
Qed.

Lemma run_mono I l inc x r : run I l inc x r -> monoQ inc x.
Proof.
  intros (stk & x0 & _ & Hok & _ & HQ & Ex & _).
  rewrite monoQ_dir, Ex, dir_invol.
  apply (sortedQ_Qeq x0 _ HQ). apply expand_sorted. exact Hok.
Qed.

(* ------------------------------------------------------------------ *)
(* C01: the mean fit                                                   *)
(* ------------------------------------------------------------------ *)

Theorem iso_mean_optimal : forall y weights inc lvl x r, y <> [] -> valid_w y weights ->
  isotonic_regression y weights inc IFmean lvl = IOk (x, r) ->
  length x = length y /\ monoQ inc x /\
  forall u : list R, length u = length y -> monoR inc u ->
    (lossSq (data y weights) u >=
     lossSq (data y weights) (map Q2R x) + wdist (data y weights) u (map Q2R x))%R.
Proof.
  intros y weights inc lvl x r Hn Hv H.
  pose proof (run_mean y weights inc lvl x r Hn Hv H) as HR.
  split; [rewrite (run_length _ _ _ _ _ HR); apply data_length; exact Hv|].
  split; [exact (run_mono _ _ _ _ _ HR)|].
  destruct HR as (stk & x0 & E1 & Hok & Hflat & HQ & Ex & _).
  pose proof (dir_posw inc _ (data_posw y weights Hv)) as Hp.
  pose proof (gpava_mean_optimal (dir inc (data y weights)) stk Hp E1) as HO.
  cbv zeta in HO. destruct HO as (_ & HL & HO).
  pose proof (map_Q2R_Qeq x0 _ HQ) as EQ.
  change (map Q2R x0 = map Q2R (expand elt stk)) in EQ.
  rewrite <- EQ in HO, HL.
  rewrite map_length, dir_length in HL.
  intros u Hu Hm. rewrite <- (data_length y weights Hv) in Hu.
  assert (HO1 : forall u0, length u0 = length (dir inc (data y weights)) -> sortedR u0 ->
     (lossSq (dir inc (data y weights)) u0 >= lossSq (dir inc (data y weights)) (map Q2R x0)
        + 1 * wdist (dir inc (data y weights)) u0 (map Q2R x0))%R).
  { intros u0 h1 h2. pose proof (HO u0 h1 h2) as h3. lra. }
  pose proof (optimal_dir lossSq 1%R lossSq_dir inc (data y weights) x0 HL HO1 u Hu Hm) as HF.
  rewrite Ex. lra.
Qed.

Theorem iso_mean_unique : forall y weights inc lvl x r, y <> [] -> valid_w y weights ->
  isotonic_regression y weights inc IFmean lvl = IOk (x, r) ->
  forall u : list R, length u = length y -> monoR inc u ->
    (lossSq (data y weights) u <= lossSq (data y weights) (map Q2R x))%R -> u = map Q2R x.
Proof.
  intros y weights inc lvl x r Hn Hv H.
  pose proof (run_mean y weights inc lvl x r Hn Hv H) as HR.
  destruct HR as (stk & x0 & E1 & Hok & Hflat & HQ & Ex & _).
  pose proof (dir_posw inc _ (data_posw y weights Hv)) as Hp.
  pose proof (gpava_mean_unique (dir inc (data y weights)) stk Hp E1) as HU.
  cbv zeta in HU.
  assert (HL : length x0 = length (data y weights)).
  { rewrite (F2_length _ _ _ _ _ HQ), expand_length, Hflat, dir_length. reflexivity. }
  pose proof (map_Q2R_Qeq x0 _ HQ) as EQ.
  change (map Q2R x0 = map Q2R (expand elt stk)) in EQ.
  rewrite <- EQ in HU.
  intros u Hu Hm Hle. rewrite <- (data_length y weights Hv) in Hu. rewrite Ex in *.
  exact (unique_dir lossSq lossSq_dir inc (data y weights) x0 HL HU u Hu Hm Hle).
Qed.

(* ------------------------------------------------------------------ *)
(* C03: the expectile fit                                              *)
(* ------------------------------------------------------------------ *)

Theorem iso_expectile_optimal : forall y weights inc lvl x r, y <> [] -> valid_w y weights ->
  (0 < lvl /\ lvl < 1)%Q ->
  isotonic_regression y weights inc IFexpectile lvl = IOk (x, r) ->
  length x = length y /\ monoQ inc x /\
  forall u : list R, length u = length y -> monoR inc u ->
    (lossAs lvl (data y weights) u >= lossAs lvl (data y weights) (map Q2R x)
       + Rmin (Q2R lvl) (1 - Q2R lvl) * wdist (data y weights) u (map Q2R x))%R.
Proof.
  intros y weights inc lvl x r Hn Hv Hl H.
  pose proof (run_expectile y weights inc lvl Hl x r Hn Hv H) as HR.
  split; [rewrite (run_length _ _ _ _ _ HR); apply data_length; exact Hv|].
  split; [exact (run_mono _ _ _ _ _ HR)|].
  destruct HR as (stk & x0 & E1 & Hok & Hflat & HQ & Ex & _).
  pose proof (dir_posw inc _ (data_posw y weights Hv)) as Hp.
  pose proof (gpava_expectile_optimal lvl Hl (dir inc (data y weights)) stk Hp E1) as HO.
  cbv zeta in HO. destruct HO as (_ & HL & HO).
  pose proof (map_Q2R_Qeq x0 _ HQ) as EQ.
  change (map Q2R x0 = map Q2R (expand elt stk)) in EQ.
  rewrite <- EQ in HO, HL.
  rewrite map_length, dir_length in HL.
  intros u Hu Hm. rewrite <- (data_length y weights Hv) in Hu.
  rewrite Ex.
  exact (optimal_dir (lossAs lvl) _ (lossAs_dir lvl) inc (data y weights) x0 HL HO u Hu Hm).
Qed.

Theorem iso_expectile_unique : forall y weights inc lvl x r, y <> [] -> valid_w y weights ->
  (0 < lvl /\ lvl < 1)%Q ->
  isotonic_regression y weights inc IFexpectile lvl = IOk (x, r) ->
  forall u : list R, length u = length y -> monoR inc u ->
    (lossAs lvl (data y weights) u <= lossAs lvl (data y weights) (map Q2R x))%R ->
    u = map Q2R x.
Proof.
  intros y weights inc lvl x r Hn Hv Hl H.
  pose proof (run_expectile y weights inc lvl Hl x r Hn Hv H) as HR.
  destruct HR as (stk & x0 & E1 & Hok & Hflat & HQ & Ex & _).
  pose proof (dir_posw inc _ (data_posw y weights Hv)) as Hp.
  pose proof (gpava_expectile_unique lvl Hl (dir inc (data y weights)) stk Hp E1) as HU.
  cbv zeta in HU.
  assert (HL : length x0 = length (data y weights)).
  { rewrite (F2_length _ _ _ _ _ HQ), expand_length, Hflat, dir_length. reflexivity. }
  pose proof (map_Q2R_Qeq x0 _ HQ) as EQ.
  change (map Q2R x0 = map Q2R (expand elt stk)) in EQ.
  rewrite <- EQ in HU.
  intros u Hu Hm Hle. rewrite <- (data_length y weights Hv) in Hu. rewrite Ex in *.
  exact (unique_dir (lossAs lvl) (lossAs_dir lvl) inc (data y weights) x0 HL HU u Hu Hm Hle).
Qed.

(* ------------------------------------------------------------------ *)
(* Level one half: the expectile fit is the mean fit                   *)
(* ------------------------------------------------------------------ *)

Lemma Q2R_half : Q2R (1#2) = (/2)%R.
Proof. unfold Q2R. simpl. lra. Qed.

Lemma lossAs_half l : forall u, lossAs (1#2) l u = (/2 * lossSq l u)%R.
Proof.
  induction l as [|e l IH]; intros u; [simpl; lra|].
  destruct u as [|x u']; [simpl; lra|].
  cbn [lossAs lossSq]. rewrite IH, Q2R_half.
  destruct (Rle_dec (Q2R (ey e)) x) as [Hc|Hc]; field.
Qed.

Lemma wdist_nonneg l : Forall posw l -> forall u v, (0 <= wdist l u v)%R.
Proof.
  intros G. induction G as [|e l Ge G IH]; intros u v; [simpl; lra|].
  destruct u as [|x u']; [simpl; lra|]. destruct v as [|z v']; [simpl; lra|].
  cbn [wdist]. pose proof (IH u' v') as H1. pose proof (posw_R e Ge) as H2.
  pose proof (pow2_ge_0 (x - z)) as H3.
  pose proof (Rmult_le_pos _ _ (Rlt_le _ _ H2) H3) as H4. lra.
Qed.

Lemma monoQ_monoR inc x : monoQ inc x -> monoR inc (map Q2R x).
Proof.
  intros H. rewrite monoQ_dir in H. rewrite monoR_dir, <- map_dir.
  apply sortedR_map_Q2R. exact H.
Qed.

Lemma map_Q2R_inj : forall a b, map Q2R a = map Q2R b -> Forall2 Qeq a b.
Proof.
  induction a as [|p a IH]; intros b H.
  - destruct b as [|q b]; [constructor| discriminate H].
  - destruct b as [|q b]; [discriminate H|].
    cbn [map] in H. injection H as H1 H2.
    constructor; [apply eqR_Qeq; exact H1| apply IH; exact H2].
Qed.

Theorem iso_expectile_half_is_mean : forall y weights inc x r x' r', y <> [] -> valid_w y weights ->
  isotonic_regression y weights inc IFexpectile (1#2) = IOk (x, r) ->
  isotonic_regression y weights inc IFmean (1#2) = IOk (x', r') ->
  Forall2 Qeq x x'.
Proof.
  intros y weights inc x r x' r' Hn Hv H1 H2.
  assert (Hh : (0 < 1#2 /\ 1#2 < 1)%Q) by (split; reflexivity).
  destruct (iso_expectile_optimal y weights inc (1#2) x r Hn Hv Hh H1) as (Lx & Mx & Ox).
  destruct (iso_mean_optimal y weights inc (1#2) x' r' Hn Hv H2) as (Lx' & Mx' & _).
  apply map_Q2R_inj.
  apply (iso_mean_unique y weights inc (1#2) x' r' Hn Hv H2 (map Q2R x)).
  - rewrite map_length. exact Lx.
  - apply monoQ_monoR. exact Mx.
  - assert (Hlen : length (map Q2R x') = length y) by (rewrite map_length; exact Lx').
    pose proof (Ox (map Q2R x') Hlen (monoQ_monoR inc x' Mx')) as HO.
    rewrite !lossAs_half, Q2R_half in HO.
    pose proof (wdist_nonneg (data y weights) (data_posw y weights Hv)
                  (map Q2R x') (map Q2R x)) as HW.
    assert (HM : (0 <= Rmin (/2) (1 - /2))%R).
    { unfold Rmin. destruct (Rle_dec (/2) (1 - /2)); lra. }
    pose proof (Rmult_le_pos _ _ HM HW) as HP. lra.
Qed.

(* ------------------------------------------------------------------ *)
(* Weighted totals are preserved by the mean fit                       *)
(* ------------------------------------------------------------------ *)

Local Open Scope Q_scope.

(* sum w_i x_i, weights taken from the data list *)
Fixpoint wdot (x : list Q) (l : list elt) {struct x} : Q :=
  match x, l with
  | a :: x', e :: l' => ew e * a + wdot x' l'
  | _, _ => 0
  end.

Lemma wdot_nil_r x : wdot x [] = 0.
Proof. destruct x; reflexivity. Qed.

Lemma wdot_app : forall xa A xb B, length xa = length A ->
  wdot (xa ++ xb) (A ++ B) == wdot xa A + wdot xb B.
Proof.
  induction xa as [|a xa IH]; intros A xb B Hlen.
  - destruct A as [|e A]; [|discriminate Hlen]. cbn [app wdot]. ring.
  - destruct A as [|e A]; [discriminate Hlen|].
    cbn [length] in Hlen. injection Hlen as Hlen.
    cbn [app wdot]. rewrite (IH A xb B Hlen). ring.
Qed.

Lemma wdot_repeat v : forall B, wdot (repeat v (length B)) B == v * wtot B.
Proof.
  induction B as [|e B IH]; cbn [length repeat wdot wtot]; [ring|].
  rewrite IH. ring.
Qed.

Lemma wdot_Qeq a b : Forall2 Qeq a b -> forall l, wdot a l == wdot b l.
Proof.
  intros H. induction H as [|p q a b Hpq H IH]; intros l; [reflexivity|].
  destruct l as [|e l]; [reflexivity|].
  cbn [wdot]. rewrite (IH l), Hpq. reflexivity.
Qed.

Lemma wdot_blocks (bs : list (blk elt)) :
  Forall (fun b => bv b * wtot (bel b) == wsum (bel b)) bs ->
  wdot (flat_map (fun b => repeat (bv b) (length (bel b))) bs) (concat (map bel bs))
  == wsum (concat (map bel bs)).
Proof.
  intros H. induction H as [|b bs Hb H IH]; [reflexivity|].
  cbn [flat_map map concat].
  rewrite wdot_app by apply repeat_length.
  rewrite wsum_app, IH, wdot_repeat, Hb. reflexivity.
Qed.

Lemma wsum_rev l : wsum (rev l) == wsum l.
Proof.
  induction l as [|e l IH]; [reflexivity|].
  cbn [rev]. rewrite wsum_app, IH. cbn [wsum]. ring.
Qed.

Lemma wdot_rev : forall x l, length x = length l -> wdot (rev x) (rev l) == wdot x l.
Proof.
  induction x as [|a x IH]; intros l Hlen.
  - destruct l as [|e l]; [reflexivity| discriminate Hlen].
  - destruct l as [|e l]; [discriminate Hlen|].
    cbn [length] in Hlen. injection Hlen as Hlen.
    cbn [rev]. rewrite wdot_app by (rewrite !rev_length; exact Hlen).
    rewrite (IH l Hlen). cbn [wdot]. ring.
Qed.

Lemma wdot_dir inc x l : length x = length l -> wdot (dir inc x) (dir inc l) == wdot x l.
Proof.
  intros H. destruct inc; [reflexivity|]. cbn [dir]. apply wdot_rev. exact H.
Qed.

Lemma wsum_dir inc l : wsum (dir inc l) == wsum l.
Proof. destruct inc; [reflexivity|]. cbn [dir]. apply wsum_rev. Qed.

Lemma wsum_combine : forall x y w, length y = length w ->
  wsum (combine x w) == wdot x (combine y w).
Proof.
  induction x as [|a x IH]; intros y w Hlen; [reflexivity|].
  destruct w as [|b w].
  - destruct y as [|c y]; [reflexivity| discriminate Hlen].
  - destruct y as [|c y]; [discriminate Hlen|].
    cbn [length] in Hlen. injection Hlen as Hlen.
    cbn [combine wsum wdot]. rewrite (IH y w Hlen). unfold ew, ey. cbn [fst snd]. ring.
Qed.

Lemma mean_block_total (stk : list (blk elt)) : stack_ok mean_inst stk ->
  Forall (fun b : blk elt => bv b * wtot (bel b) == wsum (bel b)) (rev stk).
Proof.
  intros [HF _]. apply Forall_rev. eapply Forall_impl; [|exact HF].
  intros b HI. cbv beta in HI. destruct HI as (Bn & GB & Eb & _).
  cbn [g_T g_good mean_inst] in Eb, GB.
  rewrite Eb. apply wmean_times_wtot; assumption.
Qed.

Lemma run_mean_totals l inc x r : run mean_inst l inc x r -> wdot x l == wsum l.
Proof.
  intros HR. pose proof (run_length _ _ _ _ _ HR) as HL.
  destruct HR as (stk & x0 & _ & Hok & Hflat & HQ & Ex & _).
  cbn [g_elt mean_inst] in *.
  assert (H0 : wdot x0 (dir inc l) == wsum (dir inc l)).
  { rewrite (wdot_Qeq x0 _ HQ). rewrite <- Hflat. unfold expand, flat.
    apply wdot_blocks. apply mean_block_total. exact Hok. }
  rewrite wsum_dir in H0. rewrite <- H0.
  rewrite <- (wdot_dir inc x l HL). rewrite Ex, dir_invol. reflexivity.
Qed.

Theorem iso_mean_totals : forall y weights inc lvl x r, y <> [] -> valid_w y weights ->
  isotonic_regression y weights inc IFmean lvl = IOk (x, r) ->
  wsum (combine x (weights_of y weights)) == wsum (data y weights).
Proof.
  intros y weights inc lvl x r Hn Hv H.
  pose proof (run_mean y weights inc lvl x r Hn Hv H) as HR.
  rewrite (wsum_combine x y (weights_of y weights))
    by (symmetry; apply weights_of_length; exact Hv).
  exact (run_mean_totals _ _ _ _ HR).
Qed.

Local Close Scope Q_scope.

(* ------------------------------------------------------------------ *)
(* C12: the output contract                                            *)
(* ------------------------------------------------------------------ *)

Definition contract (y x : list Q) (r : list nat) : Prop :=
  length x = length y /\
  hd 0%nat r = 0%nat /\ last r 0%nat = length y /\ StronglySorted lt r /\
  (forall j i, (S j < length r)%nat -> (nth j r 0 <= i < nth (S j) r 0)%nat ->
     (nth i x 0 == nth (nth j r 0%nat) x 0)%Q) /\
  (forall j, (S (S j) < length r)%nat ->
     ~ (nth (nth j r 0%nat) x 0 == nth (nth (S j) r 0%nat) x 0)%Q) /\
  (forall v, In v x -> exists lo hi, In lo y /\ In hi y /\ (lo <= v /\ v <= hi)%Q).

(* ---------- list helpers ---------- *)

Lemma hd_nth0 (A : Type) (l : list A) d : hd d l = nth 0 l d.
Proof. destruct l; reflexivity. Qed.

Lemma last_nth (A : Type) (d : A) : forall l, last l d = nth (length l - 1) l d.
Proof.
  induction l as [|a l IH]; [reflexivity|].
  destruct l as [|b l']; [reflexivity|].
  change (last (a :: b :: l') d) with (last (b :: l') d). rewrite IH.
  cbn [length]. replace (S (S (length l')) - 1)%nat with (S (S (length l') - 1))%nat by lia.
  reflexivity.
Qed.

Lemma SS_nth (A : Type) (R : A -> A -> Prop) (d : A) : forall l, StronglySorted R l ->
  forall i j, (i < j < length l)%nat -> R (nth i l d) (nth j l d).
Proof.
  intros l HS. induction HS as [|a l HS IH Ha]; intros i j Hij.
  - simpl in Hij. lia.
  - cbn [length] in Hij. destruct j as [|j]; [lia|]. destruct i as [|i].
    + cbn [nth]. rewrite Forall_forall in Ha. apply Ha. apply nth_In. lia.
    + cbn [nth]. apply IH. lia.
Qed.

Lemma nth_SS (A : Type) (R : A -> A -> Prop) (d : A) : forall l,
  (forall i j, (i < j < length l)%nat -> R (nth i l d) (nth j l d)) -> StronglySorted R l.
Proof.
  induction l as [|a l IH]; intros H; [constructor|].
  constructor.
  - apply IH. intros i j Hij. apply (H (S i) (S j)). cbn [length]. lia.
  - apply Forall_forall. intros z Hz.
    destruct (In_nth l z d Hz) as (k & Hk & Ek). rewrite <- Ek.
    apply (H 0%nat (S k)). cbn [length]. lia.
Qed.

Lemma SS_map (A B : Type) (f : A -> B) (R : B -> B -> Prop) (l : list A) :
  StronglySorted (fun a b => R (f a) (f b)) l -> StronglySorted R (map f l).
Proof.
  intros HS. induction HS as [|a l HS IH Ha]; cbn [map]; constructor; [exact IH|].
  apply Forall_forall. intros z Hz. apply in_map_iff in Hz. destruct Hz as (a0 & <- & Hin).
  rewrite Forall_forall in Ha. exact (Ha a0 Hin).
Qed.

Lemma F2_nth a b : Forall2 Qeq a b -> forall i, (nth i a 0 == nth i b 0)%Q.
Proof.
  intros H. induction H as [|p q a b Hpq H IH]; intros i.
  - destruct i; reflexivity.
  - destruct i as [|i]; cbn [nth]; [exact Hpq| apply IH].
Qed.

Lemma F2_In a b : Forall2 Qeq a b -> forall v, In v a -> exists v', In v' b /\ (v == v')%Q.
Proof.
  intros H. induction H as [|p q a b Hpq H IH]; intros v Hin.
  - destruct Hin.
  - destruct Hin as [<-|Hin].
    + exists q. split; [left; reflexivity| exact Hpq].
    + destruct (IH v Hin) as (v' & H1 & H2). exists v'. split; [right; exact H1| exact H2].
Qed.

Lemma nth_repeat_lt (v : Q) n k d : (k < n)%nat -> nth k (repeat v n) d = v.
Proof.
  intros H. rewrite (nth_indep (repeat v n) d v) by (rewrite repeat_length; exact H).
  apply nth_repeat.
Qed.

Lemma exists_min (A : Type) (f : A -> Q) : forall l : list A, l <> [] ->
  exists m, In m l /\ forall e, In e l -> (f m <= f e)%Q.
Proof.
  induction l as [|a l IH]; intros Hn; [congruence|].
  destruct l as [|b l'].
  - exists a. split; [left; reflexivity|]. intros e [<-|[]]. apply Qle_refl.
  - destruct (IH ltac:(discriminate)) as (m & Hm & Hmin).
    destruct (Qlt_le_dec (f a) (f m)) as [Hlt|Hle].
    + exists a. split; [left; reflexivity|]. intros e [<-|He]; [apply Qle_refl|].
      apply Qlt_le_weak. eapply Qlt_le_trans; [exact Hlt| exact (Hmin e He)].
    + exists m. split; [right; exact Hm|]. intros e [<-|He]; [exact Hle| exact (Hmin e He)].
Qed.

Lemma exists_max (A : Type) (f : A -> Q) : forall l : list A, l <> [] ->
  exists m, In m l /\ forall e, In e l -> (f e <= f m)%Q.
Proof.
  induction l as [|a l IH]; intros Hn; [congruence|].
  destruct l as [|b l'].
  - exists a. split; [left; reflexivity|]. intros e [<-|[]]. apply Qle_refl.
  - destruct (IH ltac:(discriminate)) as (m & Hm & Hmax).
    destruct (Qlt_le_dec (f m) (f a)) as [Hlt|Hle].
    + exists a. split; [left; reflexivity|]. intros e [<-|He]; [apply Qle_refl|].
      apply Qlt_le_weak. eapply Qle_lt_trans; [exact (Hmax e He)| exact Hlt].
    + exists m. split; [right; exact Hm|]. intros e [<-|He]; [exact Hle| exact (Hmax e He)].
Qed.

(* ---------- values and lengths of the blocks ---------- *)

Fixpoint st (from : nat) (vs : list (Q * nat)) : list nat :=
  match vs with [] => [from] | p :: vs' => from :: st (from + snd p) vs' end.
Definition fm (vs : list (Q * nat)) : list Q := flat_map (fun p => repeat (fst p) (snd p)) vs.

Lemma st_hd from vs : nth 0 (st from vs) 0%nat = from.
Proof. destruct vs; reflexivity. Qed.

Lemma fm_cons v n vs : fm ((v, n) :: vs) = repeat v n ++ fm vs.
Proof. reflexivity. Qed.

Lemma nth_block : forall vs from j i, (j < length vs)%nat ->
  (nth j (st from vs) 0 <= i < nth (S j) (st from vs) 0)%nat ->
  (from <= i)%nat /\ nth (i - from) (fm vs) 0%Q = fst (nth j vs (0%Q, 0%nat)).
Proof.
  induction vs as [|[v n] vs IH]; intros from j i Hj Hi; [simpl in Hj; lia|].
  cbn [length] in Hj. destruct j as [|j].
  - cbn [st nth snd] in Hi. rewrite st_hd in Hi. split; [lia|].
    rewrite fm_cons. cbn [nth fst].
    rewrite app_nth1 by (rewrite repeat_length; lia).
    apply nth_repeat_lt. lia.
  - cbn [st nth snd] in Hi.
    destruct (IH (from + n)%nat j i ltac:(lia) Hi) as [H1 H2]. split; [lia|].
    rewrite fm_cons. cbn [nth].
    rewrite app_nth2 by (rewrite repeat_length; lia). rewrite repeat_length.
    replace (i - from - n)%nat with (i - (from + n))%nat by lia. exact H2.
Qed.

Section Contract.
Variable I : GInst.
Notation E := (g_elt I).

Definition vs_of (bs : list (blk E)) : list (Q * nat) :=
  map (fun b => (bv b, length (bel b))) bs.

Lemma expand_fm (bs : list (blk E)) :
  flat_map (fun b => repeat (bv b) (length (bel b))) bs = fm (vs_of bs).
Proof.
  induction bs as [|b bs IH]; [reflexivity|].
  cbn [flat_map vs_of map]. rewrite fm_cons, IH. reflexivity.
Qed.

Lemma starts_st : forall (bs : list (blk E)) from, starts E from bs = st from (vs_of bs).
Proof.
  induction bs as [|b bs IH]; intros from; [reflexivity|].
  cbn [starts vs_of map st snd]. rewrite IH. reflexivity.
Qed.

Theorem contract_inc stk x : stack_ok I stk -> Forall2 Qeq x (expand E stk) ->
  contract (map (g_yv I) (flat E stk)) x (rvec E stk).
Proof.
  intros Hok HQ.
  pose proof (rvec_increasing I stk Hok) as Hinc.
  pose proof (rvec_length I stk) as Hrl.
  set (vs := vs_of (rev stk)).
  assert (Hvl : length vs = length stk).
  { unfold vs, vs_of. rewrite map_length, rev_length. reflexivity. }
  assert (Ex : expand E stk = fm vs) by (unfold expand, vs; apply expand_fm).
  assert (Er : rvec E stk = st 0 vs) by (unfold rvec, vs; apply starts_st).
  assert (Hvinc : StronglySorted (fun p q => (fst p < fst q)%Q) vs).
  { unfold vs, vs_of. apply SS_map. cbn [fst]. apply blocks_increasing. exact Hok. }
  (* the value at any position of block j *)
  assert (Hblk : forall j i, (j < length vs)%nat ->
            (nth j (rvec E stk) 0 <= i < nth (S j) (rvec E stk) 0)%nat ->
            (nth i x 0 == fst (nth j vs (0%Q, 0%nat)))%Q).
  { intros j i Hj Hi. rewrite (F2_nth x _ HQ i), Ex. rewrite Er in Hi.
    destruct (nth_block vs 0%nat j i Hj Hi) as [_ H2].
    rewrite Nat.sub_0_r in H2. rewrite H2. reflexivity. }
  unfold contract.
  split. { rewrite (F2_length _ _ _ _ _ HQ), expand_length, map_length. reflexivity. }
  split. { apply rvec_hd. }
  split. { rewrite rvec_last, map_length. reflexivity. }
  split. { exact Hinc. }
  split.
  { intros j i Hj Hi. rewrite Hrl in Hj.
    assert (Hj' : (j < length vs)%nat) by lia.
    rewrite (Hblk j i Hj' Hi). symmetry. apply (Hblk j _ Hj'). lia. }
  split.
  { intros j Hj. rewrite Hrl in Hj.
    pose proof (SS_nth nat lt 0%nat _ Hinc j (S j) ltac:(lia)) as H1.
    pose proof (SS_nth nat lt 0%nat _ Hinc (S j) (S (S j)) ltac:(lia)) as H2.
    rewrite (Hblk j (nth j (rvec E stk) 0%nat) ltac:(lia) ltac:(lia)).
    rewrite (Hblk (S j) (nth (S j) (rvec E stk) 0%nat) ltac:(lia) ltac:(lia)).
    pose proof (SS_nth _ _ (0%Q, 0%nat) _ Hvinc j (S j) ltac:(lia)) as H3.
    cbv beta in H3. intros Heq. rewrite Heq in H3. exact (Qlt_irrefl _ H3). }
  intros v Hv.
  destruct (F2_In x _ HQ v Hv) as (v' & Hv' & Evv).
  rewrite expand_blocks in Hv'. apply in_flat_map in Hv'. destruct Hv' as (b & Hb & Hrep).
  apply repeat_spec in Hrep. subst v'. apply in_rev in Hb.
  pose proof (stack_ok_nonempty I stk Hok) as Hne. rewrite Forall_forall in Hne.
  pose proof (Hne b Hb) as Hbn. cbv beta in Hbn.
  destruct (exists_min E (g_yv I) (bel b) Hbn) as (em & Hem & Hmin).
  destruct (exists_max E (g_yv I) (bel b) Hbn) as (eM & HeM & Hmax).
  assert (Hsub : forall e, In e (bel b) -> In (g_yv I e) (map (g_yv I) (flat E stk))).
  { intros e He. apply in_map. unfold flat. apply in_concat.
    exists (bel b). split; [|exact He]. apply in_map. apply in_rev. rewrite rev_involutive. exact Hb. }
  exists (g_yv I em), (g_yv I eM).
  split; [exact (Hsub em Hem)|]. split; [exact (Hsub eM HeM)|].
  pose proof (block_range I stk b Hok Hb (g_yv I em) (g_yv I eM)
                (fun e He => conj (Hmin e He) (Hmax e He))) as [H1 H2].
  rewrite Evv. split; assumption.
Qed.

End Contract.

(* ---------- the contract survives the reversal of lines 420-422 ---------- *)

Lemma contract_rev y x r : contract y x r ->
  contract (rev y) (rev x) (map (fun k => (length x - k)%nat) (rev r)).
Proof.
  intros (Hlen & Hhd & Hlast & Hinc & Hconst & Hdiff & Hrange).
  set (n := length x). set (m := length r).
  set (g := fun k => (n - k)%nat). set (r' := map g (rev r)).
  assert (Hr'l : length r' = m) by (unfold r'; rewrite map_length, rev_length; reflexivity).
  assert (Hnth' : forall j, (j < m)%nat -> nth j r' 0%nat = (n - nth (m - S j) r 0)%nat).
  { intros j Hj. unfold r'.
    rewrite (nth_indep _ 0%nat (g 0%nat)) by (rewrite map_length, rev_length; exact Hj).
    rewrite map_nth. rewrite rev_nth by exact Hj. reflexivity. }
  assert (Hmono : forall i j, (i < j < m)%nat -> (nth i r 0 < nth j r 0)%nat).
  { intros i j Hij. exact (SS_nth nat lt 0%nat r Hinc i j Hij). }
  assert (HlastN : nth (m - 1) r 0%nat = n).
  { rewrite last_nth in Hlast. fold m in Hlast. unfold n. rewrite Hlen. exact Hlast. }
  assert (Hfst0 : nth 0 r 0%nat = 0%nat) by (rewrite <- hd_nth0; exact Hhd).
  assert (Hle : forall k, (k < m)%nat -> (nth k r 0 <= n)%nat).
  { intros k Hk. destruct (Nat.eq_dec k (m - 1)) as [->|Hne]; [lia|].
    pose proof (Hmono k (m - 1)%nat ltac:(lia)) as H. lia. }
  (* a position of block j of r' is a position of block m-2-j of r *)
  assert (Hpos : forall j i, (S j < m)%nat -> (nth j r' 0 <= i < nth (S j) r' 0)%nat ->
            (nth i (rev x) 0 == nth (nth (m - S (S j)) r 0%nat) x 0)%Q).
  { intros j i Hj Hi. rewrite !Hnth' in Hi by lia.
    assert (Ej : (m - S j = S (m - S (S j)))%nat) by lia.
    pose proof (Hmono (m - S (S j))%nat (m - S j)%nat ltac:(lia)) as Hab.
    pose proof (Hle (m - S j)%nat ltac:(lia)) as Hb.
    rewrite rev_nth by (fold n; lia). fold n.
    apply Hconst; [fold m; lia|]. rewrite <- Ej. lia. }
  unfold contract. fold n. fold g. fold r'.
  split. { rewrite !rev_length. exact Hlen. }
  split.
  { rewrite hd_nth0. destruct (Nat.eq_dec m 0) as [Hm|Hm].
    - apply nth_overflow. lia.
    - rewrite Hnth' by lia. lia. }
  split.
  { rewrite last_nth, Hr'l, rev_length, <- Hlen. fold n.
    destruct (Nat.eq_dec m 0) as [Hm|Hm].
    - rewrite nth_overflow by lia. rewrite nth_overflow in HlastN by (fold m; lia). lia.
    - rewrite Hnth' by lia. replace (m - S (m - 1))%nat with 0%nat by lia. lia. }
  split.
  { apply (nth_SS nat lt 0%nat). intros i j Hij. rewrite Hr'l in Hij.
    rewrite !Hnth' by lia.
    pose proof (Hmono (m - S j)%nat (m - S i)%nat ltac:(lia)) as H1.
    pose proof (Hle (m - S i)%nat ltac:(lia)) as H2. lia. }
  split.
  { intros j i Hj Hi. rewrite Hr'l in Hj.
    rewrite (Hpos j i Hj Hi). symmetry. apply (Hpos j); [exact Hj|].
    rewrite !Hnth' by lia.
    pose proof (Hmono (m - S (S j))%nat (m - S j)%nat ltac:(lia)) as Hab.
    pose proof (Hle (m - S j)%nat ltac:(lia)) as Hb. lia. }
  split.
  { intros j Hj. rewrite Hr'l in Hj.
    assert (H1 : (nth j r' 0 <= nth j r' 0 < nth (S j) r' 0)%nat).
    { rewrite !Hnth' by lia.
      pose proof (Hmono (m - S (S j))%nat (m - S j)%nat ltac:(lia)) as Hab.
      pose proof (Hle (m - S j)%nat ltac:(lia)) as Hb. lia. }
    assert (H2 : (nth (S j) r' 0 <= nth (S j) r' 0 < nth (S (S j)) r' 0)%nat).
    { rewrite !Hnth' by lia.
      pose proof (Hmono (m - S (S (S j)))%nat (m - S (S j))%nat ltac:(lia)) as Hab.
      pose proof (Hle (m - S (S j))%nat ltac:(lia)) as Hb. lia. }
    rewrite (Hpos j _ ltac:(lia) H1), (Hpos (S j) _ ltac:(lia) H2).
    intros Heq. apply (Hdiff (m - S (S (S j)))%nat); [fold m; lia|].
    replace (S (m - S (S (S j))))%nat with (m - S (S j))%nat by lia.
    symmetry. exact Heq. }
  intros v Hv. apply in_rev in Hv.
  destruct (Hrange v Hv) as (lo & hi & Hlo & Hhi & Hb).
  exists lo, hi. split; [apply -> in_rev; exact Hlo|]. split; [apply -> in_rev; exact Hhi| exact Hb].
Qed.

(* ---------- the contract of every successful run ---------- *)

Lemma run_contract I l inc x r : run I l inc x r -> contract (map (g_yv I) l) x r.
Proof.
  intros (stk & x0 & _ & Hok & Hflat & HQ & Ex & Er).
  pose proof (contract_inc I stk x0 Hok HQ) as HC. rewrite Hflat in HC.
  destruct inc; cbn [dir] in *.
  - subst x r. exact HC.
  - subst x r. apply contract_rev in HC.
    rewrite <- map_rev, rev_involutive in HC. exact HC.
Qed.

Lemma map_fst_combine (A B : Type) : forall (a : list A) (b : list B),
  length a = length b -> map fst (combine a b) = a.
Proof.
  induction a as [|p a IH]; intros b Hlen; [reflexivity|].
  destruct b as [|q b]; [discriminate Hlen|].
  cbn [length] in Hlen. injection Hlen as Hlen.
  cbn [combine map fst]. rewrite (IH b Hlen). reflexivity.
Qed.

Lemma map_ey_data y weights : valid_w y weights -> map ey (data y weights) = y.
Proof.
  intros Hv. unfold data.
  change (map ey (combine y (weights_of y weights)))
    with (map fst (combine y (weights_of y weights))).
  apply map_fst_combine. symmetry. apply weights_of_length. exact Hv.
Qed.

Theorem iso_contract : forall f y weights inc lvl x r,
  (f = IFmean \/ (f = IFexpectile /\ (0 < lvl /\ lvl < 1)%Q)) ->
  y <> [] -> valid_w y weights -> isotonic_regression y weights inc f lvl = IOk (x, r) ->
  length x = length y /\
  hd 0%nat r = 0%nat /\ last r 0%nat = length y /\ StronglySorted lt r /\
  (* constant inside a block, different between adjacent blocks *)
  (forall j i, (S j < length r)%nat -> (nth j r 0 <= i < nth (S j) r 0)%nat ->
     (nth i x 0 == nth (nth j r 0%nat) x 0)%Q) /\
  (forall j, (S (S j) < length r)%nat ->
     ~ (nth (nth j r 0%nat) x 0 == nth (nth (S j) r 0%nat) x 0)%Q) /\
  (* range *)
  (forall v, In v x -> exists lo hi, In lo y /\ In hi y /\ (lo <= v /\ v <= hi)%Q).
Proof.
  intros f y weights inc lvl x r Hf Hn Hv H.
  assert (HC : contract y x r).
  { destruct Hf as [->|[-> Hl]].
    - pose proof (run_contract _ _ _ _ _ (run_mean y weights inc lvl x r Hn Hv H)) as HC.
      change (contract (map ey (data y weights)) x r) in HC. rewrite (map_ey_data y weights Hv) in HC. exact HC.
    - pose proof (run_contract _ _ _ _ _ (run_expectile y weights inc lvl Hl x r Hn Hv H)) as HC.
      change (contract (map ey (data y weights)) x r) in HC. rewrite (map_ey_data y weights Hv) in HC. exact HC. }
  exact HC.
Qed.

Print Assumptions iso_mean_total.
Print Assumptions iso_expectile_total.
Print Assumptions iso_mean_optimal.
Print Assumptions iso_mean_unique.
Print Assumptions iso_mean_totals.
Print Assumptions iso_expectile_optimal.
Print Assumptions iso_expectile_unique.
Print Assumptions iso_expectile_half_is_mean.
Print Assumptions iso_contract.
