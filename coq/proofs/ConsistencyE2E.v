(* C05 / C15, END TO END: the constant forecast equal to the sample's own
   EXECUTABLE functional (model/Functionals.v: wmean, expectile_Q a, every
   rational value in [qlow a, qupp a]) has a total (hence average) score not
   larger than any other admissible constant forecast.

   proofs/Consistency.v proves consistency for a real sample from the
   FIRST-ORDER CONDITION of the functional; proofs/IdentProps.v and
   theory/Inst*.v prove, in world Q, that the executable functionals satisfy
   those conditions.  This file joins the two:

     S  : list elt                    rational sample, elt = (y, w)
     embed  S = [(Q2R y_i, Q2R w_i)]  its real embedding (weighted)
     embed1 S = [(Q2R y_i, 1)]        the same observations, weights ignored
                                      (the library's quantile ignores weights)

   Section 1  bridge: Consistency.wsumV on the embedding = Q2R of the Q-world
              sums hi / lo, and = the option-valued IdentProps.wsumV of the
              GENERATED identification function.
   Section 2  first-order conditions at wmean, expectile_Q, [qlow, qupp].
   Section 3  domain side conditions derived from the data (wmean_in_domain ...).
   Section 4  C05 end to end.
   Section 5  C15 (elementary scores) end to end.
   World R results depend only on the allowed classical axioms of Reals. *)
From Coq Require Import QArith Qreals Reals Lqa Lra Lia List Bool.
Import ListNotations.
From MD Require Import lib.NumpyR lib.NumpyR2 lib.QLists spec.Scores theory.Powers
  theory.Bregman gen.Gen_ident bridge.Bridge_scoring proofs.ScoreProps
  model.Functionals theory.GpavaMerge theory.InstMean theory.InstExpectile
  theory.InstQuantile proofs.IdentProps proofs.Consistency.
Open Scope R_scope.

(* ================================================================== *)
(* 0. the embedding                                                    *)

Definition embed (S : list elt) : list (R * R) :=
  map (fun e => (Q2R (ey e), Q2R (ew e))) S.
Definition embed1 (S : list elt) : list (R * R) :=
  map (fun e => (Q2R (ey e), 1)) S.

Definition unitw (e : elt) : Prop := (ew e == 1)%Q.

Lemma embed_nonempty S : S <> [] -> embed S <> [].
Proof. intros Sn. destruct S; [congruence | discriminate]. Qed.
Lemma embed1_nonempty S : S <> [] -> embed1 S <> [].
Proof. intros Sn. destruct S; [congruence | discriminate]. Qed.

(* with unit weights the two embeddings coincide *)
Lemma embed_unit S : Forall unitw S -> embed S = embed1 S.
Proof.
  intros HU. induction HU as [| e S' He _ IH].
  - reflexivity.
  - unfold embed, embed1 in *. cbn [map]. rewrite IH.
    unfold unitw in He. rewrite (Qeq_eqR _ _ He), Q2R_1. reflexivity.
Qed.

Lemma embed_posw S : Forall posw S -> Forall (fun e : R * R => 0 < snd e) (embed S).
Proof.
  intros G. induction G as [| e S' He _ IH].
  - constructor.
  - unfold embed in *. cbn [map]. constructor; [| exact IH].
    cbn [snd]. unfold posw in He. rewrite <- Q2R_0. apply Qlt_Rlt. exact He.
Qed.

Lemma embed1_posw S : Forall (fun e : R * R => 0 < snd e) (embed1 S).
Proof.
  induction S as [| e S' IH].
  - constructor.
  - unfold embed1 in *. cbn [map]. constructor; [cbn [snd]; lra | exact IH].
Qed.

Lemma embed_fst (P : R -> Prop) S :
  Forall (fun e => P (Q2R (ey e))) S -> Forall (fun e : R * R => P (fst e)) (embed S).
Proof.
  intros G. induction G as [| e S' He _ IH].
  - constructor.
  - unfold embed in *. cbn [map]. constructor; [exact He | exact IH].
Qed.

Lemma embed1_fst (P : R -> Prop) S :
  Forall (fun e => P (Q2R (ey e))) S -> Forall (fun e : R * R => P (fst e)) (embed1 S).
Proof.
  intros G. induction G as [| e S' He _ IH].
  - constructor.
  - unfold embed1 in *. cbn [map]. constructor; [exact He | exact IH].
Qed.

(* ================================================================== *)
(* 1. bridge lemmas                                                    *)

(* Consistency.wsumV on the embedded sample is the embedded Q-world sum *)
Lemma wsumV_embed_hi (V : R -> R -> R) (Vq : elt -> Q -> Q) (S : list elt) (t : Q) :
  (forall e, Q2R (ew e) * V (Q2R (ey e)) (Q2R t) = Q2R (Vq e t)) ->
  Consistency.wsumV V (embed S) (Q2R t) = Q2R (hi elt Vq S t).
Proof.
  intros HV. induction S as [| e S' IH].
  - cbn. rewrite Q2R_0. reflexivity.
  - unfold embed in *. cbn [map Consistency.wsumV hi].
    rewrite IH, Q2R_plus, HV. reflexivity.
Qed.

Lemma wsumV_embed1_hi (V : R -> R -> R) (Vq : elt -> Q -> Q) (S : list elt) (t : Q) :
  (forall e, V (Q2R (ey e)) (Q2R t) = Q2R (Vq e t)) ->
  Consistency.wsumV V (embed1 S) (Q2R t) = Q2R (hi elt Vq S t).
Proof.
  intros HV. induction S as [| e S' IH].
  - cbn. rewrite Q2R_0. reflexivity.
  - unfold embed1 in *. cbn [map Consistency.wsumV hi].
    rewrite IH, Q2R_plus, HV. ring.
Qed.

(* ... and it is the (option-valued) weighted sum of the GENERATED
   identification function of proofs/IdentProps.v *)
Lemma wsumV_gen_embed (f : fnl) (a : R) (V : R -> R -> R) (S : list elt) (t : R) :
  (forall y, gen_V f a y t = Ok (V y t)) ->
  IdentProps.wsumV f a S t = Some (Consistency.wsumV V (embed S) t).
Proof.
  intros HV. induction S as [| e S' IH].
  - reflexivity.
  - unfold embed in *. cbn [map IdentProps.wsumV Consistency.wsumV].
    rewrite HV, IH. reflexivity.
Qed.

Lemma sumV_gen_embed1 (f : fnl) (a : R) (V : R -> R -> R) (S : list elt) (t : R) :
  (forall y, gen_V f a y t = Ok (V y t)) ->
  IdentProps.sumV f a S t = Some (Consistency.wsumV V (embed1 S) t).
Proof.
  intros HV. induction S as [| e S' IH].
  - reflexivity.
  - unfold embed1 in *. cbn [map IdentProps.sumV Consistency.wsumV].
    rewrite HV, IH. apply f_equal. unfold y_R. ring.
Qed.

Lemma gen_V_mean a y t : gen_V Fmean a y t = Ok (Scores.V_mean y t).
Proof. rewrite bridge_V. reflexivity. Qed.

Lemma gen_V_expectile a y t : 0 < a < 1 ->
  gen_V Fexpectile a y t = Ok (Scores.V_expectile a y t).
Proof.
  intros Ha. rewrite bridge_V. cbn [spec_V]. rewrite (level_okb_true a Ha). reflexivity.
Qed.

Lemma gen_V_quantile a y t : 0 < a < 1 ->
  gen_V Fquantile a y t = Ok (Vp_q a y t).
Proof.
  intros Ha. rewrite bridge_V. cbn [spec_V]. rewrite (level_okb_true a Ha). reflexivity.
Qed.

(* the three concrete equalities *)
Lemma wsumV_mean_embed (S : list elt) (t : Q) :
  Consistency.wsumV Scores.V_mean (embed S) (Q2R t)
    = Q2R (hi elt Functionals.V_mean S t).
Proof.
  pose proof (IdentProps.wsumV_mean (1/2) S t) as H.
  rewrite (wsumV_gen_embed Fmean (1/2) Scores.V_mean S (Q2R t)
             (fun y => gen_V_mean (1/2) y (Q2R t))) in H.
  injection H as H. exact H.
Qed.

Lemma wsumV_mean_embed_closed (S : list elt) (t : Q) :
  Consistency.wsumV Scores.V_mean (embed S) (Q2R t)
    = Q2R t * Q2R (wtot S) - Q2R (wsum S).
Proof.
  rewrite wsumV_mean_embed, (Qeq_eqR _ _ (hi_mean S t)), Q2R_minus, Q2R_mult.
  reflexivity.
Qed.

Lemma wsumV_expectile_embed (a : Q) (S : list elt) (t : Q) : (0 < a /\ a < 1)%Q ->
  Consistency.wsumV (Scores.V_expectile (Q2R a)) (embed S) (Q2R t)
    = Q2R (hi elt (Functionals.V_expectile a) S t).
Proof.
  intros Ha. pose proof (IdentProps.wsumV_expectile a S t Ha) as H.
  rewrite (wsumV_gen_embed Fexpectile (Q2R a) (Scores.V_expectile (Q2R a)) S (Q2R t)
             (fun y => gen_V_expectile (Q2R a) y (Q2R t) (level_R a Ha))) in H.
  injection H as H. exact H.
Qed.

(* quantile: right (non-strict) and left (strict) identification sums are
   counts minus level * n *)
Lemma Rltb_Q (y t : Q) :
  (if Rltb (Q2R y) (Q2R t) then 1 else 0) = if Functionals.leb t y then 0 else 1.
Proof.
  destruct (leb_spec t y) as [[H E] | [H E]]; rewrite E.
  - rewrite (proj2 (Rltb_false (Q2R y) (Q2R t)) (Qle_Rle _ _ H)). reflexivity.
  - rewrite (proj2 (Rltb_true (Q2R y) (Q2R t)) (Qlt_Rlt _ _ H)). reflexivity.
Qed.

Lemma Vp_q_Q (a : Q) (e : elt) (t : Q) :
  Vp_q (Q2R a) (Q2R (ey e)) (Q2R t) = Q2R (Vp_quantile a e t).
Proof.
  unfold Vp_q, Vp_quantile. rewrite Q2R_minus, ge_ind_Q.
  destruct (Functionals.leb (ey e) t); [rewrite Q2R_1 | rewrite Q2R_0]; reflexivity.
Qed.

Lemma Vm_q_Q (a : Q) (e : elt) (t : Q) :
  Vm_q (Q2R a) (Q2R (ey e)) (Q2R t) = Q2R (Vm_quantile a e t).
Proof.
  unfold Vm_q, Vm_quantile. rewrite Q2R_minus, Rltb_Q.
  destruct (Functionals.leb t (ey e)); [rewrite Q2R_0 | rewrite Q2R_1]; reflexivity.
Qed.

Lemma wsumV_Vp_embed1 (a : Q) (S : list elt) (t : Q) :
  Consistency.wsumV (Vp_q (Q2R a)) (embed1 S) (Q2R t)
    = INR (count_le S t) - Q2R a * INR (length S).
Proof.
  rewrite (wsumV_embed1_hi (Vp_q (Q2R a)) (Vp_quantile a) S t
             (fun e => Vp_q_Q a e t)).
  rewrite (Qeq_eqR _ _ (hi_quantile a S t)).
  rewrite Q2R_minus, Q2R_mult, !Q2R_Qnat. reflexivity.
Qed.

Lemma wsumV_Vm_embed1 (a : Q) (S : list elt) (t : Q) :
  Consistency.wsumV (Vm_q (Q2R a)) (embed1 S) (Q2R t)
    = INR (count_lt S t) - Q2R a * INR (length S).
Proof.
  rewrite (wsumV_embed1_hi (Vm_q (Q2R a)) (Vm_quantile a) S t
             (fun e => Vm_q_Q a e t)).
  rewrite <- (lo_eq_hi (Vm_quantile a) S t).
  rewrite (Qeq_eqR _ _ (lo_quantile a S t)).
  rewrite Q2R_minus, Q2R_mult, !Q2R_Qnat. reflexivity.
Qed.

(* consistency with IdentProps.V_quantile_sum (generated V, unweighted sum) *)
Lemma wsumV_Vp_embed1_gen (a : Q) (S : list elt) (t : Q) : (0 < a /\ a < 1)%Q ->
  IdentProps.sumV Fquantile (Q2R a) S (Q2R t)
    = Some (Consistency.wsumV (Vp_q (Q2R a)) (embed1 S) (Q2R t)).
Proof.
  intros Ha. apply sumV_gen_embed1. intros y.
  apply gen_V_quantile. apply level_R. exact Ha.
Qed.

(* ================================================================== *)
(* 2. first-order conditions of the executable functionals             *)

Theorem foc_wmean : forall S, S <> [] -> Forall posw S ->
  Consistency.wsumV Scores.V_mean (embed S) (Q2R (wmean S)) = 0.
Proof.
  intros S Sn G. pose proof (V_mean_zero S Sn G) as H.
  rewrite (wsumV_gen_embed Fmean (1/2) Scores.V_mean S (Q2R (wmean S))
             (fun y => gen_V_mean (1/2) y (Q2R (wmean S)))) in H.
  injection H as H. exact H.
Qed.

Theorem foc_expectile : forall a S, (0 < a /\ a < 1)%Q -> S <> [] -> Forall posw S ->
  Consistency.wsumV (Scores.V_expectile (Q2R a)) (embed S) (Q2R (expectile_Q a S)) = 0.
Proof.
  intros a S Ha Sn G. pose proof (V_expectile_zero a S Ha Sn G) as H.
  rewrite (wsumV_gen_embed Fexpectile (Q2R a) (Scores.V_expectile (Q2R a)) S
             (Q2R (expectile_Q a S))
             (fun y => gen_V_expectile (Q2R a) y _ (level_R a Ha))) in H.
  injection H as H. exact H.
Qed.

(* counting characterisation of the interval [qlow, qupp] *)
Lemma count_lt_mono l t t' : (t <= t')%Q -> (count_lt l t <= count_lt l t')%nat.
Proof.
  intros L. rewrite !count_lt_cnt. apply cnt_mono. intros e _.
  rewrite !nleb_true_iff. intros H. Lqa.lra.
Qed.

Theorem between_quantiles_counts : forall a S t, (0 < a /\ a < 1)%Q -> S <> [] ->
  (qlow a S <= t)%Q -> (t <= qupp a S)%Q ->
  (Qnat (count_lt S t) <= a * Qnat (length S))%Q /\
  (a * Qnat (length S) <= Qnat (count_le S t))%Q.
Proof.
  intros a S t Ha Sn Hlo Hup. split.
  - pose proof (qupp_spec1 a Ha S Sn) as H1.
    pose proof (proj1 (Qnat_le _ _) (count_lt_mono S t (qupp a S) Hup)) as H2.
    Lqa.lra.
  - pose proof (qlow_reaches a Ha S Sn) as H1.
    pose proof (proj1 (Qnat_le _ _) (count_le_mono S (qlow a S) t Hlo)) as H2.
    Lqa.lra.
Qed.

(* and conversely: exactly the values between the two quantiles satisfy both
   counting conditions *)
Theorem counts_between_quantiles : forall a S t, (0 < a /\ a < 1)%Q -> S <> [] ->
  (Qnat (count_lt S t) <= a * Qnat (length S))%Q ->
  (a * Qnat (length S) <= Qnat (count_le S t))%Q ->
  (qlow a S <= t)%Q /\ (t <= qupp a S)%Q.
Proof.
  intros a S t Ha Sn H1 H2. split.
  - apply (qlow_least a Ha S t Sn H2).
  - apply (qupp_greatest a Ha S t Sn H1).
Qed.

Theorem foc_quantile : forall a S t, (0 < a /\ a < 1)%Q -> S <> [] ->
  (qlow a S <= t)%Q -> (t <= qupp a S)%Q ->
  Consistency.wsumV (Vm_q (Q2R a)) (embed1 S) (Q2R t) <= 0 /\
  0 <= Consistency.wsumV (Vp_q (Q2R a)) (embed1 S) (Q2R t).
Proof.
  intros a S t Ha Sn Hlo Hup.
  destruct (between_quantiles_counts a S t Ha Sn Hlo Hup) as [H1 H2].
  apply Qle_Rle in H1. apply Qle_Rle in H2.
  rewrite Q2R_mult, !Q2R_Qnat in H1, H2.
  rewrite wsumV_Vm_embed1, wsumV_Vp_embed1. split; lra.
Qed.

(* ================================================================== *)
(* 3. domain side conditions derived from the data                     *)

(* a sum of non-positive terms with one negative term is negative *)
Lemma hi_nonpos_of_terms (Vq : elt -> Q -> Q) (S : list elt) (t : Q) :
  Forall (fun e => Vq e t <= 0)%Q S -> (hi elt Vq S t <= 0)%Q.
Proof.
  intros HA. induction HA as [| e S' He _ IH]; cbn [hi]; [Lqa.lra |].
  cbv beta in He. Lqa.lra.
Qed.

Lemma hi_nonneg_of_terms (Vq : elt -> Q -> Q) (S : list elt) (t : Q) :
  Forall (fun e => 0 <= Vq e t)%Q S -> (0 <= hi elt Vq S t)%Q.
Proof.
  intros HA. induction HA as [| e S' He _ IH]; cbn [hi]; [Lqa.lra |].
  cbv beta in He. Lqa.lra.
Qed.

Lemma hi_neg_of_terms (Vq : elt -> Q -> Q) (S : list elt) (t : Q) :
  Forall (fun e => Vq e t <= 0)%Q S -> Exists (fun e => Vq e t < 0)%Q S ->
  (hi elt Vq S t < 0)%Q.
Proof.
  intros HA HE. induction HE as [e S' He | e S' HE IH].
  - inversion HA as [| e1 l1 _ HA']; subst.
    pose proof (hi_nonpos_of_terms Vq S' t HA') as Hs.
    cbn [hi]. cbv beta in He. Lqa.lra.
  - inversion HA as [| e1 l1 He1 HA']; subst.
    specialize (IH HA'). cbn [hi]. cbv beta in He1. Lqa.lra.
Qed.

Lemma hi_pos_of_terms (Vq : elt -> Q -> Q) (S : list elt) (t : Q) :
  Forall (fun e => 0 <= Vq e t)%Q S -> Exists (fun e => 0 < Vq e t)%Q S ->
  (0 < hi elt Vq S t)%Q.
Proof.
  intros HA HE. induction HE as [e S' He | e S' HE IH].
  - inversion HA as [| e1 l1 _ HA']; subst.
    pose proof (hi_nonneg_of_terms Vq S' t HA') as Hs.
    cbn [hi]. cbv beta in He. Lqa.lra.
  - inversion HA as [| e1 l1 He1 HA']; subst.
    specialize (IH HA'). cbn [hi]. cbv beta in He1. Lqa.lra.
Qed.

Lemma Forall_and {A} (P Q' : A -> Prop) (l : list A) :
  Forall P l -> Forall Q' l -> Forall (fun x => P x /\ Q' x) l.
Proof.
  intros HP. induction HP as [| x l' Hx _ IH]; intros HQ.
  - constructor.
  - inversion HQ as [| x1 l1 Hq HQ']; subst. constructor; [split; assumption | auto].
Qed.

Lemma Exists_and_Forall {A} (P Q' : A -> Prop) (l : list A) :
  Forall P l -> Exists Q' l -> Exists (fun x => P x /\ Q' x) l.
Proof.
  intros HP HE. induction HE as [x l' Hx | x l' HE IH].
  - inversion HP; subst. apply Exists_cons_hd. split; assumption.
  - inversion HP; subst. apply Exists_cons_tl. auto.
Qed.

(* generic: a root t of the identification sum of a functional whose V has
   the sign of (t - y) lies strictly above lb as soon as all observations are
   >= lb and one is > lb *)
Section RootBounds.
Variable Vq : elt -> Q -> Q.
Hypothesis Vq_lo : forall e t, posw e -> (t <= ey e)%Q -> (Vq e t <= 0)%Q.
Hypothesis Vq_lo_strict : forall e t, posw e -> (t < ey e)%Q -> (Vq e t < 0)%Q.
Hypothesis Vq_hi : forall e t, posw e -> (ey e <= t)%Q -> (0 <= Vq e t)%Q.
Hypothesis Vq_hi_strict : forall e t, posw e -> (ey e < t)%Q -> (0 < Vq e t)%Q.

Lemma root_above (S : list elt) (t lb : Q) :
  Forall posw S -> (hi elt Vq S t == 0)%Q ->
  Forall (fun e => lb <= ey e)%Q S -> Exists (fun e => lb < ey e)%Q S -> (lb < t)%Q.
Proof.
  intros G Hroot HA HE.
  destruct (Qlt_le_dec lb t) as [Hlt | Hge]; [exact Hlt | exfalso].
  assert (Hneg : (hi elt Vq S t < 0)%Q).
  { apply hi_neg_of_terms.
    - pose proof (Forall_and _ _ S G HA) as HB.
      apply Forall_forall. intros e He.
      destruct (proj1 (Forall_forall _ S) HB e He) as [Hw Hl].
      apply Vq_lo; [exact Hw | Lqa.lra].
    - pose proof (Exists_and_Forall _ _ S G HE) as HB.
      apply Exists_exists in HB. destruct HB as [e [He [Hw Hl]]].
      apply Exists_exists. exists e. split; [exact He |].
      apply Vq_lo_strict; [exact Hw | Lqa.lra]. }
  Lqa.lra.
Qed.

Lemma root_below (S : list elt) (t ub : Q) :
  Forall posw S -> (hi elt Vq S t == 0)%Q ->
  Forall (fun e => ey e <= ub)%Q S -> Exists (fun e => ey e < ub)%Q S -> (t < ub)%Q.
Proof.
  intros G Hroot HA HE.
  destruct (Qlt_le_dec t ub) as [Hlt | Hge]; [exact Hlt | exfalso].
  assert (Hpos : (0 < hi elt Vq S t)%Q).
  { apply hi_pos_of_terms.
    - pose proof (Forall_and _ _ S G HA) as HB.
      apply Forall_forall. intros e He.
      destruct (proj1 (Forall_forall _ S) HB e He) as [Hw Hl].
      apply Vq_hi; [exact Hw | Lqa.lra].
    - pose proof (Exists_and_Forall _ _ S G HE) as HB.
      apply Exists_exists in HB. destruct HB as [e [He [Hw Hl]]].
      apply Exists_exists. exists e. split; [exact He |].
      apply Vq_hi_strict; [exact Hw | Lqa.lra]. }
  Lqa.lra.
Qed.

(* weak versions: all observations >= lb gives t >= lb *)
Lemma root_ge (S : list elt) (t lb : Q) :
  S <> [] -> Forall posw S -> (hi elt Vq S t == 0)%Q ->
  Forall (fun e => lb <= ey e)%Q S -> (lb <= t)%Q.
Proof.
  intros Sn G Hroot HA.
  destruct (Qlt_le_dec t lb) as [Hlt | Hge]; [exfalso | exact Hge].
  assert (Hneg : (hi elt Vq S t < 0)%Q).
  { pose proof (Forall_and _ _ S G HA) as HB.
    apply hi_neg_of_terms.
    - apply Forall_forall. intros e He.
      destruct (proj1 (Forall_forall _ S) HB e He) as [Hw Hl].
      apply Vq_lo; [exact Hw | Lqa.lra].
    - destruct S as [| e0 S0]; [congruence |].
      inversion HB as [| e1 l1 [Hw Hl] _]; subst.
      apply Exists_cons_hd. apply Vq_lo_strict; [exact Hw | Lqa.lra]. }
  Lqa.lra.
Qed.

Lemma root_le (S : list elt) (t ub : Q) :
  S <> [] -> Forall posw S -> (hi elt Vq S t == 0)%Q ->
  Forall (fun e => ey e <= ub)%Q S -> (t <= ub)%Q.
Proof.
  intros Sn G Hroot HA.
  destruct (Qlt_le_dec ub t) as [Hlt | Hge]; [exfalso | exact Hge].
  assert (Hpos : (0 < hi elt Vq S t)%Q).
  { pose proof (Forall_and _ _ S G HA) as HB.
    apply hi_pos_of_terms.
    - apply Forall_forall. intros e He.
      destruct (proj1 (Forall_forall _ S) HB e He) as [Hw Hl].
      apply Vq_hi; [exact Hw | Lqa.lra].
    - destruct S as [| e0 S0]; [congruence |].
      inversion HB as [| e1 l1 [Hw Hl] _]; subst.
      apply Exists_cons_hd. apply Vq_hi_strict; [exact Hw | Lqa.lra]. }
  Lqa.lra.
Qed.
End RootBounds.

(* sign lemmas of the two identification functions in Q *)
Lemma VmeanQ_lo e t : posw e -> (t <= ey e)%Q -> (Functionals.V_mean e t <= 0)%Q.
Proof. unfold posw, Functionals.V_mean. intros Hw H. Lqa.nra. Qed.
Lemma VmeanQ_lo_strict e t : posw e -> (t < ey e)%Q -> (Functionals.V_mean e t < 0)%Q.
Proof. unfold posw, Functionals.V_mean. intros Hw H. Lqa.nra. Qed.
Lemma VmeanQ_hi e t : posw e -> (ey e <= t)%Q -> (0 <= Functionals.V_mean e t)%Q.
Proof. unfold posw, Functionals.V_mean. intros Hw H. Lqa.nra. Qed.
Lemma VmeanQ_hi_strict e t : posw e -> (ey e < t)%Q -> (0 < Functionals.V_mean e t)%Q.
Proof. unfold posw, Functionals.V_mean. intros Hw H. Lqa.nra. Qed.

Section ExpSigns.
Variable a : Q.
Hypothesis Ha : (0 < a /\ a < 1)%Q.

Lemma VexpQ_lo e t : posw e -> (t <= ey e)%Q -> (Functionals.V_expectile a e t <= 0)%Q.
Proof. intros Hw H. apply (InstExpectile.V_expectile_nonpos a Ha e t Hw H). Qed.
Lemma VexpQ_hi e t : posw e -> (ey e <= t)%Q -> (0 <= Functionals.V_expectile a e t)%Q.
Proof.
  intros Hw H. pose proof (InstExpectile.V_expectile_nonneg a Ha e t Hw H) as H0.
  Lqa.lra.
Qed.
Lemma VexpQ_self e : (Functionals.V_expectile a e (ey e) == 0)%Q.
Proof. unfold Functionals.V_expectile. ring. Qed.
Lemma VexpQ_lo_strict e t : posw e -> (t < ey e)%Q -> (Functionals.V_expectile a e t < 0)%Q.
Proof.
  intros Hw H.
  pose proof (InstExpectile.V_expectile_strict_mono a Ha e t (ey e) Hw H) as H0.
  pose proof (VexpQ_self e) as H1. Lqa.lra.
Qed.
Lemma VexpQ_hi_strict e t : posw e -> (ey e < t)%Q -> (0 < Functionals.V_expectile a e t)%Q.
Proof.
  intros Hw H.
  pose proof (InstExpectile.V_expectile_strict_mono a Ha e (ey e) t Hw H) as H0.
  pose proof (VexpQ_self e) as H1. Lqa.lra.
Qed.
End ExpSigns.

Lemma wmean_root S : S <> [] -> Forall posw S ->
  (hi elt Functionals.V_mean S (wmean S) == 0)%Q.
Proof.
  intros Sn G. rewrite hi_mean, (wmean_times_wtot S Sn G). ring.
Qed.

(* the weighted mean lies in the range of the observations ... *)
Theorem wmean_ge : forall S lb, S <> [] -> Forall posw S ->
  Forall (fun e => lb <= ey e)%Q S -> (lb <= wmean S)%Q.
Proof.
  intros S lb Sn G HA.
  apply (root_ge Functionals.V_mean VmeanQ_lo VmeanQ_lo_strict S (wmean S) lb Sn G
           (wmean_root S Sn G) HA).
Qed.

Theorem wmean_le : forall S ub, S <> [] -> Forall posw S ->
  Forall (fun e => ey e <= ub)%Q S -> (wmean S <= ub)%Q.
Proof.
  intros S ub Sn G HA.
  apply (root_le Functionals.V_mean VmeanQ_hi VmeanQ_hi_strict S (wmean S) ub Sn G
           (wmean_root S Sn G) HA).
Qed.

(* ... strictly inside as soon as one observation is *)
Theorem wmean_gt : forall S lb, S <> [] -> Forall posw S ->
  Forall (fun e => lb <= ey e)%Q S -> Exists (fun e => lb < ey e)%Q S -> (lb < wmean S)%Q.
Proof.
  intros S lb Sn G HA HE.
  apply (root_above Functionals.V_mean VmeanQ_lo VmeanQ_lo_strict S (wmean S) lb G
           (wmean_root S Sn G) HA HE).
Qed.

Theorem wmean_lt : forall S ub, S <> [] -> Forall posw S ->
  Forall (fun e => ey e <= ub)%Q S -> Exists (fun e => ey e < ub)%Q S -> (wmean S < ub)%Q.
Proof.
  intros S ub Sn G HA HE.
  apply (root_below Functionals.V_mean VmeanQ_hi VmeanQ_hi_strict S (wmean S) ub G
           (wmean_root S Sn G) HA HE).
Qed.

Theorem expectile_ge : forall a S lb, (0 < a /\ a < 1)%Q -> S <> [] -> Forall posw S ->
  Forall (fun e => lb <= ey e)%Q S -> (lb <= expectile_Q a S)%Q.
Proof.
  intros a S lb Ha Sn G HA.
  apply (root_ge (Functionals.V_expectile a) (VexpQ_lo a Ha) (VexpQ_lo_strict a Ha)
           S (expectile_Q a S) lb Sn G (expectile_Q_root a Ha S Sn G) HA).
Qed.

Theorem expectile_le : forall a S ub, (0 < a /\ a < 1)%Q -> S <> [] -> Forall posw S ->
  Forall (fun e => ey e <= ub)%Q S -> (expectile_Q a S <= ub)%Q.
Proof.
  intros a S ub Ha Sn G HA.
  apply (root_le (Functionals.V_expectile a) (VexpQ_hi a Ha) (VexpQ_hi_strict a Ha)
           S (expectile_Q a S) ub Sn G (expectile_Q_root a Ha S Sn G) HA).
Qed.

Theorem expectile_gt : forall a S lb, (0 < a /\ a < 1)%Q -> S <> [] -> Forall posw S ->
  Forall (fun e => lb <= ey e)%Q S -> Exists (fun e => lb < ey e)%Q S ->
  (lb < expectile_Q a S)%Q.
Proof.
  intros a S lb Ha Sn G HA HE.
  apply (root_above (Functionals.V_expectile a) (VexpQ_lo a Ha) (VexpQ_lo_strict a Ha)
           S (expectile_Q a S) lb G (expectile_Q_root a Ha S Sn G) HA HE).
Qed.

(* domains of the homogeneous scores.  domY h allows the observation 0 for
   0 < h <= 1 while domZ h requires a positive forecast: the sample mean of an
   all-zero sample is NOT an admissible forecast (the infimum of the score is
   not attained), so one positive observation is needed in that range. *)
Lemma domY_nonneg h y : ~ 1 < h -> domY h y -> 0 <= y.
Proof.
  intros Hh. unfold domY.
  destruct (hrange_cases h) as [[H1 E] | [[H1 E] | [[H1 E] | [H1 [H2 E]]]]]; rewrite E.
  - contradiction.
  - intros H. exact H.
  - intros H. lra.
  - destruct (Rltb 0 h); intros H; lra.
Qed.

Lemma domZ_of_pos h z : 0 < z -> domZ h z.
Proof. intros Hz. unfold domZ. destruct (hrange_of h); [exact I | exact Hz ..]. Qed.

Lemma domZ_gt1 h z : 1 < h -> domZ h z.
Proof.
  intros Hh. unfold domZ.
  destruct (hrange_cases h) as [[H1 E] | [[H1 E] | [[H1 E] | [H1 [H2 E]]]]]; rewrite E;
    [exact I | lra ..].
Qed.

Lemma Q2R_pos q : (0 < q)%Q -> 0 < Q2R q.
Proof. intros H. rewrite <- Q2R_0. apply Qlt_Rlt. exact H. Qed.
Lemma Q2R_nonneg_inv q : 0 <= Q2R q -> (0 <= q)%Q.
Proof. intros H. apply Rle_Qle. rewrite Q2R_0. exact H. Qed.

Lemma Forall_domY_nonneg h S : ~ 1 < h ->
  Forall (fun e => domY h (Q2R (ey e))) S -> Forall (fun e => 0 <= ey e)%Q S.
Proof.
  intros Hh HA. apply Forall_forall. intros e He.
  apply Q2R_nonneg_inv. apply (domY_nonneg h _ Hh).
  apply (proj1 (Forall_forall _ S) HA e He).
Qed.

(* the data condition under which the sample's functional is an admissible
   forecast: degree above 1 (whole real line), or one positive observation *)
Definition data_ok (h : R) (S : list elt) : Prop :=
  1 < h \/ Exists (fun e => 0 < ey e)%Q S.

Theorem wmean_in_domain : forall h S, S <> [] -> Forall posw S ->
  Forall (fun e => domY h (Q2R (ey e))) S -> data_ok h S ->
  domZ h (Q2R (wmean S)).
Proof.
  intros h S Sn G HY Hd.
  destruct (Rlt_dec 1 h) as [Hh | Hh]; [apply domZ_gt1; exact Hh |].
  destruct Hd as [Hd | Hd]; [contradiction |].
  apply domZ_of_pos. apply Q2R_pos.
  apply (wmean_gt S 0%Q Sn G (Forall_domY_nonneg h S Hh HY) Hd).
Qed.

Theorem expectile_in_domain : forall h a S, (0 < a /\ a < 1)%Q -> S <> [] -> Forall posw S ->
  Forall (fun e => domY h (Q2R (ey e))) S -> data_ok h S ->
  domZ h (Q2R (expectile_Q a S)).
Proof.
  intros h a S Ha Sn G HY Hd.
  destruct (Rlt_dec 1 h) as [Hh | Hh]; [apply domZ_gt1; exact Hh |].
  destruct Hd as [Hd | Hd]; [contradiction |].
  apply domZ_of_pos. apply Q2R_pos.
  apply (expectile_gt a S 0%Q Ha Sn G (Forall_domY_nonneg h S Hh HY) Hd).
Qed.

(* positive observations: the simplest sufficient data condition *)
Lemma data_ok_of_pos h S : S <> [] -> Forall (fun e => 0 < ey e)%Q S -> data_ok h S.
Proof.
  intros Sn HA. right. destruct S as [| e S']; [congruence |].
  inversion HA; subst. apply Exists_cons_hd. assumption.
Qed.

(* log loss: observations in [0,1], not all 0 and not all 1 *)
Theorem wmean_in_unit_interval : forall S, S <> [] -> Forall posw S ->
  Forall (fun e => 0 <= ey e /\ ey e <= 1)%Q S ->
  Exists (fun e => 0 < ey e)%Q S -> Exists (fun e => ey e < 1)%Q S ->
  0 < Q2R (wmean S) < 1.
Proof.
  intros S Sn G HA H0 H1.
  assert (HA0 : Forall (fun e => 0 <= ey e)%Q S).
  { apply Forall_forall. intros e He. apply (proj1 (Forall_forall _ S) HA e He). }
  assert (HA1 : Forall (fun e => ey e <= 1)%Q S).
  { apply Forall_forall. intros e He. apply (proj1 (Forall_forall _ S) HA e He). }
  pose proof (wmean_gt S 0%Q Sn G HA0 H0) as L0.
  pose proof (wmean_lt S 1%Q Sn G HA1 H1) as L1.
  apply Qlt_Rlt in L0. apply Qlt_Rlt in L1. rewrite Q2R_0 in L0. rewrite Q2R_1 in L1.
  split; assumption.
Qed.

(* quantile scores: every value from the lower quantile on inherits the
   domain of the observations, because qlow is an observation *)
Theorem quantile_in_domain : forall h a S t, (0 < a /\ a < 1)%Q -> S <> [] ->
  Forall (fun e => dQ_h h (Q2R (ey e))) S -> (qlow a S <= t)%Q ->
  dQ_h h (Q2R t).
Proof.
  intros h a S t Ha Sn HY Hlo.
  destruct (qlow_in_eq a Ha S Sn) as [e [He Eq]].
  pose proof (proj1 (Forall_forall _ S) HY e He) as Hd. cbv beta in Hd.
  destruct Hd as [Hd | Hd]; [left; exact Hd | right].
  rewrite <- Eq in Hd. apply Qle_Rle in Hlo. lra.
Qed.

(* ================================================================== *)
(* 4. C05 end to end                                                   *)

(* ---- mean ---- *)
Theorem mean_consistent_at_sample_mean : forall h S c,
  S <> [] -> Forall posw S ->
  Forall (fun e => domY h (Q2R (ey e))) S ->
  domZ h (Q2R (wmean S)) -> domZ h c ->
  wtotal (hes_val h (1/2)) (embed S) (Q2R (wmean S))
    <= wtotal (hes_val h (1/2)) (embed S) c.
Proof.
  intros h S c Sn G HY Ht Hc.
  apply (mean_consistent h (embed S) (Q2R (wmean S)) c
           (embed_nonempty S Sn) (embed_posw S G) (embed_fst (domY h) S HY) Ht Hc
           (foc_wmean S Sn G)).
Qed.

(* only assumptions on the data *)
Theorem mean_consistent_at_sample_mean_data : forall h S c,
  S <> [] -> Forall posw S ->
  Forall (fun e => domY h (Q2R (ey e))) S -> data_ok h S -> domZ h c ->
  wtotal (hes_val h (1/2)) (embed S) (Q2R (wmean S))
    <= wtotal (hes_val h (1/2)) (embed S) c.
Proof.
  intros h S c Sn G HY Hd Hc.
  apply (mean_consistent_at_sample_mean h S c Sn G HY
           (wmean_in_domain h S Sn G HY Hd) Hc).
Qed.

(* the plain Bregman form (squared error for h = 2, Poisson deviance h = 1, ...) *)
Theorem mean_consistent_at_sample_mean_breg : forall h S c,
  S <> [] -> Forall posw S ->
  Forall (fun e => domY h (Q2R (ey e))) S -> data_ok h S -> domZ h c ->
  wtotal (breg h) (embed S) (Q2R (wmean S)) <= wtotal (breg h) (embed S) c.
Proof.
  intros h S c Sn G HY Hd Hc.
  apply (mean_consistent_breg h (embed S) (Q2R (wmean S)) c
           (embed_nonempty S Sn) (embed_posw S G) (embed_fst (domY h) S HY)
           (wmean_in_domain h S Sn G HY Hd) Hc (foc_wmean S Sn G)).
Qed.

(* ---- log loss ---- *)
Theorem logloss_consistent_at_sample_mean : forall S c,
  S <> [] -> Forall posw S ->
  Forall (fun e => 0 <= Q2R (ey e) <= 1) S ->
  0 < Q2R (wmean S) < 1 -> 0 < c < 1 ->
  wtotal spec_logloss (embed S) (Q2R (wmean S)) <= wtotal spec_logloss (embed S) c.
Proof.
  intros S c Sn G HY Ht Hc.
  apply (logloss_consistent (embed S) (Q2R (wmean S)) c
           (embed_nonempty S Sn) (embed_posw S G)
           (embed_fst (fun y => 0 <= y <= 1) S HY) Ht Hc (foc_wmean S Sn G)).
Qed.

Theorem logloss_consistent_at_sample_mean_data : forall S c,
  S <> [] -> Forall posw S ->
  Forall (fun e => 0 <= ey e /\ ey e <= 1)%Q S ->
  Exists (fun e => 0 < ey e)%Q S -> Exists (fun e => ey e < 1)%Q S ->
  0 < c < 1 ->
  wtotal spec_logloss (embed S) (Q2R (wmean S)) <= wtotal spec_logloss (embed S) c.
Proof.
  intros S c Sn G HA H0 H1 Hc.
  apply (logloss_consistent_at_sample_mean S c Sn G); [| | exact Hc].
  - apply Forall_forall. intros e He.
    destruct (proj1 (Forall_forall _ S) HA e He) as [L0 L1].
    apply Qle_Rle in L0. apply Qle_Rle in L1.
    rewrite Q2R_0 in L0. rewrite Q2R_1 in L1. split; assumption.
  - apply (wmean_in_unit_interval S Sn G HA H0 H1).
Qed.

(* ---- expectile ---- *)
Theorem expectile_consistent_at_sample_expectile : forall h a S c,
  (0 < a /\ a < 1)%Q -> S <> [] -> Forall posw S ->
  Forall (fun e => domY h (Q2R (ey e))) S ->
  domZ h (Q2R (expectile_Q a S)) -> domZ h c ->
  wtotal (hes_val h (Q2R a)) (embed S) (Q2R (expectile_Q a S))
    <= wtotal (hes_val h (Q2R a)) (embed S) c.
Proof.
  intros h a S c Ha Sn G HY Ht Hc.
  apply (expectile_consistent h (Q2R a) (embed S) (Q2R (expectile_Q a S)) c
           (level_R a Ha) (embed_nonempty S Sn) (embed_posw S G)
           (embed_fst (domY h) S HY) Ht Hc (foc_expectile a S Ha Sn G)).
Qed.

Theorem expectile_consistent_at_sample_expectile_data : forall h a S c,
  (0 < a /\ a < 1)%Q -> S <> [] -> Forall posw S ->
  Forall (fun e => domY h (Q2R (ey e))) S -> data_ok h S -> domZ h c ->
  wtotal (hes_val h (Q2R a)) (embed S) (Q2R (expectile_Q a S))
    <= wtotal (hes_val h (Q2R a)) (embed S) c.
Proof.
  intros h a S c Ha Sn G HY Hd Hc.
  apply (expectile_consistent_at_sample_expectile h a S c Ha Sn G HY
           (expectile_in_domain h a S Ha Sn G HY Hd) Hc).
Qed.

(* ---- quantile ---- *)
(* weights ignored (embed1): every rational t in [qlow, qupp] *)
Theorem quantile_consistent_between_quantiles_unweighted : forall h a S t c,
  (0 < a /\ a < 1)%Q -> S <> [] ->
  Forall (fun e => dQ_h h (Q2R (ey e))) S -> dQ_h h c ->
  (qlow a S <= t)%Q -> (t <= qupp a S)%Q ->
  wtotal (hqs_val h (Q2R a)) (embed1 S) (Q2R t)
    <= wtotal (hqs_val h (Q2R a)) (embed1 S) c.
Proof.
  intros h a S t c Ha Sn HY Hc Hlo Hup.
  destruct (foc_quantile a S t Ha Sn Hlo Hup) as [Hm Hp].
  apply (quantile_consistent h (Q2R a) (embed1 S) (Q2R t) c
           (level_R a Ha) (embed1_nonempty S Sn) (embed1_posw S)
           (embed1_fst (dQ_h h) S HY)
           (quantile_in_domain h a S t Ha Sn HY Hlo) Hc Hm Hp).
Qed.

(* the weighted embedding with unit weights *)
Theorem quantile_consistent_between_quantiles : forall h a S t c,
  (0 < a /\ a < 1)%Q -> S <> [] -> Forall unitw S ->
  Forall (fun e => dQ_h h (Q2R (ey e))) S -> dQ_h h c ->
  (qlow a S <= t)%Q -> (t <= qupp a S)%Q ->
  wtotal (hqs_val h (Q2R a)) (embed S) (Q2R t)
    <= wtotal (hqs_val h (Q2R a)) (embed S) c.
Proof.
  intros h a S t c Ha Sn HU HY Hc Hlo Hup.
  rewrite (embed_unit S HU).
  apply (quantile_consistent_between_quantiles_unweighted h a S t c Ha Sn HY Hc Hlo Hup).
Qed.

(* the three values the library can report *)
Definition qmid (a : Q) (S : list elt) : Q := ((qlow a S + qupp a S) / 2)%Q.

Lemma qmid_between a S : (0 < a /\ a < 1)%Q -> S <> [] ->
  (qlow a S <= qmid a S)%Q /\ (qmid a S <= qupp a S)%Q.
Proof.
  intros Ha Sn. pose proof (qlow_le_qupp a Ha S Sn) as H. unfold qmid.
  split.
  - apply Qle_shift_div_l; Lqa.lra.
  - apply Qle_shift_div_r; Lqa.lra.
Qed.

Corollary quantile_consistent_at_qlow : forall h a S c,
  (0 < a /\ a < 1)%Q -> S <> [] -> Forall unitw S ->
  Forall (fun e => dQ_h h (Q2R (ey e))) S -> dQ_h h c ->
  wtotal (hqs_val h (Q2R a)) (embed S) (Q2R (qlow a S))
    <= wtotal (hqs_val h (Q2R a)) (embed S) c.
Proof.
  intros h a S c Ha Sn HU HY Hc.
  apply (quantile_consistent_between_quantiles h a S (qlow a S) c Ha Sn HU HY Hc).
  - apply Qle_refl.
  - apply (qlow_le_qupp a Ha S Sn).
Qed.

Corollary quantile_consistent_at_qupp : forall h a S c,
  (0 < a /\ a < 1)%Q -> S <> [] -> Forall unitw S ->
  Forall (fun e => dQ_h h (Q2R (ey e))) S -> dQ_h h c ->
  wtotal (hqs_val h (Q2R a)) (embed S) (Q2R (qupp a S))
    <= wtotal (hqs_val h (Q2R a)) (embed S) c.
Proof.
  intros h a S c Ha Sn HU HY Hc.
  apply (quantile_consistent_between_quantiles h a S (qupp a S) c Ha Sn HU HY Hc).
  - apply (qlow_le_qupp a Ha S Sn).
  - apply Qle_refl.
Qed.

Corollary quantile_consistent_at_midpoint : forall h a S c,
  (0 < a /\ a < 1)%Q -> S <> [] -> Forall unitw S ->
  Forall (fun e => dQ_h h (Q2R (ey e))) S -> dQ_h h c ->
  wtotal (hqs_val h (Q2R a)) (embed S) (Q2R (qmid a S))
    <= wtotal (hqs_val h (Q2R a)) (embed S) c.
Proof.
  intros h a S c Ha Sn HU HY Hc.
  destruct (qmid_between a S Ha Sn) as [H1 H2].
  apply (quantile_consistent_between_quantiles h a S (qmid a S) c Ha Sn HU HY Hc H1 H2).
Qed.

(* ================================================================== *)
(* 5. C15 end to end: elementary scores, every real eta, every real c  *)

Theorem elem_consistent_at_sample_mean : forall eta S c,
  S <> [] -> Forall posw S ->
  wtotal (elem_val Scores.V_mean eta) (embed S) (Q2R (wmean S))
    <= wtotal (elem_val Scores.V_mean eta) (embed S) c.
Proof.
  intros eta S c Sn G.
  apply (elem_consistent_mean eta (embed S) (Q2R (wmean S)) c
           (embed_posw S G) (foc_wmean S Sn G)).
Qed.

Theorem elem_consistent_at_sample_expectile : forall a eta S c,
  (0 < a /\ a < 1)%Q -> S <> [] -> Forall posw S ->
  wtotal (elem_val (Scores.V_expectile (Q2R a)) eta) (embed S) (Q2R (expectile_Q a S))
    <= wtotal (elem_val (Scores.V_expectile (Q2R a)) eta) (embed S) c.
Proof.
  intros a eta S c Ha Sn G.
  apply (elem_consistent_expectile (Q2R a) eta (embed S) (Q2R (expectile_Q a S)) c
           (level_R a Ha) (embed_posw S G) (foc_expectile a S Ha Sn G)).
Qed.

Theorem elem_consistent_between_quantiles_unweighted : forall a eta S t c,
  (0 < a /\ a < 1)%Q -> S <> [] ->
  (qlow a S <= t)%Q -> (t <= qupp a S)%Q ->
  wtotal (elem_val_strict (V_quantile (Q2R a)) eta) (embed1 S) (Q2R t)
    <= wtotal (elem_val_strict (V_quantile (Q2R a)) eta) (embed1 S) c.
Proof.
  intros a eta S t c Ha Sn Hlo Hup.
  destruct (foc_quantile a S t Ha Sn Hlo Hup) as [Hm Hp].
  apply (elem_consistent_quantile (Q2R a) eta (embed1 S) (Q2R t) c
           (level_R a Ha) (embed1_posw S) Hm Hp).
Qed.

Theorem elem_consistent_between_quantiles : forall a eta S t c,
  (0 < a /\ a < 1)%Q -> S <> [] -> Forall unitw S ->
  (qlow a S <= t)%Q -> (t <= qupp a S)%Q ->
  wtotal (elem_val_strict (V_quantile (Q2R a)) eta) (embed S) (Q2R t)
    <= wtotal (elem_val_strict (V_quantile (Q2R a)) eta) (embed S) c.
Proof.
  intros a eta S t c Ha Sn HU Hlo Hup.
  rewrite (embed_unit S HU).
  apply (elem_consistent_between_quantiles_unweighted a eta S t c Ha Sn Hlo Hup).
Qed.

(* the median: level 1/2, Q2R (1#2) = 1/2 *)
Lemma Q2R_half : Q2R (1#2) = 1/2.
Proof. unfold Q2R. cbn [Qnum Qden]. lra. Qed.

Lemma half_level_Q : (0 < (1#2) /\ (1#2) < 1)%Q.
Proof. split; Lqa.lra. Qed.

Theorem elem_consistent_at_median : forall eta S t c,
  S <> [] -> Forall unitw S ->
  (qlow (1#2) S <= t)%Q -> (t <= qupp (1#2) S)%Q ->
  wtotal (elem_val_strict (V_quantile (1/2)) eta) (embed S) (Q2R t)
    <= wtotal (elem_val_strict (V_quantile (1/2)) eta) (embed S) c.
Proof.
  intros eta S t c Sn HU Hlo Hup. rewrite <- Q2R_half.
  apply (elem_consistent_between_quantiles (1#2) eta S t c half_level_Q Sn HU Hlo Hup).
Qed.

(* ================================================================== *)
(* 5b. totals vs averages: the property text speaks about the AVERAGE    *)
(*     score; dividing both totals by the same positive weight sum       *)
(*     preserves the comparison                                          *)

Fixpoint wsumW (S : list (R * R)) : R :=
  match S with [] => 0 | (_, w) :: S' => w + wsumW S' end.
Definition wavg2 (sc : R -> R -> R) (S : list (R * R)) (c : R) : R :=
  wtotal sc S c / wsumW S.

Lemma wsumW_pos S : S <> [] -> Forall (fun e : R * R => 0 < snd e) S -> 0 < wsumW S.
Proof.
  intros Sn G. destruct S as [| [y w] S']; [congruence |]. clear Sn.
  inversion G as [| e1 l1 Hw G']; subst. cbn [snd] in Hw.
  assert (H0 : 0 <= wsumW S').
  { clear Hw G. induction G' as [| [y2 w2] l2 Hw2 _ IH2]; cbn [wsumW]; [lra |].
    cbn [snd] in Hw2. lra. }
  cbn [wsumW]. lra.
Qed.

Theorem wavg2_le_of_wtotal_le : forall sc S t c,
  S <> [] -> Forall (fun e : R * R => 0 < snd e) S ->
  wtotal sc S t <= wtotal sc S c -> wavg2 sc S t <= wavg2 sc S c.
Proof.
  intros sc S t c Sn G H. unfold wavg2.
  pose proof (wsumW_pos S Sn G) as HW.
  apply Rmult_le_compat_r; [| exact H].
  apply Rlt_le. apply Rinv_0_lt_compat. exact HW.
Qed.

(* the sum of the embedded weights is the embedded wtot / the sample size *)
Lemma wsumW_embed S : wsumW (embed S) = Q2R (wtot S).
Proof.
  induction S as [| e S' IH].
  - cbn. rewrite Q2R_0. reflexivity.
  - unfold embed in *. cbn [map wsumW wtot]. rewrite IH, Q2R_plus. reflexivity.
Qed.

Lemma wsumW_embed1 S : wsumW (embed1 S) = INR (length S).
Proof.
  induction S as [| e S' IH].
  - reflexivity.
  - unfold embed1 in *. cbn [map wsumW]. rewrite IH.
    change (length (e :: S')) with (Datatypes.S (length S')). rewrite S_INR. ring.
Qed.

(* e.g. the average-score form of the mean statement *)
Corollary mean_avg_consistent_at_sample_mean_data : forall h S c,
  S <> [] -> Forall posw S ->
  Forall (fun e => domY h (Q2R (ey e))) S -> data_ok h S -> domZ h c ->
  wavg2 (hes_val h (1/2)) (embed S) (Q2R (wmean S))
    <= wavg2 (hes_val h (1/2)) (embed S) c.
Proof.
  intros h S c Sn G HY Hd Hc.
  apply (wavg2_le_of_wtotal_le _ _ _ _ (embed_nonempty S Sn) (embed_posw S G)).
  apply (mean_consistent_at_sample_mean_data h S c Sn G HY Hd Hc).
Qed.

(* ================================================================== *)
(* 6. the hypotheses are satisfiable; a concrete instance              *)

Definition ex_S : list elt := [(1, 1); (2, 1); (4, 1); (7, 1)]%Q.

Example ex_S_values :
  (wmean ex_S == 7 # 2)%Q /\ qlow (1#2) ex_S = 2%Q /\ qupp (1#2) ex_S = 4%Q /\
  (qmid (1#2) ex_S == 3)%Q /\ (expectile_Q (1#4) ex_S == 5 # 2)%Q.
Proof. vm_compute. repeat split; reflexivity || discriminate. Qed.

Example ex_S_hyps :
  ex_S <> [] /\ Forall posw ex_S /\ Forall unitw ex_S /\
  Forall (fun e => 0 < ey e)%Q ex_S.
Proof.
  split; [discriminate |].
  split; [repeat constructor |].
  split; [repeat constructor |].
  repeat constructor.
Qed.

(* squared error (h = 2) on the concrete sample: 7/2 beats every real constant *)
Example ex_S_squared_error : forall c,
  wtotal (hes_val 2 (1/2)) (embed ex_S) (Q2R (wmean ex_S))
    <= wtotal (hes_val 2 (1/2)) (embed ex_S) c.
Proof.
  intros c. destruct ex_S_hyps as [Sn [G [_ HP]]].
  assert (H2 : 1 < 2) by lra.
  apply (mean_consistent_at_sample_mean_data 2 ex_S c Sn G).
  - apply Forall_forall. intros e _. apply domZ_sub. apply domZ_gt1. exact H2.
  - left. exact H2.
  - apply domZ_gt1. exact H2.
Qed.

(* pinball loss (h = 1) at level 1/2: 2, 3 and 4 all beat every real constant *)
Example ex_S_pinball : forall c,
  wtotal (hqs_val 1 (Q2R (1#2))) (embed ex_S) (Q2R (qmid (1#2) ex_S))
    <= wtotal (hqs_val 1 (Q2R (1#2))) (embed ex_S) c.
Proof.
  intros c. destruct ex_S_hyps as [Sn [G [HU HP]]].
  assert (HW : hqs_whole_line 1 = true).
  { unfold hqs_whole_line. rewrite (proj2 (Reqb_true 1 1) eq_refl). reflexivity. }
  apply (quantile_consistent_at_midpoint 1 (1#2) ex_S c half_level_Q Sn HU).
  - apply Forall_forall. intros e _. left. exact HW.
  - left. exact HW.
Qed.

Print Assumptions foc_wmean.
Print Assumptions foc_expectile.
Print Assumptions foc_quantile.
Print Assumptions between_quantiles_counts.
Print Assumptions wmean_gt.
Print Assumptions expectile_gt.
Print Assumptions wmean_in_domain.
Print Assumptions mean_consistent_at_sample_mean_data.
Print Assumptions logloss_consistent_at_sample_mean_data.
Print Assumptions expectile_consistent_at_sample_expectile_data.
Print Assumptions quantile_consistent_between_quantiles.
Print Assumptions elem_consistent_at_sample_mean.
Print Assumptions elem_consistent_at_sample_expectile.
Print Assumptions elem_consistent_between_quantiles.
Print Assumptions mean_avg_consistent_at_sample_mean_data.
