(* The property-level facts of proofs/ScoreProps.v restated for the GENERATED
   functions (gen/Gen_scoring.v, regenerated from scoring.py on every run), by
   rewriting with the bridge lemmas. *)
From Coq Require Import Reals Lra List Bool.
Import ListNotations. Open Scope R_scope.
From MD Require Import lib.NumpyR spec.Scores theory.Powers theory.Bregman gen.Gen_ident gen.Gen_scoring
  bridge.Bridge_scoring proofs.ScoreProps.

(* ---------------- homogeneous expectile scores (incl. squared error, Poisson, Gamma) *)
Lemma g_hes_domain h a y z : gen_hes_spo h a y z = ValueErr <-> ~ hes_dom h y z.
Proof. rewrite bridge_hes. apply spec_hes_domain. Qed.
Lemma g_hes_accepts h a y z : hes_dom h y z -> exists s, gen_hes_spo h a y z = Ok s.
Proof.
  intros H. destruct (gen_hes_spo h a y z) as [s|] eqn:E; [eauto|].
  apply g_hes_domain in E. contradiction.
Qed.
Lemma g_hes_defined h a y z : hes_dom h y z -> gen_hes_spo_ok h a y z.
Proof. apply hes_ok. Qed.
Lemma g_hes_nonneg h a y z s : 0 < a < 1 -> gen_hes_spo h a y z = Ok s -> 0 <= s.
Proof. rewrite bridge_hes. apply spec_hes_nonneg. Qed.
Lemma g_hes_zero h a z : hes_dom h z z -> gen_hes_spo h a z z = Ok 0.
Proof. rewrite bridge_hes. apply spec_hes_zero. Qed.
Lemma g_hes_order h a y z1 z2 s1 s2 : 0 < a < 1 -> (y <= z1 <= z2 \/ z2 <= z1 <= y) ->
  gen_hes_spo h a y z1 = Ok s1 -> gen_hes_spo h a y z2 = Ok s2 -> s1 <= s2.
Proof. rewrite !bridge_hes. apply spec_hes_order. Qed.
Lemma g_hes_homogeneous h a y z c s : 0 < c -> gen_hes_spo h a y z = Ok s ->
  gen_hes_spo h a (c * y) (c * z) = Ok (Rpower c h * s).
Proof. rewrite !bridge_hes. apply spec_hes_homogeneous. Qed.
Lemma g_hes_half h y z : gen_hes_spo h (1/2) y z = (if hes_domb h y z then Ok (breg h y z) else ValueErr).
Proof. rewrite bridge_hes. apply spec_hes_half. Qed.
Lemma g_init_level (a : R) : (if level_okb a then @Ok R 0 else ValueErr) = ValueErr <-> ~ (0 < a < 1).
Proof.
  unfold level_okb. destruct (Rltb 0 a) eqn:E1; destruct (Rltb a 1) eqn:E2; simpl.
  - apply Rltb_true in E1. apply Rltb_true in E2. split; [discriminate| intros H; exfalso; apply H; lra].
  - apply Rltb_false in E2. split; [intros _ [_ H]; lra| reflexivity].
  - apply Rltb_false in E1. split; [intros _ [H _]; lra| reflexivity].
  - apply Rltb_false in E1. split; [intros _ [H _]; lra| reflexivity].
Qed.
Lemma g_hes_init_guard h a : gen_hes_init h a = ValueErr <-> ~ (0 < a < 1).
Proof. rewrite bridge_init_hes. apply g_init_level. Qed.
Lemma g_hqs_init_guard h a : gen_hqs_init h a = ValueErr <-> ~ (0 < a < 1).
Proof. rewrite bridge_init_hqs. apply g_init_level. Qed.
Lemma g_elem_init_guard eta f a : gen_elem_init eta f a = ValueErr <-> ~ (0 < a < 1).
Proof. rewrite bridge_init_elem. apply g_init_level. Qed.

(* ---------------- homogeneous quantile scores (incl. pinball loss) *)
Lemma g_hqs_domain h a y z : gen_hqs_spo h a y z = ValueErr <-> ~ hqs_dom h y z.
Proof. rewrite bridge_hqs. apply spec_hqs_domain. Qed.
Lemma g_hqs_defined h a y z : hqs_dom h y z -> gen_hqs_spo_ok h a y z.
Proof. apply hqs_ok. Qed.
Lemma g_hqs_nonneg h a y z s : 0 < a < 1 -> gen_hqs_spo h a y z = Ok s -> 0 <= s.
Proof. rewrite bridge_hqs. apply spec_hqs_nonneg. Qed.
Lemma g_hqs_zero h a z : hqs_dom h z z -> gen_hqs_spo h a z z = Ok 0.
Proof. rewrite bridge_hqs. apply spec_hqs_zero. Qed.
Lemma g_hqs_order h a y z1 z2 s1 s2 : 0 < a < 1 -> (y <= z1 <= z2 \/ z2 <= z1 <= y) ->
  gen_hqs_spo h a y z1 = Ok s1 -> gen_hqs_spo h a y z2 = Ok s2 -> s1 <= s2.
Proof. rewrite !bridge_hqs. apply spec_hqs_order. Qed.
Lemma g_hqs_homogeneous h a y z c s : 0 < c -> gen_hqs_spo h a y z = Ok s ->
  gen_hqs_spo h a (c * y) (c * z) = Ok (Rpower c h * s).
Proof. rewrite !bridge_hqs. apply spec_hqs_homogeneous. Qed.
Lemma g_hqs_half h y z s : gen_hqs_spo h (1/2) y z = Ok s -> s = 1/2 * Rabs (Gq h z - Gq h y).
Proof. rewrite bridge_hqs. apply spec_hqs_half. Qed.

(* ---------------- log loss: y in [0,1], z in (0,1); any1 is the sample-wide np.any flag *)
Definition flag_ok (y z : R) (any1 : bool) : Prop := gen_logloss_spo_any1 y z = true -> any1 = true.
Lemma g_ll_value y z any1 : 0 <= y <= 1 -> 0 < z < 1 -> flag_ok y z any1 ->
  gen_logloss_spo y z any1 = Ok (spec_logloss y z).
Proof. intros; apply bridge_logloss; auto. Qed.
Lemma g_ll_defined y z any1 : 0 <= y <= 1 -> 0 < z < 1 -> gen_logloss_spo_ok y z any1.
Proof. apply logloss_ok. Qed.
Lemma g_ll_nonneg y z any1 s : 0 <= y <= 1 -> 0 < z < 1 -> flag_ok y z any1 ->
  gen_logloss_spo y z any1 = Ok s -> 0 <= s.
Proof. intros Hy Hz Hf E. rewrite (g_ll_value y z any1 Hy Hz Hf) in E. injection E as <-. apply spec_logloss_nonneg; auto. Qed.
Lemma g_ll_zero z any1 : 0 < z < 1 -> flag_ok z z any1 -> gen_logloss_spo z z any1 = Ok 0.
Proof. intros Hz Hf. rewrite (g_ll_value z z any1); [f_equal; apply spec_logloss_zero; auto| lra | auto | auto]. Qed.
Lemma g_ll_order y z1 z2 f1 f2 s1 s2 : 0 <= y <= 1 -> 0 < z1 < 1 -> 0 < z2 < 1 -> flag_ok y z1 f1 -> flag_ok y z2 f2 ->
  (y <= z1 <= z2 \/ z2 <= z1 <= y) ->
  gen_logloss_spo y z1 f1 = Ok s1 -> gen_logloss_spo y z2 f2 = Ok s2 -> s1 <= s2.
Proof.
  intros Hy H1 H2 F1 F2 Ho E1 E2. rewrite (g_ll_value y z1 f1) in E1 by auto. rewrite (g_ll_value y z2 f2) in E2 by auto.
  injection E1 as <-. injection E2 as <-. apply spec_logloss_order; auto.
Qed.

(* ---------------- named classes: the translator reads the arguments of super().__init__ *)
Lemma g_named_members :
  gen_SquaredError_spo = gen_hes_spo 2 (1/2) /\ gen_PoissonDeviance_spo = gen_hes_spo 1 (1/2) /\
  gen_GammaDeviance_spo = gen_hes_spo 0 (1/2) /\ (forall a, gen_PinballLoss_spo a = gen_hqs_spo 1 a).
Proof. repeat split. Qed.
Lemma g_squared_error y z : gen_SquaredError_spo y z = Ok ((y - z) * (y - z)).
Proof. unfold gen_SquaredError_spo. rewrite bridge_hes. apply spec_squared_error. Qed.
Lemma g_poisson y z : 0 <= y -> 0 < z -> gen_PoissonDeviance_spo y z = Ok (2 * (xlogy y (y / z) - y + z)).
Proof. unfold gen_PoissonDeviance_spo. rewrite bridge_hes. apply spec_poisson. Qed.
Lemma g_gamma y z : 0 < y -> 0 < z -> gen_GammaDeviance_spo y z = Ok (2 * (y / z - ln (y / z) - 1)).
Proof. unfold gen_GammaDeviance_spo. rewrite bridge_hes. apply spec_gamma. Qed.
Lemma g_pinball a y z : gen_PinballLoss_spo a y z = Ok ((ge_ind z y - a) * (z - y)).
Proof. unfold gen_PinballLoss_spo. rewrite bridge_hqs. apply spec_pinball. Qed.

(* ---------------- lifting to vectors: the array call raises iff some observation is out of domain *)
Lemma lift2_ok f ys zs ss : lift2 f ys zs = Ok ss -> length ys = length zs ->
  Forall2 (fun yz s => f (fst yz) (snd yz) = Ok s) (combine ys zs) ss.
Proof.
  revert zs ss. induction ys as [|y ys IH]; intros [|z zs] ss E L; simpl in *; try discriminate.
  - injection E as <-. constructor.
  - destruct (f y z) as [s|] eqn:Es; simpl in E; [|discriminate].
    destruct (lift2 f ys zs) as [ss'|] eqn:El; simpl in E; [|discriminate].
    injection E as <-. constructor; auto.
Qed.
Lemma lift2_err f ys zs : length ys = length zs -> (lift2 f ys zs = ValueErr <->
  Exists (fun yz => f (fst yz) (snd yz) = ValueErr) (combine ys zs)).
Proof.
  revert zs. induction ys as [|y ys IH]; intros [|z zs] L; simpl in *; try discriminate.
  - split; [discriminate| intros H; inversion H].
  - injection L as L. specialize (IH zs L). destruct (f y z) as [s|] eqn:Es; simpl.
    + destruct (lift2 f ys zs) as [ss'|] eqn:El; simpl.
      * split; [discriminate|]. intros H. apply Exists_cons in H. destruct H as [H1|H1].
        -- simpl in H1. congruence.
        -- apply IH in H1. discriminate.
      * split; [intros _; apply Exists_cons_tl; apply IH; reflexivity| reflexivity].
    + split; [intros _; apply Exists_cons_hd; exact Es| reflexivity].
Qed.
