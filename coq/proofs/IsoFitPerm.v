(* C11, clause "REGARDLESS OF ROW ORDER": the fitted IsotonicRegression model
   (model/IsoFit.v) does not depend on the order of the rows.

   Part A  mean and expectile, predictions at the TRAINING points:
           both fits minimise the same permutation-invariant sum over the rows among
           monotone functions of X with a strictly positive quadratic gap, so they
           coincide at every row (fit_perm_mean, fit_perm_expectile).
   Part B  two sorted frames of permuted inputs agree position by position up to ==
           (sorted_frames_equiv), by a rank argument.
   Part C  the fitted values, the block vector, the threshold indices and the
           thresholds of both fits agree (mean, expectile): predictions at EVERY query
           point agree (fit_perm_mean_all, fit_perm_expectile_all).
   Part D  quantile and median (no weights): isotonic_regression respects == of its
           input, so the fitted models agree and so do the predictions at every query
           point (fit_perm_quantile, fit_perm_median); fit_perm_all: every functional.
   Part E  integer sample weights = physically repeated rows (mean, expectile): same
           predictions at the training points (fit_replication); used for C07. *)
From Coq Require Import QArith Qabs Qreduction Lqa Lia List Bool Sorted Permutation.
From Coq Require Import Reals Qreals Lra.
(* Lra after Lqa: unqualified [lra] is the real-number tactic, the rational one is [Lqa.lra] *)
Import ListNotations.
From MD Require Import lib.QLists model.Functionals model.Gpava model.Isotonic model.IsoFit proofs.IsoContract
  theory.GpavaMerge theory.GInst theory.GpavaCert theory.InstMean theory.InstExpectile
  theory.InstQuantile theory.Optimal theory.IsoOptimal theory.Transport
  proofs.IsoProps proofs.IsoQuantProps proofs.IsoEquiv proofs.IsoFitProps.
Open Scope Q_scope.

(* ================================================================== *)
(* Part A.  mean and expectile: predictions at the training points     *)
(* ================================================================== *)

(* the asymmetric squared error of one row *)
Definition row_as (a : Q) (g : Q -> R) (rw : row) : R :=
  (Q2R (rW rw) * (if Rle_dec (Q2R (rY rw)) (g (rX rw)) then 1 - Q2R a else Q2R a)
   * (Q2R (rY rw) - g (rX rw)) ^ 2)%R.

Lemma lossAs_rows a g : forall rows,
  lossAs a (combine (map rY rows) (map rW rows)) (map g (map rX rows)) = rsum (row_as a g) rows.
Proof.
  induction rows as [|rw rows IH]; [reflexivity|].
  cbn [map combine lossAs rsum]. rewrite IH. unfold row_as. reflexivity.
Qed.

(* the prediction function of a successful fit is monotone in the fitted direction *)
Lemma predict_val_dmono X y w inc f lvl ft : fit X y w inc f lvl = FOk ft ->
  dmonoR inc (fun q => Q2R (predict_val ft q)).
Proof.
  intros H p q Hpq. cbv beta.
  destruct (predict_total _ _ _ _ _ _ _ p H) as (vp & Ep).
  destruct (predict_total _ _ _ _ _ _ _ q H) as (vq & Eq).
  unfold predict_val. rewrite Ep, Eq.
  pose proof (predict_monotone _ _ _ _ _ _ _ p q vp vq H Hpq Ep Eq) as HM.
  destruct inc; cbn [dle] in HM; apply Qle_Rle; exact HM.
Qed.

(* a successful fit had strictly positive weights *)
Lemma fit_rows_pos X y w inc f lvl ft : fit X y w inc f lvl = FOk ft ->
  forall rw, In rw (rows_of X y w) -> 0 < rW rw.
Proof.
  intros H rw Hin.
  destruct w as [wl|].
  - destruct (fit_inv _ _ _ _ _ _ _ H) as (_ & yiso & r & idx & HI & _).
    destruct (iso_ok_inv _ _ _ _ _ _ _ HI) as (_ & Hv & _).
    cbn [fit_ws valid_w] in Hv. destruct Hv as [_ HF].
    assert (Hin' : In rw (sorted_rows X y (Some wl) inc)).
    { eapply Permutation_in; [apply Permutation_sym, sorted_rows_perm| exact Hin]. }
    rewrite Forall_forall in HF. apply HF. apply in_map. exact Hin'.
  - pose proof (mk_rows_rW_ones X y) as HF. rewrite Forall_forall in HF.
    unfold rows_of in Hin. rewrite (HF rw Hin). reflexivity.
Qed.

(* expectile: over the rows as given, the fitted prediction function has the least
   asymmetric squared error among all monotone real functions of X, with a gap *)
Theorem fit_predict_optimal_rows_expectile X y w inc lvl ft :
  fit X y w inc IFexpectile lvl = FOk ft ->
  forall g : Q -> R, dmonoR inc g ->
    let P := fun q => Q2R (predict_val ft q) in
    (rsum (row_as lvl g) (rows_of X y w) >=
     rsum (row_as lvl P) (rows_of X y w)
     + Rmin (Q2R lvl) (1 - Q2R lvl) * rsum (row_gap g P) (rows_of X y w))%R.
Proof.
  intros H g Hg P.
  destruct (fit_optimal_fX_expectile _ _ _ _ _ _ H) as (yiso & r & HI & HO).
  destruct (predict_at_training _ _ _ _ _ _ _ H) as (yiso' & r' & HI' & HP).
  rewrite HI in HI'. injection HI' as <- <-.
  pose proof (HO g Hg) as HO1. cbv zeta in HO1.
  destruct (fit_Xs_length _ _ _ _ _ _ _ H) as [LX LY].
  destruct (iso_facts _ _ _ _ _ _ _ HI) as ((Clen & _) & _ & _).
  assert (EP : map Q2R yiso = map P (fit_Xs X y w inc)).
  { apply (nth_ext _ _ (Q2R 0) (P 0)); [rewrite !map_length; congruence|].
    intros k Hk. rewrite map_length in Hk.
    assert (Hk' : (k < length X)%nat) by congruence.
    destruct (HP k Hk') as (v & Ev & Evv).
    rewrite !map_nth. unfold P, predict_val. rewrite Ev. apply Qeq_eqR. symmetry. exact Evv. }
  rewrite EP in HO1. rewrite fit_data_rows in HO1. unfold fit_Xs in HO1.
  rewrite !lossAs_rows, wdist_rows in HO1.
  pose proof (sorted_rows_perm X y w inc) as HPerm. fold (rows_of X y w) in HPerm.
  rewrite !(rsum_perm _ _ _ HPerm) in HO1. exact HO1.
Qed.

(* a sum of non-negative terms that is <= 0 has only zero terms *)
Lemma rsum_nonneg (g : row -> R) : forall l, (forall rw, In rw l -> (0 <= g rw)%R) -> (0 <= rsum g l)%R.
Proof.
  induction l as [|a l IH]; intros Hn; cbn [rsum]; [lra|].
  assert ((0 <= g a)%R) by (apply Hn; left; reflexivity).
  assert ((0 <= rsum g l)%R) by (apply IH; intros rw H1; apply Hn; right; exact H1).
  lra.
Qed.

Lemma rsum_nonneg_all_zero (g : row -> R) : forall l,
  (forall rw, In rw l -> (0 <= g rw)%R) -> (rsum g l <= 0)%R -> forall rw, In rw l -> g rw = 0%R.
Proof.
  induction l as [|a l IH]; intros Hn Hs rw Hin; [destruct Hin|].
  cbn [rsum] in Hs.
  assert (Ha : (0 <= g a)%R) by (apply Hn; left; reflexivity).
  assert (Hl : (0 <= rsum g l)%R) by (apply rsum_nonneg; intros rw' H'; apply Hn; right; exact H').
  destruct Hin as [<-|Hin]; [lra|].
  apply IH; [intros rw' H'; apply Hn; right; exact H'| lra| exact Hin].
Qed.

Lemma row_gap_nonneg (P P' : Q -> R) rw : 0 < rW rw -> (0 <= row_gap P P' rw)%R.
Proof.
  intros H0. unfold row_gap. apply Rmult_le_pos; [|apply pow2_ge_0].
  apply Qlt_Rlt in H0. rewrite RMicromega.Q2R_0 in H0. lra.
Qed.

(* two functions, each optimal against the other with a positive multiple of the
   quadratic gap, over the same rows with positive weights: equal at every row *)
Lemma two_sided_optimal_equal (L : (Q -> R) -> row -> R) (c : R) (P P' : Q -> R) (Rw : list row) :
  (0 < c)%R -> (forall rw, In rw Rw -> 0 < rW rw) ->
  (rsum (L P') Rw >= rsum (L P) Rw + c * rsum (row_gap P' P) Rw)%R ->
  (rsum (L P) Rw >= rsum (L P') Rw + c * rsum (row_gap P P') Rw)%R ->
  forall rw, In rw Rw -> P (rX rw) = P' (rX rw).
Proof.
  intros Hc Hpos O1 O2.
  assert (Hg1 : (0 <= rsum (row_gap P' P) Rw)%R).
  { apply rsum_nonneg. intros rw Hin. apply row_gap_nonneg, Hpos, Hin. }
  assert (Hg2 : (0 <= rsum (row_gap P P') Rw)%R).
  { apply rsum_nonneg. intros rw Hin. apply row_gap_nonneg, Hpos, Hin. }
  assert (Hz : (rsum (row_gap P' P) Rw <= 0)%R).
  { assert (H1 : (0 <= c * rsum (row_gap P P') Rw)%R) by (apply Rmult_le_pos; lra).
    assert (H2 : (c * rsum (row_gap P' P) Rw <= 0)%R) by lra.
    destruct (Rle_or_lt (rsum (row_gap P' P) Rw) 0) as [Hle|Hlt]; [exact Hle|].
    pose proof (Rmult_lt_0_compat _ _ Hc Hlt). lra. }
  intros rw Hin.
  pose proof (rsum_nonneg_all_zero _ _ (fun rw' H' => row_gap_nonneg P' P rw' (Hpos rw' H')) Hz rw Hin) as E0.
  unfold row_gap in E0.
  pose proof (Hpos rw Hin) as H0. apply Qlt_Rlt in H0. rewrite RMicromega.Q2R_0 in H0.
  apply Rmult_integral in E0. destruct E0 as [E0|E0]; [lra|].
  destruct (Req_dec (P' (rX rw) - P (rX rw)) 0) as [E|E]; [lra|].
  exfalso. pose proof (pow_nonzero _ 2 E). contradiction.
Qed.

(* C11, "regardless of row order", mean: fits on two row orders of the same data predict
   the same value at every training point.  Both directions, with or without weights. *)
Theorem fit_perm_mean X y w X' y' w' inc lvl lvl' ft ft' :
  fit X y w inc IFmean lvl = FOk ft -> fit X' y' w' inc IFmean lvl' = FOk ft' ->
  Permutation (rows_of X y w) (rows_of X' y' w') ->
  forall rw, In rw (rows_of X y w) -> predict_val ft (rX rw) == predict_val ft' (rX rw).
Proof.
  intros HF HF' HP rw Hin.
  set (P := fun q => Q2R (predict_val ft q)). set (P' := fun q => Q2R (predict_val ft' q)).
  pose proof (fit_predict_optimal_rows_mean _ _ _ _ _ _ HF P' (predict_val_dmono _ _ _ _ _ _ _ HF')) as O1.
  pose proof (fit_predict_optimal_rows_mean _ _ _ _ _ _ HF' P (predict_val_dmono _ _ _ _ _ _ _ HF)) as O2.
  cbv zeta in O1, O2. fold P in O1. fold P' in O2.
  rewrite <- !(rsum_perm _ _ _ HP) in O2.
  apply eqR_Qeq. change (P (rX rw) = P' (rX rw)).
  apply (two_sided_optimal_equal row_sq 1%R P P' (rows_of X y w));
    [lra| exact (fit_rows_pos _ _ _ _ _ _ _ HF)| lra| lra| exact Hin].
Qed.

Theorem fit_perm_expectile X y w X' y' w' inc lvl ft ft' :
  fit X y w inc IFexpectile lvl = FOk ft -> fit X' y' w' inc IFexpectile lvl = FOk ft' ->
  Permutation (rows_of X y w) (rows_of X' y' w') ->
  forall rw, In rw (rows_of X y w) -> predict_val ft (rX rw) == predict_val ft' (rX rw).
Proof.
  intros HF HF' HP rw Hin.
  set (P := fun q => Q2R (predict_val ft q)). set (P' := fun q => Q2R (predict_val ft' q)).
  pose proof (fit_predict_optimal_rows_expectile _ _ _ _ _ _ HF P' (predict_val_dmono _ _ _ _ _ _ _ HF')) as O1.
  pose proof (fit_predict_optimal_rows_expectile _ _ _ _ _ _ HF' P (predict_val_dmono _ _ _ _ _ _ _ HF)) as O2.
  cbv zeta in O1, O2. fold P in O1. fold P' in O2.
  rewrite <- !(rsum_perm _ _ _ HP) in O2.
  assert (Hl : 0 < lvl /\ lvl < 1).
  { destruct (fit_inv _ _ _ _ _ _ _ HF) as (_ & yiso & r & idx & HI & _).
    destruct (iso_ok_inv _ _ _ _ _ _ _ HI) as (_ & _ & [C|[[_ Hl]|[(C & _)|[C _]]]]); try discriminate C.
    exact Hl. }
  assert (Hc : (0 < Rmin (Q2R lvl) (1 - Q2R lvl))%R).
  { destruct Hl as [Hl0 Hl1]. apply Qlt_Rlt in Hl0, Hl1.
    rewrite RMicromega.Q2R_0 in Hl0. rewrite RMicromega.Q2R_1 in Hl1.
    unfold Rmin. destruct (Rle_dec (Q2R lvl) (1 - Q2R lvl)); lra. }
  apply eqR_Qeq. change (P (rX rw) = P' (rX rw)).
  apply (two_sided_optimal_equal (row_as lvl) _ P P' (rows_of X y w) Hc
           (fit_rows_pos _ _ _ _ _ _ _ HF) O1 O2 rw Hin).
Qed.

(* the same, indexed by the position of the row in the caller's arrays *)
Lemma rows_of_nth X y w k : length X = length y ->
  (match w with Some wl => length wl = length y | None => True end) ->
  (k < length X)%nat -> exists rw, In rw (rows_of X y w) /\ rX rw = nth k X 0.
Proof.
  intros L1 Lw Hk. unfold rows_of, mk_rows.
  set (wl := match w with Some w' => w' | None => map (fun _ => 1) y end).
  assert (Lwl : length wl = length y).
  { unfold wl. destruct w as [w'|]; [exact Lw| apply map_length]. }
  set (l := combine (combine X y) wl).
  assert (Ll : length l = length X).
  { unfold l. rewrite !combine_length. lia. }
  set (mk := fun p : Q * Q * Q => mkrow (fst (fst p)) (snd (fst p)) (snd p)).
  exists (mk (nth k l (0, 0, 0))).
  split.
  - apply (in_map mk l). apply nth_In. lia.
  - unfold mk. cbn [rX]. unfold l. rewrite !combine_nth by (rewrite ?combine_length; lia). reflexivity.
Qed.

Lemma fit_lengths X y w inc f lvl ft : fit X y w inc f lvl = FOk ft ->
  length X = length y /\ (match w with Some wl => length wl = length y | None => True end).
Proof.
  intros H. destruct (fit_inv _ _ _ _ _ _ _ H) as (EL & _). split; [exact EL|].
  unfold fit in H. rewrite EL, Nat.eqb_refl in H. cbn [negb] in H.
  destruct w as [w'|]; [|exact Logic.I].
  destruct (Nat.eqb (length w') (length y)) eqn:Ew; [|discriminate H].
  apply Nat.eqb_eq. exact Ew.
Qed.

Corollary fit_perm_mean_nth X y w X' y' w' inc lvl lvl' ft ft' :
  fit X y w inc IFmean lvl = FOk ft -> fit X' y' w' inc IFmean lvl' = FOk ft' ->
  Permutation (rows_of X y w) (rows_of X' y' w') ->
  forall k, (k < length X)%nat -> predict_val ft (nth k X 0) == predict_val ft' (nth k X 0).
Proof.
  intros HF HF' HP k Hk. destruct (fit_lengths _ _ _ _ _ _ _ HF) as [L1 Lw].
  destruct (rows_of_nth X y w k L1 Lw Hk) as (rw & Hin & <-).
  exact (fit_perm_mean _ _ _ _ _ _ _ _ _ _ _ HF HF' HP rw Hin).
Qed.

Corollary fit_perm_expectile_nth X y w X' y' w' inc lvl ft ft' :
  fit X y w inc IFexpectile lvl = FOk ft -> fit X' y' w' inc IFexpectile lvl = FOk ft' ->
  Permutation (rows_of X y w) (rows_of X' y' w') ->
  forall k, (k < length X)%nat -> predict_val ft (nth k X 0) == predict_val ft' (nth k X 0).
Proof.
  intros HF HF' HP k Hk. destruct (fit_lengths _ _ _ _ _ _ _ HF) as [L1 Lw].
  destruct (rows_of_nth X y w k L1 Lw Hk) as (rw & Hin & <-).
  exact (fit_perm_expectile _ _ _ _ _ _ _ _ _ _ HF HF' HP rw Hin).
Qed.

(* ================================================================== *)
(* Part B.  sorted frames of permuted inputs agree position by         *)
(*          position up to the equivalence of the sort order           *)
(* ================================================================== *)

Section Rank.
Variable A : Type.
Variable le : A -> A -> bool.
Hypothesis le_total : forall a b, le a b = true \/ le b a = true.
Hypothesis le_trans : forall a b c, le a b = true -> le b c = true -> le a c = true.

Definition fcnt (f : A -> bool) (l : list A) : nat := length (filter f l).

Lemma fcnt_perm f l l' : Permutation l l' -> fcnt f l = fcnt f l'.
Proof.
  intros P. unfold fcnt. induction P as [|p l l' P IH|p q l|l1 l2 l3 P1 IH1 P2 IH2]; cbn [filter].
  - reflexivity.
  - destruct (f p); cbn [length]; rewrite IH; reflexivity.
  - destruct (f p), (f q); reflexivity.
  - rewrite IH1. exact IH2.
Qed.

Lemma fcnt_app f l1 l2 : fcnt f (l1 ++ l2) = (fcnt f l1 + fcnt f l2)%nat.
Proof. unfold fcnt. rewrite filter_app, app_length. reflexivity. Qed.

Lemma fcnt_le_length f l : (fcnt f l <= length l)%nat.
Proof.
  unfold fcnt. induction l as [|a l IH]; [apply Nat.le_refl|].
  cbn [filter]. destruct (f a); cbn [length]; lia.
Qed.

Lemma fcnt_all f l : Forall (fun x => f x = true) l -> fcnt f l = length l.
Proof.
  unfold fcnt. intros H. induction H as [|a l Ha H IH]; [reflexivity|].
  cbn [filter]. rewrite Ha. cbn [length]. rewrite IH. reflexivity.
Qed.

Lemma fcnt_none f l : Forall (fun x => f x = false) l -> fcnt f l = 0%nat.
Proof.
  unfold fcnt. intros H. induction H as [|a l Ha H IH]; [reflexivity|].
  cbn [filter]. rewrite Ha. exact IH.
Qed.

Lemma fcnt_mono f g l : (forall x, f x = true -> g x = true) -> (fcnt f l <= fcnt g l)%nat.
Proof.
  intros Hfg. unfold fcnt. induction l as [|a l IH]; [apply Nat.le_refl|].
  cbn [filter]. destruct (f a) eqn:Ef.
  - rewrite (Hfg a Ef). cbn [length]. lia.
  - destruct (g a); cbn [length]; lia.
Qed.

Lemma SS_split (R : A -> A -> Prop) : forall l1 e l2, StronglySorted R (l1 ++ e :: l2) ->
  Forall (fun x => R x e) l1 /\ Forall (R e) l2.
Proof.
  induction l1 as [|a l1 IH]; intros e l2 HS.
  - split; [constructor|]. exact (proj2 (StronglySorted_inv HS)).
  - cbn [app] in HS. destruct (StronglySorted_inv HS) as [HS' Ha].
    destruct (IH e l2 HS') as [H1 H2]. split; [|exact H2].
    constructor; [|exact H1]. rewrite Forall_forall in Ha. apply Ha.
    apply in_or_app. right. left. reflexivity.
Qed.

Lemma le_refl a : le a a = true.
Proof. destruct (le_total a a); assumption. Qed.

(* the rank of the k-th element of a sorted list *)
Lemma rank_sorted l d k : StronglySorted (fun a b => le a b = true) l -> (k < length l)%nat ->
  let e := nth k l d in
  (k < fcnt (fun x => le x e) l)%nat /\ (fcnt (fun x => negb (le e x)) l <= k)%nat.
Proof.
  intros HS Hk e.
  destruct (nth_split l d Hk) as (l1 & l2 & El & Hl1). fold e in El.
  rewrite El in HS. destruct (SS_split _ l1 e l2 HS) as [H1 H2].
  rewrite El. rewrite !fcnt_app. split.
  - rewrite (fcnt_all _ l1 H1).
    unfold fcnt. cbn [filter]. rewrite le_refl. cbn [length]. lia.
  - assert (E0 : fcnt (fun x => negb (le e x)) (e :: l2) = 0%nat).
    { apply fcnt_none. constructor; [rewrite le_refl; reflexivity|].
      eapply Forall_impl; [|exact H2]. intros x Hx. cbv beta in Hx. rewrite Hx. reflexivity. }
    rewrite E0. pose proof (fcnt_le_length (fun x => negb (le e x)) l1). lia.
Qed.

Theorem sorted_perm_nth_le l1 l2 d k :
  StronglySorted (fun a b => le a b = true) l1 -> StronglySorted (fun a b => le a b = true) l2 ->
  Permutation l1 l2 -> (k < length l1)%nat -> le (nth k l1 d) (nth k l2 d) = true.
Proof.
  intros S1 S2 HP Hk.
  assert (Hk2 : (k < length l2)%nat) by (rewrite <- (Permutation_length HP); exact Hk).
  set (e1 := nth k l1 d). set (e2 := nth k l2 d).
  destruct (le e1 e2) eqn:E; [reflexivity| exfalso].
  destruct (rank_sorted l1 d k S1 Hk) as [_ R1]. destruct (rank_sorted l2 d k S2 Hk2) as [R2 _].
  fold e1 in R1. fold e2 in R2.
  rewrite <- (fcnt_perm _ _ _ HP) in R2.
  assert (Hm : (fcnt (fun x => le x e2) l1 <= fcnt (fun x => negb (le e1 x)) l1)%nat).
  { apply fcnt_mono. intros x Hx. destruct (le e1 x) eqn:E1; [|reflexivity].
    pose proof (le_trans _ _ _ E1 Hx) as C. congruence. }
  lia.
Qed.
End Rank.

(* rows equivalent in the sort order have == X and == y *)
Lemma row_eqv_spec inc a b : row_le inc a b = true -> row_le inc b a = true ->
  rX a == rX b /\ rY a == rY b.
Proof.
  rewrite !row_le_spec. unfold ydir. intros [H1|[H1 Y1]] [H2|[H2 Y2]]; try Lqa.lra.
  split; [exact H1|]. destruct inc; Lqa.lra.
Qed.

Theorem sorted_frames_equiv X y w X' y' w' inc :
  Permutation (rows_of X y w) (rows_of X' y' w') ->
  Forall2 Qeq (fit_Xs X y w inc) (fit_Xs X' y' w' inc) /\
  Forall2 Qeq (fit_ys X y w inc) (fit_ys X' y' w' inc).
Proof.
  intros HP.
  set (S1 := sorted_rows X y w inc). set (S2 := sorted_rows X' y' w' inc).
  assert (P12 : Permutation S1 S2).
  { eapply Permutation_trans; [apply sorted_rows_perm|]. fold (rows_of X y w).
    eapply Permutation_trans; [exact HP|]. apply Permutation_sym. apply sorted_rows_perm. }
  assert (HS1 : StronglySorted (fun a b => row_le inc a b = true) S1) by apply sorted_rows_sorted.
  assert (HS2 : StronglySorted (fun a b => row_le inc a b = true) S2) by apply sorted_rows_sorted.
  assert (HL : length S1 = length S2) by (apply Permutation_length; exact P12).
  assert (Hk : forall k, (k < length S1)%nat ->
             rX (nth k S1 row0) == rX (nth k S2 row0) /\ rY (nth k S1 row0) == rY (nth k S2 row0)).
  { intros k Hk. apply (row_eqv_spec inc).
    - apply (sorted_perm_nth_le row (row_le inc) (row_le_total inc) (row_le_trans inc));
        [exact HS1| exact HS2| exact P12| exact Hk].
    - apply (sorted_perm_nth_le row (row_le inc) (row_le_total inc) (row_le_trans inc));
        [exact HS2| exact HS1| apply Permutation_sym; exact P12| rewrite <- HL; exact Hk]. }
  unfold fit_Xs, fit_ys. fold S1 S2.
  clearbody S1 S2. clear - HL Hk.
  revert S2 HL Hk. induction S1 as [|a S1 IH]; intros S2 HL Hk.
  - destruct S2; [split; constructor| discriminate HL].
  - destruct S2 as [|b S2]; [discriminate HL|]. cbn [map].
    injection HL as HL.
    destruct (IH S2 HL) as [I1 I2].
    { intros k Hk'. exact (Hk (S k) ltac:(cbn [length]; lia)). }
    destruct (Hk 0%nat ltac:(cbn [length]; lia)) as [H1 H2]. cbn [nth] in H1, H2.
    split; constructor; assumption.
Qed.

(* ================================================================== *)
(* Part C.  equal fitted values give equal thresholds and equal        *)
(*          predictions at every query point                           *)
(* ================================================================== *)

Lemma Qeq_bool_Qeq a a' b b' : a == a' -> b == b' -> Qeq_bool a b = Qeq_bool a' b'.
Proof.
  intros Ea Eb. apply eq_true_iff_eq. rewrite !Qeq_bool_iff, Ea, Eb. reflexivity.
Qed.

Lemma Qle_bool_Qeq a a' b b' : a == a' -> b == b' -> Qle_bool a b = Qle_bool a' b'.
Proof.
  intros Ea Eb. apply eq_true_iff_eq. rewrite !Qle_bool_iff, Ea, Eb. reflexivity.
Qed.

Lemma Qltb_Qeq a a' b b' : a == a' -> b == b' -> Qltb a b = Qltb a' b'.
Proof. intros Ea Eb. unfold Qltb. rewrite (Qle_bool_Qeq b b' a a' Eb Ea). reflexivity. Qed.

Lemma F2_of_nth : forall a b : list Q, length a = length b ->
  (forall k, (k < length a)%nat -> nth k a 0 == nth k b 0) -> Forall2 Qeq a b.
Proof.
  induction a as [|p a IH]; intros b HL Hk.
  - destruct b; [constructor| discriminate HL].
  - destruct b as [|q b]; [discriminate HL|]. injection HL as HL. constructor.
    + exact (Hk 0%nat ltac:(cbn [length]; lia)).
    + apply IH; [exact HL|]. intros k Hk'. exact (Hk (S k) ltac:(cbn [length]; lia)).
Qed.

(* the threshold index list only looks at the pattern of == in X and in y_iso *)
Lemma idx_from_Qeq Xs Xs' allsame : Forall2 Qeq Xs Xs' -> forall rs prev,
  idx_from Xs allsame prev rs = idx_from Xs' allsame prev rs.
Proof.
  intros HX. induction rs as [|ri rs IH]; intros prev; [reflexivity|].
  destruct rs as [|r2 rs'].
  - cbn [idx_from].
    rewrite (Qeq_bool_Qeq _ _ _ _ (F2_nth _ _ HX (ri - 1)%nat) (F2_nth _ _ HX prev)). reflexivity.
  - rewrite !idx_from_two. rewrite (IH ri). reflexivity.
Qed.

Lemma thr_idx_Qeq Xs Xs' ys ys' r : Forall2 Qeq Xs Xs' -> Forall2 Qeq ys ys' ->
  thr_idx Xs ys r = thr_idx Xs' ys' r.
Proof.
  intros HX HY. unfold thr_idx. destruct r as [|r0 [|r1 rs]]; try reflexivity.
  rewrite (F2_length _ _ _ _ _ HY).
  rewrite (Qeq_bool_Qeq _ _ _ _ (F2_nth _ _ HY 0%nat) (F2_nth _ _ HY (length ys' - 1)%nat)).
  rewrite (idx_from_Qeq Xs Xs' _ HX). reflexivity.
Qed.

Definition ptEq (p p' : Q * Q) : Prop := fst p == fst p' /\ snd p == snd p'.

Lemma pts_Qeq Xs Xs' ys ys' : Forall2 Qeq Xs Xs' -> Forall2 Qeq ys ys' ->
  forall idx, Forall2 ptEq (pts Xs ys idx) (pts Xs' ys' idx).
Proof.
  intros HX HY. induction idx as [|i idx IH]; [constructor|].
  cbn [pts map]. constructor; [|exact IH]. unfold pt, ptEq. cbn [fst snd].
  split; [exact (F2_nth _ _ HX i)| exact (F2_nth _ _ HY i)].
Qed.

Lemma pick_Qeq l l' : Forall2 Qeq l l' -> forall idx, Forall2 Qeq (pick l idx) (pick l' idx).
Proof.
  intros H. induction idx as [|i idx IH]; [constructor|].
  cbn [pick map]. constructor; [exact (F2_nth _ _ H i)| exact IH].
Qed.

(* np.interp does not distinguish == rationals *)
Lemma interp_from_Qeq : forall rest rest', Forall2 ptEq rest rest' ->
  forall x0 y0 x0' y0' q q', x0 == x0' -> y0 == y0' -> q == q' ->
  interp_from x0 y0 rest q == interp_from x0' y0' rest' q'.
Proof.
  intros rest rest' H. induction H as [|[x1 y1] [x1' y1'] rest rest' Hp H IH];
    intros x0 y0 x0' y0' q q' Ex Ey Eq.
  - cbn [interp_from]. exact Ey.
  - destruct Hp as [E1 E2]. cbn [fst snd] in E1, E2.
    rewrite !interp_from_cons.
    rewrite (Qle_bool_Qeq x1 x1' q q' E1 Eq).
    destruct (Qle_bool x1' q'); [exact (IH _ _ _ _ _ _ E1 E2 Eq)|].
    rewrite (Qeq_bool_Qeq x0 x0' q q' Ex Eq).
    destruct (Qeq_bool x0' q'); [exact Ey|].
    unfold segv. rewrite !Qred_correct. rewrite Ex, Ey, E1, E2, Eq. reflexivity.
Qed.

Lemma last_ptEq : forall rest rest', Forall2 ptEq rest rest' -> forall d d', ptEq d d' ->
  ptEq (last rest d) (last rest' d').
Proof.
  intros rest rest' H. induction H as [|p p' rest rest' Hp H IH]; intros d d' Hd; [exact Hd|].
  rewrite !last_default_cons. apply IH. exact Hp.
Qed.

Definition optEq (o o' : option Q) : Prop :=
  match o, o' with Some v, Some v' => v == v' | None, None => True | _, _ => False end.

Lemma interp_np_Qeq ps ps' q q' : Forall2 ptEq ps ps' -> q == q' ->
  optEq (interp_np ps q) (interp_np ps' q').
Proof.
  intros H Eq. destruct H as [|[x0 y0] [x0' y0'] rest rest' Hp H]; [exact Logic.I|].
  destruct Hp as [Ex Ey]. cbn [fst snd] in Ex, Ey. cbn [interp_np optEq].
  pose proof (last_ptEq rest rest' H (x0, y0) (x0', y0') (conj Ex Ey)) as [L1 L2].
  rewrite (Qltb_Qeq q q' x0 x0' Eq Ex).
  destruct (Qltb q' x0'); [exact Ey|].
  rewrite (Qltb_Qeq _ _ q q' L1 Eq).
  destruct (Qltb (fst (last rest' (x0', y0'))) q'); [exact L2|].
  exact (interp_from_Qeq rest rest' H x0 y0 x0' y0' q q' Ex Ey Eq).
Qed.

Lemma predict_val_proper X y w inc f lvl ft q q' : fit X y w inc f lvl = FOk ft ->
  q == q' -> predict_val ft q == predict_val ft q'.
Proof.
  intros H Eq.
  destruct (predict_total _ _ _ _ _ _ _ q H) as (v & Ev).
  destruct (predict_total _ _ _ _ _ _ _ q' H) as (v' & Ev').
  unfold predict_val. rewrite Ev, Ev'.
  exact (predict_proper _ _ _ _ _ _ _ q q' v v' H Eq Ev Ev').
Qed.

(* two fits whose frames and fitted values agree up to == are the same model up to == *)
Lemma fit_same_of_yiso X y w X' y' w' inc f lvl f' lvl' ft ft' yiso r yiso' r' :
  fit X y w inc f lvl = FOk ft -> fit X' y' w' inc f' lvl' = FOk ft' ->
  Permutation (rows_of X y w) (rows_of X' y' w') ->
  isotonic_regression (fit_ys X y w inc) (fit_ws X y w inc) inc f lvl = IOk (yiso, r) ->
  isotonic_regression (fit_ys X' y' w' inc) (fit_ws X' y' w' inc) inc f' lvl' = IOk (yiso', r') ->
  Forall2 Qeq yiso yiso' ->
  Forall2 Qeq (X_thresholds ft) (X_thresholds ft') /\
  Forall2 Qeq (y_thresholds ft) (y_thresholds ft') /\
  forall q q', q == q' -> predict_val ft q == predict_val ft' q'.
Proof.
  intros HF HF' HP HI HI' HQ.
  destruct (sorted_frames_equiv X y w X' y' w' inc HP) as [EXs EYs].
  destruct (fit_spec _ _ _ _ _ _ _ HF) as (yiso1 & r1 & idx & HI1 & HH & HT & EX & EY & EPts).
  destruct (fit_spec _ _ _ _ _ _ _ HF') as (yiso2 & r2 & idx' & HI2 & HH' & HT' & EX' & EY' & EPts').
  rewrite HI in HI1. injection HI1 as <- <-. rewrite HI' in HI2. injection HI2 as <- <-.
  destruct (iso_facts _ _ _ _ _ _ _ HI) as (HC & _ & _).
  destruct (iso_facts _ _ _ _ _ _ _ HI') as (HC' & _ & _).
  assert (Hne : yiso <> []).
  { destruct HC as (Clen & _). destruct (iso_ok_inv _ _ _ _ _ _ _ HI) as (Hn & _).
    intros E. rewrite E in Clen. destruct (fit_ys X y w inc); [congruence| discriminate Clen]. }
  assert (Er : r = r') by exact (contract_r_det_Qeq _ _ _ _ _ _ HC HC' Hne HQ).
  subst r'.
  rewrite (thr_idx_Qeq _ _ _ _ r EXs HQ) in HT. rewrite HT in HT'. injection HT' as <-.
  split; [rewrite EX, EX'; apply pick_Qeq; exact EXs|].
  split; [rewrite EY, EY'; apply pick_Qeq; exact HQ|].
  intros q q' Eq. unfold predict_val, predict. rewrite EPts, EPts'.
  pose proof (interp_np_Qeq _ _ q q' (pts_Qeq _ _ _ _ EXs HQ idx) Eq) as HO.
  destruct (interp_np (pts (fit_Xs X y w inc) yiso idx) q),
           (interp_np (pts (fit_Xs X' y' w' inc) yiso' idx) q'); cbn [optEq] in HO;
    try contradiction; [exact HO| reflexivity].
Qed.

(* agreement of the predictions at the rows gives agreement of the fitted values *)
Lemma yiso_of_rows_agree X y w X' y' w' inc f lvl f' lvl' ft ft' yiso r yiso' r' :
  fit X y w inc f lvl = FOk ft -> fit X' y' w' inc f' lvl' = FOk ft' ->
  Permutation (rows_of X y w) (rows_of X' y' w') ->
  isotonic_regression (fit_ys X y w inc) (fit_ws X y w inc) inc f lvl = IOk (yiso, r) ->
  isotonic_regression (fit_ys X' y' w' inc) (fit_ws X' y' w' inc) inc f' lvl' = IOk (yiso', r') ->
  (forall rw, In rw (rows_of X y w) -> predict_val ft (rX rw) == predict_val ft' (rX rw)) ->
  Forall2 Qeq yiso yiso'.
Proof.
  intros HF HF' HP HI HI' Hagree.
  destruct (sorted_frames_equiv X y w X' y' w' inc HP) as [EXs _].
  destruct (predict_at_training _ _ _ _ _ _ _ HF) as (yiso1 & r1 & HI1 & HPt).
  destruct (predict_at_training _ _ _ _ _ _ _ HF') as (yiso2 & r2 & HI2 & HPt').
  rewrite HI in HI1. injection HI1 as <- <-. rewrite HI' in HI2. injection HI2 as <- <-.
  destruct (fit_Xs_length _ _ _ _ _ _ _ HF) as [LX LY].
  destruct (fit_Xs_length _ _ _ _ _ _ _ HF') as [LX' LY'].
  destruct (iso_facts _ _ _ _ _ _ _ HI) as ((Clen & _) & _ & _).
  destruct (iso_facts _ _ _ _ _ _ _ HI') as ((Clen' & _) & _ & _).
  pose proof (F2_length _ _ _ _ _ EXs) as LXX.
  assert (LXe : length X = length X') by congruence.
  apply F2_of_nth; [congruence|].
  intros k Hk. assert (Hk1 : (k < length X)%nat) by congruence.
  assert (Hk2 : (k < length X')%nat) by congruence.
  destruct (HPt k Hk1) as (v & Ev & Evv). destruct (HPt' k Hk2) as (v' & Ev' & Evv').
  rewrite <- Evv, <- Evv'.
  assert (E1 : v = predict_val ft (nth k (fit_Xs X y w inc) 0)) by (unfold predict_val; rewrite Ev; reflexivity).
  assert (E2 : v' = predict_val ft' (nth k (fit_Xs X' y' w' inc) 0)) by (unfold predict_val; rewrite Ev'; reflexivity).
  rewrite E1, E2.
  rewrite <- (predict_val_proper _ _ _ _ _ _ _ _ _ HF' (F2_nth _ _ EXs k)).
  unfold fit_Xs. rewrite !nth_rX. apply Hagree.
  eapply Permutation_in; [apply sorted_rows_perm|]. apply nth_In.
  unfold fit_Xs in LX. rewrite map_length in LX. congruence.
Qed.

(* C11 "regardless of row order", mean and expectile, in full: the thresholds of the two
   fitted models agree up to ==, and so do the predictions at EVERY query point *)
Theorem fit_perm_mean_all X y w X' y' w' inc lvl lvl' ft ft' :
  fit X y w inc IFmean lvl = FOk ft -> fit X' y' w' inc IFmean lvl' = FOk ft' ->
  Permutation (rows_of X y w) (rows_of X' y' w') ->
  Forall2 Qeq (X_thresholds ft) (X_thresholds ft') /\
  Forall2 Qeq (y_thresholds ft) (y_thresholds ft') /\
  forall q q', q == q' -> predict_val ft q == predict_val ft' q'.
Proof.
  intros HF HF' HP.
  destruct (fit_inv _ _ _ _ _ _ _ HF) as (_ & yiso & r & idx & HI & _).
  destruct (fit_inv _ _ _ _ _ _ _ HF') as (_ & yiso' & r' & idx' & HI' & _).
  apply (fit_same_of_yiso _ _ _ _ _ _ _ _ _ _ _ _ _ _ _ _ _ HF HF' HP HI HI').
  apply (yiso_of_rows_agree _ _ _ _ _ _ _ _ _ _ _ _ _ _ _ _ _ HF HF' HP HI HI').
  exact (fit_perm_mean _ _ _ _ _ _ _ _ _ _ _ HF HF' HP).
Qed.

Theorem fit_perm_expectile_all X y w X' y' w' inc lvl ft ft' :
  fit X y w inc IFexpectile lvl = FOk ft -> fit X' y' w' inc IFexpectile lvl = FOk ft' ->
  Permutation (rows_of X y w) (rows_of X' y' w') ->
  Forall2 Qeq (X_thresholds ft) (X_thresholds ft') /\
  Forall2 Qeq (y_thresholds ft) (y_thresholds ft') /\
  forall q q', q == q' -> predict_val ft q == predict_val ft' q'.
Proof.
  intros HF HF' HP.
  destruct (fit_inv _ _ _ _ _ _ _ HF) as (_ & yiso & r & idx & HI & _).
  destruct (fit_inv _ _ _ _ _ _ _ HF') as (_ & yiso' & r' & idx' & HI' & _).
  apply (fit_same_of_yiso _ _ _ _ _ _ _ _ _ _ _ _ _ _ _ _ _ HF HF' HP HI HI').
  apply (yiso_of_rows_agree _ _ _ _ _ _ _ _ _ _ _ _ _ _ _ _ _ HF HF' HP HI HI').
  exact (fit_perm_expectile _ _ _ _ _ _ _ _ _ _ HF HF' HP).
Qed.

(* ================================================================== *)
(* Part D.  quantile and median: the quantile path respects ==         *)
(* ================================================================== *)

Section QuantRepr.
Variable phi : elt -> elt.
Hypothesis ey_phi : forall e, ey (phi e) == ey e.
Variable lvl : Q.
Hypothesis Hl : 0 < lvl /\ lvl < 1.
Notation RQ := (fun q q' : Q => q' == q).
Notation RB := (brel elt elt (fun _ : elt => True) phi idQ).

Lemma leb_phi e t : leb (ey (phi e)) t = leb (ey e) t.
Proof. unfold leb. apply Qle_bool_Qeq; [apply ey_phi| reflexivity]. Qed.

Lemma leb_phi_r e t : leb t (ey (phi e)) = leb t (ey e).
Proof. unfold leb. apply Qle_bool_Qeq; [reflexivity| apply ey_phi]. Qed.

Lemma count_le_phi (S : list elt) t : count_le (map phi S) t = count_le S t.
Proof.
  unfold count_le. induction S as [|e S IH]; [reflexivity|].
  cbn [map filter]. rewrite leb_phi.
  destruct (leb (ey e) t); cbn [length]; rewrite IH; reflexivity.
Qed.

Lemma count_lt_phi (S : list elt) t : count_lt (map phi S) t = count_lt S t.
Proof.
  unfold count_lt. induction S as [|e S IH]; [reflexivity|].
  cbn [map filter]. rewrite leb_phi_r.
  destruct (negb (leb t (ey e))); cbn [length]; rewrite IH; reflexivity.
Qed.

Lemma qlow_phi (S : list elt) : S <> [] -> qlow lvl (map phi S) == qlow lvl S.
Proof.
  intros Sn. pose proof (map_ne _ _ phi S Sn) as Sn'.
  apply Qle_antisym.
  - apply (qlow_least lvl Hl (map phi S) _ Sn').
    rewrite map_length, count_le_phi. exact (qlow_reaches lvl Hl S Sn).
  - apply (qlow_least lvl Hl S _ Sn).
    pose proof (qlow_reaches lvl Hl (map phi S) Sn') as R.
    rewrite map_length, count_le_phi in R. exact R.
Qed.

Lemma qupp_phi (S : list elt) : S <> [] -> qupp lvl (map phi S) == qupp lvl S.
Proof.
  intros Sn. pose proof (map_ne _ _ phi S Sn) as Sn'.
  apply Qle_antisym.
  - apply (qupp_greatest lvl Hl S _ Sn).
    pose proof (qupp_spec1 lvl Hl (map phi S) Sn') as R.
    rewrite map_length, count_lt_phi in R. exact R.
  - apply (qupp_greatest lvl Hl (map phi S) _ Sn').
    rewrite map_length, count_lt_phi. exact (qupp_spec1 lvl Hl S Sn).
Qed.

Lemma cummin_RQ : forall q q', Forall2 RQ q q' -> Forall2 RQ (cummin_right q) (cummin_right q').
Proof.
  intros q q' H. induction H as [|z z' q q' Hz H IH]; [constructor|].
  rewrite !cummin_cons.
  destruct IH as [|m m' c c' Hm IH'].
  - constructor; [exact Hz| constructor].
  - constructor; [|constructor; assumption].
    rewrite (Qle_bool_Qeq z' z m' m Hz Hm). destruct (Qle_bool z m); assumption.
Qed.

Lemma qupp_blocks_RQ : forall bs bs', Forall2 RB bs bs' ->
  Forall2 RQ (map (fun b => qupp lvl (bel b)) bs) (map (fun b => qupp lvl (bel b)) bs').
Proof.
  intros bs bs' H. induction H as [|p p' bs bs' Hp H IH]; [constructor|].
  cbn [map]. constructor; [|exact IH].
  destruct Hp as (Ep & _ & Pn & _). rewrite Ep. apply qupp_phi. exact Pn.
Qed.

Lemma xfit_RQ : forall bs bs', Forall2 RB bs bs' -> forall q q', Forall2 RQ q q' ->
  Forall2 RQ (xfit (combine bs q)) (xfit (combine bs' q')).
Proof.
  intros bs bs' H. induction H as [|p p' bs bs' Hp H IH]; intros q q' Hq; [constructor|].
  destruct Hq as [|z z' q q' Hz Hq]; [constructor|].
  cbn [combine]. rewrite !xfit_cons. cbn [fst]. apply Forall2_app; [|exact (IH q q' Hq)].
  destruct Hp as (Ep & Ev & _ & _). rewrite Ep, map_length.
  assert (Em : mval (p', z') == mval (p, z)).
  { rewrite !mval_eq. cbn [fst snd]. rewrite Ev, Hz. unfold idQ. reflexivity. }
  induction (length (bel p)) as [|n IHn]; cbn [repeat]; constructor; assumption.
Qed.

Lemma changes_RQ : forall x x', Forall2 RQ x x' -> forall i, changes i x' = changes i x.
Proof.
  intros x x' H. induction H as [|p p' x x' Hp H IH]; intros i; [reflexivity|].
  destruct H as [|q q' x x' Hq H].
  - reflexivity.
  - rewrite !changes_cons2, (Qeq_bool_Qeq p' p q' q Hp Hq), (IH (S i)). reflexivity.
Qed.

Theorem quantile_path_repr l x r : quantile_path lvl l = Some (x, r) ->
  exists x', quantile_path lvl (map phi l) = Some (x', r) /\ Forall2 Qeq x' x.
Proof.
  intros H. destruct (qp_unfold lvl l x r H) as (Ln & stk & HL & Hx & Hr).
  destruct (gpava_blocks_sim elt elt ey ey (qlow lvl) (qlow lvl) (fun _ => True) phi idQ
              id_le
              (fun e _ => ey_phi e)
              (fun B Bn _ => qlow_phi B Bn)
              l stk (all_dom _ l) HL) as (stk' & HL' & HR).
  destruct (quantile_path_total lvl Hl (map phi l) (map_ne _ _ phi l Ln)) as (x' & r' & H').
  destruct (qp_unfold lvl (map phi l) x' r' H') as (_ & stk'' & HL'' & Hx' & Hr').
  rewrite HL' in HL''. injection HL'' as <-.
  pose proof (brel_rev elt elt _ _ _ stk stk' HR) as HRr.
  pose proof (xfit_RQ _ _ HRr _ _ (cummin_RQ _ _ (qupp_blocks_RQ _ _ HRr))) as HX.
  rewrite <- Hx, <- Hx' in HX.
  assert (Er : r' = r).
  { rewrite Hr, Hr'. unfold rvec_of_values.
    rewrite (changes_RQ x x' HX), (F2_length _ _ _ _ _ HX). reflexivity. }
  exists x'. rewrite <- Er. split; [exact H'|].
  clear - HX. induction HX; constructor; assumption.
Qed.
End QuantRepr.

(* every rational replaced by its reduced fraction *)
Definition canon (e : elt) : elt := (Qred (ey e), ew e).

Lemma ey_canon e : ey (canon e) == ey e.
Proof. unfold canon. cbn. apply Qred_correct. Qed.

Lemma canon_udata : forall y y', Forall2 Qeq y y' -> map canon (udata y) = map canon (udata y').
Proof.
  intros y y' H. unfold udata. induction H as [|p q y y' Hpq H IH]; [reflexivity|].
  cbn [map combine]. f_equal; [|exact IH].
  unfold canon. cbn. f_equal. apply Qred_complete. exact Hpq.
Qed.

Lemma rev_map_length_sub (x0 x0' : list Q) (r0 : list nat) : length x0 = length x0' ->
  map (fun k => (length x0 - k)%nat) (rev r0) = map (fun k => (length x0' - k)%nat) (rev r0).
Proof. intros E. rewrite E. reflexivity. Qed.

(* isotonic_regression, functional quantile: == observations give == fitted values and the
   same block vector *)
Theorem iso_quantile_Qeq y y' inc lvl x r x' r' : 0 < lvl /\ lvl < 1 -> Forall2 Qeq y y' ->
  isotonic_regression y None inc IFquantile lvl = IOk (x, r) ->
  isotonic_regression y' None inc IFquantile lvl = IOk (x', r') ->
  Forall2 Qeq x x' /\ r = r'.
Proof.
  intros Hl HQ H H'.
  rewrite (iso_quantile_unfold y inc lvl Hl) in H. rewrite (iso_quantile_unfold y' inc lvl Hl) in H'.
  change (if inc then udata y else rev (udata y)) with (dir inc (udata y)) in H.
  change (if inc then udata y' else rev (udata y')) with (dir inc (udata y')) in H'.
  destruct (quantile_path lvl (dir inc (udata y))) as [[x0 r0]|] eqn:HP; [|discriminate H].
  destruct (quantile_path lvl (dir inc (udata y'))) as [[x0' r0']|] eqn:HP'; [|discriminate H'].
  destruct (quantile_path_repr canon ey_canon lvl Hl _ _ _ HP) as (xc & HC & HQc).
  destruct (quantile_path_repr canon ey_canon lvl Hl _ _ _ HP') as (xc' & HC' & HQc').
  rewrite map_dir in HC, HC'. rewrite (canon_udata y y' HQ) in HC.
  rewrite HC in HC'. injection HC' as <- <-.
  assert (HQ0 : Forall2 Qeq x0 x0').
  { apply (F2_Qeq_trans _ xc _); [apply F2_Qeq_sym; exact HQc| exact HQc']. }
  assert (Ex : x = dir inc x0 /\ r = (if inc then r0 else map (fun k => (length x0 - k)%nat) (rev r0))).
  { destruct inc; injection H as <- <-; split; reflexivity. }
  assert (Ex' : x' = dir inc x0' /\ r' = (if inc then r0 else map (fun k => (length x0' - k)%nat) (rev r0))).
  { destruct inc; injection H' as <- <-; split; reflexivity. }
  destruct Ex as [-> ->]. destruct Ex' as [-> ->].
  split; [apply F2_Qeq_dir; exact HQ0|].
  destruct inc; [reflexivity|]. apply rev_map_length_sub. exact (F2_length _ _ _ _ _ HQ0).
Qed.

Lemma fit_quantile_unweighted X y w inc f lvl ft : fit X y w inc f lvl = FOk ft ->
  f = IFquantile \/ f = IFmedian -> w = None.
Proof.
  intros H Hf. destruct (fit_inv _ _ _ _ _ _ _ H) as (_ & yiso & r & idx & HI & _).
  destruct (iso_ok_inv _ _ _ _ _ _ _ HI) as (_ & _ & [C|[[C _]|[(_ & _ & C)|[_ C]]]]).
  - destruct Hf as [->| ->]; discriminate C.
  - destruct Hf as [->| ->]; discriminate C.
  - destruct w; [discriminate C| reflexivity].
  - destruct w; [discriminate C| reflexivity].
Qed.

(* C11 "regardless of row order", quantile and median: the fitted models of two row orders
   agree up to == (there is no sample_weight: the class rejects it for these functionals) *)
Theorem fit_perm_quantile X y w X' y' w' inc lvl ft ft' :
  fit X y w inc IFquantile lvl = FOk ft -> fit X' y' w' inc IFquantile lvl = FOk ft' ->
  Permutation (rows_of X y w) (rows_of X' y' w') ->
  Forall2 Qeq (X_thresholds ft) (X_thresholds ft') /\
  Forall2 Qeq (y_thresholds ft) (y_thresholds ft') /\
  forall q q', q == q' -> predict_val ft q == predict_val ft' q'.
Proof.
  intros HF HF' HP.
  pose proof (fit_quantile_unweighted _ _ _ _ _ _ _ HF (or_introl eq_refl)) as ->.
  pose proof (fit_quantile_unweighted _ _ _ _ _ _ _ HF' (or_introl eq_refl)) as ->.
  destruct (fit_inv _ _ _ _ _ _ _ HF) as (_ & yiso & r & idx & HI & _).
  destruct (fit_inv _ _ _ _ _ _ _ HF') as (_ & yiso' & r' & idx' & HI' & _).
  apply (fit_same_of_yiso _ _ _ _ _ _ _ _ _ _ _ _ _ _ _ _ _ HF HF' HP HI HI').
  destruct (sorted_frames_equiv X y None X' y' None inc HP) as [_ EYs].
  cbn [fit_ws] in HI, HI'.
  assert (Hl : 0 < lvl /\ lvl < 1).
  { destruct (iso_ok_inv _ _ _ _ _ _ _ HI) as (_ & _ & [C|[[C _]|[(_ & Hl & _)|[C _]]]]); try discriminate C.
    exact Hl. }
  exact (proj1 (iso_quantile_Qeq _ _ inc lvl _ _ _ _ Hl EYs HI HI')).
Qed.

Theorem fit_perm_median X y w X' y' w' inc lvl lvl' ft ft' :
  fit X y w inc IFmedian lvl = FOk ft -> fit X' y' w' inc IFmedian lvl' = FOk ft' ->
  Permutation (rows_of X y w) (rows_of X' y' w') ->
  Forall2 Qeq (X_thresholds ft) (X_thresholds ft') /\
  Forall2 Qeq (y_thresholds ft) (y_thresholds ft') /\
  forall q q', q == q' -> predict_val ft q == predict_val ft' q'.
Proof.
  intros HF HF' HP.
  pose proof (fit_quantile_unweighted _ _ _ _ _ _ _ HF (or_intror eq_refl)) as ->.
  pose proof (fit_quantile_unweighted _ _ _ _ _ _ _ HF' (or_intror eq_refl)) as ->.
  destruct (fit_inv _ _ _ _ _ _ _ HF) as (_ & yiso & r & idx & HI & _).
  destruct (fit_inv _ _ _ _ _ _ _ HF') as (_ & yiso' & r' & idx' & HI' & _).
  apply (fit_same_of_yiso _ _ _ _ _ _ _ _ _ _ _ _ _ _ _ _ _ HF HF' HP HI HI').
  destruct (sorted_frames_equiv X y None X' y' None inc HP) as [_ EYs].
  cbn [fit_ws] in HI, HI'.
  rewrite iso_median_is_quantile_half in HI, HI'.
  exact (proj1 (iso_quantile_Qeq _ _ inc (1#2) _ _ _ _ (conj eq_refl eq_refl) EYs HI HI')).
Qed.

(* ================================================================== *)
(* All functionals in one statement                                    *)
(* ================================================================== *)

(* C11: whatever the functional, two fits on the same multiset of rows (any order) predict the
   same value at every query point (in particular at the training points) *)
Theorem fit_perm_all X y w X' y' w' inc f lvl ft ft' :
  fit X y w inc f lvl = FOk ft -> fit X' y' w' inc f lvl = FOk ft' ->
  Permutation (rows_of X y w) (rows_of X' y' w') ->
  Forall2 Qeq (X_thresholds ft) (X_thresholds ft') /\
  Forall2 Qeq (y_thresholds ft) (y_thresholds ft') /\
  forall q q', q == q' -> predict_val ft q == predict_val ft' q'.
Proof.
  intros HF HF' HP. destruct f.
  - exact (fit_perm_mean_all _ _ _ _ _ _ _ _ _ _ _ HF HF' HP).
  - exact (fit_perm_median _ _ _ _ _ _ _ _ _ _ _ HF HF' HP).
  - exact (fit_perm_expectile_all _ _ _ _ _ _ _ _ _ _ HF HF' HP).
  - exact (fit_perm_quantile _ _ _ _ _ _ _ _ _ _ HF HF' HP).
  - exfalso. destruct (fit_inv _ _ _ _ _ _ _ HF) as (_ & yiso & r & idx & HI & _).
    unfold isotonic_regression in HI. discriminate HI.
Qed.

(* in the vocabulary of `predict` (an option) *)
Corollary fit_perm_predict X y w X' y' w' inc f lvl ft ft' q :
  fit X y w inc f lvl = FOk ft -> fit X' y' w' inc f lvl = FOk ft' ->
  Permutation (rows_of X y w) (rows_of X' y' w') ->
  exists v v', predict ft q = Some v /\ predict ft' q = Some v' /\ v == v'.
Proof.
  intros HF HF' HP.
  destruct (predict_total _ _ _ _ _ _ _ q HF) as (v & Ev).
  destruct (predict_total _ _ _ _ _ _ _ q HF') as (v' & Ev').
  exists v, v'. split; [exact Ev|]. split; [exact Ev'|].
  destruct (fit_perm_all _ _ _ _ _ _ _ _ _ _ _ HF HF' HP) as (_ & _ & HQ).
  pose proof (HQ q q (Qeq_refl q)) as E. unfold predict_val in E. rewrite Ev, Ev' in E. exact E.
Qed.

(* the hypotheses are satisfiable, in a case that [fit_perm_partial] does not cover: the two
   rows with X = 2 tie in the sort order (y = 4/2 and y = 2), carry different weights, and reach
   isotonic_regression in a different order in the two fits *)
Definition exX := [2; 1; 2; 3].  Definition exy := [4#2; 3; 2; 1].  Definition exw := Some [1; 2; 3; 1].
Definition exX' := [3; 2; 2; 1]. Definition exy' := [1; 2; 4#2; 3]. Definition exw' := Some [1; 3; 1; 2].
Example fit_perm_example :
  Permutation (rows_of exX exy exw) (rows_of exX' exy' exw') /\
  sorted_rows exX exy exw true <> sorted_rows exX' exy' exw' true /\
  exists ft ft', fit exX exy exw true IFmean 0 = FOk ft /\ fit exX' exy' exw' true IFmean 0 = FOk ft'.
Proof.
  split; [|split].
  - cbv [rows_of mk_rows combine map fst snd exX exy exw exX' exy' exw'].
    apply (Permutation_cons_app [_; _] [_]). cbn [app].
    apply (Permutation_cons_app [_; _] []). cbn [app].
    apply perm_swap.
  - vm_compute. intros C. discriminate C.
  - eexists. eexists. split; vm_compute; reflexivity.
Qed.

(* ================================================================== *)
(* Part E.  integer case weights = physically repeated rows (mean and  *)
(*          expectile): same predictions at the training points        *)
(* ================================================================== *)
From MD Require Import proofs.IsoReplicate.

Lemma rsum_app f : forall l1 l2, rsum f (l1 ++ l2) = (rsum f l1 + rsum f l2)%R.
Proof. induction l1 as [|a l1 IH]; intros l2; cbn [app rsum]; [lra| rewrite IH; lra]. Qed.

Lemma rsum_ext f g l : (forall rw, f rw = g rw) -> rsum f l = rsum g l.
Proof. intros H. induction l as [|a l IH]; [reflexivity|]. cbn [rsum]. rewrite H, IH. reflexivity. Qed.

Lemma mk_rows_app : forall X1 y1 w1 X2 y2 w2, length X1 = length y1 -> length w1 = length y1 ->
  mk_rows (X1 ++ X2) (y1 ++ y2) (w1 ++ w2) = mk_rows X1 y1 w1 ++ mk_rows X2 y2 w2.
Proof.
  unfold mk_rows. induction X1 as [|a X1 IH]; intros y1 w1 X2 y2 w2 L1 L2.
  - destruct y1; [|discriminate L1]. destruct w1; [|discriminate L2]. reflexivity.
  - destruct y1 as [|b y1]; [discriminate L1|]. destruct w1 as [|c w1]; [discriminate L2|].
    cbn [app combine map]. f_equal. apply IH; [injection L1 as L1; exact L1| injection L2 as L2; exact L2].
Qed.

Lemma mk_rows_repeat x y : forall k,
  mk_rows (repeat x k) (repeat y k) (repeat 1 k) = repeat (mkrow x y 1) k.
Proof. unfold mk_rows. induction k as [|k IH]; [reflexivity|]. cbn [repeat combine map fst snd]. rewrite IH. reflexivity. Qed.

Lemma Q2R_Qnat k : Q2R (Qnat k) = INR k.
Proof. unfold Qnat, Q2R. cbn [inject_Z Qnum Qden]. rewrite INR_IZR_INZ. lra. Qed.

Lemma rsum_repeat f rw : forall k, rsum f (repeat rw k) = (INR k * f rw)%R.
Proof.
  induction k as [|k IH]; [cbn [repeat rsum INR]; lra|].
  cbn [repeat rsum]. rewrite IH, S_INR. lra.
Qed.

Lemma ones_repl (y : list Q) ks : map (fun _ : Q => 1) (repl y ks) = repl (map (fun _ => 1) y) ks.
Proof.
  unfold repl. revert ks. induction y as [|v y IH]; intros ks; [reflexivity|].
  destruct ks as [|k ks]; [reflexivity|]. cbn [map combine flat_map fst snd].
  rewrite map_app, IH. f_equal. clear. induction k as [|k IH]; [reflexivity|]. cbn [repeat map]. rewrite IH. reflexivity.
Qed.

(* a weighted sum over the rows with integer weights = the plain sum over the repeated rows *)
Lemma rsum_repl (F : Q -> Q -> R) : forall X y ks, length X = length y -> length ks = length y ->
  rsum (fun rw => (Q2R (rW rw) * F (rX rw) (rY rw))%R) (rows_of (repl X ks) (repl y ks) None) =
  rsum (fun rw => (Q2R (rW rw) * F (rX rw) (rY rw))%R) (rows_of X y (Some (map Qnat ks))).
Proof.
  unfold rows_of. intros X y ks. rewrite ones_repl. revert y ks.
  induction X as [|x X IH]; intros y ks L1 L2.
  - destruct y; [|discriminate L1]. destruct ks; [|discriminate L2]. reflexivity.
  - destruct y as [|v y]; [discriminate L1|]. destruct ks as [|k ks]; [discriminate L2|].
    injection L1 as L1. injection L2 as L2.
    cbn [map]. rewrite !repl_cons.
    rewrite mk_rows_app by (rewrite !repeat_length; reflexivity).
    rewrite rsum_app, (IH y ks L1 L2), mk_rows_repeat, rsum_repeat.
    unfold mk_rows at 2. cbn [combine map fst snd rsum rX rY rW].
    fold (mk_rows X y (map Qnat ks)). rewrite Q2R_Qnat, RMicromega.Q2R_1. lra.
Qed.

Lemma rows_repl_In X y ks rw : length X = length y -> length ks = length y ->
  In rw (rows_of (repl X ks) (repl y ks) None) ->
  exists rw', In rw' (rows_of X y (Some (map Qnat ks))) /\ rX rw' = rX rw.
Proof.
  unfold rows_of. rewrite ones_repl. revert y ks.
  induction X as [|x X IH]; intros y ks L1 L2 Hin.
  - destruct y; [|discriminate L1]. destruct ks; [|discriminate L2]. destruct Hin.
  - destruct y as [|v y]; [discriminate L1|]. destruct ks as [|k ks]; [discriminate L2|].
    injection L1 as L1. injection L2 as L2.
    cbn [map] in Hin. rewrite !repl_cons in Hin.
    rewrite mk_rows_app in Hin by (rewrite !repeat_length; reflexivity).
    apply in_app_or in Hin. destruct Hin as [Hin|Hin].
    + rewrite mk_rows_repeat in Hin. apply repeat_spec in Hin. subst rw.
      exists (mkrow x v (Qnat k)). split; [left; reflexivity| reflexivity].
    + destruct (IH y ks L1 L2 Hin) as (rw' & Hin' & E).
      exists rw'. split; [right; exact Hin'| exact E].
Qed.

Section Replication.
Variables (X y : list Q) (ks : list nat) (inc : bool).
Hypothesis L1 : length X = length y.
Hypothesis L2 : length ks = length y.
Notation Rw := (rows_of X y (Some (map Qnat ks))).
Notation Rr := (rows_of (repl X ks) (repl y ks) None).

Lemma row_sq_repl g : rsum (row_sq g) Rr = rsum (row_sq g) Rw.
Proof. exact (rsum_repl (fun x v => (Q2R v - g x) ^ 2)%R X y ks L1 L2). Qed.

Lemma row_gap_repl g h : rsum (row_gap g h) Rr = rsum (row_gap g h) Rw.
Proof. exact (rsum_repl (fun x _ => (g x - h x) ^ 2)%R X y ks L1 L2). Qed.

Lemma row_as_repl a g : rsum (row_as a g) Rr = rsum (row_as a g) Rw.
Proof.
  set (T := fun rw => (Q2R (rW rw) * ((if Rle_dec (Q2R (rY rw)) (g (rX rw)) then 1 - Q2R a else Q2R a)
                                      * (Q2R (rY rw) - g (rX rw)) ^ 2))%R).
  assert (E : forall rw, row_as a g rw = T rw) by (intros rw; unfold row_as, T; ring).
  rewrite (rsum_ext _ _ Rr E), (rsum_ext _ _ Rw E).
  exact (rsum_repl (fun x v => ((if Rle_dec (Q2R v) (g x) then 1 - Q2R a else Q2R a)
                                * (Q2R v - g x) ^ 2)%R) X y ks L1 L2).
Qed.

(* C07 / C12 at the level of the fitted model: integer sample weights k_i and k_i physical
   copies of row i give the same predictions at every training point *)
Theorem fit_replication_mean lvl lvl' ft ft' :
  fit X y (Some (map Qnat ks)) inc IFmean lvl = FOk ft ->
  fit (repl X ks) (repl y ks) None inc IFmean lvl' = FOk ft' ->
  forall rw, In rw Rw -> predict_val ft (rX rw) == predict_val ft' (rX rw).
Proof.
  intros HF HF' rw Hin.
  set (P := fun q => Q2R (predict_val ft q)). set (P' := fun q => Q2R (predict_val ft' q)).
  pose proof (fit_predict_optimal_rows_mean _ _ _ _ _ _ HF P' (predict_val_dmono _ _ _ _ _ _ _ HF')) as O1.
  pose proof (fit_predict_optimal_rows_mean _ _ _ _ _ _ HF' P (predict_val_dmono _ _ _ _ _ _ _ HF)) as O2.
  cbv zeta in O1, O2. fold P in O1. fold P' in O2.
  rewrite !row_sq_repl, row_gap_repl in O2.
  apply eqR_Qeq. change (P (rX rw) = P' (rX rw)).
  apply (two_sided_optimal_equal row_sq 1%R P P' Rw);
    [lra| exact (fit_rows_pos _ _ _ _ _ _ _ HF)| lra| lra| exact Hin].
Qed.

Theorem fit_replication_expectile lvl ft ft' :
  fit X y (Some (map Qnat ks)) inc IFexpectile lvl = FOk ft ->
  fit (repl X ks) (repl y ks) None inc IFexpectile lvl = FOk ft' ->
  forall rw, In rw Rw -> predict_val ft (rX rw) == predict_val ft' (rX rw).
Proof.
  intros HF HF' rw Hin.
  set (P := fun q => Q2R (predict_val ft q)). set (P' := fun q => Q2R (predict_val ft' q)).
  pose proof (fit_predict_optimal_rows_expectile _ _ _ _ _ _ HF P' (predict_val_dmono _ _ _ _ _ _ _ HF')) as O1.
  pose proof (fit_predict_optimal_rows_expectile _ _ _ _ _ _ HF' P (predict_val_dmono _ _ _ _ _ _ _ HF)) as O2.
  cbv zeta in O1, O2. fold P in O1. fold P' in O2.
  rewrite !row_as_repl, row_gap_repl in O2.
  assert (Hl : 0 < lvl /\ lvl < 1).
  { destruct (fit_inv _ _ _ _ _ _ _ HF) as (_ & yiso & r & idx & HI & _).
    destruct (iso_ok_inv _ _ _ _ _ _ _ HI) as (_ & _ & [C|[[_ Hl]|[(C & _)|[C _]]]]); try discriminate C.
    exact Hl. }
  assert (Hc : (0 < Rmin (Q2R lvl) (1 - Q2R lvl))%R).
  { destruct Hl as [Hl0 Hl1]. apply Qlt_Rlt in Hl0, Hl1.
    rewrite RMicromega.Q2R_0 in Hl0. rewrite RMicromega.Q2R_1 in Hl1.
    unfold Rmin. destruct (Rle_dec (Q2R lvl) (1 - Q2R lvl)); lra. }
  apply eqR_Qeq. change (P (rX rw) = P' (rX rw)).
  apply (two_sided_optimal_equal (row_as lvl) _ P P' Rw Hc
           (fit_rows_pos _ _ _ _ _ _ _ HF) O1 O2 rw Hin).
Qed.

(* both, and also at the (same) training points of the replicated data *)
Theorem fit_replication f lvl ft ft' : f = IFmean \/ f = IFexpectile ->
  fit X y (Some (map Qnat ks)) inc f lvl = FOk ft ->
  fit (repl X ks) (repl y ks) None inc f lvl = FOk ft' ->
  (forall rw, In rw Rw -> predict_val ft (rX rw) == predict_val ft' (rX rw)) /\
  (forall rw, In rw Rr -> predict_val ft (rX rw) == predict_val ft' (rX rw)).
Proof.
  intros Hf HF HF'.
  assert (H1 : forall rw, In rw Rw -> predict_val ft (rX rw) == predict_val ft' (rX rw)).
  { destruct Hf as [->| ->].
    - exact (fit_replication_mean _ _ _ _ HF HF').
    - exact (fit_replication_expectile _ _ _ HF HF'). }
  split; [exact H1|]. intros rw Hin.
  destruct (rows_repl_In X y ks rw L1 L2 Hin) as (rw' & Hin' & E). rewrite <- E. exact (H1 rw' Hin').
Qed.
End Replication.

Print Assumptions fit_perm_mean.
Print Assumptions fit_perm_expectile.
Print Assumptions sorted_frames_equiv.
Print Assumptions fit_perm_mean_all.
Print Assumptions fit_perm_expectile_all.
Print Assumptions iso_quantile_Qeq.
Print Assumptions fit_perm_quantile.
Print Assumptions fit_perm_median.
Print Assumptions fit_perm_all.
Print Assumptions fit_perm_predict.
Print Assumptions fit_replication.
