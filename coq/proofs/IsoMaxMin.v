(* The max-min formula for the executable model `isotonic_regression`
   (model/Isotonic.v), and the extremal optimal solutions of isotonic quantile
   regression.

   Part A (world Q, no axioms) - C01 / C03:
     iso_mean_maxmin, iso_expectile_maxmin          increasing fit:
        x_i == max_{a<=i} min_{b>=i} T (data[a..b]) == min_{b>=i} max_{a<=i} T (data[a..b])
     iso_mean_maxmin_dec, iso_expectile_maxmin_dec  decreasing fit (mirrored formula):
        x_i == min_{a<=i} max_{b>=i} T (data[a..b]) == max_{b>=i} min_{a<=i} T (data[a..b])
     with T = wmean resp. expectile_Q lvl on the weighted segments, from the
     generic theorem of theory/MaxMin.v.

   Part B (world R, standard real-number axioms only) - C02:
     cert_smallest             generic: strictly negative prefix sums make the certified
                               fit pointwise <= every monotone minimiser
     quantile_lower_smallest / lower_solution_smallest
                               the lower-quantile GPAVA solution is a monotone minimiser of
                               the pinball loss and pointwise <= every monotone minimiser
     upper_solution_largest    the mirrored solution (minus the reversed lower solution
                               of the negated reversed data at level 1-a) is a monotone
                               minimiser and pointwise >= every monotone minimiser
     quantile_path_between / quantile_path_le_upper
                               the output of the quantile path lies pointwise between
     iso_quantile_between      the same through isotonic_regression, both directions
   Part C (world Q, no axioms):
     lower_solution_saddle / upper_solution_saddle
                               the smallest / largest solution is the max-min (= min-max)
                               of the lower quantile qlow / the upper quantile qupp
     quantile_path_between_maxmin (uses Part B)
                               maxmin qlow <= result <= maxmin qupp pointwise *)
From Coq Require Import QArith Qreals Qreduction Reals Lqa Lra Lia List Bool Sorted.
(* Lra after Lqa: unqualified [lra]/[nra] are the real-number tactics; the
   rational ones are [Lqa.lra]/[Lqa.nra]. *)
Import ListNotations.
From MD Require Import lib.QLists model.Functionals model.Gpava model.Pava model.Isotonic
  theory.GpavaMerge theory.GInst theory.GpavaCert theory.Optimal
  theory.InstMean theory.InstExpectile theory.InstQuantile theory.Transport theory.IsoOptimal
  theory.MaxMin proofs.IsoQuantProps proofs.IsoProps.

(* ================================================================== *)
(* Part A: the max-min formula for mean and expectile                  *)
(* ================================================================== *)

Lemma saddle_pack (A : Type) (T : list A -> Q) l i t n : length l = n -> (i < n)%nat ->
  saddle T l i t ->
  ((forall a, (a <= i)%nat -> exists b, (i <= b < n)%nat /\ (T (seg l a b) <= t)%Q) /\
   (exists a, (a <= i)%nat /\ forall b, (i <= b < n)%nat -> (t <= T (seg l a b))%Q)) /\
  (t == maxmin T l i)%Q /\ (t == minmax T l i)%Q.
Proof.
  intros <- Hi HS. split.
  - exact (saddle_is_maxmin A T l i t HS).
  - exact (saddle_fold A T l i t Hi HS).
Qed.

Lemma saddle_dec_pack (A : Type) (T : list A -> Q) l i t n : length l = n -> (i < n)%nat ->
  saddle_dec T l i t ->
  ((exists a, (a <= i)%nat /\ forall b, (i <= b < n)%nat -> (T (seg l a b) <= t)%Q) /\
   (forall a, (a <= i)%nat -> exists b, (i <= b < n)%nat /\ (t <= T (seg l a b))%Q)) /\
  (t == minmax_dec T l i)%Q /\ (t == maxmin_dec T l i)%Q.
Proof.
  intros <- Hi HS. split.
  - destruct HS as [H1 (b0 & Hb0 & H2)]. split; [exact H1|].
    intros a Ha. exists b0. split; [exact Hb0| exact (H2 a Ha)].
  - exact (saddle_dec_fold A T l i t Hi HS).
Qed.

Lemma run_saddle_inc I l x r : run I l true x r -> forall i, (i < length l)%nat ->
  saddle (g_T I) l i (nth i x 0%Q).
Proof.
  intros (stk & x0 & _ & Hok & Hflat & HQ & Ex & _) i Hi.
  cbn [dir] in Hflat, Ex. subst x.
  apply (saddle_Qeq _ _ _ _ (nth i (expand (g_elt I) stk) 0%Q)).
  - symmetry. apply F2_nth. exact HQ.
  - rewrite <- Hflat. apply stack_saddle; [exact Hok| rewrite Hflat; exact Hi].
Qed.

Lemma run_saddle_dec I l x r : run I l false x r -> forall i, (i < length l)%nat ->
  saddle_dec (g_T I) l i (nth i x 0%Q).
Proof.
  intros (stk & x0 & _ & Hok & Hflat & HQ & Ex & _) i Hi.
  cbn [dir] in Hflat, Ex. subst x.
  assert (HL : length x0 = length l).
  { rewrite (F2_length _ _ _ _ _ HQ), expand_length, Hflat, rev_length. reflexivity. }
  rewrite rev_nth by lia. rewrite HL.
  replace (length l - S i)%nat with (length l - 1 - i)%nat by lia.
  apply (saddle_dec_Qeq _ _ _ _ (nth (length l - 1 - i) (expand (g_elt I) stk) 0%Q)).
  - symmetry. apply F2_nth. exact HQ.
  - apply stack_saddle_dec; assumption.
Qed.

(* C01: each fitted value is max over a<=i of min over b>=i of the weighted mean of y[a..b] *)
Theorem iso_mean_maxmin : forall y weights lvl x r, y <> [] -> valid_w y weights ->
  isotonic_regression y weights true IFmean lvl = IOk (x, r) ->
  forall i, (i < length y)%nat ->
    ((forall a, (a <= i)%nat -> exists b, (i <= b < length y)%nat /\
         (wmean (seg (data y weights) a b) <= nth i x 0)%Q) /\
     (exists a, (a <= i)%nat /\ forall b, (i <= b < length y)%nat ->
         (nth i x 0 <= wmean (seg (data y weights) a b))%Q)) /\
    (nth i x 0 == maxmin wmean (data y weights) i)%Q /\
    (nth i x 0 == minmax wmean (data y weights) i)%Q.
Proof.
  intros y weights lvl x r Hn Hv H i Hi.
  pose proof (run_mean y weights true lvl x r Hn Hv H) as HR.
  pose proof (data_length y weights Hv) as HL.
  apply (saddle_pack elt wmean (data y weights) i (nth i x 0%Q) (length y) HL Hi).
  apply (run_saddle_inc mean_inst _ x r HR). change (i < length (data y weights))%nat. rewrite HL. exact Hi.
Qed.

(* decreasing fit: the mirrored formula *)
Theorem iso_mean_maxmin_dec : forall y weights lvl x r, y <> [] -> valid_w y weights ->
  isotonic_regression y weights false IFmean lvl = IOk (x, r) ->
  forall i, (i < length y)%nat ->
    ((exists a, (a <= i)%nat /\ forall b, (i <= b < length y)%nat ->
         (wmean (seg (data y weights) a b) <= nth i x 0)%Q) /\
     (forall a, (a <= i)%nat -> exists b, (i <= b < length y)%nat /\
         (nth i x 0 <= wmean (seg (data y weights) a b))%Q)) /\
    (nth i x 0 == minmax_dec wmean (data y weights) i)%Q /\
    (nth i x 0 == maxmin_dec wmean (data y weights) i)%Q.
Proof.
  intros y weights lvl x r Hn Hv H i Hi.
  pose proof (run_mean y weights false lvl x r Hn Hv H) as HR.
  pose proof (data_length y weights Hv) as HL.
  apply (saddle_dec_pack elt wmean (data y weights) i (nth i x 0%Q) (length y) HL Hi).
  apply (run_saddle_dec mean_inst _ x r HR). change (i < length (data y weights))%nat. rewrite HL. exact Hi.
Qed.

(* C03: the same with the weighted level-expectile *)
Theorem iso_expectile_maxmin : forall y weights lvl x r, y <> [] -> valid_w y weights ->
  (0 < lvl /\ lvl < 1)%Q ->
  isotonic_regression y weights true IFexpectile lvl = IOk (x, r) ->
  forall i, (i < length y)%nat ->
    ((forall a, (a <= i)%nat -> exists b, (i <= b < length y)%nat /\
         (expectile_Q lvl (seg (data y weights) a b) <= nth i x 0)%Q) /\
     (exists a, (a <= i)%nat /\ forall b, (i <= b < length y)%nat ->
         (nth i x 0 <= expectile_Q lvl (seg (data y weights) a b))%Q)) /\
    (nth i x 0 == maxmin (expectile_Q lvl) (data y weights) i)%Q /\
    (nth i x 0 == minmax (expectile_Q lvl) (data y weights) i)%Q.
Proof.
  intros y weights lvl x r Hn Hv Hl H i Hi.
  pose proof (run_expectile y weights true lvl Hl x r Hn Hv H) as HR.
  pose proof (data_length y weights Hv) as HL.
  apply (saddle_pack elt (expectile_Q lvl) (data y weights) i (nth i x 0%Q) (length y) HL Hi).
  apply (run_saddle_inc (expectile_inst lvl Hl) _ x r HR). change (i < length (data y weights))%nat. rewrite HL. exact Hi.
Qed.

Theorem iso_expectile_maxmin_dec : forall y weights lvl x r, y <> [] -> valid_w y weights ->
  (0 < lvl /\ lvl < 1)%Q ->
  isotonic_regression y weights false IFexpectile lvl = IOk (x, r) ->
  forall i, (i < length y)%nat ->
    ((exists a, (a <= i)%nat /\ forall b, (i <= b < length y)%nat ->
         (expectile_Q lvl (seg (data y weights) a b) <= nth i x 0)%Q) /\
     (forall a, (a <= i)%nat -> exists b, (i <= b < length y)%nat /\
         (nth i x 0 <= expectile_Q lvl (seg (data y weights) a b))%Q)) /\
    (nth i x 0 == minmax_dec (expectile_Q lvl) (data y weights) i)%Q /\
    (nth i x 0 == maxmin_dec (expectile_Q lvl) (data y weights) i)%Q.
Proof.
  intros y weights lvl x r Hn Hv Hl H i Hi.
  pose proof (run_expectile y weights false lvl Hl x r Hn Hv H) as HR.
  pose proof (data_length y weights Hv) as HL.
  apply (saddle_dec_pack elt (expectile_Q lvl) (data y weights) i (nth i x 0%Q) (length y) HL Hi).
  apply (run_saddle_dec (expectile_inst lvl Hl) _ x r HR). change (i < length (data y weights))%nat. rewrite HL. exact Hi.
Qed.

(* the hypotheses are satisfiable, and the formula can be evaluated *)
Example iso_mean_maxmin_example :
  let y := [3; 1; 2; 5; 4]%Q in let w := Some [1; 2; 1; 1; 3]%Q in
  match isotonic_regression y w true IFmean 0 with
  | IOk (x, _) => forallb (fun i => Qeq_bool (nth i x 0%Q) (maxmin wmean (data y w) i)) (seq 0 5) = true
  | IErr _ => False
  end.
Proof. vm_compute. reflexivity. Qed.


(* ================================================================== *)
(* Part B: the smallest and the largest optimal quantile solution      *)
(* ================================================================== *)

Local Open Scope R_scope.

(* ---------- sorted lists of reals ---------- *)

Lemma sortedR_SS : forall l, sortedR l -> StronglySorted Rle l.
Proof.
  induction l as [|a l IH]; intros Hs; [constructor|].
  destruct l as [|b l'].
  - constructor; constructor.
  - apply sortedR_cons2 in Hs. destruct Hs as [Hab Hs].
    pose proof (IH Hs) as HS. constructor; [exact HS|].
    constructor; [exact Hab|].
    destruct (StronglySorted_inv HS) as [_ Hb].
    eapply Forall_impl; [|exact Hb]. intros z Hz. cbv beta in Hz. lra.
Qed.

Lemma SS_sortedR : forall l, StronglySorted Rle l -> sortedR l.
Proof.
  intros l HS. induction HS as [|a l HS IH Ha]; [exact Logic.I|].
  destruct l as [|b l']; [exact Logic.I|].
  apply sortedR_cons2. split; [exact (Forall_inv Ha)| exact IH].
Qed.

Lemma sorted_ge_hd : forall (u : list R) t n, sortedR u -> t <= hd 0 u -> length u = n ->
  Forall2 Rle (repeat t n) u.
Proof.
  induction u as [|x u IH]; intros t n Hs Ht Hn.
  - subst n. constructor.
  - destruct n as [|n]; [discriminate Hn|]. cbn [length] in Hn. injection Hn as Hn.
    cbn [repeat]. constructor; [exact Ht|].
    destruct u as [|z u'].
    + subst n. constructor.
    + apply sortedR_cons2 in Hs. destruct Hs as [Hxz Hs].
      apply IH; [exact Hs| cbn [hd] in *; lra| exact Hn].
Qed.

Lemma Forall2_rev (A B : Type) (P : A -> B -> Prop) : forall p q,
  Forall2 P p q -> Forall2 P (rev p) (rev q).
Proof.
  intros p q H. induction H as [|a b p q Hab H IH]; [constructor|].
  cbn [rev]. apply Forall2_app; [exact IH| constructor; [exact Hab| constructor]].
Qed.

(* ---------- strict Abel summation ---------- *)

Lemma abel_prefix_strict : forall e d acc, length e = length d ->
  (forall p s, e = p ++ s -> p <> [] -> acc + sumR p < 0) ->
  sortedR d -> Forall (fun x => x <= 0) d -> hd 0 d < 0 ->
  0 < dotR e d + acc * hd 0 d.
Proof.
  induction e as [|x e' IH]; intros d acc Hlen Hpre Hsort Hneg Hhd.
  - destruct d as [|y d']; [|discriminate Hlen]. cbn [hd] in Hhd. lra.
  - destruct d as [|y d']; [discriminate Hlen|].
    cbn [length] in Hlen. injection Hlen as Hlen. cbn [hd] in Hhd |- *.
    assert (Hx : acc + x < 0).
    { pose proof (Hpre [x] e' eq_refl ltac:(discriminate)) as Hx. cbn [sumR] in Hx. lra. }
    assert (Hneg' : Forall (fun x => x <= 0) d') by exact (Forall_inv_tail Hneg).
    assert (Hpre' : forall p s, e' = p ++ s -> p <> [] -> (acc + x) + sumR p < 0).
    { intros p s Hp Hne.
      pose proof (Hpre (x :: p) s ltac:(rewrite Hp; reflexivity) ltac:(discriminate)) as Hq.
      cbn [sumR] in Hq. lra. }
    destruct d' as [|y' d''].
    + destruct e' as [|z e'']; [|discriminate Hlen].
      cbn [dotR]. nra.
    + apply sortedR_cons2 in Hsort. destruct Hsort as [Hyy Hs'].
      pose proof (Forall_inv Hneg') as Hy'. cbv beta in Hy'.
      change (0 < x * y + dotR e' (y' :: d'') + acc * y).
      destruct (Rlt_dec y' 0) as [Hlt|Hnlt].
      * pose proof (IH (y' :: d'') (acc + x) Hlen Hpre' Hs' Hneg' Hlt) as IH'.
        cbn [hd] in IH'.
        assert (0 <= (acc + x) * (y - y')) by nra. nra.
      * assert (Ey : y' = 0) by lra.
        assert (Hpre0 : forall p s, e' = p ++ s -> p <> [] -> (acc + x) + sumR p <= 0).
        { intros p s Hp Hne. pose proof (Hpre' p s Hp Hne). lra. }
        pose proof (abel_prefix_strong e' (y' :: d'') (acc + x) Hlen Hpre0 Hs' Hneg') as IH'.
        cbn [hd] in IH'. subst y'.
        assert (0 < (acc + x) * y) by nra. lra.
Qed.

(* ---------- generic: strictly negative prefix sums make the certified fit
              the pointwise smallest minimiser ---------- *)

Section Smallest.
Variable E : Type.
Variables Vp Vm : E -> R -> R.
Variable L : E -> R -> R.
Variable g : R -> R.
Variable kap : E -> R.
Variable dom : R -> Prop.
Hypothesis g_mono : forall a b, dom a -> dom b -> a <= b -> g a <= g b.
Hypothesis g_smono : forall a b, dom a -> dom b -> a < b -> g a < g b.
Hypothesis kap_nonneg : forall e, 0 <= kap e.
Hypothesis SGp : forall e t u, dom t -> dom u -> t <= u ->
   L e u - L e t >= (g u - g t) * Vp e t + kap e * (u - t)^2.
Hypothesis SGm : forall e t u, dom t -> dom u -> u <= t ->
   L e u - L e t >= (g u - g t) * Vm e t + kap e * (u - t)^2.

Definition bcert_strict (B : list E) (t : R) : Prop :=
  bcert E Vp Vm B t /\ forall p s, B = p ++ s -> p <> [] -> sumV E Vm p t < 0.

Lemma block_strict B t u : bcert_strict B t -> dom t -> length u = length B ->
  sortedR u -> Forall dom u -> hd 0 u < t ->
  loss E L B u > loss E L B (repeat t (length B)).
Proof using All.
  intros [[Hne [Hsuf _]] Hpre] Ht Hlen Hsort Hd Hhd.
  pose proof (block_sum_ineq E Vp Vm L g kap dom g_mono SGp SGm B t u Ht Hlen Hd) as Hsum.
  assert (Hp : 0 <= dotR (map (fun e => Vp e t) B) (map (dpos g t) u)).
  { apply abel_suffix.
    - rewrite !map_length. symmetry. exact Hlen.
    - intros p s Heq Hs.
      destruct (map_eq_app _ _ _ _ Heq) as [p' [s' [HB [Hp' Hs']]]].
      subst s. rewrite <- (sumV_sumR E Vp s' t).
      apply (Hsuf p' s' HB). intro Hnil. apply Hs. rewrite Hnil. reflexivity.
    - apply (sortedR_map dom); [apply (dpos_mono g dom g_mono)| exact Hsort| exact Hd].
    - apply Forall_forall. intros z Hz.
      apply in_map_iff in Hz. destruct Hz as [x [Hxz Hin]]. subst z.
      unfold dpos. apply Rmax_r. }
  assert (Hm : 0 < dotR (map (fun e => Vm e t) B) (map (dneg g t) u)).
  { assert (H0 : 0 < dotR (map (fun e => Vm e t) B) (map (dneg g t) u)
                     + 0 * hd 0 (map (dneg g t) u)); [|lra].
    apply abel_prefix_strict.
    - rewrite !map_length. symmetry. exact Hlen.
    - intros p s Heq Hs.
      destruct (map_eq_app _ _ _ _ Heq) as [p' [s' [HB [Hp' Hs']]]].
      subst p. rewrite <- (sumV_sumR E Vm p' t).
      assert (Hn : p' <> []) by (intro Hnil; apply Hs; rewrite Hnil; reflexivity).
      pose proof (Hpre p' s' HB Hn). lra.
    - apply (sortedR_map dom); [apply (dneg_mono g dom g_mono)| exact Hsort| exact Hd].
    - apply Forall_forall. intros z Hz.
      apply in_map_iff in Hz. destruct Hz as [x [Hxz Hin]]. subst z.
      unfold dneg. apply Rmin_r.
    - destruct u as [|x u'].
      + destruct B as [|e0 B']; [congruence| discriminate Hlen].
      + cbn [map hd] in Hhd |- *.
        pose proof (g_smono x t (Forall_inv Hd) Ht Hhd) as Hg.
        unfold dneg, Rmin. destruct (Rle_dec (g x - g t) 0); lra. }
  pose proof (kdist_nonneg E kap kap_nonneg B u (repeat t (length B))) as Hk.
  lra.
Qed.

Theorem cert_smallest : forall bs u,
  Forall (fun b => bcert_strict (fst b) (snd b) /\ dom (snd b)) bs ->
  length u = length (bdata E bs) -> sortedR u -> Forall dom u ->
  loss E L (bdata E bs) u <= loss E L (bdata E bs) (bfit E bs) ->
  Forall2 Rle (bfit E bs) u.
Proof using All.
  induction bs as [|b bs' IH]; intros u Hc Hlen Hsort Hd Hle.
  - destruct u as [|x u']; [constructor| discriminate Hlen].
  - pose proof (Forall_inv Hc) as [Hcb Hdb]. pose proof (Forall_inv_tail Hc) as Hc'.
    rewrite bdata_cons in Hlen.
    destruct (split_length E _ _ _ Hlen) as [ua [ub [Hu [Hla Hlb]]]]. subst u.
    apply sortedR_app in Hsort. destruct Hsort as [Hsa Hsb].
    apply Forall_app in Hd. destruct Hd as [Hda Hdb'].
    assert (Hc0 : Forall (fun b => bcert E Vp Vm (fst b) (snd b) /\ dom (snd b)) bs').
    { eapply Forall_impl; [|exact Hc']. intros b0 [[H1 _] H2]. split; assumption. }
    pose proof (block_opt E Vp Vm L g kap dom g_mono kap_nonneg SGp SGm
                  (fst b) (snd b) ua (proj1 Hcb) Hdb Hla Hsa Hda) as Hblock.
    pose proof (cert_optimal E Vp Vm L g kap dom g_mono kap_nonneg SGp SGm
                  bs' ub Hc0 Hlb Hsb Hdb') as Hrest.
    pose proof (kdist_nonneg E kap kap_nonneg (fst b) ua (repeat (snd b) (length (fst b)))) as K1.
    pose proof (kdist_nonneg E kap kap_nonneg (bdata E bs') ub (bfit E bs')) as K2.
    rewrite bdata_cons, bfit_cons in Hle. rewrite bfit_cons.
    rewrite (loss_app E L (fst b) (bdata E bs') ua ub Hla) in Hle.
    rewrite (loss_app E L (fst b) (bdata E bs') _ (bfit E bs') (repeat_length _ _)) in Hle.
    apply Forall2_app.
    + apply sorted_ge_hd; [exact Hsa| |exact Hla].
      destruct (Rlt_dec (hd 0 ua) (snd b)) as [Hlt|Hge]; [|lra].
      exfalso.
      pose proof (block_strict (fst b) (snd b) ua Hcb Hdb Hla Hsa Hda Hlt) as Hs. lra.
    + apply IH; [exact Hc'| exact Hlb| exact Hsb| exact Hdb'| lra].
Qed.

End Smallest.

(* ---------- the lower-quantile instance ---------- *)

Lemma g_id_smono : forall p q, domT p -> domT q -> p < q -> g_id p < g_id q.
Proof. unfold g_id. intros p q _ _ H. exact H. Qed.

Lemma quantile_stack_strict a (Ha : (0 < a /\ a < 1)%Q) stk : stack_ok (quantile_inst a Ha) stk ->
  Forall (fun b => bcert_strict elt (VpR_q a) (VmR_q a) (fst b) (snd b) /\ domT (snd b))
         (rblocks (quantile_inst a Ha) stk).
Proof.
  intros [HF _]. apply Forall_forall. intros rb Hin.
  unfold rblocks in Hin. apply in_map_iff in Hin. destruct Hin as (b & Eb & Hb). subst rb.
  apply in_rev in Hb. rewrite Forall_forall in HF. pose proof (HF b Hb) as HI.
  cbn [fst snd]. split; [|exact Logic.I]. split.
  - exact (Inv_bcert (quantile_inst a Ha) (VpR_q a) (VmR_q a) (q_VpR_ok a Ha) (q_VmR_ok a Ha)
             (bel b) (bv b) HI).
  - intros p s Ep pn. destruct HI as (_ & _ & _ & _ & PB).
    pose proof (PB p s Ep pn) as Hlt. cbn [g_strict quantile_inst] in Hlt. unfold Neg in Hlt.
    pose proof (Q2R_lo (quantile_inst a Ha) (VmR_q a) (q_VmR_ok a Ha) p (bv b) (all_dom _ p)) as EQ.
    cbn [g_elt g_Vm quantile_inst] in EQ, Hlt.
    apply Qlt_Rlt in Hlt. rewrite Q2R_0 in Hlt.
    eapply Rle_lt_trans; [right; symmetry; exact EQ| exact Hlt].
Qed.

(* the lower-quantile GPAVA solution lies below every monotone sequence whose
   pinball loss does not exceed its own, i.e. below every minimiser *)
Theorem quantile_lower_smallest : forall a (Ha : (0 < a /\ a < 1)%Q) l stk,
  gpava_blocks elt ey (qlow a) l = Some stk ->
  forall u : list R, length u = length l -> sortedR u ->
    lossPin a l u <= lossPin a l (map Q2R (expand elt stk)) ->
    Forall2 Rle (map Q2R (expand elt stk)) u.
Proof.
  intros a Ha l stk HL u Hlen Hsort Hle.
  destruct (gpava_stack (quantile_inst a Ha) l stk (all_dom _ l) HL) as [Hok Hflat].
  pose proof (cert_smallest elt (VpR_q a) (VmR_q a) (Lpin a) g_id kap0 domT
                g_id_mono g_id_smono kap0_nonneg (pin_SGp a Ha) (pin_SGm a Ha)
                (rblocks (quantile_inst a Ha) stk) u (quantile_stack_strict a Ha stk Hok)) as H.
  pose proof (bdata_rblocks (quantile_inst a Ha) stk) as E1.
  pose proof (bfit_rblocks (quantile_inst a Ha) stk) as E2.
  rewrite Hflat in E1.
  change (bdata elt (rblocks (quantile_inst a Ha) stk) = l) in E1.
  change (bfit elt (rblocks (quantile_inst a Ha) stk) = map Q2R (expand elt stk)) in E2.
  rewrite E1, E2 in H.
  rewrite !lossPin_loss in Hle.
  exact (H Hlen Hsort (all_dom _ u) Hle).
Qed.

(* ---------- optimal solutions ---------- *)

(* u is a monotone minimiser of the total pinball loss at level a over the data l *)
Definition is_opt (a : Q) (l : list elt) (u : list R) : Prop :=
  length u = length l /\ sortedR u /\
  forall v : list R, length v = length l -> sortedR v -> lossPin a l v >= lossPin a l u.

Definition lower_solution (a : Q) (l : list elt) : option (list Q) :=
  option_map (expand elt) (gpava_blocks elt ey (qlow a) l).

Theorem lower_solution_total : forall a (Ha : (0 < a /\ a < 1)%Q) l,
  exists xl, lower_solution a l = Some xl.
Proof.
  intros a Ha l.
  destruct (gpava_blocks_cert (quantile_inst a Ha) l (all_dom _ l)) as (stk & HL & _).
  cbn [g_elt g_yv g_T quantile_inst] in HL.
  exists (expand elt stk). unfold lower_solution. rewrite HL. reflexivity.
Qed.

Theorem lower_solution_smallest : forall a (Ha : (0 < a /\ a < 1)%Q) l xl,
  lower_solution a l = Some xl ->
  is_opt a l (map Q2R xl) /\ forall u, is_opt a l u -> Forall2 Rle (map Q2R xl) u.
Proof.
  intros a Ha l xl H. unfold lower_solution in H.
  destruct (gpava_blocks elt ey (qlow a) l) as [stk|] eqn:HL; [|discriminate H].
  cbn [option_map] in H. injection H as <-.
  destruct (gpava_quantile_lower_optimal a Ha l stk HL) as (H1 & H2 & H3).
  split; [split; [exact H2| split; [exact H1| exact H3]]|].
  intros u (Hu1 & Hu2 & Hu3).
  apply (quantile_lower_smallest a Ha l stk HL u Hu1 Hu2).
  pose proof (Hu3 _ H2 H1) as Hge. lra.
Qed.

(* ---------- mirroring: negate and reverse ---------- *)

Definition mirror (l : list elt) : list elt := rev (map negy l).
Definition mirrorR (u : list R) : list R := rev (map Ropp u).
Definition mirrorQ (x : list Q) : list Q := rev (map Qopp x).

Lemma lossPin_neg a : forall l u, lossPin (1 - a) (map negy l) (map Ropp u) = lossPin a l u.
Proof.
  induction l as [|e l IH]; intros u; [reflexivity|].
  destruct u as [|x u]; [reflexivity|].
  cbn [map lossPin]. rewrite IH. rewrite ey_negy, Q2R_opp, Q2R_minus, Q2R_1.
  destruct (Rle_dec (- Q2R (ey e)) (- x)) as [H1|H1];
    destruct (Rle_dec (Q2R (ey e)) x) as [H2|H2]; lra.
Qed.

Lemma mirror_length l : length (mirror l) = length l.
Proof. unfold mirror. rewrite rev_length, map_length. reflexivity. Qed.
Lemma mirrorR_length u : length (mirrorR u) = length u.
Proof. unfold mirrorR. rewrite rev_length, map_length. reflexivity. Qed.

Lemma lossPin_mirror a l u : length u = length l ->
  lossPin (1 - a) (mirror l) (mirrorR u) = lossPin a l u.
Proof.
  intros H. unfold mirror, mirrorR.
  rewrite lossPin_rev by (rewrite !map_length; exact H). apply lossPin_neg.
Qed.

Lemma mirrorR_invol u : mirrorR (mirrorR u) = u.
Proof.
  unfold mirrorR. rewrite map_rev, rev_involutive, map_map.
  rewrite <- (map_id u) at 2. apply map_ext. intros x. apply Ropp_involutive.
Qed.

Lemma sortedR_mirror u : sortedR u -> sortedR (mirrorR u).
Proof.
  intros H. apply SS_sortedR. unfold mirrorR. rewrite <- map_rev.
  apply SS_map. apply sortedR_SS in H. apply SS_rev in H.
  eapply SS_impl; [|exact H]. intros x z Hxz. cbv beta in Hxz. lra.
Qed.

Lemma map_Q2R_mirror x : map Q2R (mirrorQ x) = mirrorR (map Q2R x).
Proof.
  unfold mirrorQ, mirrorR. rewrite map_rev, !map_map. f_equal.
  apply map_ext. intros q. apply Q2R_opp.
Qed.

Lemma Forall2_mirror p q : Forall2 Rle p q -> Forall2 Rle (mirrorR q) (mirrorR p).
Proof.
  intros H. unfold mirrorR. apply Forall2_rev.
  induction H as [|a b p q Hab H IH]; [constructor|].
  cbn [map]. constructor; [lra| exact IH].
Qed.

Lemma is_opt_mirror a l u : is_opt a l u <-> is_opt (1 - a) (mirror l) (mirrorR u).
Proof.
  split.
  - intros (H1 & H2 & H3). split; [rewrite mirrorR_length, mirror_length; exact H1|].
    split; [apply sortedR_mirror; exact H2|].
    intros v Hv Hs. rewrite mirror_length in Hv.
    rewrite (lossPin_mirror a l u H1).
    rewrite <- (mirrorR_invol v).
    rewrite (lossPin_mirror a l (mirrorR v)) by (rewrite mirrorR_length; exact Hv).
    apply H3; [rewrite mirrorR_length; exact Hv| apply sortedR_mirror; exact Hs].
  - intros (H1 & H2 & H3). rewrite mirrorR_length, mirror_length in H1.
    split; [exact H1|].
    split; [rewrite <- (mirrorR_invol u); apply sortedR_mirror; exact H2|].
    intros v Hv Hs.
    rewrite <- (lossPin_mirror a l u H1), <- (lossPin_mirror a l v Hv).
    apply H3; [rewrite mirrorR_length, mirror_length; exact Hv| apply sortedR_mirror; exact Hs].
Qed.

(* the upper solution: minus the reversed lower solution of the negated,
   reversed data at level 1 - a (isotonic.py line 23 does the same per block) *)
Definition upper_solution (a : Q) (l : list elt) : option (list Q) :=
  option_map mirrorQ (lower_solution (1 - a) (mirror l)).

Theorem upper_solution_total : forall a (Ha : (0 < a /\ a < 1)%Q) l,
  exists xu, upper_solution a l = Some xu.
Proof.
  intros a Ha l.
  destruct (lower_solution_total (1 - a) (level_compl a Ha) (mirror l)) as (x' & E).
  exists (mirrorQ x'). unfold upper_solution. rewrite E. reflexivity.
Qed.

Theorem upper_solution_largest : forall a (Ha : (0 < a /\ a < 1)%Q) l xu,
  upper_solution a l = Some xu ->
  is_opt a l (map Q2R xu) /\ forall u, is_opt a l u -> Forall2 Rle u (map Q2R xu).
Proof.
  intros a Ha l xu H. unfold upper_solution in H.
  destruct (lower_solution (1 - a) (mirror l)) as [x'|] eqn:E; [|discriminate H].
  cbn [option_map] in H. injection H as <-.
  destruct (lower_solution_smallest (1 - a) (level_compl a Ha) (mirror l) x' E) as [HO HS].
  rewrite map_Q2R_mirror. split.
  - apply (is_opt_mirror a l). rewrite mirrorR_invol. exact HO.
  - intros u Hu. apply (is_opt_mirror a l) in Hu.
    pose proof (Forall2_mirror _ _ (HS _ Hu)) as HF.
    rewrite mirrorR_invol in HF. exact HF.
Qed.

Lemma F2_Rle_Qle : forall p q, Forall2 Rle (map Q2R p) (map Q2R q) -> Forall2 Qle p q.
Proof.
  induction p as [|a p IH]; intros q H.
  - destruct q as [|b q]; [constructor| inversion H].
  - destruct q as [|b q]; [inversion H|].
    cbn [map] in H. inversion H as [|? ? ? ? Hab H' E1 E2]; subst.
    constructor; [apply Rle_Qle; exact Hab| apply IH; exact H'].
Qed.

(* C02: the result of the quantile path lies pointwise between the smallest
   and the largest monotone minimiser of the pinball loss *)
Theorem quantile_path_between : forall a (Ha : (0 < a /\ a < 1)%Q) l x r,
  quantile_path a l = Some (x, r) ->
  exists xl xu : list Q,
    lower_solution a l = Some xl /\ upper_solution a l = Some xu /\
    is_opt a l (map Q2R xl) /\ is_opt a l (map Q2R xu) /\ is_opt a l (map Q2R x) /\
    (forall u, is_opt a l u -> Forall2 Rle (map Q2R xl) u /\ Forall2 Rle u (map Q2R xu)) /\
    Forall2 Qle xl x /\ Forall2 Qle x xu.
Proof.
  intros a Ha l x r H.
  destruct (qp_unfold a l x r H) as (Ln & _).
  destruct (lower_solution_total a Ha l) as (xl & El).
  destruct (upper_solution_total a Ha l) as (xu & Eu).
  destruct (lower_solution_smallest a Ha l xl El) as [OL SL].
  destruct (upper_solution_largest a Ha l xu Eu) as [OU SU].
  destruct (quantile_path_optimal a Ha l x r Ln H) as (X1 & X2 & X3).
  assert (OX : is_opt a l (map Q2R x)).
  { split; [rewrite map_length; exact X1|]. split; [apply sortedR_map_Q2R; exact X2| exact X3]. }
  exists xl, xu. split; [exact El|]. split; [exact Eu|]. split; [exact OL|].
  split; [exact OU|]. split; [exact OX|]. split.
  - intros u Hu. split; [exact (SL u Hu)| exact (SU u Hu)].
  - split; apply F2_Rle_Qle; [exact (SL _ OX)| exact (SU _ OX)].
Qed.

Theorem quantile_path_le_upper : forall a (Ha : (0 < a /\ a < 1)%Q) l x r xu,
  quantile_path a l = Some (x, r) -> upper_solution a l = Some xu -> Forall2 Qle x xu.
Proof.
  intros a Ha l x r xu H Eu.
  destruct (quantile_path_between a Ha l x r H) as (xl & xu' & _ & Eu' & _ & _ & _ & _ & _ & HU).
  rewrite Eu in Eu'. injection Eu' as <-. exact HU.
Qed.

(* ---------- through isotonic_regression, both directions ---------- *)

Definition opt_dir (inc : bool) (a : Q) (y : list Q) (u : list R) : Prop :=
  length u = length y /\ IsoQuantProps.monoR inc u /\
  forall v : list R, length v = length y -> IsoQuantProps.monoR inc v ->
    lossPin a (udata y) v >= lossPin a (udata y) u.

Lemma opt_dir_def : forall inc a y u, opt_dir inc a y u <->
  (length u = length y /\ IsoQuantProps.monoR inc u /\
   forall v : list R, length v = length y -> IsoQuantProps.monoR inc v ->
     lossPin a (udata y) v >= lossPin a (udata y) u).
Proof. intros inc a y u. apply iff_refl. Qed.

Lemma opt_dir_iff inc a y u :
  opt_dir inc a y u <-> is_opt a (dir inc (udata y)) (dir inc u).
Proof.
  destruct inc; cbn [dir].
  - unfold opt_dir, is_opt, IsoQuantProps.monoR. rewrite udata_length. tauto.
  - unfold opt_dir, is_opt, IsoQuantProps.monoR. rewrite !rev_length, udata_length. split.
    + intros (H1 & H2 & H3). split; [exact H1|]. split; [exact H2|].
      intros v Hv Hs.
      rewrite <- (rev_involutive v).
      rewrite !lossPin_rev by (rewrite ?rev_length, udata_length; assumption).
      apply H3; [rewrite rev_length; exact Hv| rewrite rev_involutive; exact Hs].
    + intros (H1 & H2 & H3). split; [exact H1|]. split; [exact H2|].
      intros v Hv Hs.
      pose proof (H3 (rev v) ltac:(rewrite rev_length; exact Hv) Hs) as H.
      rewrite !lossPin_rev in H by (rewrite udata_length; assumption). exact H.
Qed.

Theorem iso_quantile_between : forall y inc lvl x r, y <> [] -> (0 < lvl /\ lvl < 1)%Q ->
  isotonic_regression y None inc IFquantile lvl = IOk (x, r) ->
  exists xl xu : list Q,
    opt_dir inc lvl y (map Q2R xl) /\ opt_dir inc lvl y (map Q2R xu) /\
    opt_dir inc lvl y (map Q2R x) /\
    (forall u, opt_dir inc lvl y u -> Forall2 Rle (map Q2R xl) u /\ Forall2 Rle u (map Q2R xu)) /\
    Forall2 Qle xl x /\ Forall2 Qle x xu.
Proof.
  intros y inc lvl x r Hn Hl H.
  rewrite (iso_quantile_unfold y inc lvl Hl) in H.
  change (if inc then udata y else rev (udata y)) with (dir inc (udata y)) in H.
  destruct (quantile_path lvl (dir inc (udata y))) as [[x0 r0]|] eqn:HP; [|discriminate H].
  assert (Ex : x = dir inc x0) by (destruct inc; injection H as <- _; reflexivity).
  clear H. subst x.
  destruct (quantile_path_between lvl Hl _ x0 r0 HP)
    as (xl & xu & _ & _ & OL & OU & OX & HS & HL & HU).
  exists (dir inc xl), (dir inc xu).
  assert (Hmap : forall z, dir inc (map Q2R (dir inc z)) = map Q2R z).
  { intros z. rewrite <- map_dir, dir_invol. reflexivity. }
  split; [apply opt_dir_iff; rewrite Hmap; exact OL|].
  split; [apply opt_dir_iff; rewrite Hmap; exact OU|].
  split; [apply opt_dir_iff; rewrite Hmap; exact OX|].
  assert (F2dir : forall (A B : Type) (P : A -> B -> Prop) p q,
            Forall2 P p q -> Forall2 P (dir inc p) (dir inc q)).
  { intros A B P p q HF. destruct inc; cbn [dir]; [exact HF| apply Forall2_rev; exact HF]. }
  split.
  - intros u Hu. apply opt_dir_iff in Hu. destruct (HS _ Hu) as [S1 S2].
    apply (F2dir _ _ Rle) in S1. apply (F2dir _ _ Rle) in S2.
    rewrite dir_invol in S1, S2. rewrite <- map_dir in S1, S2. split; assumption.
  - split; apply F2dir; assumption.
Qed.

Local Close Scope R_scope.

(* ---------- world Q: the extremal solutions obey the max-min formula with
              the lower resp. the upper quantile ---------- *)

Local Open Scope Q_scope.

Lemma seg_map (A B : Type) (f : A -> B) (l : list A) a b : seg (map f l) a b = map f (seg l a b).
Proof. unfold seg. rewrite skipn_map, firstn_map. reflexivity. Qed.

Theorem lower_solution_saddle : forall a (Ha : 0 < a /\ a < 1) l xl,
  lower_solution a l = Some xl -> forall i, (i < length l)%nat ->
    saddle (qlow a) l i (nth i xl 0) /\
    nth i xl 0 == maxmin (qlow a) l i /\ nth i xl 0 == minmax (qlow a) l i.
Proof.
  intros a Ha l xl H i Hi. unfold lower_solution in H.
  destruct (gpava_blocks elt ey (qlow a) l) as [stk|] eqn:HL; [|discriminate H].
  cbn [option_map] in H. injection H as <-.
  destruct (gpava_maxmin (quantile_inst a Ha) l stk (all_dom _ l) HL i Hi) as (H1 & _ & H3 & H4).
  split; [exact H1|]. split; [exact H3| exact H4].
Qed.

Theorem upper_solution_saddle : forall a (Ha : 0 < a /\ a < 1) l xu,
  upper_solution a l = Some xu -> forall i, (i < length l)%nat ->
    saddle (qupp a) l i (nth i xu 0) /\
    nth i xu 0 == maxmin (qupp a) l i /\ nth i xu 0 == minmax (qupp a) l i.
Proof.
  intros a Ha l xu H i Hi.
  assert (HS : saddle (qupp a) l i (nth i xu 0)).
  { unfold upper_solution, lower_solution in H.
    destruct (gpava_blocks elt ey (qlow (1 - a)) (mirror l)) as [stk|] eqn:HL; [|discriminate H].
    cbn [option_map] in H. injection H as <-.
    pose proof (level_compl a Ha) as Hc.
    destruct (gpava_stack (quantile_inst (1 - a) Hc) (mirror l) stk (all_dom _ _) HL) as [Hok Hflat].
    pose proof (stack_saddle_dec (quantile_inst (1 - a) Hc) stk (map negy l) Hok Hflat i
                  ltac:(rewrite map_length; exact Hi)) as HD.
    cbn [g_elt g_T quantile_inst] in HD.
    pose proof (map_length negy l) as ML. unfold saddle_dec in HD. rewrite !ML in HD.
    assert (HLx : length (expand elt stk) = length l).
    { pose proof (expand_length (quantile_inst (1 - a) Hc) stk) as EL.
      rewrite Hflat, mirror_length in EL. exact EL. }
    assert (Et : nth i (mirrorQ (expand elt stk)) 0 == - nth (length l - 1 - i) (expand elt stk) 0).
    { unfold mirrorQ. rewrite rev_nth by (rewrite map_length, HLx; exact Hi).
      rewrite map_length, HLx.
      replace (length l - S i)%nat with (length l - 1 - i)%nat by lia.
      change 0 with (- 0) at 1. rewrite map_nth. reflexivity. }
    assert (Eq : forall c d, (c <= d < length l)%nat ->
               qlow (1 - a) (seg (map negy l) c d) == - qupp a (seg l c d)).
    { intros c d Hcd. rewrite seg_map. symmetry. apply qupp_neg. }
    destruct HD as [(a0 & Ha0 & H1) (b0 & Hb0 & H2)]. split.
    - exists b0. split; [exact Hb0|]. intros c Hc'.
      pose proof (H2 c Hc') as Hle. rewrite Eq in Hle by lia. rewrite Et. Lqa.lra.
    - exists a0. split; [exact Ha0|]. intros d Hd.
      pose proof (H1 d Hd) as Hle. rewrite Eq in Hle by lia. rewrite Et. Lqa.lra. }
  split; [exact HS| exact (saddle_fold _ _ _ _ _ Hi HS)].
Qed.

Lemma F2_Qle_nth : forall p q, Forall2 Qle p q -> forall i, (i < length p)%nat ->
  nth i p 0 <= nth i q 0.
Proof.
  intros p q H. induction H as [|x z p q Hxz H IH]; intros i Hi; [simpl in Hi; lia|].
  destruct i as [|i]; cbn [nth]; [exact Hxz| apply IH; cbn [length] in Hi; lia].
Qed.

(* the two bounds in the form the search judge evaluates them *)
Theorem quantile_path_between_maxmin : forall a (Ha : 0 < a /\ a < 1) l x r,
  quantile_path a l = Some (x, r) -> forall i, (i < length l)%nat ->
    maxmin (qlow a) l i <= nth i x 0 /\ nth i x 0 <= maxmin (qupp a) l i.
Proof.
  intros a Ha l x r H i Hi.
  destruct (quantile_path_between a Ha l x r H)
    as (xl & xu & El & Eu & OL & _ & _ & _ & HL & HU).
  destruct (lower_solution_saddle a Ha l xl El i Hi) as (_ & E1 & _).
  destruct (upper_solution_saddle a Ha l xu Eu i Hi) as (_ & E2 & _).
  assert (Lxl : length xl = length l) by (destruct OL as (L1 & _); rewrite map_length in L1; exact L1).
  pose proof (F2_Qle_nth _ _ HL i ltac:(lia)) as B1.
  pose proof (F2_length _ _ _ _ _ HL) as Lx.
  pose proof (F2_Qle_nth _ _ HU i ltac:(lia)) as B2.
  rewrite <- E1, <- E2. split; assumption.
Qed.

Local Close Scope Q_scope.

(* the hypotheses are satisfiable and the solutions differ in general *)
Example extremal_example :
  let l := udata [1; 3; 2; 4]%Q in
  lower_solution (1#2) l = Some [1; 2; 2; 4]%Q /\
  upper_solution (1#2) l = Some [1; 3; 3; 4]%Q /\
  option_map fst (quantile_path (1#2) l) = Some [1; 5#2; 5#2; 4]%Q.
Proof. vm_compute. repeat split; reflexivity. Qed.


Print Assumptions iso_mean_maxmin.
Print Assumptions iso_mean_maxmin_dec.
Print Assumptions iso_expectile_maxmin.
Print Assumptions iso_expectile_maxmin_dec.
Print Assumptions quantile_lower_smallest.
Print Assumptions upper_solution_largest.
Print Assumptions quantile_path_between.
Print Assumptions iso_quantile_between.
Print Assumptions upper_solution_saddle.
Print Assumptions quantile_path_between_maxmin.
