(* Non-vacuity: concrete, non-trivial instances of the hypotheses used by the property theorems of
   C01-C05 and C08 (the table-model properties carry their own examples in their proof files). *)
From Coq Require Import QArith Qreals Reals Lra List Bool.
Import ListNotations.
From MD Require Import lib.QLists lib.NumpyR model.Functionals model.Isotonic spec.Scores
  gen.Gen_ident gen.Gen_scoring proofs.ScoreProps proofs.ScoreGen proofs.IsoProps.

(* C01 / C12: a weighted fit that needs pooling, both directions; the block vector is as the code returns it *)
Example ex_iso_mean :
  isotonic_regression [3; 1; 2; 5; 4]%Q (Some [1; 2; 1; 1; 3]%Q) true IFmean (1#2)
    = IOk ([5#3; 5#3; 2; 17#4; 17#4]%Q, [0; 2; 3; 5]%nat).
Proof. vm_compute. reflexivity. Qed.
Example ex_iso_mean_valid : [3; 1; 2; 5; 4]%Q <> [] /\ valid_w [3; 1; 2; 5; 4]%Q (Some [1; 2; 1; 1; 3]%Q).
Proof. split; [discriminate| split; [reflexivity| repeat constructor]]. Qed.
Example ex_iso_mean_decreasing :
  exists x r, isotonic_regression [3; 1; 2; 5; 4]%Q (Some [1; 2; 1; 1; 3]%Q) false IFmean (1#2) = IOk (x, r) /\ length x = 5%nat.
Proof. eexists. eexists. vm_compute. split; reflexivity. Qed.

(* C02: quantile and median *)
Example ex_iso_quantile :
  exists x r, isotonic_regression [7; -1; -6; 2; 2; 0]%Q None true IFquantile (1#4) = IOk (x, r) /\ length x = 6%nat.
Proof. eexists. eexists. vm_compute. split; reflexivity. Qed.

(* C03: expectile with weights *)
Example ex_iso_expectile :
  exists x r, isotonic_regression [3; 1; 2; 5; 4]%Q (Some [3#2; 5#2; 1; 5#4; 15#4]%Q) true IFexpectile (3#10) = IOk (x, r) /\ length r = 4%nat.
Proof. eexists. eexists. vm_compute. split; reflexivity. Qed.

(* C04 / C05 / C14: admissible pairs exist in every degree range, and the generated function accepts them *)
Open Scope R_scope.
Example ex_hes_dom : hes_dom 1 0 3 /\ hes_dom 0 2 3 /\ hes_dom 2 (-1) (-3).
Proof.
  unfold hes_dom, domY, domZ. rewrite hrange_1, hrange_0, hrange_2. repeat split; lra.
Qed.
Example ex_poisson_accepts : exists s, gen_PoissonDeviance_spo 0 3 = Ok s /\ 0 <= s.
Proof.
  destruct (g_hes_accepts 1 (1/2) 0 3 (proj1 ex_hes_dom)) as [s Hs]. exists s. split; [exact Hs|].
  apply (g_hes_nonneg 1 (1/2) 0 3 s); [lra| exact Hs].
Qed.
Example ex_poisson_rejects : gen_PoissonDeviance_spo 1 0 = ValueErr.
Proof.
  apply (proj2 (g_hes_domain 1 (1/2) 1 0)). unfold hes_dom, domY, domZ. rewrite hrange_1. lra.
Qed.
Example ex_level : 0 < 3/10 < 1.  Proof. lra. Qed.

Print Assumptions ex_iso_mean.
Print Assumptions ex_poisson_accepts.
