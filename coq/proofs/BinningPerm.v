(* Permutation-equivariance of the binning helper (model/Binning.v), properties C09 / C10 / C13
   ("the result is independent of row order").  World Q, no axioms.

   Equality used.  Feature values are `ext` (rationals + the two infinities).  Two rationals that are
   `==` but written with different numerator / denominator are different Coq terms, and `xminl` /
   `xmaxl` / `xqlow` return ONE of the tied cells (which one depends on the row order).  Therefore
     * the general statements (ALL inputs) are up to `xeq a b := xeqb a b = true`
       (MInf ~ MInf, PInf ~ PInf, Fin x ~ Fin y <-> x == y), lifted pointwise to lists / tables;
       everything that is a natural number (returned n_bins, bin numbers, number of edges) is Leibniz-equal;
     * on canonical input (`xcanon`: every finite cell is a reduced fraction, `Qred q = q`, which is what
       the harness always feeds: `zi`, `fl` (Qred), `Qmake` of a python Fraction) the statements hold with
       Leibniz equality (`*_canon` theorems).
   The string path (`bin_string`) only handles `nat` codes: Leibniz equality throughout. *)
From Coq Require Import QArith Qreduction Lqa Lia List Bool Arith String Permutation.
From Coq Require Qcanon.
Import ListNotations.
Open Scope Q_scope.
From MD Require Import lib.QLists model.Functionals model.Binning proofs.BinningProps.

(* ------------------------------------------------------------------ *)
(* 0. the equivalence on ext *)
Definition xeq (a b : ext) : Prop := xeqb a b = true.

Lemma xeq_iff a b :
  xeq a b <-> match a, b with
              | MInf, MInf | PInf, PInf => True
              | Fin x, Fin y => x == y
              | _, _ => False
              end.
Proof.
  unfold xeq, xeqb. destruct a as [|x|], b as [|y|]; simpl; try tauto;
    try (split; [discriminate| contradiction]).
  rewrite andb_true_iff, !Qle_bool_iff. split; [intros [H1 H2]; lra| intros H; split; lra].
Qed.

Lemma xeq_refl a : xeq a a.
Proof. unfold xeq, xeqb. rewrite xleb_refl. reflexivity. Qed.
Lemma xeq_sym a b : xeq a b -> xeq b a.
Proof. unfold xeq, xeqb. rewrite !andb_true_iff. tauto. Qed.
Lemma xeq_trans a b c : xeq a b -> xeq b c -> xeq a c.
Proof.
  unfold xeq, xeqb. rewrite !andb_true_iff. intros [H1 H2] [H3 H4].
  split; eapply xleb_trans; eauto.
Qed.
Lemma xeq_le a b : xeq a b -> xleb a b = true.
Proof. unfold xeq, xeqb. rewrite andb_true_iff. tauto. Qed.
Lemma xeq_ge a b : xeq a b -> xleb b a = true.
Proof. unfold xeq, xeqb. rewrite andb_true_iff. tauto. Qed.
Lemma xeq_of_le a b : xleb a b = true -> xleb b a = true -> xeq a b.
Proof. unfold xeq, xeqb. intros -> ->. reflexivity. Qed.

Lemma xleb_compat a a' b b' : xeq a a' -> xeq b b' -> xleb a b = xleb a' b'.
Proof.
  intros Ha Hb. destruct (xleb a b) eqn:E1, (xleb a' b') eqn:E2; auto.
  - assert (T : xleb a' b' = true).
    { eapply xleb_trans; [apply xeq_ge; exact Ha|]. eapply xleb_trans; [exact E1| apply xeq_le; exact Hb]. }
    congruence.
  - assert (T : xleb a b = true).
    { eapply xleb_trans; [apply xeq_le; exact Ha|]. eapply xleb_trans; [exact E2| apply xeq_ge; exact Hb]. }
    congruence.
Qed.
Lemma xltb_compat a a' b b' : xeq a a' -> xeq b b' -> xltb a b = xltb a' b'.
Proof. intros Ha Hb. unfold xltb. rewrite (xleb_compat b b' a a' Hb Ha). reflexivity. Qed.
Lemma xeqb_compat a a' b b' : xeq a a' -> xeq b b' -> xeqb a b = xeqb a' b'.
Proof.
  intros Ha Hb. unfold xeqb. rewrite (xleb_compat a a' b b' Ha Hb), (xleb_compat b b' a a' Hb Ha). reflexivity.
Qed.

(* canonical cells: reduced fractions *)
Definition xcanon (a : ext) : Prop := match a with Fin q => Qred q = q | _ => True end.

Lemma xeq_canon a b : xcanon a -> xcanon b -> xeq a b -> a = b.
Proof.
  intros Ca Cb H. apply xeq_iff in H. destruct a as [|x|], b as [|y|]; try contradiction; auto.
  simpl in Ca, Cb. apply Qred_complete in H. congruence.
Qed.

Lemma xcanon_Qred q : xcanon (Fin (Qred q)).
Proof. simpl. apply Qcanon.Qred_involutive. Qed.

(* relations lifted to option *)
Definition orel {A} (R : A -> A -> Prop) (a b : option A) : Prop :=
  match a, b with Some x, Some y => R x y | None, None => True | _, _ => False end.

(* membership / same elements up to xeq *)
Definition inX (x : ext) (l : list ext) : Prop := exists y, In y l /\ xeq x y.
Definition subX (l l' : list ext) : Prop := forall x, In x l -> inX x l'.
Definition sameX (l l' : list ext) : Prop := subX l l' /\ subX l' l.

Lemma sameX_sym l l' : sameX l l' -> sameX l' l.
Proof. unfold sameX. tauto. Qed.
Lemma sameX_perm l l' : Permutation l l' -> sameX l l'.
Proof.
  intros H. split; intros x Hx; exists x; split; try apply xeq_refl.
  - eapply Permutation_in; eauto.
  - eapply Permutation_in; [apply Permutation_sym|]; eauto.
Qed.
Lemma sameX_F2 l l' : Forall2 xeq l l' -> sameX l l'.
Proof.
  induction 1 as [|x y l l' Hxy H IH]; [split; intros ? []|].
  destruct IH as [I1 I2]. split; intros z [<-|Hz].
  - exists y. split; [left; reflexivity| exact Hxy].
  - destruct (I1 z Hz) as [u [Hu Hzu]]. exists u. split; [right; exact Hu| exact Hzu].
  - exists x. split; [left; reflexivity| apply xeq_sym; exact Hxy].
  - destruct (I2 z Hz) as [u [Hu Hzu]]. exists u. split; [right; exact Hu| exact Hzu].
Qed.
Lemma subX_trans a b c : subX a b -> subX b c -> subX a c.
Proof.
  intros H1 H2 x Hx. destruct (H1 x Hx) as [y [Hy Hxy]]. destruct (H2 y Hy) as [z [Hz Hyz]].
  exists z. split; [exact Hz| eapply xeq_trans; eauto].
Qed.
Lemma sameX_trans a b c : sameX a b -> sameX b c -> sameX a c.
Proof. intros [H1 H2] [H3 H4]. split; eapply subX_trans; eauto. Qed.

(* generic list helpers *)
Lemma filter_Permutation {A} (p : A -> bool) l l' : Permutation l l' -> Permutation (filter p l) (filter p l').
Proof.
  induction 1 as [|x l l' H IH|x y l|l l' l'' H1 IH1 H2 IH2]; simpl.
  - constructor.
  - destruct (p x); [constructor|]; exact IH.
  - destruct (p x), (p y); try apply Permutation_refl. apply perm_swap.
  - eapply perm_trans; eauto.
Qed.

Lemma Forall2_map_fun {A B} (R : B -> B -> Prop) (f g : A -> B) l :
  (forall x, R (f x) (g x)) -> Forall2 R (map f l) (map g l).
Proof. intros H. induction l as [|x l IH]; simpl; constructor; auto. Qed.

Lemma Forall2_nth {A} (R : A -> A -> Prop) l l' d d' i :
  Forall2 R l l' -> R d d' -> R (nth i l d) (nth i l' d').
Proof.
  intros H Hd. revert i. induction H as [|x y l l' Hxy H IH]; intros i; destruct i; simpl; auto.
Qed.

Lemma Forall2_app_ {A} (R : A -> A -> Prop) a a' b b' :
  Forall2 R a a' -> Forall2 R b b' -> Forall2 R (a ++ b) (a' ++ b').
Proof. induction 1; simpl; auto. Qed.

Lemma Forall2_length_ {A} (R : A -> A -> Prop) l l' : Forall2 R l l' -> List.length l = List.length l'.
Proof. induction 1; simpl; congruence. Qed.

Lemma Forall2_eq_canon l l' : Forall2 xeq l l' -> Forall xcanon l -> Forall xcanon l' -> l = l'.
Proof.
  induction 1 as [|x y l l' Hxy H IH]; intros C C'; [reflexivity|].
  inversion C; inversion C'; subst. f_equal; [apply xeq_canon; auto| apply IH; auto].
Qed.

(* ------------------------------------------------------------------ *)
(* 1a. min / max (`feature.min()`, `feature.max()`, line 249) *)
Theorem xmin_opt_same l l' : sameX l l' -> orel xeq (xmin_opt l) (xmin_opt l').
Proof.
  intros [S1 S2]. destruct l as [|x xs], l' as [|y ys]; simpl; auto.
  - destruct (S2 y (or_introl eq_refl)) as [? [[] _]].
  - destruct (S1 x (or_introl eq_refl)) as [? [[] _]].
  - destruct (xminl_spec x xs) as [M1 L1]. destruct (xminl_spec y ys) as [M2 L2].
    destruct (S1 _ M1) as [u [Hu Eu]]. destruct (S2 _ M2) as [v [Hv Ev]].
    apply xeq_of_le.
    + eapply xleb_trans; [apply L1; exact Hv| apply xeq_ge; exact Ev].
    + eapply xleb_trans; [apply L2; exact Hu| apply xeq_ge; exact Eu].
Qed.

Theorem xmax_opt_same l l' : sameX l l' -> orel xeq (xmax_opt l) (xmax_opt l').
Proof.
  intros [S1 S2]. destruct l as [|x xs], l' as [|y ys]; simpl; auto.
  - destruct (S2 y (or_introl eq_refl)) as [? [[] _]].
  - destruct (S1 x (or_introl eq_refl)) as [? [[] _]].
  - destruct (xmaxl_spec x xs) as [M1 L1]. destruct (xmaxl_spec y ys) as [M2 L2].
    destruct (S1 _ M1) as [u [Hu Eu]]. destruct (S2 _ M2) as [v [Hv Ev]].
    apply xeq_of_le.
    + eapply xleb_trans; [apply xeq_le; exact Eu| apply L2; exact Hu].
    + eapply xleb_trans; [apply xeq_le; exact Ev| apply L1; exact Hv].
Qed.

Theorem xmin_opt_perm l l' : Permutation l l' -> orel xeq (xmin_opt l) (xmin_opt l').
Proof. intros H. apply xmin_opt_same, sameX_perm, H. Qed.
Theorem xmax_opt_perm l l' : Permutation l l' -> orel xeq (xmax_opt l) (xmax_opt l').
Proof. intros H. apply xmax_opt_same, sameX_perm, H. Qed.

(* 1b. the finite minimum / maximum, lines 261-268 *)
Theorem finite_min_perm l l' fmin fmin' :
  Permutation l l' -> xeq fmin fmin' -> orel xeq (finite_min l fmin) (finite_min l' fmin').
Proof.
  intros H E. apply xeq_iff in E. destruct fmin as [|x|], fmin' as [|y|]; try contradiction; simpl.
  - apply xmin_opt_perm. apply filter_Permutation. exact H.
  - apply xeq_iff. exact E.
  - apply xeq_refl.
Qed.
Theorem finite_max_perm l l' fmax fmax' :
  Permutation l l' -> xeq fmax fmax' -> orel xeq (finite_max l fmax) (finite_max l' fmax').
Proof.
  intros H E. apply xeq_iff in E. destruct fmax as [|x|], fmax' as [|y|]; try contradiction; simpl.
  - apply xeq_refl.
  - apply xeq_iff. exact E.
  - apply xmax_opt_perm. apply filter_Permutation. exact H.
Qed.

(* 1c. the inverted-CDF quantile, line 274 *)
Lemma xcount_le_perm l l' t t' : Permutation l l' -> xeq t t' -> xcount_le l t = xcount_le l' t'.
Proof.
  intros H E. unfold xcount_le.
  rewrite (filter_ext (fun e => xleb e t) (fun e => xleb e t')).
  - apply Permutation_length. apply filter_Permutation. exact H.
  - intros e. apply xleb_compat; [apply xeq_refl| exact E].
Qed.

Lemma xreaches_perm a l l' t t' : Permutation l l' -> xeq t t' -> xreaches a l t = xreaches a l' t'.
Proof.
  intros H E. unfold xreaches.
  rewrite (Permutation_length H), (xcount_le_perm l l' t t' H E). reflexivity.
Qed.

Lemma xqlow_as_min a l :
  xqlow a l = match xmin_opt (filter (xreaches a l) l) with Some m => m | None => Fin 0 end.
Proof. unfold xqlow. destruct (filter (xreaches a l) l); reflexivity. Qed.

Theorem xqlow_perm a l l' : Permutation l l' -> xeq (xqlow a l) (xqlow a l').
Proof.
  intros H. rewrite !xqlow_as_min.
  assert (P : Permutation (filter (xreaches a l) l) (filter (xreaches a l') l')).
  { rewrite (filter_ext (xreaches a l') (xreaches a l)).
    - apply filter_Permutation. exact H.
    - intros t. symmetry. apply xreaches_perm; [exact H| apply xeq_refl]. }
  pose proof (xmin_opt_perm _ _ P) as M.
  destruct (xmin_opt (filter (xreaches a l) l)), (xmin_opt (filter (xreaches a l') l'));
    simpl in M; try contradiction; [exact M| apply xeq_refl].
Qed.

(* 1d. np.unique: sort + dedup *)
Lemma xstrict_head_le y ys x : xstrict (y :: ys) -> inX x (y :: ys) -> xleb y x = true.
Proof.
  intros [Hy _] [u [[<-|Hu] E]].
  - apply xeq_ge. exact E.
  - eapply xleb_trans; [apply xltb_xleb; apply Hy; exact Hu| apply xeq_ge; exact E].
Qed.

Lemma xstrict_same_F2 l1 : forall l2, xstrict l1 -> xstrict l2 -> sameX l1 l2 -> Forall2 xeq l1 l2.
Proof.
  induction l1 as [|x xs IH]; intros l2 S1 S2 [A B].
  - destruct l2 as [|y ys]; [constructor|]. destruct (B y (or_introl eq_refl)) as [? [[] _]].
  - destruct l2 as [|y ys]; [destruct (A x (or_introl eq_refl)) as [? [[] _]]|].
    assert (Exy : xeq x y).
    { apply xeq_of_le.
      - apply (xstrict_head_le x xs y S1). apply B. left. reflexivity.
      - apply (xstrict_head_le y ys x S2). apply A. left. reflexivity. }
    constructor; [exact Exy|].
    destruct S1 as [Hx S1]. destruct S2 as [Hy S2]. apply IH; auto. split.
    + intros z Hz. destruct (A z (or_intror Hz)) as [u [[<-|Hu] E]].
      * exfalso. pose proof (Hx z Hz) as L. unfold xltb in L.
        rewrite (xeq_le z x (xeq_trans _ _ _ E (xeq_sym _ _ Exy))) in L. discriminate.
      * exists u. auto.
    + intros z Hz. destruct (B z (or_intror Hz)) as [u [[<-|Hu] E]].
      * exfalso. pose proof (Hy z Hz) as L. unfold xltb in L.
        rewrite (xeq_le z y (xeq_trans _ _ _ E Exy)) in L. discriminate.
      * exists u. auto.
Qed.

Lemma dedup_keeps x l : In x l -> inX x (dedup l).
Proof.
  revert x. induction l as [|a l IH]; intros x; [intros []|].
  destruct l as [|b l].
  - intros [<-|[]]. exists a. split; [left; reflexivity| apply xeq_refl].
  - change (dedup (a :: b :: l)) with (if xeqb a b then dedup (b :: l) else a :: dedup (b :: l)).
    intros [<-|H].
    + destruct (xeqb a b) eqn:E.
      * destruct (IH b (or_introl eq_refl)) as [u [Hu Eu]]. exists u. split; [exact Hu|].
        eapply xeq_trans; [exact E| exact Eu].
      * exists a. split; [left; reflexivity| apply xeq_refl].
    + destruct (IH x H) as [u [Hu Eu]]. exists u. split; [|exact Eu].
      destruct (xeqb a b); [exact Hu| right; exact Hu].
Qed.

Lemma xuniq_sameX l : sameX (xuniq l) l.
Proof.
  split.
  - intros x Hx. exists x. split; [apply xuniq_in; exact Hx| apply xeq_refl].
  - intros x Hx. unfold xuniq. apply dedup_keeps.
    eapply Permutation_in; [apply isort_perm| exact Hx].
Qed.

(* the array returned by np.unique depends only on the SET of values (up to ==) *)
Theorem xuniq_same l l' : sameX l l' -> Forall2 xeq (xuniq l) (xuniq l').
Proof.
  intros H. apply xstrict_same_F2; try apply xuniq_strict.
  eapply sameX_trans; [apply xuniq_sameX|]. eapply sameX_trans; [exact H|].
  apply sameX_sym. apply xuniq_sameX.
Qed.
Theorem xuniq_perm l l' : Permutation l l' -> Forall2 xeq (xuniq l) (xuniq l').
Proof. intros H. apply xuniq_same, sameX_perm, H. Qed.

(* 1e. the interior edges *)
Theorem quantile_edges_perm l l' m :
  Permutation l l' -> Forall2 xeq (quantile_edges l m) (quantile_edges l' m).
Proof.
  intros H. unfold quantile_edges. apply xuniq_same. apply sameX_F2.
  apply Forall2_map_fun. intros k. apply xqlow_perm. exact H.
Qed.

Theorem uniform_edges_compat a a' b b' m :
  a == a' -> b == b' -> uniform_edges a (b - a) m = uniform_edges a' (b' - a') m.
Proof.
  intros Ha Hb. unfold uniform_edges. apply map_ext. intros k. f_equal. apply Qred_complete.
  rewrite Ha, Hb. reflexivity.
Qed.

(* 1f. np.digitize and the edge table *)
Lemma digitize_F2 e e' v v' : Forall2 xeq e e' -> xeq v v' -> digitize e v = digitize e' v'.
Proof.
  intros H Hv. induction H as [|x y e e' Hxy H IH]; [reflexivity|].
  rewrite !digitize_cons, IH, (xltb_compat x y v v' Hxy Hv). reflexivity.
Qed.

Definition xeq2 (p q : ext * ext) : Prop := xeq (fst p) (fst q) /\ xeq (snd p) (snd q).

Lemma pairs_F2 l l' : Forall2 xeq l l' -> Forall2 xeq2 (pairs l) (pairs l').
Proof.
  induction 1 as [|x y l l' Hxy H IH]; [constructor|].
  destruct H as [|x2 y2 l l' Hxy2 H]; [constructor|].
  change (Forall2 xeq2 ((x, x2) :: pairs (x2 :: l)) ((y, y2) :: pairs (y2 :: l'))).
  constructor; [split; assumption| exact IH].
Qed.

Lemma edge_table_F2 fmin fmin' fmax fmax' e e' :
  xeq fmin fmin' -> xeq fmax fmax' -> Forall2 xeq e e' ->
  Forall2 xeq2 (edge_table fmin fmax e) (edge_table fmin' fmax' e').
Proof.
  intros H1 H2 H. unfold edge_table, full_edges. apply pairs_F2. constructor; [exact H1|].
  apply Forall2_app_; [exact H| constructor; [exact H2| constructor]].
Qed.

(* ------------------------------------------------------------------ *)
(* 1g. nulls *)
Lemma has_nulls_perm {A} (l l' : list (option A)) : Permutation l l' -> has_nulls l = has_nulls l'.
Proof.
  intros H. unfold has_nulls.
  induction H as [|x l l' H IH|x y l|l l' l'' H1 IH1 H2 IH2]; simpl; try congruence.
  destruct x, y; reflexivity.
Qed.
Lemma nonnull_perm {A} (l l' : list (option A)) : Permutation l l' -> Permutation (nonnull l) (nonnull l').
Proof. intros H. unfold nonnull. apply Permutation_flat_map. exact H. Qed.
Lemma n_bins_ef0_perm {A} n (l l' : list (option A)) : Permutation l l' -> n_bins_ef0 n l = n_bins_ef0 n l'.
Proof. intros H. unfold n_bins_ef0. rewrite (has_nulls_perm _ _ H). reflexivity. Qed.

(* ------------------------------------------------------------------ *)
(* 2. bin_numeric is permutation-equivariant.

   Formulation: the frame returned for a feature column l is `map g l` - the bin (number, edge pair) of
   a row is a function g of the row's own cell -, and the function g, the edge vector, the edge table,
   the returned n_bins and the outcome class depend on l only through its multiset.  For two columns
   l, l' with `Permutation l l'` the two functions g, g' agree on EVERY cell (bin numbers equal, edges
   up to xeq).  With rows = map g l this composes with any way of permuting the other columns:
   zipping and mapping commute. *)
Definition row_fun (kind : nkind) (fmin fmax : ext) (edges : list ext) (o : option ext) : nrow :=
  match o with
  | None => None
  | Some v => let b := digitize edges v in
              Some (stored_bin kind b, nth b (edge_table fmin fmax edges) (fmin, fmax))
  end.

Lemma digitize_rows_map kind fmin fmax edges feature :
  digitize_rows kind fmin fmax edges feature = map (row_fun kind fmin fmax edges) feature.
Proof. reflexivity. Qed.

Definition nrow_eq (r r' : nrow) : Prop :=
  orel (fun a b => fst a = fst b /\ xeq2 (snd a) (snd b)) r r'.

Lemma row_fun_eq kind fmin fmin' fmax fmax' e e' :
  xeq fmin fmin' -> xeq fmax fmax' -> Forall2 xeq e e' ->
  forall o, nrow_eq (row_fun kind fmin fmax e o) (row_fun kind fmin' fmax' e' o).
Proof.
  intros H1 H2 H [v|]; simpl; [|exact I].
  rewrite (digitize_F2 e e' v v H (xeq_refl v)). split; [reflexivity|].
  apply Forall2_nth; [apply edge_table_F2; assumption| split; assumption].
Qed.

Definition nres_eq (l l' : list (option ext)) (r r' : nres) : Prop :=
  match r, r' with
  | NOk n e t rows, NOk n' e' t' rows' =>
      n = n' /\ Forall2 xeq e e' /\ Forall2 xeq2 t t' /\
      exists g g', rows = map g l /\ rows' = map g' l' /\ forall o, nrow_eq (g o) (g' o)
  | NNanEdges, NNanEdges => True
  | NErr e, NErr e' => e = e'
  | _, _ => False
  end.

Lemma finish_rel kind l l' n fmin fmin' fmax fmax' e e' :
  xeq fmin fmin' -> xeq fmax fmax' -> Forall2 xeq e e' ->
  nres_eq l l' (NOk n e (edge_table fmin fmax e) (digitize_rows kind fmin fmax e l))
               (NOk n e' (edge_table fmin' fmax' e') (digitize_rows kind fmin' fmax' e' l')).
Proof.
  intros H1 H2 H. simpl. split; [reflexivity|]. split; [exact H|].
  split; [apply edge_table_F2; assumption|].
  exists (row_fun kind fmin fmax e), (row_fun kind fmin' fmax' e').
  split; [reflexivity|]. split; [reflexivity|]. apply row_fun_eq; assumption.
Qed.

Lemma Forall2_xeq_refl l : Forall2 xeq l l.
Proof. induction l; constructor; auto. apply xeq_refl. Qed.

Theorem bin_numeric_perm kind l l' n_bins m interior :
  Permutation l l' ->
  nres_eq l l' (bin_numeric kind l n_bins m interior) (bin_numeric kind l' n_bins m interior).
Proof.
  intros H. unfold bin_numeric.
  destruct (n_bins <? 2)%nat; [reflexivity|].
  pose proof (nonnull_perm _ _ H) as Hv.
  rewrite <- (has_nulls_perm _ _ H), <- (n_bins_ef0_perm n_bins _ _ H).
  set (vals := nonnull l) in *. set (vals' := nonnull l') in *.
  set (hn := has_nulls l). set (mef := n_bins_ef0 n_bins l).
  pose proof (xmin_opt_perm _ _ Hv) as Hmin. pose proof (xmax_opt_perm _ _ Hv) as Hmax.
  destruct (xmin_opt vals) as [fmin|], (xmin_opt vals') as [fmin'|]; simpl in Hmin; try contradiction.
  2:{ simpl. split; [reflexivity|]. split; [constructor|]. split; [constructor|].
      exists (fun _ => None), (fun _ => None). split; [reflexivity|]. split; [reflexivity|].
      intros o. exact I. }
  destruct (xmax_opt vals) as [fmax|], (xmax_opt vals') as [fmax'|]; simpl in Hmax; try contradiction.
  2:{ simpl. split; [reflexivity|]. split; [constructor|]. split; [constructor|].
      exists (fun _ => None), (fun _ => None). split; [reflexivity|]. split; [reflexivity|].
      intros o. exact I. }
  pose proof (finite_min_perm _ _ _ _ Hv Hmin) as Hlo.
  pose proof (finite_max_perm _ _ _ _ Hv Hmax) as Hhi.
  destruct m.
  - (* quantile *)
    assert (Q : nres_eq l l'
      (NOk (mef + b2n hn) (quantile_edges vals mef) (edge_table fmin fmax (quantile_edges vals mef))
           (digitize_rows kind fmin fmax (quantile_edges vals mef) l))
      (NOk (mef + b2n hn) (quantile_edges vals' mef) (edge_table fmin' fmax' (quantile_edges vals' mef))
           (digitize_rows kind fmin' fmax' (quantile_edges vals' mef) l')))
      by (apply finish_rel; auto; apply quantile_edges_perm; exact Hv).
    destruct kind; [exact Q|]. destruct hn; [reflexivity| exact Q].
  - (* uniform (model as of /repo commit b2b5cba: a single bin when there is no finite value) *)
    set (F := fun es => NOk (mef + b2n hn) es (edge_table fmin fmax es) (digitize_rows kind fmin fmax es l)).
    set (F' := fun es => NOk (mef + b2n hn) es (edge_table fmin' fmax' es) (digitize_rows kind fmin' fmax' es l')).
    assert (Hnil : nres_eq l l' (F []) (F' [])) by (apply finish_rel; auto; constructor).
    assert (U : nres_eq l l'
      match finite_min vals fmin, finite_max vals fmax with
      | Some l0, Some h =>
          if xltb h l0 then F []
          else match l0, h with
               | Fin a, Fin b => F (uniform_edges a (b - a) mef)
               | _, _ => NNanEdges
               end
      | _, _ => F []
      end
      match finite_min vals' fmin', finite_max vals' fmax' with
      | Some l0, Some h =>
          if xltb h l0 then F' []
          else match l0, h with
               | Fin a, Fin b => F' (uniform_edges a (b - a) mef)
               | _, _ => NNanEdges
               end
      | _, _ => F' []
      end).
    { destruct (finite_min vals fmin) as [lo|], (finite_min vals' fmin') as [lo'|]; simpl in Hlo;
        try contradiction; [|exact Hnil].
      destruct (finite_max vals fmax) as [hi|], (finite_max vals' fmax') as [hi'|]; simpl in Hhi;
        try contradiction; [|exact Hnil].
      rewrite <- (xltb_compat hi hi' lo lo' Hhi Hlo).
      destruct (xltb hi lo); [exact Hnil|].
      apply xeq_iff in Hlo. apply xeq_iff in Hhi.
      destruct lo as [|a|], lo' as [|a'|]; try contradiction;
      destruct hi as [|b|], hi' as [|b'|]; try contradiction; try exact I.
      unfold F, F'. rewrite (uniform_edges_compat a a' b b' mef Hlo Hhi).
      apply finish_rel; auto. apply Forall2_xeq_refl. }
    destruct kind; [exact U|]. destruct hn; [reflexivity| exact U].
  - (* numpy rule: the same interior edges are supplied *)
    destruct kind; [|reflexivity].
    apply finish_rel; auto. apply Forall2_xeq_refl.
Qed.

(* in index form: row i of the frame of l' = l o sigma is row sigma(i) of the frame of l *)
Corollary bin_numeric_perm_rows kind l l' n_bins m interior n e t rows n' e' t' rows' :
  Permutation l l' ->
  bin_numeric kind l n_bins m interior = NOk n e t rows ->
  bin_numeric kind l' n_bins m interior = NOk n' e' t' rows' ->
  n = n' /\ List.length e = List.length e' /\ Forall2 xeq e e' /\ Forall2 xeq2 t t' /\
  forall i j o, nth_error l i = Some o -> nth_error l' j = Some o ->
    exists r r', nth_error rows i = Some r /\ nth_error rows' j = Some r' /\ nrow_eq r r'.
Proof.
  intros H E E'. pose proof (bin_numeric_perm kind l l' n_bins m interior H) as R.
  rewrite E, E' in R. destruct R as (Hn & He & Ht & g & g' & Hr & Hr' & Hg).
  split; [exact Hn|]. split; [eapply Forall2_length_; exact He|]. split; [exact He|]. split; [exact Ht|].
  intros i j o Hi Hj. exists (g o), (g' o). subst rows rows'.
  rewrite (map_nth_error g _ _ Hi), (map_nth_error g' _ _ Hj). auto.
Qed.

(* ------------------------------------------------------------------ *)
(* 2b. canonical input: Leibniz equality of everything *)
Definition ocanon (o : option ext) : Prop := match o with Some v => xcanon v | None => True end.

Lemma Forall_nonnull (P : ext -> Prop) l :
  Forall (fun o => match o with Some v => P v | None => True end) l -> Forall P (nonnull l).
Proof.
  intros H. apply Forall_forall. intros x Hx. apply in_nonnull in Hx.
  rewrite Forall_forall in H. exact (H _ Hx).
Qed.

Lemma xmin_opt_in l m : xmin_opt l = Some m -> In m l.
Proof. intros H. apply xmin_opt_spec in H. tauto. Qed.
Lemma xmax_opt_in l m : xmax_opt l = Some m -> In m l.
Proof. intros H. apply xmax_opt_spec in H. tauto. Qed.

Lemma xqlow_in_or_zero a l : In (xqlow a l) l \/ xqlow a l = Fin 0.
Proof.
  rewrite xqlow_as_min. destruct (xmin_opt (filter (xreaches a l) l)) as [m|] eqn:E; [left| right; reflexivity].
  apply xmin_opt_in in E. apply filter_In in E. tauto.
Qed.

Lemma quantile_edges_canon l m : Forall xcanon l -> Forall xcanon (quantile_edges l m).
Proof.
  intros C. apply Forall_forall. intros x Hx. unfold quantile_edges in Hx. apply xuniq_in in Hx.
  apply in_map_iff in Hx. destruct Hx as [k [<- _]].
  destruct (xqlow_in_or_zero (Qred (Qnat k / Qnat m)) l) as [Hin| ->].
  - rewrite Forall_forall in C. apply C. exact Hin.
  - reflexivity.
Qed.

Lemma uniform_edges_canon a r m : Forall xcanon (uniform_edges a r m).
Proof.
  apply Forall_forall. intros x Hx. unfold uniform_edges in Hx. apply in_map_iff in Hx.
  destruct Hx as [k [<- _]]. apply xcanon_Qred.
Qed.

Definition canon2 (p : ext * ext) : Prop := xcanon (fst p) /\ xcanon (snd p).

Lemma pairs_canon l : Forall xcanon l -> Forall canon2 (pairs l).
Proof.
  induction 1 as [|x l Hx H IH]; [constructor|].
  destruct H as [|y l Hy H]; [constructor|].
  change (Forall canon2 ((x, y) :: pairs (y :: l))). constructor; [split; assumption| exact IH].
Qed.

Lemma edge_table_canon fmin fmax e :
  xcanon fmin -> xcanon fmax -> Forall xcanon e -> Forall canon2 (edge_table fmin fmax e).
Proof.
  intros H1 H2 H. unfold edge_table, full_edges. apply pairs_canon. constructor; [exact H1|].
  apply Forall_app. split; [exact H| constructor; [exact H2| constructor]].
Qed.

Lemma xeq2_canon p q : canon2 p -> canon2 q -> xeq2 p q -> p = q.
Proof.
  destruct p, q. intros [A B] [C D] [E F]. simpl in *. f_equal; apply xeq_canon; assumption.
Qed.

Lemma Forall2_eq_canon2 t t' : Forall2 xeq2 t t' -> Forall canon2 t -> Forall canon2 t' -> t = t'.
Proof.
  induction 1 as [|x y l l' Hxy H IH]; intros C C'; [reflexivity|].
  inversion C; inversion C'; subst. f_equal; [apply xeq2_canon; auto| apply IH; auto].
Qed.

(* the model's own edges ("quantile": data values or 0; "uniform": Qred) are canonical when the data are *)
Lemma bin_numeric_edges_canon kind l n_bins m interior n e t rows :
  Forall ocanon l -> m <> NumpyRule ->
  bin_numeric kind l n_bins m interior = NOk n e t rows -> Forall xcanon e.
Proof.
  intros C Hm Hrun. pose proof (Forall_nonnull xcanon l C) as Cv.
  unfold bin_numeric in Hrun. destruct (n_bins <? 2)%nat; [discriminate|].
  destruct (xmin_opt (nonnull l)) as [fmin|]; [|inversion Hrun; constructor].
  destruct (xmax_opt (nonnull l)) as [fmax|]; [|inversion Hrun; constructor].
  destruct m; [| |congruence].
  - assert (E : e = quantile_edges (nonnull l) (n_bins_ef0 n_bins l)).
    { destruct kind; [|destruct (has_nulls l); [discriminate|]]; inversion Hrun; reflexivity. }
    rewrite E. apply quantile_edges_canon. exact Cv.
  - assert (E : (exists a r, e = uniform_edges a r (n_bins_ef0 n_bins l)) \/ e = []).
    { set (F := fun es => NOk (n_bins_ef0 n_bins l + b2n (has_nulls l)) es
                            (edge_table fmin fmax es) (digitize_rows kind fmin fmax es l)) in *.
      assert (Hu : match finite_min (nonnull l) fmin, finite_max (nonnull l) fmax with
               | Some l0, Some h =>
                   if xltb h l0 then F []
                   else match l0, h with
                        | Fin a, Fin b => F (uniform_edges a (b - a) (n_bins_ef0 n_bins l))
                        | _, _ => NNanEdges
                        end
               | _, _ => F []
               end = NOk n e t rows).
      { destruct kind; [exact Hrun|]. destruct (has_nulls l); [discriminate| exact Hrun]. }
      destruct (finite_min (nonnull l) fmin) as [lo|]; [|right; inversion Hu; reflexivity].
      destruct (finite_max (nonnull l) fmax) as [hi|]; [|right; inversion Hu; reflexivity].
      destruct (xltb hi lo); [right; inversion Hu; reflexivity|].
      destruct lo as [|a|]; try discriminate; destruct hi as [|b|]; try discriminate.
      left. exists a, (b - a). inversion Hu. reflexivity. }
    destruct E as [[a [r ->]]| ->]; [apply uniform_edges_canon| constructor].
Qed.

Lemma Forall_perm_ {A} (P : A -> Prop) l l' : Permutation l l' -> Forall P l -> Forall P l'.
Proof.
  intros H F. rewrite Forall_forall in *. intros x Hx. apply F.
  eapply Permutation_in; [apply Permutation_sym; exact H| exact Hx].
Qed.

Definition bmethod_eq_dec (a b : bmethod) : {a = b} + {a <> b}.
Proof. decide equality. Defined.

Definition nres_eq_canon (l l' : list (option ext)) (r r' : nres) : Prop :=
  match r, r' with
  | NOk n e t rows, NOk n' e' t' rows' =>
      n = n' /\ e = e' /\ t = t' /\ exists g, rows = map g l /\ rows' = map g l'
  | NNanEdges, NNanEdges => True
  | NErr e, NErr e' => e = e'
  | _, _ => False
  end.

(* canonical data (reduced fractions; the interior edges of a numpy rule may be anything): the edge
   vector, the edge table and the returned n_bins are EQUAL and both frames are `map g` of the SAME g *)
Theorem bin_numeric_perm_canon kind l l' n_bins m interior :
  Permutation l l' -> Forall ocanon l ->
  nres_eq_canon l l' (bin_numeric kind l n_bins m interior) (bin_numeric kind l' n_bins m interior).
Proof.
  intros H C. pose proof (Forall_perm_ _ _ _ H C) as C'.
  pose proof (bin_numeric_perm kind l l' n_bins m interior H) as R.
  destruct (bin_numeric kind l n_bins m interior) as [n e t rows| |err] eqn:E1;
    destruct (bin_numeric kind l' n_bins m interior) as [n' e' t' rows'| |err'] eqn:E2;
    simpl in R; try contradiction; simpl; auto.
  destruct R as (Hn & He & _ & _).
  pose proof (nonnull_perm _ _ H) as Hv.
  pose proof (Forall_nonnull xcanon l C) as Cv. pose proof (Forall_nonnull xcanon l' C') as Cv'.
  rewrite Forall_forall in Cv, Cv'.
  pose proof (bin_numeric_inv _ _ _ _ _ _ _ _ _ E1) as I1.
  pose proof (bin_numeric_inv _ _ _ _ _ _ _ _ _ E2) as I2.
  destruct I1 as [(Hnn & _ & He1 & Ht1 & Hr1 & _) | (fmin & fmax & mo & Hmin & Hmax & Ht1 & Hr1 & _ & _ & _ & _ & Hnp & _)];
  destruct I2 as [(Hnn' & _ & He2 & Ht2 & Hr2 & _) | (fmin' & fmax' & mo' & Hmin' & Hmax' & Ht2 & Hr2 & _ & _ & _ & _ & Hnp' & _)].
  - subst. repeat split; auto. exists (fun _ => None). auto.
  - exfalso. rewrite Hnn in Hv. apply Permutation_nil in Hv. rewrite Hv in Hmin'. discriminate.
  - exfalso. rewrite Hnn' in Hv. apply Permutation_sym, Permutation_nil in Hv. rewrite Hv in Hmin. discriminate.
  - pose proof (xmin_opt_perm _ _ Hv) as Rmin. rewrite Hmin, Hmin' in Rmin. simpl in Rmin.
    pose proof (xmax_opt_perm _ _ Hv) as Rmax. rewrite Hmax, Hmax' in Rmax. simpl in Rmax.
    assert (Emin : fmin = fmin').
    { apply xeq_canon; [apply Cv; eapply xmin_opt_in; eauto| apply Cv'; eapply xmin_opt_in; eauto| exact Rmin]. }
    assert (Emax : fmax = fmax').
    { apply xeq_canon; [apply Cv; eapply xmax_opt_in; eauto| apply Cv'; eapply xmax_opt_in; eauto| exact Rmax]. }
    assert (Ee : e = e').
    { destruct (bmethod_eq_dec m NumpyRule) as [Em|Em].
      - rewrite (Hnp Em), (Hnp' Em). reflexivity.
      - apply Forall2_eq_canon; [exact He| |].
        + eapply bin_numeric_edges_canon; [exact C| exact Em| exact E1].
        + eapply bin_numeric_edges_canon; [exact C'| exact Em| exact E2]. }
    subst. repeat split; auto. exists (row_fun kind fmin' fmax' e'). auto.
Qed.

(* the multiset of (cell, assigned bin with its edges) pairs is the same *)
Corollary bin_numeric_perm_multiset kind l l' n_bins m interior n e t rows n' e' t' rows' :
  Permutation l l' -> Forall ocanon l ->
  bin_numeric kind l n_bins m interior = NOk n e t rows ->
  bin_numeric kind l' n_bins m interior = NOk n' e' t' rows' ->
  n = n' /\ e = e' /\ t = t' /\ Permutation (combine l rows) (combine l' rows').
Proof.
  intros H C E E'. pose proof (bin_numeric_perm_canon kind l l' n_bins m interior H C) as R.
  rewrite E, E' in R. destruct R as (Hn & He & Ht & g & Hr & Hr'). repeat split; auto.
  subst rows rows'.
  assert (F : forall x : list (option ext), combine x (map g x) = map (fun o => (o, g o)) x).
  { induction x as [|o x IH]; simpl; [reflexivity| rewrite IH; reflexivity]. }
  rewrite !F. apply Permutation_map. exact H.
Qed.

(* ------------------------------------------------------------------ *)
(* 3. string-like features.  All Leibniz equalities. *)

(* a sorted list is determined by its multiset when the order is antisymmetric on its elements
   (no ties): any correct sort gives the same list *)
Lemma ssorted_perm_eq {A} (le : A -> A -> bool) (l : list A) : forall l',
  (forall a b, In a l -> In b l -> le a b = true -> le b a = true -> a = b) ->
  ssorted le l -> ssorted le l' -> Permutation l l' -> l = l'.
Proof.
  induction l as [|x xs IH]; intros l' Hanti S S' P.
  - apply Permutation_nil in P. subst. reflexivity.
  - destruct l' as [|y ys]; [apply Permutation_sym, Permutation_nil in P; discriminate|].
    destruct S as [Hx S]. destruct S' as [Hy S'].
    assert (Exy : x = y).
    { assert (Hxin : In x (y :: ys)) by (eapply Permutation_in; [exact P| left; reflexivity]).
      assert (Hyin : In y (x :: xs)) by (eapply Permutation_in; [apply Permutation_sym; exact P| left; reflexivity]).
      destruct Hxin as [->|Hxin]; [reflexivity|].
      destruct Hyin as [->|Hyin]; [reflexivity|].
      apply Hanti; [left; reflexivity| right; exact Hyin| apply Hx; exact Hyin| apply Hy; exact Hxin]. }
    subst y. f_equal. apply IH; auto.
    + intros a b Ha Hb. apply Hanti; right; assumption.
    + eapply Permutation_cons_inv. exact P.
Qed.

(* value counts *)
Theorem count_code_perm c l l' : Permutation l l' -> count_code c l = count_code c l'.
Proof.
  intros H. unfold count_code.
  apply (proj1 (Permutation_count_occ Nat.eq_dec _ _) (nonnull_perm _ _ H)).
Qed.

(* the distinct categories: the same set, possibly listed in a different order (first occurrence) *)
Theorem cats_perm l l' : Permutation l l' -> Permutation (cats l) (cats l').
Proof.
  intros H. unfold cats. apply NoDup_Permutation; try apply NoDup_nodup.
  intros x. rewrite !nodup_In. split; intros Hx.
  - eapply Permutation_in; [apply nonnull_perm; exact H| exact Hx].
  - eapply Permutation_in; [apply Permutation_sym; apply nonnull_perm; exact H| exact Hx].
Qed.

(* the frequency table sorted by (count desc, value asc): identical, because the categories in it are
   distinct, hence no two entries tie *)
Theorem freq_table_perm_inv l l' : Permutation l l' -> freq_table l = freq_table l'.
Proof.
  intros H. apply (ssorted_perm_eq freq_le).
  - intros a b Ha Hb L1 L2.
    destruct (freq_table_entry l a Ha) as [Ea _]. destruct (freq_table_entry l b Hb) as [Eb _].
    apply freq_le_iff in L1. apply freq_le_iff in L2.
    assert (fst a = fst b) by lia. rewrite Ea, Eb. congruence.
  - apply freq_table_sorted.
  - apply freq_table_sorted.
  - eapply perm_trans; [apply Permutation_sym; apply freq_table_perm|].
    eapply perm_trans; [|apply freq_table_perm].
    rewrite (map_ext (fun c => (c, count_code c l)) (fun c => (c, count_code c l'))).
    + apply Permutation_map. apply cats_perm. exact H.
    + intros c. rewrite (count_code_perm c l l' H). reflexivity.
Qed.

Definition sres_eq (l l' : list (option nat)) (r r' : sres) : Prop :=
  match r, r' with
  | SOk n kept label k bins, SOk n' kept' label' k' bins' =>
      n = n' /\ kept = kept' /\ label = label' /\ k = k' /\
      exists g, bins = map g l /\ bins' = map g l'
  | SErr e, SErr e' => e = e'
  | _, _ => False
  end.

(* returned n_bins, kept categories, pooled label, k: equal; the bin of a row is the same function of the
   row's own cell *)
Theorem bin_string_perm kind names l l' n_bins :
  Permutation l l' ->
  sres_eq l l' (bin_string kind names l n_bins) (bin_string kind names l' n_bins).
Proof.
  intros H. unfold bin_string.
  destruct (n_bins <? 2)%nat; [reflexivity|].
  rewrite <- (freq_table_perm_inv _ _ H), <- (has_nulls_perm _ _ H), <- (n_bins_ef0_perm n_bins _ _ H).
  destruct (List.length (freq_table l) <=? n_bins_ef0 n_bins l)%nat; simpl;
    repeat (split; [reflexivity|]); eexists; split; reflexivity.
Qed.

Corollary bin_string_perm_multiset kind names l l' n_bins n kept label k bins n' kept' label' k' bins' :
  Permutation l l' ->
  bin_string kind names l n_bins = SOk n kept label k bins ->
  bin_string kind names l' n_bins = SOk n' kept' label' k' bins' ->
  n = n' /\ kept = kept' /\ label = label' /\ k = k' /\ Permutation (combine l bins) (combine l' bins').
Proof.
  intros H E E'. pose proof (bin_string_perm kind names l l' n_bins H) as R.
  rewrite E, E' in R. destruct R as (Hn & Hk & Hl & Hkk & g & Hb & Hb'). repeat split; auto.
  subst bins bins'.
  assert (F : forall x : list (option nat), combine x (map g x) = map (fun o => (o, g o)) x).
  { induction x as [|o x IH]; simpl; [reflexivity| rewrite IH; reflexivity]. }
  rewrite !F. apply Permutation_map. exact H.
Qed.

(* ------------------------------------------------------------------ *)
(* sanity: the general statement really needs xeq - with a non-reduced fraction the reported lower edge of
   the first bin is the cell that happens to come last among the tied minima *)
Example noncanonical_min_depends_on_order :
  xmin_opt [Fin (1 # 2); Fin (2 # 4)] = Some (Fin (2 # 4)) /\
  xmin_opt [Fin (2 # 4); Fin (1 # 2)] = Some (Fin (1 # 2)).
Proof. split; reflexivity. Qed.

Example bin_numeric_perm_example :
  nres_eq_canon [Some (Fin 3); None; Some (Fin 1); Some PInf; Some (Fin 2)]
                [Some (Fin 1); Some (Fin 2); Some (Fin 3); Some PInf; None]
    (bin_numeric KNum [Some (Fin 3); None; Some (Fin 1); Some PInf; Some (Fin 2)] 3 Quantile [])
    (bin_numeric KNum [Some (Fin 1); Some (Fin 2); Some (Fin 3); Some PInf; None] 3 Quantile []).
Proof.
  apply bin_numeric_perm_canon.
  - apply (Permutation_trans (l' := [None; Some (Fin 3); Some (Fin 1); Some PInf; Some (Fin 2)])).
    + apply perm_swap.
    + apply Permutation_cons_app with (l1 := [Some (Fin 1); Some (Fin 2); Some (Fin 3); Some PInf]) (l2 := []).
      simpl. apply Permutation_cons_app with (l1 := [Some (Fin 1); Some (Fin 2)]) (l2 := [Some PInf]).
      simpl. apply perm_skip. apply perm_swap.
  - repeat constructor.
Qed.

Print Assumptions xmin_opt_perm.
Print Assumptions xmax_opt_perm.
Print Assumptions finite_min_perm.
Print Assumptions finite_max_perm.
Print Assumptions xqlow_perm.
Print Assumptions xuniq_perm.
Print Assumptions quantile_edges_perm.
Print Assumptions uniform_edges_compat.
Print Assumptions bin_numeric_perm.
Print Assumptions bin_numeric_perm_rows.
Print Assumptions bin_numeric_perm_canon.
Print Assumptions bin_numeric_perm_multiset.
Print Assumptions count_code_perm.
Print Assumptions cats_perm.
Print Assumptions freq_table_perm_inv.
Print Assumptions bin_string_perm.
Print Assumptions bin_string_perm_multiset.
