(* C12, equivariances of the executable model `isotonic_regression`:

     iso_affine_equivariant      y |-> a*y + b with a > 0: values transformed (pointwise ==),
                                 same block vector; every functional, both directions
     iso_affine_error            ... and the same exception otherwise
     iso_weight_scale_invariant  w |-> c*w with c > 0: same values (pointwise ==), same block
                                 vector; every functional that accepts weights
     iso_weight_scale_error      ... and the same exception otherwise

   Method: a generic lock-step simulation of two runs of the model loop
   (model/Gpava.v) whose elements are related by a map [phi] and whose block
   values are related by a strictly increasing [al], given that the functional
   is equivariant on admissible blocks; then equivariance of the weighted mean,
   of the expectile (through uniqueness of the root of its identification sum)
   and of the lower / upper empirical quantile (through their order
   characterisations).  The running-sums model of the mean (model/Pava.v) is
   connected through theory/PavaSim.v.  World Q only; no axioms. *)
From Coq Require Import QArith Qreduction Lqa Lia List Bool Sorted.
Import ListNotations.
From MD Require Import lib.QLists model.Functionals model.Gpava model.Pava model.Isotonic
  theory.GpavaMerge theory.GInst theory.GpavaCert theory.PavaSim
  theory.InstMean theory.InstExpectile theory.InstQuantile theory.Transport theory.IsoOptimal
  proofs.IsoProps proofs.IsoQuantProps proofs.IsoContract.
Open Scope Q_scope.

(* ------------------------------------------------------------------ *)
(* Generic lock-step simulation of the model loop                       *)
(* ------------------------------------------------------------------ *)

Section Sim.
Variables E E' : Type.
Variable yv : E -> Q.
Variable yv' : E' -> Q.
Variable T : list E -> Q.
Variable T' : list E' -> Q.
Variable good : E -> Prop.
Variable phi : E -> E'.
Variable al : Q -> Q.
Hypothesis al_le : forall s t, s <= t <-> al s <= al t.
Hypothesis yv_phi : forall e, good e -> yv' (phi e) == al (yv e).
Hypothesis T_phi : forall B, B <> [] -> Forall good B -> T' (map phi B) == al (T B).

Definition brel (b : blk E) (b' : blk E') : Prop :=
  bel b' = map phi (bel b) /\ bv b' == al (bv b) /\ bel b <> [] /\ Forall good (bel b).

Lemma geb_sim v v' u u' : v' == al v -> u' == al u -> geb v' u' = geb v u.
Proof.
  intros Ev Eu. unfold geb.
  destruct (Qle_bool u' v') eqn:H1; destruct (Qle_bool u v) eqn:H2; try reflexivity.
  - apply Qle_bool_iff in H1. rewrite Ev, Eu in H1. apply al_le in H1.
    apply Qle_bool_iff in H1. congruence.
  - apply Qle_bool_iff in H2. apply al_le in H2. rewrite <- Ev, <- Eu in H2.
    apply Qle_bool_iff in H2. congruence.
Qed.

Lemma app_ne_r (A : Type) (l1 l2 : list A) : l2 <> [] -> l1 ++ l2 <> [].
Proof. intros H E0. apply app_eq_nil in E0. tauto. Qed.

Lemma up_sim : forall rest B v v' B1 v1 rest1,
  v' == al v -> B <> [] -> Forall good B -> Forall good rest ->
  up E yv T B v rest = (B1, v1, rest1) ->
  exists v1', up E' yv' T' (map phi B) v' (map phi rest) = (map phi B1, v1', map phi rest1) /\
    v1' == al v1 /\ B1 <> [] /\ Forall good B1 /\ Forall good rest1.
Proof.
  induction rest as [|e rest' IH]; intros B v v' B1 v1 rest1 Ev Bn GB Gr HU.
  - cbn [up] in HU. injection HU as <- <- <-. exists v'. cbn [map up]. auto.
  - pose proof (Forall_inv Gr) as Ge. pose proof (Forall_inv_tail Gr) as Gr'.
    cbn [up] in HU. cbn [map up].
    rewrite (geb_sim v v' (yv e) (yv' (phi e)) Ev (yv_phi e Ge)).
    destruct (geb v (yv e)).
    + change [phi e] with (map phi [e]). rewrite <- map_app.
      assert (Bn' : B ++ [e] <> []) by (apply app_ne_r; discriminate).
      assert (GB' : Forall good (B ++ [e])).
      { apply Forall_app. split; [exact GB| constructor; [exact Ge| constructor]]. }
      exact (IH (B ++ [e]) (T (B ++ [e])) (T' (map phi (B ++ [e]))) B1 v1 rest1
                (T_phi _ Bn' GB') Bn' GB' Gr' HU).
    + injection HU as <- <- <-. exists v'. cbn [map]. auto.
Qed.

Lemma down_sim : forall stk stk', Forall2 brel stk stk' -> forall B v v' B2 v2 stk2,
  v' == al v -> B <> [] -> Forall good B ->
  down E T B v stk = (B2, v2, stk2) ->
  exists v2' stk2', down E' T' (map phi B) v' stk' = (map phi B2, v2', stk2') /\
    v2' == al v2 /\ Forall2 brel stk2 stk2' /\ B2 <> [] /\ Forall good B2.
Proof.
  intros stk stk' HR. induction HR as [|b b' stk stk' Hb HR IH]; intros B v v' B2 v2 stk2 Ev Bn GB HD.
  - cbn [down] in HD. injection HD as <- <- <-. exists v', []. cbn [down].
    split; [reflexivity|]. split; [exact Ev|]. split; [constructor|]. split; assumption.
  - cbn [down] in HD. cbn [down]. destruct Hb as (Eb & Evb & Bbn & GBb).
    rewrite (geb_sim (bv b) (bv b') v v' Evb Ev).
    destruct (geb (bv b) v).
    + rewrite Eb, <- map_app.
      assert (Bn' : bel b ++ B <> []) by (apply app_ne_r; exact Bn).
      assert (GB' : Forall good (bel b ++ B)) by (apply Forall_app; split; assumption).
      exact (IH (bel b ++ B) (T (bel b ++ B)) (T' (map phi (bel b ++ B))) B2 v2 stk2
                (T_phi _ Bn' GB') Bn' GB' HD).
    + injection HD as <- <- <-. exists v', (b' :: stk').
      split; [reflexivity|]. split; [exact Ev|].
      split; [constructor; [split; [exact Eb| split; [exact Evb| split; assumption]]| exact HR]|].
      split; assumption.
Qed.

Lemma step_sim : forall stk stk' e rest stk1 rest1,
  Forall2 brel stk stk' -> good e -> Forall good rest ->
  step E yv T stk e rest = (stk1, rest1) ->
  exists stk1', step E' yv' T' stk' (phi e) (map phi rest) = (stk1', map phi rest1) /\
    Forall2 brel stk1 stk1' /\ Forall good rest1.
Proof.
  intros stk stk' e rest stk1 rest1 HR Ge Gr HS.
  assert (Hsingle : brel (mkblk [e] (yv e)) (mkblk [phi e] (yv' (phi e)))).
  { split; [reflexivity|]. split; [exact (yv_phi e Ge)|]. split; [discriminate|].
    constructor; [exact Ge| constructor]. }
  destruct HR as [|p p' stk stk' Hp HR].
  - cbn [step] in HS. injection HS as <- <-. eexists. cbn [step].
    split; [reflexivity|]. split; [constructor; [exact Hsingle| constructor]| exact Gr].
  - cbn [step] in HS. cbn [step]. destruct Hp as (Ep & Evp & Pn & GP).
    rewrite (geb_sim (bv p) (bv p') (yv e) (yv' (phi e)) Evp (yv_phi e Ge)).
    destruct (geb (bv p) (yv e)).
    + destruct (up E yv T (bel p ++ [e]) (T (bel p ++ [e])) rest) as [[B1 v1] r1] eqn:HU.
      destruct (down E T B1 v1 stk) as [[B2 v2] stk2] eqn:HD.
      injection HS as <- <-.
      assert (Bn0 : bel p ++ [e] <> []) by (apply app_ne_r; discriminate).
      assert (GB0 : Forall good (bel p ++ [e])).
      { apply Forall_app. split; [exact GP| constructor; [exact Ge| constructor]]. }
      rewrite Ep. change [phi e] with (map phi [e]). rewrite <- map_app.
      destruct (up_sim rest _ _ (T' (map phi (bel p ++ [e]))) B1 v1 r1
                  (T_phi _ Bn0 GB0) Bn0 GB0 Gr HU) as (v1' & HU' & Ev1 & B1n & GB1 & Gr1).
      rewrite HU'.
      destruct (down_sim stk stk' HR B1 v1 v1' B2 v2 stk2 Ev1 B1n GB1 HD)
        as (v2' & stk2' & HD' & Ev2 & HR2 & B2n & GB2).
      rewrite HD'. eexists. split; [reflexivity|]. split; [|exact Gr1].
      constructor; [|exact HR2]. split; [reflexivity|]. split; [exact Ev2|]. split; assumption.
    + injection HS as <- <-. eexists. split; [reflexivity|]. split; [|exact Gr].
      constructor; [exact Hsingle|].
      constructor; [split; [exact Ep| split; [exact Evp| split; assumption]]| exact HR].
Qed.

Lemma loop_sim : forall fuel stk stk' rest res,
  Forall2 brel stk stk' -> Forall good rest ->
  loop E yv T fuel stk rest = Some res ->
  exists res', loop E' yv' T' fuel stk' (map phi rest) = Some res' /\ Forall2 brel res res'.
Proof.
  induction fuel as [|fuel IH]; intros stk stk' rest res HR Gr HL.
  - destruct rest as [|e rest']; [|discriminate HL].
    cbn [loop] in HL. injection HL as <-. exists stk'. split; [reflexivity| exact HR].
  - destruct rest as [|e rest'].
    + cbn [loop] in HL. injection HL as <-. exists stk'. split; [reflexivity| exact HR].
    + cbn [loop] in HL. cbn [map loop].
      destruct (step E yv T stk e rest') as [stk1 rest1] eqn:HS.
      destruct (step_sim stk stk' e rest' stk1 rest1 HR (Forall_inv Gr) (Forall_inv_tail Gr) HS)
        as (stk1' & HS' & HR1 & Gr1).
      rewrite HS'. exact (IH stk1 stk1' rest1 res HR1 Gr1 HL).
Qed.

Theorem gpava_blocks_sim l stk : Forall good l -> gpava_blocks E yv T l = Some stk ->
  exists stk', gpava_blocks E' yv' T' (map phi l) = Some stk' /\ Forall2 brel stk stk'.
Proof.
  intros Gl HL. unfold gpava_blocks in *. rewrite map_length.
  exact (loop_sim (length l) [] [] l stk (Forall2_nil _) Gl HL).
Qed.

Lemma brel_rev stk stk' : Forall2 brel stk stk' -> Forall2 brel (rev stk) (rev stk').
Proof. apply Forall2_rev_both. Qed.

Lemma expand_sim_gen : forall bs bs', Forall2 brel bs bs' ->
  Forall2 Qeq (flat_map (fun b => repeat (bv b) (length (bel b))) bs')
              (map al (flat_map (fun b => repeat (bv b) (length (bel b))) bs)).
Proof.
  intros bs bs' HR. induction HR as [|b b' bs bs' Hb HR IH]; [constructor|].
  cbn [flat_map]. rewrite map_app. apply Forall2_app; [|exact IH].
  destruct Hb as (Eb & Evb & _ & _). rewrite Eb, map_length.
  induction (length (bel b)) as [|n IHn]; cbn [repeat map]; constructor; assumption.
Qed.

Theorem expand_sim stk stk' : Forall2 brel stk stk' ->
  Forall2 Qeq (expand E' stk') (map al (expand E stk)).
Proof. intros HR. unfold expand. apply expand_sim_gen. apply brel_rev. exact HR. Qed.

Lemma starts_sim : forall bs bs', Forall2 brel bs bs' -> forall from,
  starts E' from bs' = starts E from bs.
Proof.
  intros bs bs' HR. induction HR as [|b b' bs bs' Hb HR IH]; intros from; [reflexivity|].
  cbn [starts]. destruct Hb as (Eb & _). rewrite Eb, map_length, IH. reflexivity.
Qed.

Theorem rvec_sim stk stk' : Forall2 brel stk stk' -> rvec E' stk' = rvec E stk.
Proof. intros HR. unfold rvec. apply starts_sim. apply brel_rev. exact HR. Qed.

Theorem gpava_sim l x r : Forall good l -> gpava E yv T l = Some (x, r) ->
  exists x', gpava E' yv' T' (map phi l) = Some (x', r) /\ Forall2 Qeq x' (map al x).
Proof.
  intros Gl H. unfold gpava in *. destruct l as [|e l']; [discriminate H|].
  destruct (gpava_blocks E yv T (e :: l')) as [stk|] eqn:HL; [|discriminate H].
  cbn [option_map] in H. injection H as <- <-.
  destruct (gpava_blocks_sim (e :: l') stk Gl HL) as (stk' & HL' & HR).
  cbn [map] in HL' |- *. rewrite HL'. cbn [option_map].
  exists (expand E' stk'). rewrite (rvec_sim stk stk' HR).
  split; [reflexivity| exact (expand_sim stk stk' HR)].
Qed.
End Sim.

(* ------------------------------------------------------------------ *)
(* The two transformations                                              *)
(* ------------------------------------------------------------------ *)

Definition phiA (a b : Q) (e : elt) : elt := (a * ey e + b, ew e).   (* y |-> a*y + b *)
Definition phiW (c : Q) (e : elt) : elt := (ey e, c * ew e).         (* w |-> c*w *)
Definition idQ (t : Q) : Q := t.

Lemma combine_map_l (a b : Q) : forall (y w : list Q),
  combine (map (fun v => a * v + b) y) w = map (phiA a b) (combine y w).
Proof.
  induction y as [|p y IH]; intros w; [reflexivity|].
  destruct w as [|q w]; [reflexivity|]. cbn [map combine]. rewrite IH. reflexivity.
Qed.

Lemma combine_map_r (c : Q) : forall (y w : list Q),
  combine y (map (Qmult c) w) = map (phiW c) (combine y w).
Proof.
  induction y as [|p y IH]; intros w; [reflexivity|].
  destruct w as [|q w]; [reflexivity|]. cbn [map combine]. rewrite IH. reflexivity.
Qed.

Lemma map_ne (A B : Type) (f : A -> B) (l : list A) : l <> [] -> map f l <> [].
Proof. destruct l; [congruence| discriminate]. Qed.

(* ---------- affine maps of the observations ---------- *)

Section Affine.
Variables a b : Q.
Hypothesis Ha : 0 < a.
Notation al := (fun t : Q => a * t + b).
Notation phi := (phiA a b).

Lemma aff_le s t : s <= t <-> a * s + b <= a * t + b.
Proof.
  pose proof (Qmult_le_l s t a Ha) as H. split; intros H1.
  - apply H in H1. lra.
  - apply H. lra.
Qed.

Lemma aff_proper s t : s == t -> a * s + b == a * t + b.
Proof. intros E. rewrite E. reflexivity. Qed.

Lemma leb_aff y t : leb (a * y + b) (a * t + b) = leb y t.
Proof. apply bool_eq_iff. rewrite !leb_true_iff. symmetry. apply aff_le. Qed.

Lemma posw_phiA (B : list elt) : Forall posw B -> Forall posw (map phi B).
Proof.
  intros H. apply Forall_forall. intros e' He'. apply in_map_iff in He'.
  destruct He' as (e & <- & He). rewrite Forall_forall in H. exact (H e He).
Qed.

Lemma wtot_phiA (B : list elt) : wtot (map phi B) == wtot B.
Proof. induction B as [|e B IH]; [reflexivity|]. cbn [map wtot]. rewrite IH. reflexivity. Qed.

Lemma wsum_phiA (B : list elt) : wsum (map phi B) == a * wsum B + b * wtot B.
Proof.
  induction B as [|e B IH]; [cbn; ring|]. cbn [map wsum wtot]. rewrite IH.
  unfold phiA, ey, ew. cbn [fst snd]. ring.
Qed.

Lemma wmean_phiA (B : list elt) : B <> [] -> Forall posw B ->
  wmean (map phi B) == a * wmean B + b.
Proof.
  intros Bn GB. pose proof (wtot_pos B Bn GB) as Hp.
  rewrite !wmean_eq, wsum_phiA, wtot_phiA. field. lra.
Qed.

Lemma V_expectile_phiA lvl e t :
  V_expectile lvl (phi e) (a * t + b) == a * V_expectile lvl e t.
Proof.
  unfold V_expectile, kfac. change (ey (phi e)) with (a * ey e + b). change (ew (phi e)) with (ew e).
  rewrite leb_aff. ring.
Qed.

Lemma F_phiA lvl (S : list elt) t :
  hi elt (V_expectile lvl) (map phi S) (a * t + b) == a * hi elt (V_expectile lvl) S t.
Proof.
  induction S as [|e S IH]; [cbn; ring|]. cbn [map hi]. rewrite IH, V_expectile_phiA. ring.
Qed.

Lemma expectile_phiA lvl (Hl : 0 < lvl /\ lvl < 1) (S : list elt) : S <> [] -> Forall posw S ->
  expectile_Q lvl (map phi S) == a * expectile_Q lvl S + b.
Proof.
  intros Sn G.
  apply (F_root_unique lvl Hl (map phi S) _ _ (map_ne _ _ phi S Sn) (posw_phiA S G)).
  - apply expectile_Q_root; [exact Hl| apply map_ne; exact Sn| apply posw_phiA; exact G].
  - rewrite F_phiA, (expectile_Q_root lvl Hl S Sn G). ring.
Qed.

Lemma count_le_phiA (S : list elt) t : count_le (map phi S) (a * t + b) = count_le S t.
Proof.
  unfold count_le. induction S as [|e S IH]; [reflexivity|].
  cbn [map filter]. change (ey (phi e)) with (a * ey e + b). rewrite leb_aff.
  destruct (leb (ey e) t); cbn [length]; rewrite IH; reflexivity.
Qed.

Lemma count_lt_phiA (S : list elt) t : count_lt (map phi S) (a * t + b) = count_lt S t.
Proof.
  unfold count_lt. induction S as [|e S IH]; [reflexivity|].
  cbn [map filter]. change (ey (phi e)) with (a * ey e + b). rewrite leb_aff.
  destruct (negb (leb t (ey e))); cbn [length]; rewrite IH; reflexivity.
Qed.

Lemma qlow_phiA lvl (Hl : 0 < lvl /\ lvl < 1) (S : list elt) : S <> [] ->
  qlow lvl (map phi S) == a * qlow lvl S + b.
Proof.
  intros Sn. pose proof (map_ne _ _ phi S Sn) as Sn'.
  apply Qle_antisym.
  - apply (qlow_least lvl Hl (map phi S) _ Sn').
    rewrite map_length, count_le_phiA. exact (qlow_reaches lvl Hl S Sn).
  - destruct (qlow_in lvl Hl (map phi S) Sn') as (e' & He' & Eq).
    apply in_map_iff in He'. destruct He' as (e & <- & He).
    change (ey (phi e)) with (a * ey e + b) in Eq.
    pose proof (qlow_reaches lvl Hl (map phi S) Sn') as R.
    rewrite (count_le_proper _ _ _ Eq), map_length, count_le_phiA in R.
    pose proof (qlow_least lvl Hl S (ey e) Sn R) as L.
    rewrite Eq. exact (proj1 (aff_le _ _) L).
Qed.

Lemma qupp_phiA lvl (Hl : 0 < lvl /\ lvl < 1) (S : list elt) : S <> [] ->
  qupp lvl (map phi S) == a * qupp lvl S + b.
Proof.
  intros Sn. pose proof (map_ne _ _ phi S Sn) as Sn'.
  apply Qle_antisym.
  - destruct (qupp_in lvl Hl (map phi S) Sn') as (e' & He' & Eq).
    apply in_map_iff in He'. destruct He' as (e & <- & He).
    change (ey (phi e)) with (a * ey e + b) in Eq.
    pose proof (qupp_spec1 lvl Hl (map phi S) Sn') as R.
    rewrite (count_lt_proper _ _ _ Eq), map_length, count_lt_phiA in R.
    pose proof (qupp_greatest lvl Hl S (ey e) Sn R) as L.
    rewrite Eq. exact (proj1 (aff_le _ _) L).
  - apply (qupp_greatest lvl Hl (map phi S) _ Sn').
    rewrite map_length, count_lt_phiA. exact (qupp_spec1 lvl Hl S Sn).
Qed.
End Affine.

(* ---------- rescaling of the weights ---------- *)

Section Scale.
Variable c : Q.
Hypothesis Hc : 0 < c.
Notation phi := (phiW c).

Lemma id_le s t : s <= t <-> idQ s <= idQ t.
Proof. unfold idQ. tauto. Qed.

Lemma posw_phiW (B : list elt) : Forall posw B -> Forall posw (map phi B).
Proof.
  intros H. apply Forall_forall. intros e' He'. apply in_map_iff in He'.
  destruct He' as (e & <- & He). rewrite Forall_forall in H. pose proof (H e He) as Hp.
  unfold posw in *. change (ew (phi e)) with (c * ew e). nra.
Qed.

Lemma wtot_phiW (B : list elt) : wtot (map phi B) == c * wtot B.
Proof.
  induction B as [|e B IH]; [cbn; ring|]. cbn [map wtot]. rewrite IH.
  change (ew (phi e)) with (c * ew e). ring.
Qed.

Lemma wsum_phiW (B : list elt) : wsum (map phi B) == c * wsum B.
Proof.
  induction B as [|e B IH]; [cbn; ring|]. cbn [map wsum]. rewrite IH.
  change (ew (phi e)) with (c * ew e). change (ey (phi e)) with (ey e). ring.
Qed.

Lemma wmean_phiW (B : list elt) : B <> [] -> Forall posw B ->
  wmean (map phi B) == idQ (wmean B).
Proof.
  intros Bn GB. pose proof (wtot_pos B Bn GB) as Hp. unfold idQ.
  rewrite !wmean_eq, wsum_phiW, wtot_phiW. field. split; lra.
Qed.

Lemma V_expectile_phiW lvl e t : V_expectile lvl (phi e) t == c * V_expectile lvl e t.
Proof.
  unfold V_expectile. change (ey (phi e)) with (ey e). change (ew (phi e)) with (c * ew e). ring.
Qed.

Lemma F_phiW lvl (S : list elt) t :
  hi elt (V_expectile lvl) (map phi S) t == c * hi elt (V_expectile lvl) S t.
Proof.
  induction S as [|e S IH]; [cbn; ring|]. cbn [map hi]. rewrite IH, V_expectile_phiW. ring.
Qed.

Lemma expectile_phiW lvl (Hl : 0 < lvl /\ lvl < 1) (S : list elt) : S <> [] -> Forall posw S ->
  expectile_Q lvl (map phi S) == idQ (expectile_Q lvl S).
Proof.
  intros Sn G. unfold idQ.
  apply (F_root_unique lvl Hl (map phi S) _ _ (map_ne _ _ phi S Sn) (posw_phiW S G)).
  - apply expectile_Q_root; [exact Hl| apply map_ne; exact Sn| apply posw_phiW; exact G].
  - rewrite F_phiW, (expectile_Q_root lvl Hl S Sn G). ring.
Qed.
End Scale.

(* ------------------------------------------------------------------ *)
(* The core under a transformation: mean and expectile                  *)
(* ------------------------------------------------------------------ *)

Section CoreSim.
Variable phi : elt -> elt.
Variable al : Q -> Q.
Hypothesis al_le : forall s t, s <= t <-> al s <= al t.
Hypothesis ey_phi : forall e, posw e -> ey (phi e) == al (ey e).
Hypothesis posw_phi : forall B, Forall posw B -> Forall posw (map phi B).

Lemma al_proper s t : s == t -> al s == al t.
Proof.
  intros E. apply Qle_antisym; [apply (proj1 (al_le s t))| apply (proj1 (al_le t s))];
    rewrite E; apply Qle_refl.
Qed.

Lemma al_inj s t : al s == al t -> s == t.
Proof.
  intros E. apply Qle_antisym; [apply (proj2 (al_le s t))| apply (proj2 (al_le t s))];
    rewrite E; apply Qle_refl.
Qed.

Lemma core_mean_sim lvl l x r :
  (forall B, B <> [] -> Forall posw B -> wmean (map phi B) == al (wmean B)) ->
  Forall posw l -> iso_core IFmean lvl l = Some (x, r) ->
  exists x', iso_core IFmean lvl (map phi l) = Some (x', r) /\ Forall2 Qeq x' (map al x).
Proof.
  intros HT Gl H. pose proof (core_ne _ _ _ _ _ H) as Ln. cbn [iso_core] in *.
  destruct (pava_sim l Ln Gl) as (x1 & r1 & x1' & EP & EG & HQ).
  rewrite EP in H. injection H as <- <-.
  destruct (gpava_sim elt elt ey ey wmean wmean posw phi al al_le ey_phi HT l x1' r1 Gl EG)
    as (x2' & EG2 & HQ2).
  destruct (pava_sim (map phi l) (map_ne _ _ phi l Ln) (posw_phi l Gl)) as (x3 & r3 & x3' & EP3 & EG3 & HQ3).
  rewrite EG2 in EG3. injection EG3 as <- <-.
  exists x3. split; [exact EP3|].
  apply (F2_Qeq_trans _ _ _ HQ3). apply (F2_Qeq_trans _ _ _ HQ2).
  apply (F2_Qeq_map al al_proper). apply F2_Qeq_sym. exact HQ.
Qed.

Lemma core_exp_sim lvl l x r :
  (forall B, B <> [] -> Forall posw B -> expectile_Q lvl (map phi B) == al (expectile_Q lvl B)) ->
  Forall posw l -> iso_core IFexpectile lvl l = Some (x, r) ->
  exists x', iso_core IFexpectile lvl (map phi l) = Some (x', r) /\ Forall2 Qeq x' (map al x).
Proof.
  intros HT Gl H. cbn [iso_core] in *.
  exact (gpava_sim elt elt ey ey (expectile_Q lvl) (expectile_Q lvl) posw phi al al_le ey_phi HT
           l x r Gl H).
Qed.
End CoreSim.

(* ------------------------------------------------------------------ *)
(* The quantile path under an affine map                                *)
(* ------------------------------------------------------------------ *)

Section QuantAffine.
Variables a b : Q.
Hypothesis Ha : 0 < a.
Variable lvl : Q.
Hypothesis Hl : 0 < lvl /\ lvl < 1.
Notation al := (fun t : Q => a * t + b).
Notation phi := (phiA a b).
Notation RQ := (fun q q' : Q => q' == a * q + b).
Notation RB := (brel elt elt (fun _ : elt => True) phi al).

Lemma Qle_bool_aff s t s' t' : s' == a * s + b -> t' == a * t + b -> Qle_bool s' t' = Qle_bool s t.
Proof.
  intros Es Et. apply bool_eq_iff. rewrite !Qle_bool_iff, Es, Et. symmetry. apply aff_le. exact Ha.
Qed.

Lemma Qeq_bool_aff s t s' t' : s' == a * s + b -> t' == a * t + b -> Qeq_bool s' t' = Qeq_bool s t.
Proof.
  intros Es Et. apply bool_eq_iff. rewrite !Qeq_bool_iff, Es, Et. split; intros E.
  - apply Qle_antisym; [apply (proj2 (aff_le a b Ha s t))| apply (proj2 (aff_le a b Ha t s))];
      rewrite E; apply Qle_refl.
  - rewrite E. reflexivity.
Qed.

Lemma cummin_aff : forall q q', Forall2 RQ q q' -> Forall2 RQ (cummin_right q) (cummin_right q').
Proof.
  intros q q' H. induction H as [|z z' q q' Hz H IH]; [constructor|].
  rewrite !cummin_cons.
  destruct IH as [|m m' c c' Hm IH'].
  - constructor; [exact Hz| constructor].
  - constructor; [|constructor; assumption].
    rewrite (Qle_bool_aff z m z' m' Hz Hm). destruct (Qle_bool z m); assumption.
Qed.

Lemma qupp_blocks_aff : forall bs bs', Forall2 RB bs bs' ->
  Forall2 RQ (map (fun b => qupp lvl (bel b)) bs) (map (fun b => qupp lvl (bel b)) bs').
Proof.
  intros bs bs' H. induction H as [|p p' bs bs' Hp H IH]; [constructor|].
  cbn [map]. constructor; [|exact IH].
  destruct Hp as (Ep & _ & Pn & _). rewrite Ep. apply (qupp_phiA a b Ha lvl Hl). exact Pn.
Qed.

Lemma xfit_aff : forall bs bs', Forall2 RB bs bs' -> forall q q', Forall2 RQ q q' ->
  Forall2 RQ (xfit (combine bs q)) (xfit (combine bs' q')).
Proof.
  intros bs bs' H. induction H as [|p p' bs bs' Hp H IH]; intros q q' Hq; [constructor|].
  destruct Hq as [|z z' q q' Hz Hq]; [constructor|].
  cbn [combine]. rewrite !xfit_cons. cbn [fst]. apply Forall2_app; [|exact (IH q q' Hq)].
  destruct Hp as (Ep & Ev & _ & _). rewrite Ep, map_length.
  assert (Em : mval (p', z') == a * mval (p, z) + b).
  { rewrite !mval_eq. cbn [fst snd]. rewrite Ev, Hz. ring. }
  induction (length (bel p)) as [|n IHn]; cbn [repeat]; constructor; assumption.
Qed.

Lemma changes_aff : forall x x', Forall2 RQ x x' -> forall i, changes i x' = changes i x.
Proof.
  intros x x' H. induction H as [|p p' x x' Hp H IH]; intros i; [reflexivity|].
  destruct H as [|q q' x x' Hq H].
  - reflexivity.
  - rewrite !changes_cons2, (Qeq_bool_aff p q p' q' Hp Hq), (IH (S i)). reflexivity.
Qed.

Lemma RQ_F2 x x' : Forall2 RQ x x' -> Forall2 Qeq x' (map al x).
Proof. intros H. induction H; cbn [map]; constructor; assumption. Qed.

Theorem quantile_path_affine l x r : quantile_path lvl l = Some (x, r) ->
  exists x', quantile_path lvl (map phi l) = Some (x', r) /\ Forall2 Qeq x' (map al x).
Proof.
  intros H. destruct (qp_unfold lvl l x r H) as (Ln & stk & HL & Hx & Hr).
  destruct (gpava_blocks_sim elt elt ey ey (qlow lvl) (qlow lvl) (fun _ => True) phi al
              (fun s t => aff_le a b Ha s t)
              (fun e _ => Qeq_refl _)
              (fun B Bn _ => qlow_phiA a b Ha lvl Hl B Bn)
              l stk (all_dom _ l) HL) as (stk' & HL' & HR).
  destruct (quantile_path_total lvl Hl (map phi l) (map_ne _ _ phi l Ln)) as (x' & r' & H').
  destruct (qp_unfold lvl (map phi l) x' r' H') as (_ & stk'' & HL'' & Hx' & Hr').
  rewrite HL' in HL''. injection HL'' as <-.
  pose proof (brel_rev elt elt _ _ _ stk stk' HR) as HRr.
  pose proof (xfit_aff _ _ HRr _ _ (cummin_aff _ _ (qupp_blocks_aff _ _ HRr))) as HX.
  rewrite <- Hx, <- Hx' in HX.
  assert (Er : r' = r).
  { rewrite Hr, Hr'. unfold rvec_of_values.
    rewrite (changes_aff x x' HX), (F2_length _ _ _ _ _ HX). reflexivity. }
  exists x'. rewrite <- Er. split; [exact H'| exact (RQ_F2 x x' HX)].
Qed.
End QuantAffine.

(* ------------------------------------------------------------------ *)
(* The core under the two transformations                               *)
(* ------------------------------------------------------------------ *)

Theorem core_affine a b (Ha : 0 < a) f lvl l x r : cvalid f lvl -> Forall posw l ->
  iso_core f lvl l = Some (x, r) ->
  exists x', iso_core f lvl (map (phiA a b) l) = Some (x', r) /\
             Forall2 Qeq x' (map (fun t => a * t + b) x).
Proof.
  intros Hc Gl H. destruct Hc as [->|[[-> Hl]|[-> Hl]]].
  - exact (core_mean_sim (phiA a b) (fun t => a * t + b) (aff_le a b Ha)
             (fun e _ => Qeq_refl _) (posw_phiA a b) lvl l x r (wmean_phiA a b) Gl H).
  - exact (core_exp_sim (phiA a b) (fun t => a * t + b) (aff_le a b Ha)
             (fun e _ => Qeq_refl _) lvl l x r (expectile_phiA a b Ha lvl Hl) Gl H).
  - exact (quantile_path_affine a b Ha lvl Hl l x r H).
Qed.

Theorem core_wscale c (Hc : 0 < c) f lvl l x r :
  (f = IFmean \/ (f = IFexpectile /\ 0 < lvl /\ lvl < 1)) -> Forall posw l ->
  iso_core f lvl l = Some (x, r) ->
  exists x', iso_core f lvl (map (phiW c) l) = Some (x', r) /\ Forall2 Qeq x' x.
Proof.
  intros Hf Gl H.
  assert (Hid : forall x0 : list Q, map idQ x0 = x0).
  { intros x0. unfold idQ. apply map_id. }
  destruct Hf as [->|[-> Hl]].
  - destruct (core_mean_sim (phiW c) idQ id_le (fun e _ => Qeq_refl _) (posw_phiW c Hc)
                lvl l x r (wmean_phiW c Hc) Gl H) as (x' & E & HQ).
    exists x'. rewrite Hid in HQ. split; assumption.
  - destruct (core_exp_sim (phiW c) idQ id_le (fun e _ => Qeq_refl _)
                lvl l x r (expectile_phiW c Hc lvl Hl) Gl H) as (x' & E & HQ).
    exists x'. rewrite Hid in HQ. split; assumption.
Qed.

(* ------------------------------------------------------------------ *)
(* From the core to the model function                                  *)
(* ------------------------------------------------------------------ *)

Lemma iso_eval y w inc f lvl f' a x0 r0 :
  pre y w f lvl = IOk (f', a, weights_of y w) ->
  iso_core f' a (dir inc (data y w)) = Some (x0, r0) ->
  isotonic_regression y w inc f lvl =
  IOk (dir inc x0, if inc then r0 else map (fun k => (length x0 - k)%nat) (rev r0)).
Proof.
  intros HP Hcore. rewrite iso_unfold, HP. cbv beta iota.
  assert (E : iso_core f' a (dir inc (combine y (weights_of y w))) = Some (x0, r0)) by exact Hcore.
  rewrite E. destruct inc; reflexivity.
Qed.

Lemma iso_err_inv y w inc f lvl e : isotonic_regression y w inc f lvl = IErr e ->
  pre y w f lvl = IErr e \/
  (exists f' a, pre y w f lvl = IOk (f', a, weights_of y w) /\ y = [] /\ e = EIndex).
Proof.
  intros H. rewrite iso_unfold in H.
  destruct (pre y w f lvl) as [[[f' a] wl]|e0] eqn:HP; [|left; injection H as <-; reflexivity].
  right. destruct (pre_inv y w f lvl f' a wl HP) as (Hc & Hv & -> & _ & _).
  exists f', a. split; [reflexivity|].
  destruct y as [|q y'].
  - split; [reflexivity|].
    destruct (iso_core f' a (dir inc (combine [] (weights_of [] w)))) as [[x0 r0]|];
      cbn [post] in H; [destruct inc; discriminate H| congruence].
  - exfalso.
    assert (Hne : q :: y' <> []) by discriminate.
    destruct (core_total f' a (dir inc (data (q :: y') w)) Hc
                (dir_posw inc _ (data_posw _ w Hv))
                (dir_ne inc _ (data_ne _ w Hne Hv))) as (x0 & r0 & E).
    assert (E' : iso_core f' a (dir inc (combine (q :: y') (weights_of (q :: y') w))) = Some (x0, r0))
      by exact E.
    rewrite E' in H. destruct inc; discriminate H.
Qed.

Lemma iso_empty_err w inc f lvl f' a : pre [] w f lvl = IOk (f', a, weights_of [] w) ->
  isotonic_regression [] w inc f lvl = IErr EIndex.
Proof.
  intros HP. rewrite iso_unfold, HP. cbv beta iota.
  destruct (iso_core f' a (dir inc (combine [] (weights_of [] w)))) as [[x0 r0]|] eqn:E; [|reflexivity].
  exfalso. apply core_ne in E. apply E. destruct inc; reflexivity.
Qed.

(* ---------- positive affine maps of y ---------- *)

Lemma pre_map (g : Q -> Q) y w f lvl : pre (map g y) w f lvl = pre y w f lvl.
Proof. unfold pre. rewrite map_length, map_map. reflexivity. Qed.

Lemma weights_of_map (g : Q -> Q) y w : weights_of (map g y) w = weights_of y w.
Proof. destruct w as [w|]; cbn [weights_of]; [reflexivity| apply map_map]. Qed.

Lemma data_affine a b y w :
  data (map (fun v => a * v + b) y) w = map (phiA a b) (data y w).
Proof. unfold data. rewrite weights_of_map. apply combine_map_l. Qed.

Theorem iso_affine_equivariant : forall y w inc f lvl a b x r, 0 < a ->
  isotonic_regression y w inc f lvl = IOk (x, r) ->
  exists x', isotonic_regression (map (fun v => a * v + b) y) w inc f lvl = IOk (x', r) /\
             Forall2 Qeq x' (map (fun v => a * v + b) x).
Proof.
  intros y w inc f lvl a b x r Ha H.
  destruct (iso_ok_inv y w inc f lvl x r H) as (f' & lv & x0 & r0 & HP & Hc & Hv & _ & Hcore & -> & ->).
  pose proof (dir_posw inc _ (data_posw y w Hv)) as Gl.
  destruct (core_affine a b Ha f' lv _ x0 r0 Hc Gl Hcore) as (x0' & E & HQ).
  rewrite map_dir, <- data_affine in E.
  assert (HP' : pre (map (fun v => a * v + b) y) w f lvl
                = IOk (f', lv, weights_of (map (fun v => a * v + b) y) w)).
  { rewrite pre_map, weights_of_map. exact HP. }
  rewrite (iso_eval _ w inc f lvl f' lv x0' r0 HP' E).
  exists (dir inc x0'). split.
  - rewrite (F2_length _ _ _ _ _ HQ), map_length. reflexivity.
  - rewrite map_dir. apply F2_Qeq_dir. exact HQ.
Qed.

Theorem iso_affine_error : forall y w inc f lvl a b e,
  isotonic_regression y w inc f lvl = IErr e ->
  isotonic_regression (map (fun v => a * v + b) y) w inc f lvl = IErr e.
Proof.
  intros y w inc f lvl a b e H.
  destruct (iso_err_inv y w inc f lvl e H) as [HP|(f' & lv & HP & -> & ->)].
  - rewrite iso_unfold, pre_map, HP. reflexivity.
  - cbn [map]. exact (iso_empty_err w inc f lvl f' lv HP).
Qed.

(* ---------- positive rescaling of the weights ---------- *)

Lemma all_pos_scale c w : 0 < c -> all_pos (map (Qmult c) w) = all_pos w.
Proof.
  intros Hc. unfold all_pos. induction w as [|q w IH]; [reflexivity|].
  cbn [map forallb]. rewrite IH. f_equal. f_equal.
  apply bool_eq_iff. rewrite !Qle_bool_iff. split; intros H; nra.
Qed.

Lemma pre_scale c y w f lvl : 0 < c ->
  pre y (Some (map (Qmult c) w)) f lvl =
  match pre y (Some w) f lvl with
  | IErr e => IErr e
  | IOk (f', a, wl) => IOk (f', a, map (Qmult c) wl)
  end.
Proof.
  intros Hc. unfold pre. rewrite map_length, (all_pos_scale c w Hc).
  destruct f; try reflexivity; cbn [andb];
    try (destruct (Qle_bool lvl 0 || Qle_bool 1 lvl); [reflexivity|]);
    destruct (negb (length y =? length w)%nat); try reflexivity;
    destruct (negb (all_pos w)); reflexivity.
Qed.

Lemma data_scale c y w : data y (Some (map (Qmult c) w)) = map (phiW c) (data y (Some w)).
Proof. unfold data. cbn [weights_of]. apply combine_map_r. Qed.

Theorem iso_weight_scale_invariant : forall y w inc f lvl c x r, 0 < c ->
  isotonic_regression y (Some w) inc f lvl = IOk (x, r) ->
  exists x', isotonic_regression y (Some (map (Qmult c) w)) inc f lvl = IOk (x', r) /\
             Forall2 Qeq x' x.
Proof.
  intros y w inc f lvl c x r Hc H.
  destruct (iso_ok_inv y (Some w) inc f lvl x r H)
    as (f' & lv & x0 & r0 & HP & Hcv & Hv & Hq & Hcore & -> & ->).
  assert (Hf : f' = IFmean \/ (f' = IFexpectile /\ 0 < lv /\ lv < 1)).
  { destruct Hcv as [->|[[-> Hl]|[-> _]]]; [left; reflexivity| right; split; [reflexivity| exact Hl]|].
    specialize (Hq eq_refl). discriminate Hq. }
  pose proof (dir_posw inc _ (data_posw y (Some w) Hv)) as Gl.
  destruct (core_wscale c Hc f' lv _ x0 r0 Hf Gl Hcore) as (x0' & E & HQ).
  rewrite map_dir, <- data_scale in E.
  assert (HP' : pre y (Some (map (Qmult c) w)) f lvl
                = IOk (f', lv, weights_of y (Some (map (Qmult c) w)))).
  { rewrite (pre_scale c y w f lvl Hc), HP. reflexivity. }
  rewrite (iso_eval y _ inc f lvl f' lv x0' r0 HP' E).
  exists (dir inc x0'). split.
  - rewrite (F2_length _ _ _ _ _ HQ). reflexivity.
  - apply F2_Qeq_dir. exact HQ.
Qed.

Theorem iso_weight_scale_error : forall y w inc f lvl c e, 0 < c ->
  isotonic_regression y (Some w) inc f lvl = IErr e ->
  isotonic_regression y (Some (map (Qmult c) w)) inc f lvl = IErr e.
Proof.
  intros y w inc f lvl c e Hc H.
  destruct (iso_err_inv y (Some w) inc f lvl e H) as [HP|(f' & lv & HP & -> & ->)].
  - rewrite iso_unfold, (pre_scale c _ w f lvl Hc), HP. reflexivity.
  - apply (iso_empty_err _ inc f lvl f' lv).
    rewrite (pre_scale c _ w f lvl Hc), HP. reflexivity.
Qed.

(* without weights: weights = None is the same call as all weights equal to one (mean and
   expectile; quantile and median reject any weights argument), so the theorem above also
   covers "None versus constant weights c" through Some (map (fun _ => 1) y). *)
Lemma all_pos_ones (y : list Q) : all_pos (map (fun _ => 1) y) = true.
Proof. unfold all_pos. induction y as [|q y IH]; [reflexivity|]. cbn [map forallb]. exact IH. Qed.

Theorem iso_none_is_ones : forall y inc f lvl, (f = IFmean \/ f = IFexpectile) ->
  isotonic_regression y None inc f lvl =
  isotonic_regression y (Some (map (fun _ => 1) y)) inc f lvl.
Proof.
  intros y inc f lvl Hf. rewrite !iso_unfold.
  assert (E : pre y None f lvl = pre y (Some (map (fun _ => 1) y)) f lvl).
  { unfold pre. rewrite map_length, Nat.eqb_refl, all_pos_ones. cbn [negb].
    destruct Hf as [->| ->]; reflexivity. }
  rewrite E. reflexivity.
Qed.

(* Replication by integer weights: proofs/IsoReplicate.v (iso_replication). *)

(* ------------------------------------------------------------------ *)
(* Non-vacuity                                                          *)
(* ------------------------------------------------------------------ *)

Example ex_affine :
  isotonic_regression [3; 1; 2; 5] (Some [1; 2; 1; 1]) true IFmean 0
    = IOk ([5#3; 5#3; 2; 5], [0; 2; 3; 4]%nat) /\
  isotonic_regression (map (fun v => 2 * v + 1) [3; 1; 2; 5]) (Some [1; 2; 1; 1]) true IFmean 0
    = IOk ([13#3; 13#3; 5; 11], [0; 2; 3; 4]%nat).
Proof. split; vm_compute; reflexivity. Qed.

Print Assumptions gpava_blocks_sim.
Print Assumptions iso_affine_equivariant.
Print Assumptions iso_affine_error.
Print Assumptions iso_weight_scale_invariant.
Print Assumptions iso_weight_scale_error.
Print Assumptions iso_none_is_ones.
