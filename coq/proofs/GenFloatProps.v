(* Structural theorems about the GENERATED binary64 functions (gen/Gen_ident_f.v, gen/Gen_scoring_f.v, printed by
   translate/gen_f.py from /repo's source on every run).  Nothing here uses float algebra: every statement holds
   for EVERY float input (NaN, infinities, signed zeros included) and follows by unfolding the generated
   definitions, evaluating the parameter conditions on literals (kernel primitives) and case analysis on the
   remaining comparisons.  Because the files under proof are regenerated, the proofs are `reflexivity` or
   `unfold; case analysis; reflexivity`.

   What the theorems say, in words
   * identification_function: mean is z - y; median is the quantile at level 0.5; never FNotExpr; total on the four
     functionals when 0 < level < 1 (float comparisons); ValueError for an unknown functional and for a level outside
     (0, 1) of expectile / quantile.
   * SquaredError / HomogeneousExpectileScore(degree = 2): a value for every input; explicit term.
   * PinballLoss / HomogeneousQuantileScore(degree = 1): a value for every input; explicit terms.
   * ElementaryScore: median = quantile at level 0.5 as float functions; explicit term for the mean; total on the four
     functionals; ValueError for an unknown functional.
   * constructors: ValueError iff level <= 0 or level >= 1 (float comparisons).
   * exactly these are expressible: the other degrees of the two homogeneous scores and LogLoss never yield a value
     (ValueError guards in front of them are still modelled: PoissonDeviance, GammaDeviance). *)
From Coq Require Import PrimFloat Bool.
From MD Require Import lib.NumpyF gen.Gen_ident_f gen.Gen_scoring_f.
Open Scope float_scope.

Ltac case_ifs :=
  repeat match goal with |- context [if ?c then _ else _] => destruct c end.

(* level guard shared by the constructors and by identification_function *)
Definition level_out (level : float) : bool := f_leb level 0 || f_leb 1 level.

(* ------------------------------------------------------------------ identification_function *)
Theorem gen_V_f_mean : forall level y z, gen_V_f Fmean level y z = FVal (z - y).
Proof. reflexivity. Qed.

Theorem gen_V_f_median : forall level y z, gen_V_f Fmedian level y z = FVal (ge_ind_f z y - 0x1p-1).
Proof. reflexivity. Qed.

Theorem gen_V_f_median_is_quantile_half :
  forall level y z, gen_V_f Fmedian level y z = gen_V_f Fquantile 0x1p-1 y z.
Proof. reflexivity. Qed.

Theorem gen_V_f_quantile : forall level y z, level_out level = false ->
  gen_V_f Fquantile level y z = FVal (ge_ind_f z y - level).
Proof.
  intros level y z H.
  assert (G : gen_V_f Fquantile level y z
              = if level_out level then FValueErr else FVal (ge_ind_f z y - level)) by reflexivity.
  rewrite G, H. reflexivity.
Qed.

Theorem gen_V_f_expectile : forall level y z, level_out level = false ->
  gen_V_f Fexpectile level y z = FVal (2 * np_abs_f (ge_ind_f z y - level) * (z - y)).
Proof.
  intros level y z H.
  assert (G : gen_V_f Fexpectile level y z
              = if level_out level then FValueErr else FVal (2 * np_abs_f (ge_ind_f z y - level) * (z - y)))
    by reflexivity.
  rewrite G, H. reflexivity.
Qed.

Theorem gen_V_f_level_guard : forall f level y z, f = Fexpectile \/ f = Fquantile ->
  level_out level = true -> gen_V_f f level y z = FValueErr.
Proof.
  intros f level y z [Hf | Hf] H; subst f.
  - assert (G : gen_V_f Fexpectile level y z
                = if level_out level then FValueErr else FVal (2 * np_abs_f (ge_ind_f z y - level) * (z - y)))
      by reflexivity.
    rewrite G, H. reflexivity.
  - assert (G : gen_V_f Fquantile level y z
                = if level_out level then FValueErr else FVal (ge_ind_f z y - level)) by reflexivity.
    rewrite G, H. reflexivity.
Qed.

Theorem gen_V_f_unknown_functional : forall level y z, gen_V_f Fother level y z = FValueErr.
Proof. reflexivity. Qed.

Theorem gen_V_f_never_notexpr : forall f level y z, gen_V_f f level y z <> FNotExpr.
Proof.
  intros f level y z. unfold gen_V_f. destruct f; cbn [fun_eqb orb andb]; case_ifs; discriminate.
Qed.

Theorem gen_V_f_total : forall f level y z, f <> Fother -> level_out level = false ->
  is_val (gen_V_f f level y z) = true.
Proof.
  intros f level y z Hf H. unfold level_out in H. unfold gen_V_f. rewrite H.
  destruct f; cbn [fun_eqb orb andb is_val]; try reflexivity. contradiction Hf; reflexivity.
Qed.

(* ------------------------------------------------------------------ constructors *)
Theorem gen_hes_init_f_spec : forall degree level,
  gen_hes_init_f degree level = if level_out level then FValueErr else FVal 0.
Proof. reflexivity. Qed.

Theorem gen_hqs_init_f_spec : forall degree level,
  gen_hqs_init_f degree level = if level_out level then FValueErr else FVal 0.
Proof. reflexivity. Qed.

Theorem gen_elem_init_f_spec : forall eta f level,
  gen_elem_init_f eta f level = if level_out level then FValueErr else FVal 0.
Proof. reflexivity. Qed.

Theorem gen_SquaredError_init_f_ok : gen_SquaredError_init_f = FVal 0.
Proof. reflexivity. Qed.

(* ------------------------------------------------------------------ squared error: degree 2 *)
Theorem gen_SquaredError_spo_f_eq : forall y z, gen_SquaredError_spo_f y z = FVal ((z - y) * (z - y)).
Proof. reflexivity. Qed.

Theorem gen_hes_spo_f_degree2 : forall level y z,
  gen_hes_spo_f 2 level y z =
    if f_eqb level 0x1p-1 then FVal ((z - y) * (z - y))
    else FVal (2 * np_abs_f (ge_ind_f z y - level) * ((z - y) * (z - y))).
Proof. reflexivity. Qed.

Theorem gen_hes_spo_f_degree2_total : forall level y z, is_val (gen_hes_spo_f 2 level y z) = true.
Proof. intros. rewrite gen_hes_spo_f_degree2. case_ifs; reflexivity. Qed.

(* every other degree needs np.power / np.log / xlogy: never a value *)
Theorem gen_hes_spo_f_other_degrees : forall degree level y z, f_eqb degree 2 = false ->
  is_val (gen_hes_spo_f degree level y z) = false.
Proof.
  intros degree level y z H. unfold gen_hes_spo_f. rewrite H. case_ifs; reflexivity.
Qed.

(* ... but the domain guards in front of them are modelled *)
Theorem gen_PoissonDeviance_spo_f_eq : forall y z,
  gen_PoissonDeviance_spo_f y z = if negb (f_leb 0 y && f_ltb 0 z) then FValueErr else FNotExpr.
Proof. intros. unfold gen_PoissonDeviance_spo_f. lazy. case_ifs; reflexivity. Qed.

Theorem gen_GammaDeviance_spo_f_eq : forall y z,
  gen_GammaDeviance_spo_f y z = if negb (f_ltb 0 y && f_ltb 0 z) then FValueErr else FNotExpr.
Proof. intros. unfold gen_GammaDeviance_spo_f. lazy. case_ifs; reflexivity. Qed.

(* ------------------------------------------------------------------ pinball loss: degree 1 *)
Theorem gen_PinballLoss_spo_f_is_hqs1 : forall level, gen_PinballLoss_spo_f level = gen_hqs_spo_f 1 level.
Proof. reflexivity. Qed.

Theorem gen_hqs_spo_f_degree1 : forall level y z,
  gen_hqs_spo_f 1 level y z =
    if f_eqb level 0x1p-1 then FVal (0x1p-1 * np_abs_f (z - y))
    else FVal ((ge_ind_f z y - level) * (z - y)).
Proof. reflexivity. Qed.

Theorem gen_hqs_spo_f_degree1_total : forall level y z, is_val (gen_hqs_spo_f 1 level y z) = true.
Proof. intros. rewrite gen_hqs_spo_f_degree1. case_ifs; reflexivity. Qed.

Theorem gen_PinballLoss_spo_f_half : forall y z,
  gen_PinballLoss_spo_f 0x1p-1 y z = FVal (0x1p-1 * np_abs_f (z - y)).
Proof. reflexivity. Qed.

Theorem gen_hqs_spo_f_other_degrees : forall degree level y z, f_eqb degree 1 = false ->
  is_val (gen_hqs_spo_f degree level y z) = false.
Proof.
  intros degree level y z H. unfold gen_hqs_spo_f. rewrite H. case_ifs; reflexivity.
Qed.

(* odd degree > 1: no domain, so never ValueError either (the parameter condition uses Python's float %) *)
Theorem gen_hqs_spo_f_degree3 : forall level y z, gen_hqs_spo_f 3 level y z = FNotExpr.
Proof. intros. unfold gen_hqs_spo_f. lazy. case_ifs; reflexivity. Qed.

(* ------------------------------------------------------------------ elementary score *)
Theorem gen_elem_spo_f_median_is_quantile_half : forall eta level y z,
  gen_elem_spo_f eta Fmedian level y z = gen_elem_spo_f eta Fquantile 0x1p-1 y z.
Proof. reflexivity. Qed.

Theorem gen_elem_spo_f_mean : forall eta level y z,
  gen_elem_spo_f eta Fmean level y z = FVal ((le_ind_f eta z - le_ind_f eta y) * (eta - y)).
Proof. reflexivity. Qed.

Theorem gen_elem_spo_f_median : forall eta level y z,
  gen_elem_spo_f eta Fmedian level y z = FVal ((lt_ind_f eta z - lt_ind_f eta y) * (ge_ind_f eta y - 0x1p-1)).
Proof. reflexivity. Qed.

Theorem gen_elem_spo_f_quantile : forall eta level y z, level_out level = false ->
  gen_elem_spo_f eta Fquantile level y z = FVal ((lt_ind_f eta z - lt_ind_f eta y) * (ge_ind_f eta y - level)).
Proof.
  intros eta level y z H.
  assert (G : gen_elem_spo_f eta Fquantile level y z
              = fres_bind (gen_V_f Fquantile level y eta)
                  (fun r => FVal ((lt_ind_f eta z - lt_ind_f eta y) * r))) by reflexivity.
  rewrite G, (gen_V_f_quantile level y eta H). reflexivity.
Qed.

Theorem gen_elem_spo_f_expectile : forall eta level y z, level_out level = false ->
  gen_elem_spo_f eta Fexpectile level y z
  = FVal ((le_ind_f eta z - le_ind_f eta y) * (2 * np_abs_f (ge_ind_f eta y - level) * (eta - y))).
Proof.
  intros eta level y z H.
  assert (G : gen_elem_spo_f eta Fexpectile level y z
              = fres_bind (gen_V_f Fexpectile level y eta)
                  (fun r => FVal ((le_ind_f eta z - le_ind_f eta y) * r))) by reflexivity.
  rewrite G, (gen_V_f_expectile level y eta H). reflexivity.
Qed.

Theorem gen_elem_spo_f_unknown_functional : forall eta level y z,
  gen_elem_spo_f eta Fother level y z = FValueErr.
Proof. reflexivity. Qed.

Theorem gen_elem_spo_f_total : forall eta f level y z, f <> Fother -> level_out level = false ->
  is_val (gen_elem_spo_f eta f level y z) = true.
Proof.
  intros eta f level y z Hf H. destruct f.
  - rewrite gen_elem_spo_f_mean. reflexivity.
  - rewrite gen_elem_spo_f_median. reflexivity.
  - rewrite (gen_elem_spo_f_expectile _ _ _ _ H). reflexivity.
  - rewrite (gen_elem_spo_f_quantile _ _ _ _ H). reflexivity.
  - contradiction Hf; reflexivity.
Qed.

Theorem gen_elem_spo_f_never_notexpr : forall eta f level y z, gen_elem_spo_f eta f level y z <> FNotExpr.
Proof.
  intros eta f level y z. unfold gen_elem_spo_f, gen_elem_functional_f.
  destruct f; cbn [fun_eqb orb]; cbv zeta;
    (destruct (gen_V_f _ level y eta) eqn:E;
     [ discriminate | discriminate | exfalso; exact (gen_V_f_never_notexpr _ _ _ _ E) ]).
Qed.

(* ------------------------------------------------------------------ log loss *)
Theorem gen_logloss_spo_f_not_expressible : forall y z any1, gen_logloss_spo_f y z any1 = FNotExpr.
Proof. intros. unfold gen_logloss_spo_f. case_ifs; reflexivity. Qed.

(* the hypotheses are satisfiable: a concrete evaluation *)
Example level_out_example : level_out 0x1.999999999999ap-4 = false /\ level_out 1 = true /\ level_out (-0) = true.
Proof. repeat split; reflexivity. Qed.

Example pinball_example :
  gen_PinballLoss_spo_f 0x1.999999999999ap-4 1 3 = FVal 0x1.ccccccccccccdp+0.   (* (1 - 0.1) * 2 = 1.8 *)
Proof. reflexivity. Qed.

Print Assumptions gen_V_f_mean.
Print Assumptions gen_V_f_median_is_quantile_half.
Print Assumptions gen_V_f_level_guard.
Print Assumptions gen_V_f_never_notexpr.
Print Assumptions gen_V_f_total.
Print Assumptions gen_hes_init_f_spec.
Print Assumptions gen_SquaredError_spo_f_eq.
Print Assumptions gen_hes_spo_f_degree2_total.
Print Assumptions gen_hes_spo_f_other_degrees.
Print Assumptions gen_PoissonDeviance_spo_f_eq.
Print Assumptions gen_GammaDeviance_spo_f_eq.
Print Assumptions gen_hqs_spo_f_degree1.
Print Assumptions gen_hqs_spo_f_degree1_total.
Print Assumptions gen_hqs_spo_f_other_degrees.
Print Assumptions gen_hqs_spo_f_degree3.
Print Assumptions gen_elem_spo_f_median_is_quantile_half.
Print Assumptions gen_elem_spo_f_mean.
Print Assumptions gen_elem_spo_f_total.
Print Assumptions gen_elem_spo_f_never_notexpr.
Print Assumptions gen_logloss_spo_f_not_expressible.
Print Assumptions pinball_example.
