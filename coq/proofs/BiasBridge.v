(* Tie of the rational identification function used by the table models
   (model/Bias.v Vq: compute_bias, compute_marginal, plots) to the identification function
   TRANSLATED FROM SOURCE (gen/Gen_ident.v gen_V, regenerated from identification.py on every
   run): on rational arguments gen_V returns exactly the embedding of Vq, and raises
   ValueError exactly when the model's level guard fires.  A change of
   identification_function that changes its value anywhere breaks bridge_V (C08) and hence
   this file, so the table models of C09 / C10 / C19 cannot silently drift from the code. *)
From Coq Require Import Reals QArith Qabs Qreals Lra List Bool.
Import ListNotations.
From MD Require Import lib.NumpyR lib.QLists spec.Scores model.Functionals model.Binning model.Bias
  theory.InstExpectile gen.Gen_ident bridge.Bridge_scoring proofs.IdentProps.
Open Scope R_scope.

Definition fnl_of (f : functional) : fnl :=
  match f with FMean => Fmean | FMedian => Fmedian | FExpectile => Fexpectile | FQuantile => Fquantile end.

Lemma Q2R_Qabs (x : Q) : Q2R (Qabs x) = Rabs (Q2R x).
Proof.
  destruct (Qlt_le_dec x 0) as [H|H].
  - rewrite Qabs_neg by (apply Qlt_le_weak; exact H).
    rewrite Q2R_opp. apply Qlt_Rlt in H. change (Q2R 0) with (Q2R 0%Q) in H.
    assert (E0 : Q2R 0%Q = 0) by (unfold Q2R; simpl; lra). rewrite E0 in H.
    rewrite Rabs_left by exact H. reflexivity.
  - rewrite Qabs_pos by exact H. apply Qle_Rle in H.
    assert (E0 : Q2R 0%Q = 0) by (unfold Q2R; simpl; lra). rewrite E0 in H.
    rewrite Rabs_right by lra. reflexivity.
Qed.

Lemma ge_indq_R (z y : Q) : Q2R (ge_indq z y) = ge_ind (Q2R z) (Q2R y).
Proof.
  rewrite ge_ind_Q. unfold ge_indq. destruct (leb y z).
  - unfold Q2R; simpl; lra.
  - unfold Q2R; simpl; lra.
Qed.

Lemma Q2R_half : Q2R (1 # 2) = 1 / 2.
Proof. unfold Q2R; simpl; lra. Qed.

Lemma level_bad_okb (f : functional) (a : Q) :
  match f with FExpectile | FQuantile => level_bad f a = negb (level_okb (Q2R a)) | _ => level_bad f a = false end.
Proof.
  assert (E0 : Q2R 0%Q = 0) by (unfold Q2R; simpl; lra).
  assert (E1 : Q2R 1%Q = 1) by (unfold Q2R; simpl; lra).
  destruct f; try reflexivity; unfold level_bad, level_okb.
  all: destruct (leb_spec a 0) as [[H E]|[H E]]; rewrite E;
       destruct (leb_spec 1 a) as [[H' E']|[H' E']]; rewrite E'; cbn [orb negb];
       try apply Qle_Rle in H; try apply Qlt_Rlt in H; try apply Qle_Rle in H'; try apply Qlt_Rlt in H';
       rewrite ?E0, ?E1 in *.
  all: try (rewrite (proj2 (Rltb_false 0 (Q2R a))) by lra; reflexivity).
  all: try (rewrite (proj2 (Rltb_true 0 (Q2R a))) by lra;
            first [ rewrite (proj2 (Rltb_false (Q2R a) 1)) by lra; reflexivity
                  | rewrite (proj2 (Rltb_true (Q2R a) 1)) by lra; reflexivity ]).
Qed.

(* the generated identification function on rational arguments IS Vq *)
Theorem Vq_is_generated : forall f a y z, level_bad f a = false ->
  gen_V (fnl_of f) (Q2R a) (Q2R y) (Q2R z) = Ok (Q2R (Vq f a y z)).
Proof.
  intros f a y z Hl. rewrite bridge_V.
  pose proof (level_bad_okb f a) as Hb.
  destruct f; cbn [fnl_of spec_V Vq].
  - rewrite Q2R_minus. reflexivity.
  - rewrite Q2R_minus, ge_indq_R, Q2R_half. reflexivity.
  - rewrite Hl in Hb. destruct (level_okb (Q2R a)); [|discriminate Hb].
    unfold Scores.V_expectile, kfac.
    rewrite !Q2R_mult, Q2R_Qabs, !Q2R_minus, ge_indq_R, Q2R_2. reflexivity.
  - rewrite Hl in Hb. destruct (level_okb (Q2R a)); [|discriminate Hb].
    unfold Scores.V_quantile. rewrite Q2R_minus, ge_indq_R. reflexivity.
Qed.

(* ... and raises ValueError exactly when the model's level guard fires *)
Theorem level_guard_is_generated : forall f a y z, level_bad f a = true ->
  gen_V (fnl_of f) (Q2R a) (Q2R y) (Q2R z) = ValueErr.
Proof.
  intros f a y z Hl. rewrite bridge_V.
  pose proof (level_bad_okb f a) as Hb.
  destruct f; cbn [fnl_of spec_V]; try (rewrite Hl in Hb; discriminate Hb).
  - rewrite Hl in Hb. destruct (level_okb (Q2R a)); [discriminate Hb| reflexivity].
  - rewrite Hl in Hb. destruct (level_okb (Q2R a)); [discriminate Hb| reflexivity].
Qed.

Print Assumptions Vq_is_generated.
Print Assumptions level_guard_is_generated.
