(* The binary64 twin model/PavaFloat.v agrees with the rational model
   model/Pava.v on every run in which no operation rounds.

   A float is embedded into Q through `Prim2SF` (FloatOps; no axiom): `F2Q` is the
   exact value of a finite double.  `exact_run y w` is a BOOLEAN predicate on the
   run of the twin (so it can be evaluated with vm_compute on a concrete input):
   it follows the loops of `pava_f` and checks, for every single operation the
   twin performs,
     - the result is finite and its value is the exact rational result of the
       operation on the values of the operands (no rounding, no overflow), and
     - every comparison `a >= b` is decided like the rational comparison of the
       values.
   Theorem `pava_f_exact_agrees`: if `exact_run y w = true`, the rational model run
   on the values of the inputs returns the values of the twin's x (pointwise ==)
   and exactly the twin's block vector r.

   No float algebra is assumed: the IEEE facts "an operation that does not round
   returns the exact result" and "comparison of finite doubles is comparison of
   their values" are part of the checked predicate, not of the theorem.  (Stating
   them unconditionally needs FloatAxioms.add_spec etc., which are axioms.) *)
From Coq Require Import PrimFloat FloatOps SpecFloat ZArith QArith Qreduction List Bool Lia Setoid Morphisms.
Import ListNotations.
From MD Require Import lib.QLists model.Pava model.PavaFloat proofs.PavaFloatProps.
Open Scope Q_scope.

(* ------------------------------------------------------------------ *)
(* exact value of a double                                             *)
(* ------------------------------------------------------------------ *)
Definition SF2Q (s : spec_float) : option Q :=
  match s with
  | S754_zero _ => Some 0
  | S754_finite sg m e =>
      let mz := if sg then Zneg m else Zpos m in
      Some (match e with
            | Z0 => inject_Z mz
            | Zpos p => inject_Z (mz * Z.pow_pos 2 p)
            | Zneg p => Qmake mz (Pos.pow 2 p)
            end)
  | _ => None
  end.
Definition F2Q (f : float) : option Q := SF2Q (Prim2SF f).
Definition fin (f : float) : bool := match F2Q f with Some _ => true | None => false end.
Definition val (f : float) : Q := match F2Q f with Some x => x | None => 0 end.

(* f is a finite double of value q *)
Definition rep (f : float) (q : Q) : Prop := fin f = true /\ val f == q.

Lemma rep_val f : fin f = true -> rep f (val f).
Proof. intros H. split; [exact H|reflexivity]. Qed.

Lemma rep_eq f q q' : rep f q -> q == q' -> rep f q'.
Proof. intros [H1 H2] E. split; [exact H1|]. rewrite H2. exact E. Qed.

(* ------------------------------------------------------------------ *)
(* the checks on single operations                                     *)
(* ------------------------------------------------------------------ *)
Definition add_ok (a b : float) : bool :=
  fin (PrimFloat.add a b) && Qeq_bool (val (PrimFloat.add a b)) (val a + val b).
Definition mul_ok (a b : float) : bool :=
  fin (PrimFloat.mul a b) && Qeq_bool (val (PrimFloat.mul a b)) (val a * val b).
Definition div_ok (a b : float) : bool :=
  fin (PrimFloat.div a b) && Qeq_bool (val (PrimFloat.div a b)) (val a / val b).
Definition ge_ok (a b : float) : bool :=
  Bool.eqb (fge a b) (Qle_bool (val b) (val a)).

Lemma add_ok_rep a b qa qb : add_ok a b = true -> rep a qa -> rep b qb -> rep (PrimFloat.add a b) (qa + qb).
Proof.
  unfold add_ok. intros H [_ Ha] [_ Hb]. apply andb_prop in H. destruct H as [H1 H2].
  apply Qeq_bool_iff in H2. split; [exact H1|]. rewrite H2, Ha, Hb. reflexivity.
Qed.

Lemma mul_ok_rep a b qa qb : mul_ok a b = true -> rep a qa -> rep b qb -> rep (PrimFloat.mul a b) (qa * qb).
Proof.
  unfold mul_ok. intros H [_ Ha] [_ Hb]. apply andb_prop in H. destruct H as [H1 H2].
  apply Qeq_bool_iff in H2. split; [exact H1|]. rewrite H2, Ha, Hb. reflexivity.
Qed.

Lemma div_ok_rep a b qa qb : div_ok a b = true -> rep a qa -> rep b qb -> rep (PrimFloat.div a b) (qdiv qa qb).
Proof.
  unfold div_ok, qdiv. intros H [_ Ha] [_ Hb]. apply andb_prop in H. destruct H as [H1 H2].
  apply Qeq_bool_iff in H2. split; [exact H1|]. rewrite H2, Ha, Hb, Qred_correct. reflexivity.
Qed.

Lemma ge_ok_rep a b qa qb : ge_ok a b = true -> rep a qa -> rep b qb -> fge a b = pgeb qa qb.
Proof.
  unfold ge_ok, pgeb. intros H [_ Ha] [_ Hb]. apply eqb_prop in H. rewrite H.
  apply Qleb_comp; assumption.
Qed.

(* ------------------------------------------------------------------ *)
(* the checked run: same recursion as fup / fdown / fstep / floop       *)
(* ------------------------------------------------------------------ *)
Fixpoint fup_ok (sb wb xb : float) (rest : list felt) : bool :=
  match rest with
  | (y1, w1) :: rest' =>
      ge_ok xb y1 &&
      (if fge xb y1 then
         let p := PrimFloat.mul w1 y1 in
         let sb' := PrimFloat.add sb p in
         let wb' := PrimFloat.add wb w1 in
         mul_ok w1 y1 && add_ok sb p && add_ok wb w1 && div_ok sb' wb' &&
         fup_ok sb' wb' (PrimFloat.div sb' wb') rest'
       else true)
  | [] => true
  end.

Fixpoint fdown_ok (sb wb xb : float) (stk : list fblk) : bool :=
  match stk with
  | p :: stk' =>
      ge_ok (fv p) xb &&
      (if fge (fv p) xb then
         let q := PrimFloat.mul (fw p) (fv p) in
         let sb' := PrimFloat.add sb q in
         let wb' := PrimFloat.add wb (fw p) in
         mul_ok (fw p) (fv p) && add_ok sb q && add_ok wb (fw p) && div_ok sb' wb' &&
         fdown_ok sb' wb' (PrimFloat.div sb' wb') stk'
       else true)
  | [] => true
  end.

Definition fstep_ok (stk : list fblk) (e : felt) (rest : list felt) : bool :=
  let '(y1, w1) := e in
  match stk with
  | [] => true
  | p :: stk' =>
      ge_ok (fv p) y1 &&
      (if fge (fv p) y1 then
         let a := PrimFloat.mul (fw p) (fv p) in
         let b := PrimFloat.mul w1 y1 in
         let sb := PrimFloat.add a b in
         let wb := PrimFloat.add w1 (fw p) in
         let xb := PrimFloat.div sb wb in
         mul_ok (fw p) (fv p) && mul_ok w1 y1 && add_ok a b && add_ok w1 (fw p) && div_ok sb wb &&
         fup_ok sb wb xb rest &&
         (let '(sb1, wb1, xb1, n1, rest1) := fup sb wb xb (S (fn p)) rest in fdown_ok sb1 wb1 xb1 stk')
       else true)
  end.

Fixpoint floop_ok (fuel : nat) (stk : list fblk) (rest : list felt) : bool :=
  match rest with
  | [] => true
  | e :: rest' =>
      match fuel with
      | O => true
      | S fuel' =>
          fstep_ok stk e rest' &&
          (let '(stk1, rest1) := fstep stk e rest' in floop_ok fuel' stk1 rest1)
      end
  end.

(* every input is finite and no operation of the run rounds *)
Definition exact_run (y w : list float) : bool :=
  forallb fin y && forallb fin w && floop_ok (length (combine y w)) [] (combine y w).

(* ------------------------------------------------------------------ *)
(* simulation                                                          *)
(* ------------------------------------------------------------------ *)
Definition erel (e : felt) (qe : elt) : Prop := rep (fst e) (ey qe) /\ rep (snd e) (ew qe).
Definition brel (b : fblk) (qb : pblk) : Prop := rep (fv b) (pv qb) /\ rep (fw b) (pw qb) /\ fn b = pn qb.

Definition qup := pup pgeb l_wadd l_sadd qdiv.
Definition qdown := pdown pgeb l_wadd l_sadd qdiv.
Definition qstep := pstep pgeb pgeb pgeb l_sb0 l_wadd l_sadd qdiv.
Definition qloop := ploop pgeb pgeb pgeb l_sb0 l_wadd l_sadd qdiv.

Definition ures (fr : float * float * float * nat * list felt) (qr : Q * Q * nat * list elt) : Prop :=
  let '(sb, wb, xb, n, rest) := fr in
  let '(qsb, qwb, qn, qrest) := qr in
  rep sb qsb /\ rep wb qwb /\ rep xb (qdiv qsb qwb) /\ n = qn /\ Forall2 erel rest qrest.

Definition dres (fr : float * float * float * nat * list fblk) (qr : Q * Q * nat * list pblk) : Prop :=
  let '(sb, wb, xb, n, stk) := fr in
  let '(qsb, qwb, qn, qstk) := qr in
  rep sb qsb /\ rep wb qwb /\ rep xb (qdiv qsb qwb) /\ n = qn /\ Forall2 brel stk qstk.

Lemma sadd_rep sb w x qsb qw qx :
  mul_ok w x = true -> add_ok sb (PrimFloat.mul w x) = true ->
  rep sb qsb -> rep w qw -> rep x qx ->
  rep (PrimFloat.add sb (PrimFloat.mul w x)) (l_sadd qsb qw qx).
Proof.
  intros M A Hs Hw Hx. unfold l_sadd.
  apply (rep_eq _ (qsb + qw * qx)); [|symmetry; apply Qred_correct].
  apply add_ok_rep; [exact A|exact Hs|]. apply mul_ok_rep; assumption.
Qed.

Lemma wadd_rep a b qa qb : add_ok a b = true -> rep a qa -> rep b qb -> rep (PrimFloat.add a b) (l_wadd qa qb).
Proof.
  intros A Ha Hb. unfold l_wadd. apply (rep_eq _ (qa + qb)); [|symmetry; apply Qred_correct].
  apply add_ok_rep; assumption.
Qed.

Ltac and_r H K := apply andb_prop in H; destruct H as [H K].

Lemma fup_sim : forall rest qrest sb wb xb n qsb qwb,
  Forall2 erel rest qrest -> rep sb qsb -> rep wb qwb -> rep xb (qdiv qsb qwb) ->
  fup_ok sb wb xb rest = true ->
  ures (fup sb wb xb n rest) (qup qsb qwb n qrest).
Proof.
  induction rest as [|[y1 w1] rest IH]; intros qrest sb wb xb n qsb qwb HR Hs Hw Hx Hok;
    inversion HR as [|e0 qe l0 qrest' He HR']; subst.
  - cbn. split; [exact Hs|]. split; [exact Hw|]. split; [exact Hx|]. split; [reflexivity|constructor].
  - destruct He as [Hy Hw1]. cbn [fst snd] in Hy, Hw1.
    cbn [fup_ok] in Hok. apply andb_prop in Hok. destruct Hok as [Hg Hok].
    unfold qup. cbn [fup pup]. fold qup.
    rewrite <- (ge_ok_rep xb y1 _ _ Hg Hx Hy).
    destruct (fge xb y1) eqn:E.
    + and_r Hok KF. and_r Hok KD. and_r Hok KA2. and_r Hok KA1.
      assert (Hs' : rep (PrimFloat.add sb (PrimFloat.mul w1 y1)) (l_sadd qsb (ew qe) (ey qe)))
        by (apply sadd_rep; assumption).
      assert (Hw' : rep (PrimFloat.add wb w1) (l_wadd qwb (ew qe))) by (apply wadd_rep; assumption).
      apply IH; [exact HR'|exact Hs'|exact Hw'|apply div_ok_rep; assumption|exact KF].
    + cbn. split; [exact Hs|]. split; [exact Hw|]. split; [exact Hx|]. split; [reflexivity|].
      constructor; [split; assumption|exact HR'].
Qed.

Lemma fdown_sim : forall stk qstk sb wb xb n qsb qwb,
  Forall2 brel stk qstk -> rep sb qsb -> rep wb qwb -> rep xb (qdiv qsb qwb) ->
  fdown_ok sb wb xb stk = true ->
  dres (fdown sb wb xb n stk) (qdown qsb qwb n qstk).
Proof.
  induction stk as [|p stk IH]; intros qstk sb wb xb n qsb qwb HR Hs Hw Hx Hok;
    inversion HR as [|p0 qp l0 qstk' Hp HR']; subst.
  - cbn. split; [exact Hs|]. split; [exact Hw|]. split; [exact Hx|]. split; [reflexivity|constructor].
  - destruct Hp as (Hv & Hpw & Hn).
    cbn [fdown_ok] in Hok. apply andb_prop in Hok. destruct Hok as [Hg Hok].
    unfold qdown. cbn [fdown pdown]. fold qdown.
    rewrite <- (ge_ok_rep (fv p) xb _ _ Hg Hv Hx).
    destruct (fge (fv p) xb) eqn:E.
    + and_r Hok KF. and_r Hok KD. and_r Hok KA2. and_r Hok KA1.
      rewrite Hn.
      assert (Hs' : rep (PrimFloat.add sb (PrimFloat.mul (fw p) (fv p))) (l_sadd qsb (pw qp) (pv qp)))
        by (apply sadd_rep; assumption).
      assert (Hw' : rep (PrimFloat.add wb (fw p)) (l_wadd qwb (pw qp))) by (apply wadd_rep; assumption).
      apply IH; [exact HR'|exact Hs'|exact Hw'|apply div_ok_rep; assumption|exact KF].
    + cbn. split; [exact Hs|]. split; [exact Hw|]. split; [exact Hx|]. split; [reflexivity|].
      constructor; [split; [exact Hv|split; [exact Hpw|exact Hn]]|exact HR'].
Qed.

Definition sres (fr : list fblk * list felt) (qr : list pblk * list elt) : Prop :=
  Forall2 brel (fst fr) (fst qr) /\ Forall2 erel (snd fr) (snd qr).

Lemma fstep_sim stk qstk e qe rest qrest :
  Forall2 brel stk qstk -> erel e qe -> Forall2 erel rest qrest ->
  fstep_ok stk e rest = true ->
  sres (fstep stk e rest) (qstep qstk qe qrest).
Proof.
  intros HS He HR Hok. destruct e as [y1 w1]. destruct He as [Hy Hw1]. cbn [fst snd] in Hy, Hw1.
  unfold qstep, pstep, fstep. fold qup qdown.
  inversion HS as [|p qp stk' qstk' Hp HS']; subst.
  - split; cbn [fst snd]; [|exact HR]. constructor; [|constructor].
    split; [exact Hy|split; [exact Hw1|reflexivity]].
  - destruct Hp as (Hv & Hpw & Hn).
    unfold fstep_ok in Hok. apply andb_prop in Hok. destruct Hok as [Hg Hok].
    rewrite <- (ge_ok_rep (fv p) y1 _ _ Hg Hv Hy).
    destruct (fge (fv p) y1) eqn:E.
    + and_r Hok Kd. and_r Hok K0. and_r Hok K. and_r Hok KAW. and_r Hok K1. and_r Hok KM2.
      assert (Hsb : rep (PrimFloat.add (PrimFloat.mul (fw p) (fv p)) (PrimFloat.mul w1 y1))
                        (l_sb0 (pw qp) (pv qp) (ew qe) (ey qe))).
      { unfold l_sb0. apply (rep_eq _ (pw qp * pv qp + ew qe * ey qe)); [|symmetry; apply Qred_correct].
        apply add_ok_rep; [exact K1| |]; apply mul_ok_rep; assumption. }
      assert (Hwb : rep (PrimFloat.add w1 (fw p)) (l_wadd (ew qe) (pw qp))) by (apply wadd_rep; assumption).
      pose proof (div_ok_rep _ _ _ _ K Hsb Hwb) as Hxb.
      pose proof (fup_sim rest qrest _ _ _ (S (fn p)) _ _ HR Hsb Hwb Hxb K0) as U.
      rewrite Hn in U at 2.
      destruct (fup _ _ _ (S (fn p)) rest) as [[[[sb1 wb1] xb1] n1] rest1].
      destruct (qup _ _ (S (pn qp)) qrest) as [[[qsb1 qwb1] qn1] qrest1].
      destruct U as (U1 & U2 & U3 & U4 & U5). subst qn1.
      pose proof (fdown_sim stk' qstk' sb1 wb1 xb1 n1 _ _ HS' U1 U2 U3 Kd) as D.
      destruct (fdown sb1 wb1 xb1 n1 stk') as [[[[sb2 wb2] xb2] n2] stk2].
      destruct (qdown qsb1 qwb1 n1 qstk') as [[[qsb2 qwb2] qn2] qstk2].
      destruct D as (D1 & D2 & D3 & D4 & D5). subst qn2.
      split; cbn [fst snd]; [|exact U5].
      constructor; [|exact D5]. split; [exact D3|split; [exact D2|reflexivity]].
    + split; cbn [fst snd]; [|exact HR].
      constructor; [split; [exact Hy|split; [exact Hw1|reflexivity]]|].
      constructor; [split; [exact Hv|split; [exact Hpw|exact Hn]]|exact HS'].
Qed.

Lemma Forall2_length_eq {A B} (R : A -> B -> Prop) l l' : Forall2 R l l' -> length l = length l'.
Proof. induction 1; cbn; congruence. Qed.

Lemma floop_sim : forall fuel stk qstk rest qrest,
  Forall2 brel stk qstk -> Forall2 erel rest qrest ->
  floop_ok fuel stk rest = true ->
  match floop fuel stk rest, qloop fuel qstk qrest with
  | Some s, Some qs => Forall2 brel s qs
  | None, None => True
  | _, _ => False
  end.
Proof.
  induction fuel as [|fuel IH]; intros stk qstk rest qrest HS HR Hok;
    inversion HR as [|e qe rest' qrest' He HR']; subst; unfold qloop; cbn [floop ploop]; fold qloop.
  - exact HS.
  - exact I.
  - exact HS.
  - cbn [floop_ok] in Hok. apply andb_prop in Hok. destruct Hok as [K1 K2].
    pose proof (fstep_sim stk qstk e qe rest' qrest' HS He HR' K1) as S1.
    fold qstep.
    destruct (fstep stk e rest') as [stk1 rest1]. destruct (qstep qstk qe qrest') as [qstk1 qrest1].
    destruct S1 as [S1 S2]. cbn [fst snd] in S1, S2.
    apply IH; assumption.
Qed.

(* ------------------------------------------------------------------ *)
(* expansion                                                           *)
(* ------------------------------------------------------------------ *)
Lemma Forall2_rev_both {A B} (R : A -> B -> Prop) l l' : Forall2 R l l' -> Forall2 R (rev l) (rev l').
Proof.
  induction 1 as [|a b l l' Hab H IH]; [constructor|]. cbn [rev].
  apply Forall2_app; [exact IH|]. constructor; [exact Hab|constructor].
Qed.

Lemma expand_sim bs qbs : Forall2 brel bs qbs ->
  Forall2 rep (flat_map (fun b => repeat (fv b) (fn b)) bs) (flat_map (fun b => repeat (pv b) (pn b)) qbs).
Proof.
  induction 1 as [|b qb bs qbs Hb H IH]; [constructor|]. cbn [flat_map].
  apply Forall2_app; [|exact IH]. destruct Hb as (Hv & _ & Hn). rewrite Hn. clear Hn.
  induction (pn qb) as [|k IHk]; [constructor|]. cbn [repeat]. constructor; [exact Hv|exact IHk].
Qed.

Lemma starts_sim bs qbs : Forall2 brel bs qbs -> forall from, fstarts from bs = pstarts from qbs.
Proof.
  induction 1 as [|b qb bs qbs Hb H IH]; intros from; [reflexivity|]. cbn [fstarts pstarts].
  destruct Hb as (_ & _ & Hn). rewrite Hn, IH. reflexivity.
Qed.

Lemma combine_rel : forall y w, forallb fin y = true -> forallb fin w = true ->
  Forall2 erel (combine y w) (combine (map val y) (map val w)).
Proof.
  induction y as [|a y IH]; intros w Hy Hw; [constructor|].
  destruct w as [|b w]; [constructor|].
  cbn [forallb] in Hy, Hw. apply andb_prop in Hy. apply andb_prop in Hw.
  destruct Hy as [Ha Hy]. destruct Hw as [Hb Hw]. cbn [combine map].
  constructor; [|apply IH; assumption].
  split; cbn [fst snd]; apply rep_val; assumption.
Qed.

(* ------------------------------------------------------------------ *)
(* the theorem                                                         *)
(* ------------------------------------------------------------------ *)
Theorem pava_f_exact_agrees y w :
  combine y w <> [] -> exact_run y w = true ->
  exists qx qr,
    Pava.pava (combine (map val y) (map val w)) = Some (qx, qr) /\
    Forall2 rep (fst (pava_f y w)) qx /\ snd (pava_f y w) = qr.
Proof.
  intros Hne Hok. unfold exact_run in Hok.
  apply andb_prop in Hok. destruct Hok as [Hok K]. apply andb_prop in Hok. destruct Hok as [Hy Hw].
  pose proof (combine_rel y w Hy Hw) as HR.
  pose proof (floop_sim (length (combine y w)) [] [] _ _ (Forall2_nil _) HR K) as S.
  unfold Pava.pava, pava_blocks. fold qloop.
  rewrite <- (Forall2_length_eq _ _ _ HR).
  unfold pava_f, pava_blocks_f.
  destruct (combine (map val y) (map val w)) as [|qe ql] eqn:Eq.
  { inversion HR; subst. contradiction Hne. symmetry. assumption. }
  rewrite <- Eq in *. clear Eq.
  destruct (pava_blocks_f_total (combine y w)) as [stk [Hsome _]]. unfold pava_blocks_f in Hsome.
  unfold felt, elt in *.
  rewrite Hsome in *.
  destruct (qloop (length (combine y w)) [] (combine (map val y) (map val w))) as [qstk|]; [|contradiction].
  cbn [option_map fst snd]. exists (pexpand qstk), (prvec qstk). split; [reflexivity|].
  split.
  - unfold fexpand, pexpand. apply expand_sim. apply Forall2_rev_both. exact S.
  - unfold frvec, prvec. apply starts_sim. apply Forall2_rev_both. exact S.
Qed.

(* the hypothesis is satisfiable: dyadic data with few significant bits *)
Example exact_run_example :
  exact_run [1; 3; 2; 6; 4; 5; 1]%float [1; 1.5; 0.5; 1.5; 0.5; 2; 4]%float = true.
Proof. vm_compute. reflexivity. Qed.

Example exact_run_example_values :
  pava_f [1; 3; 2; 6; 4; 5; 1]%float [1; 1.5; 0.5; 1.5; 0.5; 2; 4]%float
  = ([1; 2.75; 2.75; 3.125; 3.125; 3.125; 3.125]%float, [0; 1; 3; 7]%nat).
Proof. vm_compute. reflexivity. Qed.

(* ... and it fails as soon as one operation rounds: 0.1 + 0.1 + 0.1 *)
Example exact_run_example_inexact :
  exact_run [0x1.999999999999ap-4; 0x1.999999999999ap-4; 0x1.999999999999ap-4]%float [1; 1; 1]%float = false.
Proof. vm_compute. reflexivity. Qed.

Example F2Q_example : option_map Qred (F2Q 0x1.999999999999ap-4%float) = Some (3602879701896397 # 36028797018963968).
Proof. vm_compute. reflexivity. Qed.

Print Assumptions pava_f_exact_agrees.
