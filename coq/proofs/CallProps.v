(* C17 / C05: the aggregate score is the weighted average of the per-observation
   scores and is unchanged by rescaling the weights.  About gen_call, the
   translation of _BaseScoringFunction.__call__ (gen/Gen_scoring.v); the translator
   also checks that no scoring class overrides __call__. *)
From Coq Require Import Reals Lra List Bool.
Import ListNotations. Open Scope R_scope.
From MD Require Import lib.NumpyR gen.Gen_ident gen.Gen_scoring.

Lemma dotR_scale c v : forall w, dotR v (map (Rmult c) w) = c * dotR v w.
Proof.
  induction v as [|x v IH]; intros [|y w]; simpl; try ring.
  rewrite IH. ring.
Qed.

Lemma sumR_scale c w : sumR (map (Rmult c) w) = c * sumR w.
Proof. induction w as [|y w IH]; simpl; [ring| rewrite IH; ring]. Qed.

Theorem call_is_wavg : forall spo y z w s,
  spo y z = Ok s -> gen_call spo y z w = Ok (np_average s w).
Proof. intros spo y z w s H. unfold gen_call. rewrite H. reflexivity. Qed.

Theorem call_raises_iff_spo_raises : forall spo y z w,
  gen_call spo y z w = ValueErr <-> spo y z = ValueErr.
Proof.
  intros spo y z w. unfold gen_call. destruct (spo y z); simpl; split; intros H; congruence.
Qed.

Theorem call_weighted_value : forall spo y z w s,
  spo y z = Ok s -> gen_call spo y z (Some w) = Ok (dotR s w / sumR w).
Proof. intros. erewrite call_is_wavg by eassumption. reflexivity. Qed.

Theorem wavg_scale_invariant : forall c s w, c <> 0 -> sumR w <> 0 ->
  np_average s (Some (map (Rmult c) w)) = np_average s (Some w).
Proof.
  intros c s w Hc Hw. unfold np_average. rewrite dotR_scale, sumR_scale. field. split; assumption.
Qed.

Theorem call_scale_invariant : forall spo y z c w, c <> 0 -> sumR w <> 0 ->
  gen_call spo y z (Some (map (Rmult c) w)) = gen_call spo y z (Some w).
Proof.
  intros spo y z c w Hc Hw. unfold gen_call. destruct (spo y z) as [s|]; simpl; [|reflexivity].
  f_equal. apply wavg_scale_invariant; assumption.
Qed.

(* unit weights are the plain mean *)
Lemma dotR_ones s : dotR s (repeat 1 (length s)) = sumR s.
Proof. induction s as [|x s IH]; simpl; [reflexivity| rewrite IH; ring]. Qed.
Lemma sumR_ones n : sumR (repeat 1 n) = INR n.
Proof. induction n as [|n IH]; [reflexivity|]. cbn [repeat sumR]. rewrite IH, S_INR. ring. Qed.
Theorem wavg_unit_weights : forall s, np_average s (Some (repeat 1 (length s))) = np_average s None.
Proof. intros s. unfold np_average. rewrite dotR_ones, sumR_ones. reflexivity. Qed.

Print Assumptions call_is_wavg.
Print Assumptions call_scale_invariant.
Print Assumptions wavg_unit_weights.
