(* Properties of the quantile path of `isotonic_regression`
   (isotonic.py lines 398-418; model/Isotonic.v [quantile_path]):
   lower-quantile GPAVA, per-block upper quantile, running minimum from the
   right, midpoint, block vector recomputed from the value changes.

   Main results
     block_flat               the pinball loss of a block is constant on
                              [qlow a B, qupp a B]
     quantile_path_total      the path never fails on non-empty data
     quantile_path_optimal    its output is a monotone minimiser of the total
                              pinball loss among all REAL monotone sequences
     quantile_path_ge_lower   it dominates the lower solution pointwise
     quantile_path_range      every value lies within the data range
     rvec_of_values_contract  contract of the recomputed block vector
     iso_quantile_optimal / iso_quantile_total / iso_median_is_quantile_half
                              the same for the model function, both directions

   Only the standard real-number axioms are used. *)
From Coq Require Import QArith Qreduction Qreals Reals Lqa Lra Lia List Bool Sorted.
Import ListNotations.
From MD Require Import lib.QLists model.Functionals model.Gpava model.Isotonic
  theory.GpavaMerge theory.GInst theory.GpavaCert theory.Optimal
  theory.InstQuantile theory.Transport theory.IsoOptimal.

Lemma count_lt_mono l t t' : (t <= t')%Q -> (count_lt l t <= count_lt l t')%nat.
Proof.
  intros L. rewrite !count_lt_cnt. apply cnt_mono. intros e _.
  rewrite !nleb_true_iff. intros H. Lqa.lra.
Qed.

Lemma Q2R_nonneg q : (0 <= q)%Q -> (0 <= Q2R q)%R.
Proof. intros H. apply Qle_Rle in H. rewrite Q2R_0 in H. exact H. Qed.

Lemma Q2R_nonpos q : (q <= 0)%Q -> (Q2R q <= 0)%R.
Proof. intros H. apply Qle_Rle in H. rewrite Q2R_0 in H. exact H. Qed.

Lemma sumVp_qlow_nonneg a (Ha : (0 < a /\ a < 1)%Q) B : B <> [] ->
  (0 <= sumV elt (VpR_q a) B (Q2R (qlow a B)))%R.
Proof.
  intros Bn.
  pose proof (Q2R_hi (quantile_inst a Ha) (VpR_q a) (q_VpR_ok a Ha) B (qlow a B) (all_dom _ B)) as E.
  cbn [g_elt g_Vp g_good quantile_inst] in E. rewrite <- E.
  apply Q2R_nonneg.
  rewrite hi_quantile. pose proof (qlow_reaches a Ha B Bn) as H. Lqa.lra.
Qed.

Lemma sumVm_le_qupp_nonpos a (Ha : (0 < a /\ a < 1)%Q) B s : B <> [] -> (s <= qupp a B)%Q ->
  (sumV elt (VmR_q a) B (Q2R s) <= 0)%R.
Proof.
  intros Bn Hs.
  pose proof (Q2R_lo (quantile_inst a Ha) (VmR_q a) (q_VmR_ok a Ha) B s (all_dom _ B)) as E.
  cbn [g_elt g_Vm g_good quantile_inst] in E. rewrite <- E.
  apply Q2R_nonpos.
  rewrite lo_quantile. pose proof (qupp_spec1 a Ha B Bn) as H.
  pose proof (proj1 (Qnat_le _ _) (count_lt_mono B s (qupp a B) Hs)) as M. Lqa.lra.
Qed.

Theorem block_flat : forall a (Ha : (0 < a /\ a < 1)%Q) B s, B <> [] ->
  (qlow a B <= s)%Q -> (s <= qupp a B)%Q ->
  lossPin a B (repeat (Q2R s) (length B)) = lossPin a B (repeat (Q2R (qlow a B)) (length B)).
Proof.
  intros a Ha B s Bn Hts Hsu.
  rewrite !lossPin_loss.
  assert (HtsR : (Q2R (qlow a B) <= Q2R s)%R) by (apply Qle_Rle; exact Hts).
  pose proof (const_sum_p elt (VpR_q a) (Lpin a) g_id kap0 domT kap0_nonneg (pin_SGp a Ha)
                B (Q2R (qlow a B)) (Q2R s) I I HtsR) as H1.
  pose proof (const_sum_m elt (VmR_q a) (Lpin a) g_id kap0 domT kap0_nonneg (pin_SGm a Ha)
                B (Q2R s) (Q2R (qlow a B)) I I HtsR) as H2.
  pose proof (sumVp_qlow_nonneg a Ha B Bn) as P.
  pose proof (sumVm_le_qupp_nonpos a Ha B s Bn Hsu) as M.
  unfold g_id in H1, H2.
  assert (P1 : (0 <= (Q2R s - Q2R (qlow a B)) * sumV elt (VpR_q a) B (Q2R (qlow a B)))%R).
  { apply Rmult_le_pos; lra. }
  assert (P2 : (0 <= (Q2R (qlow a B) - Q2R s) * sumV elt (VmR_q a) B (Q2R s))%R).
  { replace ((Q2R (qlow a B) - Q2R s) * sumV elt (VmR_q a) B (Q2R s))%R
      with ((Q2R s - Q2R (qlow a B)) * (- sumV elt (VmR_q a) B (Q2R s)))%R by ring.
    apply Rmult_le_pos; lra. }
  lra.
Qed.

(* ------------------------------------------------------------------ *)
(* Additivity and reversal of the pinball loss                          *)
(* ------------------------------------------------------------------ *)

Lemma lossPin_app a A B ua ub : length ua = length A ->
  lossPin a (A ++ B) (ua ++ ub) = (lossPin a A ua + lossPin a B ub)%R.
Proof. intros Hlen. rewrite !lossPin_loss. apply loss_app. exact Hlen. Qed.

Lemma lossPin_single a e x :
  lossPin a [e] [x] =
  ((if Rle_dec (Q2R (ey e)) x then 1 - Q2R a else - Q2R a) * (x - Q2R (ey e)))%R.
Proof. cbn [lossPin]. ring. Qed.

Lemma lossPin_rev a : forall l u, length u = length l ->
  lossPin a (rev l) (rev u) = lossPin a l u.
Proof.
  induction l as [|e l IH]; intros u Hlen.
  - destruct u as [|x u]; [reflexivity| discriminate Hlen].
  - destruct u as [|x u]; [discriminate Hlen|].
    cbn [length] in Hlen. injection Hlen as Hlen.
    cbn [rev]. rewrite lossPin_app by (rewrite !rev_length; exact Hlen).
    rewrite (IH u Hlen), lossPin_single. cbn [lossPin]. ring.
Qed.

(* ------------------------------------------------------------------ *)
(* Normal form of the quantile path                                     *)
(* ------------------------------------------------------------------ *)

Definition mval (bq : blk elt * Q) : Q := Qred ((1#2) * (bv (fst bq) + snd bq)).
Definition xfit (ps : list (blk elt * Q)) : list Q :=
  flat_map (fun bq => repeat (mval bq) (length (bel (fst bq)))) ps.
Definition lowfit (bs : list (blk elt)) : list Q :=
  flat_map (fun b => repeat (bv b) (length (bel b))) bs.

Lemma xfit_cons p ps : xfit (p :: ps) = repeat (mval p) (length (bel (fst p))) ++ xfit ps.
Proof. reflexivity. Qed.
Lemma lowfit_cons b bs : lowfit (b :: bs) = repeat (bv b) (length (bel b)) ++ lowfit bs.
Proof. reflexivity. Qed.

Lemma mval_eq p : (mval p == (1#2) * (bv (fst p) + snd p))%Q.
Proof. unfold mval. apply Qred_correct. Qed.

Lemma flat_combine_map : forall (bs : list (blk elt)) (q : list Q),
  flat_map (fun bm : blk elt * Q => repeat (snd bm) (length (bel (fst bm))))
           (combine bs (map mval (combine bs q))) = xfit (combine bs q).
Proof.
  induction bs as [|b bs IH]; intros q; [reflexivity|].
  destruct q as [|z q]; [reflexivity|].
  cbn [combine map]. rewrite xfit_cons. cbn [flat_map fst snd]. rewrite IH. reflexivity.
Qed.

Lemma qp_unfold a l x r : quantile_path a l = Some (x, r) ->
  l <> [] /\ exists stk, gpava_blocks elt ey (qlow a) l = Some stk /\
    x = xfit (combine (rev stk) (cummin_right (map (fun b => qupp a (bel b)) (rev stk)))) /\
    r = rvec_of_values x.
Proof.
  intros H. destruct l as [|e l]; [discriminate H|].
  split; [discriminate|].
  unfold quantile_path in H.
  destruct (gpava_blocks elt ey (qlow a) (e :: l)) as [stk|] eqn:HL; [|discriminate H].
  exists stk. split; [reflexivity|].
  cbv zeta in H.
  change (fun bq : blk elt * Q => Qred ((1 # 2) * (bv (fst bq) + snd bq))) with mval in H.
  rewrite flat_combine_map in H.
  injection H as H1 H2. subst x. split; [reflexivity| symmetry; exact H2].
Qed.

(* ------------------------------------------------------------------ *)
(* Running minimum from the right                                       *)
(* ------------------------------------------------------------------ *)

Lemma cummin_cons x q : cummin_right (x :: q) =
  match cummin_right q with
  | [] => [x]
  | m :: _ => (if Qle_bool x m then x else m) :: cummin_right q
  end.
Proof. cbn [cummin_right]. destruct (cummin_right q); reflexivity. Qed.

Definition gb (a : Q) (b : blk elt) : Prop := bel b <> [] /\ (bv b == qlow a (bel b))%Q.

Lemma cummin_inv a (Ha : (0 < a /\ a < 1)%Q) : forall bs : list (blk elt),
  Forall (gb a) bs -> StronglySorted (fun b1 b2 => (bv b1 < bv b2)%Q) bs ->
  Forall2 (fun b qi => (bv b <= qi /\ qi <= qupp a (bel b))%Q) bs
          (cummin_right (map (fun b => qupp a (bel b)) bs)) /\
  StronglySorted Qle (cummin_right (map (fun b => qupp a (bel b)) bs)).
Proof.
  induction bs as [|b bs IH]; intros HG HS.
  - split; constructor.
  - pose proof (Forall_inv HG) as Gb. pose proof (Forall_inv_tail HG) as HG'.
    destruct (StronglySorted_inv HS) as [HS' Hb].
    destruct (IH HG' HS') as [IH1 IH2]. clear IH.
    destruct Gb as [Bn Eb].
    pose proof (qlow_le_qupp a Ha (bel b) Bn) as Hlu.
    cbn [map]. rewrite cummin_cons.
    destruct (cummin_right (map (fun b0 => qupp a (bel b0)) bs)) as [|m q'] eqn:Eq.
    + destruct bs as [|b' bs']; [|inversion IH1].
      split.
      * constructor; [|constructor]. split; Lqa.lra.
      * constructor; constructor.
    + inversion IH1 as [|b' m' bs'' q'' Hbm IH1' E1 E2]; subst.
      pose proof (Forall_inv Hb) as Hbb'. cbv beta in Hbb'.
      destruct Hbm as [Hbm1 Hbm2].
      destruct (StronglySorted_inv IH2) as [IH2' Hm].
      split.
      * constructor; [|exact IH1].
        destruct (Qle_bool (qupp a (bel b)) m) eqn:Eb'.
        -- split; Lqa.lra.
        -- assert (Hlt : (m < qupp a (bel b))%Q).
           { apply Qnot_le_lt. intros C. apply Qle_bool_iff in C. congruence. }
           split; Lqa.lra.
      * constructor; [exact IH2|].
        assert (Hmin : ((if Qle_bool (qupp a (bel b)) m then qupp a (bel b) else m) <= m)%Q).
        { destruct (Qle_bool (qupp a (bel b)) m) eqn:Eb'.
          - apply Qle_bool_iff. exact Eb'.
          - apply Qle_refl. }
        constructor; [exact Hmin|].
        eapply Forall_impl; [|exact Hm].
        intros z Hz. cbv beta in Hz. Lqa.lra.
Qed.

Definition pgood (a : Q) (p : blk elt * Q) : Prop :=
  bel (fst p) <> [] /\ (bv (fst p) == qlow a (bel (fst p)))%Q /\
  (bv (fst p) <= snd p)%Q /\ (snd p <= qupp a (bel (fst p)))%Q.
Definition pord (p1 p2 : blk elt * Q) : Prop :=
  (bv (fst p1) <= bv (fst p2))%Q /\ (snd p1 <= snd p2)%Q.

Lemma combine_pgood a : forall (bs : list (blk elt)) (q : list Q),
  Forall (gb a) bs ->
  Forall2 (fun b qi => (bv b <= qi /\ qi <= qupp a (bel b))%Q) bs q ->
  Forall (pgood a) (combine bs q) /\ map fst (combine bs q) = bs.
Proof.
  intros bs q HG HF. induction HF as [|b z bs q [H1 H2] HF IH].
  - split; [constructor| reflexivity].
  - pose proof (Forall_inv HG) as [Bn Eb]. pose proof (Forall_inv_tail HG) as HG'.
    destruct (IH HG') as [IH1 IH2]. cbn [combine map fst]. split.
    + constructor; [|exact IH1]. unfold pgood. cbn [fst snd]. auto.
    + rewrite IH2. reflexivity.
Qed.

Lemma combine_SS (A B : Type) (R1 : A -> A -> Prop) (R2 : B -> B -> Prop) :
  forall (xs : list A) (ys : list B), StronglySorted R1 xs -> StronglySorted R2 ys ->
  StronglySorted (fun p1 p2 => R1 (fst p1) (fst p2) /\ R2 (snd p1) (snd p2)) (combine xs ys).
Proof.
  induction xs as [|x xs IH]; intros ys H1 H2; [constructor|].
  destruct ys as [|z ys]; [constructor|].
  destruct (StronglySorted_inv H1) as [H1' Hx]. destruct (StronglySorted_inv H2) as [H2' Hz].
  cbn [combine]. constructor; [apply IH; assumption|].
  apply Forall_forall. intros [x' z'] Hin. cbn [fst snd].
  rewrite Forall_forall in Hx, Hz. split.
  - apply Hx. exact (in_combine_l _ _ _ _ Hin).
  - apply Hz. exact (in_combine_r _ _ _ _ Hin).
Qed.

Lemma SS_impl (A : Type) (R1 R2 : A -> A -> Prop) (l : list A) :
  (forall x z, R1 x z -> R2 x z) -> StronglySorted R1 l -> StronglySorted R2 l.
Proof.
  intros HR HS. induction HS as [|x l HS IH Hx]; constructor; [exact IH|].
  eapply Forall_impl; [|exact Hx]. intros z Hz. apply HR. exact Hz.
Qed.

Lemma stack_gb a (Ha : (0 < a /\ a < 1)%Q) stk : stack_ok (quantile_inst a Ha) stk -> Forall (gb a) (rev stk).
Proof.
  intros [HF _]. apply Forall_rev. eapply Forall_impl; [|exact HF].
  intros b HI. cbv beta in HI. destruct HI as (Bn & _ & Eb & _). split; [exact Bn| exact Eb].
Qed.

Lemma qp_struct a (Ha : (0 < a /\ a < 1)%Q) l x r : quantile_path a l = Some (x, r) ->
  l <> [] /\ exists stk ps, gpava_blocks elt ey (qlow a) l = Some stk /\
    stack_ok (quantile_inst a Ha) stk /\ flat elt stk = l /\
    map fst ps = rev stk /\ Forall (pgood a) ps /\ StronglySorted pord ps /\
    x = xfit ps /\ r = rvec_of_values x.
Proof.
  intros H. destruct (qp_unfold a l x r H) as (Ln & stk & HL & Hx & Hr).
  split; [exact Ln|].
  destruct (gpava_stack (quantile_inst a Ha) l stk (all_dom _ l) HL) as [Hok Hflat].
  pose proof (stack_gb a Ha stk Hok) as HG.
  pose proof (blocks_increasing (quantile_inst a Ha) stk Hok) as HS.
  cbn [g_elt quantile_inst] in HS.
  destruct (cummin_inv a Ha (rev stk) HG HS) as [C1 C2].
  destruct (combine_pgood a _ _ HG C1) as [P1 P2].
  exists stk, (combine (rev stk) (cummin_right (map (fun b => qupp a (bel b)) (rev stk)))).
  split; [exact HL|]. split; [exact Hok|]. split; [exact Hflat|]. split; [exact P2|].
  split; [exact P1|]. split; [|split; [exact Hx| exact Hr]].
  pose proof (combine_SS _ _ _ _ _ _ HS C2) as HC.
  eapply SS_impl; [|exact HC].
  intros p1 p2 [Q1 Q2]. split; [apply Qlt_le_weak; exact Q1| exact Q2].
Qed.

(* ------------------------------------------------------------------ *)
(* Consequences for the fitted values                                   *)
(* ------------------------------------------------------------------ *)

Lemma mval_bounds a p : pgood a p ->
  (qlow a (bel (fst p)) <= mval p /\ mval p <= qupp a (bel (fst p)) /\ bv (fst p) <= mval p)%Q.
Proof.
  intros (Bn & Eb & H1 & H2). pose proof (mval_eq p) as E.
  split; [Lqa.lra|]. split; Lqa.lra.
Qed.

Lemma mval_mono p1 p2 : pord p1 p2 -> (mval p1 <= mval p2)%Q.
Proof.
  intros [H1 H2]. pose proof (mval_eq p1) as E1. pose proof (mval_eq p2) as E2. Lqa.lra.
Qed.

Lemma xfit_in : forall ps v, In v (xfit ps) -> exists p, In p ps /\ v = mval p.
Proof.
  intros ps v Hin. unfold xfit in Hin. apply in_flat_map in Hin.
  destruct Hin as (p & Hp & Hv). apply repeat_spec in Hv. exists p. split; [exact Hp| exact Hv].
Qed.

Lemma xfit_sorted ps : StronglySorted pord ps -> StronglySorted Qle (xfit ps).
Proof.
  intros HS. induction HS as [|p ps HS IH Hp].
  - constructor.
  - rewrite xfit_cons. apply SS_repeat_app; [exact IH|].
    apply Forall_forall. intros v Hv.
    destruct (xfit_in ps v Hv) as (p2 & Hp2 & ->).
    rewrite Forall_forall in Hp. apply mval_mono. exact (Hp p2 Hp2).
Qed.

Lemma xfit_length : forall ps, length (xfit ps) = length (concat (map bel (map fst ps))).
Proof.
  induction ps as [|p ps IH]; [reflexivity|].
  rewrite xfit_cons. cbn [map concat]. rewrite !app_length, repeat_length, IH. reflexivity.
Qed.

Lemma xfit_loss a (Ha : (0 < a /\ a < 1)%Q) : forall ps, Forall (pgood a) ps ->
  lossPin a (concat (map bel (map fst ps))) (map Q2R (xfit ps)) =
  lossPin a (concat (map bel (map fst ps))) (map Q2R (lowfit (map fst ps))).
Proof.
  induction ps as [|p ps IH]; intros HF; [reflexivity|].
  pose proof (Forall_inv HF) as Hp. pose proof (Forall_inv_tail HF) as HF'.
  rewrite xfit_cons. cbn [map concat]. rewrite lowfit_cons.
  rewrite !map_app, !map_repeat_Q2R.
  rewrite !lossPin_app by apply repeat_length.
  rewrite (IH HF').
  destruct (mval_bounds a p Hp) as (B1 & B2 & _).
  destruct Hp as (Bn & Eb & _ & _).
  rewrite (block_flat a Ha (bel (fst p)) (mval p) Bn B1 B2).
  rewrite (Qeq_eqR _ _ Eb). reflexivity.
Qed.

Lemma Forall2_repeat (A B : Type) (R : A -> B -> Prop) x z n : R x z -> Forall2 R (repeat x n) (repeat z n).
Proof. intros H. induction n as [|n IH]; cbn [repeat]; constructor; assumption. Qed.

Lemma xfit_ge_low a : forall ps, Forall (pgood a) ps -> Forall2 Qle (lowfit (map fst ps)) (xfit ps).
Proof.
  induction ps as [|p ps IH]; intros HF; [constructor|].
  pose proof (Forall_inv HF) as Hp. pose proof (Forall_inv_tail HF) as HF'.
  rewrite xfit_cons. cbn [map]. rewrite lowfit_cons.
  apply Forall2_app; [|exact (IH HF')].
  apply Forall2_repeat. destruct (mval_bounds a p Hp) as (_ & _ & B3). exact B3.
Qed.

(* ------------------------------------------------------------------ *)
(* The quantile path: totality, optimality, dominance, range            *)
(* ------------------------------------------------------------------ *)

Theorem quantile_path_total : forall a (Ha : (0 < a /\ a < 1)%Q) l, l <> [] ->
  exists x r, quantile_path a l = Some (x, r).
Proof.
  intros a Ha l Ln.
  destruct (gpava_blocks_cert (quantile_inst a Ha) l (all_dom _ l)) as (stk & HL & _).
  cbn [g_elt g_yv g_T quantile_inst] in HL.
  destruct l as [|e l]; [congruence|].
  unfold quantile_path. rewrite HL. cbv zeta. eexists. eexists. reflexivity.
Qed.

Theorem quantile_path_optimal : forall a (Ha : (0 < a /\ a < 1)%Q) l x r, l <> [] ->
  quantile_path a l = Some (x, r) ->
  length x = length l /\ sortedQ x /\
  forall u : list R, length u = length l -> sortedR u ->
    (lossPin a l u >= lossPin a l (map Q2R x))%R.
Proof.
  intros a Ha l x r _ H.
  destruct (qp_struct a Ha l x r H) as (_ & stk & ps & HL & Hok & Hflat & Hfst & HG & HS & Hx & _).
  assert (Hl : concat (map bel (map fst ps)) = l).
  { rewrite Hfst. exact Hflat. }
  split; [rewrite Hx, xfit_length, Hl; reflexivity|].
  split; [rewrite Hx; apply SS_sortedQ, xfit_sorted; exact HS|].
  intros u Hlen Hsort.
  destruct (gpava_quantile_lower_optimal a Ha l stk HL) as (_ & _ & Hopt).
  pose proof (Hopt u Hlen Hsort) as Hu.
  pose proof (xfit_loss a Ha ps HG) as E. rewrite Hl, Hfst in E.
  rewrite Hx, E. exact Hu.
Qed.

Theorem quantile_path_ge_lower : forall a (Ha : (0 < a /\ a < 1)%Q) l x r stk,
  quantile_path a l = Some (x, r) ->
  gpava_blocks elt ey (qlow a) l = Some stk -> Forall2 Qle (expand elt stk) x.
Proof.
  intros a Ha l x r stk H HL.
  destruct (qp_struct a Ha l x r H) as (_ & stk' & ps & HL' & _ & _ & Hfst & HG & _ & Hx & _).
  rewrite HL in HL'. injection HL' as <-.
  pose proof (xfit_ge_low a ps HG) as E. rewrite Hfst in E. rewrite Hx. exact E.
Qed.

Theorem quantile_path_range : forall a (Ha : (0 < a /\ a < 1)%Q) l x r, l <> [] ->
  quantile_path a l = Some (x, r) ->
  forall v, In v x -> exists lo hi, In lo (map ey l) /\ In hi (map ey l) /\ (lo <= v /\ v <= hi)%Q.
Proof.
  intros a Ha l x r _ H v Hv.
  destruct (qp_struct a Ha l x r H) as (_ & stk & ps & HL & Hok & Hflat & Hfst & HG & HS & Hx & _).
  rewrite Hx in Hv. destruct (xfit_in ps v Hv) as (p & Hp & ->).
  rewrite Forall_forall in HG. pose proof (HG p Hp) as Gp.
  destruct (mval_bounds a p Gp) as (B1 & B2 & _).
  destruct Gp as (Bn & _).
  destruct (qlow_in a Ha (bel (fst p)) Bn) as (e1 & He1 & E1).
  destruct (qupp_in a Ha (bel (fst p)) Bn) as (e2 & He2 & E2).
  assert (Hsub : forall e, In e (bel (fst p)) -> In e l).
  { intros e He. rewrite <- Hflat. unfold flat. rewrite <- Hfst.
    apply in_concat. exists (bel (fst p)). split; [|exact He].
    apply in_map, in_map. exact Hp. }
  exists (ey e1), (ey e2).
  split; [apply in_map, Hsub; exact He1|].
  split; [apply in_map, Hsub; exact He2|].
  split; Lqa.lra.
Qed.

(* ------------------------------------------------------------------ *)
(* The block vector recomputed from the values                          *)
(* ------------------------------------------------------------------ *)

Lemma changes_cons2 i a b x : changes i (a :: b :: x) =
  if Qeq_bool a b then changes (S i) (b :: x) else S i :: changes (S i) (b :: x).
Proof. reflexivity. Qed.

Lemma changes_spec : forall (x : list Q) (i k : nat), In k (changes i x) <->
  exists p, k = (i + S p)%nat /\ (S p < length x)%nat /\
            Qeq_bool (nth p x 0%Q) (nth (S p) x 0%Q) = false.
Proof.
  induction x as [|a x IH]; intros i k.
  - split; [intros []|]. intros (p & _ & H & _). cbn [length] in H. lia.
  - destruct x as [|b x'].
    + split; [intros []|]. intros (p & _ & H & _). cbn [length] in H. lia.
    + rewrite changes_cons2. split.
      * intros Hin.
        assert (Hcase : (Qeq_bool a b = false /\ k = S i) \/ In k (changes (S i) (b :: x'))).
        { destruct (Qeq_bool a b); [right; exact Hin|].
          destruct Hin as [<-|Hin]; [left; split; reflexivity| right; exact Hin]. }
        destruct Hcase as [[Hab ->]|Hin'].
        -- exists 0%nat. split; [lia|]. split; [cbn [length]; lia|]. cbn [nth]. exact Hab.
        -- apply IH in Hin'. destruct Hin' as (p & -> & Hp & Hq).
           exists (S p). split; [lia|]. split; [cbn [length] in Hp |- *; lia|].
           cbn [nth] in Hq |- *. exact Hq.
      * intros (p & -> & Hp & Hq). destruct p as [|p'].
        -- cbn [nth] in Hq. rewrite Hq. left. lia.
        -- assert (Hin : In (i + S (S p'))%nat (changes (S i) (b :: x'))).
           { apply IH. exists p'. split; [lia|]. split; [cbn [length] in Hp |- *; lia|].
             cbn [nth] in Hq |- *. exact Hq. }
           destruct (Qeq_bool a b); [exact Hin| right; exact Hin].
Qed.

Lemma changes_bounds (x : list Q) (i k : nat) : In k (changes i x) -> (i < k < i + length x)%nat.
Proof. intros H. apply changes_spec in H. destruct H as (p & -> & Hp & _). lia. Qed.

Lemma changes_sorted : forall (x : list Q) (i : nat), StronglySorted lt (changes i x).
Proof.
  induction x as [|a x IH]; intros i; [constructor|].
  destruct x as [|b x']; [constructor|].
  rewrite changes_cons2. destruct (Qeq_bool a b); [apply IH|].
  constructor; [apply IH|]. apply Forall_forall. intros k Hk.
  apply changes_bounds in Hk. lia.
Qed.

Lemma SS_nth_lt : forall r : list nat, StronglySorted lt r ->
  forall j1 j2, (j1 < j2 < length r)%nat -> (nth j1 r 0 < nth j2 r 0)%nat.
Proof.
  intros r HS. induction HS as [|k r HS IH Hk]; intros j1 j2 Hj.
  - cbn [length] in Hj. lia.
  - cbn [length] in Hj. destruct j2 as [|j2]; [lia|].
    destruct j1 as [|j1]; cbn [nth].
    + rewrite Forall_forall in Hk. apply Hk. apply nth_In. lia.
    + apply IH. lia.
Qed.

Lemma SS_no_between (r : list nat) (j k : nat) : StronglySorted lt r ->
  (S j < length r)%nat -> In k r -> ~ (nth j r 0 < k < nth (S j) r 0)%nat.
Proof.
  intros HS Hj Hin Hb.
  destruct (In_nth r k 0%nat Hin) as (m & Hm & Em).
  destruct (Nat.lt_trichotomy m j) as [Hlt|[Heq|Hgt]].
  - pose proof (SS_nth_lt r HS m j) as H. lia.
  - subst m. lia.
  - destruct (Nat.eq_dec m (S j)) as [Heq|Hne].
    + subst m. lia.
    + pose proof (SS_nth_lt r HS (S j) m) as H. lia.
Qed.

Theorem rvec_of_values_contract : forall x : list Q, x <> [] ->
  let r := rvec_of_values x in
  hd 0%nat r = 0%nat /\ last r 0%nat = length x /\ StronglySorted lt r /\
  (forall j i, (S j < length r)%nat -> (nth j r 0 <= i < nth (S j) r 0)%nat ->
     (nth i x 0 == nth (nth j r 0%nat) x 0)%Q) /\
  (forall j, (S (S j) < length r)%nat ->
     ~ (nth (nth j r 0%nat) x 0 == nth (nth (S j) r 0%nat) x 0)%Q).
Proof.
  intros x Hn r.
  assert (Hlen : (0 < length x)%nat).
  { destruct x as [|a x']; [congruence| cbn [length]; lia]. }
  assert (Er : r = 0%nat :: changes 0 x ++ [length x]) by reflexivity.
  assert (Hlr : length r = S (S (length (changes 0 x)))).
  { rewrite Er. cbn [length]. rewrite app_length. cbn [length]. lia. }
  assert (HS : StronglySorted lt r).
  { rewrite Er. constructor.
    - apply SS_snoc; [apply changes_sorted|].
      apply Forall_forall. intros k Hk. apply changes_bounds in Hk. lia.
    - apply Forall_app. split.
      + apply Forall_forall. intros k Hk. apply changes_bounds in Hk. lia.
      + constructor; [exact Hlen| constructor]. }
  assert (Hle : forall k, In k r -> (k <= length x)%nat).
  { intros k Hk. rewrite Er in Hk. destruct Hk as [<-|Hk]; [lia|].
    apply in_app_or in Hk. destruct Hk as [Hk|[<-|[]]].
    - apply changes_bounds in Hk. lia.
    - lia. }
  assert (Hchg : forall k, In k (changes 0 x) -> In k r).
  { intros k Hk. rewrite Er. right. apply in_or_app. left. exact Hk. }
  assert (H4 : forall j i, (S j < length r)%nat -> (nth j r 0 <= i < nth (S j) r 0)%nat ->
     (nth i x 0 == nth (nth j r 0%nat) x 0)%Q).
  { intros j i Hj Hi.
    set (s := nth j r 0%nat) in *.
    assert (Hd : forall d, (s + d < nth (S j) r 0)%nat ->
               (nth (s + d)%nat x 0 == nth s x 0)%Q).
    { induction d as [|d IHd]; intros Hd.
      - rewrite Nat.add_0_r. apply Qeq_refl.
      - assert (IH' : (nth (s + d)%nat x 0 == nth s x 0)%Q) by (apply IHd; lia).
        replace (s + S d)%nat with (S (s + d)) by lia.
        destruct (Qeq_bool (nth (s + d)%nat x 0%Q) (nth (S (s + d)) x 0%Q)) eqn:Eb.
        + apply Qeq_bool_iff in Eb. rewrite <- Eb. exact IH'.
        + exfalso.
          assert (Hup : (nth (S j) r 0 <= length x)%nat) by (apply Hle, nth_In; exact Hj).
          assert (Hin : In (S (s + d)) (changes 0 x)).
          { apply changes_spec. exists (s + d)%nat.
            split; [lia|]. split; [lia| exact Eb]. }
          apply (SS_no_between r j (S (s + d)) HS Hj (Hchg _ Hin)). fold s. lia. }
    replace i with (s + (i - s))%nat by lia. apply Hd. lia. }
  split; [reflexivity|]. split.
  { rewrite Er. rewrite app_comm_cons. apply last_last. }
  split; [exact HS|]. split; [exact H4|].
  intros j Hj Heq.
  assert (Hjc : (j < length (changes 0 x))%nat) by lia.
  assert (En : nth (S j) r 0%nat = nth j (changes 0 x) 0%nat).
  { rewrite Er. cbn [nth]. apply app_nth1. exact Hjc. }
  assert (Hin : In (nth (S j) r 0%nat) (changes 0 x)).
  { rewrite En. apply nth_In. exact Hjc. }
  apply changes_spec in Hin. destruct Hin as (p & Ep & Hp & Hq).
  assert (Hlt : (nth j r 0 < nth (S j) r 0)%nat) by (apply SS_nth_lt; [exact HS| lia]).
  assert (E4 : (nth p x 0 == nth (nth j r 0%nat) x 0)%Q).
  { apply (H4 j p); lia. }
  rewrite Ep in Heq. cbn [plus] in Heq.
  assert (Eb : Qeq_bool (nth p x 0%Q) (nth (S p) x 0%Q) = true).
  { apply Qeq_bool_iff. rewrite E4. exact Heq. }
  congruence.
Qed.

(* the returned block vector is the one recomputed from the returned values,
   which are non-empty, so [rvec_of_values_contract] applies to it *)
Theorem quantile_path_rvec : forall a (Ha : (0 < a /\ a < 1)%Q) l x r,
  quantile_path a l = Some (x, r) -> x <> [] /\ r = rvec_of_values x.
Proof.
  intros a Ha l x r H.
  destruct (qp_unfold a l x r H) as (Ln & _ & _ & _ & Hr).
  split; [|exact Hr].
  destruct (quantile_path_optimal a Ha l x r Ln H) as (Hlen & _).
  intros E. rewrite E in Hlen. destruct l as [|e l]; [congruence| discriminate Hlen].
Qed.

(* ------------------------------------------------------------------ *)
(* The model function: functional = "quantile" / "median", no weights   *)
(* ------------------------------------------------------------------ *)

Definition monoR (inc : bool) (u : list R) : Prop := if inc then sortedR u else sortedR (rev u).
Definition monoQ (inc : bool) (x : list Q) : Prop := if inc then sortedQ x else sortedQ (rev x).
Definition udata (y : list Q) : list elt := combine y (map (fun _ => 1%Q) y).

Lemma udata_length y : length (udata y) = length y.
Proof. unfold udata, elt. rewrite combine_length, map_length. apply Nat.min_id. Qed.

Lemma udata_nonempty y : y <> [] -> udata y <> [].
Proof. intros Hn. destruct y as [|a y]; [congruence| discriminate]. Qed.

Lemma rev_nonempty (A : Type) (l : list A) : l <> [] -> rev l <> [].
Proof.
  intros Hn E. apply Hn. rewrite <- (rev_involutive l), E. reflexivity.
Qed.

Lemma level_check lvl : (0 < lvl /\ lvl < 1)%Q -> Qle_bool lvl 0 || Qle_bool 1 lvl = false.
Proof.
  intros [H0 H1].
  assert (E0 : Qle_bool lvl 0 = false).
  { destruct (Qle_bool lvl 0) eqn:E; [|reflexivity]. apply Qle_bool_iff in E. Lqa.lra. }
  assert (E1 : Qle_bool 1 lvl = false).
  { destruct (Qle_bool 1 lvl) eqn:E; [|reflexivity]. apply Qle_bool_iff in E. Lqa.lra. }
  rewrite E0, E1. reflexivity.
Qed.

Lemma iso_quantile_unfold y inc lvl : (0 < lvl /\ lvl < 1)%Q ->
  isotonic_regression y None inc IFquantile lvl =
  match quantile_path lvl (if inc then udata y else rev (udata y)) with
  | None => IErr EIndex
  | Some (x, r) =>
      if inc then IOk (x, r)
      else IOk (rev x, map (fun k => (length x - k)%nat) (rev r))
  end.
Proof.
  intros Hl. unfold isotonic_regression. rewrite (level_check lvl Hl).
  cbn [andb iso_core]. reflexivity.
Qed.

Theorem iso_quantile_optimal : forall y inc lvl x r, y <> [] -> (0 < lvl /\ lvl < 1)%Q ->
  isotonic_regression y None inc IFquantile lvl = IOk (x, r) ->
  length x = length y /\ monoQ inc x /\
  forall u : list R, length u = length y -> monoR inc u ->
    (lossPin lvl (udata y) u >= lossPin lvl (udata y) (map Q2R x))%R.
Proof.
  intros y inc lvl x r Hn Hl H.
  rewrite (iso_quantile_unfold y inc lvl Hl) in H.
  destruct inc.
  - destruct (quantile_path lvl (udata y)) as [[x0 r0]|] eqn:HP; [|discriminate H].
    injection H as <- <-.
    destruct (quantile_path_optimal lvl Hl (udata y) x0 r0 (udata_nonempty y Hn) HP) as (H1 & H2 & H3).
    split; [rewrite H1; apply udata_length|]. split; [exact H2|].
    intros u Hlen Hs. apply H3; [rewrite udata_length; exact Hlen| exact Hs].
  - destruct (quantile_path lvl (rev (udata y))) as [[x0 r0]|] eqn:HP; [|discriminate H].
    injection H as <- <-.
    destruct (quantile_path_optimal lvl Hl (rev (udata y)) x0 r0
                (rev_nonempty _ _ (udata_nonempty y Hn)) HP) as (H1 & H2 & H3).
    rewrite rev_length, udata_length in H1.
    split; [rewrite rev_length; exact H1|].
    split; [unfold monoQ; rewrite rev_involutive; exact H2|].
    intros u Hlen Hs. unfold monoR in Hs.
    assert (Hlr : length (rev u) = length (rev (udata y))).
    { rewrite !rev_length, udata_length. exact Hlen. }
    pose proof (H3 (rev u) Hlr Hs) as Hu.
    rewrite lossPin_rev in Hu by (rewrite udata_length; exact Hlen).
    rewrite <- (rev_involutive (map Q2R x0)), <- map_rev in Hu.
    rewrite lossPin_rev in Hu by (rewrite map_length, rev_length, udata_length; exact H1).
    exact Hu.
Qed.

Theorem iso_median_is_quantile_half : forall y inc lvl,
  isotonic_regression y None inc IFmedian lvl = isotonic_regression y None inc IFquantile (1#2).
Proof. intros y inc lvl. reflexivity. Qed.

Theorem iso_quantile_total : forall y inc lvl, y <> [] -> (0 < lvl /\ lvl < 1)%Q ->
  exists x r, isotonic_regression y None inc IFquantile lvl = IOk (x, r).
Proof.
  intros y inc lvl Hn Hl. rewrite (iso_quantile_unfold y inc lvl Hl).
  destruct inc.
  - destruct (quantile_path_total lvl Hl (udata y) (udata_nonempty y Hn)) as (x & r & E).
    rewrite E. exists x, r. reflexivity.
  - destruct (quantile_path_total lvl Hl (rev (udata y))
                (rev_nonempty _ _ (udata_nonempty y Hn))) as (x & r & E).
    rewrite E. eexists. eexists. reflexivity.
Qed.

Print Assumptions quantile_path_optimal.
Print Assumptions block_flat.
Print Assumptions rvec_of_values_contract.
Print Assumptions iso_quantile_optimal.
