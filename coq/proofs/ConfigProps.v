(* C18: configuration contexts restore the previous configuration on every exit
   path.  Induction over arbitrary histories.  No axioms. *)
From Coq Require Import List Bool Lia.
Import ListNotations.
From MD Require Import model.Config.

Section Props.
Variable av : bool.     (* plotly importable or not: every theorem holds for both *)

(* A value stored in the configuration is always "settable again": Plotly can
   only be there if plotly is available (it is never the initial value). *)
Definition storable (b : backend) : Prop := b = Plotly -> av = true.
Definition wf (s : state) : Prop := storable (cfg s) /\ Forall storable (saved s).

Lemma set_config_storable c a : storable c -> storable (fst (set_config av c a)).
Proof.
  unfold storable. intros H. destruct a as [|[|]|]; simpl; auto.
  - discriminate.
  - destruct av eqn:E; simpl; auto.
Qed.

Lemma set_config_restore c old : storable old -> set_config av c (AVal old) = (old, Done).
Proof. unfold storable. intros H. destruct old; simpl; auto. rewrite H; auto. Qed.

Lemma step_leave_nil c e : step av (mkst c []) (Leave e) = (mkst c [], NoOpenContext).
Proof. reflexivity. Qed.
Lemma step_leave_cons c old rest e : storable old ->
  step av (mkst c (old :: rest)) (Leave e) = (mkst old rest, Done).
Proof. intros Ho. cbn [step cfg saved]. rewrite (set_config_restore c old Ho). reflexivity. Qed.

Lemma step_wf s o : wf s -> wf (fst (step av s o)).
Proof.
  intros [Hc Hs]. destruct o as [a|a|e|b].
  - cbn [step]. pose proof (set_config_storable (cfg s) a Hc) as H.
    destruct (set_config av (cfg s) a) as [c r]. split; cbn [fst cfg saved] in *; auto.
  - cbn [step]. pose proof (set_config_storable (cfg s) a Hc) as H.
    destruct (set_config av (cfg s) a) as [c r].
    destruct r; split; cbn [fst cfg saved] in *; auto.
  - destruct s as [c sv]. cbn [cfg saved] in *. destruct sv as [|old rest].
    + rewrite step_leave_nil. split; auto.
    + assert (Ho : storable old) by (inversion Hs; auto).
      rewrite (step_leave_cons c old rest e Ho). split; cbn [fst cfg saved]; auto. inversion Hs; auto.
  - split; auto.
Qed.

Lemma run_wf h : forall s, wf s -> wf (run av s h).
Proof. induction h as [|o h IH]; intros s H; simpl; auto. apply IH, step_wf, H. Qed.

Lemma init_wf : wf init.
Proof. split; simpl; [unfold storable; discriminate| constructor]. Qed.

(* invalid backend name: ValueError and nothing changes *)
Theorem invalid_raises_unchanged s :
  step av s (SetC AInvalid) = (s, ValueError) /\ step av s (Enter AInvalid) = (s, ValueError).
Proof. destruct s; split; reflexivity. Qed.

(* get_config returns a snapshot: mutating it has no effect *)
Theorem get_is_snapshot s b : step av s (ReadMutate b) = (s, Done).
Proof. reflexivity. Qed.

(* a failed operation (any outcome other than Done) leaves the configuration value untouched *)
Theorem failed_op_unchanged s o : wf s -> snd (step av s o) <> Done -> cfg (fst (step av s o)) = cfg s.
Proof.
  intros W H. destruct o as [a|a|e|b].
  - cbn [step] in *. destruct a as [|[|]|]; cbn in *; try congruence. destruct av; cbn in *; congruence.
  - cbn [step] in *. destruct a as [|[|]|]; cbn in *; try congruence. destruct av; cbn in *; congruence.
  - destruct s as [c sv]. destruct sv as [|old rest]; [reflexivity|].
    destruct W as [_ Ws]. cbn [saved] in Ws. assert (Ho : storable old) by (inversion Ws; auto).
    rewrite (step_leave_cons c old rest e Ho) in H. cbn [snd] in H. congruence.
  - reflexivity.
Qed.

(* well-bracketed bodies: every successfully entered context inside is left inside *)
Inductive balanced : list op -> Prop :=
  | bal_nil : balanced []
  | bal_set a h : balanced h -> balanced (SetC a :: h)
  | bal_read b h : balanced h -> balanced (ReadMutate b :: h)
  | bal_enter_fail a h : enter_ok av a = false -> balanced h -> balanced (Enter a :: h)
  | bal_block a body e h : enter_ok av a = true -> balanced body -> balanced h ->
      balanced (Enter a :: body ++ Leave e :: h).

Lemma run_app s h1 h2 : run av s (h1 ++ h2) = run av (run av s h1) h2.
Proof. revert s; induction h1 as [|o h1 IH]; intros s; simpl; auto. Qed.

Lemma enter_ok_done c a : enter_ok av a = true -> snd (set_config av c a) = Done.
Proof. destruct a as [|[|]|]; simpl; try discriminate; auto. intros ->. reflexivity. Qed.
Lemma enter_fail_same c a : enter_ok av a = false -> set_config av c a = (c, snd (set_config av c a)) /\ snd (set_config av c a) <> Done.
Proof. destruct a as [|[|]|]; simpl; try discriminate; intros H; try rewrite H; simpl; split; auto; discriminate. Qed.

Lemma run_cons s o h : run av s (o :: h) = run av (fst (step av s o)) h.
Proof. reflexivity. Qed.

Lemma step_enter_ok s a : enter_ok av a = true ->
  exists c, step av s (Enter a) = (mkst c (cfg s :: saved s), Done).
Proof.
  intros Hok. pose proof (enter_ok_done (cfg s) a Hok) as D. cbn [step].
  destruct (set_config av (cfg s) a) as [c r]. cbn [snd] in D. subst r. exists c. reflexivity.
Qed.

Lemma step_enter_fail s a : enter_ok av a = false -> fst (step av s (Enter a)) = s.
Proof.
  intros Hf. destruct (enter_fail_same (cfg s) a Hf) as [E N]. cbn [step].
  destruct (set_config av (cfg s) a) as [c r]. cbn [snd] in *. injection E as ->.
  destruct r; try congruence; destruct s; reflexivity.
Qed.

Lemma step_set_saved s a : saved (fst (step av s (SetC a))) = saved s.
Proof. cbn [step]. destruct (set_config av (cfg s) a); reflexivity. Qed.

(* a balanced history keeps the stack of saved configurations as it found it *)
Lemma balanced_stack h : balanced h -> forall s, wf s -> saved (run av s h) = saved s.
Proof.
  induction 1 as [|a h Hb IH|b h Hb IH|a h Hf Hb IH|a body e h Hok Hbody IHbody Hh IHh]; intros s W.
  - reflexivity.
  - rewrite run_cons, IH by (apply step_wf, W). apply step_set_saved.
  - rewrite run_cons. apply IH. apply (step_wf s (ReadMutate b) W).
  - rewrite run_cons, (step_enter_fail s a Hf). apply IH, W.
  - destruct (step_enter_ok s a Hok) as [c Ec].
    pose proof (step_wf s (Enter a) W) as W1. rewrite run_cons, Ec in *. cbn [fst] in *.
    rewrite run_app.
    pose proof (run_wf body _ W1) as W2.
    pose proof (IHbody _ W1) as Sb. cbn [saved] in Sb.
    destruct (run av {| cfg := c; saved := cfg s :: saved s |} body) as [c2 sv2] eqn:Er.
    cbn [saved] in Sb. subst sv2.
    assert (Ho : storable (cfg s)) by (destruct W; auto).
    rewrite run_cons, (step_leave_cons c2 (cfg s) (saved s) e Ho). cbn [fst].
    rewrite IHh; [reflexivity|]. destruct W as [Wc Ws]. split; cbn [cfg saved]; auto.
Qed.

(* C18, main statement: entering a context, doing anything well-bracketed inside
   (set_config calls, nested contexts left either way, failed operations, reads
   with mutation), and leaving it normally or by exception gives back exactly
   the configuration at entry - value and saved stack. *)
Theorem restore s a body e : wf s -> enter_ok av a = true -> balanced body ->
  run av s (Enter a :: body ++ [Leave e]) = s.
Proof.
  intros W Hok Hb.
  destruct (step_enter_ok s a Hok) as [c Ec].
  pose proof (step_wf s (Enter a) W) as W1. rewrite run_cons, Ec in *. cbn [fst] in *.
  rewrite run_app.
  pose proof (balanced_stack body Hb _ W1) as Sb. cbn [saved] in Sb.
  destruct (run av {| cfg := c; saved := cfg s :: saved s |} body) as [c2 sv2] eqn:Er.
  cbn [saved] in Sb. subst sv2.
  assert (Ho : storable (cfg s)) by (destruct W; auto).
  rewrite run_cons, (step_leave_cons c2 (cfg s) (saved s) e Ho). cbn [fst run]. destruct s; reflexivity.
Qed.

(* every state reachable from the initial one by any history is well-formed, so
   `restore` applies after any prefix *)
Theorem reachable_wf h : wf (run av init h).
Proof. apply run_wf, init_wf. Qed.

Theorem restore_reachable pre a body e : enter_ok av a = true -> balanced body ->
  run av init (pre ++ Enter a :: body ++ [Leave e]) = run av init pre.
Proof. intros Hok Hb. rewrite run_app. apply restore; auto. apply reachable_wf. Qed.

(* a context whose entry fails is never entered: the state is unchanged *)
Theorem failed_enter_unchanged s a : enter_ok av a = false -> fst (step av s (Enter a)) = s.
Proof. apply step_enter_fail. Qed.
End Props.

(* non-vacuity: a concrete nested history meets the hypotheses *)
Example restore_example :
  balanced true [SetC (AVal Plotly); Enter (AVal Matplotlib); SetC AInvalid; Leave true; ReadMutate Plotly; Enter AInvalid] /\
  run true init (Enter (AVal Plotly) :: [SetC (AVal Plotly); Enter (AVal Matplotlib); SetC AInvalid; Leave true; ReadMutate Plotly; Enter AInvalid] ++ [Leave false]) = init.
Proof.
  split.
  - apply bal_set. apply (bal_block true (AVal Matplotlib) [SetC AInvalid] true [ReadMutate Plotly; Enter AInvalid]); auto.
    + apply bal_set, bal_nil.
    + apply bal_read. apply bal_enter_fail; auto. apply bal_nil.
  - reflexivity.
Qed.
