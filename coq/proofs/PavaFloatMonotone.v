(* MONOTONICITY of the binary64 twin (model/PavaFloat.v), for every input whose result contains
   no NaN: the full statement proofs/PavaFloatProps.v leaves open.

   Unlike PavaFloatProps.v (no float algebra at all) this file needs two IEEE facts about the
   comparison primitives,
       is_nan a = false -> (a <=? a) = true
       is_nan a = false -> is_nan b = false -> (b <=? a) = false -> (a <? b) = true,
   which Coq's standard library states through the specification axioms of
   Floats.FloatAxioms (eqb_spec, ltb_spec, leb_spec: the primitive comparisons compute
   SpecFloat.SFeqb / SFltb / SFleb of Prim2SF).  `Print Assumptions` of the theorems below
   therefore lists FloatAxioms.eqb_spec, FloatAxioms.ltb_spec, FloatAxioms.leb_spec - axioms
   DECLARED BY THE STANDARD LIBRARY, named in the trusted base (DESIGN section 7) - next to the
   primitive operations.  Nothing else. *)
From Coq Require Import ZArith PrimFloat SpecFloat FloatOps FloatAxioms List Bool Arith Lia.
Import ListNotations.
From MD Require Import model.PavaFloat proofs.PavaFloatProps.

(* ------------------------------------------------------------------ *)
(* SpecFloat comparison                                                *)
(* ------------------------------------------------------------------ *)
Lemma SFcompare_antisym a b c : SFcompare a b = Some c -> SFcompare b a = Some (CompOpp c).
Proof.
  intros H.
  destruct a as [sa|sa| |sa ma ea], b as [sb|sb| |sb mb eb]; cbn in H |- *; try discriminate H;
    try (destruct sa); try (destruct sb); cbn in H |- *;
    try (inversion H; subst; reflexivity).
  - (* finite / finite, both negative *)
    inversion H as [Hc]; clear H. rewrite (Z.compare_antisym ea eb).
    destruct (Z.compare ea eb); cbn; try reflexivity.
    change (Pos.compare_cont Eq mb ma) with (Pos.compare mb ma).
    change (Pos.compare_cont Eq ma mb) with (Pos.compare ma mb).
    rewrite (Pos.compare_antisym ma mb). destruct (Pos.compare ma mb); reflexivity.
  - (* finite / finite, both positive *)
    inversion H as [Hc]; clear H. rewrite (Z.compare_antisym ea eb).
    destruct (Z.compare ea eb); cbn; try reflexivity.
    change (Pos.compare_cont Eq mb ma) with (Pos.compare mb ma).
    change (Pos.compare_cont Eq ma mb) with (Pos.compare ma mb).
    rewrite (Pos.compare_antisym ma mb). destruct (Pos.compare ma mb); reflexivity.
Qed.

Lemma SFcompare_total a b : a <> S754_nan -> b <> S754_nan -> exists c, SFcompare a b = Some c.
Proof.
  intros Ha Hb. destruct a as [sa|sa| |sa ma ea], b as [sb|sb| |sb mb eb]; cbn;
    try contradiction; eexists; reflexivity.
Qed.

(* ------------------------------------------------------------------ *)
(* the two IEEE facts                                                  *)
(* ------------------------------------------------------------------ *)
Lemma not_nan_spec a : is_nan a = false -> SFcompare (Prim2SF a) (Prim2SF a) = Some Eq.
Proof.
  unfold is_nan. intros H. apply negb_false_iff in H. rewrite FloatAxioms.eqb_spec in H.
  unfold SFeqb in H. destruct (SFcompare (Prim2SF a) (Prim2SF a)) as [[| |]|]; try discriminate H. reflexivity.
Qed.

Lemma not_nan_SF a : is_nan a = false -> Prim2SF a <> S754_nan.
Proof. intros H E. apply not_nan_spec in H. rewrite E in H. discriminate H. Qed.

Lemma leb_refl_no_nan a : is_nan a = false -> PrimFloat.leb a a = true.
Proof. intros H. rewrite leb_spec. unfold SFleb. rewrite (not_nan_spec a H). reflexivity. Qed.

Lemma not_leb_ltb a b : is_nan a = false -> is_nan b = false -> PrimFloat.leb b a = false -> PrimFloat.ltb a b = true.
Proof.
  intros Ha Hb H. rewrite leb_spec in H. rewrite ltb_spec. unfold SFleb in H. unfold SFltb.
  destruct (SFcompare_total (Prim2SF b) (Prim2SF a) (not_nan_SF b Hb) (not_nan_SF a Ha)) as [c Hc].
  rewrite Hc in H. rewrite (SFcompare_antisym _ _ _ Hc).
  destruct c; try discriminate H. reflexivity.
Qed.

Lemma ltb_leb a b : PrimFloat.ltb a b = true -> PrimFloat.leb a b = true.
Proof.
  rewrite ltb_spec, leb_spec. unfold SFltb, SFleb.
  destruct (SFcompare (Prim2SF a) (Prim2SF b)) as [[| |]|]; intros H; try discriminate H; reflexivity.
Qed.

(* ------------------------------------------------------------------ *)
(* adjacent entries of a block expansion                               *)
(* ------------------------------------------------------------------ *)
Inductive okseq (R : float -> float -> Prop) : list float -> Prop :=
  | ok_nil : okseq R []
  | ok_one a : okseq R [a]
  | ok_cons a b l : (a = b \/ R a b) -> okseq R (b :: l) -> okseq R (a :: b :: l).

Lemma okseq_repeat_app R v k rest :
  okseq R rest -> match rest with [] => True | c :: _ => v = c \/ R v c end -> okseq R (repeat v k ++ rest).
Proof.
  intros Hr Hh. induction k as [|k IH]; cbn [repeat app]; [exact Hr|].
  destruct (repeat v k ++ rest) as [|c l] eqn:E.
  - apply ok_one.
  - apply ok_cons; [|exact IH].
    destruct k as [|k]; cbn [repeat app] in E.
    + subst rest. exact Hh.
    + inversion E; subst. left. reflexivity.
Qed.

Lemma adjR_tail R b bs : adjR R (b :: bs) -> adjR R bs.
Proof. intros H j d Hj. apply (H (S j) d). cbn [length]. lia. Qed.

Lemma okseq_bexpand R bs : allpos bs -> adjR R bs -> okseq R (bexpand bs).
Proof.
  induction bs as [|b bs IH]; intros Hp Ha.
  - apply ok_nil.
  - unfold bexpand. cbn [flat_map]. fold (bexpand bs).
    inversion Hp as [|b0 bs0 Hb Hps]; subst.
    apply okseq_repeat_app.
    + apply IH; [exact Hps|apply (adjR_tail R b); exact Ha].
    + destruct bs as [|b' bs']; [exact I|].
      unfold bexpand. cbn [flat_map].
      inversion Hps as [|b1 bs1 Hb' _]; subst.
      destruct (fn b') as [|k] eqn:Ek; [lia|]. cbn [repeat app].
      right. specialize (Ha 0 b). cbn [length nth] in Ha. apply Ha. lia.
Qed.

Lemma okseq_nth R l : okseq R l -> forall i d, S i < length l ->
  nth i l d = nth (S i) l d \/ R (nth i l d) (nth (S i) l d).
Proof.
  induction 1 as [|a|a b l Hab Hl IH]; intros i d Hi; cbn [length] in Hi; try lia.
  destruct i as [|i].
  - cbn [nth]. exact Hab.
  - change (nth (S i) (a :: b :: l) d) with (nth i (b :: l) d).
    change (nth (S (S i)) (a :: b :: l) d) with (nth (S i) (b :: l) d).
    apply IH. cbn [length]. lia.
Qed.

Theorem block_form_rel_adjacent R x r : block_form_rel R x r -> forall i d, S i < length x ->
  nth i x d = nth (S i) x d \/ R (nth i x d) (nth (S i) x d).
Proof.
  intros [bs [Hp [Ha [Hx _]]]]. subst x. apply okseq_nth. apply okseq_bexpand; assumption.
Qed.

(* ------------------------------------------------------------------ *)
(* the theorems                                                        *)
(* ------------------------------------------------------------------ *)
Definition no_nan (x : list float) : Prop := forall v, In v x -> is_nan v = false.

Lemma last_is_nth (l : list nat) : last l 0 = nth (length l - 1) l 0.
Proof.
  destruct l as [|a l]; [reflexivity|].
  cbn [length]. replace (S (length l) - 1) with (length l) by lia.
  revert a. induction l as [|b l IH]; intros a; [reflexivity|].
  cbn [length]. change (last (a :: b :: l) 0) with (last (b :: l) 0).
  change (nth (S (length l)) (a :: b :: l) 0) with (nth (length l) (b :: l) 0). apply IH.
Qed.

(* pava: without NaN in the result, the result is non-decreasing as floats *)
Theorem pava_f_monotone y w : no_nan (fst (pava_f y w)) ->
  forall i d, S i < length (fst (pava_f y w)) ->
    PrimFloat.leb (nth i (fst (pava_f y w)) d) (nth (S i) (fst (pava_f y w)) d) = true.
Proof.
  intros Hn i d Hi.
  assert (Ha : is_nan (nth i (fst (pava_f y w)) d) = false) by (apply Hn, nth_In; lia).
  assert (Hb : is_nan (nth (S i) (fst (pava_f y w)) d) = false) by (apply Hn, nth_In; lia).
  destruct (block_form_rel_adjacent _ _ _ (pava_f_block_form y w) i d Hi) as [E|Hr].
  - rewrite <- E. apply leb_refl_no_nan. exact Ha.
  - apply ltb_leb. apply not_leb_ltb; assumption.
Qed.

(* ... and strictly increasing across every inner block boundary *)
Theorem pava_f_boundary_strict y w : no_nan (fst (pava_f y w)) ->
  forall j d, 1 <= j -> S j < length (snd (pava_f y w)) ->
    PrimFloat.ltb (nth (nth j (snd (pava_f y w)) 0 - 1) (fst (pava_f y w)) d)
                  (nth (nth j (snd (pava_f y w)) 0) (fst (pava_f y w)) d) = true.
Proof.
  intros Hn j d H1 H2.
  pose proof (pava_f_boundary y w j d H1 H2) as Hb.
  pose proof (pava_f_r_strict y w) as Hs.
  pose proof (pava_f_r_ends y w) as [_ He].
  assert (Hk : nth j (snd (pava_f y w)) 0 < length (fst (pava_f y w))).
  { rewrite pava_f_length, <- He.
    (* r[j] < r[last] because r is strictly increasing and j is not the last index *)
    set (r := snd (pava_f y w)) in *.
    assert (Hmono : forall a b, a <= b -> S b <= length r -> a < b -> nth a r 0 < nth b r 0).
    { intros a b Hab Hbl Hlt. induction b as [|b IH]; [lia|].
      destruct (Nat.eq_dec a b) as [->|Hne].
      - apply Hs. lia.
      - specialize (IH ltac:(lia) ltac:(lia) ltac:(lia)). specialize (Hs b ltac:(lia)). lia. }
    rewrite (last_is_nth r). apply Hmono; lia. }
  assert (Hk1 : 1 <= nth j (snd (pava_f y w)) 0).
  { specialize (Hs (j - 1)). replace (S (j - 1)) with j in Hs by lia. specialize (Hs ltac:(lia)). lia. }
  apply not_leb_ltb; [apply Hn, nth_In; lia | apply Hn, nth_In; exact Hk | exact Hb].
Qed.

(* the public function: without NaN the result is monotone in the requested direction *)
Theorem isotonic_mean_f_monotone y w inc x r :
  isotonic_mean_f y w inc = FOk (x, r) -> no_nan x ->
  forall i d, S i < length x ->
    if inc then PrimFloat.leb (nth i x d) (nth (S i) x d) = true
    else PrimFloat.leb (nth (S i) x d) (nth i x d) = true.
Proof.
  intros H Hn i d Hi.
  destruct (isotonic_mean_f_block_form y w inc x r H) as [B _].
  assert (Ha : is_nan (nth i x d) = false) by (apply Hn, nth_In; lia).
  assert (Hb : is_nan (nth (S i) x d) = false) by (apply Hn, nth_In; lia).
  destruct (block_form_rel_adjacent _ _ _ B i d Hi) as [E|Hr].
  - destruct inc; [rewrite <- E|rewrite E]; apply leb_refl_no_nan; assumption.
  - destruct inc; cbn [boundary_rel] in Hr; unfold not_ge, fge in Hr;
      apply ltb_leb; apply not_leb_ltb; assumption.
Qed.

(* the hypothesis is satisfiable, and it is needed: with NaN the conclusion fails *)
Example no_nan_example :
  forallb (fun v => negb (is_nan v)) (fst (pava_f [1; 3; 2; 5; 4; 4; 0]%float [1; 1; 1; 1; 1; 1; 1]%float)) = true.
Proof. vm_compute. reflexivity. Qed.

Example nan_breaks_monotonicity :
  let x := fst (pava_f [3; 0x1.8p+664; -0x1.8p+664; 0; 4]%float [1; 0x1.8p+664; 0x1.8p+664; 2; 1]%float) in
  existsb is_nan x = true /\ PrimFloat.leb (nth 0 x 0%float) (nth 1 x 0%float) = false.
Proof. vm_compute. split; reflexivity. Qed.

Print Assumptions pava_f_monotone.
Print Assumptions pava_f_boundary_strict.
Print Assumptions isotonic_mean_f_monotone.
