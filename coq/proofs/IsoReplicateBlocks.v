(* C12, replication clause, BLOCK VECTOR: the block vector of the call on the replicated data is the image of the
   block vector of the weighted call under the cumulative counts  cum ks j = ks_0 + ... + ks_(j-1). *)
From Coq Require Import QArith Lia List Bool Sorted.
Import ListNotations.
From MD Require Import lib.QLists model.Functionals model.Isotonic proofs.IsoProps proofs.IsoContract proofs.IsoReplicate.
Open Scope Q_scope.

Definition cum (ks : list nat) (j : nat) : nat := list_sum (firstn j ks).

Lemma cum_0 ks : cum ks 0 = 0%nat. Proof. reflexivity. Qed.
Lemma cum_S c ks j : cum (c :: ks) (S j) = (c + cum ks j)%nat. Proof. reflexivity. Qed.

Lemma nth_repeat_lt (a d : Q) c k : (k < c)%nat -> nth k (repeat a c) d = a.
Proof. revert k; induction c as [|c IH]; intros k H; [lia|]. destruct k; cbn; [reflexivity| apply IH; lia]. Qed.

Lemma repl_cons a x c ks : repl (a :: x) (c :: ks) = repeat a c ++ repl x ks.
Proof. reflexivity. Qed.

Lemma repl_length x ks : length ks = length x -> length (repl x ks) = cum ks (length x).
Proof.
  revert ks; induction x as [|a x IH]; intros [|c ks] H; cbn in H; try discriminate; [reflexivity|].
  rewrite repl_cons, app_length, repeat_length. cbn [length]. rewrite cum_S, IH by lia. reflexivity.
Qed.

Lemma cum_mono ks j j' : (j <= j')%nat -> (cum ks j <= cum ks j')%nat.
Proof.
  revert j j'; induction ks as [|c ks IH]; intros j j' H.
  - unfold cum. rewrite !firstn_nil. lia.
  - destruct j; [rewrite cum_0; lia|]. destruct j'; [lia|]. rewrite !cum_S. specialize (IH j j'). lia.
Qed.

Lemma cum_strict ks j j' : Forall (fun k => 0 < k)%nat ks -> (j < j' <= length ks)%nat -> (cum ks j < cum ks j')%nat.
Proof.
  intros Hp; revert j j'; induction Hp as [|c ks Hc Hp IH]; intros j j' H; cbn [length] in H; [lia|].
  destruct j'; [lia|]. destruct j.
  - rewrite cum_0, cum_S. lia.
  - rewrite !cum_S. specialize (IH j j'). lia.
Qed.

Lemma cum_inj ks j j' : Forall (fun k => 0 < k)%nat ks -> (j <= length ks)%nat -> (j' <= length ks)%nat ->
  cum ks j = cum ks j' -> j = j'.
Proof.
  intros Hp Hj Hj' E. destruct (Nat.lt_trichotomy j j') as [L|[L|L]]; [|exact L|].
  - pose proof (cum_strict ks j j' Hp). lia.
  - pose proof (cum_strict ks j' j Hp). lia.
Qed.

Lemma repl_hd a x c ks d : (0 < c)%nat -> nth 0 (repl (a :: x) (c :: ks)) d = a.
Proof. intros H. rewrite repl_cons. destruct c; [lia|]. reflexivity. Qed.

(* the shape of a replicated list at every interior position *)
Lemma repl_interior x ks : length ks = length x -> Forall (fun k => 0 < k)%nat ks ->
  forall k, (0 < k < length (repl x ks))%nat ->
    (exists j, (0 < j < length x)%nat /\ k = cum ks j /\
               nth (k - 1) (repl x ks) 0 = nth (j - 1) x 0 /\ nth k (repl x ks) 0 = nth j x 0)
    \/ ((forall j, k <> cum ks j) /\ nth (k - 1) (repl x ks) 0 = nth k (repl x ks) 0).
Proof.
  revert ks; induction x as [|a x IH]; intros [|c ks] Hl Hp k Hk; cbn in Hl; try discriminate.
  - cbn in Hk. lia.
  - inversion Hp as [|? ? Hc Hp']; subst.
    rewrite repl_cons in *. rewrite app_length, repeat_length in Hk.
    destruct (Nat.lt_trichotomy k c) as [L|[L|L]].
    + right. split.
      * intros [|j]; [rewrite cum_0; lia| rewrite cum_S; lia].
      * rewrite !app_nth1 by (rewrite repeat_length; lia). rewrite !nth_repeat_lt by lia. reflexivity.
    + subst k. left. exists 1%nat.
      assert (Hx : x <> []) by (intros ->; destruct ks; cbn in Hl, Hk; [lia| discriminate]).
      destruct x as [|b x]; [congruence|]. destruct ks as [|c2 ks]; [discriminate|].
      inversion Hp' as [|? ? Hc2 _]; subst.
      split; [cbn [length]; lia|]. split; [rewrite cum_S, cum_0; lia|]. split.
      * rewrite app_nth1 by (rewrite repeat_length; lia). rewrite nth_repeat_lt by lia. reflexivity.
      * rewrite app_nth2 by (rewrite repeat_length; lia). rewrite repeat_length, Nat.sub_diag.
        rewrite repl_hd by exact Hc2. reflexivity.
    + assert (Hk' : (0 < k - c < length (repl x ks))%nat) by lia.
      assert (Hl' : length ks = length x) by lia.
      destruct (IH ks Hl' Hp' (k - c)%nat Hk') as [(j & Hj & Ek & E1 & E2) | (Hn & E)].
      * left. exists (S j). split; [cbn [length]; lia|]. split; [rewrite cum_S; lia|]. split.
        -- rewrite app_nth2 by (rewrite repeat_length; lia). rewrite repeat_length.
           replace (k - 1 - c)%nat with (k - c - 1)%nat by lia. rewrite E1.
           replace (S j - 1)%nat with j by lia. destruct j; [lia|]. cbn [nth]. f_equal. lia.
        -- rewrite app_nth2 by (rewrite repeat_length; lia). rewrite repeat_length, E2. reflexivity.
      * right. split.
        -- intros [|j]; [rewrite cum_0; lia|]. rewrite cum_S. intros E'. apply (Hn j). lia.
        -- rewrite !app_nth2 by (rewrite repeat_length; lia). rewrite repeat_length.
           replace (k - 1 - c)%nat with (k - c - 1)%nat by lia. exact E.
Qed.

Lemma Forall2_Qeq_nth (a b : list Q) : Forall2 Qeq a b -> forall k, nth k a 0 == nth k b 0.
Proof. induction 1 as [|u v a b E _ IH]; intros [|k]; cbn; try reflexivity; [exact E| apply IH]. Qed.

Lemma Forall2_length_Q (a b : list Q) : Forall2 Qeq a b -> length a = length b.
Proof. induction 1; cbn; congruence. Qed.

Theorem iso_replication_blocks : forall y ks inc f lvl x r,
  length ks = length y -> (f = IFmean \/ f = IFexpectile) ->
  Forall (fun k => 0 < k)%nat ks ->
  isotonic_regression y (Some (map Qnat ks)) inc f lvl = IOk (x, r) ->
  exists xx rr, isotonic_regression (repl y ks) None inc f lvl = IOk (xx, rr) /\
                Forall2 Qeq xx (repl x ks) /\
                forall k, In k rr <-> exists j, In j r /\ k = cum ks j.
Proof.
  intros y ks inc f lvl x r Hk Hf Hp H.
  destruct (iso_replication y ks inc f lvl x r Hk Hf H) as (xx & rr & H2 & Hxx).
  exists xx, rr. split; [exact H2|]. split; [exact Hxx|].
  pose proof (iso_contract_all _ _ _ _ _ _ _ H) as C1.
  pose proof (iso_contract_all _ _ _ _ _ _ _ H2) as C2.
  pose proof (iso_ok_nonempty _ _ _ _ _ _ _ H) as Hyn.
  assert (Hlx : length x = length y) by (destruct C1 as (E & _); exact E).
  assert (Hkx : length ks = length x) by lia.
  assert (Hxn : x <> []) by (intros ->; destruct y; [congruence| discriminate]).
  pose proof (Forall2_length_Q _ _ Hxx) as Hlxx.
  rewrite (repl_length x ks Hkx) in Hlxx.
  assert (Hpos : (0 < length x)%nat) by (destruct x; [congruence| cbn; lia]).
  assert (Hcpos : (0 < cum ks (length x))%nat).
  { pose proof (cum_strict ks 0 (length x) Hp). rewrite cum_0 in *. lia. }
  assert (Hxxn : xx <> []) by (intros ->; cbn in Hlxx; lia).
  pose proof (contract_r_mem y x r C1 Hxn) as M1.
  pose proof (contract_r_mem (repl y ks) xx rr C2 Hxxn) as M2.
  pose proof (Forall2_Qeq_nth _ _ Hxx) as Hnth.
  pose proof (repl_interior x ks Hkx Hp) as Hint. rewrite (repl_length x ks Hkx) in Hint.
  intros k. rewrite M2. split.
  - intros [-> | [-> | (Hk0 & Hch)]].
    + exists 0%nat. split; [apply M1; left; reflexivity| reflexivity].
    + exists (length x). split; [apply M1; right; left; reflexivity| exact Hlxx].
    + rewrite Hlxx in Hk0. destruct (Hint k Hk0) as [(j & Hj & Ek & E1 & E2) | (_ & E)].
      * exists j. split; [| exact Ek]. apply M1. right; right. split; [exact Hj|].
        intros Q. apply Hch. rewrite !Hnth, E1, E2. exact Q.
      * exfalso. apply Hch. rewrite !Hnth, E. reflexivity.
  - intros (j & Hj & ->). apply M1 in Hj. destruct Hj as [-> | [-> | (Hj0 & Hch)]].
    + left. reflexivity.
    + right; left. symmetry. exact Hlxx.
    + right; right. rewrite Hlxx.
      assert (Hb : (0 < cum ks j < cum ks (length x))%nat).
      { pose proof (cum_strict ks 0 j Hp). pose proof (cum_strict ks j (length x) Hp). rewrite cum_0 in *. lia. }
      split; [exact Hb|].
      destruct (Hint (cum ks j) Hb) as [(j' & Hj' & Ek & E1 & E2) | (Hn & _)].
      * assert (j' = j) by (symmetry; apply (cum_inj ks j j' Hp); lia). subst j'.
        intros Q. apply Hch. rewrite !Hnth, E1, E2 in Q. exact Q.
      * exfalso. apply (Hn j). reflexivity.
Qed.
