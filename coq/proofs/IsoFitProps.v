(* Properties of the executable model of `IsotonicRegression.fit` / `.predict`
   (model/IsoFit.v), property C11.

   A. the sort of line 512: permutation, sortedness, stability
   B. linear interpolation with constant fill (interp1d): clipping, bounds,
      monotonicity - for ANY list of thresholds with non-decreasing x
   C. the threshold index list of lines 524-537 on a block vector satisfying the
      output contract of isotonic_regression: strictly increasing indices,
      non-decreasing X thresholds, prediction at every training point
   D. tie consistency: a run of equal X is pooled (mean, expectile, quantile)
   E. the theorems about `fit` / `predict`
   F. optimality among monotone functions of X (mean, expectile, quantile) *)
From Coq Require Import QArith Qabs Qreduction Lqa Lia List Bool Sorted Permutation.
Import ListNotations.
Open Scope Q_scope.
From MD Require Import lib.QLists model.Functionals model.Gpava model.Isotonic model.IsoFit
  theory.GpavaMerge theory.GInst theory.GpavaCert theory.InstMean theory.InstExpectile
  theory.InstQuantile theory.Optimal theory.IsoOptimal proofs.IsoProps proofs.IsoQuantProps.

(* ================================================================== *)
(* A. the sort                                                         *)
(* ================================================================== *)

Section Sort.
Variable A : Type.
Variable le : A -> A -> bool.

Lemma insert_perm x : forall l, Permutation (insert le x l) (x :: l).
Proof.
  induction l as [|h t IH]; cbn [insert].
  - apply Permutation_refl.
  - destruct (le x h).
    + apply Permutation_refl.
    + eapply Permutation_trans; [apply perm_skip; exact IH| apply perm_swap].
Qed.

Theorem sort_perm : forall l, Permutation (isort le l) l.
Proof.
  induction l as [|x l IH]; cbn [isort fold_right].
  - apply Permutation_refl.
  - eapply Permutation_trans; [apply insert_perm|]. apply perm_skip. exact IH.
Qed.

Lemma sort_length l : length (isort le l) = length l.
Proof. apply Permutation_length, sort_perm. Qed.

Hypothesis le_total : forall a b, le a b = true \/ le b a = true.
Hypothesis le_trans : forall a b c, le a b = true -> le b c = true -> le a c = true.

Lemma insert_sorted x : forall l, StronglySorted (fun a b => le a b = true) l ->
  StronglySorted (fun a b => le a b = true) (insert le x l).
Proof.
  induction l as [|h t IH]; intros HS; cbn [insert].
  - constructor; constructor.
  - destruct (StronglySorted_inv HS) as [HS' Hh].
    destruct (le x h) eqn:E.
    + constructor; [exact HS|]. constructor; [exact E|].
      eapply Forall_impl; [|exact Hh]. intros z Hz. cbv beta in Hz. exact (le_trans _ _ _ E Hz).
    + constructor; [apply IH; exact HS'|].
      assert (Hhx : le h x = true) by (destruct (le_total x h) as [C|C]; [congruence| exact C]).
      eapply Permutation_Forall; [apply Permutation_sym, insert_perm|].
      constructor; [exact Hhx| exact Hh].
Qed.

Theorem sort_sorted : forall l, StronglySorted (fun a b => le a b = true) (isort le l).
Proof.
  induction l as [|x l IH]; cbn [isort fold_right]; [constructor|].
  apply insert_sorted. exact IH.
Qed.

(* stability: the rows equivalent to any given row keep their original order *)
Definition eqv (a x : A) : bool := le a x && le x a.

Lemma insert_filter a x : forall l,
  filter (eqv a) (insert le x l) = filter (eqv a) (x :: l).
Proof.
  induction l as [|h t IH]; cbn [insert]; [reflexivity|].
  destruct (le x h) eqn:E; [reflexivity|].
  cbn [filter] in IH |- *. rewrite IH.
  destruct (eqv a h) eqn:Eh; [|reflexivity].
  destruct (eqv a x) eqn:Ex; [|reflexivity].
  exfalso. unfold eqv in Eh, Ex.
  apply andb_prop in Eh. apply andb_prop in Ex. destruct Eh as [Eh1 Eh2]. destruct Ex as [Ex1 Ex2].
  pose proof (le_trans _ _ _ Ex2 Eh1) as C. congruence.
Qed.

Theorem sort_stable : forall a l, filter (eqv a) (isort le l) = filter (eqv a) l.
Proof.
  intros a. induction l as [|x l IH]; [reflexivity|].
  cbn [isort fold_right]. rewrite insert_filter. cbn [filter].
  fold (isort le l). rewrite IH. reflexivity.
Qed.

(* the sorted list depends on the multiset of rows only, as soon as rows that
   compare equal are identical *)
Lemma sorted_perm_eq : forall l1 l2,
  (forall a b, In a l1 -> In b l1 -> le a b = true -> le b a = true -> a = b) ->
  StronglySorted (fun a b => le a b = true) l1 ->
  StronglySorted (fun a b => le a b = true) l2 ->
  Permutation l1 l2 -> l1 = l2.
Proof.
  induction l1 as [|a l1 IH]; intros l2 Hanti S1 S2 HP.
  - apply Permutation_nil in HP. symmetry. exact HP.
  - destruct l2 as [|b l2]; [apply Permutation_sym, Permutation_nil in HP; discriminate HP|].
    destruct (StronglySorted_inv S1) as [S1' Ha]. destruct (StronglySorted_inv S2) as [S2' Hb].
    assert (Eab : a = b).
    { assert (Hbin : In b (a :: l1)) by (eapply Permutation_in; [apply Permutation_sym; exact HP| left; reflexivity]).
      assert (Hain : In a (b :: l2)) by (eapply Permutation_in; [exact HP| left; reflexivity]).
      destruct Hbin as [E|Hbin]; [exact E|].
      destruct Hain as [E|Hain]; [symmetry; exact E|].
      rewrite Forall_forall in Ha, Hb.
      apply Hanti; [left; reflexivity| right; exact Hbin| exact (Ha b Hbin)| exact (Hb a Hain)]. }
    subst b. f_equal. apply IH.
    + intros x z Hx Hz. apply Hanti; right; assumption.
    + exact S1'.
    + exact S2'.
    + exact (Permutation_cons_inv HP).
Qed.

Theorem sort_perm_invariant : forall l1 l2,
  (forall a b, In a l1 -> In b l1 -> le a b = true -> le b a = true -> a = b) ->
  Permutation l1 l2 -> isort le l1 = isort le l2.
Proof.
  intros l1 l2 Hanti HP. apply sorted_perm_eq.
  - intros a b Ha Hb. apply Hanti; (eapply Permutation_in; [apply sort_perm|]); assumption.
  - apply sort_sorted.
  - apply sort_sorted.
  - eapply Permutation_trans; [apply sort_perm|].
    eapply Permutation_trans; [exact HP|]. apply Permutation_sym, sort_perm.
Qed.

End Sort.

(* ---------- the row order is a total preorder ---------- *)

Lemma Qltb_true a b : Qltb a b = true <-> a < b.
Proof.
  unfold Qltb. split; intros H.
  - apply Qnot_le_lt. intros C. apply Qle_bool_iff in C. rewrite C in H. discriminate H.
  - destruct (Qle_bool b a) eqn:E; [|reflexivity].
    apply Qle_bool_iff in E. exfalso. exact (Qlt_not_le _ _ H E).
Qed.

Lemma Qltb_false a b : Qltb a b = false <-> b <= a.
Proof.
  unfold Qltb. split; intros H.
  - apply Qle_bool_iff. destruct (Qle_bool b a); [reflexivity| discriminate H].
  - apply Qle_bool_iff in H. rewrite H. reflexivity.
Qed.

(* what [row_le] says *)
Definition ydir (inc : bool) (ya yb : Q) : Prop := if inc then yb <= ya else ya <= yb.

Lemma row_le_spec inc a b : row_le inc a b = true <->
  (rX a < rX b \/ (rX a == rX b /\ ydir inc (rY a) (rY b))).
Proof.
  unfold row_le, ydir. rewrite orb_true_iff, andb_true_iff, Qltb_true, Qeq_bool_iff.
  destruct inc; rewrite Qle_bool_iff; reflexivity.
Qed.

Lemma row_le_total inc a b : row_le inc a b = true \/ row_le inc b a = true.
Proof.
  rewrite !row_le_spec. unfold ydir.
  destruct (Q_dec (rX a) (rX b)) as [[H|H]|H].
  - left. left. exact H.
  - right. left. exact H.
  - destruct (Qlt_le_dec (rY a) (rY b)) as [Hy|Hy].
    + destruct inc.
      * right. right. split; [symmetry; exact H| lra].
      * left. right. split; [exact H| lra].
    + destruct inc.
      * left. right. split; [exact H| exact Hy].
      * right. right. split; [symmetry; exact H| exact Hy].
Qed.

Lemma row_le_trans inc a b c : row_le inc a b = true -> row_le inc b c = true -> row_le inc a c = true.
Proof.
  rewrite !row_le_spec. unfold ydir. intros [H1|[H1 Y1]] [H2|[H2 Y2]].
  - left. lra.
  - left. lra.
  - left. lra.
  - right. split; [lra|]. destruct inc; lra.
Qed.

Theorem sorted_rows_perm X y w inc :
  Permutation (sorted_rows X y w inc)
    (mk_rows X y (match w with Some w' => w' | None => map (fun _ => 1) y end)).
Proof. unfold sorted_rows. apply sort_perm. Qed.

Theorem sorted_rows_sorted X y w inc :
  StronglySorted (fun a b => row_le inc a b = true) (sorted_rows X y w inc).
Proof.
  unfold sorted_rows. apply sort_sorted; [apply row_le_total| apply row_le_trans].
Qed.

Theorem sorted_rows_stable X y w inc a :
  filter (eqv row (row_le inc) a) (sorted_rows X y w inc) =
  filter (eqv row (row_le inc) a)
    (mk_rows X y (match w with Some w' => w' | None => map (fun _ => 1) y end)).
Proof. unfold sorted_rows. apply sort_stable. apply row_le_trans. Qed.

(* ================================================================== *)
(* B. linear interpolation with constant fill                          *)
(* ================================================================== *)

Lemma Qle_bool_false a b : Qle_bool a b = false <-> b < a.
Proof.
  split; intros H.
  - apply Qnot_le_lt. intros C. apply Qle_bool_iff in C. congruence.
  - destruct (Qle_bool a b) eqn:E; [|reflexivity].
    apply Qle_bool_iff in E. exfalso. exact (Qlt_not_le _ _ H E).
Qed.

Lemma Qeq_bool_false a b : Qeq_bool a b = false <-> ~ a == b.
Proof.
  split; intros H.
  - intros C. apply Qeq_bool_iff in C. congruence.
  - destruct (Qeq_bool a b) eqn:E; [|reflexivity]. apply Qeq_bool_iff in E. contradiction.
Qed.

(* a <= b in the direction of the fit *)
Definition dle (inc : bool) (a b : Q) : Prop := if inc then a <= b else b <= a.

Lemma dle_refl inc a : dle inc a a.
Proof. destruct inc; simpl; lra. Qed.
Lemma dle_trans inc a b c : dle inc a b -> dle inc b c -> dle inc a c.
Proof. destruct inc; simpl; lra. Qed.
Lemma dle_eq inc a b a' b' : a == a' -> b == b' -> dle inc a b -> dle inc a' b'.
Proof. destruct inc; simpl; lra. Qed.

(* the value on one segment *)
Definition segv (x0 y0 x1 y1 q : Q) : Q := Qred ((y1 - y0) / (x1 - x0) * (q - x0) + y0).

Lemma segv_slope x0 y0 x1 y1 q : x0 < x1 ->
  exists s, s * (x1 - x0) == y1 - y0 /\ segv x0 y0 x1 y1 q == s * (q - x0) + y0.
Proof.
  intros H. exists ((y1 - y0) / (x1 - x0)). split.
  - field. lra.
  - unfold segv. apply Qred_correct.
Qed.

Lemma segv_bounds inc x0 y0 x1 y1 q : x0 <= q -> q <= x1 -> x0 < x1 -> dle inc y0 y1 ->
  dle inc y0 (segv x0 y0 x1 y1 q) /\ dle inc (segv x0 y0 x1 y1 q) y1.
Proof.
  intros H0 H1 Hx Hy. destruct (segv_slope x0 y0 x1 y1 q Hx) as (s & Hs & Ev).
  destruct inc; simpl in *.
  - assert (Hs0 : 0 <= s) by nra. split; nra.
  - assert (Hs0 : s <= 0) by nra. split; nra.
Qed.

Lemma segv_mono inc x0 y0 x1 y1 q1 q2 : x0 < x1 -> q1 <= q2 -> dle inc y0 y1 ->
  dle inc (segv x0 y0 x1 y1 q1) (segv x0 y0 x1 y1 q2).
Proof.
  intros Hx Hq Hy.
  destruct (segv_slope x0 y0 x1 y1 q1 Hx) as (s & Hs & Ev1).
  destruct (segv_slope x0 y0 x1 y1 q2 Hx) as (s' & Hs' & Ev2).
  assert (Es : s == s') by nra.
  destruct inc; simpl in *.
  - assert (Hs0 : 0 <= s) by nra. nra.
  - assert (Hs0 : s <= 0) by nra. nra.
Qed.

Lemma segv_const x0 y0 x1 y1 q : y0 == y1 -> segv x0 y0 x1 y1 q == y0.
Proof.
  intros E. unfold segv. rewrite Qred_correct. unfold Qdiv.
  assert (E0 : y1 - y0 == 0) by lra. rewrite E0. ring.
Qed.

Lemma interp_from_cons x0 y0 x1 y1 rest q :
  interp_from x0 y0 ((x1, y1) :: rest) q =
  if Qle_bool x1 q then interp_from x1 y1 rest q
  else if Qeq_bool x0 q then y0 else segv x0 y0 x1 y1 q.
Proof. reflexivity. Qed.

(* thresholds: x non-decreasing, y monotone in the direction of the fit *)
Definition mono_pts (inc : bool) (ps : list (Q * Q)) : Prop :=
  StronglySorted (fun p p' => fst p <= fst p' /\ dle inc (snd p) (snd p')) ps.

Lemma last_cons_cons (A : Type) (a b : A) l d : last (a :: b :: l) d = last (b :: l) d.
Proof. reflexivity. Qed.

Lemma last_default_cons (A : Type) (a : A) l d : last (a :: l) d = last l a.
Proof.
  revert a d. induction l as [|b l IH]; intros a d; [reflexivity|].
  rewrite last_cons_cons. rewrite (IH b d), (IH b a). reflexivity.
Qed.

Lemma last_In (A : Type) (l : list A) d : l <> [] -> In (last l d) l.
Proof.
  intros Hn. destruct (@exists_last _ l Hn) as (l' & z & El).
  rewrite El, last_last. apply in_or_app. right. left. reflexivity.
Qed.

Lemma last_in_cons (A : Type) (l : list A) d : In (last l d) (d :: l).
Proof.
  destruct l as [|a l']; [left; reflexivity|]. right. apply last_In. discriminate.
Qed.

(* the interpolant stays between the first and the last threshold value *)
Lemma interp_from_bounds inc : forall rest x0 y0 q, mono_pts inc ((x0, y0) :: rest) -> x0 <= q ->
  dle inc y0 (interp_from x0 y0 rest q) /\
  dle inc (interp_from x0 y0 rest q) (snd (last rest (x0, y0))).
Proof.
  induction rest as [|[x1 y1] rest IH]; intros x0 y0 q HM Hq.
  - cbn [interp_from last snd]. split; apply dle_refl.
  - destruct (StronglySorted_inv HM) as [HM' H0].
    pose proof (Forall_inv H0) as [Hx01 Hy01]. cbn [fst snd] in Hx01, Hy01.
    rewrite interp_from_cons.
    assert (Hlast : dle inc y1 (snd (last ((x1, y1) :: rest) (x0, y0)))).
    { rewrite last_default_cons.
      destruct rest as [|p rest']; [cbn [last snd]; apply dle_refl|].
      destruct (StronglySorted_inv HM') as [_ H1]. rewrite Forall_forall in H1.
      assert (Hin : In (last (p :: rest') (x1, y1)) (p :: rest')) by (apply last_In; discriminate).
      exact (proj2 (H1 _ Hin)). }
    destruct (Qle_bool x1 q) eqn:E1.
    + apply Qle_bool_iff in E1. destruct (IH x1 y1 q HM' E1) as [B1 B2].
      rewrite last_default_cons. split; [eapply dle_trans; [exact Hy01| exact B1]| exact B2].
    + apply Qle_bool_false in E1.
      destruct (Qeq_bool x0 q) eqn:E0.
      * split; [apply dle_refl| eapply dle_trans; [exact Hy01| exact Hlast]].
      * apply Qeq_bool_false in E0.
        assert (Hx : x0 < x1) by lra.
        destruct (segv_bounds inc x0 y0 x1 y1 q Hq (Qlt_le_weak _ _ E1) Hx Hy01) as [B1 B2].
        split; [exact B1| eapply dle_trans; [exact B2| exact Hlast]].
Qed.

(* monotone in the query *)
Lemma interp_from_mono inc : forall rest x0 y0 q1 q2, mono_pts inc ((x0, y0) :: rest) ->
  x0 <= q1 -> q1 <= q2 ->
  dle inc (interp_from x0 y0 rest q1) (interp_from x0 y0 rest q2).
Proof.
  induction rest as [|[x1 y1] rest IH]; intros x0 y0 q1 q2 HM H1 H12.
  - cbn [interp_from]. apply dle_refl.
  - destruct (StronglySorted_inv HM) as [HM' H0].
    pose proof (Forall_inv H0) as [Hx01 Hy01]. cbn [fst snd] in Hx01, Hy01.
    rewrite !interp_from_cons.
    destruct (Qle_bool x1 q1) eqn:E1.
    + apply Qle_bool_iff in E1.
      assert (E2 : Qle_bool x1 q2 = true) by (apply Qle_bool_iff; lra).
      rewrite E2. apply IH; [exact HM'| exact E1| exact H12].
    + apply Qle_bool_false in E1.
      (* the value at q1 is between y0 and y1 *)
      assert (Hv1 : dle inc y0 (if Qeq_bool x0 q1 then y0 else segv x0 y0 x1 y1 q1) /\
                    dle inc (if Qeq_bool x0 q1 then y0 else segv x0 y0 x1 y1 q1) y1).
      { destruct (Qeq_bool x0 q1) eqn:E0.
        - split; [apply dle_refl| exact Hy01].
        - apply Qeq_bool_false in E0.
          apply segv_bounds; [exact H1| lra| lra| exact Hy01]. }
      destruct (Qle_bool x1 q2) eqn:E2.
      * apply Qle_bool_iff in E2.
        destruct (interp_from_bounds inc rest x1 y1 q2 HM' E2) as [B1 _].
        eapply dle_trans; [exact (proj2 Hv1)| exact B1].
      * apply Qle_bool_false in E2.
        destruct (Qeq_bool x0 q1) eqn:E01.
        -- destruct (Qeq_bool x0 q2) eqn:E02; [apply dle_refl|].
           apply Qeq_bool_false in E02.
           apply segv_bounds; [lra| lra| lra| exact Hy01].
        -- apply Qeq_bool_false in E01.
           assert (E02 : Qeq_bool x0 q2 = false) by (apply Qeq_bool_false; lra).
           rewrite E02. apply segv_mono; [lra| exact H12| exact Hy01].
Qed.

(* a query at or beyond the last threshold gets the last threshold value *)
Lemma interp_from_above : forall rest x0 y0 q,
  Forall (fun p => fst p <= q) rest -> interp_from x0 y0 rest q = snd (last rest (x0, y0)).
Proof.
  induction rest as [|[x1 y1] rest IH]; intros x0 y0 q HF; [reflexivity|].
  pose proof (Forall_inv HF) as H1. pose proof (Forall_inv_tail HF) as HF'. cbn [fst] in H1.
  rewrite interp_from_cons. apply Qle_bool_iff in H1. rewrite H1.
  rewrite last_default_cons. apply IH. exact HF'.
Qed.

Definition betw (a v b : Q) : Prop := (a <= v /\ v <= b) \/ (b <= v /\ v <= a).

(* a query inside the threshold range lies between two neighbouring thresholds
   and gets a value between their values (no assumption on the thresholds) *)
Lemma interp_from_between : forall rest x0 y0 q, x0 <= q ->
  let ps := (x0, y0) :: rest in
  let v := interp_from x0 y0 rest q in
  (exists i, (S i < length ps)%nat /\
     fst (nth i ps (0, 0)) <= q /\ q < fst (nth (S i) ps (0, 0)) /\
     betw (snd (nth i ps (0, 0))) v (snd (nth (S i) ps (0, 0)))) \/
  (fst (last ps (0, 0)) <= q /\ v = snd (last ps (0, 0))).
Proof.
  induction rest as [|[x1 y1] rest IH]; intros x0 y0 q Hq ps v.
  - right. unfold ps, v. cbn [last fst snd interp_from]. split; [exact Hq| reflexivity].
  - unfold v. rewrite interp_from_cons.
    destruct (Qle_bool x1 q) eqn:E1.
    + apply Qle_bool_iff in E1. destruct (IH x1 y1 q E1) as [(i & Hi & A1 & A2 & A3)|[A1 A2]].
      * left. exists (S i). unfold ps. cbn [length nth] in *. split; [lia|].
        split; [exact A1|]. split; [exact A2| exact A3].
      * right. unfold ps. rewrite last_cons_cons. split; [exact A1| exact A2].
    + apply Qle_bool_false in E1. left. exists 0%nat. unfold ps. cbn [length nth fst snd].
      split; [lia|]. split; [exact Hq|]. split; [exact E1|].
      destruct (Qeq_bool x0 q) eqn:E0.
      * unfold betw. destruct (Qlt_le_dec y0 y1); [left| right]; lra.
      * apply Qeq_bool_false in E0.
        assert (Hx : x0 < x1) by lra.
        destruct (Qlt_le_dec y0 y1) as [Hy|Hy].
        -- destruct (segv_bounds true x0 y0 x1 y1 q Hq (Qlt_le_weak _ _ E1) Hx (Qlt_le_weak _ _ Hy)) as [B1 B2].
           left. split; [exact B1| exact B2].
        -- destruct (segv_bounds false x0 y0 x1 y1 q Hq (Qlt_le_weak _ _ E1) Hx Hy) as [B1 B2].
           right. split; [exact B2| exact B1].
Qed.

(* ---------- interp1d on the float64 / int64 path ---------- *)

Lemma interp_np_some ps q : ps <> [] -> exists v, interp_np ps q = Some v.
Proof. destruct ps as [|[x0 y0] rest]; [congruence|]. intros _. eexists. reflexivity. Qed.

(* constant beyond the threshold range *)
Theorem interp_np_below x0 y0 rest q : q < x0 -> interp_np ((x0, y0) :: rest) q = Some y0.
Proof. intros H. cbn [interp_np]. apply Qltb_true in H. rewrite H. reflexivity. Qed.

Theorem interp_np_above x0 y0 rest q : x0 <= q -> fst (last rest (x0, y0)) < q ->
  interp_np ((x0, y0) :: rest) q = Some (snd (last rest (x0, y0))).
Proof.
  intros H0 H. cbn [interp_np]. apply Qltb_false in H0. apply Qltb_true in H.
  rewrite H0, H. reflexivity.
Qed.

Lemma sorted_last_ge inc x0 y0 rest : mono_pts inc ((x0, y0) :: rest) ->
  Forall (fun p => fst p <= fst (last rest (x0, y0))) ((x0, y0) :: rest).
Proof.
  revert x0 y0. induction rest as [|[x1 y1] rest IH]; intros x0 y0 HM.
  - constructor; [cbn; lra| constructor].
  - destruct (StronglySorted_inv HM) as [HM' H0].
    rewrite last_default_cons. pose proof (IH x1 y1 HM') as H1.
    constructor; [|exact H1].
    pose proof (Forall_inv H0) as [Hx _]. pose proof (Forall_inv H1) as Hx1. cbn [fst] in *. lra.
Qed.

(* inside the range interp1d is np.interp *)
Lemma interp_np_inside inc x0 y0 rest q : mono_pts inc ((x0, y0) :: rest) -> x0 <= q ->
  interp_np ((x0, y0) :: rest) q = Some (interp_from x0 y0 rest q).
Proof.
  intros HM H0. cbn [interp_np]. apply Qltb_false in H0. rewrite H0.
  destruct (Qltb (fst (last rest (x0, y0))) q) eqn:E; [|reflexivity].
  apply Qltb_true in E. f_equal. symmetry. apply interp_from_above.
  pose proof (sorted_last_ge inc x0 y0 rest HM) as HF. apply Forall_inv_tail in HF.
  eapply Forall_impl; [|exact HF]. intros p Hp. cbv beta in Hp. lra.
Qed.

(* range: every prediction lies between the first and the last threshold value *)
Theorem interp_np_range inc x0 y0 rest q v : mono_pts inc ((x0, y0) :: rest) ->
  interp_np ((x0, y0) :: rest) q = Some v ->
  dle inc y0 v /\ dle inc v (snd (last rest (x0, y0))).
Proof.
  intros HM H.
  assert (Hends : dle inc y0 (snd (last rest (x0, y0)))).
  { destruct (interp_from_bounds inc rest x0 y0 x0 HM (Qle_refl _)) as [B1 B2].
    eapply dle_trans; [exact B1| exact B2]. }
  destruct (Qlt_le_dec q x0) as [Hlt|Hge].
  - rewrite (interp_np_below x0 y0 rest q Hlt) in H. injection H as <-.
    split; [apply dle_refl| exact Hends].
  - rewrite (interp_np_inside inc x0 y0 rest q HM Hge) in H. injection H as <-.
    apply interp_from_bounds; assumption.
Qed.

(* monotone in the direction of the fit, for every pair of queries *)
Theorem interp_np_mono inc ps q1 q2 v1 v2 : mono_pts inc ps -> q1 <= q2 ->
  interp_np ps q1 = Some v1 -> interp_np ps q2 = Some v2 -> dle inc v1 v2.
Proof.
  intros HM Hq E1 E2. destruct ps as [|[x0 y0] rest]; [discriminate E1|].
  destruct (Qlt_le_dec q1 x0) as [Hlt|Hge].
  - rewrite (interp_np_below x0 y0 rest q1 Hlt) in E1. injection E1 as <-.
    exact (proj1 (interp_np_range inc x0 y0 rest q2 v2 HM E2)).
  - rewrite (interp_np_inside inc x0 y0 rest q1 HM Hge) in E1. injection E1 as <-.
    rewrite (interp_np_inside inc x0 y0 rest q2 HM ltac:(lra)) in E2. injection E2 as <-.
    apply interp_from_mono; assumption.
Qed.

(* ================================================================== *)
(* C. the threshold index list of lines 524-537                        *)
(* ================================================================== *)

Lemma Qeq_bool_refl a : Qeq_bool a a = true.
Proof. apply Qeq_bool_iff. apply Qeq_refl. Qed.

Section Thr.
Variables (Xs ys : list Q) (allsame : bool).   (* X_sorted, y_iso *)

Definition pt (i : nat) : Q * Q := (nth i Xs 0, nth i ys 0).
Definition pts (idx : list nat) : list (Q * Q) := map pt idx.

(* the blocks [prev, r1), [r1, r2), ... : non-empty, inside the data, the fitted
   value is constant on each, and X strictly increases across every interior
   block boundary (tie consistency) *)
Fixpoint bl_ok (prev : nat) (rs : list nat) : Prop :=
  match rs with
  | [] => True
  | ri :: rs' =>
      (prev < ri)%nat /\ (ri <= length Xs)%nat /\
      (forall k, (prev <= k < ri)%nat -> nth k ys 0 == nth prev ys 0) /\
      (rs' <> [] -> nth (ri - 1) Xs 0 < nth ri Xs 0) /\
      bl_ok ri rs'
  end.

Hypothesis Xsorted : forall i j, (i <= j)%nat -> (j < length Xs)%nat -> nth i Xs 0 <= nth j Xs 0.

Lemma idx_from_one prev rl : idx_from Xs allsame prev [rl] =
  if negb (Qeq_bool (nth (rl - 1) Xs 0) (nth prev Xs 0)) && (allsame || Nat.leb 1 (rl - 1 - prev))
  then [(rl - 1)%nat] else [].
Proof. reflexivity. Qed.

Lemma idx_from_two prev ri r2 rs : idx_from Xs allsame prev (ri :: r2 :: rs) =
  (if Nat.leb 1 (ri - 1 - prev) then [(ri - 1)%nat] else []) ++ ri :: idx_from Xs allsame ri (r2 :: rs).
Proof. reflexivity. Qed.

(* the index list is strictly increasing and inside the data *)
Lemma idx_from_SS : forall rs prev, bl_ok prev rs ->
  StronglySorted lt (idx_from Xs allsame prev rs) /\
  Forall (fun i => (prev < i < length Xs)%nat) (idx_from Xs allsame prev rs).
Proof.
  induction rs as [|ri rs IH]; intros prev Hok.
  - split; constructor.
  - destruct Hok as (Hlt & Hn & Hc & Ht & Hok').
    destruct rs as [|r2 rs'].
    + rewrite idx_from_one.
      destruct (negb (Qeq_bool (nth (ri - 1) Xs 0) (nth prev Xs 0)) &&
                (allsame || Nat.leb 1 (ri - 1 - prev))) eqn:E; [|split; constructor].
      apply andb_prop in E. destruct E as [E _].
      assert (Hne : (ri - 1)%nat <> prev).
      { intros C. rewrite C, Qeq_bool_refl in E. discriminate E. }
      split; [constructor; constructor|]. constructor; [lia| constructor].
    + rewrite idx_from_two. destruct (IH ri Hok') as [S1 F1].
      destruct Hok' as (Hlt2 & Hn2 & _).
      assert (Sri : StronglySorted lt (ri :: idx_from Xs allsame ri (r2 :: rs'))).
      { constructor; [exact S1|]. eapply Forall_impl; [|exact F1]. intros i Hi. cbv beta in Hi. lia. }
      assert (Fri : Forall (fun i => (prev < i < length Xs)%nat) (ri :: idx_from Xs allsame ri (r2 :: rs'))).
      { constructor; [lia|]. eapply Forall_impl; [|exact F1]. intros i Hi. cbv beta in Hi. lia. }
      destruct (Nat.leb 1 (ri - 1 - prev)) eqn:E; cbn [app]; [|split; assumption].
      apply Nat.leb_le in E. split.
      * constructor; [exact Sri|]. constructor; [lia|].
        eapply Forall_impl; [|exact F1]. intros i Hi. cbv beta in Hi. lia.
      * constructor; [lia| exact Fri].
Qed.

(* np.interp on the thresholds of the blocks from `prev` on, queried at the X of
   any training row k of these blocks, returns the fitted value of row k *)
Lemma interp_from_block : forall rs prev, bl_ok prev rs -> rs <> [] ->
  forall k, (prev <= k)%nat -> (k < last rs 0)%nat -> (k < length Xs)%nat ->
  interp_from (nth prev Xs 0) (nth prev ys 0) (pts (idx_from Xs allsame prev rs)) (nth k Xs 0)
    == nth k ys 0.
Proof.
  induction rs as [|ri rs IH]; intros prev Hok Hne k Hk1 Hk2 Hkn; [congruence|].
  destruct Hok as (Hlt & Hn & Hc & Ht & Hok').
  set (q := nth k Xs 0).
  destruct rs as [|r2 rs'].
  - (* the last block *)
    cbn [last] in Hk2. pose proof (Hc k ltac:(lia)) as Eyk.
    rewrite idx_from_one.
    destruct (negb (Qeq_bool (nth (ri - 1) Xs 0) (nth prev Xs 0)) &&
              (allsame || Nat.leb 1 (ri - 1 - prev))).
    + cbn [pts map]. unfold pt at 1. rewrite interp_from_cons.
      pose proof (Hc (ri - 1)%nat ltac:(lia)) as Eyl.
      destruct (Qle_bool (nth (ri - 1) Xs 0) q).
      * cbn [interp_from]. rewrite Eyl, Eyk. reflexivity.
      * destruct (Qeq_bool (nth prev Xs 0) q); [symmetry; exact Eyk|].
        rewrite segv_const by (symmetry; exact Eyl). symmetry. exact Eyk.
    + cbn [pts map interp_from]. symmetry. exact Eyk.
  - (* an interior block *)
    rewrite last_cons_cons in Hk2.
    pose proof (Ht ltac:(discriminate)) as Htie.
    rewrite idx_from_two.
    destruct (Nat.lt_ge_cases k ri) as [Hkr|Hkr].
    + (* row k belongs to this block *)
      pose proof (Hc k ltac:(lia)) as Eyk.
      assert (Hq1 : q <= nth (ri - 1) Xs 0) by (apply Xsorted; lia).
      assert (Hq2 : Qle_bool (nth ri Xs 0) q = false) by (apply Qle_bool_false; lra).
      destruct (Nat.leb 1 (ri - 1 - prev)) eqn:E; cbn [app].
      * apply Nat.leb_le in E.
        pose proof (Hc (ri - 1)%nat ltac:(lia)) as Eyl.
        cbn [pts map]. unfold pt at 1. rewrite interp_from_cons.
        destruct (Qle_bool (nth (ri - 1) Xs 0) q) eqn:E1.
        -- apply Qle_bool_iff in E1. unfold pt at 1. rewrite interp_from_cons, Hq2.
           assert (E2 : Qeq_bool (nth (ri - 1) Xs 0) q = true) by (apply Qeq_bool_iff; lra).
           rewrite E2, Eyl, Eyk. reflexivity.
        -- destruct (Qeq_bool (nth prev Xs 0) q); [symmetry; exact Eyk|].
           rewrite segv_const by (symmetry; exact Eyl). symmetry. exact Eyk.
      * apply Nat.leb_gt in E. assert (Ek : k = prev) by lia.
        cbn [pts map]. unfold pt at 1. rewrite interp_from_cons, Hq2.
        unfold q. rewrite Ek, Qeq_bool_refl. reflexivity.
    + (* row k belongs to a later block: the scan passes this block *)
      assert (Hq0 : nth ri Xs 0 <= q) by (apply Xsorted; lia).
      assert (Hq1 : Qle_bool (nth ri Xs 0) q = true) by (apply Qle_bool_iff; exact Hq0).
      assert (Hgo : interp_from (nth ri Xs 0) (nth ri ys 0)
                      (pts (idx_from Xs allsame ri (r2 :: rs'))) q == nth k ys 0).
      { apply IH; [exact Hok'| discriminate| exact Hkr| exact Hk2| exact Hkn]. }
      destruct (Nat.leb 1 (ri - 1 - prev)) eqn:E; cbn [app].
      * assert (Hq2 : Qle_bool (nth (ri - 1) Xs 0) q = true).
        { apply Qle_bool_iff. lra. }
        cbn [pts map]. unfold pt at 1. rewrite interp_from_cons, Hq2.
        unfold pt at 1. rewrite interp_from_cons, Hq1. exact Hgo.
      * cbn [pts map]. unfold pt at 1. rewrite interp_from_cons, Hq1. exact Hgo.
Qed.

End Thr.

(* ---------- from the output contract (index form) to [bl_ok] ---------- *)

(* what the rest of this file needs to know about the sorted X, the fitted
   values and the block vector handed to lines 524-537 *)
Record fit_hyp (inc : bool) (Xs yiso : list Q) (r : list nat) : Prop := mk_fit_hyp {
  fh_ne : Xs <> [];
  fh_len : length yiso = length Xs;
  fh_Xsorted : forall i j, (i <= j)%nat -> (j < length Xs)%nat -> nth i Xs 0 <= nth j Xs 0;
  fh_hd : hd 0%nat r = 0%nat;
  fh_last : last r 0%nat = length Xs;
  fh_r : StronglySorted lt r;
  fh_const : forall j i, (S j < length r)%nat -> (nth j r 0 <= i < nth (S j) r 0)%nat ->
     nth i yiso 0 == nth (nth j r 0%nat) yiso 0;
  (* tie consistency: X strictly increases across every interior block boundary *)
  fh_tie : forall j, (S (S j) < length r)%nat ->
     nth (nth (S j) r 0%nat - 1) Xs 0 < nth (nth (S j) r 0%nat) Xs 0;
  fh_mono : forall i j, (i <= j)%nat -> (j < length yiso)%nat -> dle inc (nth i yiso 0) (nth j yiso 0)
}.

Lemma SS_lt_le_last : forall (l : list nat) x, StronglySorted lt l -> In x l -> (x <= last l 0)%nat.
Proof.
  induction l as [|a l IH]; intros x HS Hin; [destruct Hin|].
  destruct (StronglySorted_inv HS) as [HS' Ha].
  destruct l as [|b l'].
  - destruct Hin as [<-|[]]. cbn. lia.
  - rewrite last_cons_cons. destruct Hin as [<-|Hin].
    + rewrite Forall_forall in Ha.
      pose proof (Ha b ltac:(left; reflexivity)) as H1.
      pose proof (IH b HS' ltac:(left; reflexivity)) as H2. lia.
    + apply IH; assumption.
Qed.

Lemma bl_ok_of_nth Xs ys : forall rs prev,
  StronglySorted lt (prev :: rs) -> Forall (fun k => (k <= length Xs)%nat) rs ->
  (forall j i, (S j < length (prev :: rs))%nat ->
     (nth j (prev :: rs) 0 <= i < nth (S j) (prev :: rs) 0)%nat ->
     nth i ys 0 == nth (nth j (prev :: rs) 0%nat) ys 0) ->
  (forall j, (S (S j) < length (prev :: rs))%nat ->
     nth (nth (S j) (prev :: rs) 0%nat - 1) Xs 0 < nth (nth (S j) (prev :: rs) 0%nat) Xs 0) ->
  bl_ok Xs ys prev rs.
Proof.
  induction rs as [|ri rs IH]; intros prev HS HF Hc Ht; [exact Logic.I|].
  destruct (StronglySorted_inv HS) as [HS' Hp].
  cbn [bl_ok]. split; [exact (Forall_inv Hp)|]. split; [exact (Forall_inv HF)|]. split.
  { intros k Hk. apply (Hc 0%nat k); [cbn [length]; lia| cbn [nth]; exact Hk]. }
  split.
  { intros Hne. apply (Ht 0%nat). destruct rs; [congruence| cbn [length]; lia]. }
  apply IH; [exact HS'| exact (Forall_inv_tail HF)| |].
  - intros j i Hj Hi. apply (Hc (S j) i); [cbn [length] in Hj |- *; lia| exact Hi].
  - intros j Hj. apply (Ht (S j)). cbn [length] in Hj |- *. lia.
Qed.

Lemma fit_hyp_r inc Xs yiso r : fit_hyp inc Xs yiso r ->
  exists r1 rs, r = 0%nat :: r1 :: rs /\ bl_ok Xs yiso 0 (r1 :: rs) /\ last (r1 :: rs) 0%nat = length Xs.
Proof.
  intros H. destruct H as [Hne Hlen HX Hhd Hlast HS Hc Ht Hm].
  assert (Hn : (0 < length Xs)%nat) by (destruct Xs; [congruence| cbn; lia]).
  destruct r as [|r0 r']; [cbn in Hlast; lia|]. cbn [hd] in Hhd. subst r0.
  destruct r' as [|r1 rs]; [cbn in Hlast; lia|].
  exists r1, rs. split; [reflexivity|].
  rewrite last_cons_cons in Hlast. split; [|exact Hlast].
  apply bl_ok_of_nth; [exact HS| |exact Hc| exact Ht].
  apply Forall_forall. intros k Hk. rewrite <- Hlast.
  apply SS_lt_le_last; [exact (proj1 (StronglySorted_inv HS))| exact Hk].
Qed.

Lemma combine_pick Xs ys idx : combine (pick Xs idx) (pick ys idx) = pts Xs ys idx.
Proof. induction idx as [|i idx IH]; [reflexivity|]. cbn [pick map combine pts]. f_equal. exact IH. Qed.

Lemma pts_mono inc Xs ys : 
  (forall i j, (i <= j)%nat -> (j < length Xs)%nat -> nth i Xs 0 <= nth j Xs 0) ->
  (forall i j, (i <= j)%nat -> (j < length Xs)%nat -> dle inc (nth i ys 0) (nth j ys 0)) ->
  forall idx, StronglySorted lt idx -> Forall (fun i => (i < length Xs)%nat) idx ->
  mono_pts inc (pts Xs ys idx).
Proof.
  intros HX HY idx HS. induction HS as [|i idx HS IH Hi]; intros HF; [constructor|].
  cbn [pts map]. constructor; [apply IH; exact (Forall_inv_tail HF)|].
  apply Forall_forall. intros p Hp. apply in_map_iff in Hp. destruct Hp as (j & <- & Hj).
  rewrite Forall_forall in Hi, HF. pose proof (Hi j Hj) as Hij.
  pose proof (HF j (or_intror Hj)) as Hjn. unfold pt. cbn [fst snd].
  split; [apply HX; lia| apply HY; lia].
Qed.

(* ---------- the theorems on (X_sorted, y_iso, r) ---------- *)

Section OnContract.
Variables (inc : bool) (Xs yiso : list Q) (r : list nat).
Hypothesis H : fit_hyp inc Xs yiso r.

Lemma thr_idx_some : exists idx, thr_idx Xs yiso r = Some idx /\
  StronglySorted lt idx /\ Forall (fun i => (i < length Xs)%nat) idx /\ hd 0%nat idx = 0%nat /\ idx <> [].
Proof.
  destruct (fit_hyp_r _ _ _ _ H) as (r1 & rs & Er & Hok & Hlast).
  rewrite Er. cbn [thr_idx]. eexists. split; [reflexivity|].
  destruct (idx_from_SS Xs yiso (Qeq_bool (nth 0 yiso 0) (nth (length yiso - 1) yiso 0)) (r1 :: rs) 0%nat Hok) as [S1 F1].
  assert (Hn : (0 < length Xs)%nat) by (destruct H as [Hne _]; destruct Xs; [congruence| cbn; lia]).
  split; [|split; [|split; [reflexivity| discriminate]]].
  - constructor; [exact S1|]. eapply Forall_impl; [|exact F1]. intros i Hi. cbv beta in Hi. lia.
  - constructor; [exact Hn|]. eapply Forall_impl; [|exact F1]. intros i Hi. cbv beta in Hi. lia.
Qed.

Lemma fh_mono' : forall i j, (i <= j)%nat -> (j < length Xs)%nat -> dle inc (nth i yiso 0) (nth j yiso 0).
Proof. intros i j Hij Hj. apply (fh_mono _ _ _ _ H); [exact Hij| rewrite (fh_len _ _ _ _ H); exact Hj]. Qed.

(* thresholds: X non-decreasing, y monotone in the fitted direction *)
Theorem thr_mono_pts idx : thr_idx Xs yiso r = Some idx -> mono_pts inc (pts Xs yiso idx).
Proof.
  intros E. destruct thr_idx_some as (idx' & E' & S1 & F1 & _). rewrite E in E'. injection E' as <-.
  apply pts_mono; [exact (fh_Xsorted _ _ _ _ H)| exact fh_mono'| exact S1| exact F1].
Qed.

(* prediction at the X of training row k = fitted value of row k *)
Theorem at_training idx k : thr_idx Xs yiso r = Some idx -> (k < length Xs)%nat ->
  exists v, interp_np (pts Xs yiso idx) (nth k Xs 0) = Some v /\ v == nth k yiso 0.
Proof.
  intros E Hk. pose proof (thr_mono_pts idx E) as HM.
  destruct (fit_hyp_r _ _ _ _ H) as (r1 & rs & Er & Hok & Hlast).
  rewrite Er in E. cbn [thr_idx] in E. injection E as <-.
  cbn [pts map] in HM |- *. unfold pt at 1 in HM. unfold pt at 1.
  assert (H0 : nth 0 Xs 0 <= nth k Xs 0) by (apply (fh_Xsorted _ _ _ _ H); lia).
  rewrite (interp_np_inside inc _ _ _ _ HM H0). eexists. split; [reflexivity|].
  apply (interp_from_block Xs yiso _ (fh_Xsorted _ _ _ _ H) (r1 :: rs) 0%nat Hok);
    [discriminate| lia| rewrite Hlast; exact Hk| exact Hk].
Qed.

End OnContract.

(* ================================================================== *)
(* D. tie consistency: a non-increasing step is never a block boundary *)
(* ================================================================== *)

Section TieSegs.
Variable E : Type.
Variable yv : E -> Q.

(* consecutive segments: the last observation of one is strictly below the
   first observation of the next *)
Fixpoint adj_ok (ds : list (list E)) : Prop :=
  match ds with
  | d1 :: ((d2 :: _) as t) =>
      (forall p e e' t', d1 = p ++ [e] -> d2 = e' :: t' -> yv e < yv e') /\ adj_ok t
  | _ => True
  end.

Definition svals (ss : list (list E * Q)) : list Q :=
  flat_map (fun s => repeat (snd s) (length (fst s))) ss.

Lemma tie_segs : forall ss : list (list E * Q),
  Forall (fun s => fst s <> []) ss -> adj_ok (map fst ss) ->
  forall l1 e e' l2, concat (map fst ss) = l1 ++ e :: e' :: l2 -> yv e' <= yv e ->
  nth (length l1) (svals ss) 0 = nth (S (length l1)) (svals ss) 0.
Proof.
  induction ss as [|[B v] ss IH]; intros Hne Hadj l1 e e' l2 Hd Hy.
  - cbn in Hd. destruct l1; discriminate Hd.
  - cbn [map fst concat] in Hd. cbn [svals flat_map fst snd]. fold (svals ss).
    pose proof (Forall_inv Hne) as HB. cbn [fst] in HB.
    pose proof (Forall_inv_tail Hne) as Hne'.
    assert (Hadj' : adj_ok (map fst ss)).
    { cbn [map fst] in Hadj. destruct ss as [|s2 ss']; [exact Logic.I| exact (proj2 Hadj)]. }
    assert (Hlater : forall m, l1 = B ++ m -> concat (map fst ss) = m ++ e :: e' :: l2 ->
              nth (length l1) (repeat v (length B) ++ svals ss) 0 =
              nth (S (length l1)) (repeat v (length B) ++ svals ss) 0).
    { intros m -> Hm. rewrite app_length.
      rewrite !app_nth2 by (rewrite repeat_length; lia). rewrite repeat_length.
      replace (length B + length m - length B)%nat with (length m) by lia.
      replace (S (length B + length m) - length B)%nat with (S (length m)) by lia.
      exact (IH Hne' Hadj' m e e' l2 Hm Hy). }
    destruct (split_app E B (concat (map fst ss)) l1 (e :: e' :: l2) Hd) as [(m & EB & Em)|(m & El & Em)].
    + destruct m as [|e0 m].
      * rewrite app_nil_r in EB. cbn [app] in Em. apply (Hlater []); [rewrite app_nil_r; symmetry; exact EB| symmetry; exact Em].
      * cbn [app] in Em. injection Em as <- Em.
        destruct m as [|e1 m].
        -- (* boundary between B and the next segment: impossible *)
           cbn [app] in Em. exfalso.
           destruct ss as [|[B2 v2] ss']; [discriminate Em|].
           cbn [map fst concat] in Em.
           pose proof (Forall_inv Hne') as HB2. cbn [fst] in HB2.
           destruct B2 as [|b2 B2']; [congruence|].
           cbn [app] in Em. injection Em as <- _.
           cbn [map fst] in Hadj. destruct Hadj as [Hadj _].
           pose proof (Hadj l1 e e' B2' EB eq_refl) as Hlt. lra.
        -- (* both inside B *)
           cbn [app] in Em. injection Em as <- _.
           assert (HL : (S (length l1) < length B)%nat).
           { rewrite EB, app_length. cbn [length]. lia. }
           rewrite !app_nth1 by (rewrite repeat_length; lia).
           rewrite !nth_repeat_lt by lia. reflexivity.
    + apply (Hlater m El Em).
Qed.

End TieSegs.

(* ---------- certified stacks have [adj_ok] blocks ---------- *)

Section TieCert.
Variable I : GInst.
(* converses of V3 / V4: the sign of the identification function decides the side *)
Hypothesis Vp_conv : forall e t, g_good I e -> g_Vp I e t >= 0 -> g_yv I e <= t.
Hypothesis Vm_conv : forall e t, g_good I e -> Neg (g_strict I) (g_Vm I e t) -> t <= g_yv I e.

Lemma adj_ok_blocks : forall bs : list (blk (g_elt I)),
  Forall (fun b => IInv I (bel b) (bv b)) bs ->
  StronglySorted (fun b1 b2 => bv b1 < bv b2) bs ->
  adj_ok (g_elt I) (g_yv I) (map bel bs).
Proof.
  induction bs as [|b1 bs IH]; intros HF HS; [exact Logic.I|].
  destruct bs as [|b2 bs']; [exact Logic.I|].
  destruct (StronglySorted_inv HS) as [HS' H1].
  pose proof (Forall_inv HF) as I1. pose proof (Forall_inv_tail HF) as HF'.
  pose proof (Forall_inv HF') as I2. pose proof (Forall_inv H1) as Hlt. cbv beta in I1, I2, Hlt.
  cbn [map adj_ok]. split; [|exact (IH HF' HS')].
  intros p e e' t' E1 E2.
  destruct I1 as (_ & G1 & _ & S1 & _). destruct I2 as (_ & G2 & _ & _ & P2).
  assert (He : g_yv I e <= bv b1).
  { apply Vp_conv.
    - rewrite E1 in G1. apply Forall_app in G1. exact (Forall_inv (proj2 G1)).
    - pose proof (S1 p [e] E1 ltac:(discriminate)) as Hh. cbn [hi] in Hh. lra. }
  assert (He' : bv b2 <= g_yv I e').
  { apply Vm_conv.
    - rewrite E2 in G2. exact (Forall_inv G2).
    - pose proof (P2 [e'] t' E2 ltac:(discriminate)) as Hl. cbn [lo] in Hl.
      eapply Neg_proper; [|exact Hl]. ring. }
  lra.
Qed.

(* on any assignment of one value per block of a certified stack (the block
   values themselves, or the midpoints of the quantile path): a non-increasing
   step of the data is inside one block *)
Lemma tie_stack_gen stk (ss : list (list (g_elt I) * Q)) : stack_ok I stk ->
  map fst ss = map bel (rev stk) ->
  forall l1 e e' l2, flat (g_elt I) stk = l1 ++ e :: e' :: l2 -> g_yv I e' <= g_yv I e ->
  nth (length l1) (svals (g_elt I) ss) 0 = nth (S (length l1)) (svals (g_elt I) ss) 0.
Proof.
  intros Hok E1 l1 e e' l2 Hd Hy.
  apply (tie_segs (g_elt I) (g_yv I) ss) with (e := e) (e' := e') (l2 := l2).
  - assert (HF : Forall (fun d : list (g_elt I) => d <> []) (map fst ss)).
    { rewrite E1. apply Forall_forall. intros d Hd'. apply in_map_iff in Hd'.
      destruct Hd' as (b & <- & Hb).
      pose proof (stack_ok_nonempty I stk Hok) as Hne. rewrite Forall_forall in Hne.
      apply Hne. apply in_rev. exact Hb. }
    rewrite Forall_map in HF. exact HF.
  - rewrite E1. apply adj_ok_blocks.
    + apply Forall_rev. exact (proj1 Hok).
    + apply blocks_increasing. exact Hok.
  - rewrite E1. exact Hd.
  - exact Hy.
Qed.

Lemma tie_stack stk : stack_ok I stk ->
  forall l1 e e' l2, flat (g_elt I) stk = l1 ++ e :: e' :: l2 -> g_yv I e' <= g_yv I e ->
  nth (length l1) (expand (g_elt I) stk) 0 = nth (S (length l1)) (expand (g_elt I) stk) 0.
Proof.
  intros Hok l1 e e' l2 Hd Hy.
  set (ss := map (fun b => (bel b, bv b)) (rev stk)).
  assert (E1 : map fst ss = map bel (rev stk)).
  { unfold ss. rewrite map_map. reflexivity. }
  assert (E2 : svals (g_elt I) ss = expand (g_elt I) stk).
  { unfold ss, svals, expand. rewrite flat_map_concat_map, map_map, <- flat_map_concat_map. reflexivity. }
  rewrite <- E2. exact (tie_stack_gen stk ss Hok E1 l1 e e' l2 Hd Hy).
Qed.

End TieCert.

(* the three instances *)
Lemma mean_Vp_conv e t : posw e -> V_mean e t >= 0 -> ey e <= t.
Proof. unfold posw, V_mean. intros Hw H. nra. Qed.
Lemma mean_Vm_conv e t : posw e -> Neg false (V_mean e t) -> t <= ey e.
Proof. unfold posw, V_mean, Neg. intros Hw H. nra. Qed.

Lemma exp_Vp_conv a (Ha : 0 < a /\ a < 1) e t : posw e -> V_expectile a e t >= 0 -> ey e <= t.
Proof.
  unfold posw, V_expectile. intros Hw H. pose proof (kfac_pos a Ha (ey e) t) as Hk.
  set (k := kfac a (ey e) t) in *.
  destruct (Qlt_le_dec t (ey e)) as [Hlt|Hge]; [exfalso| exact Hge].
  assert (H1 : k * (t - ey e) < 0) by nra.
  assert (H2 : ew e * (k * (t - ey e)) < 0) by nra.
  assert (H3 : ew e * (2 * k * (t - ey e)) == 2 * (ew e * (k * (t - ey e)))) by ring.
  lra.
Qed.
Lemma exp_Vm_conv a (Ha : 0 < a /\ a < 1) e t : posw e -> Neg false (V_expectile a e t) -> t <= ey e.
Proof.
  unfold posw, V_expectile, Neg. intros Hw H. pose proof (kfac_pos a Ha (ey e) t) as Hk.
  set (k := kfac a (ey e) t) in *.
  destruct (Qlt_le_dec (ey e) t) as [Hlt|Hge]; [exfalso| exact Hge].
  assert (H1 : 0 < k * (t - ey e)) by nra.
  assert (H2 : 0 < ew e * (k * (t - ey e))) by nra.
  assert (H3 : ew e * (2 * k * (t - ey e)) == 2 * (ew e * (k * (t - ey e)))) by ring.
  lra.
Qed.

Lemma quant_Vp_conv a (Ha : 0 < a /\ a < 1) (e : elt) t : True -> Vp_quantile a e t >= 0 -> ey e <= t.
Proof.
  intros _. unfold Vp_quantile. destruct (leb (ey e) t) eqn:E.
  - intros _. apply Qle_bool_iff. exact E.
  - intros H. lra.
Qed.
Lemma quant_Vm_conv a (Ha : 0 < a /\ a < 1) (e : elt) t : True -> Neg true (Vm_quantile a e t) -> t <= ey e.
Proof.
  intros _. unfold Vm_quantile, Neg. destruct (leb t (ey e)) eqn:E.
  - intros _. apply Qle_bool_iff. exact E.
  - intros H. lra.
Qed.

(* ---------- tie consistency of the returned fitted values ---------- *)

(* a step of the (sorted) response that goes against the direction of the fit
   gets one fitted value *)
Definition tie_vals (inc : bool) (ys x : list Q) : Prop :=
  forall i, (S i < length ys)%nat -> ydir inc (nth i ys 0) (nth (S i) ys 0) ->
    nth i x 0 == nth (S i) x 0.

Lemma split_at2 (A : Type) (l : list A) i : (S i < length l)%nat ->
  exists l1 e e' l2, l = l1 ++ e :: e' :: l2 /\ length l1 = i.
Proof.
  intros Hi. pose proof (firstn_skipn i l) as E.
  assert (HL : length (skipn i l) = (length l - i)%nat) by apply skipn_length.
  destruct (skipn i l) as [|e t] eqn:Es; [cbn in HL; lia|].
  destruct t as [|e' l2]; [cbn in HL; lia|].
  exists (firstn i l), e, e', l2. split; [symmetry; exact E|].
  apply firstn_length_le. lia.
Qed.

Lemma nth_mid2 (A : Type) (l1 l2 : list A) a b d :
  nth (length l1) (l1 ++ a :: b :: l2) d = a /\ nth (S (length l1)) (l1 ++ a :: b :: l2) d = b.
Proof.
  split; [apply nth_middle|].
  replace (l1 ++ a :: b :: l2) with ((l1 ++ [a]) ++ b :: l2) by (rewrite <- app_assoc; reflexivity).
  replace (S (length l1)) with (length (l1 ++ [a])) by (rewrite app_length; cbn; lia).
  apply nth_middle.
Qed.

(* generic: the data in fit order, values x0 given per position, Forall2 Qeq to
   per-block values [svals ss] *)
Lemma tie_vals_of_stack (I : GInst)
  (Vp_conv : forall e t, g_good I e -> g_Vp I e t >= 0 -> g_yv I e <= t)
  (Vm_conv : forall e t, g_good I e -> Neg (g_strict I) (g_Vm I e t) -> t <= g_yv I e)
  (l : list (g_elt I)) (inc : bool) stk ss x0 :
  stack_ok I stk -> flat (g_elt I) stk = dir inc l -> map fst ss = map bel (rev stk) ->
  Forall2 Qeq x0 (svals (g_elt I) ss) -> length x0 = length l ->
  tie_vals inc (map (g_yv I) l) (dir inc x0).
Proof.
  intros Hok Hflat E1 HQ HL i Hi Hy. rewrite map_length in Hi.
  destruct (split_at2 _ l i Hi) as (l1 & e & e' & l2 & El & Hl1).
  assert (Ey : nth i (map (g_yv I) l) 0 = g_yv I e /\ nth (S i) (map (g_yv I) l) 0 = g_yv I e').
  { rewrite El, map_app. cbn [map]. rewrite <- Hl1, <- (map_length (g_yv I) l1). apply nth_mid2. }
  destruct Ey as [Ey1 Ey2]. rewrite Ey1, Ey2 in Hy.
  assert (Hn : length l = (i + 2 + length l2)%nat).
  { rewrite El, app_length. cbn [length]. lia. }
  destruct inc; cbn [dir ydir] in *.
  - pose proof (tie_stack_gen I Vp_conv Vm_conv stk ss Hok E1 l1 e e' l2
                  ltac:(rewrite Hflat; exact El) Hy) as HT.
    rewrite Hl1 in HT. rewrite (F2_nth _ _ HQ i), (F2_nth _ _ HQ (S i)), HT. reflexivity.
  - assert (Er : rev l = rev l2 ++ e' :: e :: rev l1).
    { rewrite El, rev_app_distr. cbn [rev]. rewrite <- !app_assoc. reflexivity. }
    pose proof (tie_stack_gen I Vp_conv Vm_conv stk ss Hok E1 (rev l2) e' e (rev l1)
                  ltac:(rewrite Hflat; exact Er) Hy) as HT.
    rewrite rev_length in HT.
    rewrite !rev_nth by lia. rewrite HL, Hn.
    replace (i + 2 + length l2 - S i)%nat with (S (length l2)) by lia.
    replace (i + 2 + length l2 - S (S i))%nat with (length l2) by lia.
    rewrite (F2_nth _ _ HQ (length l2)), (F2_nth _ _ HQ (S (length l2))), HT. reflexivity.
Qed.

(* mean and expectile: every successful run *)
Lemma tie_vals_run (I : GInst)
  (Vp_conv : forall e t, g_good I e -> g_Vp I e t >= 0 -> g_yv I e <= t)
  (Vm_conv : forall e t, g_good I e -> Neg (g_strict I) (g_Vm I e t) -> t <= g_yv I e)
  l inc x r : run I l inc x r -> tie_vals inc (map (g_yv I) l) x.
Proof.
  intros HR. pose proof (run_length _ _ _ _ _ HR) as HL.
  destruct HR as (stk & x0 & _ & Hok & Hflat & HQ & Ex & _).
  set (ss := map (fun b => (bel b, bv b)) (rev stk)).
  assert (E1 : map fst ss = map bel (rev stk)) by (unfold ss; rewrite map_map; reflexivity).
  assert (E2 : svals (g_elt I) ss = expand (g_elt I) stk).
  { unfold ss, svals, expand. rewrite flat_map_concat_map, map_map, <- flat_map_concat_map. reflexivity. }
  rewrite Ex. apply (tie_vals_of_stack I Vp_conv Vm_conv l inc stk ss x0 Hok Hflat E1).
  - rewrite E2. exact HQ.
  - rewrite Ex, dir_length in HL. exact HL.
Qed.

(* ================================================================== *)
(* E. what a successful call of isotonic_regression provides            *)
(* ================================================================== *)

(* a successful call had admissible arguments *)
Lemma iso_ok_inv f y w inc lvl x r : isotonic_regression y w inc f lvl = IOk (x, r) ->
  y <> [] /\ valid_w y w /\
  (f = IFmean \/ (f = IFexpectile /\ 0 < lvl /\ lvl < 1) \/
   (f = IFquantile /\ (0 < lvl /\ lvl < 1) /\ w = None) \/ (f = IFmedian /\ w = None)).
Proof.
  intros H.
  assert (Hy : y <> []).
  { intros ->. unfold isotonic_regression in H.
    destruct f; try discriminate H;
      try (destruct (Qle_bool lvl 0 || Qle_bool 1 lvl); [discriminate H|]);
      cbn [andb] in H; cbv zeta in H;
      destruct w as [w|]; cbn [combine map length] in H;
      try discriminate H;
      try (destruct (negb (Nat.eqb 0 (length w))); [discriminate H|];
           destruct (negb (all_pos w)); [discriminate H|]);
      cbn [combine] in H; destruct inc; cbn in H; discriminate H. }
  split; [exact Hy|].
  assert (Hlevel : forall b, (b && (Qle_bool lvl 0 || Qle_bool 1 lvl)) = false -> b = true -> 0 < lvl /\ lvl < 1).
  { intros b Hb ->. cbn [andb] in Hb. apply orb_false_elim in Hb. destruct Hb as [H0 H1].
    apply Qle_bool_false in H0. apply Qle_bool_false in H1. split; assumption. }
  assert (Hw : forall w', (if negb (Nat.eqb (length y) (length w')) then false
                           else if negb (all_pos w') then false else true) = true ->
                          valid_w y (Some w')).
  { intros w' Hc. destruct (Nat.eqb (length y) (length w')) eqn:E1; [|discriminate Hc].
    destruct (all_pos w') eqn:E2; [|discriminate Hc]. cbn [valid_w].
    apply Nat.eqb_eq in E1. split; [symmetry; exact E1|].
    apply Forall_forall. intros q Hq. unfold all_pos in E2. rewrite forallb_forall in E2.
    pose proof (E2 q Hq) as Hq2. apply negb_true_iff in Hq2. apply Qle_bool_false in Hq2. exact Hq2. }
  unfold isotonic_regression in H.
  destruct f; try discriminate H.
  - (* mean *) cbn [andb] in H. cbv zeta in H. split; [|left; reflexivity].
    destruct w as [w|]; [|exact Logic.I]. apply Hw.
    destruct (negb (Nat.eqb (length y) (length w))); [discriminate H|].
    destruct (negb (all_pos w)); [discriminate H| reflexivity].
  - (* median *) cbn [andb] in H. cbv zeta in H.
    destruct w as [w|]; [discriminate H|]. split; [exact Logic.I| right; right; right; split; reflexivity].
  - (* expectile *)
    destruct (true && (Qle_bool lvl 0 || Qle_bool 1 lvl)) eqn:EL; [discriminate H|].
    pose proof (Hlevel true EL eq_refl) as HL. cbv zeta in H.
    split; [|right; left; split; [reflexivity| exact HL]].
    destruct w as [w|]; [|exact Logic.I]. apply Hw.
    destruct (negb (Nat.eqb (length y) (length w))); [discriminate H|].
    destruct (negb (all_pos w)); [discriminate H| reflexivity].
  - (* quantile *)
    destruct (true && (Qle_bool lvl 0 || Qle_bool 1 lvl)) eqn:EL; [discriminate H|].
    pose proof (Hlevel true EL eq_refl) as HL. cbv zeta in H.
    destruct w as [w|]; [discriminate H|].
    split; [exact Logic.I| right; right; left; split; [reflexivity| split; [exact HL| reflexivity]]].
Qed.

(* ---------- the quantile path: contract and tie consistency ---------- *)

Lemma map_ey_udata y : map ey (udata y) = y.
Proof.
  unfold udata. change (map ey (combine y (map (fun _ => 1) y))) with (map fst (combine y (map (fun _ : Q => 1) y))).
  apply map_fst_combine. rewrite map_length. reflexivity.
Qed.

(* length, order and block vector of the quantile path, without the detour
   through the real-valued loss (keeps the world-Q theorems axiom-free) *)
Lemma qp_basic a (Ha : 0 < a /\ a < 1) l x0 r0 : quantile_path a l = Some (x0, r0) ->
  l <> [] /\ length x0 = length l /\ sortedQ x0 /\ x0 <> [] /\ r0 = rvec_of_values x0.
Proof.
  intros HP.
  destruct (qp_struct a Ha l x0 r0 HP) as (Ln & stk & ps & _ & _ & Hflat & Hfst & _ & HS & Hx & Hr).
  assert (Hlen : length x0 = length l).
  { rewrite Hx, xfit_length, Hfst. fold (flat elt stk). rewrite Hflat. reflexivity. }
  split; [exact Ln|]. split; [exact Hlen|].
  split; [rewrite Hx; apply SS_sortedQ, xfit_sorted; exact HS|].
  split; [|exact Hr].
  intros E. rewrite E in Hlen. destruct l; [congruence| discriminate Hlen].
Qed.

Lemma quantile_path_contract a (Ha : 0 < a /\ a < 1) l x0 r0 :
  quantile_path a l = Some (x0, r0) -> contract (map ey l) x0 r0.
Proof.
  intros HP. destruct (qp_basic a Ha l x0 r0 HP) as (Ln & Hlen & _ & Hx & Hr).
  pose proof (rvec_of_values_contract x0 Hx) as HC. cbv zeta in HC. rewrite <- Hr in HC.
  destruct HC as (C1 & C2 & C3 & C4 & C5).
  unfold contract. rewrite map_length.
  split; [exact Hlen|]. split; [exact C1|]. split; [rewrite C2; exact Hlen|].
  split; [exact C3|]. split; [exact C4|]. split; [exact C5|].
  exact (quantile_path_range a Ha l x0 r0 Ln HP).
Qed.

Lemma quantile_path_tie a (Ha : 0 < a /\ a < 1) y inc x0 r0 :
  quantile_path a (dir inc (udata y)) = Some (x0, r0) ->
  tie_vals inc y (dir inc x0).
Proof.
  intros HP.
  destruct (qp_struct a Ha _ x0 r0 HP) as (Ln & stk & ps & _ & Hok & Hflat & Hfst & _ & _ & Hx & _).
  destruct (qp_basic a Ha _ x0 r0 HP) as (_ & Hlen & _).
  set (ss := map (fun p : blk elt * Q => (bel (fst p), mval p)) ps).
  assert (E1 : map fst ss = map bel (rev stk)).
  { unfold ss. rewrite map_map. cbn [fst]. rewrite <- Hfst, map_map. reflexivity. }
  assert (E2 : svals elt ss = x0).
  { rewrite Hx. unfold ss, svals, xfit. rewrite flat_map_concat_map, map_map, <- flat_map_concat_map. reflexivity. }
  rewrite <- (map_ey_udata y) at 1.
  apply (tie_vals_of_stack (quantile_inst a Ha) (quant_Vp_conv a Ha) (quant_Vm_conv a Ha)
           (udata y) inc stk ss x0 Hok Hflat E1).
  - change (Forall2 Qeq x0 (svals elt ss)). rewrite E2. apply Forall2_Qeq_refl.
  - rewrite Hlen. apply dir_length.
Qed.

Lemma contract_dir y x0 r0 inc : contract (dir inc y) x0 r0 ->
  contract y (dir inc x0)
    (if inc then r0 else map (fun k => (length x0 - k)%nat) (rev r0)).
Proof.
  destruct inc; cbn [dir]; [tauto|]. intros HC. apply contract_rev in HC.
  rewrite rev_involutive in HC. exact HC.
Qed.

Lemma sortedQ_dir inc x0 : sortedQ x0 -> IsoProps.monoQ inc (dir inc x0).
Proof. intros HS. rewrite monoQ_dir, dir_invol. exact HS. Qed.

Lemma iso_quantile_facts y inc lvl x r : y <> [] -> 0 < lvl /\ lvl < 1 ->
  isotonic_regression y None inc IFquantile lvl = IOk (x, r) ->
  contract y x r /\ IsoProps.monoQ inc x /\ tie_vals inc y x.
Proof.
  intros Hn Hl H. rewrite (iso_quantile_unfold y inc lvl Hl) in H.
  change (if inc then udata y else rev (udata y)) with (dir inc (udata y)) in H.
  destruct (quantile_path lvl (dir inc (udata y))) as [[x0 r0]|] eqn:HP; [|discriminate H].
  assert (Ex : x = dir inc x0 /\ r = (if inc then r0 else map (fun k => (length x0 - k)%nat) (rev r0))).
  { destruct inc; injection H as <- <-; split; reflexivity. }
  destruct Ex as [-> ->].
  assert (Ln : dir inc (udata y) <> []) by (apply dir_ne, udata_nonempty; exact Hn).
  pose proof (quantile_path_contract lvl Hl _ x0 r0 HP) as HC.
  rewrite map_dir, map_ey_udata in HC.
  destruct (qp_basic lvl Hl _ x0 r0 HP) as (_ & _ & HS & _).
  split; [exact (contract_dir y x0 r0 inc HC)|]. split; [exact (sortedQ_dir inc x0 HS)|].
  exact (quantile_path_tie lvl Hl y inc x0 r0 HP).
Qed.

(* ---------- all four functionals ---------- *)

Theorem iso_facts f y w inc lvl x r : isotonic_regression y w inc f lvl = IOk (x, r) ->
  contract y x r /\ IsoProps.monoQ inc x /\ tie_vals inc y x.
Proof.
  intros H. destruct (iso_ok_inv f y w inc lvl x r H) as (Hn & Hv & [->|[[-> Hl]|[(-> & Hl & ->)|[-> ->]]]]).
  - pose proof (run_mean y w inc lvl x r Hn Hv H) as HR.
    pose proof (run_contract _ _ _ _ _ HR) as HC.
    pose proof (tie_vals_run mean_inst mean_Vp_conv mean_Vm_conv _ _ _ _ HR) as HT.
    change (map (g_yv mean_inst) (data y w)) with (map ey (data y w)) in HC, HT.
    rewrite (map_ey_data y w Hv) in HC, HT.
    split; [exact HC|]. split; [exact (run_mono _ _ _ _ _ HR)| exact HT].
  - pose proof (run_expectile y w inc lvl Hl x r Hn Hv H) as HR.
    pose proof (run_contract _ _ _ _ _ HR) as HC.
    pose proof (tie_vals_run (expectile_inst lvl Hl) (exp_Vp_conv lvl Hl) (exp_Vm_conv lvl Hl) _ _ _ _ HR) as HT.
    change (map (g_yv (expectile_inst lvl Hl)) (data y w)) with (map ey (data y w)) in HC, HT.
    rewrite (map_ey_data y w Hv) in HC, HT.
    split; [exact HC|]. split; [exact (run_mono _ _ _ _ _ HR)| exact HT].
  - exact (iso_quantile_facts y inc lvl x r Hn Hl H).
  - rewrite iso_median_is_quantile_half in H.
    apply (iso_quantile_facts y inc (1#2) x r Hn); [split; reflexivity| exact H].
Qed.

(* ---------- unfolding `fit` ---------- *)

Definition fit_Xs (X y : list Q) (w : option (list Q)) (inc : bool) : list Q :=
  map rX (sorted_rows X y w inc).
Definition fit_ys (X y : list Q) (w : option (list Q)) (inc : bool) : list Q :=
  map rY (sorted_rows X y w inc).
Definition fit_ws (X y : list Q) (w : option (list Q)) (inc : bool) : option (list Q) :=
  match w with Some _ => Some (map rW (sorted_rows X y w inc)) | None => None end.

Lemma fit_inv X y w inc f lvl ft : fit X y w inc f lvl = FOk ft ->
  length X = length y /\
  exists yiso r idx,
    isotonic_regression (fit_ys X y w inc) (fit_ws X y w inc) inc f lvl = IOk (yiso, r) /\
    thr_idx (fit_Xs X y w inc) yiso r = Some idx /\
    X_thresholds ft = pick (fit_Xs X y w inc) idx /\ y_thresholds ft = pick yiso idx.
Proof.
  unfold fit. intros H.
  destruct (Nat.eqb (length X) (length y)) eqn:E1; [|discriminate H]. cbn [negb] in H.
  apply Nat.eqb_eq in E1. split; [exact E1|].
  destruct (match w with Some w' => negb (Nat.eqb (length w') (length y)) | None => false end);
    [discriminate H|].
  cbv zeta in H. fold (fit_ys X y w inc) (fit_Xs X y w inc) (fit_ws X y w inc) in H.
  destruct (isotonic_regression (fit_ys X y w inc) (fit_ws X y w inc) inc f lvl) as [[yiso r]|e] eqn:EI;
    [|discriminate H].
  destruct (thr_idx (fit_Xs X y w inc) yiso r) as [idx|] eqn:ET; [|discriminate H].
  injection H as <-. exists yiso, r, idx.
  split; [reflexivity|]. split; [exact ET|]. split; reflexivity.
Qed.

Lemma sortedQ_SS : forall l, sortedQ l -> StronglySorted Qle l.
Proof.
  induction l as [|a l IH]; intros HS; [constructor|].
  destruct l as [|b l']; [constructor; constructor|].
  destruct HS as [Hab HS']. pose proof (IH HS') as H1.
  constructor; [exact H1|]. constructor; [exact Hab|].
  destruct (StronglySorted_inv H1) as [_ Hb].
  eapply Forall_impl; [|exact Hb]. intros z Hz. cbv beta in Hz. lra.
Qed.

Lemma monoQ_nth inc x : IsoProps.monoQ inc x ->
  forall i j, (i <= j)%nat -> (j < length x)%nat -> dle inc (nth i x 0) (nth j x 0).
Proof.
  intros HM i j Hij Hj.
  destruct (Nat.eq_dec i j) as [->|Hne]; [apply dle_refl|].
  destruct inc; cbn [IsoProps.monoQ dle] in *.
  - apply (SS_nth Q Qle 0 x (sortedQ_SS x HM) i j). lia.
  - pose proof (SS_nth Q Qle 0 (rev x) (sortedQ_SS _ HM) (length x - S j)%nat (length x - S i)%nat
                  ltac:(rewrite rev_length; lia)) as H1.
    rewrite !rev_nth in H1 by lia.
    replace (length x - S (length x - S j))%nat with j in H1 by lia.
    replace (length x - S (length x - S i))%nat with i in H1 by lia. exact H1.
Qed.

Definition row0 : row := mkrow 0 0 0.

Lemma nth_rX rows i : nth i (map rX rows) 0 = rX (nth i rows row0).
Proof. change 0 with (rX row0) at 1. apply map_nth. Qed.
Lemma nth_rY rows i : nth i (map rY rows) 0 = rY (nth i rows row0).
Proof. change 0 with (rY row0) at 1. apply map_nth. Qed.

(* a successful fit satisfies the hypotheses of section C *)
Theorem fit_ok_hyp X y w inc f lvl yiso r :
  isotonic_regression (fit_ys X y w inc) (fit_ws X y w inc) inc f lvl = IOk (yiso, r) ->
  fit_hyp inc (fit_Xs X y w inc) yiso r.
Proof.
  intros HI.
  destruct (iso_facts _ _ _ _ _ _ _ HI) as (HC & HM & HT).
  destruct (iso_ok_inv _ _ _ _ _ _ _ HI) as (Hne & _ & _).
  destruct HC as (Clen & Chd & Clast & CS & Cconst & Cdiff & _).
  set (rows := sorted_rows X y w inc) in *.
  assert (HS : StronglySorted (fun a b => row_le inc a b = true) rows) by apply sorted_rows_sorted.
  assert (LX : length (fit_Xs X y w inc) = length rows) by (unfold fit_Xs; apply map_length).
  assert (LY : length (fit_ys X y w inc) = length rows) by (unfold fit_ys; apply map_length).
  assert (Hrow : forall i j, (i < j)%nat -> (j < length rows)%nat ->
            row_le inc (nth i rows row0) (nth j rows row0) = true).
  { intros i j Hij Hj. apply (SS_nth row _ row0 rows HS i j). lia. }
  constructor.
  - intros E. apply Hne. unfold fit_Xs, fit_ys in *. fold rows in E |- *.
    destruct rows; [reflexivity| discriminate E].
  - rewrite Clen, LY, LX. reflexivity.
  - intros i j Hij Hj. rewrite LX in Hj. unfold fit_Xs. fold rows. rewrite !nth_rX.
    destruct (Nat.eq_dec i j) as [->|Hd]; [apply Qle_refl|].
    pose proof (Hrow i j ltac:(lia) Hj) as HL. apply row_le_spec in HL.
    destruct HL as [HL|[HL _]]; lra.
  - exact Chd.
  - rewrite Clast, LY, LX. reflexivity.
  - exact CS.
  - exact Cconst.
  - intros j Hj.
    set (b := nth (S j) r 0%nat).
    assert (Hjb : (nth j r 0 < b)%nat) by (apply (SS_nth nat lt 0%nat r CS j (S j)); lia).
    assert (Hbn : (b < length rows)%nat).
    { pose proof (SS_nth nat lt 0%nat r CS (S j) (S (S j)) ltac:(lia)) as H1.
      pose proof (SS_lt_le_last r (nth (S (S j)) r 0%nat) CS ltac:(apply nth_In; lia)) as H2.
      rewrite Clast, LY in H2. fold b in H1. lia. }
    unfold fit_Xs. fold rows. rewrite !nth_rX.
    pose proof (Hrow (b - 1)%nat b ltac:(lia) Hbn) as HL. apply row_le_spec in HL.
    destruct HL as [HL|[HLx HLy]]; [exact HL| exfalso].
    assert (HT1 : nth (b - 1) yiso 0 == nth b yiso 0).
    { pose proof (HT (b - 1)%nat) as HT1. replace (S (b - 1)) with b in HT1 by lia.
      apply HT1; [rewrite LY; exact Hbn|].
      unfold fit_ys. fold rows. rewrite !nth_rY. exact HLy. }
    apply (Cdiff j Hj). fold b.
    rewrite <- (Cconst j (b - 1)%nat ltac:(lia) ltac:(fold b; lia)). exact HT1.
  - apply monoQ_nth. exact HM.
Qed.

(* ================================================================== *)
(* E'. the theorems about fit / predict                                 *)
(* ================================================================== *)

Lemma dle_antisym inc a b : dle inc a b -> dle inc b a -> a == b.
Proof. destruct inc; simpl; lra. Qed.

Lemma fit_spec X y w inc f lvl ft : fit X y w inc f lvl = FOk ft ->
  exists yiso r idx,
    isotonic_regression (fit_ys X y w inc) (fit_ws X y w inc) inc f lvl = IOk (yiso, r) /\
    fit_hyp inc (fit_Xs X y w inc) yiso r /\
    thr_idx (fit_Xs X y w inc) yiso r = Some idx /\
    X_thresholds ft = pick (fit_Xs X y w inc) idx /\ y_thresholds ft = pick yiso idx /\
    thr_points ft = pts (fit_Xs X y w inc) yiso idx.
Proof.
  intros H. destruct (fit_inv _ _ _ _ _ _ _ H) as (_ & yiso & r & idx & HI & HT & EX & EY).
  exists yiso, r, idx. split; [exact HI|]. split; [exact (fit_ok_hyp _ _ _ _ _ _ _ _ HI)|].
  split; [exact HT|]. split; [exact EX|]. split; [exact EY|].
  unfold thr_points. rewrite EX, EY. apply combine_pick.
Qed.

(* the sorted frame is a permutation of the input rows *)
Theorem fit_rows_perm X y w inc :
  Permutation (sorted_rows X y w inc)
    (mk_rows X y (match w with Some w' => w' | None => map (fun _ => 1) y end)).
Proof. apply sorted_rows_perm. Qed.

(* thresholds: as many X as y, at least one, X non-decreasing, y monotone in
   the fitted direction; the first threshold is the first sorted row *)
Theorem fit_thresholds X y w inc f lvl ft : fit X y w inc f lvl = FOk ft ->
  length (X_thresholds ft) = length (y_thresholds ft) /\ X_thresholds ft <> [] /\
  mono_pts inc (thr_points ft) /\
  StronglySorted Qle (X_thresholds ft).
Proof.
  intros H. destruct (fit_spec _ _ _ _ _ _ _ H) as (yiso & r & idx & HI & HH & HT & EX & EY & EP).
  destruct (thr_idx_some _ _ _ _ HH) as (idx' & HT' & S1 & F1 & _ & Hne). rewrite HT in HT'. injection HT' as <-.
  pose proof (thr_mono_pts _ _ _ _ HH idx HT) as HM.
  split; [rewrite EX, EY; unfold pick; rewrite !map_length; reflexivity|].
  split; [rewrite EX; unfold pick; destruct idx; [congruence| discriminate]|].
  split; [rewrite EP; exact HM|].
  rewrite EX. clear - HM. unfold mono_pts in HM. unfold pick.
  induction idx as [|i idx IH]; [constructor|].
  cbn [pts map] in HM |- *. destruct (StronglySorted_inv HM) as [HM' Hi].
  constructor; [exact (IH HM')|].
  apply Forall_forall. intros z Hz. apply in_map_iff in Hz. destruct Hz as (j & <- & Hj).
  rewrite Forall_forall in Hi. pose proof (Hi (pt (fit_Xs X y w inc) yiso j) (in_map _ _ _ Hj)) as [Hx _].
  exact Hx.
Qed.

(* predictions exist (are finite rationals) for every query and every dtype of X
   (since fix 7007a15 interp1d always evaluates with numpy.interp = [predict]) *)
Theorem predict_total X y w inc f lvl ft q : fit X y w inc f lvl = FOk ft ->
  exists v, predict ft q = Some v.
Proof.
  intros H. destruct (fit_thresholds _ _ _ _ _ _ _ H) as (HL & Hne & _).
  unfold predict, thr_points. apply interp_np_some.
  destruct (X_thresholds ft) as [|a xs]; [congruence|].
  destruct (y_thresholds ft) as [|b bs]; [discriminate HL| discriminate].
Qed.

(* prediction at the X of every training row = the fitted value of that row *)
Theorem predict_at_training X y w inc f lvl ft : fit X y w inc f lvl = FOk ft ->
  exists yiso r,
    isotonic_regression (fit_ys X y w inc) (fit_ws X y w inc) inc f lvl = IOk (yiso, r) /\
    forall k, (k < length X)%nat ->
      exists v, predict ft (nth k (fit_Xs X y w inc) 0) = Some v /\ v == nth k yiso 0.
Proof.
  intros H. destruct (fit_spec _ _ _ _ _ _ _ H) as (yiso & r & idx & HI & HH & HT & _ & _ & EP).
  exists yiso, r. split; [exact HI|]. intros k Hk. unfold predict. rewrite EP.
  apply (at_training _ _ _ _ HH idx k HT).
  unfold fit_Xs. rewrite map_length. unfold sorted_rows. rewrite sort_length.
  unfold mk_rows. rewrite map_length, !combine_length.
  destruct (fit_inv _ _ _ _ _ _ _ H) as (EL & _).
  unfold fit in H. rewrite EL, Nat.eqb_refl in H. cbn [negb] in H.
  destruct w as [w'|].
  - destruct (Nat.eqb (length w') (length y)) eqn:Ew; [|discriminate H].
    apply Nat.eqb_eq in Ew. lia.
  - rewrite map_length. lia.
Qed.

(* monotone in X in the fitted direction, for every pair of queries *)
Theorem predict_monotone X y w inc f lvl ft q1 q2 v1 v2 : fit X y w inc f lvl = FOk ft ->
  q1 <= q2 -> predict ft q1 = Some v1 -> predict ft q2 = Some v2 -> dle inc v1 v2.
Proof.
  intros H Hq E1 E2. destruct (fit_thresholds _ _ _ _ _ _ _ H) as (_ & _ & HM & _).
  exact (interp_np_mono inc _ q1 q2 v1 v2 HM Hq E1 E2).
Qed.

(* predict is a function of the VALUE of X *)
Theorem predict_proper X y w inc f lvl ft q1 q2 v1 v2 : fit X y w inc f lvl = FOk ft ->
  q1 == q2 -> predict ft q1 = Some v1 -> predict ft q2 = Some v2 -> v1 == v2.
Proof.
  intros H Hq E1 E2. apply (dle_antisym inc).
  - apply (predict_monotone _ _ _ _ _ _ _ q1 q2 v1 v2 H); [lra| exact E1| exact E2].
  - apply (predict_monotone _ _ _ _ _ _ _ q2 q1 v2 v1 H); [lra| exact E2| exact E1].
Qed.

(* tie consistency: sorted rows with equal X have equal fitted values *)
Theorem fit_tie_consistent X y w inc f lvl ft : fit X y w inc f lvl = FOk ft ->
  exists yiso r,
    isotonic_regression (fit_ys X y w inc) (fit_ws X y w inc) inc f lvl = IOk (yiso, r) /\
    forall i j, (i < length X)%nat -> (j < length X)%nat ->
      nth i (fit_Xs X y w inc) 0 == nth j (fit_Xs X y w inc) 0 -> nth i yiso 0 == nth j yiso 0.
Proof.
  intros H. destruct (predict_at_training _ _ _ _ _ _ _ H) as (yiso & r & HI & HP).
  exists yiso, r. split; [exact HI|]. intros i j Hi Hj HX.
  destruct (HP i Hi) as (vi & Ei & Evi). destruct (HP j Hj) as (vj & Ej & Evj).
  rewrite <- Evi, <- Evj. exact (predict_proper _ _ _ _ _ _ _ _ _ vi vj H HX Ei Ej).
Qed.

(* literally: outside the threshold range the prediction is the first / last
   y threshold *)
Theorem predict_fill X y w inc f lvl ft q : fit X y w inc f lvl = FOk ft ->
  (q < hd 0 (X_thresholds ft) -> predict ft q = Some (hd 0 (y_thresholds ft))) /\
  (last (X_thresholds ft) 0 < q -> predict ft q = Some (last (y_thresholds ft) 0)).
Proof.
  intros H. destruct (fit_thresholds _ _ _ _ _ _ _ H) as (HL & Hne & HM & HS).
  unfold predict, thr_points in *.
  destruct (X_thresholds ft) as [|x0 xs]; [congruence|].
  destruct (y_thresholds ft) as [|y0 ys]; [discriminate HL|]. cbn [combine hd] in *.
  assert (Elast : last (combine xs ys) (x0, y0) = (last (x0 :: xs) 0, last (y0 :: ys) 0)).
  { rewrite !last_default_cons. injection HL as HL. clear - HL.
    revert x0 y0 ys HL. induction xs as [|a xs IH]; intros x0 y0 ys HL.
    - destruct ys; [reflexivity| discriminate HL].
    - destruct ys as [|b ys]; [discriminate HL|]. injection HL as HL.
      cbn [combine]. rewrite !last_default_cons. apply IH. exact HL. }
  split.
  - intros Hq. apply interp_np_below. exact Hq.
  - intros Hq.
    assert (H0 : x0 <= q).
    { pose proof (sorted_last_ge inc x0 y0 _ HM) as HF. apply Forall_inv in HF. cbn [fst] in HF.
      rewrite Elast in HF. cbn [fst] in HF. lra. }
    rewrite (interp_np_above x0 y0 _ q H0) by (rewrite Elast; exact Hq).
    rewrite Elast. reflexivity.
Qed.

(* constant beyond the training range: at or below the smallest training X the
   prediction is the fitted value of the first sorted row, at or above the
   largest training X it is the fitted value of the last sorted row *)
Theorem predict_clipped X y w inc f lvl ft : fit X y w inc f lvl = FOk ft ->
  exists yiso r,
    isotonic_regression (fit_ys X y w inc) (fit_ws X y w inc) inc f lvl = IOk (yiso, r) /\
    forall q v, predict ft q = Some v ->
      (q <= nth 0 (fit_Xs X y w inc) 0 -> v == nth 0 yiso 0) /\
      (nth (length X - 1) (fit_Xs X y w inc) 0 <= q -> v == nth (length X - 1) yiso 0).
Proof.
  intros H. destruct (predict_at_training _ _ _ _ _ _ _ H) as (yiso & r & HI & HP).
  destruct (fit_spec _ _ _ _ _ _ _ H) as (yiso' & r' & idx & HI' & HH & HT & EX & EY & EP).
  rewrite HI in HI'. injection HI' as <- <-.
  exists yiso, r. split; [exact HI|]. intros q v Ev.
  destruct (thr_idx_some _ _ _ _ HH) as (idx' & HT' & S1 & F1 & Hhd & Hne). rewrite HT in HT'. injection HT' as <-.
  pose proof (thr_mono_pts _ _ _ _ HH idx HT) as HM.
  assert (HLX : length (fit_Xs X y w inc) = length X).
  { destruct (fit_inv _ _ _ _ _ _ _ H) as (EL & _).
    unfold fit_Xs. rewrite map_length. unfold sorted_rows. rewrite sort_length.
    unfold mk_rows. rewrite map_length, !combine_length.
    unfold fit in H. rewrite EL, Nat.eqb_refl in H. cbn [negb] in H.
    destruct w as [w'|].
    - destruct (Nat.eqb (length w') (length y)) eqn:Ew; [|discriminate H].
      apply Nat.eqb_eq in Ew. lia.
    - rewrite map_length. lia. }
  assert (Hn : (0 < length X)%nat).
  { rewrite <- HLX. destruct HH as [Hne' _]. destruct (fit_Xs X y w inc); [congruence| cbn; lia]. }
  (* the range of the predictions: between the first and the last threshold value *)
  destruct idx as [|i0 idx]; [congruence|]. cbn [hd] in Hhd. subst i0.
  unfold predict in Ev. rewrite EP in Ev.
  assert (Ev' : predict ft q = Some v) by (unfold predict; rewrite EP; exact Ev).
  cbn [pts map] in Ev, HM. unfold pt at 1 in Ev. unfold pt at 1 in HM.
  destruct (interp_np_range inc _ _ _ q v HM Ev) as [R1 R2].
  split.
  - intros Hq. destruct (HP 0%nat Hn) as (v0 & E0 & Ev0).
    apply (dle_antisym inc); [|exact R1].
    apply (dle_eq inc v v0 v (nth 0 yiso 0)); [reflexivity| exact Ev0|].
    exact (predict_monotone _ _ _ _ _ _ _ q _ v v0 H Hq Ev' E0).
  - intros Hq. destruct (HP (length X - 1)%nat ltac:(lia)) as (vn & En & Evn).
    apply (dle_antisym inc).
    + (* v is at most the last threshold value, which is a fitted value *)
      eapply dle_trans; [exact R2|].
      set (p0 := (nth 0 (fit_Xs X y w inc) 0, nth 0 yiso 0)).
      pose proof (last_in_cons _ (map (pt (fit_Xs X y w inc) yiso) idx) p0) as Hin.
      change p0 with (pt (fit_Xs X y w inc) yiso 0) in Hin at 2.
      change (pt (fit_Xs X y w inc) yiso 0 :: map (pt (fit_Xs X y w inc) yiso) idx)
        with (map (pt (fit_Xs X y w inc) yiso) (0%nat :: idx)) in Hin.
      apply in_map_iff in Hin. destruct Hin as (j & Ej & Hj).
      rewrite <- Ej. unfold pt. cbn [snd].
      rewrite Forall_forall in F1. pose proof (F1 j Hj) as Hjn. rewrite HLX in Hjn.
      apply (fh_mono _ _ _ _ HH); [lia| rewrite (fh_len _ _ _ _ HH), HLX; lia].
    + apply (dle_eq inc vn v (nth (length X - 1) yiso 0) v); [exact Evn| reflexivity|].
      exact (predict_monotone _ _ _ _ _ _ _ _ q vn v H Hq En Ev').
Qed.

Lemma fit_Xs_length X y w inc f lvl ft : fit X y w inc f lvl = FOk ft ->
  length (fit_Xs X y w inc) = length X /\ length (fit_ys X y w inc) = length X.
Proof.
  intros H. destruct (fit_inv _ _ _ _ _ _ _ H) as (EL & _).
  unfold fit_Xs, fit_ys. rewrite !map_length. unfold sorted_rows. rewrite sort_length.
  unfold mk_rows. rewrite map_length, !combine_length.
  unfold fit in H. rewrite EL, Nat.eqb_refl in H. cbn [negb] in H.
  destruct w as [w'|].
  - destruct (Nat.eqb (length w') (length y)) eqn:Ew; [|discriminate H].
    apply Nat.eqb_eq in Ew. lia.
  - rewrite map_length. lia.
Qed.

(* between neighbouring training points the prediction lies between their
   fitted values *)
Theorem predict_between_neighbours X y w inc f lvl ft : fit X y w inc f lvl = FOk ft ->
  exists yiso r,
    isotonic_regression (fit_ys X y w inc) (fit_ws X y w inc) inc f lvl = IOk (yiso, r) /\
    forall k q v, (S k < length X)%nat ->
      nth k (fit_Xs X y w inc) 0 <= q -> q <= nth (S k) (fit_Xs X y w inc) 0 ->
      predict ft q = Some v ->
      dle inc (nth k yiso 0) v /\ dle inc v (nth (S k) yiso 0).
Proof.
  intros H. destruct (predict_at_training _ _ _ _ _ _ _ H) as (yiso & r & HI & HP).
  exists yiso, r. split; [exact HI|]. intros k q v Hk H1 H2 Ev.
  destruct (HP k ltac:(lia)) as (v1 & E1 & Ev1). destruct (HP (S k) Hk) as (v2 & E2 & Ev2).
  split.
  - apply (dle_eq inc v1 v); [exact Ev1| reflexivity|].
    exact (predict_monotone _ _ _ _ _ _ _ _ q v1 v H H1 E1 Ev).
  - apply (dle_eq inc v v2); [reflexivity| exact Ev2|].
    exact (predict_monotone _ _ _ _ _ _ _ q _ v v2 H H2 Ev E2).
Qed.

(* between neighbouring thresholds the prediction lies between their values *)
Theorem predict_between_thresholds X y w inc f lvl ft q v : fit X y w inc f lvl = FOk ft ->
  hd 0 (X_thresholds ft) <= q -> predict ft q = Some v ->
  let ps := thr_points ft in
  (exists i, (S i < length ps)%nat /\
     fst (nth i ps (0, 0)) <= q /\ q < fst (nth (S i) ps (0, 0)) /\
     betw (snd (nth i ps (0, 0))) v (snd (nth (S i) ps (0, 0)))) \/
  (fst (last ps (0, 0)) <= q /\ v = snd (last ps (0, 0))).
Proof.
  intros H Hq Ev ps. destruct (fit_thresholds _ _ _ _ _ _ _ H) as (HL & Hne & HM & _).
  unfold predict in Ev. fold ps in Ev, HM. unfold ps, thr_points in *.
  destruct (X_thresholds ft) as [|x0 xs]; [congruence|].
  destruct (y_thresholds ft) as [|y0 ys]; [discriminate HL|]. cbn [combine hd] in *.
  rewrite (interp_np_inside inc x0 y0 _ q HM Hq) in Ev. injection Ev as <-.
  exact (interp_from_between (combine xs ys) x0 y0 q Hq).
Qed.

(* ================================================================== *)
(* F. optimal among monotone FUNCTIONS OF X                             *)
(* ================================================================== *)
From Coq Require Import Reals Qreals.
Open Scope Q_scope.

(* a real function of X, monotone in the direction of the fit *)
Definition dmonoR (inc : bool) (g : Q -> R) : Prop :=
  forall a b, a <= b -> if inc then (g a <= g b)%R else (g b <= g a)%R.

Lemma sortedR_map (R0 : Q -> Q -> Prop) (g : Q -> R) l : StronglySorted R0 l ->
  (forall a b, R0 a b -> (g a <= g b)%R) -> sortedR (map g l).
Proof.
  intros HS Hg. induction HS as [|a l HS IH Ha]; [exact Logic.I|].
  destruct l as [|b l']; [exact Logic.I|].
  cbn [map sortedR]. split; [apply Hg; exact (Forall_inv Ha)| exact IH].
Qed.

Lemma fit_Xs_SS X y w inc : StronglySorted Qle (fit_Xs X y w inc).
Proof.
  unfold fit_Xs. apply SS_map.
  eapply SS_impl; [|apply sorted_rows_sorted].
  intros a b Hab. cbv beta in Hab. apply row_le_spec in Hab. destruct Hab as [Hl|[He _]]; lra.
Qed.

(* evaluated at the sorted X, a monotone function of X is a monotone sequence *)
Lemma fX_mono X y w inc g : dmonoR inc g -> IsoProps.monoR inc (map g (fit_Xs X y w inc)).
Proof.
  intros Hg. pose proof (fit_Xs_SS X y w inc) as HS. destruct inc; cbn [IsoProps.monoR].
  - apply (sortedR_map Qle g _ HS). intros a b Hab. exact (Hg a b Hab).
  - rewrite <- map_rev. apply (sortedR_map (fun a b => b <= a) g _ (SS_rev _ _ _ HS)).
    intros a b Hab. exact (Hg b a Hab).
Qed.

(* mean: the fitted values (which ARE a function of X: [predict_at_training],
   [fit_tie_consistent]) minimise the weighted squared error among all monotone
   real functions of X evaluated at the training rows, with the Pythagorean gap *)
Theorem fit_optimal_fX_mean X y w inc lvl ft : fit X y w inc IFmean lvl = FOk ft ->
  exists yiso r,
    isotonic_regression (fit_ys X y w inc) (fit_ws X y w inc) inc IFmean lvl = IOk (yiso, r) /\
    forall g : Q -> R, dmonoR inc g ->
      let d := data (fit_ys X y w inc) (fit_ws X y w inc) in
      let u := map g (fit_Xs X y w inc) in
      (lossSq d u >= lossSq d (map Q2R yiso) + wdist d u (map Q2R yiso))%R.
Proof.
  intros H. destruct (fit_inv _ _ _ _ _ _ _ H) as (_ & yiso & r & idx & HI & _).
  exists yiso, r. split; [exact HI|]. intros g Hg d u.
  destruct (iso_ok_inv _ _ _ _ _ _ _ HI) as (Hn & Hv & _).
  destruct (iso_mean_optimal _ _ _ _ _ _ Hn Hv HI) as (_ & _ & HO).
  apply HO.
  - unfold u. rewrite map_length. destruct (fit_Xs_length _ _ _ _ _ _ _ H) as [E1 E2]. congruence.
  - apply fX_mono. exact Hg.
Qed.

Theorem fit_optimal_fX_expectile X y w inc lvl ft : fit X y w inc IFexpectile lvl = FOk ft ->
  exists yiso r,
    isotonic_regression (fit_ys X y w inc) (fit_ws X y w inc) inc IFexpectile lvl = IOk (yiso, r) /\
    forall g : Q -> R, dmonoR inc g ->
      let d := data (fit_ys X y w inc) (fit_ws X y w inc) in
      let u := map g (fit_Xs X y w inc) in
      (lossAs lvl d u >= lossAs lvl d (map Q2R yiso)
         + Rmin (Q2R lvl) (1 - Q2R lvl) * wdist d u (map Q2R yiso))%R.
Proof.
  intros H. destruct (fit_inv _ _ _ _ _ _ _ H) as (_ & yiso & r & idx & HI & _).
  exists yiso, r. split; [exact HI|]. intros g Hg d u.
  destruct (iso_ok_inv _ _ _ _ _ _ _ HI) as (Hn & Hv & [C|[[_ Hl]|[(C & _)|[C _]]]]); try discriminate C.
  destruct (iso_expectile_optimal _ _ _ _ _ _ Hn Hv Hl HI) as (_ & _ & HO).
  apply HO.
  - unfold u. rewrite map_length. destruct (fit_Xs_length _ _ _ _ _ _ _ H) as [E1 E2]. congruence.
  - apply fX_mono. exact Hg.
Qed.

(* quantile (no weights): minimal pinball loss among monotone functions of X *)
Theorem fit_optimal_fX_quantile X y inc lvl ft : fit X y None inc IFquantile lvl = FOk ft ->
  exists yiso r,
    isotonic_regression (fit_ys X y None inc) None inc IFquantile lvl = IOk (yiso, r) /\
    forall g : Q -> R, dmonoR inc g ->
      let d := udata (fit_ys X y None inc) in
      (lossPin lvl d (map g (fit_Xs X y None inc)) >= lossPin lvl d (map Q2R yiso))%R.
Proof.
  intros H. destruct (fit_inv _ _ _ _ _ _ _ H) as (_ & yiso & r & idx & HI & _).
  cbn [fit_ws] in HI.
  exists yiso, r. split; [exact HI|]. intros g Hg d.
  destruct (iso_ok_inv _ _ _ _ _ _ _ HI) as (Hn & Hv & [C|[[C _]|[(_ & Hl & _)|[C _]]]]); try discriminate C.
  destruct (iso_quantile_optimal _ _ _ _ _ Hn Hl HI) as (_ & _ & HO).
  apply HO.
  - rewrite map_length. destruct (fit_Xs_length _ _ _ _ _ _ _ H) as [E1 E2]. congruence.
  - exact (fX_mono X y None inc g Hg).
Qed.

Theorem fit_optimal_fX_median X y inc lvl ft : fit X y None inc IFmedian lvl = FOk ft ->
  exists yiso r,
    isotonic_regression (fit_ys X y None inc) None inc IFmedian lvl = IOk (yiso, r) /\
    forall g : Q -> R, dmonoR inc g ->
      let d := udata (fit_ys X y None inc) in
      (lossPin (1#2) d (map g (fit_Xs X y None inc)) >= lossPin (1#2) d (map Q2R yiso))%R.
Proof.
  intros H. destruct (fit_inv _ _ _ _ _ _ _ H) as (_ & yiso & r & idx & HI & _).
  cbn [fit_ws] in HI.
  exists yiso, r. split; [exact HI|]. intros g Hg d.
  destruct (iso_ok_inv _ _ _ _ _ _ _ HI) as (Hn & _).
  rewrite iso_median_is_quantile_half in HI.
  assert (Hhalf : 0 < 1#2 /\ 1#2 < 1) by (split; reflexivity).
  destruct (iso_quantile_optimal _ _ _ _ _ Hn Hhalf HI) as (_ & _ & HO).
  apply HO.
  - rewrite map_length. destruct (fit_Xs_length _ _ _ _ _ _ _ H) as [E1 E2]. congruence.
  - exact (fX_mono X y None inc g Hg).
Qed.

(* ---------- regardless of row order (partial) ---------- *)

(* full statement, not proved:
     Permutation (mk_rows X y w) (mk_rows X' y' w') ->
     fit X y (Some w) inc f lvl and fit X' y' (Some w') inc f lvl have the same
     predictions (up to ==).
   What is missing: two rows with equal X and equal y but different weights may
   be swapped by the permutation; the stable sort then hands them to
   isotonic_regression in a different order, and the invariance of the block
   value under a swap of two observations with equal y inside one block is a
   statement about `isotonic_regression` that is not available (C07).  Also rows
   that are == but not syntactically equal rationals.
   Proved: if rows that compare equal in the sort order are identical (always the
   case without sample_weight when every number has one representation, e.g.
   values read from floats by the harness), the sorted frame, hence the fitted
   model, is the same. *)
Definition rows_of (X y : list Q) (w : option (list Q)) : list row :=
  mk_rows X y (match w with Some w' => w' | None => map (fun _ => 1) y end).

Theorem fit_perm_partial X y X' y' (w w' : option (list Q)) inc f lvl :
  length X = length y -> length X' = length y' ->
  match w, w' with
  | Some a, Some b => length a = length y /\ length b = length y'
  | None, None => True
  | _, _ => False
  end ->
  Permutation (rows_of X y w) (rows_of X' y' w') ->
  (forall a b, In a (rows_of X y w) -> In b (rows_of X y w) ->
     row_le inc a b = true -> row_le inc b a = true -> a = b) ->
  fit X y w inc f lvl = fit X' y' w' inc f lvl.
Proof.
  intros L1 L2 Lw HP Hanti.
  assert (ES : sorted_rows X y w inc = sorted_rows X' y' w' inc).
  { unfold sorted_rows. fold (rows_of X y w) (rows_of X' y' w').
    apply sort_perm_invariant; [apply row_le_total| apply row_le_trans| exact Hanti| exact HP]. }
  unfold fit. rewrite ES, L1, L2, !Nat.eqb_refl. cbn [negb].
  destruct w as [a|], w' as [b|]; try contradiction.
  - destruct Lw as [La Lb]. rewrite La, Lb, !Nat.eqb_refl. reflexivity.
  - reflexivity.
Qed.

(* ---------- the same, on the rows in their ORIGINAL order (mean) ---------- *)

(* the prediction as a total function (0 where there is no threshold: never
   after a successful fit, [predict_total]) *)
Definition predict_val (ft : fitted) (q : Q) : Q :=
  match predict ft q with Some v => v | None => 0 end.

Fixpoint rsum (f : row -> R) (l : list row) : R :=
  match l with [] => 0%R | a :: l' => (f a + rsum f l')%R end.

Lemma rsum_perm f l l' : Permutation l l' -> rsum f l = rsum f l'.
Proof.
  intros HP. induction HP as [|a l l' HP IH|a b l|l l' l'' H1 IH1 H2 IH2]; cbn [rsum].
  - reflexivity.
  - rewrite IH. reflexivity.
  - ring.
  - rewrite IH1. exact IH2.
Qed.

(* w (y - g(X))^2 and w (g(X) - h(X))^2 of one row *)
Definition row_sq (g : Q -> R) (rw : row) : R :=
  (Q2R (rW rw) * (Q2R (rY rw) - g (rX rw)) ^ 2)%R.
Definition row_gap (g h : Q -> R) (rw : row) : R :=
  (Q2R (rW rw) * (g (rX rw) - h (rX rw)) ^ 2)%R.

Lemma lossSq_rows g : forall rows,
  lossSq (combine (map rY rows) (map rW rows)) (map g (map rX rows)) = rsum (row_sq g) rows.
Proof.
  induction rows as [|a rows IH]; [reflexivity|].
  cbn [map combine lossSq rsum]. rewrite IH. unfold row_sq. reflexivity.
Qed.

Lemma wdist_rows g h : forall rows,
  wdist (combine (map rY rows) (map rW rows)) (map g (map rX rows)) (map h (map rX rows))
  = rsum (row_gap g h) rows.
Proof.
  induction rows as [|a rows IH]; [reflexivity|].
  cbn [map combine wdist rsum]. rewrite IH. unfold row_gap. reflexivity.
Qed.

Lemma mk_rows_rW_ones X y : Forall (fun rw => rW rw = 1) (mk_rows X y (map (fun _ => 1) y)).
Proof.
  unfold mk_rows. apply Forall_forall. intros rw Hin. apply in_map_iff in Hin.
  destruct Hin as ([pa pc] & <- & Hp). cbn [rW snd]. apply in_combine_r in Hp.
  apply in_map_iff in Hp. destruct Hp as (z & E & _). symmetry. exact E.
Qed.

(* the data handed to isotonic_regression, as columns of the sorted frame *)
Lemma fit_data_rows X y w inc :
  data (fit_ys X y w inc) (fit_ws X y w inc) =
  combine (map rY (sorted_rows X y w inc)) (map rW (sorted_rows X y w inc)).
Proof.
  unfold data, fit_ys, fit_ws, weights_of. destruct w as [w'|]; [reflexivity|].
  f_equal. rewrite map_map.
  assert (HF : Forall (fun rw => rW rw = 1) (sorted_rows X y None inc)).
  { eapply Permutation_Forall; [apply Permutation_sym, sorted_rows_perm|]. apply mk_rows_rW_ones. }
  induction (sorted_rows X y None inc) as [|a l IH]; [reflexivity|].
  cbn [map]. rewrite (Forall_inv HF), (IH (Forall_inv_tail HF)). reflexivity.
Qed.

(* mean: over the rows as given, the fitted prediction function has the least
   weighted squared error among all monotone real functions of X *)
Theorem fit_predict_optimal_rows_mean X y w inc lvl ft : fit X y w inc IFmean lvl = FOk ft ->
  forall g : Q -> R, dmonoR inc g ->
    let P := fun q => Q2R (predict_val ft q) in
    (rsum (row_sq g) (rows_of X y w) >=
     rsum (row_sq P) (rows_of X y w) + rsum (row_gap g P) (rows_of X y w))%R.
Proof.
  intros H g Hg P.
  destruct (fit_optimal_fX_mean _ _ _ _ _ _ H) as (yiso & r & HI & HO).
  destruct (predict_at_training _ _ _ _ _ _ _ H) as (yiso' & r' & HI' & HP).
  rewrite HI in HI'. injection HI' as <- <-.
  pose proof (HO g Hg) as HO1. cbv zeta in HO1.
  destruct (fit_Xs_length _ _ _ _ _ _ _ H) as [LX LY].
  destruct (iso_facts _ _ _ _ _ _ _ HI) as ((Clen & _) & _ & _).
  (* the fitted values are the predictions at the sorted X *)
  assert (EP : map Q2R yiso = map P (fit_Xs X y w inc)).
  { apply (nth_ext _ _ (Q2R 0) (P 0)); [rewrite !map_length; congruence|].
    intros k Hk. rewrite map_length in Hk.
    assert (Hk' : (k < length X)%nat) by congruence.
    destruct (HP k Hk') as (v & Ev & Evv).
    rewrite !map_nth. unfold P, predict_val. rewrite Ev. apply Qeq_eqR. symmetry. exact Evv. }
  rewrite EP in HO1. rewrite fit_data_rows in HO1. unfold fit_Xs in HO1.
  rewrite !lossSq_rows, wdist_rows in HO1.
  pose proof (sorted_rows_perm X y w inc) as HPerm. fold (rows_of X y w) in HPerm.
  rewrite !(rsum_perm _ _ _ HPerm) in HO1. exact HO1.
Qed.

(* ================================================================== *)
(* Examples: the hypotheses are satisfiable; two negative facts          *)
(* ================================================================== *)

Example fit_ex_ok :
  fit [1; 2; 2; 3] [3; 4; 5; 1] None true IFmean (1#2) = FOk (mkfitted [1; 2; 3] [3; 10#3; 10#3]).
Proof. vm_compute. reflexivity. Qed.

Example fit_ex_weighted_decreasing :
  exists ft, fit [3; 1; 2; 2] [1; 5; 2; 4] (Some [1; 2; 1; 3]) false IFexpectile (1#4) = FOk ft.
Proof. vm_compute. eexists. reflexivity. Qed.

(* DESIGN.md planned `thr_strictly_increasing` (no duplicate X_thresholds_).  On the
   faithful model it is FALSE: lines 526-530 append r[i]-1 whenever the previous
   block has more than one row, also when all rows of that block share one X. *)
Example thr_strictly_increasing_refuted :
  fit [1; 1; 2] [5; 5; 7] None true IFmean (1#2) = FOk (mkfitted [1; 1; 2] [5; 5; 7]).
Proof. vm_compute. reflexivity. Qed.

(* ... which np.interp tolerates, but interp1d's generic linear path does not.
   RECORD OF THE OLD BEHAVIOUR (before /repo fix 7007a15, which casts the
   thresholds to float64 so that np.interp is always used): for X of dtype float32,
   int32, ... the prediction at the training point X = 1 was NaN *)
Example predict_generic_nan_dup :
  predict_generic (mkfitted [1; 1; 2] [5; 5; 7]) 1 = Some None /\
  predict (mkfitted [1; 1; 2] [5; 5; 7]) 1 = Some 5.
Proof. split; vm_compute; reflexivity. Qed.

(* before fix 7007a15: a single threshold (all X equal, e.g. one row) gave NaN at the
   training point on the generic path *)
Example predict_generic_nan_single :
  fit [3] [5] None true IFmean (1#2) = FOk (mkfitted [3] [5]) /\
  predict_generic (mkfitted [3] [5]) 3 = Some None /\
  predict (mkfitted [3] [5]) 3 = Some 5.
Proof. repeat split; vm_compute; reflexivity. Qed.

Print Assumptions sort_perm.
Print Assumptions sort_sorted.
Print Assumptions sort_stable.
Print Assumptions sort_perm_invariant.
Print Assumptions interp_np_mono.
Print Assumptions iso_facts.
Print Assumptions fit_thresholds.
Print Assumptions predict_total.
Print Assumptions predict_at_training.
Print Assumptions predict_monotone.
Print Assumptions fit_tie_consistent.
Print Assumptions predict_fill.
Print Assumptions predict_clipped.
Print Assumptions predict_between_neighbours.
Print Assumptions predict_between_thresholds.
Print Assumptions fit_optimal_fX_mean.
Print Assumptions fit_optimal_fX_expectile.
Print Assumptions fit_optimal_fX_quantile.
Print Assumptions fit_optimal_fX_median.
Print Assumptions fit_predict_optimal_rows_mean.
Print Assumptions fit_perm_partial.
