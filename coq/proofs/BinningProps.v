(* Lemmas about model/Binning.v (property C13).  World Q, no axioms. *)
From Coq Require Import QArith Qreduction Lqa Lia List Bool Arith String Permutation.
Import ListNotations.
Open Scope Q_scope.
From MD Require Import lib.QLists model.Functionals model.Binning.

(* ------------------------------------------------------------------ *)
(* list helpers *)
Lemma filter_len_le {A} (f : A -> bool) l : (List.length (filter f l) <= List.length l)%nat.
Proof. induction l as [|x l IH]; simpl; [lia|]. destruct (f x); simpl; lia. Qed.
Lemma in_skipn {A} (l : list A) j b : In b (skipn j l) -> In b l.
Proof.
  revert j. induction l as [|x l IH]; intros j H; destruct j; simpl in *; auto.
  right. eapply IH. exact H.
Qed.
Lemma in_firstn {A} (l : list A) j b : In b (firstn j l) -> In b l.
Proof.
  revert j. induction l as [|x l IH]; intros j H; destruct j; simpl in *; auto; try contradiction.
  destruct H as [H|H]; [left; exact H| right; eapply IH; exact H].
Qed.

(* ------------------------------------------------------------------ *)
(* the order on ext *)
Lemma leb_iff a b : leb a b = true <-> a <= b.
Proof. unfold leb. apply Qle_bool_iff. Qed.

Lemma xleb_refl a : xleb a a = true.
Proof. destruct a; simpl; auto. apply Qle_bool_iff. lra. Qed.

Lemma xleb_trans a b c : xleb a b = true -> xleb b c = true -> xleb a c = true.
Proof.
  destruct a, b, c; simpl; auto; try discriminate.
  rewrite !Qle_bool_iff. lra.
Qed.

Lemma xleb_total a b : xleb a b = true \/ xleb b a = true.
Proof.
  destruct a, b; simpl; auto.
  rewrite !Qle_bool_iff. destruct (Qlt_le_dec q q0); [left|right]; lra.
Qed.

Lemma xltb_xleb a b : xltb a b = true -> xleb a b = true.
Proof.
  unfold xltb. intros H. destruct (xleb_total a b) as [H1|H1]; auto.
  rewrite H1 in H. discriminate.
Qed.

Lemma xltb_false_iff a b : xltb a b = false <-> xleb b a = true.
Proof. unfold xltb. destruct (xleb b a); simpl; split; auto; discriminate. Qed.

Lemma xltb_trans_le a b c : xltb a b = true -> xleb b c = true -> xltb a c = true.
Proof.
  unfold xltb. intros H1 H2. destruct (xleb c a) eqn:E; auto.
  rewrite (xleb_trans _ _ _ H2 E) in H1. discriminate.
Qed.

Lemma xleb_trans_lt a b c : xleb a b = true -> xltb b c = true -> xltb a c = true.
Proof.
  unfold xltb. intros H1 H2. destruct (xleb c a) eqn:E; auto.
  rewrite (xleb_trans _ _ _ E H1) in H2. discriminate.
Qed.

Lemma xltb_irrefl a : xltb a a = false.
Proof. unfold xltb. rewrite xleb_refl. reflexivity. Qed.

(* ------------------------------------------------------------------ *)
(* sortedness (strong form) *)
Fixpoint xsorted (l : list ext) : Prop :=
  match l with
  | [] => True
  | x :: l' => (forall y, In y l' -> xleb x y = true) /\ xsorted l'
  end.
Fixpoint xstrict (l : list ext) : Prop :=
  match l with
  | [] => True
  | x :: l' => (forall y, In y l' -> xltb x y = true) /\ xstrict l'
  end.

Lemma xstrict_sorted l : xstrict l -> xsorted l.
Proof.
  induction l as [|x l IH]; simpl; auto. intros [H1 H2]. split; auto.
  intros y Hy. apply xltb_xleb. auto.
Qed.

(* ------------------------------------------------------------------ *)
(* digitize *)
Lemma digitize_cons x l v :
  digitize (x :: l) v = if xltb x v then S (digitize l v) else digitize l v.
Proof. unfold digitize. simpl. destruct (xltb x v); reflexivity. Qed.

Lemma digitize_le_length edges v : (digitize edges v <= List.length edges)%nat.
Proof. unfold digitize. apply filter_len_le. Qed.

Lemma digitize_zero_of_ge l v :
  (forall y, In y l -> xleb v y = true) -> digitize l v = 0%nat.
Proof.
  induction l as [|x l IH]; intros H; [reflexivity|].
  rewrite digitize_cons.
  assert (Hx : xltb x v = false) by (apply xltb_false_iff; apply H; left; reflexivity).
  rewrite Hx. apply IH. intros y Hy. apply H. right. exact Hy.
Qed.

(* the upper edge: v <= edges[b] *)
Lemma digitize_upper edges v d :
  xsorted edges -> (digitize edges v < List.length edges)%nat ->
  xleb v (nth (digitize edges v) edges d) = true.
Proof.
  induction edges as [|x l IH]; simpl; intros Hs Hlt; [lia|].
  destruct Hs as [Hx Hs]. rewrite digitize_cons in *.
  destruct (xltb x v) eqn:E.
  - apply IH; auto. lia.
  - apply xltb_false_iff in E.
    rewrite digitize_zero_of_ge.
    + exact E.
    + intros y Hy. eapply xleb_trans; [exact E| auto].
Qed.

(* the lower edge: edges[b-1] < v *)
Lemma digitize_lower edges v d b :
  xsorted edges -> digitize edges v = S b -> xltb (nth b edges d) v = true.
Proof.
  revert b. induction edges as [|x l IH]; intros b Hs Hb; [discriminate|].
  destruct Hs as [Hx Hs]. rewrite digitize_cons in Hb.
  destruct (xltb x v) eqn:E.
  - destruct b as [|b]; simpl; [exact E|]. apply IH; auto.
  - apply xltb_false_iff in E.
    rewrite digitize_zero_of_ge in Hb; [discriminate|].
    intros y Hy. eapply xleb_trans; [exact E| auto].
Qed.

(* every edge below index b is < v, every edge from b on is >= v *)
Lemma digitize_monotone edges v1 v2 :
  xleb v1 v2 = true -> (digitize edges v1 <= digitize edges v2)%nat.
Proof.
  intros H. induction edges as [|x l IH]; [reflexivity|].
  rewrite !digitize_cons.
  destruct (xltb x v1) eqn:E1.
  - rewrite (xltb_trans_le _ _ _ E1 H). lia.
  - destruct (xltb x v2); lia.
Qed.

Lemma digitize_equal edges v1 v2 :
  xeqb v1 v2 = true -> digitize edges v1 = digitize edges v2.
Proof.
  unfold xeqb. intros H. apply andb_prop in H. destruct H as [H1 H2].
  apply Nat.le_antisymm; apply digitize_monotone; assumption.
Qed.

Lemma stored_bin_mono kind a b : (a <= b)%nat -> (stored_bin kind a <= stored_bin kind b)%nat.
Proof. destruct kind; simpl; lia. Qed.
Lemma stored_bin_le kind a : (stored_bin kind a <= a)%nat.
Proof. destruct kind; simpl; lia. Qed.

(* ------------------------------------------------------------------ *)
(* the edge table *)
Lemma pairs_length l : List.length (pairs l) = (List.length l - 1)%nat.
Proof.
  induction l as [|x l IH]; [reflexivity|].
  destruct l as [|y l]; [reflexivity|].
  transitivity (S (List.length (pairs (y :: l)))); [reflexivity|].
  rewrite IH. simpl. lia.
Qed.

Lemma pairs_nth l b d1 d2 :
  (S b < List.length l)%nat -> nth b (pairs l) (d1, d2) = (nth b l d1, nth (S b) l d2).
Proof.
  revert b. induction l as [|x l IH]; intros b Hb; [simpl in Hb; lia|].
  destruct l as [|y l]; [simpl in Hb; lia|].
  change (pairs (x :: y :: l)) with ((x, y) :: pairs (y :: l)).
  destruct b as [|b]; [reflexivity|].
  change (nth (S b) ((x, y) :: pairs (y :: l)) (d1, d2)) with (nth b (pairs (y :: l)) (d1, d2)).
  rewrite IH by (simpl in *; lia). reflexivity.
Qed.

Lemma full_edges_length fmin fmax edges :
  List.length (full_edges fmin fmax edges) = S (S (List.length edges)).
Proof. unfold full_edges. simpl. rewrite app_length. simpl. lia. Qed.

(* the row of the table a value is sent to has the value inside:
   left-open, right-closed; the first bin is closed on the left *)
Theorem table_contains fmin fmax edges v :
  xsorted edges -> xleb fmin v = true -> xleb v fmax = true ->
  let b := digitize edges v in
  let '(lo, hi) := nth b (edge_table fmin fmax edges) (fmin, fmax) in
  (if (b =? 0)%nat then xleb lo v else xltb lo v) = true /\ xleb v hi = true /\
  lo = nth b (full_edges fmin fmax edges) fmin /\
  hi = nth (S b) (full_edges fmin fmax edges) fmax.
Proof.
  intros Hs Hmin Hmax b.
  assert (Hb : (b <= List.length edges)%nat) by apply digitize_le_length.
  unfold edge_table. rewrite pairs_nth by (rewrite full_edges_length; lia).
  unfold full_edges.
  split; [|split; [|split; reflexivity]].
  - destruct b as [|b'] eqn:Eb; simpl; [exact Hmin|].
    rewrite app_nth1 by lia.
    eapply digitize_lower; eauto.
  - change (nth (S b) (fmin :: edges ++ [fmax]) fmax) with (nth b (edges ++ [fmax]) fmax).
    destruct (Nat.lt_ge_cases b (List.length edges)) as [Hlt|Hge].
    + rewrite app_nth1 by lia. apply digitize_upper; auto.
    + assert (b = List.length edges) by lia.
      rewrite app_nth2 by lia. replace (b - List.length edges)%nat with 0%nat by lia.
      simpl. exact Hmax.
Qed.

(* ------------------------------------------------------------------ *)
(* min / max *)
Lemma xminl_spec x l :
  (In (xminl x l) (x :: l)) /\ (forall y, In y (x :: l) -> xleb (xminl x l) y = true).
Proof.
  revert x. induction l as [|a l IH]; intros x; simpl.
  - split; [left; reflexivity|]. intros y [<-|[]]. apply xleb_refl.
  - destruct (xleb a x) eqn:E.
    + destruct (IH a) as [H1 H2]. split.
      * destruct H1 as [H1|H1]; [right; left; exact H1| right; right; exact H1].
      * intros y [<-|[<-|Hy]].
        -- eapply xleb_trans; [apply H2; left; reflexivity| exact E].
        -- apply H2. left. reflexivity.
        -- apply H2. right. exact Hy.
    + destruct (IH x) as [H1 H2]. split.
      * destruct H1 as [H1|H1]; [left; exact H1| right; right; exact H1].
      * intros y [<-|[<-|Hy]].
        -- apply H2. left. reflexivity.
        -- destruct (xleb_total x a) as [T|T]; [|rewrite T in E; discriminate].
           eapply xleb_trans; [apply H2; left; reflexivity| exact T].
        -- apply H2. right. exact Hy.
Qed.

Lemma xmaxl_spec x l :
  (In (xmaxl x l) (x :: l)) /\ (forall y, In y (x :: l) -> xleb y (xmaxl x l) = true).
Proof.
  revert x. induction l as [|a l IH]; intros x; simpl.
  - split; [left; reflexivity|]. intros y [<-|[]]. apply xleb_refl.
  - destruct (xleb x a) eqn:E.
    + destruct (IH a) as [H1 H2]. split.
      * destruct H1 as [H1|H1]; [right; left; exact H1| right; right; exact H1].
      * intros y [<-|[<-|Hy]].
        -- eapply xleb_trans; [exact E| apply H2; left; reflexivity].
        -- apply H2. left. reflexivity.
        -- apply H2. right. exact Hy.
    + destruct (IH x) as [H1 H2]. split.
      * destruct H1 as [H1|H1]; [left; exact H1| right; right; exact H1].
      * intros y [<-|[<-|Hy]].
        -- apply H2. left. reflexivity.
        -- destruct (xleb_total a x) as [T|T]; [|rewrite T in E; discriminate].
           eapply xleb_trans; [exact T| apply H2; left; reflexivity].
        -- apply H2. right. exact Hy.
Qed.

Lemma xmin_opt_spec l m : xmin_opt l = Some m ->
  In m l /\ forall y, In y l -> xleb m y = true.
Proof. destruct l as [|x l]; [discriminate|]. intros H. inversion H. apply xminl_spec. Qed.
Lemma xmax_opt_spec l m : xmax_opt l = Some m ->
  In m l /\ forall y, In y l -> xleb y m = true.
Proof. destruct l as [|x l]; [discriminate|]. intros H. inversion H. apply xmaxl_spec. Qed.

(* ------------------------------------------------------------------ *)
(* insertion sort *)
Section Sort.
  Context {A : Type} (le : A -> A -> bool).
  Hypothesis le_total : forall a b, le a b = true \/ le b a = true.
  Hypothesis le_trans : forall a b c, le a b = true -> le b c = true -> le a c = true.

  Fixpoint ssorted (l : list A) : Prop :=
    match l with
    | [] => True
    | x :: l' => (forall y, In y l' -> le x y = true) /\ ssorted l'
    end.

  Lemma insert_perm x l : Permutation (x :: l) (insert_by le x l).
  Proof.
    induction l as [|y l IH]; simpl; [apply Permutation_refl|].
    destruct (le x y); [apply Permutation_refl|].
    eapply perm_trans; [apply perm_swap|]. apply perm_skip. exact IH.
  Qed.

  Lemma isort_perm l : Permutation l (isort le l).
  Proof.
    induction l as [|x l IH]; simpl; [constructor|].
    eapply perm_trans; [apply perm_skip; exact IH| apply insert_perm].
  Qed.

  Lemma insert_sorted x l : ssorted l -> ssorted (insert_by le x l).
  Proof.
    induction l as [|y l IH]; simpl; intros Hs.
    - split; [intros ? []| exact I].
    - destruct Hs as [Hy Hs]. destruct (le x y) eqn:E.
      + simpl. split; [|split; assumption].
        intros z [<-|Hz]; [exact E|]. eapply le_trans; [exact E| auto].
      + simpl. split; [|apply IH; exact Hs].
        intros z Hz.
        apply (Permutation_in _ (Permutation_sym (insert_perm x l))) in Hz.
        destruct Hz as [<-|Hz]; [|auto].
        destruct (le_total x y) as [T|T]; [rewrite T in E; discriminate| exact T].
  Qed.

  Lemma isort_sorted l : ssorted (isort le l).
  Proof. induction l as [|x l IH]; simpl; [exact I| apply insert_sorted; exact IH]. Qed.

  Lemma isort_length l : List.length (isort le l) = List.length l.
  Proof. symmetry. apply Permutation_length. apply isort_perm. Qed.

  (* in a sorted list every element of a prefix is below every element of the rest *)
  Lemma sorted_firstn_skipn l j a b :
    ssorted l -> In a (firstn j l) -> In b (skipn j l) -> le a b = true.
  Proof.
    revert j. induction l as [|x l IH]; intros j Hs Ha Hb.
    - destruct j; simpl in Ha; contradiction.
    - destruct j as [|j]; simpl in Ha, Hb; [contradiction|].
      destruct Hs as [Hx Hs]. destruct Ha as [<-|Ha].
      + apply Hx. eapply in_skipn. exact Hb.
      + eapply IH; eauto.
  Qed.
End Sort.

Lemma ssorted_xsorted l : ssorted xleb l -> xsorted l.
Proof. induction l as [|x l IH]; simpl; auto. Qed.

(* ------------------------------------------------------------------ *)
(* np.unique: sorted and strictly increasing *)
Lemma dedup_in x l : In x (dedup l) -> In x l.
Proof.
  induction l as [|a l IH]; [auto|].
  destruct l as [|b l]; [auto|].
  change (dedup (a :: b :: l)) with (if xeqb a b then dedup (b :: l) else a :: dedup (b :: l)).
  destruct (xeqb a b).
  - intros H. right. apply IH. exact H.
  - intros [H|H]; [left; exact H| right; apply IH; exact H].
Qed.

Lemma dedup_length l : (List.length (dedup l) <= List.length l)%nat.
Proof.
  induction l as [|a l IH]; [auto|].
  destruct l as [|b l]; [auto|].
  change (dedup (a :: b :: l)) with (if xeqb a b then dedup (b :: l) else a :: dedup (b :: l)).
  destruct (xeqb a b); simpl in *; lia.
Qed.

Lemma dedup_strict l : xsorted l -> xstrict (dedup l).
Proof.
  induction l as [|a l IH]; [auto|].
  destruct l as [|b l]; [intros _; simpl; split; [intros ? []| exact I]|].
  change (dedup (a :: b :: l)) with (if xeqb a b then dedup (b :: l) else a :: dedup (b :: l)).
  intros [Ha Hs]. destruct (xeqb a b) eqn:E.
  - apply IH. exact Hs.
  - split; [|apply IH; exact Hs].
    intros z Hz. apply dedup_in in Hz.
    assert (Hab : xltb a b = true).
    { unfold xltb. unfold xeqb in E. rewrite (Ha b (or_introl eq_refl)) in E. simpl in E. rewrite E. reflexivity. }
    destruct Hz as [<-|Hz]; [exact Hab|].
    destruct Hs as [Hb _]. eapply xltb_trans_le; [exact Hab| apply Hb; exact Hz].
Qed.

Lemma xuniq_strict l : xstrict (xuniq l).
Proof.
  unfold xuniq. apply dedup_strict. apply ssorted_xsorted.
  apply isort_sorted; [apply xleb_total| apply xleb_trans].
Qed.

Lemma xuniq_length l : (List.length (xuniq l) <= List.length l)%nat.
Proof. unfold xuniq. eapply Nat.le_trans; [apply dedup_length|]. rewrite isort_length. lia. Qed.

Lemma xuniq_in x l : In x (xuniq l) -> In x l.
Proof.
  unfold xuniq. intros H. apply dedup_in in H.
  eapply Permutation_in; [apply Permutation_sym; apply isort_perm| exact H].
Qed.

Theorem quantile_edges_strict vals m : xstrict (quantile_edges vals m).
Proof. apply xuniq_strict. Qed.

Lemma seq1_length m : List.length (seq1 m) = (m - 1)%nat.
Proof. unfold seq1. apply seq_length. Qed.

Lemma quantile_edges_length vals m : (List.length (quantile_edges vals m) <= m - 1)%nat.
Proof.
  unfold quantile_edges. eapply Nat.le_trans; [apply xuniq_length|].
  rewrite map_length, seq1_length. lia.
Qed.

Lemma uniform_edges_length a r m : List.length (uniform_edges a r m) = (m - 1)%nat.
Proof. unfold uniform_edges. rewrite map_length, seq1_length. reflexivity. Qed.

Lemma map_seq_sorted (f : nat -> ext) start len :
  (forall i j, (i <= j)%nat -> xleb (f i) (f j) = true) -> xsorted (map f (seq start len)).
Proof.
  intros Hf. revert start. induction len as [|len IH]; intros start; simpl; [exact I|].
  split; [|apply IH].
  intros y Hy. apply in_map_iff in Hy. destruct Hy as [j [<- Hj]].
  apply in_seq in Hj. apply Hf. lia.
Qed.

Lemma Qnat_le i j : (i <= j)%nat -> Qnat i <= Qnat j.
Proof. intros H. unfold Qnat. rewrite <- Zle_Qle. lia. Qed.
Lemma Qnat_nonneg i : 0 <= Qnat i.
Proof. unfold Qnat. change 0 with (inject_Z 0). rewrite <- Zle_Qle. lia. Qed.

Theorem uniform_edges_sorted a r m : 0 <= r -> xsorted (uniform_edges a r m).
Proof.
  intros Hr. unfold uniform_edges, seq1. apply map_seq_sorted.
  intros i j Hij. unfold xleb. apply Qle_bool_iff. rewrite 2!Qred_correct.
  pose proof (Qnat_le _ _ Hij) as H1. pose proof (Qnat_nonneg i) as H0.
  pose proof (Qnat_nonneg m) as Hm.
  assert (Hinv : 0 <= / Qnat m).
  { destruct (Qeq_dec (Qnat m) 0) as [E|E].
    - rewrite E. unfold Qinv. simpl. lra.
    - apply Qlt_le_weak. apply Qinv_lt_0_compat. lra. }
  unfold Qdiv. set (u := / Qnat m) in *.
  assert (r * Qnat i <= r * Qnat j) by nra.
  nra.
Qed.

(* ------------------------------------------------------------------ *)
(* nonnull / has_nulls *)
Lemma in_nonnull {A} (l : list (option A)) x : In x (nonnull l) <-> In (Some x) l.
Proof.
  unfold nonnull. rewrite in_flat_map. split.
  - intros [o [Ho Hx]]. destruct o as [y|]; simpl in Hx; [|contradiction].
    destruct Hx as [<-|[]]. exact Ho.
  - intros H. exists (Some x). split; [exact H| left; reflexivity].
Qed.

Lemma has_nulls_in {A} (l : list (option A)) : In None l -> has_nulls l = true.
Proof.
  intros H. unfold has_nulls. apply existsb_exists. exists None. split; [exact H| reflexivity].
Qed.

Lemma has_nulls_false {A} (l : list (option A)) : has_nulls l = false -> ~ In None l.
Proof. intros H Hin. rewrite (has_nulls_in _ Hin) in H. discriminate. Qed.

(* ------------------------------------------------------------------ *)
(* finite_min <= finite_max when both are finite *)
Lemma finite_min_le_max vals fmin fmax a b :
  xmin_opt vals = Some fmin -> xmax_opt vals = Some fmax ->
  finite_min vals fmin = Some (Fin a) -> finite_max vals fmax = Some (Fin b) -> a <= b.
Proof.
  intros Hmin Hmax Ha Hb.
  apply xmin_opt_spec in Hmin. apply xmax_opt_spec in Hmax.
  assert (Hain : In (Fin a) vals).
  { destruct fmin; simpl in Ha.
    - apply xmin_opt_spec in Ha. destruct Ha as [Ha _]. apply filter_In in Ha. tauto.
    - inversion Ha; subst. tauto.
    - discriminate. }
  assert (Hle : xleb (Fin a) (Fin b) = true).
  { destruct fmax; simpl in Hb.
    - discriminate.
    - inversion Hb; subst. apply Hmax. exact Hain.
    - apply xmax_opt_spec in Hb. destruct Hb as [_ Hb]. apply Hb.
      apply filter_In. split; [exact Hain| reflexivity]. }
  simpl in Hle. apply Qle_bool_iff in Hle. exact Hle.
Qed.

(* ------------------------------------------------------------------ *)
(* inversion of a successful run of the numeric model *)
Lemma nonnull_nil {A} (l : list (option A)) :
  nonnull l = [] -> forall i o, nth_error l i = Some o -> o = None.
Proof.
  intros H i o Hi. destruct o as [x|]; [|reflexivity].
  assert (Hin : In x (nonnull l)) by (apply in_nonnull; eapply nth_error_In; exact Hi).
  rewrite H in Hin. contradiction.
Qed.

(* the all-null outcome (lines 250-260) *)
Definition all_null_run (feature : list (option ext)) (n_bins n : nat) (edges : list ext)
    (table : list (ext * ext)) (rows : list nrow) : Prop :=
  nonnull feature = [] /\ n = b2n (has_nulls feature) /\ edges = [] /\ table = [] /\
  rows = map (fun _ => None) feature /\ (2 <= n_bins)%nat.

Lemma bin_numeric_inv kind feature n_bins m interior n edges table rows :
  bin_numeric kind feature n_bins m interior = NOk n edges table rows ->
  all_null_run feature n_bins n edges table rows \/
  exists fmin fmax m_out,
    xmin_opt (nonnull feature) = Some fmin /\ xmax_opt (nonnull feature) = Some fmax /\
    table = edge_table fmin fmax edges /\
    rows = digitize_rows kind fmin fmax edges feature /\
    n = (m_out + b2n (has_nulls feature))%nat /\ (2 <= n_bins)%nat /\
    (S (List.length edges) <= m_out)%nat /\
    (m <> NumpyRule -> m_out = n_bins_ef0 n_bins feature) /\
    (m = NumpyRule -> edges = map Fin interior) /\
    (m <> NumpyRule -> xsorted edges).
Proof.
  unfold bin_numeric. intros H.
  destruct (n_bins <? 2)%nat eqn:En; [discriminate|]. apply Nat.ltb_ge in En.
  destruct (xmin_opt (nonnull feature)) as [fmin|] eqn:Emin.
  2:{ left. inversion H; subst. unfold all_null_run. repeat split; auto.
      destruct (nonnull feature); [reflexivity| discriminate]. }
  destruct (xmax_opt (nonnull feature)) as [fmax|] eqn:Emax.
  2:{ left. inversion H; subst. unfold all_null_run. repeat split; auto.
      destruct (nonnull feature); [reflexivity| discriminate]. }
  right.
  assert (Hef : (1 <= n_bins_ef0 n_bins feature)%nat) by (unfold n_bins_ef0; lia).
  destruct m.
  - (* quantile *)
    assert (Hq : NOk (n_bins_ef0 n_bins feature + b2n (has_nulls feature))
                   (quantile_edges (nonnull feature) (n_bins_ef0 n_bins feature))
                   (edge_table fmin fmax (quantile_edges (nonnull feature) (n_bins_ef0 n_bins feature)))
                   (digitize_rows kind fmin fmax (quantile_edges (nonnull feature) (n_bins_ef0 n_bins feature)) feature)
                 = NOk n edges table rows).
    { destruct kind; [exact H|]. destruct (has_nulls feature); [discriminate| exact H]. }
    inversion Hq; subst. exists fmin, fmax, (n_bins_ef0 n_bins feature).
    repeat split; auto; try congruence.
    + pose proof (quantile_edges_length (nonnull feature) (n_bins_ef0 n_bins feature)). lia.
    + intros _. apply xstrict_sorted. apply quantile_edges_strict.
  - (* uniform *)
    set (fin := fun es => NOk (n_bins_ef0 n_bins feature + b2n (has_nulls feature)) es
                            (edge_table fmin fmax es) (digitize_rows kind fmin fmax es feature)) in *.
    assert (Hu : match finite_min (nonnull feature) fmin, finite_max (nonnull feature) fmax with
                 | Some l, Some h =>
                     if xltb h l then fin []
                     else match l, h with
                          | Fin a, Fin b => fin (uniform_edges a (b - a) (n_bins_ef0 n_bins feature))
                          | _, _ => NNanEdges
                          end
                 | _, _ => fin []
                 end = NOk n edges table rows).
    { destruct kind; [exact H|]. destruct (has_nulls feature); [discriminate| exact H]. }
    clear H.
    assert (Hgen : forall es, (S (List.length es) <= n_bins_ef0 n_bins feature)%nat -> xsorted es ->
              fin es = NOk n edges table rows ->
              exists fmin0 fmax0 m_out,
                Some fmin = Some fmin0 /\ Some fmax = Some fmax0 /\
                table = edge_table fmin0 fmax0 edges /\
                rows = digitize_rows kind fmin0 fmax0 edges feature /\
                n = (m_out + b2n (has_nulls feature))%nat /\ (2 <= n_bins)%nat /\
                (S (List.length edges) <= m_out)%nat /\
                (Uniform <> NumpyRule -> m_out = n_bins_ef0 n_bins feature) /\
                (Uniform = NumpyRule -> edges = map Fin interior) /\
                (Uniform <> NumpyRule -> xsorted edges)).
    { intros es Hlen Hsort Heq. unfold fin in Heq. inversion Heq; subst.
      exists fmin, fmax, (n_bins_ef0 n_bins feature). repeat split; auto; try congruence. }
    destruct (finite_min (nonnull feature) fmin) as [lo|] eqn:Elo;
      [|apply (Hgen []); [simpl; lia| exact I| exact Hu]].
    destruct (finite_max (nonnull feature) fmax) as [hi|] eqn:Ehi;
      [|apply (Hgen []); [simpl; lia| exact I| exact Hu]].
    destruct (xltb hi lo) eqn:Elt; [apply (Hgen []); [simpl; lia| exact I| exact Hu]|].
    destruct lo as [|a|]; try discriminate; destruct hi as [|b|]; try discriminate.
    apply (Hgen (uniform_edges a (b - a) (n_bins_ef0 n_bins feature))); [| |exact Hu].
    + rewrite uniform_edges_length. lia.
    + apply uniform_edges_sorted.
      pose proof (finite_min_le_max _ _ _ _ _ Emin Emax Elo Ehi). lra.
  - (* numpy rule *)
    destruct kind; [|discriminate]. inversion H; subst.
    exists fmin, fmax, (S (List.length interior)).
    repeat split; auto; try congruence.
    rewrite map_length. lia.
Qed.

(* C13 "every documented feature type is accepted", numeric part: a float / integer column
   - with nulls, NaN, infinities, only nulls, only infinities - is never rejected and never
   gets NaN edges (after /repo commits 9ce4ae5 and b2b5cba) *)
Lemma finite_min_not_minf vals fmin l :
  finite_min vals fmin = Some l -> l <> MInf.
Proof.
  destruct fmin; simpl; intros H.
  - apply xmin_opt_spec in H. destruct H as [H _]. apply filter_In in H. destruct H as [_ H].
    intros ->. discriminate.
  - inversion H. discriminate.
  - inversion H. discriminate.
Qed.
Lemma finite_max_not_pinf vals fmax h :
  finite_max vals fmax = Some h -> h <> PInf.
Proof.
  destruct fmax; simpl; intros H.
  - inversion H. discriminate.
  - inversion H. discriminate.
  - apply xmax_opt_spec in H. destruct H as [H _]. apply filter_In in H. destruct H as [_ H].
    intros ->. discriminate.
Qed.

Theorem bin_numeric_accepts feature n_bins m interior :
  (2 <= n_bins)%nat ->
  exists n edges table rows, bin_numeric KNum feature n_bins m interior = NOk n edges table rows.
Proof.
  intros H2. unfold bin_numeric.
  assert (E : (n_bins <? 2)%nat = false) by (apply Nat.ltb_ge; exact H2). rewrite E.
  destruct (xmin_opt (nonnull feature)) as [fmin|]; [|do 4 eexists; reflexivity].
  destruct (xmax_opt (nonnull feature)) as [fmax|]; [|do 4 eexists; reflexivity].
  destruct m; try (do 4 eexists; reflexivity).
  destruct (finite_min (nonnull feature) fmin) as [l|] eqn:El; [|do 4 eexists; reflexivity].
  destruct (finite_max (nonnull feature) fmax) as [h|] eqn:Eh; [|do 4 eexists; reflexivity].
  destruct (xltb h l) eqn:Elt; [do 4 eexists; reflexivity|].
  pose proof (finite_min_not_minf _ _ _ El) as Hl. pose proof (finite_max_not_pinf _ _ _ Eh) as Hh.
  destruct l as [|a|]; [congruence| |]; destruct h as [|b|]; try congruence;
    try (do 4 eexists; reflexivity); discriminate.
Qed.

(* ------------------------------------------------------------------ *)
(* C13: every row is assigned exactly one bin; null / NaN rows, and only they, the null bin *)
Theorem bin_total kind feature n_bins m interior n edges table rows :
  bin_numeric kind feature n_bins m interior = NOk n edges table rows ->
  List.length rows = List.length feature /\
  forall i, match nth_error feature i with
            | None => nth_error rows i = None
            | Some None => nth_error rows i = Some None
            | Some (Some v) => exists e, nth_error rows i = Some (Some (stored_bin kind (digitize edges v), e))
            end.
Proof.
  intros H. apply bin_numeric_inv in H.
  destruct H as [(Hnn & _ & _ & _ & Hrows & _) | (fmin & fmax & m_out & _ & _ & _ & Hrows & _)].
  - subst rows. split; [apply map_length|].
    intros i. destruct (nth_error feature i) as [o|] eqn:E.
    + rewrite (nonnull_nil _ Hnn _ _ E). rewrite (map_nth_error _ _ _ E). reflexivity.
    + apply nth_error_None. rewrite map_length. apply nth_error_None. exact E.
  - subst rows. unfold digitize_rows. split; [apply map_length|].
    intros i. destruct (nth_error feature i) as [o|] eqn:E.
    + rewrite (map_nth_error _ _ _ E). destruct o as [v|]; [eexists; reflexivity| reflexivity].
    + apply nth_error_None. rewrite map_length. apply nth_error_None. exact E.
Qed.

(* C13: the reported edges contain the value: left-open, right-closed, the first bin
   closed on the left.  For "quantile" and "uniform" the edges are the model's own (and
   proved sorted); for the eight numpy rules the interior edges are an input and only
   need to be non-decreasing (numpy's linspace) *)
Theorem bin_contains kind feature n_bins m interior n edges table rows :
  bin_numeric kind feature n_bins m interior = NOk n edges table rows ->
  (m = NumpyRule -> xsorted (map Fin interior)) ->
  forall i v, nth_error feature i = Some (Some v) ->
  exists lo hi,
    nth_error rows i = Some (Some (stored_bin kind (digitize edges v), (lo, hi))) /\
    nth (digitize edges v) table (lo, hi) = (lo, hi) /\
    (if (digitize edges v =? 0)%nat then xleb lo v else xltb lo v) = true /\ xleb v hi = true.
Proof.
  intros H Hnp i v Hi. apply bin_numeric_inv in H.
  destruct H as [(Hnn & _) | (fmin & fmax & m_out & Hmin & Hmax & Htab & Hrows & _ & _ & _ & _ & Hed & Hso)].
  { pose proof (nonnull_nil _ Hnn _ _ Hi). discriminate. }
  assert (Hsorted : xsorted edges).
  { destruct m; try (apply Hso; discriminate). rewrite (Hed eq_refl). apply Hnp. reflexivity. }
  assert (Hin : In v (nonnull feature)) by (apply in_nonnull; eapply nth_error_In; exact Hi).
  apply xmin_opt_spec in Hmin. apply xmax_opt_spec in Hmax.
  pose proof (table_contains fmin fmax edges v Hsorted (proj2 Hmin v Hin) (proj2 Hmax v Hin)) as T.
  cbv zeta in T.
  destruct (nth (digitize edges v) (edge_table fmin fmax edges) (fmin, fmax)) as [lo hi] eqn:E.
  destruct T as (T1 & T2 & _ & _).
  exists lo, hi. subst rows table. unfold digitize_rows.
  rewrite (map_nth_error _ _ _ Hi). rewrite E. repeat split; auto.
  assert (Hlt : (digitize edges v < List.length (edge_table fmin fmax edges))%nat).
  { unfold edge_table. rewrite pairs_length, full_edges_length.
    pose proof (digitize_le_length edges v). lia. }
  rewrite (nth_indep _ _ (fmin, fmax) Hlt). exact E.
Qed.

(* C13: bin numbers are non-decreasing in the feature value *)
Theorem bin_monotone kind feature n_bins m interior n edges table rows :
  bin_numeric kind feature n_bins m interior = NOk n edges table rows ->
  forall i j v1 v2 b1 b2 e1 e2,
    nth_error feature i = Some (Some v1) -> nth_error feature j = Some (Some v2) ->
    nth_error rows i = Some (Some (b1, e1)) -> nth_error rows j = Some (Some (b2, e2)) ->
    xleb v1 v2 = true -> (b1 <= b2)%nat.
Proof.
  intros H i j v1 v2 b1 b2 e1 e2 Hi Hj Ri Rj Hle.
  destruct (bin_total _ _ _ _ _ _ _ _ _ H) as [_ T].
  pose proof (T i) as Ti. pose proof (T j) as Tj. rewrite Hi in Ti. rewrite Hj in Tj.
  destruct Ti as [e Ti]. destruct Tj as [e' Tj]. rewrite Ri in Ti. rewrite Rj in Tj.
  inversion Ti. inversion Tj. subst.
  apply stored_bin_mono. apply digitize_monotone. exact Hle.
Qed.

(* C13: equal values share a bin (and its reported edges) *)
Theorem bin_equal_values kind feature n_bins m interior n edges table rows :
  bin_numeric kind feature n_bins m interior = NOk n edges table rows ->
  forall i j v1 v2, nth_error feature i = Some (Some v1) -> nth_error feature j = Some (Some v2) ->
    xeqb v1 v2 = true -> nth_error rows i = nth_error rows j.
Proof.
  intros H i j v1 v2 Hi Hj Heq. apply bin_numeric_inv in H.
  destruct H as [(Hnn & _) | (fmin & fmax & m_out & _ & _ & _ & Hrows & _)].
  { pose proof (nonnull_nil _ Hnn _ _ Hi). discriminate. }
  subst rows. unfold digitize_rows.
  rewrite (map_nth_error _ _ _ Hi), (map_nth_error _ _ _ Hj).
  rewrite (digitize_equal edges v1 v2 Heq). reflexivity.
Qed.

(* ------------------------------------------------------------------ *)
(* number of groups *)
Definition onat_dec : forall a b : option nat, {a = b} + {a <> b}.
Proof. decide equality. apply Nat.eq_dec. Defined.
Definition row_group (r : nrow) : option nat := option_map fst r.
Definition ngroups (rows : list nrow) : nat :=
  List.length (nodup onat_dec (map row_group rows)).

(* all methods: the number of groups (null bin included) is at most the returned
   n_bins - what compute_bias' `.head(n_bins)` relies on *)
Theorem groups_le_returned kind feature n_bins m interior n edges table rows :
  bin_numeric kind feature n_bins m interior = NOk n edges table rows ->
  (ngroups rows <= n)%nat.
Proof.
  intros H. apply bin_numeric_inv in H.
  destruct H as [(Hnn & Hn & _ & _ & Hrows & _) | (fmin & fmax & m_out & _ & _ & _ & Hrows & Hn & _ & Hlen & _)].
  { subst rows n. unfold ngroups.
    assert (Hincl : incl (nodup onat_dec (map row_group (map (fun _ : option ext => @None (nat * (ext * ext))) feature)))
                         (if has_nulls feature then [None] else [])).
    { intros g Hg. apply nodup_In in Hg. rewrite map_map in Hg. apply in_map_iff in Hg.
      destruct Hg as [o [<- Ho]]. apply In_nth_error in Ho. destruct Ho as [i Hi].
      pose proof (nonnull_nil _ Hnn _ _ Hi). subst o.
      rewrite (has_nulls_in _ (nth_error_In _ _ Hi)). left. reflexivity. }
    eapply Nat.le_trans; [apply NoDup_incl_length; [apply NoDup_nodup| exact Hincl]|].
    destruct (has_nulls feature); simpl; lia. }
  set (univ := (if has_nulls feature then [None] else []) ++ map Some (seq 0 (S (List.length edges)))).
  assert (Hincl : incl (nodup onat_dec (map row_group rows)) univ).
  { intros g Hg. apply nodup_In in Hg. apply in_map_iff in Hg.
    destruct Hg as [r [<- Hr]]. subst rows. unfold digitize_rows in Hr.
    apply in_map_iff in Hr. destruct Hr as [o [<- Ho]]. unfold univ. apply in_or_app.
    destruct o as [v|]; unfold row_group; cbn [option_map fst].
    - right. apply in_map. apply in_seq.
      pose proof (digitize_le_length edges v). pose proof (stored_bin_le kind (digitize edges v)). lia.
    - left. rewrite (has_nulls_in _ Ho). left. reflexivity. }
  unfold ngroups.
  eapply Nat.le_trans; [apply NoDup_incl_length; [apply NoDup_nodup| exact Hincl]|].
  unfold univ. rewrite app_length, map_length, seq_length.
  destruct (has_nulls feature); simpl in *; lia.
Qed.

(* C13: 'quantile' / 'uniform' binning yields at most n_bins groups including the null bin *)
Theorem groups_le_n_bins kind feature n_bins m interior n edges table rows :
  bin_numeric kind feature n_bins m interior = NOk n edges table rows ->
  m <> NumpyRule -> (ngroups rows <= n_bins)%nat /\ (n <= n_bins)%nat.
Proof.
  intros H Hm. pose proof (groups_le_returned _ _ _ _ _ _ _ _ _ H) as G.
  apply bin_numeric_inv in H.
  destruct H as [(_ & Hn & _ & _ & _ & H2) | (fmin & fmax & m_out & _ & _ & _ & _ & Hn & H2 & _ & Hef & _)].
  { assert (n <= n_bins)%nat by (destruct (has_nulls feature); cbn [b2n] in *; lia). lia. }
  specialize (Hef Hm). unfold n_bins_ef0 in Hef.
  assert (n <= n_bins)%nat by (destruct (has_nulls feature); cbn [b2n] in *; lia).
  lia.
Qed.

(* ------------------------------------------------------------------ *)
(* the quantile of the model IS Functionals.qlow (unit weights) on finite data *)
Lemma filter_map_comm {A B} (f : B -> bool) (g : A -> B) l :
  filter f (map g l) = map g (filter (fun x => f (g x)) l).
Proof.
  induction l as [|x l IH]; simpl; [reflexivity|].
  destruct (f (g x)); simpl; rewrite IH; reflexivity.
Qed.

Lemma xminl_fin x l : xminl (Fin x) (map Fin l) = Fin (minQ x l).
Proof.
  revert x. induction l as [|y l IH]; intros x; simpl; [reflexivity|].
  destruct (Qle_bool y x); apply IH.
Qed.

Definition unit_w (ys : list Q) : list elt := map (fun y => (y, 1)) ys.

Theorem xqlow_fin a ys : xqlow a (map Fin ys) = Fin (qlow a (unit_w ys)).
Proof.
  unfold xqlow, qlow, unit_w.
  rewrite filter_map_comm. rewrite (filter_map_comm _ (fun y => (y, 1)) ys). rewrite map_map.
  cbn [ey fst]. rewrite map_id.
  assert (E : forall y, xreaches a (map Fin ys) (Fin y) = reaches a (map (fun y0 => (y0, 1)) ys) y).
  { intros y. unfold xreaches, reaches, xcount_le, count_le. rewrite !map_length.
    rewrite filter_map_comm. rewrite (filter_map_comm _ (fun y0 => (y0, 1)) ys). rewrite !map_length.
    reflexivity. }
  rewrite (filter_ext _ _ E).
  destruct (filter (fun y => reaches a (map (fun y0 => (y0, 1)) ys) y) ys) as [|x xs]; [reflexivity|].
  apply xminl_fin.
Qed.

(* ------------------------------------------------------------------ *)
(* string-like features *)
Lemma freq_le_iff a b :
  freq_le a b = true <-> (snd b < snd a \/ (snd a = snd b /\ fst a <= fst b))%nat.
Proof.
  unfold freq_le. rewrite orb_true_iff, andb_true_iff, Nat.ltb_lt, Nat.eqb_eq, Nat.leb_le. tauto.
Qed.
Lemma freq_le_total a b : freq_le a b = true \/ freq_le b a = true.
Proof. rewrite !freq_le_iff. lia. Qed.
Lemma freq_le_trans a b c : freq_le a b = true -> freq_le b c = true -> freq_le a c = true.
Proof. rewrite !freq_le_iff. lia. Qed.

Lemma freq_table_perm feature :
  Permutation (map (fun c => (c, count_code c feature)) (cats feature)) (freq_table feature).
Proof. unfold freq_table. apply isort_perm. Qed.

Lemma freq_table_entry feature e : In e (freq_table feature) ->
  e = (fst e, count_code (fst e) feature) /\ In (fst e) (cats feature).
Proof.
  intros H. apply (Permutation_in _ (Permutation_sym (freq_table_perm feature))) in H.
  apply in_map_iff in H. destruct H as [c [<- Hc]]. simpl. auto.
Qed.

Lemma freq_table_fst_perm feature : Permutation (cats feature) (map fst (freq_table feature)).
Proof.
  eapply perm_trans; [|apply Permutation_map; apply freq_table_perm].
  rewrite map_map. simpl. rewrite map_id. apply Permutation_refl.
Qed.

Lemma freq_table_nodup feature : NoDup (map fst (freq_table feature)).
Proof.
  eapply Permutation_NoDup; [apply freq_table_fst_perm|]. unfold cats. apply NoDup_nodup.
Qed.

Lemma freq_table_sorted feature : ssorted freq_le (freq_table feature).
Proof. unfold freq_table. apply isort_sorted; [apply freq_le_total| apply freq_le_trans]. Qed.

Lemma NoDup_app_disj {A} (l1 l2 : list A) x : NoDup (l1 ++ l2) -> In x l1 -> ~ In x l2.
Proof.
  induction l1 as [|a l1 IH]; simpl; intros Hnd H1 H2; [contradiction|].
  inversion Hnd as [|? ? Hnot Hnd']; subst. destruct H1 as [<-|H1].
  - apply Hnot. apply in_or_app. right. exact H2.
  - eapply IH; eauto.
Qed.

Lemma NoDup_app_r {A} (l1 l2 : list A) : NoDup (l1 ++ l2) -> NoDup l2.
Proof.
  induction l1 as [|a l1 IH]; simpl; intros H; [exact H|].
  inversion H; subst. apply IH. assumption.
Qed.

Lemma memn_iff c l : memn c l = true <-> In c l.
Proof.
  unfold memn. rewrite existsb_exists. split.
  - intros [x [Hx E]]. apply Nat.eqb_eq in E. subst. exact Hx.
  - intros H. exists c. split; [exact H| apply Nat.eqb_refl].
Qed.

(* inversion of a successful run that pooled something *)
Lemma bin_string_pooled_inv kind names feature n_bins n kept label k bins :
  bin_string kind names feature n_bins = SOk n kept (Some label) k bins ->
  let table := freq_table feature in
  let m_ef := n_bins_ef0 n_bins feature in
  (2 <= n_bins)%nat /\ (m_ef < List.length table)%nat /\
  kept = firstn (m_ef - 1) (map fst table) /\
  k = (List.length table - (m_ef - 1))%nat /\
  label = pooled_label (taken_names kind names table) k /\
  n = (m_ef + b2n (has_nulls feature))%nat /\
  bins = map (fun o => match o with
                       | None => SBNull
                       | Some c => if memn c kept then SBKeep c else SBOther
                       end) feature.
Proof.
  unfold bin_string. intros H.
  destruct (n_bins <? 2)%nat eqn:En; [discriminate|]. apply Nat.ltb_ge in En.
  destruct (List.length (freq_table feature) <=? n_bins_ef0 n_bins feature)%nat eqn:E; [discriminate|].
  apply Nat.leb_gt in E.
  inversion H; subst; repeat split; auto.
Qed.

Lemma bin_string_plain_inv kind names feature n_bins n kept k bins :
  bin_string kind names feature n_bins = SOk n kept None k bins ->
  (2 <= n_bins)%nat /\ (List.length (freq_table feature) <= n_bins_ef0 n_bins feature)%nat /\
  kept = map fst (freq_table feature) /\
  n = (List.length (freq_table feature) + b2n (has_nulls feature))%nat /\
  bins = map (fun o => match o with None => SBNull | Some c => SBKeep c end) feature.
Proof.
  unfold bin_string. intros H.
  destruct (n_bins <? 2)%nat eqn:En; [discriminate|]. apply Nat.ltb_ge in En.
  destruct (List.length (freq_table feature) <=? n_bins_ef0 n_bins feature)%nat eqn:E.
  - apply Nat.leb_le in E. inversion H; subst. repeat split; auto.
  - discriminate.
Qed.

(* the comparison between a kept and a pooled category *)
Lemma kept_before_pooled kind names feature n_bins n kept label k bins c d :
  bin_string kind names feature n_bins = SOk n kept (Some label) k bins ->
  In c kept -> In d (cats feature) -> ~ In d kept ->
  freq_le (c, count_code c feature) (d, count_code d feature) = true /\ c <> d.
Proof.
  intros H Hc Hd Hnd. apply bin_string_pooled_inv in H. cbv zeta in H.
  destruct H as (_ & _ & Hk & _).
  set (j := (n_bins_ef0 n_bins feature - 1)%nat) in *.
  split; [|intros ->; contradiction].
  rewrite Hk in Hc, Hnd. rewrite firstn_map in Hc, Hnd.
  apply in_map_iff in Hc. destruct Hc as [e [Hec He]].
  pose proof (freq_table_entry feature e (in_firstn _ _ _ He)) as [Ee _].
  rewrite Hec in Ee. rewrite <- Ee.
  assert (Hdt : In (d, count_code d feature) (freq_table feature)).
  { eapply Permutation_in; [apply freq_table_perm|].
    apply in_map_iff. exists d. auto. }
  rewrite <- (firstn_skipn j (freq_table feature)) in Hdt. apply in_app_or in Hdt.
  destruct Hdt as [Hdt|Hdt].
  - exfalso. apply Hnd. apply in_map_iff. exists (d, count_code d feature). auto.
  - eapply sorted_firstn_skipn; [apply freq_table_sorted| exact He| exact Hdt].
Qed.

(* C13: the most frequent categories are kept *)
Theorem kept_are_most_frequent kind names feature n_bins n kept label k bins c d :
  bin_string kind names feature n_bins = SOk n kept (Some label) k bins ->
  In c kept -> In d (cats feature) -> ~ In d kept ->
  (count_code d feature <= count_code c feature)%nat.
Proof.
  intros H Hc Hd Hnd. destruct (kept_before_pooled _ _ _ _ _ _ _ _ _ _ _ H Hc Hd Hnd) as [L _].
  apply freq_le_iff in L. simpl in L. lia.
Qed.

(* C13: ties in natural order (the rank c is the position in the natural order) *)
Theorem tie_natural_order kind names feature n_bins n kept label k bins c d :
  bin_string kind names feature n_bins = SOk n kept (Some label) k bins ->
  In c kept -> In d (cats feature) -> ~ In d kept ->
  count_code d feature = count_code c feature -> (c < d)%nat.
Proof.
  intros H Hc Hd Hnd Heq. destruct (kept_before_pooled _ _ _ _ _ _ _ _ _ _ _ H Hc Hd Hnd) as [L Hne].
  apply freq_le_iff in L. simpl in L. lia.
Qed.

(* C13: k is the number of pooled categories, and k >= 2 *)
Theorem pooled_k_ge_2 kind names feature n_bins n kept label k bins :
  bin_string kind names feature n_bins = SOk n kept (Some label) k bins ->
  (2 <= k)%nat /\
  exists pooled, NoDup pooled /\ List.length pooled = k /\
    forall d, In d pooled <-> (In d (cats feature) /\ ~ In d kept).
Proof.
  intros H. apply bin_string_pooled_inv in H. cbv zeta in H.
  destruct H as (_ & Hlt & Hk & Hkk & _).
  set (j := (n_bins_ef0 n_bins feature - 1)%nat) in *.
  assert (Hef : (1 <= n_bins_ef0 n_bins feature)%nat) by (unfold n_bins_ef0; lia).
  split; [lia|].
  exists (map fst (skipn j (freq_table feature))).
  pose proof (freq_table_nodup feature) as Hnd.
  rewrite <- (firstn_skipn j (freq_table feature)) in Hnd. rewrite map_app in Hnd.
  rewrite <- firstn_map in Hnd. rewrite <- Hk in Hnd.
  split; [eapply NoDup_app_r; exact Hnd|].
  split; [rewrite map_length, skipn_length; lia|].
  intros d. split.
  - intros Hd. split.
    + eapply Permutation_in; [apply Permutation_sym; apply freq_table_fst_perm|].
      apply in_map_iff in Hd. destruct Hd as [e [<- He]]. apply in_map. eapply in_skipn. exact He.
    + intros Hkept. eapply NoDup_app_disj; eauto.
  - intros [Hd Hnk].
    apply (Permutation_in _ (freq_table_fst_perm feature)) in Hd.
    rewrite <- (firstn_skipn j (freq_table feature)) in Hd. rewrite map_app in Hd.
    rewrite <- firstn_map in Hd. rewrite <- Hk in Hd.
    apply in_app_or in Hd. destruct Hd as [Hd|Hd]; [contradiction| exact Hd].
Qed.

(* the freshness loop, lines 212-213, leaves a name that is not a KEPT name *)
Lemma str_mem_iff s l : str_mem s l = true <-> In s l.
Proof.
  unfold str_mem. rewrite existsb_exists. split.
  - intros [x [Hx E]]. apply String.eqb_eq in E. subst. exact Hx.
  - intros H. exists s. split; [exact H| apply String.eqb_refl].
Qed.

Definition longer (s : string) (l : list string) : nat :=
  List.length (filter (fun x => (String.length s <=? String.length x)%nat) l).

Lemma filter_count_le {A} (p q : A -> bool) l :
  (forall y, p y = true -> q y = true) ->
  (List.length (filter p l) <= List.length (filter q l))%nat.
Proof.
  intros Hpq. induction l as [|y l IH]; [apply Nat.le_refl|].
  cbn [filter]. destruct (p y) eqn:P.
  - rewrite (Hpq y P). cbn [List.length]. lia.
  - destruct (q y); cbn [List.length]; lia.
Qed.

Lemma filter_count_lt {A} (p q : A -> bool) l x :
  (forall y, p y = true -> q y = true) -> In x l -> p x = false -> q x = true ->
  (List.length (filter p l) < List.length (filter q l))%nat.
Proof.
  intros Hpq. induction l as [|y l IH]; intros Hin Px Qx; [contradiction|].
  cbn [filter]. destruct Hin as [->|Hin].
  - rewrite Px, Qx. cbn [List.length]. pose proof (filter_count_le p q l Hpq). lia.
  - specialize (IH Hin Px Qx). destruct (p y) eqn:P.
    + rewrite (Hpq y P). cbn [List.length]. lia.
    + destruct (q y); cbn [List.length]; lia.
Qed.

Lemma longer_decreases s l : In s l -> (longer ("_" ++ s)%string l < longer s l)%nat.
Proof.
  intros Hin. unfold longer.
  change (String.length ("_" ++ s)%string) with (S (String.length s)).
  apply (filter_count_lt _ _ l s); auto.
  - intros y H. apply Nat.leb_le in H. apply Nat.leb_le. lia.
  - apply Nat.leb_gt. lia.
  - apply Nat.leb_refl.
Qed.

Lemma fresh_loop_fresh fuel l s :
  (longer s l < fuel)%nat -> str_mem (fresh_loop fuel l s) l = false.
Proof.
  revert s. induction fuel as [|f IH]; intros s Hlt; [lia|].
  cbn [fresh_loop]. destruct (str_mem s l) eqn:E; [|exact E].
  apply IH. apply str_mem_iff in E. pose proof (longer_decreases s l E). lia.
Qed.

Theorem pooled_label_not_taken taken k : ~ In (pooled_label taken k) taken.
Proof.
  intros H. apply str_mem_iff in H. unfold pooled_label in H.
  rewrite fresh_loop_fresh in H; [discriminate|].
  unfold longer. pose proof (filter_len_le (fun x => (String.length ("other " ++ format_integer k) <=? String.length x)%nat) taken). lia.
Qed.

(* C13 "never colliding with a real category": the pooled label differs from the name of
   EVERY category of the feature, kept or merged (repaired in /repo commit 3ff5ebb) *)
Theorem pooled_label_fresh kind names feature n_bins n kept label k bins :
  bin_string kind names feature n_bins = SOk n kept (Some label) k bins ->
  forall c, In c (cats feature) -> name_of names c <> label.
Proof.
  intros H c Hc E. apply bin_string_pooled_inv in H. cbv zeta in H.
  destruct H as (_ & _ & _ & _ & Hl & _).
  apply (pooled_label_not_taken (taken_names kind names (freq_table feature)) k).
  rewrite <- Hl. rewrite <- E. unfold taken_names. apply in_or_app. left.
  apply in_map. eapply Permutation_in; [apply freq_table_fst_perm| exact Hc].
Qed.

(* ... and, for an Enum, from every declared category (so the enlarged Enum is well formed) *)
Theorem pooled_label_fresh_enum names feature n_bins n kept label k bins :
  bin_string SEnum names feature n_bins = SOk n kept (Some label) k bins -> ~ In label names.
Proof.
  intros H Hin. apply bin_string_pooled_inv in H. cbv zeta in H.
  destruct H as (_ & _ & _ & _ & Hl & _).
  apply (pooled_label_not_taken (taken_names SEnum names (freq_table feature)) k).
  rewrite <- Hl. unfold taken_names. apply in_or_app. right. exact Hin.
Qed.

(* the loop as it was BEFORE commit 3ff5ebb looked at the kept categories only
   (`while remaining_name in keep_values`); that variant does collide (former defect D8) *)
Definition old_pooled_label (names : list string) (feature : list (option nat)) (n_bins : nat) : string :=
  let table := freq_table feature in
  let m_ef := n_bins_ef0 n_bins feature in
  let kept := firstn (m_ef - 1) (map fst table) in
  pooled_label (map (name_of names) kept) (List.length table - (m_ef - 1)).

Theorem old_loop_label_collides :
  exists names feature n_bins c,
    NoDup names /\ In c (cats feature) /\ name_of names c = old_pooled_label names feature n_bins.
Proof.
  exists ["a"; "b"; "c"; "other 3"]%string, [Some 0; Some 0; Some 3; Some 1; Some 2]%nat, 2%nat, 3%nat.
  split; [|split; [vm_compute; tauto| vm_compute; reflexivity]].
  repeat constructor; simpl; intros H; repeat (destruct H as [H|H]; [discriminate|]); exact H.
Qed.

(* the label is the number of pooled categories for k < 1000; above,
   `_format_integer` rounds to three significant digits by design *)
Theorem label_is_count k : (k < 1000)%nat -> format_integer k = nat_str k.
Proof. intros H. unfold format_integer. apply Nat.ltb_lt in H. rewrite H. reflexivity. Qed.

(* ... string-like part: String, Categorical and Enum columns are never rejected *)
Theorem bin_string_accepts kind names feature n_bins :
  (2 <= n_bins)%nat ->
  exists n kept label k bins, bin_string kind names feature n_bins = SOk n kept label k bins.
Proof.
  intros H2. unfold bin_string.
  assert (E : (n_bins <? 2)%nat = false) by (apply Nat.ltb_ge; exact H2). rewrite E.
  destruct (List.length (freq_table feature) <=? n_bins_ef0 n_bins feature)%nat; do 5 eexists; reflexivity.
Qed.

(* rows of a string-like feature: null <-> null bin; a category is kept under its own
   name or pooled *)
Theorem sbin_total kind names feature n_bins n kept label k bins :
  bin_string kind names feature n_bins = SOk n kept label k bins ->
  List.length bins = List.length feature /\
  forall i, match nth_error feature i with
            | None => nth_error bins i = None
            | Some None => nth_error bins i = Some SBNull
            | Some (Some c) =>
                (nth_error bins i = Some (SBKeep c) /\ In c kept) \/
                (nth_error bins i = Some SBOther /\ ~ In c kept /\ label <> None)
            end.
Proof.
  intros H. destruct label as [label|].
  - apply bin_string_pooled_inv in H. cbv zeta in H. destruct H as (_ & _ & _ & _ & _ & _ & Hb).
    subst bins. split; [apply map_length|].
    intros i. destruct (nth_error feature i) as [o|] eqn:E.
    + rewrite (map_nth_error _ _ _ E). destruct o as [c|]; [|reflexivity].
      destruct (memn c kept) eqn:M.
      * left. split; [reflexivity| apply memn_iff; exact M].
      * right. split; [reflexivity|]. split; [|discriminate].
        intros Hin. apply memn_iff in Hin. congruence.
    + apply nth_error_None. rewrite map_length. apply nth_error_None. exact E.
  - apply bin_string_plain_inv in H. destruct H as (_ & _ & Hk & _ & Hb).
    subst bins. split; [apply map_length|].
    intros i. destruct (nth_error feature i) as [o|] eqn:E.
    + rewrite (map_nth_error _ _ _ E). destruct o as [c|]; [|reflexivity].
      left. split; [reflexivity|]. subst kept.
      eapply Permutation_in; [apply freq_table_fst_perm|].
      unfold cats. apply nodup_In. apply in_nonnull. eapply nth_error_In. exact E.
    + apply nth_error_None. rewrite map_length. apply nth_error_None. exact E.
Qed.

Definition sbin_dec : forall a b : sbin, {a = b} + {a <> b}.
Proof. decide equality. apply Nat.eq_dec. Defined.
Definition sgroups (bins : list sbin) : nat := List.length (nodup sbin_dec bins).

(* C13: at most n_bins groups, the null bin and the pooled bin included *)
Theorem sgroups_le_n_bins kind names feature n_bins n kept label k bins :
  bin_string kind names feature n_bins = SOk n kept label k bins ->
  (sgroups bins <= n)%nat /\ (n <= n_bins)%nat.
Proof.
  intros H. pose proof (sbin_total _ _ _ _ _ _ _ _ _ H) as [_ T].
  set (univ := (if has_nulls feature then [SBNull] else []) ++ map SBKeep kept ++
               (match label with Some _ => [SBOther] | None => [] end)).
  assert (Hincl : incl (nodup sbin_dec bins) univ).
  { intros g Hg. apply nodup_In in Hg. apply In_nth_error in Hg. destruct Hg as [i Hi].
    specialize (T i). unfold univ.
    destruct (nth_error feature i) as [o|] eqn:E; [|congruence].
    destruct o as [c|].
    - destruct T as [[T1 T2]|[T1 [T2 T3]]]; rewrite T1 in Hi; inversion Hi; subst.
      + apply in_or_app. right. apply in_or_app. left. apply in_map. exact T2.
      + apply in_or_app. right. apply in_or_app. right. destruct label; [left; reflexivity| congruence].
    - rewrite T in Hi. inversion Hi; subst. apply in_or_app. left.
      rewrite (has_nulls_in feature (nth_error_In _ _ E)). left. reflexivity. }
  assert (Hlen : (sgroups bins <= List.length univ)%nat).
  { unfold sgroups. apply NoDup_incl_length; [apply NoDup_nodup| exact Hincl]. }
  unfold univ in Hlen. rewrite !app_length, map_length in Hlen.
  destruct label as [label|].
  - apply bin_string_pooled_inv in H. cbv zeta in H.
    destruct H as (H2 & Hlt & Hk & _ & _ & Hn & _).
    assert (Hkl : List.length kept = (n_bins_ef0 n_bins feature - 1)%nat).
    { rewrite Hk, firstn_length, map_length. lia. }
    unfold n_bins_ef0 in *.
    destruct (has_nulls feature); cbn [b2n List.length] in *; lia.
  - apply bin_string_plain_inv in H. destruct H as (H2 & Hle & Hk & Hn & _).
    assert (Hkl : List.length kept = List.length (freq_table feature)) by (rewrite Hk, map_length; reflexivity).
    unfold n_bins_ef0 in *.
    destruct (has_nulls feature); cbn [b2n List.length] in *; lia.
Qed.

(* ------------------------------------------------------------------ *)
(* hypotheses are satisfiable / sanity *)
Example bin_numeric_example :
  bin_numeric KNum [Some (Fin 1); Some (Fin 2); Some (Fin 3); Some (Fin 4); None; None] 3 Quantile []
  = NOk 3 [Fin 2] [(Fin 1, Fin 2); (Fin 2, Fin 4)]
      [Some (0%nat, (Fin 1, Fin 2)); Some (0%nat, (Fin 1, Fin 2));
       Some (1%nat, (Fin 2, Fin 4)); Some (1%nat, (Fin 2, Fin 4)); None; None].
Proof. vm_compute. reflexivity. Qed.

(* an all-null / all-NaN column: every row in the null bin (repaired in /repo commit 9ce4ae5) *)
Example all_null_example :
  bin_numeric KNum [None; None] 3 Uniform [] = NOk 1 [] [] [None; None].
Proof. reflexivity. Qed.
(* an Enum that needs pooling (repaired in /repo commit f02e33e) *)
Example enum_pooling_example :
  bin_string SEnum ["c"; "b"; "a"]%string [Some 2; Some 2; Some 1; Some 0]%nat 2
  = SOk 2 [2%nat] (Some "other 2"%string) 2 [SBKeep 2; SBKeep 2; SBOther; SBOther].
Proof. vm_compute. reflexivity. Qed.
(* the former D8 input now gets a fresh label *)
Example former_d8_example :
  bin_string SString ["a"; "b"; "c"; "other 3"]%string [Some 0; Some 0; Some 3; Some 1; Some 2]%nat 2
  = SOk 2 [0%nat] (Some "_other 3"%string) 3 [SBKeep 0; SBKeep 0; SBOther; SBOther; SBOther].
Proof. vm_compute. reflexivity. Qed.

Print Assumptions bin_numeric_accepts.
Print Assumptions bin_total.
Print Assumptions bin_contains.
Print Assumptions bin_monotone.
Print Assumptions bin_equal_values.
Print Assumptions groups_le_returned.
Print Assumptions groups_le_n_bins.
Print Assumptions quantile_edges_strict.
Print Assumptions uniform_edges_sorted.
Print Assumptions xqlow_fin.
Print Assumptions table_contains.
Print Assumptions kept_are_most_frequent.
Print Assumptions tie_natural_order.
Print Assumptions pooled_k_ge_2.
Print Assumptions pooled_label_fresh.
Print Assumptions pooled_label_fresh_enum.
Print Assumptions old_loop_label_collides.
Print Assumptions label_is_count.
Print Assumptions bin_string_accepts.
Print Assumptions sbin_total.
Print Assumptions sgroups_le_n_bins.
