(* Lemmas about model/NumpyRules.v (numpy's histogram rules 'sturges', 'sqrt', 'rice' as used by
   `bin_feature`, property C13; C09 / C10 through the default bin_method='sturges').
   World Q / N, no axioms. *)
From Coq Require Import ZArith NArith QArith Qabs Qreduction Qpower Lqa Lia List Bool.
Import ListNotations.
Open Scope Q_scope.
From MD Require Import lib.QLists model.Functionals model.Binning model.NumpyRules proofs.BinningProps.

(* ------------------------------------------------------------------ *)
(* A. the integer logarithm and roots                                   *)

(* clog2 n is the least k with n <= 2^k *)
Theorem clog2_spec n : (0 < n)%N ->
  (n <= 2 ^ clog2 n)%N /\ forall k, (n <= 2 ^ k)%N -> (clog2 n <= k)%N.
Proof.
  intros Hn. unfold clog2. split.
  - apply N.log2_up_le_pow2; [exact Hn| reflexivity].
  - intros k Hk. apply N.log2_up_le_pow2; assumption.
Qed.

Lemma clog2_lower n : (1 < n)%N -> (2 ^ (clog2 n - 1) < n)%N.
Proof.
  intros Hn. unfold clog2. pose proof (N.log2_up_spec n Hn) as [H _].
  rewrite <- N.sub_1_r in H. exact H.
Qed.

(* csqrt n is the least k with n <= k^2 *)
Theorem csqrt_spec n :
  (n <= csqrt n * csqrt n)%N /\ forall k, (n <= k * k)%N -> (csqrt n <= k)%N.
Proof.
  unfold csqrt. split.
  - apply N.sqrt_up_le_square; [apply N.le_0_l| apply N.le_0_l| reflexivity].
  - intros k Hk. apply N.sqrt_up_le_square; [apply N.le_0_l| apply N.le_0_l| exact Hk].
Qed.

Lemma cube_le_mono a b : (a <= b)%N -> (cube a <= cube b)%N.
Proof. unfold cube. intros H. repeat apply N.mul_le_mono; exact H. Qed.
Lemma cube_lt_mono a b : (a < b)%N -> (cube a < cube b)%N.
Proof.
  unfold cube. intros H.
  assert (H2 : (a * a < b * b)%N) by (apply N.mul_lt_mono; exact H).
  apply N.mul_lt_mono; assumption.
Qed.

Lemma cube_pow2 b : cube (2 ^ b) = (2 ^ (3 * b))%N.
Proof.
  unfold cube. replace (3 * b)%N with (b + b + b)%N by lia.
  rewrite !N.pow_add_r. reflexivity.
Qed.

Lemma icbrt_aux_spec b : forall m r,
  (cube r <= m < cube (r + 2 ^ N.of_nat b))%N ->
  (cube (icbrt_aux b m r) <= m < cube (icbrt_aux b m r + 1))%N.
Proof.
  induction b as [|b IH]; intros m r H.
  - simpl in *. exact H.
  - cbn [icbrt_aux]. cbv zeta.
    assert (E : (r + 2 ^ N.of_nat (S b) = r + 2 ^ N.of_nat b + 2 ^ N.of_nat b)%N).
    { rewrite Nat2N.inj_succ, N.pow_succ_r'. lia. }
    rewrite E in H.
    destruct (cube (r + 2 ^ N.of_nat b) <=? m)%N eqn:C.
    + apply N.leb_le in C. apply IH. split; [exact C| apply H].
    + apply N.leb_gt in C. apply IH. split; [apply H| exact C].
Qed.

Lemma icbrt_bits_bound m : (m < cube (2 ^ N.of_nat (icbrt_bits m)))%N.
Proof.
  rewrite cube_pow2. unfold icbrt_bits.
  destruct (N.eq_dec m 0) as [->|Hm].
  - simpl. lia.
  - assert (Hpos : (0 < m)%N) by lia.
    pose proof (N.log2_spec m Hpos) as [_ Hlt].
    eapply N.lt_le_trans; [exact Hlt|].
    apply N.pow_le_mono_r; [lia|].
    set (L := N.to_nat (N.log2 m)).
    assert (HL : N.log2 m = N.of_nat L) by (unfold L; rewrite N2Nat.id; reflexivity).
    rewrite HL.
    pose proof (Nat.div_mod L 3 ltac:(lia)) as D.
    pose proof (Nat.mod_upper_bound L 3 ltac:(lia)) as U.
    lia.
Qed.

Theorem icbrt_spec m : (cube (icbrt m) <= m < cube (icbrt m + 1))%N.
Proof.
  unfold icbrt. apply icbrt_aux_spec. split.
  - unfold cube. lia.
  - rewrite N.add_0_l. apply icbrt_bits_bound.
Qed.

(* ccbrt m is the least k with m <= k^3 *)
Theorem ccbrt_spec m :
  (m <= cube (ccbrt m))%N /\ forall k, (m <= cube k)%N -> (ccbrt m <= k)%N.
Proof.
  unfold ccbrt. pose proof (icbrt_spec m) as [H1 H2].
  destruct (cube (icbrt m) =? m)%N eqn:E.
  - apply N.eqb_eq in E. split; [lia|].
    intros k Hk. destruct (N.le_gt_cases (icbrt m) k) as [L|G]; [exact L|].
    apply cube_lt_mono in G. lia.
  - apply N.eqb_neq in E. split; [lia|].
    intros k Hk. destruct (N.le_gt_cases (icbrt m + 1) k) as [L|G]; [exact L|].
    assert (L : (k <= icbrt m)%N) by lia. apply cube_le_mono in L. lia.
Qed.

(* the three rules: the least integer k that is at least log2 n + 1 | sqrt n | 2 n^(1/3) *)
Theorem bins_exact_sturges n : (0 < n)%N ->
  (n <= 2 ^ (bins_exact Sturges n - 1))%N /\
  forall k, (1 <= k)%N -> (n <= 2 ^ (k - 1))%N -> (bins_exact Sturges n <= k)%N.
Proof.
  intros Hn. cbn [bins_exact]. pose proof (clog2_spec n Hn) as [H1 H2].
  replace (clog2 n + 1 - 1)%N with (clog2 n) by lia. split; [exact H1|].
  intros k Hk Hle. specialize (H2 _ Hle). lia.
Qed.

Theorem bins_exact_sqrt n :
  (n <= bins_exact Sqrt n * bins_exact Sqrt n)%N /\
  forall k, (n <= k * k)%N -> (bins_exact Sqrt n <= k)%N.
Proof. apply csqrt_spec. Qed.

(* k >= 2 n^(1/3)  <->  k^3 >= 8 n *)
Theorem bins_exact_rice n :
  (8 * n <= cube (bins_exact Rice n))%N /\
  forall k, (8 * n <= cube k)%N -> (bins_exact Rice n <= k)%N.
Proof. apply ccbrt_spec. Qed.

Lemma bins_exact_pos r n : (0 < n)%N -> (1 <= bins_exact r n)%N.
Proof.
  intros Hn. destruct r; cbn [bins_exact].
  - lia.
  - pose proof (csqrt_spec n) as [H _].
    destruct (N.eq_dec (csqrt n) 0) as [E|E]; [rewrite E in H; lia| lia].
  - pose proof (ccbrt_spec (8 * n)) as [H _]. unfold cube in H.
    destruct (N.eq_dec (ccbrt (8 * n)) 0) as [E|E]; [rewrite E in H; lia| lia].
Qed.

(* the exact points: n = 2^k, n = k^2 (and n = 1, 8, 27 for 'rice'), where the real number
   log2 n + 1 | sqrt n | 2 n^(1/3) is the integer bins_exact itself *)
Lemma exact_point_sturges n : exact_point Sturges n = true <-> (2 ^ (bins_exact Sturges n - 1) = n)%N.
Proof.
  cbn [exact_point bins_exact]. replace (clog2 n + 1 - 1)%N with (clog2 n) by lia.
  apply N.eqb_eq.
Qed.
Lemma exact_point_sqrt n : exact_point Sqrt n = true <-> (bins_exact Sqrt n * bins_exact Sqrt n = n)%N.
Proof. cbn [exact_point bins_exact]. apply N.eqb_eq. Qed.
Lemma exact_point_rice n : exact_point Rice n = true -> (cube (bins_exact Rice n) = 8 * n)%N.
Proof.
  cbn [exact_point bins_exact]. intros H.
  apply orb_true_iff in H. destruct H as [H|H]; [apply orb_true_iff in H; destruct H as [H|H]|];
    apply N.eqb_eq in H; subst n; vm_compute; reflexivity.
Qed.

(* ------------------------------------------------------------------ *)
(* B. the exact edges: linspace over Q                                  *)

(* consecutive elements strictly increasing *)
Fixpoint strictQ (l : list Q) : Prop :=
  match l with
  | x :: l' => match l' with y :: _ => x < y /\ strictQ l' | [] => True end
  | [] => True
  end.

Lemma strictQ_sortedQ l : strictQ l -> sortedQ l.
Proof.
  induction l as [|x l IH]; [auto|]. destruct l as [|y l]; [simpl; auto|].
  intros [H1 H2]. split; [apply Qlt_le_weak; exact H1| apply IH; exact H2].
Qed.

Lemma nseq_length len s : List.length (nseq len s) = len.
Proof. revert s. induction len as [|len IH]; intros s; simpl; [reflexivity| rewrite IH; reflexivity]. Qed.

Lemma nseq_snoc len : forall s, nseq (S len) s = nseq len s ++ [(s + N.of_nat len)%N].
Proof.
  induction len as [|len IH]; intros s.
  - simpl. rewrite N.add_0_r. reflexivity.
  - change (nseq (S (S len)) s) with (s :: nseq (S len) (N.succ s)). rewrite IH.
    cbn [nseq app]. do 2 f_equal. rewrite Nat2N.inj_succ. f_equal. lia.
Qed.

Lemma NQ_succ i : NQ (N.succ i) == NQ i + 1.
Proof. unfold NQ. rewrite N2Z.inj_succ. unfold Z.succ. rewrite inject_Z_plus. reflexivity. Qed.

Lemma NQ_pos K : (0 < K)%N -> 0 < NQ K.
Proof. intros H. unfold NQ. change 0 with (inject_Z 0). rewrite <- Zlt_Qlt. lia. Qed.

Lemma map_nseq_strict (g : N -> Q) len : forall s,
  (forall i, g i < g (N.succ i)) -> strictQ (map g (nseq len s)).
Proof.
  induction len as [|len IH]; intros s H; [exact I|].
  destruct len as [|len]; [exact I|].
  change (g s < g (N.succ s) /\ strictQ (map g (nseq (S len) (N.succ s)))).
  split; [apply H| apply IH; exact H].
Qed.

Definition lin_elt (f l : Q) (K i : N) : Q := Qred (f + (l - f) * NQ i / NQ K).

Lemma lin_elt_step f l K i : f < l -> (0 < K)%N -> lin_elt f l K i < lin_elt f l K (N.succ i).
Proof.
  intros Hfl HK. unfold lin_elt. rewrite !Qred_correct, NQ_succ.
  pose proof (NQ_pos K HK) as HQ.
  assert (E : f + (l - f) * (NQ i + 1) / NQ K == f + (l - f) * NQ i / NQ K + (l - f) / NQ K)
    by (field; lra).
  rewrite E.
  assert (0 < (l - f) / NQ K).
  { apply Qlt_shift_div_l; [exact HQ| lra]. }
  lra.
Qed.

Lemma linspaceQ_length f l K : List.length (linspaceQ f l K) = S (N.to_nat K).
Proof. unfold linspaceQ. rewrite map_length, nseq_length. reflexivity. Qed.

Lemma linspaceQ_hd f l K : hd 0 (linspaceQ f l K) == f.
Proof.
  unfold linspaceQ. cbn [nseq map hd]. rewrite Qred_correct.
  unfold NQ at 1. simpl (Z.of_N 0). unfold Qdiv. ring.
Qed.

Lemma linspaceQ_last f l K : (0 < K)%N -> last (linspaceQ f l K) 0 == l.
Proof.
  intros HK. unfold linspaceQ. rewrite nseq_snoc, map_app. cbn [map]. rewrite last_last.
  rewrite Qred_correct, N.add_0_l, N2Nat.id.
  pose proof (NQ_pos K HK). field. lra.
Qed.

Lemma linspaceQ_strict f l K : f < l -> (0 < K)%N -> strictQ (linspaceQ f l K).
Proof.
  intros Hfl HK. unfold linspaceQ.
  apply (map_nseq_strict (lin_elt f l K)). intros i. apply lin_elt_step; assumption.
Qed.

Lemma ceilQ_pos x : 0 < x -> (1 <= ceilQ x)%Z.
Proof.
  intros H. unfold ceilQ. destruct x as [a b]. unfold Qlt in H. simpl in *.
  assert (Ha : (0 < a)%Z) by lia.
  assert ((- a) / Zpos b < 0)%Z by (apply Z.div_lt_upper_bound; lia).
  lia.
Qed.

Lemma nbins_exact_pos r k n lo hi : (0 < n)%N -> lo < hi -> (1 <= nbins_exact r k n lo hi)%N.
Proof.
  intros Hn Hlt. pose proof (bins_exact_pos r n Hn) as HK. unfold nbins_exact.
  destruct k; [exact HK|].
  destruct (Qle_bool (NQ (bins_exact r n)) (hi - lo)); [exact HK|].
  assert (H : (1 <= ceilQ (hi - lo))%Z) by (apply ceilQ_pos; lra). lia.
Qed.

(* the mathematical edges: bins + 1 of them, from the smallest to the largest value (a constant
   sample: value -+ 1/2; an empty one: 0, 1), strictly increasing *)
Theorem rule_edges_exact_props r k n lo hi :
  lo <= hi ->
  let es := rule_edges_exact r k n lo hi in
  let '(f, l, K) := rule_outer_exact r k n lo hi in
  (1 <= K)%N /\ List.length es = S (N.to_nat K) /\ hd 0 es == f /\ last es 0 == l /\
  f < l /\ strictQ es.
Proof.
  intros Hle. unfold rule_edges_exact.
  assert (G : forall f l K, f < l -> (1 <= K)%N ->
            (1 <= K)%N /\ List.length (linspaceQ f l K) = S (N.to_nat K) /\
            hd 0 (linspaceQ f l K) == f /\ last (linspaceQ f l K) 0 == l /\ f < l /\
            strictQ (linspaceQ f l K)).
  { intros f l K Hfl HK. repeat split; auto.
    - apply linspaceQ_length.
    - apply linspaceQ_hd.
    - apply linspaceQ_last. lia.
    - apply linspaceQ_strict; [exact Hfl| lia]. }
  unfold rule_outer_exact.
  destruct (n =? 0)%N eqn:En; [apply G; [reflexivity| lia]|]. apply N.eqb_neq in En.
  destruct (Qeq_bool lo hi) eqn:Eq.
  - apply Qeq_bool_iff in Eq. apply G; [lra| lia].
  - assert (Hlt : lo < hi).
    { destruct (Qlt_le_dec lo hi) as [L|L]; [exact L|].
      assert (Heq : lo == hi) by lra. apply Qeq_bool_iff in Heq. congruence. }
    apply G; [exact Hlt| apply nbins_exact_pos; [lia| exact Hlt]].
Qed.

(* for a non-constant sample the outer edges are its smallest and largest value *)
Lemma rule_outer_exact_nonconst r k n lo hi : (0 < n)%N -> lo < hi ->
  rule_outer_exact r k n lo hi = (lo, hi, nbins_exact r k n lo hi).
Proof.
  intros Hn Hlt. unfold rule_outer_exact.
  destruct (n =? 0)%N eqn:En; [apply N.eqb_eq in En; lia|].
  destruct (Qeq_bool lo hi) eqn:Eq; [apply Qeq_bool_iff in Eq; lra| reflexivity].
Qed.

(* numpy >= 2.1, integer dtype: never more bins than max - min *)
Lemma nbins_exact_int r n lo hi : (0 < n)%N -> lo < hi ->
  NQ (nbins_exact r DInt n lo hi) <= inject_Z (ceilQ (hi - lo)).
Proof.
  intros Hn Hlt. unfold nbins_exact.
  destruct (Qle_bool (NQ (bins_exact r n)) (hi - lo)) eqn:E.
  - apply Qle_bool_iff in E. eapply Qle_trans; [exact E|].
    unfold ceilQ. destruct (hi - lo) as [a b]. unfold Qle, inject_Z. simpl.
    pose proof (Z.div_mod (- a) (Zpos b) ltac:(lia)) as D.
    pose proof (Z.mod_pos_bound (- a) (Zpos b) ltac:(lia)) as M. nia.
  - unfold NQ. rewrite Z2N.id; [apply Qle_refl|].
    pose proof (ceilQ_pos (hi - lo) ltac:(lra)). lia.
Qed.

(* ------------------------------------------------------------------ *)
(* C. numpy's binary64 edges (`np_edges`)                               *)

Lemma strictly_increasing_b_strictQ l : strictly_increasing_b l = true -> strictQ l.
Proof.
  induction l as [|x l IH]; [intros; exact I|]. destruct l as [|y l]; [intros; exact I|].
  intros H. change (negb (Qle_bool y x) && strictly_increasing_b (y :: l) = true) in H.
  apply andb_true_iff in H. destruct H as [H1 H2]. split; [|apply IH; exact H2].
  apply negb_true_iff in H1. destruct (Qlt_le_dec x y) as [L|L]; [exact L|].
  apply Qle_bool_iff in L. congruence.
Qed.

Lemma linspace_fl_length f l K : List.length (linspace_fl f l K) = S (N.to_nat K).
Proof. unfold linspace_fl. rewrite app_length, map_length, nseq_length. simpl. lia. Qed.

Lemma linspace_fl_last f l K : last (linspace_fl f l K) 0 = l.
Proof. unfold linspace_fl. apply last_last. Qed.

(* what an accepted result looks like: K + 1 edges that passed numpy's own monotonicity check
   (l. 448-451), produced by linspace between the (float) outer edges *)
Theorem np_edges_ok r k n lo hi K es :
  np_edges r k n lo hi = NpOk K es ->
  exists fe le,
    outer_np r k n lo hi = Outer fe le K /\
    es = linspace_fl (rnd fe) (rnd le) K /\
    List.length es = S (N.to_nat K) /\ last es 0 = rnd le /\ strictQ es.
Proof.
  unfold np_edges. destruct (outer_np r k n lo hi) as [fe le K0| |] eqn:Eo; try discriminate.
  destruct (is_inf _); [discriminate|].
  destruct (strictly_increasing_b _) eqn:Es; [|discriminate].
  intros H. inversion H; subst. exists fe, le. repeat split.
  - apply linspace_fl_length.
  - apply linspace_fl_last.
  - apply strictly_increasing_b_strictQ. exact Es.
Qed.

(* away from the exact points numpy's number of bins IS the mathematical one (in the model by
   definition: see the header of model/NumpyRules.v for the rounding argument and the harness for
   the exhaustive check); integer dtype with max - min < bins: one bin per integer *)
Theorem np_nbins_exact r k n lo hi K es :
  np_edges r k n lo hi = NpOk K es -> (0 < n)%N -> lo < hi -> exact_point r n = false ->
  K = nbins_exact r k n lo hi.
Proof.
  intros H Hn Hlt Hx. apply np_edges_ok in H. destruct H as (fe & le & Ho & _).
  unfold outer_np in Ho.
  destruct (n =? 0)%N eqn:En; [apply N.eqb_eq in En; lia|].
  destruct (n_limit <=? n)%N; [discriminate|].
  destruct (Qeq_bool lo hi) eqn:Eq; [apply Qeq_bool_iff in Eq; lra|].
  destruct (is_inf _); [discriminate|].
  destruct (nbins_np r k n lo hi (rnd (hi - lo))) as [K0|] eqn:EK; [|discriminate].
  injection Ho as _ _ HK. subst K0. unfold nbins_np in EK. unfold nbins_exact. rewrite Hx in EK.
  destruct k.
  - destruct (Qle_bool tiny_range _); [|discriminate]. inversion EK. reflexivity.
  - destruct (Qle_bool (NQ (bins_exact r n)) (hi - lo)); inversion EK; reflexivity.
Qed.

(* at an exact point the number of bins is the result of the two float divisions *)
Theorem np_nbins_exact_point r n lo hi K es :
  np_edges r DFloat n lo hi = NpOk K es -> (0 < n)%N -> lo < hi -> exact_point r n = true ->
  K = bins_at_exact_point (rnd (hi - lo)) (bins_exact r n).
Proof.
  intros H Hn Hlt Hx. apply np_edges_ok in H. destruct H as (fe & le & Ho & _).
  unfold outer_np in Ho.
  destruct (n =? 0)%N eqn:En; [apply N.eqb_eq in En; lia|].
  destruct (n_limit <=? n)%N; [discriminate|].
  destruct (Qeq_bool lo hi) eqn:Eq; [apply Qeq_bool_iff in Eq; lra|].
  destruct (is_inf _); [discriminate|].
  destruct (nbins_np r DFloat n lo hi (rnd (hi - lo))) as [K0|] eqn:EK; [|discriminate].
  injection Ho as _ _ HK. subst K0. unfold nbins_np in EK. rewrite Hx in EK.
  destruct (Qle_bool tiny_range _); [|discriminate]. inversion EK. reflexivity.
Qed.

(* constant and empty samples: one bin *)
Theorem np_edges_constant r k n lo hi K es :
  np_edges r k n lo hi = NpOk K es -> (n = 0%N \/ lo == hi) -> K = 1%N /\ middle es = [].
Proof.
  intros H Hc. apply np_edges_ok in H. destruct H as (fe & le & Ho & Hes & _).
  assert (HK : K = 1%N).
  { unfold outer_np in Ho. destruct (n =? 0)%N eqn:En; [inversion Ho; reflexivity|].
    apply N.eqb_neq in En. destruct Hc as [Hc|Hc]; [contradiction|].
    destruct (n_limit <=? n)%N; [discriminate|].
    apply Qeq_bool_iff in Hc. rewrite Hc in Ho. inversion Ho. reflexivity. }
  split; [exact HK|]. subst K es. reflexivity.
Qed.

(* ---- sortedness of the interior edges in the sense of proofs/BinningProps.v ---- *)
Lemma xltb_fin x y : xltb (Fin x) (Fin y) = true <-> x < y.
Proof.
  unfold xltb, xleb. rewrite negb_true_iff. split; intros H.
  - destruct (Qlt_le_dec x y) as [L|L]; [exact L|]. apply Qle_bool_iff in L. congruence.
  - destruct (Qle_bool y x) eqn:E; [|reflexivity]. apply Qle_bool_iff in E. lra.
Qed.

Lemma strictQ_xstrict l : strictQ l -> xstrict (map Fin l).
Proof.
  induction l as [|x l IH]; [simpl; auto|]. intros H.
  assert (Hl : strictQ l) by (destruct l as [|y l]; [exact I| apply H]).
  specialize (IH Hl). cbn [map xstrict]. split; [|exact IH].
  intros z Hz. destruct l as [|y l]; [contradiction|].
  destruct H as [Hxy _]. cbn [map] in Hz, IH. destruct Hz as [<-|Hz].
  - apply xltb_fin. exact Hxy.
  - destruct IH as [IH1 _]. apply (xltb_trans_le _ (Fin y)).
    + apply xltb_fin. exact Hxy.
    + apply xltb_xleb. apply IH1. exact Hz.
Qed.

Lemma xstrict_removelast l : xstrict l -> xstrict (removelast l).
Proof.
  induction l as [|x l IH]; [auto|]. intros [H1 H2]. destruct l as [|y l]; [exact I|].
  change (removelast (x :: y :: l)) with (x :: removelast (y :: l)). split.
  - intros z Hz. apply H1.
    clear - Hz. revert Hz. generalize (y :: l). intros l0. induction l0 as [|a l0 IHl]; [auto|].
    destruct l0 as [|b l0]; [simpl; auto|].
    change (removelast (a :: b :: l0)) with (a :: removelast (b :: l0)).
    intros [<-|Hz]; [left; reflexivity| right; apply IHl; exact Hz].
  - apply IH. exact H2.
Qed.

Lemma middle_map {A B} (g : A -> B) (l : list A) : middle (map g l) = map g (middle l).
Proof.
  unfold middle. destruct l as [|x l]; [reflexivity|]. cbn [map tl].
  induction l as [|y l IH]; [reflexivity|]. destruct l as [|z l]; [reflexivity|].
  change (removelast (map g (y :: z :: l))) with (g y :: removelast (map g (z :: l))).
  change (removelast (y :: z :: l)) with (y :: removelast (z :: l)).
  cbn [map]. f_equal. exact IH.
Qed.

Lemma xstrict_middle l : xstrict l -> xstrict (middle l).
Proof.
  intros H. unfold middle. apply xstrict_removelast.
  destruct l as [|x l]; [exact I| apply H].
Qed.

(* THE hypothesis of BinningProps.bin_contains ("interior edges non-decreasing") holds for the
   edges the model computes for 'sturges', 'sqrt', 'rice': they are even strictly increasing *)
Theorem rule_edges_strict r k n lo hi l :
  np_interior r k n lo hi = Some l -> xstrict (map Fin l).
Proof.
  unfold np_interior. destruct (np_edges r k n lo hi) as [K es| |] eqn:E; try discriminate.
  intros H. inversion H; subst l. apply np_edges_ok in E.
  destruct E as (_ & _ & _ & _ & _ & _ & Hs).
  rewrite <- middle_map. apply xstrict_middle. apply strictQ_xstrict. exact Hs.
Qed.

Theorem rule_edges_sorted r k n lo hi l :
  np_interior r k n lo hi = Some l -> xsorted (map Fin l).
Proof. intros H. apply xstrict_sorted. eapply rule_edges_strict. exact H. Qed.

(* the same for the mathematical edges *)
Theorem rule_edges_exact_sorted r k n lo hi :
  lo <= hi -> xstrict (map Fin (middle (rule_edges_exact r k n lo hi))).
Proof.
  intros Hle. pose proof (rule_edges_exact_props r k n lo hi Hle) as P. cbv zeta in P.
  destruct (rule_outer_exact r k n lo hi) as [[f l0] K]. destruct P as (_ & _ & _ & _ & _ & Hs).
  rewrite <- middle_map. apply xstrict_middle. apply strictQ_xstrict. exact Hs.
Qed.

(* number of interior edges = bins - 1, hence `n_bins_ef = bin_edges.shape[0] + 1` (binning.py
   l. 288) is numpy's number of bins *)
Theorem np_interior_length r k n lo hi K es :
  np_edges r k n lo hi = NpOk K es -> (1 <= K)%N ->
  S (List.length (middle es)) = N.to_nat K.
Proof.
  intros H HK. apply np_edges_ok in H. destruct H as (_ & _ & _ & _ & Hlen & _).
  unfold middle. destruct es as [|x es]; [simpl in Hlen; lia|]. cbn [tl].
  simpl in Hlen. assert (Hes : es <> []) by (destruct es; [simpl in Hlen; lia| discriminate]).
  destruct (exists_last Hes) as (l' & a & ->). rewrite removelast_last.
  rewrite app_length in Hlen. simpl in Hlen. lia.
Qed.

(* C13 for the three rules, with the model's own edges: BinningProps.bin_contains without its
   sortedness hypothesis *)
Theorem bin_contains_rule r dk na lo hi interior kind feature n_bins n edges table rows :
  np_interior r dk na lo hi = Some interior ->
  bin_numeric kind feature n_bins NumpyRule interior = NOk n edges table rows ->
  forall i v, nth_error feature i = Some (Some v) ->
  exists l h,
    nth_error rows i = Some (Some (stored_bin kind (digitize edges v), (l, h))) /\
    nth (digitize edges v) table (l, h) = (l, h) /\
    (if (digitize edges v =? 0)%nat then xleb l v else xltb l v) = true /\ xleb v h = true.
Proof.
  intros Hint Hbin. eapply bin_contains; [exact Hbin|].
  intros _. eapply rule_edges_sorted. exact Hint.
Qed.

(* ------------------------------------------------------------------ *)
(* D. `rnd` is IEEE round-to-nearest-even on the binary64 grid; consequence: at an exact point
      numpy's number of bins is the exact one or one more                                      *)

(* D. `rnd` is round-to-nearest on the binary64 grid *)

Lemma Pos_shiftl_spec n k : Zpos (Pos.shiftl n k) = (Zpos n * 2 ^ Z.of_N k)%Z.
Proof.
  destruct k as [|p]; [simpl; lia|].
  unfold Pos.shiftl.
  rewrite (Pos.iter_swap_gen _ _ Zpos xO (Z.mul 2)) by reflexivity.
  change (Pos.iter (Z.mul 2) (Zpos n) p) with (Z.shiftl (Zpos n) (Zpos p)).
  rewrite Z.shiftl_mul_pow2 by lia. reflexivity.
Qed.

Lemma Pos_shiftr_succ_xO p t : Pos.shiftr p~0 (N.succ t) = Pos.shiftr p t.
Proof.
  destruct t as [|k]; [reflexivity|].
  simpl. rewrite Pos.iter_succ_r. reflexivity.
Qed.

Lemma shiftr_exact p : forall t, (t <= tz p)%N ->
  Zpos p = (Zpos (Pos.shiftr p t) * 2 ^ Z.of_N t)%Z.
Proof.
  induction p as [p IH|p IH|]; intros t Ht; cbn [tz] in Ht.
  - assert (t = 0%N) by lia. subst t. simpl. lia.
  - destruct (N.eq_dec t 0) as [->|Hne]; [simpl; lia|].
    assert (Et : t = N.succ (N.pred t)) by lia. rewrite Et.
    rewrite Pos_shiftr_succ_xO, N2Z.inj_succ, Z.pow_succ_r by lia.
    rewrite (Pos2Z.inj_xO p), (IH (N.pred t)) at 1 by lia. ring.
  - assert (t = 0%N) by lia. subst t. simpl. lia.
Qed.

Lemma is_pow2_spec b : is_pow2 b = true -> Zpos b = (2 ^ Z.of_N (tz b))%Z.
Proof.
  unfold is_pow2. intros H. apply Pos.eqb_eq in H.
  rewrite (shiftr_exact b (tz b)) at 1 by lia. rewrite H. lia.
Qed.

Lemma div_eucl_fast_spec a b : (0 <= a)%Z ->
  let '(f, r) := div_eucl_fast a b in (a = f * Zpos b + r /\ 0 <= r < Zpos b)%Z.
Proof.
  intros Ha. unfold div_eucl_fast. destruct (is_pow2 b) eqn:E.
  - apply is_pow2_spec in E. set (k := Z.of_N (tz b)) in *.
    assert (Hk : (0 <= k)%Z) by (unfold k; lia).
    rewrite Z.shiftl_mul_pow2, Z.shiftr_div_pow2 by exact Hk. rewrite E.
    assert (Hp : (0 < 2 ^ k)%Z) by (apply Z.pow_pos_nonneg; lia).
    pose proof (Z.div_mod a (2 ^ k) ltac:(lia)) as D.
    pose proof (Z.mod_pos_bound a (2 ^ k) Hp) as M. split; lia.
  - pose proof (Z_div_mod a (Zpos b) ltac:(lia)) as D.
    destruct (Z.div_eucl a (Zpos b)) as [q r]. destruct D as [D1 D2]. split; lia.
Qed.

(* nearest, ties to even *)
Lemma rne_div_spec a b : (0 <= a)%Z ->
  let f := rne_div a b in
  (0 <= f /\ 2 * Z.abs (f * Zpos b - a) <= Zpos b /\
   (2 * Z.abs (f * Zpos b - a) = Zpos b -> Z.even f = true))%Z.
Proof.
  intros Ha. unfold rne_div. pose proof (div_eucl_fast_spec a b Ha) as S.
  destruct (div_eucl_fast a b) as [f r]. destruct S as [S1 S2].
  assert (Hf : (0 <= f)%Z) by nia.
  destruct (2 * r ?= Zpos b)%Z eqn:C.
  - apply Z.compare_eq in C. destruct (Z.even f) eqn:Ev.
    + repeat split; [lia| lia| auto].
    + repeat split; [lia| lia|]. intros _.
      rewrite Z.even_add, Ev. reflexivity.
  - rewrite Z.compare_lt_iff in C. repeat split; [lia| lia| lia].
  - rewrite Z.compare_gt_iff in C. repeat split; [lia| lia| lia].
Qed.

Lemma pow2Q_Qpower e : pow2Q e == (2 # 1) ^ e.
Proof.
  destruct e as [|p|p].
  - reflexivity.
  - unfold pow2Q. change (Z.pow_pos 2 p) with (2 ^ Zpos p)%Z.
    rewrite Zpower_Qpower by lia. reflexivity.
  - unfold pow2Q. change ((2 # 1) ^ Zneg p) with (/ ((2 # 1) ^ Zpos p)).
    assert (H : inject_Z (2 ^ Zpos p) == (2 # 1) ^ Zpos p) by (rewrite Zpower_Qpower by lia; reflexivity).
    rewrite <- H. rewrite <- Pos2Z.inj_pow. reflexivity.
Qed.

Lemma pow2Q_pos e : 0 < pow2Q e.
Proof.
  destruct e as [|p|p]; unfold pow2Q; try reflexivity.
  change (Z.pow_pos 2 p) with (2 ^ Zpos p)%Z. rewrite <- Pos2Z.inj_pow. reflexivity.
Qed.

Lemma pow2Q_add a b : pow2Q (a + b) == pow2Q a * pow2Q b.
Proof. rewrite !pow2Q_Qpower. apply Qpower_plus. discriminate. Qed.

Lemma pow2Q_succ e : pow2Q (e + 1) == 2 * pow2Q e.
Proof. rewrite pow2Q_add. change (pow2Q 1) with 2. ring. Qed.

Lemma pow2Q_opp e : pow2Q (- e) == / pow2Q e.
Proof. rewrite !pow2Q_Qpower. apply Qpower_opp. Qed.

Lemma pow2Q_ge1 e : (0 <= e)%Z -> 1 <= pow2Q e.
Proof.
  intros H. destruct e as [|p|p]; [apply Qle_refl| |lia].
  unfold pow2Q. change (Z.pow_pos 2 p) with (2 ^ Zpos p)%Z.
  change 1 with (inject_Z 1). rewrite <- Zle_Qle.
  pose proof (Z.pow_pos_nonneg 2 (Zpos p) ltac:(lia) ltac:(lia)). lia.
Qed.

Lemma pow2Q_le_mono a b : (a <= b)%Z -> pow2Q a <= pow2Q b.
Proof.
  intros H. replace b with (a + (b - a))%Z by lia. rewrite pow2Q_add.
  pose proof (pow2Q_pos a). pose proof (pow2Q_ge1 (b - a) ltac:(lia)). nra.
Qed.

Lemma pow2Q_of_Z e : (0 <= e)%Z -> pow2Q e == inject_Z (2 ^ e).
Proof. intros H. rewrite pow2Q_Qpower. rewrite Zpower_Qpower by exact H. reflexivity. Qed.

Lemma Pos_le_Z a b : (a <= b)%positive <-> (Zpos a <= Zpos b)%Z.
Proof. lia. Qed.

(* 2^e <= n / d, decided with shifts *)
Lemma ilog2_ge_spec e n d :
  (match e with
   | Zneg p => (d <=? Pos.shiftl n (Npos p))%positive
   | Z0 => (d <=? n)%positive
   | Zpos p => (Pos.shiftl d (Npos p) <=? n)%positive
   end) = true <-> pow2Q e <= Zpos n # d.
Proof.
  destruct e as [|p|p]; rewrite Pos.leb_le, Pos_le_Z; unfold pow2Q, Qle; cbn [Qnum Qden inject_Z].
  - lia.
  - rewrite Pos_shiftl_spec. change (Z.pow_pos 2 p) with (2 ^ Zpos p)%Z.
    change (Z.of_N (Npos p)) with (Zpos p). lia.
  - rewrite Pos_shiftl_spec, Pos2Z.inj_pow. change (Z.of_N (Npos p)) with (Zpos p). lia.
Qed.

Theorem ilog2_frac_spec n d :
  pow2Q (ilog2_frac n d) <= Zpos n # d /\ Zpos n # d < 2 * pow2Q (ilog2_frac n d).
Proof.
  unfold ilog2_frac.
  set (ln := Z.log2 (Zpos n)). set (ld := Z.log2 (Zpos d)). set (e0 := (ln - ld)%Z).
  pose proof (Z.log2_spec (Zpos n) ltac:(lia)) as [N1 N2]. fold ln in N1, N2.
  pose proof (Z.log2_spec (Zpos d) ltac:(lia)) as [D1 D2]. fold ld in D1, D2.
  pose proof (Z.log2_nonneg (Zpos n)) as Ln. fold ln in Ln.
  pose proof (Z.log2_nonneg (Zpos d)) as Ld. fold ld in Ld.
  (* in Q *)
  set (A := pow2Q ln). set (B := pow2Q ld).
  assert (HA : 0 < A) by apply pow2Q_pos. assert (HB : 0 < B) by apply pow2Q_pos.
  assert (QN1 : A <= inject_Z (Zpos n)) by (unfold A; rewrite pow2Q_of_Z by lia; rewrite <- Zle_Qle; lia).
  assert (QN2 : inject_Z (Zpos n) < 2 * A).
  { unfold A. rewrite <- pow2Q_succ, pow2Q_of_Z by lia. rewrite <- Zlt_Qlt. exact N2. }
  assert (QD1 : B <= inject_Z (Zpos d)) by (unfold B; rewrite pow2Q_of_Z by lia; rewrite <- Zle_Qle; lia).
  assert (QD2 : inject_Z (Zpos d) < 2 * B).
  { unfold B. rewrite <- pow2Q_succ, pow2Q_of_Z by lia. rewrite <- Zlt_Qlt. exact D2. }
  assert (E0 : pow2Q e0 == A / B).
  { unfold e0, A, B. replace (ln - ld)%Z with (ln + - ld)%Z by lia.
    rewrite pow2Q_add, pow2Q_opp. reflexivity. }
  set (x := Zpos n # d). assert (Hx : x == inject_Z (Zpos n) / inject_Z (Zpos d)) by apply Qmake_Qdiv.
  set (N := inject_Z (Zpos n)) in *. set (D := inject_Z (Zpos d)) in *.
  assert (HD : 0 < D) by lra.
  assert (U : x < 2 * pow2Q e0).
  { rewrite Hx, E0. apply Qlt_shift_div_r; [exact HD|].
    assert (T : 2 * (A / B) * D == 2 * A * (D / B)) by (field; lra). rewrite T.
    assert (1 <= D / B) by (apply Qle_shift_div_l; lra). nra. }
  assert (L : pow2Q e0 < 2 * x).
  { rewrite Hx, E0. apply Qlt_shift_div_r; [exact HB|].
    assert (T : 2 * (N / D) * B == 2 * N * (B / D)) by (field; lra). rewrite T.
    assert (1 < 2 * (B / D)).
    { assert (T2 : 2 * (B / D) == (2 * B) / D) by (field; lra). rewrite T2.
      apply Qlt_shift_div_l; lra. }
    nra. }
  match goal with |- context [if ?c then _ else _] => destruct c eqn:G end.
  - apply ilog2_ge_spec in G. fold x in G. split; [exact G| exact U].
  - assert (G' : ~ pow2Q e0 <= x) by (intros H; apply ilog2_ge_spec in H; congruence).
    assert (E1 : pow2Q e0 == 2 * pow2Q (e0 - 1)).
    { rewrite <- pow2Q_succ. replace (e0 - 1 + 1)%Z with e0 by lia. reflexivity. }
    split; [lra| lra].
Qed.

Lemma dyadic_spec f qe : (0 <= f)%Z -> dyadic f qe == inject_Z f * pow2Q qe.
Proof.
  intros Hf. unfold dyadic. destruct f as [|p|p]; [ring| |lia].
  destruct qe as [|k|k].
  - simpl. unfold pow2Q. ring.
  - rewrite Z.shiftl_mul_pow2 by lia. rewrite inject_Z_mult, pow2Q_of_Z by lia. reflexivity.
  - set (t := N.min (tz p) (Npos k)).
    pose proof (shiftr_exact p t ltac:(lia)) as Hp.
    unfold pow2Q, Qeq, Qmult, inject_Z. cbn [Qnum Qden].
    rewrite Pos_shiftl_spec, Pos.mul_1_l, Pos2Z.inj_pow.
    assert (Hk : (2 ^ Zpos k = 2 ^ Z.of_N t * 2 ^ Z.of_N (Npos k - t))%Z).
    { rewrite <- Z.pow_add_r by lia. f_equal. lia. }
    rewrite Hk. rewrite Hp at 1. ring.
Qed.

Lemma inject_Z_eq u v : inject_Z u == inject_Z v -> u = v.
Proof. unfold Qeq, inject_Z. simpl. lia. Qed.

(* the nearest integer to a / b, scaled by q *)
Lemma rne_scale a b q x : (0 <= a)%Z -> 0 < q ->
  inject_Z a / inject_Z (Zpos b) * q == x ->
  let F := inject_Z (rne_div a b) * q in
  (0 <= rne_div a b)%Z /\ - q <= 2 * (F - x) /\ 2 * (F - x) <= q /\
  ((2 * (F - x) == q \/ 2 * (F - x) == - q) -> Z.even (rne_div a b) = true).
Proof.
  intros Ha Hq Hx. cbv zeta.
  pose proof (rne_div_spec a b Ha) as S. cbv zeta in S. destruct S as (S0 & S1 & S2).
  set (f := rne_div a b) in *.
  set (A := inject_Z a). set (B := inject_Z (Zpos b)). set (Fq := inject_Z f).
  assert (HB : 0 < B) by (unfold B; change 0 with (inject_Z 0); rewrite <- Zlt_Qlt; lia).
  assert (E : inject_Z (2 * (f * Zpos b - a)) == 2 * (Fq * B - A)).
  { unfold Fq, B, A. rewrite inject_Z_mult. unfold Zminus. rewrite inject_Z_plus, inject_Z_mult, inject_Z_opp.
    change (inject_Z 2) with 2. ring. }
  assert (U : 2 * (Fq * B - A) <= B).
  { rewrite <- E. unfold B. rewrite <- Zle_Qle. lia. }
  assert (L : - B <= 2 * (Fq * B - A)).
  { rewrite <- E. unfold B. rewrite <- inject_Z_opp, <- Zle_Qle. lia. }
  set (y := A / B) in *.
  assert (Hy : y * B == A) by (unfold y; field; lra).
  assert (Hd : Fq * q - x == q * (Fq - y)).
  { assert (Hx2 : x == y * q) by (symmetry; exact Hx). rewrite Hx2. ring. }
  assert (U' : 2 * (Fq - y) <= 1) by nra.
  assert (L' : -1 <= 2 * (Fq - y)) by nra.
  split; [exact S0|]. split; [rewrite Hd; nra|]. split; [rewrite Hd; nra|].
  intros T. apply S2.
  assert (T' : 2 * (Fq * B - A) == B \/ 2 * (Fq * B - A) == - B).
  { destruct T as [T|T]; rewrite Hd in T.
    - left. assert (2 * (Fq - y) == 1) by nra. nra.
    - right. assert (2 * (Fq - y) == -1) by nra. nra. }
  destruct T' as [T'|T']; rewrite <- E in T'.
  - apply inject_Z_eq in T'. lia.
  - unfold B in T'. rewrite <- inject_Z_opp in T'. apply inject_Z_eq in T'. lia.
Qed.

(* `rnd_pos n d` is a nearest point to x = n / d of the grid of spacing 2^qe, qe = max(e - 52, -1074)
   for 2^e <= x < 2^(e+1): the binary64 grid (53 digits, subnormals from 2^-1074); a tie goes to
   the even multiple *)
Theorem rnd_pos_spec n d :
  exists f e,
    let x := Zpos n # d in
    let qe := Z.max (e - 52) (-1074) in
    pow2Q e <= x /\ x < 2 * pow2Q e /\ (0 <= f)%Z /\
    rnd_pos n d == inject_Z f * pow2Q qe /\
    - pow2Q qe <= 2 * (rnd_pos n d - x) /\ 2 * (rnd_pos n d - x) <= pow2Q qe /\
    ((2 * (rnd_pos n d - x) == pow2Q qe \/ 2 * (rnd_pos n d - x) == - pow2Q qe) -> Z.even f = true).
Proof.
  unfold rnd_pos.
  set (t := N.min (tz n) (tz d)). set (n' := Pos.shiftr n t). set (d' := Pos.shiftr d t).
  pose proof (shiftr_exact n t ltac:(lia)) as Hn. fold n' in Hn.
  pose proof (shiftr_exact d t ltac:(lia)) as Hd. fold d' in Hd.
  assert (Hx : Zpos n # d == Zpos n' # d').
  { unfold Qeq. cbn [Qnum Qden]. rewrite Hn, Hd. ring. }
  pose proof (ilog2_frac_spec n' d') as [E1 E2].
  unfold ulp_exp. set (e := ilog2_frac n' d') in *.
  set (qe := Z.max (e - 52) (-1074)).
  set (x' := Zpos n' # d') in *.
  assert (Hx' : x' == inject_Z (Zpos n') / inject_Z (Zpos d')) by apply Qmake_Qdiv.
  pose proof (pow2Q_pos qe) as Hq.
  assert (HD : 0 < inject_Z (Zpos d')) by reflexivity.
  set (f := match qe with
            | Zneg k => rne_div (Zpos (Pos.shiftl n' (Npos k))) d'
            | Z0 => rne_div (Zpos n') d'
            | Zpos k => rne_div (Zpos n') (Pos.shiftl d' (Npos k))
            end).
  assert (S : (0 <= f)%Z /\ - pow2Q qe <= 2 * (inject_Z f * pow2Q qe - x') /\
              2 * (inject_Z f * pow2Q qe - x') <= pow2Q qe /\
              ((2 * (inject_Z f * pow2Q qe - x') == pow2Q qe \/
                2 * (inject_Z f * pow2Q qe - x') == - pow2Q qe) -> Z.even f = true)).
  { unfold f. destruct qe as [|k|k] eqn:Eq.
    - apply rne_scale; [lia| exact Hq|]. rewrite Hx'. change (pow2Q 0) with 1. ring.
    - apply rne_scale; [lia| exact Hq|]. rewrite Hx'.
      rewrite Pos_shiftl_spec. change (Z.of_N (Npos k)) with (Zpos k).
      rewrite inject_Z_mult, pow2Q_of_Z by lia.
      assert (0 < inject_Z (2 ^ Zpos k)).
      { change 0 with (inject_Z 0). rewrite <- Zlt_Qlt. apply Z.pow_pos_nonneg; lia. }
      field. split; lra.
    - apply rne_scale; [lia| exact Hq|]. rewrite Hx'.
      rewrite Pos_shiftl_spec. change (Z.of_N (Npos k)) with (Zpos k).
      rewrite inject_Z_mult. change (Zneg k) with (- Zpos k)%Z. rewrite pow2Q_opp, pow2Q_of_Z by lia.
      assert (0 < inject_Z (2 ^ Zpos k)).
      { change 0 with (inject_Z 0). rewrite <- Zlt_Qlt. apply Z.pow_pos_nonneg; lia. }
      field. split; lra. }
  destruct S as (S0 & S1 & S2 & S3).
  exists f, e. cbv zeta. fold qe.
  rewrite (dyadic_spec f qe S0). rewrite Hx.
  repeat split; auto.
Qed.

(* signed *)
Theorem rnd_spec x : ~ x == 0 ->
  exists f e,
    let qe := Z.max (e - 52) (-1074) in
    pow2Q e <= Qabs x /\ Qabs x < 2 * pow2Q e /\
    Qabs (rnd x) == inject_Z f * pow2Q qe /\ (0 <= f)%Z /\
    - pow2Q qe <= 2 * (rnd x - x) /\ 2 * (rnd x - x) <= pow2Q qe /\
    ((2 * (rnd x - x) == pow2Q qe \/ 2 * (rnd x - x) == - pow2Q qe) -> Z.even f = true).
Proof.
  intros Hx. destruct x as [[|n|n] d].
  - exfalso. apply Hx. reflexivity.
  - unfold rnd. cbn [Qnum Qden].
    destruct (rnd_pos_spec n d) as (f & e & P). cbv zeta in P.
    destruct P as (P1 & P2 & P3 & P4 & P5 & P6 & P7).
    exists f, e. cbv zeta.
    assert (Ha : Qabs (Zpos n # d) = Zpos n # d) by reflexivity. rewrite Ha.
    assert (Hr : Qabs (rnd_pos n d) == rnd_pos n d).
    { apply Qabs_pos. rewrite P4. pose proof (pow2Q_pos (Z.max (e - 52) (-1074))).
      assert (0 <= inject_Z f) by (change 0 with (inject_Z 0); rewrite <- Zle_Qle; exact P3). nra. }
    rewrite Hr. repeat split; auto.
  - unfold rnd. cbn [Qnum Qden].
    destruct (rnd_pos_spec n d) as (f & e & P). cbv zeta in P.
    destruct P as (P1 & P2 & P3 & P4 & P5 & P6 & P7).
    exists f, e. cbv zeta.
    assert (Ha : Qabs (Zneg n # d) = Zpos n # d) by reflexivity. rewrite Ha.
    assert (Hm : Zneg n # d == - (Zpos n # d)) by reflexivity.
    assert (Hp : 0 <= rnd_pos n d).
    { rewrite P4. pose proof (pow2Q_pos (Z.max (e - 52) (-1074))).
      assert (0 <= inject_Z f) by (change 0 with (inject_Z 0); rewrite <- Zle_Qle; exact P3). nra. }
    assert (Hr : Qabs (- rnd_pos n d) == rnd_pos n d).
    { rewrite Qabs_opp. apply Qabs_pos. exact Hp. }
    rewrite Hr, Hm. repeat split; auto; try lra.
    intros [T|T]; apply P7; [right|left]; lra.
Qed.

(* relative error 2^-53 in the normal range *)
Corollary rnd_rel_error x : pow2Q (-1022) <= Qabs x ->
  Qabs (rnd x - x) <= Qabs x * pow2Q (-53).
Proof.
  intros Hn.
  assert (Hx : ~ x == 0).
  { intros H. rewrite H in Hn. change (Qabs 0) with 0 in Hn. pose proof (pow2Q_pos (-1022)). lra. }
  destruct (rnd_spec x Hx) as (f & e & P). cbv zeta in P.
  destruct P as (P1 & P2 & _ & _ & P5 & P6 & _).
  assert (He : (-1022 <= e)%Z).
  { destruct (Z_le_gt_dec (-1022) e) as [L|G]; [exact L|].
    pose proof (pow2Q_le_mono (e + 1) (-1022) ltac:(lia)) as M. rewrite pow2Q_succ in M. lra. }
  replace (Z.max (e - 52) (-1074)) with (e - 52)%Z in * by lia.
  assert (Eq : pow2Q (e - 52) == 2 * (pow2Q e * pow2Q (-53))).
  { replace (e - 52)%Z with (e + -53 + 1)%Z by lia. rewrite pow2Q_succ, pow2Q_add. reflexivity. }
  pose proof (pow2Q_pos (-53)). pose proof (pow2Q_pos e).
  apply Qabs_Qle_condition. split; nra.
Qed.



Definition u53 : Q := pow2Q (-53).

Lemma rnd_rel_bounds x : pow2Q (-1022) <= x ->
  x * (1 - u53) <= rnd x /\ rnd x <= x * (1 + u53).
Proof.
  intros H. pose proof (pow2Q_pos (-1022)) as Hp.
  assert (Ha : Qabs x == x) by (apply Qabs_pos; lra).
  pose proof (rnd_rel_error x ltac:(rewrite Ha; exact H)) as E. rewrite Ha in E.
  apply Qabs_Qle_condition in E. fold u53 in E. destruct E as [E1 E2]. split; lra.
Qed.

Lemma ceilQ_le x z : x <= inject_Z z -> (ceilQ x <= z)%Z.
Proof.
  destruct x as [a b]. unfold ceilQ, Qle, inject_Z. cbn [Qnum Qden]. intros H.
  assert ((- z) <= (- a) / Zpos b)%Z by (apply Z.div_le_lower_bound; lia). lia.
Qed.

Lemma ceilQ_gt x z : inject_Z z < x -> (z < ceilQ x)%Z.
Proof.
  destruct x as [a b]. unfold ceilQ, Qlt, inject_Z. cbn [Qnum Qden]. intros H.
  assert ((- a) / Zpos b < - z)%Z by (apply Z.div_lt_upper_bound; lia). lia.
Qed.

(* int(ceil(d / (d / K))) in binary64 is K or K + 1 *)
Theorem bins_at_exact_point_range d K :
  tiny_range <= d -> (1 <= K <= 2 ^ 21)%N ->
  (K <= bins_at_exact_point d K <= K + 1)%N.
Proof.
  intros Hd HK. unfold bins_at_exact_point.
  set (k := NQ K).
  assert (Hk1 : 1 <= k) by (unfold k, NQ; change 1 with (inject_Z 1); rewrite <- Zle_Qle; lia).
  assert (Hk2 : k <= inject_Z (2 ^ 21)) by (unfold k, NQ; rewrite <- Zle_Qle; lia).
  pose proof rnd_rel_bounds as R.
  set (m := pow2Q (-1022)) in *. set (u := u53) in *.
  assert (Hm : 0 < m) by apply pow2Q_pos.
  assert (Ht : tiny_range == m * (4194304 # 1)) by (vm_compute; reflexivity).
  assert (Ht2 : m * (4194304 # 1) <= 1) by (vm_compute; discriminate).
  assert (Hu : 0 < u) by apply pow2Q_pos.
  assert (Hu2 : u * (4194305 # 1) <= 1) by (vm_compute; discriminate).
  change (inject_Z (2 ^ 21)) with (2097152 # 1) in Hk2.
  rewrite Ht in Hd. clear Ht. clearbody m u.
  (* w = rnd (d / k) *)
  set (x1 := d / k).
  assert (Hx1 : x1 * k == d) by (unfold x1; field; lra).
  assert (Hx1m : m <= x1) by nra.
  pose proof (R x1 Hx1m) as [W1 W2]. set (w := rnd x1) in *.
  assert (Hw : 0 < w) by nra.
  set (x2 := d / w).
  assert (Hx2 : x2 * w == d) by (unfold x2; field; lra).
  assert (Hx2pos : 0 < x2).
  { unfold x2. apply Qlt_shift_div_l; [exact Hw| nra]. }
  (* k / (1 + u) <= x2 <= k / (1 - u) *)
  assert (B1 : k <= x2 * (1 + u)) by nra.
  assert (B2 : x2 * (1 - u) <= k) by nra.
  assert (Hx2m : m <= x2).
  { nra. }
  pose proof (R x2 Hx2m) as [Q1 Q2]. set (q := rnd x2) in *.
  assert (Up : q <= k + 1) by nra.
  assert (Lo : k - 1 < q) by nra.
  assert (Hkz : k = inject_Z (Z.of_N K)) by reflexivity.
  assert (C1 : (ceilQ q <= Z.of_N K + 1)%Z).
  { apply ceilQ_le. rewrite inject_Z_plus, <- Hkz. exact Up. }
  assert (C2 : (Z.of_N K - 1 < ceilQ q)%Z).
  { apply ceilQ_gt. unfold Z.sub. rewrite inject_Z_plus, <- Hkz. exact Lo. }
  lia.
Qed.

Lemma bins_exact_le r n : (0 < n)%N -> (n < n_limit)%N -> (bins_exact r n <= 2 ^ 21)%N.
Proof.
  intros Hn Hlim. unfold n_limit in Hlim. destruct r; cbn [bins_exact].
  - pose proof (clog2_spec n Hn) as [_ H]. specialize (H 40%N ltac:(lia)).
    change (2 ^ 21)%N with 2097152%N. lia.
  - pose proof (csqrt_spec n) as [_ H]. specialize (H (2 ^ 20)%N).
    change (2 ^ 20 * 2 ^ 20)%N with (2 ^ 40)%N in H. specialize (H ltac:(lia)).
    change (2 ^ 21)%N with 2097152%N. change (2 ^ 20)%N with 1048576%N in H. lia.
  - pose proof (ccbrt_spec (8 * n)) as [_ H]. specialize (H (2 ^ 15)%N).
    change (cube (2 ^ 15))%N with (2 ^ 45)%N in H.
    change (2 ^ 45)%N with (32 * 2 ^ 40)%N in H. specialize (H ltac:(lia)).
    change (2 ^ 21)%N with 2097152%N. change (2 ^ 15)%N with 32768%N in H. lia.
Qed.

(* numpy's number of bins of a non-constant sample (n < 2^40) is that of the exact rule, except
   that at an exact point (n = 2^k for 'sturges', k^2 for 'sqrt', 8 or 27 for 'rice') it may be
   one more *)
Theorem np_nbins_bound r k n lo hi K es :
  np_edges r k n lo hi = NpOk K es -> (0 < n)%N -> lo < hi ->
  K = nbins_exact r k n lo hi \/
  (exact_point r n = true /\ K = (nbins_exact r k n lo hi + 1)%N).
Proof.
  intros H Hn Hlt. destruct (exact_point r n) eqn:Hx.
  2:{ left. eapply np_nbins_exact; eauto. }
  apply np_edges_ok in H. destruct H as (fe & le & Ho & _).
  unfold outer_np in Ho.
  destruct (n =? 0)%N eqn:En; [apply N.eqb_eq in En; lia|].
  destruct (n_limit <=? n)%N eqn:El; [discriminate|]. apply N.leb_gt in El.
  destruct (Qeq_bool lo hi) eqn:Eq; [apply Qeq_bool_iff in Eq; lra|].
  destruct (is_inf _); [discriminate|].
  destruct (nbins_np r k n lo hi (rnd (hi - lo))) as [K0|] eqn:EK; [|discriminate].
  injection Ho as _ _ HK. subst K0. unfold nbins_np in EK. rewrite Hx in EK.
  pose proof (bins_exact_pos r n Hn) as K1. pose proof (bins_exact_le r n Hn El) as K2.
  assert (G : forall d, tiny_range <= d -> K = bins_at_exact_point d (bins_exact r n) ->
              K = bins_exact r n \/ K = (bins_exact r n + 1)%N).
  { intros d Hd ->. pose proof (bins_at_exact_point_range d (bins_exact r n) Hd ltac:(lia)). lia. }
  unfold nbins_exact. destruct k.
  - destruct (Qle_bool tiny_range (rnd (hi - lo))) eqn:Et; [|discriminate].
    apply Qle_bool_iff in Et. injection EK as EK.
    destruct (G _ Et (eq_sym EK)) as [->| ->]; [left; reflexivity| right; split; reflexivity].
  - destruct (Qle_bool (NQ (bins_exact r n)) (hi - lo)) eqn:Ew.
    + apply Qle_bool_iff in Ew. injection EK as EK.
      assert (Hone : 1 <= hi - lo).
      { eapply Qle_trans; [|exact Ew]. unfold NQ. change 1 with (inject_Z 1). rewrite <- Zle_Qle. lia. }
      assert (Et : tiny_range <= rnd (hi - lo)).
      { assert (Hm : pow2Q (-1022) <= hi - lo).
        { eapply Qle_trans; [|exact Hone]. vm_compute. discriminate. }
        pose proof (rnd_rel_bounds (hi - lo) Hm) as [B _].
        assert (Hu : u53 <= 1 # 2) by (vm_compute; discriminate).
        assert (Ht : tiny_range <= 1 # 2) by (vm_compute; discriminate).
        nra. }
      destruct (G _ Et (eq_sym EK)) as [->| ->]; [left; reflexivity| right; split; reflexivity].
    + injection EK as EK. left. symmetry. exact EK.
Qed.

(* ------------------------------------------------------------------ *)
(* examples: the hypotheses are satisfiable, the float effect at n = 2^k *)
Example sturges_5 : np_edges Sturges DFloat 5 0 1 = NpOk 4 [0; 1 # 4; 1 # 2; 3 # 4; 1].
Proof. vm_compute. reflexivity. Qed.
Example sturges_int_width : np_edges Sturges DInt 1000 0 3 = NpOk 3 [0; 1; 2; 3].
Proof. vm_compute. reflexivity. Qed.
Example sturges_constant : np_edges Sturges DFloat 3 2 2 = NpOk 1 [3 # 2; 5 # 2].
Proof. vm_compute. reflexivity. Qed.
(* n = 64 = 2^6: log2 n + 1 = 7, numpy returns 8 bins on the range
   [3.6509682605834275, 5.683774335864077] (the two floats written exactly) *)
Example sturges_64_one_more :
  bins_exact Sturges 64 = 7%N /\
  match np_edges Sturges DFloat 64 (2055312412238129 # 562949953421312)
                                   (6399360995263861 # 1125899906842624) with
  | NpOk K _ => K = 8%N
  | _ => False
  end.
Proof. vm_compute. split; reflexivity. Qed.
Example rice_cube : bins_exact Rice 125 = 10%N /\ exact_point Rice 125 = false.
Proof. vm_compute. split; reflexivity. Qed.
Example too_many_bins : np_edges Sqrt DFloat 100 1 (1 + (1 # 4503599627370496)) = NpErr ETooMany.
Proof. vm_compute. reflexivity. Qed.

Print Assumptions clog2_spec.
Print Assumptions csqrt_spec.
Print Assumptions ccbrt_spec.
Print Assumptions rule_edges_exact_props.
Print Assumptions np_nbins_exact.
Print Assumptions rule_edges_sorted.
Print Assumptions bin_contains_rule.
Print Assumptions rnd_spec.
Print Assumptions rnd_rel_error.
Print Assumptions bins_at_exact_point_range.
Print Assumptions np_nbins_bound.
