(* Lemmas about model/NumpyRules.v (numpy's histogram rules 'sturges', 'sqrt', 'rice' as used by
   `bin_feature`, property C13; C09 / C10 through the default bin_method='sturges').
   World Q / N, no axioms. *)
From Coq Require Import ZArith NArith QArith Qabs Qreduction Lqa Lia List Bool.
Import ListNotations.
Open Scope Q_scope.
From MD Require Import lib.QLists model.Functionals model.Binning model.NumpyRules proofs.BinningProps.

(* ------------------------------------------------------------------ *)
(* A. the integer logarithm and roots                                   *)

(* clog2 n is the least k with n <= 2^k *)
Theorem clog2_spec n : (0 < n)%N ->
  (n <= 2 ^ clog2 n)%N /\ forall k, (n <= 2 ^ k)%N -> (clog2 n <= k)%N.
Proof.
  intros Hn. unfold clog2. split.
  - apply N.log2_up_le_pow2; [exact Hn| reflexivity].
  - intros k Hk. apply N.log2_up_le_pow2; assumption.
Qed.

Lemma clog2_lower n : (1 < n)%N -> (2 ^ (clog2 n - 1) < n)%N.
Proof.
  intros Hn. unfold clog2. pose proof (N.log2_up_spec n Hn) as [H _].
  rewrite <- N.sub_1_r in H. exact H.
Qed.

(* csqrt n is the least k with n <= k^2 *)
Theorem csqrt_spec n :
  (n <= csqrt n * csqrt n)%N /\ forall k, (n <= k * k)%N -> (csqrt n <= k)%N.
Proof.
  unfold csqrt. split.
  - apply N.sqrt_up_le_square; [apply N.le_0_l| apply N.le_0_l| reflexivity].
  - intros k Hk. apply N.sqrt_up_le_square; [apply N.le_0_l| apply N.le_0_l| exact Hk].
Qed.

Lemma cube_le_mono a b : (a <= b)%N -> (cube a <= cube b)%N.
Proof. unfold cube. intros H. repeat apply N.mul_le_mono; exact H. Qed.
Lemma cube_lt_mono a b : (a < b)%N -> (cube a < cube b)%N.
Proof.
  unfold cube. intros H.
  assert (H2 : (a * a < b * b)%N) by (apply N.mul_lt_mono; exact H).
  apply N.mul_lt_mono; assumption.
Qed.

Lemma cube_pow2 b : cube (2 ^ b) = (2 ^ (3 * b))%N.
Proof.
  unfold cube. replace (3 * b)%N with (b + b + b)%N by lia.
  rewrite !N.pow_add_r. reflexivity.
Qed.

Lemma icbrt_aux_spec b : forall m r,
  (cube r <= m < cube (r + 2 ^ N.of_nat b))%N ->
  (cube (icbrt_aux b m r) <= m < cube (icbrt_aux b m r + 1))%N.
Proof.
  induction b as [|b IH]; intros m r H.
  - simpl in *. exact H.
  - cbn [icbrt_aux]. cbv zeta.
    assert (E : (r + 2 ^ N.of_nat (S b) = r + 2 ^ N.of_nat b + 2 ^ N.of_nat b)%N).
    { rewrite Nat2N.inj_succ, N.pow_succ_r'. lia. }
    rewrite E in H.
    destruct (cube (r + 2 ^ N.of_nat b) <=? m)%N eqn:C.
    + apply N.leb_le in C. apply IH. split; [exact C| apply H].
    + apply N.leb_gt in C. apply IH. split; [apply H| exact C].
Qed.

Lemma icbrt_bits_bound m : (m < cube (2 ^ N.of_nat (icbrt_bits m)))%N.
Proof.
  rewrite cube_pow2. unfold icbrt_bits.
  destruct (N.eq_dec m 0) as [->|Hm].
  - simpl. lia.
  - assert (Hpos : (0 < m)%N) by lia.
    pose proof (N.log2_spec m Hpos) as [_ Hlt].
    eapply N.lt_le_trans; [exact Hlt|].
    apply N.pow_le_mono_r; [lia|].
    set (L := N.to_nat (N.log2 m)).
    assert (HL : N.log2 m = N.of_nat L) by (unfold L; rewrite N2Nat.id; reflexivity).
    rewrite HL.
    pose proof (Nat.div_mod L 3 ltac:(lia)) as D.
    pose proof (Nat.mod_upper_bound L 3 ltac:(lia)) as U.
    lia.
Qed.

Theorem icbrt_spec m : (cube (icbrt m) <= m < cube (icbrt m + 1))%N.
Proof.
  unfold icbrt. apply icbrt_aux_spec. split.
  - unfold cube. lia.
  - rewrite N.add_0_l. apply icbrt_bits_bound.
Qed.

(* ccbrt m is the least k with m <= k^3 *)
Theorem ccbrt_spec m :
  (m <= cube (ccbrt m))%N /\ forall k, (m <= cube k)%N -> (ccbrt m <= k)%N.
Proof.
  unfold ccbrt. pose proof (icbrt_spec m) as [H1 H2].
  destruct (cube (icbrt m) =? m)%N eqn:E.
  - apply N.eqb_eq in E. split; [lia|].
    intros k Hk. destruct (N.le_gt_cases (icbrt m) k) as [L|G]; [exact L|].
    apply cube_lt_mono in G. lia.
  - apply N.eqb_neq in E. split; [lia|].
    intros k Hk. destruct (N.le_gt_cases (icbrt m + 1) k) as [L|G]; [exact L|].
    assert (L : (k <= icbrt m)%N) by lia. apply cube_le_mono in L. lia.
Qed.

(* the three rules: the least integer k that is at least log2 n + 1 | sqrt n | 2 n^(1/3) *)
Theorem bins_exact_sturges n : (0 < n)%N ->
  (n <= 2 ^ (bins_exact Sturges n - 1))%N /\
  forall k, (1 <= k)%N -> (n <= 2 ^ (k - 1))%N -> (bins_exact Sturges n <= k)%N.
Proof.
  intros Hn. cbn [bins_exact]. pose proof (clog2_spec n Hn) as [H1 H2].
  replace (clog2 n + 1 - 1)%N with (clog2 n) by lia. split; [exact H1|].
  intros k Hk Hle. specialize (H2 _ Hle). lia.
Qed.

Theorem bins_exact_sqrt n :
  (n <= bins_exact Sqrt n * bins_exact Sqrt n)%N /\
  forall k, (n <= k * k)%N -> (bins_exact Sqrt n <= k)%N.
Proof. apply csqrt_spec. Qed.

(* k >= 2 n^(1/3)  <->  k^3 >= 8 n *)
Theorem bins_exact_rice n :
  (8 * n <= cube (bins_exact Rice n))%N /\
  forall k, (8 * n <= cube k)%N -> (bins_exact Rice n <= k)%N.
Proof. apply ccbrt_spec. Qed.

Lemma bins_exact_pos r n : (0 < n)%N -> (1 <= bins_exact r n)%N.
Proof.
  intros Hn. destruct r; cbn [bins_exact].
  - lia.
  - pose proof (csqrt_spec n) as [H _].
    destruct (N.eq_dec (csqrt n) 0) as [E|E]; [rewrite E in H; lia| lia].
  - pose proof (ccbrt_spec (8 * n)) as [H _]. unfold cube in H.
    destruct (N.eq_dec (ccbrt (8 * n)) 0) as [E|E]; [rewrite E in H; lia| lia].
Qed.

(* the exact points: n = 2^k, n = k^2 (and n = 1, 8, 27 for 'rice'), where the real number
   log2 n + 1 | sqrt n | 2 n^(1/3) is the integer bins_exact itself *)
Lemma exact_point_sturges n : exact_point Sturges n = true <-> (2 ^ (bins_exact Sturges n - 1) = n)%N.
Proof.
  cbn [exact_point bins_exact]. replace (clog2 n + 1 - 1)%N with (clog2 n) by lia.
  apply N.eqb_eq.
Qed.
Lemma exact_point_sqrt n : exact_point Sqrt n = true <-> (bins_exact Sqrt n * bins_exact Sqrt n = n)%N.
Proof. cbn [exact_point bins_exact]. apply N.eqb_eq. Qed.
Lemma exact_point_rice n : exact_point Rice n = true -> (cube (bins_exact Rice n) = 8 * n)%N.
Proof.
  cbn [exact_point bins_exact]. intros H.
  apply orb_true_iff in H. destruct H as [H|H]; [apply orb_true_iff in H; destruct H as [H|H]|];
    apply N.eqb_eq in H; subst n; vm_compute; reflexivity.
Qed.

(* ------------------------------------------------------------------ *)
(* B. the exact edges: linspace over Q                                  *)

(* consecutive elements strictly increasing *)
Fixpoint strictQ (l : list Q) : Prop :=
  match l with
  | x :: l' => match l' with y :: _ => x < y /\ strictQ l' | [] => True end
  | [] => True
  end.

Lemma strictQ_sortedQ l : strictQ l -> sortedQ l.
Proof.
  induction l as [|x l IH]; [auto|]. destruct l as [|y l]; [simpl; auto|].
  intros [H1 H2]. split; [apply Qlt_le_weak; exact H1| apply IH; exact H2].
Qed.

Lemma nseq_length len s : List.length (nseq len s) = len.
Proof. revert s. induction len as [|len IH]; intros s; simpl; [reflexivity| rewrite IH; reflexivity]. Qed.

Lemma nseq_snoc len : forall s, nseq (S len) s = nseq len s ++ [(s + N.of_nat len)%N].
Proof.
  induction len as [|len IH]; intros s.
  - simpl. rewrite N.add_0_r. reflexivity.
  - change (nseq (S (S len)) s) with (s :: nseq (S len) (N.succ s)). rewrite IH.
    cbn [nseq app]. do 2 f_equal. rewrite Nat2N.inj_succ. f_equal. lia.
Qed.

Lemma NQ_succ i : NQ (N.succ i) == NQ i + 1.
Proof. unfold NQ. rewrite N2Z.inj_succ. unfold Z.succ. rewrite inject_Z_plus. reflexivity. Qed.

Lemma NQ_pos K : (0 < K)%N -> 0 < NQ K.
Proof. intros H. unfold NQ. change 0 with (inject_Z 0). rewrite <- Zlt_Qlt. lia. Qed.

Lemma map_nseq_strict (g : N -> Q) len : forall s,
  (forall i, g i < g (N.succ i)) -> strictQ (map g (nseq len s)).
Proof.
  induction len as [|len IH]; intros s H; [exact I|].
  destruct len as [|len]; [exact I|].
  change (g s < g (N.succ s) /\ strictQ (map g (nseq (S len) (N.succ s)))).
  split; [apply H| apply IH; exact H].
Qed.

Definition lin_elt (f l : Q) (K i : N) : Q := Qred (f + (l - f) * NQ i / NQ K).

Lemma lin_elt_step f l K i : f < l -> (0 < K)%N -> lin_elt f l K i < lin_elt f l K (N.succ i).
Proof.
  intros Hfl HK. unfold lin_elt. rewrite !Qred_correct, NQ_succ.
  pose proof (NQ_pos K HK) as HQ.
  assert (E : f + (l - f) * (NQ i + 1) / NQ K == f + (l - f) * NQ i / NQ K + (l - f) / NQ K)
    by (field; lra).
  rewrite E.
  assert (0 < (l - f) / NQ K).
  { apply Qlt_shift_div_l; [exact HQ| lra]. }
  lra.
Qed.

Lemma linspaceQ_length f l K : List.length (linspaceQ f l K) = S (N.to_nat K).
Proof. unfold linspaceQ. rewrite map_length, nseq_length. reflexivity. Qed.

Lemma linspaceQ_hd f l K : hd 0 (linspaceQ f l K) == f.
Proof.
  unfold linspaceQ. cbn [nseq map hd]. rewrite Qred_correct.
  unfold NQ at 1. simpl (Z.of_N 0). unfold Qdiv. ring.
Qed.

Lemma linspaceQ_last f l K : (0 < K)%N -> last (linspaceQ f l K) 0 == l.
Proof.
  intros HK. unfold linspaceQ. rewrite nseq_snoc, map_app. cbn [map]. rewrite last_last.
  rewrite Qred_correct, N.add_0_l, N2Nat.id.
  pose proof (NQ_pos K HK). field. lra.
Qed.

Lemma linspaceQ_strict f l K : f < l -> (0 < K)%N -> strictQ (linspaceQ f l K).
Proof.
  intros Hfl HK. unfold linspaceQ.
  apply (map_nseq_strict (lin_elt f l K)). intros i. apply lin_elt_step; assumption.
Qed.

Lemma ceilQ_pos x : 0 < x -> (1 <= ceilQ x)%Z.
Proof.
  intros H. unfold ceilQ. destruct x as [a b]. unfold Qlt in H. simpl in *.
  assert (Ha : (0 < a)%Z) by lia.
  assert ((- a) / Zpos b < 0)%Z by (apply Z.div_lt_upper_bound; lia).
  lia.
Qed.

Lemma nbins_exact_pos r k n lo hi : (0 < n)%N -> lo < hi -> (1 <= nbins_exact r k n lo hi)%N.
Proof.
  intros Hn Hlt. pose proof (bins_exact_pos r n Hn) as HK. unfold nbins_exact.
  destruct k; [exact HK|].
  destruct (Qle_bool (NQ (bins_exact r n)) (hi - lo)); [exact HK|].
  assert (H : (1 <= ceilQ (hi - lo))%Z) by (apply ceilQ_pos; lra). lia.
Qed.

(* the mathematical edges: bins + 1 of them, from the smallest to the largest value (a constant
   sample: value -+ 1/2; an empty one: 0, 1), strictly increasing *)
Theorem rule_edges_exact_props r k n lo hi :
  lo <= hi ->
  let es := rule_edges_exact r k n lo hi in
  let '(f, l, K) := rule_outer_exact r k n lo hi in
  (1 <= K)%N /\ List.length es = S (N.to_nat K) /\ hd 0 es == f /\ last es 0 == l /\
  f < l /\ strictQ es.
Proof.
  intros Hle. unfold rule_edges_exact.
  assert (G : forall f l K, f < l -> (1 <= K)%N ->
            (1 <= K)%N /\ List.length (linspaceQ f l K) = S (N.to_nat K) /\
            hd 0 (linspaceQ f l K) == f /\ last (linspaceQ f l K) 0 == l /\ f < l /\
            strictQ (linspaceQ f l K)).
  { intros f l K Hfl HK. repeat split; auto.
    - apply linspaceQ_length.
    - apply linspaceQ_hd.
    - apply linspaceQ_last. lia.
    - apply linspaceQ_strict; [exact Hfl| lia]. }
  unfold rule_outer_exact.
  destruct (n =? 0)%N eqn:En; [apply G; [reflexivity| lia]|]. apply N.eqb_neq in En.
  destruct (Qeq_bool lo hi) eqn:Eq.
  - apply Qeq_bool_iff in Eq. apply G; [lra| lia].
  - assert (Hlt : lo < hi).
    { destruct (Qlt_le_dec lo hi) as [L|L]; [exact L|].
      assert (Heq : lo == hi) by lra. apply Qeq_bool_iff in Heq. congruence. }
    apply G; [exact Hlt| apply nbins_exact_pos; [lia| exact Hlt]].
Qed.

(* for a non-constant sample the outer edges are its smallest and largest value *)
Lemma rule_outer_exact_nonconst r k n lo hi : (0 < n)%N -> lo < hi ->
  rule_outer_exact r k n lo hi = (lo, hi, nbins_exact r k n lo hi).
Proof.
  intros Hn Hlt. unfold rule_outer_exact.
  destruct (n =? 0)%N eqn:En; [apply N.eqb_eq in En; lia|].
  destruct (Qeq_bool lo hi) eqn:Eq; [apply Qeq_bool_iff in Eq; lra| reflexivity].
Qed.

(* numpy >= 2.1, integer dtype: never more bins than max - min *)
Lemma nbins_exact_int r n lo hi : (0 < n)%N -> lo < hi ->
  NQ (nbins_exact r DInt n lo hi) <= inject_Z (ceilQ (hi - lo)).
Proof.
  intros Hn Hlt. unfold nbins_exact.
  destruct (Qle_bool (NQ (bins_exact r n)) (hi - lo)) eqn:E.
  - apply Qle_bool_iff in E. eapply Qle_trans; [exact E|].
    unfold ceilQ. destruct (hi - lo) as [a b]. unfold Qle, inject_Z. simpl.
    pose proof (Z.div_mod (- a) (Zpos b) ltac:(lia)) as D.
    pose proof (Z.mod_pos_bound (- a) (Zpos b) ltac:(lia)) as M. nia.
  - unfold NQ. rewrite Z2N.id; [apply Qle_refl|].
    pose proof (ceilQ_pos (hi - lo) ltac:(lra)). lia.
Qed.

(* ------------------------------------------------------------------ *)
(* C. numpy's binary64 edges (`np_edges`)                               *)

Lemma strictly_increasing_b_strictQ l : strictly_increasing_b l = true -> strictQ l.
Proof.
  induction l as [|x l IH]; [intros; exact I|]. destruct l as [|y l]; [intros; exact I|].
  intros H. change (negb (Qle_bool y x) && strictly_increasing_b (y :: l) = true) in H.
  apply andb_true_iff in H. destruct H as [H1 H2]. split; [|apply IH; exact H2].
  apply negb_true_iff in H1. destruct (Qlt_le_dec x y) as [L|L]; [exact L|].
  apply Qle_bool_iff in L. congruence.
Qed.

Lemma linspace_fl_length f l K : List.length (linspace_fl f l K) = S (N.to_nat K).
Proof. unfold linspace_fl. rewrite app_length, map_length, nseq_length. simpl. lia. Qed.

Lemma linspace_fl_last f l K : last (linspace_fl f l K) 0 = l.
Proof. unfold linspace_fl. apply last_last. Qed.

(* what an accepted result looks like: K + 1 edges that passed numpy's own monotonicity check
   (l. 448-451), produced by linspace between the (float) outer edges *)
Theorem np_edges_ok r k n lo hi K es :
  np_edges r k n lo hi = NpOk K es ->
  exists fe le,
    outer_np r k n lo hi = Outer fe le K /\
    es = linspace_fl (rnd fe) (rnd le) K /\
    List.length es = S (N.to_nat K) /\ last es 0 = rnd le /\ strictQ es.
Proof.
  unfold np_edges. destruct (outer_np r k n lo hi) as [fe le K0| |] eqn:Eo; try discriminate.
  destruct (is_inf _); [discriminate|].
  destruct (strictly_increasing_b _) eqn:Es; [|discriminate].
  intros H. inversion H; subst. exists fe, le. repeat split.
  - apply linspace_fl_length.
  - apply linspace_fl_last.
  - apply strictly_increasing_b_strictQ. exact Es.
Qed.

(* away from the exact points numpy's number of bins IS the mathematical one (in the model by
   definition: see the header of model/NumpyRules.v for the rounding argument and the harness for
   the exhaustive check); integer dtype with max - min < bins: one bin per integer *)
Theorem np_nbins_exact r k n lo hi K es :
  np_edges r k n lo hi = NpOk K es -> (0 < n)%N -> lo < hi -> exact_point r n = false ->
  K = nbins_exact r k n lo hi.
Proof.
  intros H Hn Hlt Hx. apply np_edges_ok in H. destruct H as (fe & le & Ho & _).
  unfold outer_np in Ho.
  destruct (n =? 0)%N eqn:En; [apply N.eqb_eq in En; lia|].
  destruct (n_limit <=? n)%N; [discriminate|].
  destruct (Qeq_bool lo hi) eqn:Eq; [apply Qeq_bool_iff in Eq; lra|].
  destruct (is_inf _); [discriminate|].
  destruct (nbins_np r k n lo hi (rnd (hi - lo))) as [K0|] eqn:EK; [|discriminate].
  injection Ho as _ _ HK. subst K0. unfold nbins_np in EK. unfold nbins_exact. rewrite Hx in EK.
  destruct k.
  - destruct (Qle_bool tiny_range _); [|discriminate]. inversion EK. reflexivity.
  - destruct (Qle_bool (NQ (bins_exact r n)) (hi - lo)); inversion EK; reflexivity.
Qed.

(* at an exact point the number of bins is the result of the two float divisions *)
Theorem np_nbins_exact_point r n lo hi K es :
  np_edges r DFloat n lo hi = NpOk K es -> (0 < n)%N -> lo < hi -> exact_point r n = true ->
  K = bins_at_exact_point (rnd (hi - lo)) (bins_exact r n).
Proof.
  intros H Hn Hlt Hx. apply np_edges_ok in H. destruct H as (fe & le & Ho & _).
  unfold outer_np in Ho.
  destruct (n =? 0)%N eqn:En; [apply N.eqb_eq in En; lia|].
  destruct (n_limit <=? n)%N; [discriminate|].
  destruct (Qeq_bool lo hi) eqn:Eq; [apply Qeq_bool_iff in Eq; lra|].
  destruct (is_inf _); [discriminate|].
  destruct (nbins_np r DFloat n lo hi (rnd (hi - lo))) as [K0|] eqn:EK; [|discriminate].
  injection Ho as _ _ HK. subst K0. unfold nbins_np in EK. rewrite Hx in EK.
  destruct (Qle_bool tiny_range _); [|discriminate]. inversion EK. reflexivity.
Qed.

(* constant and empty samples: one bin *)
Theorem np_edges_constant r k n lo hi K es :
  np_edges r k n lo hi = NpOk K es -> (n = 0%N \/ lo == hi) -> K = 1%N /\ middle es = [].
Proof.
  intros H Hc. apply np_edges_ok in H. destruct H as (fe & le & Ho & Hes & _).
  assert (HK : K = 1%N).
  { unfold outer_np in Ho. destruct (n =? 0)%N eqn:En; [inversion Ho; reflexivity|].
    apply N.eqb_neq in En. destruct Hc as [Hc|Hc]; [contradiction|].
    destruct (n_limit <=? n)%N; [discriminate|].
    apply Qeq_bool_iff in Hc. rewrite Hc in Ho. inversion Ho. reflexivity. }
  split; [exact HK|]. subst K es. reflexivity.
Qed.

(* ---- sortedness of the interior edges in the sense of proofs/BinningProps.v ---- *)
Lemma xltb_fin x y : xltb (Fin x) (Fin y) = true <-> x < y.
Proof.
  unfold xltb, xleb. rewrite negb_true_iff. split; intros H.
  - destruct (Qlt_le_dec x y) as [L|L]; [exact L|]. apply Qle_bool_iff in L. congruence.
  - destruct (Qle_bool y x) eqn:E; [|reflexivity]. apply Qle_bool_iff in E. lra.
Qed.

Lemma strictQ_xstrict l : strictQ l -> xstrict (map Fin l).
Proof.
  induction l as [|x l IH]; [simpl; auto|]. intros H.
  assert (Hl : strictQ l) by (destruct l as [|y l]; [exact I| apply H]).
  specialize (IH Hl). cbn [map xstrict]. split; [|exact IH].
  intros z Hz. destruct l as [|y l]; [contradiction|].
  destruct H as [Hxy _]. cbn [map] in Hz, IH. destruct Hz as [<-|Hz].
  - apply xltb_fin. exact Hxy.
  - destruct IH as [IH1 _]. apply (xltb_trans_le _ (Fin y)).
    + apply xltb_fin. exact Hxy.
    + apply xltb_xleb. apply IH1. exact Hz.
Qed.

Lemma xstrict_removelast l : xstrict l -> xstrict (removelast l).
Proof.
  induction l as [|x l IH]; [auto|]. intros [H1 H2]. destruct l as [|y l]; [exact I|].
  change (removelast (x :: y :: l)) with (x :: removelast (y :: l)). split.
  - intros z Hz. apply H1.
    clear - Hz. revert Hz. generalize (y :: l). intros l0. induction l0 as [|a l0 IHl]; [auto|].
    destruct l0 as [|b l0]; [simpl; auto|].
    change (removelast (a :: b :: l0)) with (a :: removelast (b :: l0)).
    intros [<-|Hz]; [left; reflexivity| right; apply IHl; exact Hz].
  - apply IH. exact H2.
Qed.

Lemma middle_map {A B} (g : A -> B) (l : list A) : middle (map g l) = map g (middle l).
Proof.
  unfold middle. destruct l as [|x l]; [reflexivity|]. cbn [map tl].
  induction l as [|y l IH]; [reflexivity|]. destruct l as [|z l]; [reflexivity|].
  change (removelast (map g (y :: z :: l))) with (g y :: removelast (map g (z :: l))).
  change (removelast (y :: z :: l)) with (y :: removelast (z :: l)).
  cbn [map]. f_equal. exact IH.
Qed.

Lemma xstrict_middle l : xstrict l -> xstrict (middle l).
Proof.
  intros H. unfold middle. apply xstrict_removelast.
  destruct l as [|x l]; [exact I| apply H].
Qed.

(* THE hypothesis of BinningProps.bin_contains ("interior edges non-decreasing") holds for the
   edges the model computes for 'sturges', 'sqrt', 'rice': they are even strictly increasing *)
Theorem rule_edges_strict r k n lo hi l :
  np_interior r k n lo hi = Some l -> xstrict (map Fin l).
Proof.
  unfold np_interior. destruct (np_edges r k n lo hi) as [K es| |] eqn:E; try discriminate.
  intros H. inversion H; subst l. apply np_edges_ok in E.
  destruct E as (_ & _ & _ & _ & _ & _ & Hs).
  rewrite <- middle_map. apply xstrict_middle. apply strictQ_xstrict. exact Hs.
Qed.

Theorem rule_edges_sorted r k n lo hi l :
  np_interior r k n lo hi = Some l -> xsorted (map Fin l).
Proof. intros H. apply xstrict_sorted. eapply rule_edges_strict. exact H. Qed.

(* the same for the mathematical edges *)
Theorem rule_edges_exact_sorted r k n lo hi :
  lo <= hi -> xstrict (map Fin (middle (rule_edges_exact r k n lo hi))).
Proof.
  intros Hle. pose proof (rule_edges_exact_props r k n lo hi Hle) as P. cbv zeta in P.
  destruct (rule_outer_exact r k n lo hi) as [[f l0] K]. destruct P as (_ & _ & _ & _ & _ & Hs).
  rewrite <- middle_map. apply xstrict_middle. apply strictQ_xstrict. exact Hs.
Qed.

(* number of interior edges = bins - 1, hence `n_bins_ef = bin_edges.shape[0] + 1` (binning.py
   l. 288) is numpy's number of bins *)
Theorem np_interior_length r k n lo hi K es :
  np_edges r k n lo hi = NpOk K es -> (1 <= K)%N ->
  S (List.length (middle es)) = N.to_nat K.
Proof.
  intros H HK. apply np_edges_ok in H. destruct H as (_ & _ & _ & _ & Hlen & _).
  unfold middle. destruct es as [|x es]; [simpl in Hlen; lia|]. cbn [tl].
  simpl in Hlen. assert (Hes : es <> []) by (destruct es; [simpl in Hlen; lia| discriminate]).
  destruct (exists_last Hes) as (l' & a & ->). rewrite removelast_last.
  rewrite app_length in Hlen. simpl in Hlen. lia.
Qed.

(* C13 for the three rules, with the model's own edges: BinningProps.bin_contains without its
   sortedness hypothesis *)
Theorem bin_contains_rule r dk na lo hi interior kind feature n_bins n edges table rows :
  np_interior r dk na lo hi = Some interior ->
  bin_numeric kind feature n_bins NumpyRule interior = NOk n edges table rows ->
  forall i v, nth_error feature i = Some (Some v) ->
  exists l h,
    nth_error rows i = Some (Some (stored_bin kind (digitize edges v), (l, h))) /\
    nth (digitize edges v) table (l, h) = (l, h) /\
    (if (digitize edges v =? 0)%nat then xleb l v else xltb l v) = true /\ xleb v h = true.
Proof.
  intros Hint Hbin. eapply bin_contains; [exact Hbin|].
  intros _. eapply rule_edges_sorted. exact Hint.
Qed.

(* ------------------------------------------------------------------ *)
(* examples: the hypotheses are satisfiable, the float effect at n = 2^k *)
Example sturges_5 : np_edges Sturges DFloat 5 0 1 = NpOk 4 [0; 1 # 4; 1 # 2; 3 # 4; 1].
Proof. vm_compute. reflexivity. Qed.
Example sturges_int_width : np_edges Sturges DInt 1000 0 3 = NpOk 3 [0; 1; 2; 3].
Proof. vm_compute. reflexivity. Qed.
Example sturges_constant : np_edges Sturges DFloat 3 2 2 = NpOk 1 [3 # 2; 5 # 2].
Proof. vm_compute. reflexivity. Qed.
(* n = 64 = 2^6: log2 n + 1 = 7, numpy returns 8 bins on the range
   [3.6509682605834275, 5.683774335864077] (the two floats written exactly) *)
Example sturges_64_one_more :
  bins_exact Sturges 64 = 7%N /\
  match np_edges Sturges DFloat 64 (2055312412238129 # 562949953421312)
                                   (6399360995263861 # 1125899906842624) with
  | NpOk K _ => K = 8%N
  | _ => False
  end.
Proof. vm_compute. split; reflexivity. Qed.
Example rice_cube : bins_exact Rice 125 = 10%N /\ exact_point Rice 125 = false.
Proof. vm_compute. split; reflexivity. Qed.
Example too_many_bins : np_edges Sqrt DFloat 100 1 (1 + (1 # 4503599627370496)) = NpErr ETooMany.
Proof. vm_compute. reflexivity. Qed.

Print Assumptions clog2_spec.
Print Assumptions csqrt_spec.
Print Assumptions ccbrt_spec.
Print Assumptions rule_edges_exact_props.
Print Assumptions np_nbins_exact.
Print Assumptions rule_edges_sorted.
Print Assumptions bin_contains_rule.
