(* compute_bias, from the raw columns through bin_feature to the table, does not depend on the row order
   (property C09, "the result is independent of row order"; C10 uses the same key lemmas).
   World Q, no axioms.

   A permutation of the rows is an index list p with `Permutation p (seq 0 N)` applied to EVERY column
   (y_obs, each column of y_pred, the feature, the weights): `permute d p col = [col[i] for i in p]`.
   The whole model is corr/CmpBias.run : bias_case -> bres + grouping_res (bin_numeric / bin_string,
   numeric_keys / string_keys, compute_bias) - the function the correspondence run compares with the
   implementation.  Result: `run (permute_case p c) = run c`, Leibniz equality of the whole table
   (same rows in the same order, same error class otherwise), for ALL inputs with columns of equal
   length - no canonicity assumption on the rationals: the table only sees the bin NUMBERS. *)
From Coq Require Import QArith Qabs Qreduction Lqa Lia List Bool Arith String Ascii NArith Permutation.
Import ListNotations.
Open Scope Q_scope.
From MD Require Import lib.QLists model.Functionals model.Binning model.Bias
  proofs.BinningProps proofs.BiasProps proofs.BinningPerm corr.CmpBias.

(* ------------------------------------------------------------------ *)
(* applying an index permutation to a column *)
Definition permute {A} (d : A) (p : list nat) (l : list A) : list A := map (fun i => nth i l d) p.

Lemma map_nth_seq {A} (d : A) l : map (fun i => nth i l d) (seq 0 (List.length l)) = l.
Proof.
  induction l as [|x l IH]; [reflexivity|]. cbn [List.length seq map nth]. f_equal.
  rewrite <- seq_shift, map_map. exact IH.
Qed.

Lemma permute_Permutation {A} (d : A) p l :
  Permutation p (seq 0 (List.length l)) -> Permutation (permute d p l) l.
Proof.
  intros H. unfold permute.
  eapply perm_trans; [apply Permutation_map; exact H|]. rewrite map_nth_seq. apply Permutation_refl.
Qed.

Lemma permute_map {A B} (f : A -> B) d p l : map f (permute d p l) = permute (f d) p (map f l).
Proof. unfold permute. rewrite map_map. apply map_ext. intros i. symmetry. apply map_nth. Qed.

Lemma permute_length {A} (d : A) p l : List.length (permute d p l) = List.length p.
Proof. apply map_length. Qed.

Lemma perm_seq_bound p n : Permutation p (seq 0 n) -> forall i, In i p -> (i < n)%nat.
Proof. intros H i Hi. apply (Permutation_in _ H) in Hi. apply in_seq in Hi. lia. Qed.

Lemma permute_default {A} (d d' : A) p l :
  (forall i, In i p -> (i < List.length l)%nat) -> permute d p l = permute d' p l.
Proof. intros H. unfold permute. apply map_ext_in. intros i Hi. apply nth_indep. auto. Qed.

Lemma zip4_map {I} (fy fz : I -> Q) (fk : I -> option nat) (fw : I -> Q) p :
  zip4 (map fy p) (map fz p) (map fk p) (map fw p) = map (fun i => (fy i, fz i, fk i, fw i)) p.
Proof. induction p as [|i p IH]; simpl; [reflexivity| rewrite IH; reflexivity]. Qed.

Lemma zip4_permute dy dz dk dw p ys zs ks ws n :
  List.length ys = n -> List.length zs = n -> List.length ks = n -> List.length ws = n ->
  Permutation p (seq 0 n) ->
  Permutation (zip4 (permute dy p ys) (permute dz p zs) (permute dk p ks) (permute dw p ws))
              (zip4 ys zs ks ws).
Proof.
  intros Hy Hz Hk Hw Hp. unfold permute. rewrite zip4_map.
  assert (E : zip4 ys zs ks ws
              = map (fun i => (nth i ys dy, nth i zs dz, nth i ks dk, nth i ws dw)) (seq 0 n)).
  { rewrite <- zip4_map. f_equal.
    - rewrite <- Hy. symmetry. apply map_nth_seq.
    - rewrite <- Hz. symmetry. apply map_nth_seq.
    - rewrite <- Hk. symmetry. apply map_nth_seq.
    - rewrite <- Hw. symmetry. apply map_nth_seq. }
  rewrite E. apply Permutation_map. exact Hp.
Qed.

(* ------------------------------------------------------------------ *)
(* compute_bias with the keys permuted along *)
Lemma bias_one_perm f level p ys zs ws n :
  List.length ys = n -> List.length zs = n -> List.length ws = n -> Permutation p (seq 0 n) ->
  forall dw grouping grouping',
  match grouping, grouping' with
  | None, None => True
  | Some (ks, nb), Some (ks', nb') => nb = nb' /\ List.length ks = n /\ ks' = permute None p ks
  | _, _ => False
  end ->
  bias_one f level (permute 0 p ys) (permute 0 p zs) grouping' (permute dw p ws)
  = bias_one f level ys zs grouping ws.
Proof.
  intros Hy Hz Hw Hp dw grouping grouping' G. unfold bias_one.
  destruct grouping as [[ks nb]|], grouping' as [[ks' nb']|]; try contradiction.
  - destruct G as (-> & Hk & ->).
    rewrite (bias_perm f level _ _ (zip4_permute 0 0 None dw p ys zs ks ws n Hy Hz Hk Hw Hp)).
    reflexivity.
  - f_equal. f_equal. rewrite (permute_map (fun _ : Q => @None nat) 0 p ys).
    apply bias_all_perm. apply (zip4_permute 0 0 None dw p ys zs _ ws n); auto.
    rewrite map_length. exact Hy.
Qed.

Definition cols_ok (n : nat) (models : list (list Q)) (weights : option (list Q)) : Prop :=
  Forall (fun zs => List.length zs = n) models /\
  match weights with Some w => List.length w = n | None => True end.

Theorem compute_bias_perm_keys f level p ys models weights grouping grouping' :
  cols_ok (List.length ys) models weights -> Permutation p (seq 0 (List.length ys)) ->
  match grouping, grouping' with
  | None, None => True
  | Some (ks, nb), Some (ks', nb') =>
      nb = nb' /\ List.length ks = List.length ys /\ ks' = permute None p ks
  | _, _ => False
  end ->
  compute_bias f level (permute 0 p ys) (map (permute 0 p) models) grouping' (option_map (permute 0 p) weights)
  = compute_bias f level ys models grouping weights.
Proof.
  intros [Hm Hw] Hp G. unfold compute_bias. destruct (level_bad f level); [reflexivity|].
  assert (E : map (fun zs => bias_one f level (permute 0 p ys) zs grouping'
                      match option_map (permute 0 p) weights with
                      | Some w => w
                      | None => map (fun _ => 1) (permute 0 p ys)
                      end) (map (permute 0 p) models)
            = map (fun zs => bias_one f level ys zs grouping
                      match weights with Some w => w | None => map (fun _ => 1) ys end) models).
  { rewrite map_map. apply map_ext_in. intros zs Hzs. rewrite Forall_forall in Hm.
    destruct weights as [w|]; cbn [option_map].
    - apply (bias_one_perm f level p ys zs w (List.length ys)); auto.
    - rewrite (permute_map (fun _ : Q => 1) 0 p ys).
      apply (bias_one_perm f level p ys zs _ (List.length ys)); auto. apply map_length. }
  rewrite E. reflexivity.
Qed.

(* ------------------------------------------------------------------ *)
(* the byte order on strings is a total order (String.leb_total, leb_antisym are in the standard library;
   transitivity is not) *)
Lemma scompare_trans a : forall b c,
  String.compare a b <> Gt -> String.compare b c <> Gt -> String.compare a c <> Gt.
Proof.
  induction a as [|x a IH]; intros [|y b] [|z c]; simpl; try congruence.
  unfold Ascii.compare.
  destruct (N.compare_spec (N_of_ascii x) (N_of_ascii y)) as [E1|E1|E1];
  destruct (N.compare_spec (N_of_ascii y) (N_of_ascii z)) as [E2|E2|E2];
  destruct (N.compare_spec (N_of_ascii x) (N_of_ascii z)) as [E3|E3|E3];
    try congruence; try (exfalso; lia); try (intros; apply (IH b c); assumption).
Qed.

Lemma sleb_trans a b c : sleb a b = true -> sleb b c = true -> sleb a c = true.
Proof.
  unfold sleb, String.leb. intros H1 H2.
  pose proof (scompare_trans a b c) as T.
  destruct (String.compare a b); destruct (String.compare b c); destruct (String.compare a c);
    try reflexivity; try discriminate; exfalso; apply T; congruence.
Qed.
Lemma sleb_total a b : sleb a b = true \/ sleb b a = true.
Proof. apply String.leb_total. Qed.
Lemma sleb_antisym a b : sleb a b = true -> sleb b a = true -> a = b.
Proof. apply String.leb_antisym. Qed.

(* the sorted label list of `string_keys` depends only on the multiset of bins *)
Lemma sorted_labels_perm (l l' : list string) :
  Permutation l l' -> isort sleb l = isort sleb l'.
Proof.
  intros H. apply (ssorted_perm_eq sleb).
  - intros a b _ _. apply sleb_antisym.
  - apply isort_sorted; [apply sleb_total| apply sleb_trans].
  - apply isort_sorted; [apply sleb_total| apply sleb_trans].
  - eapply perm_trans; [apply Permutation_sym; apply isort_perm|].
    eapply perm_trans; [exact H| apply isort_perm].
Qed.

(* the key of a row is a function `skey` of its bin; the function depends only on the multiset of bins *)
Definition skey (kind : skind) (names : list string) (label : option string) (bins : list sbin)
    (b : sbin) : option nat :=
  match kind with
  | SEnum => match b with SBNull => None | SBKeep c => Some c | SBOther => Some (List.length names) end
  | _ => match render names label b with
         | None => None
         | Some s => Some (index_of s (sdedup (isort sleb (nonnull (map (render names label) bins)))))
         end
  end.

Lemma string_keys_skey kind names label bins :
  string_keys kind names label bins = map (skey kind names label bins) bins.
Proof. destruct kind; reflexivity. Qed.

Lemma skey_perm kind names label bins bins' b :
  Permutation bins bins' -> skey kind names label bins b = skey kind names label bins' b.
Proof.
  intros H. unfold skey.
  rewrite (sorted_labels_perm _ _ (nonnull_perm _ _ (Permutation_map (render names label) H))).
  reflexivity.
Qed.

Theorem string_keys_perm kind names label bins bins' :
  Permutation bins bins' ->
  exists h, string_keys kind names label bins = map h bins /\
            string_keys kind names label bins' = map h bins'.
Proof.
  intros H. exists (skey kind names label bins). rewrite !string_keys_skey. split; [reflexivity|].
  apply map_ext. intros b. symmetry. apply skey_perm. exact H.
Qed.

(* ------------------------------------------------------------------ *)
(* keys out of the binning helper are permuted along with the feature *)
Lemma nrow_eq_key r r' : nrow_eq r r' -> option_map fst r = option_map fst r'.
Proof.
  destruct r as [[b e]|], r' as [[b' e']|]; simpl; try contradiction; auto.
  intros [H _]. simpl in H. congruence.
Qed.

Definition permute_feat (p : list nat) (ft : feat) : feat :=
  match ft with
  | FNone => FNone
  | FNum kind feature m interior => FNum kind (permute None p feature) m interior
  | FStr kind names feature => FStr kind names (permute None p feature)
  end.

Definition feat_len (n : nat) (ft : feat) : Prop :=
  match ft with
  | FNone => True
  | FNum _ feature _ _ => List.length feature = n
  | FStr _ _ feature => List.length feature = n
  end.

Definition grouping_rel (n : nat) (p : list nat) (r r' : grouping_res) : Prop :=
  match r, r' with
  | GR None, GR None => True
  | GR (Some (ks, nb)), GR (Some (ks', nb')) =>
      nb = nb' /\ List.length ks = n /\ ks' = permute None p ks
  | GRNan, GRNan => True
  | GRErr e, GRErr e' => e = e'
  | _, _ => False
  end.

Lemma map_permute_keys {X} (h : option X -> option nat) p (l : list (option X)) :
  Permutation p (seq 0 (List.length l)) ->
  map h (permute None p l) = permute None p (map h l).
Proof.
  intros Hp. rewrite permute_map. apply permute_default.
  intros i Hi. rewrite map_length. eapply perm_seq_bound; eauto.
Qed.

(* bin_feature followed by the key extraction is permutation-equivariant: all ten bin methods (for a numpy
   rule: the same interior edges are supplied), Boolean and numeric dtypes, string / categorical / enum *)
Theorem grouping_of_perm ft n_bins p n :
  feat_len n ft -> Permutation p (seq 0 n) ->
  grouping_rel n p (grouping_of ft n_bins) (grouping_of (permute_feat p ft) n_bins).
Proof.
  intros Hl Hp. destruct ft as [|kind feature m interior|kind names feature]; simpl in *.
  - exact I.
  - subst n.
    assert (P : Permutation feature (permute None p feature))
      by (apply Permutation_sym, permute_Permutation; exact Hp).
    pose proof (bin_numeric_perm kind _ _ n_bins m interior P) as R.
    destruct (bin_numeric kind feature n_bins m interior) as [nb e t rows| |err];
      destruct (bin_numeric kind (permute None p feature) n_bins m interior) as [nb' e' t' rows'| |err'];
      simpl in R; try contradiction; simpl; auto.
    destruct R as (Hn & _ & _ & g & g' & -> & -> & Hg).
    split; [exact Hn|]. unfold numeric_keys. rewrite !map_length. split; [reflexivity|].
    rewrite !map_map. rewrite <- (map_permute_keys (fun x => option_map fst (g x))) by exact Hp.
    apply map_ext. intros o. symmetry. apply nrow_eq_key. apply Hg.
  - subst n.
    assert (P : Permutation feature (permute None p feature))
      by (apply Permutation_sym, permute_Permutation; exact Hp).
    pose proof (bin_string_perm kind names _ _ n_bins P) as R.
    destruct (bin_string kind names feature n_bins) as [nb kept label k bins|err];
      destruct (bin_string kind names (permute None p feature) n_bins) as [nb' kept' label' k' bins'|err'];
      simpl in R; try contradiction; simpl; auto.
    destruct R as (Hn & _ & <- & _ & g & -> & ->).
    destruct (string_keys_perm kind names label _ _ (Permutation_map g P)) as [h [E1 E2]].
    rewrite E1, E2. split; [exact Hn|]. rewrite !map_length. split; [reflexivity|].
    rewrite !map_map. apply (map_permute_keys (fun x => h (g x))). exact Hp.
Qed.

(* ------------------------------------------------------------------ *)
(* the whole model *)
Definition permute_case (p : list nat) (c : bias_case) : bias_case :=
  mkb (b_fun c) (b_level c) (permute 0 p (b_y c)) (map (permute 0 p) (b_models c))
      (permute_feat p (b_feat c)) (b_n_bins c) (option_map (permute 0 p) (b_w c)) (b_obs c).

(* every column has the length of y_obs (what validate_same_first_dimension enforces) *)
Definition wf_case (c : bias_case) : Prop :=
  cols_ok (List.length (b_y c)) (b_models c) (b_w c) /\ feat_len (List.length (b_y c)) (b_feat c).

(* C09 "independent of row order", in full: raw columns -> bin_feature -> keys -> table *)
Theorem compute_bias_perm_full c p :
  wf_case c -> Permutation p (seq 0 (List.length (b_y c))) ->
  run (permute_case p c) = run c.
Proof.
  intros [Hc Hf] Hp. unfold run, permute_case. cbn [b_feat b_n_bins b_fun b_level b_y b_models b_w].
  pose proof (grouping_of_perm (b_feat c) (b_n_bins c) p _ Hf Hp) as G.
  destruct (grouping_of (b_feat c) (b_n_bins c)) as [g| |e];
    destruct (grouping_of (permute_feat p (b_feat c)) (b_n_bins c)) as [g'| |e'];
    simpl in G; try contradiction.
  - f_equal. apply compute_bias_perm_keys; auto.
    destruct g as [[ks nb]|], g' as [[ks' nb']|]; try contradiction; auto.
  - destruct g as [[ks nb]|]; contradiction.
  - destruct g as [[ks nb]|]; contradiction.
  - reflexivity.
  - congruence.
Qed.

(* the same with the outcome of bin_feature spelled out: numeric feature *)
Corollary compute_bias_perm_numeric f level kind feature n_bins m interior ys models weights p :
  List.length feature = List.length ys -> cols_ok (List.length ys) models weights ->
  Permutation p (seq 0 (List.length ys)) ->
  match bin_numeric kind feature n_bins m interior,
        bin_numeric kind (permute None p feature) n_bins m interior with
  | NOk n _ _ rows, NOk n' _ _ rows' =>
      compute_bias f level (permute 0 p ys) (map (permute 0 p) models)
        (Some (numeric_keys rows', n')) (option_map (permute 0 p) weights)
      = compute_bias f level ys models (Some (numeric_keys rows, n)) weights
  | NNanEdges, NNanEdges => True
  | NErr e, NErr e' => e = e'
  | _, _ => False
  end.
Proof.
  intros Hl Hc Hp.
  pose proof (compute_bias_perm_full (mkb f level ys models (FNum kind feature m interior) n_bins weights OBOther) p
                (conj Hc Hl) Hp) as R.
  unfold run, permute_case in R. cbn [b_feat b_n_bins b_fun b_level b_y b_models b_w permute_feat grouping_of] in R.
  destruct (bin_numeric kind feature n_bins m interior);
    destruct (bin_numeric kind (permute None p feature) n_bins m interior); try discriminate; auto;
    congruence.
Qed.

(* ... string / categorical / enum feature *)
Corollary compute_bias_perm_string f level kind names feature n_bins ys models weights p :
  List.length feature = List.length ys -> cols_ok (List.length ys) models weights ->
  Permutation p (seq 0 (List.length ys)) ->
  match bin_string kind names feature n_bins,
        bin_string kind names (permute None p feature) n_bins with
  | SOk n _ label _ bins, SOk n' _ label' _ bins' =>
      compute_bias f level (permute 0 p ys) (map (permute 0 p) models)
        (Some (string_keys kind names label' bins', n')) (option_map (permute 0 p) weights)
      = compute_bias f level ys models (Some (string_keys kind names label bins, n)) weights
  | SErr e, SErr e' => e = e'
  | _, _ => False
  end.
Proof.
  intros Hl Hc Hp.
  pose proof (compute_bias_perm_full (mkb f level ys models (FStr kind names feature) n_bins weights OBOther) p
                (conj Hc Hl) Hp) as R.
  unfold run, permute_case in R. cbn [b_feat b_n_bins b_fun b_level b_y b_models b_w permute_feat grouping_of] in R.
  destruct (bin_string kind names feature n_bins);
    destruct (bin_string kind names (permute None p feature) n_bins); try discriminate; auto;
    congruence.
Qed.

(* hypotheses are satisfiable, and the statement is not vacuous: a numeric feature with ties, a null and
   an infinity, rows reversed *)
Definition ex_case : bias_case :=
  mkb FMean (1 # 2) [0; 1; 1; 0; 2] [[1; 1; 0; 0; 1]; [2; 0; 1; 1; 1]]
      (FNum KNum [Some (Fin 3); None; Some (Fin 1); Some PInf; Some (Fin 1)] Quantile []) 3
      (Some [1; 2; 1; 1; 3]) OBOther.
Example ex_case_wf : wf_case ex_case /\ Permutation [4; 3; 2; 1; 0]%nat (seq 0 (List.length (b_y ex_case))).
Proof.
  split; [repeat split; repeat constructor|].
  change [4; 3; 2; 1; 0]%nat with (rev (seq 0 5)). apply Permutation_sym, Permutation_rev.
Qed.
Example ex_case_runs :
  match run ex_case with inl (BOk [t1; t2]) => List.length t1 = 3%nat | _ => False end /\
  run (permute_case [4; 3; 2; 1; 0]%nat ex_case) = run ex_case.
Proof. split; vm_compute; reflexivity. Qed.

Print Assumptions compute_bias_perm_keys.
Print Assumptions string_keys_perm.
Print Assumptions grouping_of_perm.
Print Assumptions compute_bias_perm_full.
Print Assumptions compute_bias_perm_numeric.
Print Assumptions compute_bias_perm_string.

(* ====================================================================================== *)
(* PART 2: compute_marginal *)
(* compute_marginal: the per-model table (group statistics, feature cell, label, bin_edges triple) does not
   depend on the row order - from the raw columns through bin_feature (properties C10 / C09).
   World Q, no axioms.

   A permutation of the rows is an index list p with `Permutation p (seq 0 N)` applied to every column
   (proofs/BiasPerm.permute).  Equality:
     * statistics, feature cell (bin mean), label, the squared std of the triple: Leibniz, ALL inputs;
     * the two edges of the bin_edges triple are cells of the data / of the edge vector: up to
       BinningPerm.xeq for ALL inputs (`table_of_perm_numeric`), Leibniz when the feature column holds
       reduced fractions (`table_of_perm_numeric_canon`; the harness only feeds reduced fractions);
     * string-like features: Leibniz, under `names_ok` (the rank -> name table has no duplicate name and
       covers every code of the column - true of every real column: categories are distinct strings).
       Without it the MODEL is order dependent (`str_table_dup_names_order_dependent`): two codes with the
       same name share a group and `bin_of` reports the first one met.
   The partial-dependence column is not covered: with n_max the sampled index vector is an oracle input
   that refers to row positions, and the recorded predictor input `seen` is the stacked matrix in row order. *)
From MD Require Import model.PartialDep model.Marginal proofs.MarginalProps.

(* ------------------------------------------------------------------ *)
(* unweighted mean / population variance of the members of a bin *)
Lemma qsum_perm l l' : Permutation l l' -> qsum l == qsum l'.
Proof. induction 1; simpl; lra. Qed.

Lemma fmean_perm l l' : Permutation l l' -> fmean l = fmean l'.
Proof.
  intros H. unfold fmean. apply Qred_complete.
  rewrite (qsum_perm _ _ H), (Permutation_length H). reflexivity.
Qed.

Lemma fvar0_perm l l' : Permutation l l' -> fvar0 l = fvar0 l'.
Proof.
  intros H. unfold fvar0. cbv zeta. rewrite <- (fmean_perm _ _ H). apply Qred_complete.
  rewrite (qsum_perm _ _ (Permutation_map (fun x => (x - fmean l) * (x - fmean l)) H)), (Permutation_length H).
  reflexivity.
Qed.

Lemma fmembers_perm g (h : option Q -> option nat) feature feature' :
  Permutation feature feature' ->
  Permutation (fmembers g (map h feature) feature) (fmembers g (map h feature') feature').
Proof.
  intros H. unfold fmembers. rewrite !combine_map_l.
  apply nonnull_perm, Permutation_map, filter_Permutation, Permutation_map. exact H.
Qed.

(* ------------------------------------------------------------------ *)
(* `pl.col("bin_edges").first()` *)
Lemma edge_of_some k rows e : edge_of k rows = Some e -> In (Some (k, e)) rows.
Proof.
  unfold edge_of.
  match goal with |- context [find ?P rows] => destruct (find P rows) as [[[b e0]|]|] eqn:F end;
    try discriminate.
  intros E. inversion E; subst. apply find_some in F. destruct F as [Hin Hb].
  apply Nat.eqb_eq in Hb. subst. exact Hin.
Qed.

Lemma edge_of_none k rows : edge_of k rows = None -> forall e, ~ In (Some (k, e)) rows.
Proof.
  unfold edge_of.
  match goal with |- context [find ?P rows] => destruct (find P rows) as [[[b e0]|]|] eqn:F end;
    try discriminate.
  - apply find_some in F. destruct F as [_ F]. discriminate.
  - intros _ e Hin. pose proof (find_none _ _ F _ Hin) as N. simpl in N.
    rewrite Nat.eqb_refl in N. discriminate.
Qed.

(* rows of one frame that carry the same bin number carry the same edge pair *)
Definition rows_coherent (rows : list nrow) : Prop :=
  forall b e1 e2, In (Some (b, e1)) rows -> In (Some (b, e2)) rows -> e1 = e2.

Lemma knum_rows_coherent l n_bins m interior n e t rows :
  bin_numeric KNum l n_bins m interior = NOk n e t rows -> rows_coherent rows.
Proof.
  intros H. apply bin_numeric_inv in H.
  destruct H as [(_ & _ & _ & _ & Hr & _) | (fmin & fmax & mo & _ & _ & _ & Hr & _)];
    subst rows; intros b e1 e2 H1 H2.
  - apply in_map_iff in H1. destruct H1 as [? [? _]]. discriminate.
  - unfold digitize_rows in H1, H2. apply in_map_iff in H1. apply in_map_iff in H2.
    destruct H1 as [[v1|] [E1 _]]; [|discriminate]. destruct H2 as [[v2|] [E2 _]]; [|discriminate].
    cbn [stored_bin] in E1, E2. inversion E1; inversion E2; subst. congruence.
Qed.

Definition nrow_rel (R : ext * ext -> ext * ext -> Prop) (r r' : nrow) : Prop :=
  orel (fun a b => fst a = fst b /\ R (snd a) (snd b)) r r'.

Lemma nrow_rel_key R r r' : nrow_rel R r r' -> option_map fst r = option_map fst r'.
Proof.
  destruct r as [[b e]|], r' as [[b' e']|]; simpl; try contradiction; auto.
  intros [H _]. simpl in H. congruence.
Qed.

Lemma edge_of_rel R (g g' : option ext -> nrow) l l' k :
  Permutation l l' -> (forall o, nrow_rel R (g o) (g' o)) -> rows_coherent (map g' l') ->
  orel R (edge_of k (map g l)) (edge_of k (map g' l')).
Proof.
  intros P Hrel Hco.
  destruct (edge_of k (map g l)) as [e1|] eqn:E1; destruct (edge_of k (map g' l')) as [e2|] eqn:E2; simpl; auto.
  - apply edge_of_some in E1. apply edge_of_some in E2.
    apply in_map_iff in E1. destruct E1 as [o [Ho Hin]].
    pose proof (Hrel o) as Ro. rewrite Ho in Ro. destruct (g' o) as [[b' e']|] eqn:G'; simpl in Ro; [|contradiction].
    destruct Ro as [Hb Re]. simpl in Hb, Re. subst b'.
    assert (Hin' : In (Some (k, e')) (map g' l')).
    { apply in_map_iff. exists o. split; [exact G'| eapply Permutation_in; eauto]. }
    rewrite <- (Hco _ _ _ Hin' E2). exact Re.
  - apply edge_of_some in E1. apply in_map_iff in E1. destruct E1 as [o [Ho Hin]].
    pose proof (Hrel o) as Ro. rewrite Ho in Ro. destruct (g' o) as [[b' e']|] eqn:G'; simpl in Ro; [|contradiction].
    destruct Ro as [Hb _]. simpl in Hb. subst b'.
    apply (edge_of_none _ _ E2 e'). apply in_map_iff. exists o. split; [exact G'| eapply Permutation_in; eauto].
  - apply edge_of_some in E2. apply in_map_iff in E2. destruct E2 as [o [Ho Hin]].
    pose proof (Hrel o) as Ro. rewrite Ho in Ro. destruct (g o) as [[b e]|] eqn:G; simpl in Ro; [|contradiction].
    destruct Ro as [Hb _]. simpl in Hb. subst b.
    apply (edge_of_none _ _ E1 e). apply in_map_iff. exists o. split; [exact G|].
    eapply Permutation_in; [apply Permutation_sym; exact P| exact Hin].
Qed.

(* ------------------------------------------------------------------ *)
(* output rows up to a relation R on the pair of edges *)
Definition mrow_rel (R : ext * ext -> ext * ext -> Prop) (r r' : mrow) : Prop :=
  o_stat r = o_stat r' /\ o_cell r = o_cell r' /\ o_label r = o_label r' /\
  orel (fun a b => R (fst (fst a), snd a) (fst (fst b), snd b) /\ snd (fst a) = snd (fst b))
       (o_edges r) (o_edges r').

Lemma mrow_rel_eq r r' : mrow_rel eq r r' -> r = r'.
Proof.
  destruct r as [s c lb ed], r' as [s' c' lb' ed']. unfold mrow_rel. simpl.
  intros (-> & -> & -> & H). f_equal.
  destruct ed as [[[lo v] hi]|], ed' as [[[lo' v'] hi']|]; simpl in H; try contradiction; auto.
  destruct H as [H1 H2]. simpl in *. congruence.
Qed.

Lemma Forall2_eq_list {A} (l l' : list A) : Forall2 eq l l' -> l = l'.
Proof. induction 1; congruence. Qed.

Lemma num_row_rel R feature feature' (g g' : option ext -> nrow) s :
  Permutation feature feature' -> (forall o, nrow_rel R (g o) (g' o)) ->
  rows_coherent (map g' (xfeature feature')) ->
  mrow_rel R (num_row feature (map g (xfeature feature)) s)
             (num_row feature' (map g' (xfeature feature')) s).
Proof.
  intros P Hrel Hco. unfold num_row. destruct (m_key s) as [k|]; [|repeat split].
  set (h := fun o : option Q => option_map fst (g (option_map Fin o))).
  assert (K : numeric_keys (map g (xfeature feature)) = map h feature).
  { unfold numeric_keys, xfeature. rewrite !map_map. reflexivity. }
  assert (K' : numeric_keys (map g' (xfeature feature')) = map h feature').
  { unfold numeric_keys, xfeature. rewrite !map_map. apply map_ext. intros o. unfold h.
    symmetry. apply (nrow_rel_key R). apply Hrel. }
  rewrite K, K'.
  pose proof (fmembers_perm (Some k) h _ _ P) as V.
  set (vals := fmembers (Some k) (map h feature) feature) in *.
  set (vals' := fmembers (Some k) (map h feature') feature') in *.
  assert (PX : Permutation (xfeature feature) (xfeature feature')) by (apply Permutation_map; exact P).
  pose proof (edge_of_rel R g g' _ _ k PX Hrel Hco) as E.
  unfold mrow_rel. cbn [o_stat o_cell o_label o_edges].
  split; [reflexivity|]. split; [rewrite (fmean_perm _ _ V); reflexivity|]. split; [reflexivity|].
  destruct (edge_of k (map g (xfeature feature))) as [[lo hi]|],
           (edge_of k (map g' (xfeature feature'))) as [[lo' hi']|]; simpl in E; try contradiction; simpl; auto.
  split; [exact E| apply fvar0_perm; exact V].
Qed.

Definition tres_rel (R : ext * ext -> ext * ext -> Prop) (t t' : tres) : Prop :=
  match t, t' with
  | TOk r, TOk r' => Forall2 (mrow_rel R) r r'
  | TTruncated, TTruncated => True
  | TNanEdges, TNanEdges => True
  | TErr e, TErr e' => e = e'
  | _, _ => False
  end.

Lemma tres_rel_eq t t' : tres_rel eq t t' -> t = t'.
Proof.
  destruct t, t'; simpl; try contradiction; auto; [|congruence].
  intros H. f_equal. apply Forall2_eq_list.
  induction H as [|x y l l' Hxy H IH]; constructor; auto. apply mrow_rel_eq. exact Hxy.
Qed.

Lemma Forall2_len {A B} (R : A -> B -> Prop) l l' : Forall2 R l l' -> List.length l = List.length l'.
Proof. induction 1; simpl; congruence. Qed.

Lemma xfeature_permute p feature : xfeature (permute None p feature) = permute None p (xfeature feature).
Proof. unfold xfeature. apply (permute_map (option_map Fin) None p feature). Qed.

(* the numeric table, given what the two runs of bin_feature returned *)
Lemma num_table_rel R feature p ys zs ws n (g g' : option ext -> nrow) :
  List.length feature = n -> List.length ys = n -> List.length zs = n -> List.length ws = n ->
  Permutation p (seq 0 n) ->
  (forall o, nrow_rel R (g o) (g' o)) ->
  rows_coherent (map g' (xfeature (permute None p feature))) ->
  Forall2 (mrow_rel R)
    (num_table feature (map g (xfeature feature)) ys zs ws)
    (num_table (permute None p feature) (map g' (xfeature (permute None p feature)))
               (permute 0 p ys) (permute 0 p zs) (permute 0 p ws)).
Proof.
  intros Hf Hy Hz Hw Hp Hrel Hco.
  assert (P : Permutation feature (permute None p feature))
    by (apply Permutation_sym, permute_Permutation; rewrite Hf; exact Hp).
  unfold num_table.
  set (h := fun x : option ext => option_map fst (g x)).
  assert (K : numeric_keys (map g (xfeature feature)) = map h (xfeature feature))
    by (unfold numeric_keys; rewrite map_map; reflexivity).
  assert (K' : numeric_keys (map g' (xfeature (permute None p feature)))
               = permute None p (map h (xfeature feature))).
  { unfold numeric_keys. rewrite map_map, xfeature_permute.
    rewrite <- (map_permute_keys h).
    - apply map_ext. intros o. unfold h. symmetry. apply (nrow_rel_key R). apply Hrel.
    - unfold xfeature. rewrite map_length, Hf. exact Hp. }
  rewrite K'.
  assert (G : marg_groups (zip4 (permute 0 p ys) (permute 0 p zs) (permute None p (map h (xfeature feature)))
                                (permute 0 p ws))
              = marg_groups (zip4 ys zs (numeric_keys (map g (xfeature feature))) ws)).
  { rewrite K. apply marg_perm. apply (zip4_permute 0 0 None 0 p ys zs _ ws n); auto.
    unfold xfeature. rewrite !map_length. exact Hf. }
  rewrite G.
  generalize (marg_groups (zip4 ys zs (numeric_keys (map g (xfeature feature))) ws)). intros L.
  induction L as [|s L IH]; simpl; constructor; [|exact IH].
  apply num_row_rel; auto.
Qed.

Lemma table_numeric_core R feature m interior n_bins p ys zs ws N nb e t nb' e' t' (g g' : option ext -> nrow) :
  List.length feature = N -> List.length ys = N -> List.length zs = N -> List.length ws = N ->
  Permutation p (seq 0 N) ->
  bin_numeric KNum (xfeature feature) n_bins m interior = NOk nb e t (map g (xfeature feature)) ->
  bin_numeric KNum (xfeature (permute None p feature)) n_bins m interior
    = NOk nb' e' t' (map g' (xfeature (permute None p feature))) ->
  nb = nb' -> (forall o, nrow_rel R (g o) (g' o)) ->
  tres_rel R (table_of (MFNum feature m interior) n_bins ys zs ws)
             (table_of (MFNum (permute None p feature) m interior) n_bins
                       (permute 0 p ys) (permute 0 p zs) (permute 0 p ws)).
Proof.
  intros Hf Hy Hz Hw Hp E1 E2 Hn Hrel. unfold table_of. rewrite E1, E2. subst nb'.
  pose proof (knum_rows_coherent _ _ _ _ _ _ _ _ E2) as Hco.
  pose proof (num_table_rel R feature p ys zs ws N g g' Hf Hy Hz Hw Hp Hrel Hco) as T.
  rewrite <- (Forall2_len _ _ _ T).
  destruct (List.length (num_table feature (map g (xfeature feature)) ys zs ws) <=? nb)%nat; simpl; auto.
Qed.

(* C10: numeric feature, ALL inputs: statistics, bin mean, std^2 equal; the two edges up to xeq *)
Theorem table_of_perm_numeric feature m interior n_bins p ys zs ws N :
  List.length feature = N -> List.length ys = N -> List.length zs = N -> List.length ws = N ->
  Permutation p (seq 0 N) ->
  tres_rel xeq2 (table_of (MFNum feature m interior) n_bins ys zs ws)
                (table_of (MFNum (permute None p feature) m interior) n_bins
                          (permute 0 p ys) (permute 0 p zs) (permute 0 p ws)).
Proof.
  intros Hf Hy Hz Hw Hp.
  assert (P : Permutation (xfeature feature) (xfeature (permute None p feature))).
  { apply Permutation_map. apply Permutation_sym, permute_Permutation. rewrite Hf. exact Hp. }
  pose proof (bin_numeric_perm KNum _ _ n_bins m interior P) as R.
  destruct (bin_numeric KNum (xfeature feature) n_bins m interior) as [nb e t rows| |err] eqn:E1;
    destruct (bin_numeric KNum (xfeature (permute None p feature)) n_bins m interior)
      as [nb' e' t' rows'| |err'] eqn:E2; simpl in R; try contradiction.
  - destruct R as (Hn & _ & _ & g & g' & -> & -> & Hg).
    eapply table_numeric_core; eauto.
  - unfold table_of. rewrite E1, E2. exact I.
  - unfold table_of. rewrite E1, E2. exact R.
Qed.

Definition qcanon (o : option Q) : Prop := match o with Some q => Qred q = q | None => True end.

Lemma xfeature_canon feature : Forall qcanon feature -> Forall ocanon (xfeature feature).
Proof.
  intros H. unfold xfeature. apply Forall_forall. intros o Ho. apply in_map_iff in Ho.
  destruct Ho as [x [<- Hx]]. rewrite Forall_forall in H. specialize (H x Hx). destruct x; exact H.
Qed.

(* ... reduced fractions in the feature column: the tables are EQUAL *)
Theorem table_of_perm_numeric_canon feature m interior n_bins p ys zs ws N :
  Forall qcanon feature ->
  List.length feature = N -> List.length ys = N -> List.length zs = N -> List.length ws = N ->
  Permutation p (seq 0 N) ->
  table_of (MFNum (permute None p feature) m interior) n_bins (permute 0 p ys) (permute 0 p zs) (permute 0 p ws)
  = table_of (MFNum feature m interior) n_bins ys zs ws.
Proof.
  intros C Hf Hy Hz Hw Hp. symmetry. apply tres_rel_eq.
  assert (P : Permutation (xfeature feature) (xfeature (permute None p feature))).
  { apply Permutation_map. apply Permutation_sym, permute_Permutation. rewrite Hf. exact Hp. }
  pose proof (bin_numeric_perm_canon KNum _ _ n_bins m interior P (xfeature_canon _ C)) as R.
  destruct (bin_numeric KNum (xfeature feature) n_bins m interior) as [nb e t rows| |err] eqn:E1;
    destruct (bin_numeric KNum (xfeature (permute None p feature)) n_bins m interior)
      as [nb' e' t' rows'| |err'] eqn:E2; simpl in R; try contradiction.
  - destruct R as (Hn & _ & _ & g & -> & ->).
    eapply table_numeric_core; eauto.
    intros o. unfold nrow_rel. destruct (g o); simpl; auto.
  - unfold table_of. rewrite E1, E2. exact I.
  - unfold table_of. rewrite E1, E2. exact R.
Qed.

(* ------------------------------------------------------------------ *)
(* string-like features *)
Definition names_ok (names : list string) (feature : list (option nat)) : Prop :=
  NoDup names /\ forall c, In (Some c) feature -> (c < List.length names)%nat.

Lemma sdedup_keeps s l : In s l -> In s (sdedup l).
Proof.
  revert s. induction l as [|a l IH]; intros s; [intros []|].
  destruct l as [|b l]; [intros H; exact H|].
  change (sdedup (a :: b :: l)) with (if String.eqb a b then sdedup (b :: l) else a :: sdedup (b :: l)).
  intros [<-|H].
  - destruct (String.eqb a b) eqn:E; [|left; reflexivity].
    apply String.eqb_eq in E. subst b. apply IH. left. reflexivity.
  - destruct (String.eqb a b); [apply IH; exact H| right; apply IH; exact H].
Qed.

Lemma index_of_inj s s' l : In s l -> index_of s l = index_of s' l -> s = s'.
Proof.
  induction l as [|x l IH]; [intros []|]. intros Hin. cbn [index_of].
  destruct (String.eqb s x) eqn:E1; destruct (String.eqb s' x) eqn:E2; try discriminate.
  - intros _. apply String.eqb_eq in E1. apply String.eqb_eq in E2. congruence.
  - intros H. apply IH; [|congruence].
    destruct Hin as [->|Hin]; [rewrite String.eqb_refl in E1; discriminate| exact Hin].
Qed.

(* distinct bins of a frame get distinct keys *)
Lemma skey_inj kind names feature n_bins n kept_ label k bins :
  bin_string kind names feature n_bins = SOk n kept_ label k bins -> names_ok names feature ->
  forall b1 b2, In b1 bins -> In b2 bins ->
    skey kind names label bins b1 = skey kind names label bins b2 -> b1 = b2.
Proof.
  intros H [Hnd Hrange] b1 b2 H1 H2 E.
  pose proof (sbin_in_feature _ _ _ _ _ _ _ _ _ _ H H1) as F1.
  pose proof (sbin_in_feature _ _ _ _ _ _ _ _ _ _ H H2) as F2.
  assert (Hfresh : forall c lab, In (Some c) feature -> label = Some lab -> name_of names c <> lab).
  { intros c lab Hc El. rewrite El in H. apply (pooled_label_fresh _ _ _ _ _ _ _ _ _ H).
    unfold cats. apply nodup_In. apply in_nonnull. exact Hc. }
  assert (Hrender : render names label b1 = render names label b2 -> b1 = b2).
  { destruct b1 as [|c1|], b2 as [|c2|]; cbn [render]; try reflexivity;
      try (destruct label; discriminate); try discriminate.
    - intros En. inversion En as [En']. f_equal. unfold name_of in En'.
      apply (proj1 (NoDup_nth names ""%string) Hnd); auto.
    - destruct label as [lab|]; [|exfalso; apply F2; reflexivity].
      intros En. inversion En as [En']. exfalso. exact (Hfresh c1 lab F1 eq_refl En').
    - destruct label as [lab|]; [|exfalso; apply F1; reflexivity].
      intros En. inversion En as [En']. exfalso. symmetry in En'. exact (Hfresh c2 lab F2 eq_refl En'). }
  assert (Hstr : match render names label b1 with
                 | None => None
                 | Some s => Some (index_of s (sdedup (isort sleb (nonnull (map (render names label) bins)))))
                 end
                 = match render names label b2 with
                   | None => None
                   | Some s => Some (index_of s (sdedup (isort sleb (nonnull (map (render names label) bins)))))
                   end -> b1 = b2).
  { intros E'. apply Hrender.
    destruct (render names label b1) as [s1|] eqn:R1; destruct (render names label b2) as [s2|] eqn:R2;
      try discriminate; [|reflexivity].
    inversion E' as [E'']. f_equal. eapply index_of_inj; [|exact E''].
    apply sdedup_keeps. eapply Permutation_in; [apply isort_perm|].
    apply in_nonnull. rewrite <- R1. apply in_map. exact H1. }
  destruct kind; unfold skey in E; [exact (Hstr E)| exact (Hstr E)|].
  destruct b1 as [|c1|], b2 as [|c2|]; try discriminate; try reflexivity.
  - congruence.
  - inversion E. specialize (Hrange c1 F1). lia.
  - inversion E. specialize (Hrange c2 F2). lia.
Qed.

Lemma bin_of_spec (h : sbin -> option nat) bins g :
  (In (bin_of g (map h bins) bins) bins /\ h (bin_of g (map h bins) bins) = g) \/
  ((forall b, In b bins -> h b <> g) /\ bin_of g (map h bins) bins = SBNull).
Proof.
  induction bins as [|a bins IH]; [right; split; [intros ? []| reflexivity]|].
  cbn [map bin_of]. destruct (okey_eqb (h a) g) eqn:E.
  - left. apply okey_eqb_iff in E. split; [left; reflexivity| exact E].
  - destruct IH as [[I1 I2]|[I1 I2]].
    + left. split; [right; exact I1| exact I2].
    + right. split; [|exact I2]. intros b [<-|Hb]; [|apply I1; exact Hb].
      intros Hb. rewrite Hb, okey_eqb_refl in E. discriminate.
Qed.

Lemma bin_of_perm (h : sbin -> option nat) bins bins' g :
  Permutation bins bins' ->
  (forall b1 b2, In b1 bins -> In b2 bins -> h b1 = h b2 -> b1 = b2) ->
  bin_of g (map h bins) bins = bin_of g (map h bins') bins'.
Proof.
  intros P Hinj.
  destruct (bin_of_spec h bins g) as [[A1 A2]|[A1 A2]]; destruct (bin_of_spec h bins' g) as [[B1 B2]|[B1 B2]].
  - apply Hinj; [exact A1| eapply Permutation_in; [apply Permutation_sym; exact P| exact B1]| congruence].
  - exfalso. apply (B1 _ (Permutation_in _ P A1)). exact A2.
  - exfalso. apply (A1 _ (Permutation_in _ (Permutation_sym P) B1)). exact B2.
  - congruence.
Qed.

Theorem table_of_perm_string kind names feature n_bins p ys zs ws N :
  names_ok names feature ->
  List.length feature = N -> List.length ys = N -> List.length zs = N -> List.length ws = N ->
  Permutation p (seq 0 N) ->
  table_of (MFStr kind names (permute None p feature)) n_bins (permute 0 p ys) (permute 0 p zs) (permute 0 p ws)
  = table_of (MFStr kind names feature) n_bins ys zs ws.
Proof.
  intros Hok Hf Hy Hz Hw Hp.
  assert (P : Permutation feature (permute None p feature))
    by (apply Permutation_sym, permute_Permutation; rewrite Hf; exact Hp).
  pose proof (bin_string_perm kind names _ _ n_bins P) as R. unfold table_of.
  destruct (bin_string kind names feature n_bins) as [nb kept_ label k bins|err] eqn:E1;
    destruct (bin_string kind names (permute None p feature) n_bins) as [nb' kept' label' k' bins'|err'] eqn:E2;
    simpl in R; try contradiction; [|congruence].
  destruct R as (<- & _ & <- & _ & g & Hb & Hb').
  assert (PB : Permutation bins bins') by (subst bins bins'; apply Permutation_map; exact P).
  assert (T : str_table kind names label bins' (permute 0 p ys) (permute 0 p zs) (permute 0 p ws)
              = str_table kind names label bins ys zs ws).
  { unfold str_table. rewrite !string_keys_skey.
    set (h := skey kind names label bins).
    rewrite (map_ext (skey kind names label bins') h) by (intros b; symmetry; apply skey_perm; exact PB).
    assert (K' : map h bins' = permute None p (map h bins)).
    { rewrite Hb, Hb', !map_map. apply (map_permute_keys (fun x => h (g x))). rewrite Hf. exact Hp. }
    assert (G : marg_groups (zip4 (permute 0 p ys) (permute 0 p zs) (map h bins') (permute 0 p ws))
                = marg_groups (zip4 ys zs (map h bins) ws)).
    { rewrite K'. apply marg_perm. apply (zip4_permute 0 0 None 0 p ys zs _ ws N); auto.
      rewrite Hb, !map_length. exact Hf. }
    rewrite G. apply map_ext. intros s. unfold str_row.
    rewrite <- (bin_of_perm h bins bins' (m_key s) PB); [reflexivity|].
    intros b1 b2. apply (skey_inj _ _ _ _ _ _ _ _ _ E1 Hok). }
  rewrite T. reflexivity.
Qed.

(* the restriction is needed IN THE MODEL: a name table with a duplicate merges two codes into one group and
   `bin_of` reports the code it meets first *)
Example str_table_dup_names_order_dependent :
  table_of (MFStr SString ["a"; "a"]%string [Some 0; Some 1]%nat) 3 [0; 1] [0; 1] [1; 1]
  <> table_of (MFStr SString ["a"; "a"]%string [Some 1; Some 0]%nat) 3 [1; 0] [1; 0] [1; 1].
Proof. vm_compute. intros H. inversion H. Qed.

(* no feature *)
Theorem table_of_perm_none n_bins p ys zs ws N :
  List.length ys = N -> List.length zs = N -> List.length ws = N -> Permutation p (seq 0 N) ->
  table_of MFNone n_bins (permute 0 p ys) (permute 0 p zs) (permute 0 p ws) = table_of MFNone n_bins ys zs ws.
Proof.
  intros Hy Hz Hw Hp. unfold table_of, plain_table. do 3 f_equal.
  rewrite (permute_map (fun _ : Q => @None nat) 0 p ys).
  apply marg_all_perm. apply (zip4_permute 0 0 None 0 p ys zs _ ws N); auto.
  rewrite map_length. exact Hy.
Qed.

(* ------------------------------------------------------------------ *)
(* the whole function, predict_function = None *)
Definition permute_mfeat (p : list nat) (ft : mfeat) : mfeat :=
  match ft with
  | MFNone => MFNone
  | MFNum feature m interior => MFNum (permute None p feature) m interior
  | MFStr kind names feature => MFStr kind names (permute None p feature)
  end.

Definition mfeat_ok (n : nat) (ft : mfeat) : Prop :=
  match ft with
  | MFNone => True
  | MFNum feature _ _ => List.length feature = n /\ Forall qcanon feature
  | MFStr _ names feature => List.length feature = n /\ names_ok names feature
  end.

Theorem table_of_perm ft n_bins p ys zs ws N :
  mfeat_ok N ft -> List.length ys = N -> List.length zs = N -> List.length ws = N -> Permutation p (seq 0 N) ->
  table_of (permute_mfeat p ft) n_bins (permute 0 p ys) (permute 0 p zs) (permute 0 p ws)
  = table_of ft n_bins ys zs ws.
Proof.
  intros Hft Hy Hz Hw Hp. destruct ft as [|feature m interior|kind names feature]; cbn [permute_mfeat mfeat_ok] in *.
  - apply (table_of_perm_none n_bins p ys zs ws N); auto.
  - destruct Hft. apply (table_of_perm_numeric_canon feature m interior n_bins p ys zs ws N); auto.
  - destruct Hft. apply (table_of_perm_string kind names feature n_bins p ys zs ws N); auto.
Qed.

Theorem compute_marginal_perm_full f rule ys models ft n_bins weights p :
  mfeat_ok (List.length ys) ft -> cols_ok (List.length ys) models weights ->
  Permutation p (seq 0 (List.length ys)) ->
  compute_marginal f rule (permute 0 p ys) (map (permute 0 p) models) (permute_mfeat p ft) n_bins
                   (option_map (permute 0 p) weights) None
  = compute_marginal f rule ys models ft n_bins weights None.
Proof.
  intros Hft [Hm Hw] Hp. unfold compute_marginal.
  assert (E : map (fun zs => table_of (permute_mfeat p ft) n_bins (permute 0 p ys) zs
                      match option_map (permute 0 p) weights with
                      | Some w => w
                      | None => map (fun _ => 1) (permute 0 p ys)
                      end) (map (permute 0 p) models)
            = map (fun zs => table_of ft n_bins ys zs
                      match weights with Some w => w | None => map (fun _ => 1) ys end) models).
  { rewrite map_map. apply map_ext_in. intros zs Hzs. rewrite Forall_forall in Hm.
    destruct weights as [w|]; cbn [option_map].
    - apply (table_of_perm ft n_bins p ys zs w (List.length ys)); auto.
    - rewrite (permute_map (fun _ : Q => 1) 0 p ys).
      rewrite (permute_default 1 0 p (map (fun _ : Q => 1) ys)).
      + apply (table_of_perm ft n_bins p ys zs _ (List.length ys)); auto. apply map_length.
      + intros i Hi. rewrite map_length. eapply perm_seq_bound; eauto. }
  rewrite E. reflexivity.
Qed.

(* hypotheses are satisfiable and the conclusion is about a non-trivial table *)
Example marg_perm_example :
  let ft := MFNum [Some 3; None; Some 1; Some (1 # 2); Some 1] Uniform [] in
  let p := [4; 3; 2; 1; 0]%nat in
  mfeat_ok 5 ft /\ Permutation p (seq 0 5) /\
  match table_of ft 3 [0; 1; 1; 0; 2] [1; 1; 0; 0; 1] [1; 2; 1; 1; 3] with TOk t => List.length t = 3%nat | _ => False end /\
  table_of (permute_mfeat p ft) 3 (permute 0 p [0; 1; 1; 0; 2]) (permute 0 p [1; 1; 0; 0; 1]) (permute 0 p [1; 2; 1; 1; 3])
  = table_of ft 3 [0; 1; 1; 0; 2] [1; 1; 0; 0; 1] [1; 2; 1; 1; 3].
Proof.
  cbv zeta. split; [split; [reflexivity| repeat constructor]|].
  split; [change [4; 3; 2; 1; 0]%nat with (rev (seq 0 5)); apply Permutation_sym, Permutation_rev|].
  split; vm_compute; reflexivity.
Qed.

Print Assumptions table_of_perm_numeric.
Print Assumptions table_of_perm_numeric_canon.
Print Assumptions table_of_perm_string.
Print Assumptions table_of_perm.
Print Assumptions compute_marginal_perm_full.
Print Assumptions str_table_dup_names_order_dependent.
