(* The weighted expectile as an instance of the generic GPAVA theory.
   expectile_Q a S (model/Functionals.v) is the unique root of the strictly
   increasing identification sum  t |-> sum_e V_expectile a e t.  No axioms. *)
From Coq Require Import QArith Qreduction Lqa Lia List Bool.
Import ListNotations.
Open Scope Q_scope.
From MD Require Import lib.QLists model.Functionals theory.GpavaMerge theory.GInst.

(* ---------- generic helpers ---------- *)

Lemma leb_true x y : x <= y -> leb x y = true.
Proof. intros H. unfold leb. apply Qle_bool_iff. exact H. Qed.

Lemma leb_false x y : y < x -> leb x y = false.
Proof.
  intros H. unfold leb. destruct (Qle_bool x y) eqn:E; [|reflexivity].
  apply Qle_bool_iff in E. lra.
Qed.

Lemma leb_spec x y : (x <= y /\ leb x y = true) \/ (y < x /\ leb x y = false).
Proof.
  destruct (Qlt_le_dec y x) as [H|H].
  - right. split; [exact H| apply leb_false; exact H].
  - left. split; [exact H| apply leb_true; exact H].
Qed.

Lemma leb_proper x y y' : y == y' -> leb x y = leb x y'.
Proof.
  intros E. destruct (leb_spec x y) as [[H ->]|[H ->]]; symmetry.
  - apply leb_true. lra.
  - apply leb_false. lra.
Qed.

Lemma exists_max_sat (P : Q -> bool) l :
  (exists x, In x l /\ P x = true) ->
  exists m, In m l /\ P m = true /\ forall x, In x l -> P x = true -> x <= m.
Proof.
  induction l as [|y l IH]; intros [x [Hin HP]]; [destruct Hin|].
  destruct (existsb P l) eqn:E.
  - apply existsb_exists in E. destruct (IH E) as [m [Hm [HPm Hmax]]].
    destruct (P y) eqn:Py.
    + destruct (Qlt_le_dec m y) as [Hlt|Hle].
      * exists y. split; [left; reflexivity|]. split; [exact Py|].
        intros z [Hz|Hz] HPz; [subst z; lra|]. specialize (Hmax z Hz HPz). lra.
      * exists m. split; [right; exact Hm|]. split; [exact HPm|].
        intros z [Hz|Hz] HPz; [subst z; lra|]. apply Hmax; assumption.
    + exists m. split; [right; exact Hm|]. split; [exact HPm|].
      intros z [Hz|Hz] HPz; [subst z; congruence|]. apply Hmax; assumption.
  - assert (Hno : forall z, In z l -> P z = true -> False).
    { intros z Hz HPz. assert (Ht : existsb P l = true) by (apply existsb_exists; exists z; auto).
      congruence. }
    destruct Hin as [Hxy|Hin]; [|exfalso; apply (Hno x Hin HP)]. subst x.
    exists y. split; [left; reflexivity|]. split; [exact HP|].
    intros z [Hz|Hz] HPz; [subst z; lra|]. exfalso. apply (Hno z Hz HPz).
Qed.

Lemma exists_min_sat (P : Q -> bool) l :
  (exists x, In x l /\ P x = true) ->
  exists m, In m l /\ P m = true /\ forall x, In x l -> P x = true -> m <= x.
Proof.
  induction l as [|y l IH]; intros [x [Hin HP]]; [destruct Hin|].
  destruct (existsb P l) eqn:E.
  - apply existsb_exists in E. destruct (IH E) as [m [Hm [HPm Hmin]]].
    destruct (P y) eqn:Py.
    + destruct (Qlt_le_dec y m) as [Hlt|Hle].
      * exists y. split; [left; reflexivity|]. split; [exact Py|].
        intros z [Hz|Hz] HPz; [subst z; lra|]. specialize (Hmin z Hz HPz). lra.
      * exists m. split; [right; exact Hm|]. split; [exact HPm|].
        intros z [Hz|Hz] HPz; [subst z; lra|]. apply Hmin; assumption.
    + exists m. split; [right; exact Hm|]. split; [exact HPm|].
      intros z [Hz|Hz] HPz; [subst z; congruence|]. apply Hmin; assumption.
  - assert (Hno : forall z, In z l -> P z = true -> False).
    { intros z Hz HPz. assert (Ht : existsb P l = true) by (apply existsb_exists; exists z; auto).
      congruence. }
    destruct Hin as [Hxy|Hin]; [|exfalso; apply (Hno x Hin HP)]. subst x.
    exists y. split; [left; reflexivity|]. split; [exact HP|].
    intros z [Hz|Hz] HPz; [subst z; lra|]. exfalso. apply (Hno z Hz HPz).
Qed.

Lemma lo_eq_hi (V : elt -> Q -> Q) S t : lo elt V S t = hi elt V S t.
Proof. induction S as [|e S IH]; simpl; [reflexivity| rewrite IH; reflexivity]. Qed.

Section Exp.
Variable a : Q.
Hypothesis Ha : 0 < a /\ a < 1.

Lemma kfac_pos y t : 0 < kfac a y t.
Proof. unfold kfac. destruct (leb y t); lra. Qed.

(* ---------- the identification function ---------- *)

Lemma V_expectile_strict_mono e t t' : posw e -> t < t' -> V_expectile a e t < V_expectile a e t'.
Proof.
  unfold posw, V_expectile, kfac. intros Hw Hlt.
  assert (Hin : 2 * (if leb (ey e) t then 1 - a else a) * (t - ey e)
              < 2 * (if leb (ey e) t' then 1 - a else a) * (t' - ey e)).
  { destruct (leb_spec (ey e) t) as [[H1 ->]|[H1 ->]];
    destruct (leb_spec (ey e) t') as [[H2 ->]|[H2 ->]]; nra. }
  nra.
Qed.

Lemma V_expectile_proper e t t' : t == t' -> V_expectile a e t == V_expectile a e t'.
Proof.
  intros E. unfold V_expectile, kfac. rewrite (leb_proper (ey e) t t' E). rewrite E. reflexivity.
Qed.

Lemma V_expectile_mono e t t' : posw e -> t < t' -> V_expectile a e t <= V_expectile a e t'.
Proof. intros Hw Hlt. apply Qlt_le_weak. apply V_expectile_strict_mono; assumption. Qed.

Lemma V_expectile_nonneg e t : posw e -> ey e <= t -> V_expectile a e t >= 0.
Proof.
  unfold posw, V_expectile, kfac. intros Hw Hle. rewrite (leb_true _ _ Hle).
  assert (Hin : 0 <= 2 * (1 - a) * (t - ey e)) by nra. nra.
Qed.

Lemma V_expectile_nonpos e t : posw e -> t <= ey e -> V_expectile a e t <= 0.
Proof.
  unfold posw, V_expectile, kfac. intros Hw Hle.
  assert (Hin : 2 * (if leb (ey e) t then 1 - a else a) * (t - ey e) <= 0).
  { destruct (leb (ey e) t); nra. }
  nra.
Qed.

Notation F := (hi elt (V_expectile a)).

Lemma F_proper S t t' : t == t' -> F S t == F S t'.
Proof. apply hi_proper. apply V_expectile_proper. Qed.

Lemma F_strict_mono S t t' : S <> [] -> Forall posw S -> t < t' ->
  hi elt (V_expectile a) S t < hi elt (V_expectile a) S t'.
Proof.
  intros Sn G Hlt. destruct S as [|e0 S0]; [congruence|]. clear Sn.
  revert e0 G. induction S0 as [|e1 S1 IH]; intros e0 G; inversion G as [|x l Hw G']; subst.
  - simpl. pose proof (V_expectile_strict_mono e0 t t' Hw Hlt) as H0. lra.
  - pose proof (V_expectile_strict_mono e0 t t' Hw Hlt) as H0.
    specialize (IH e1 G'). simpl in IH |- *. lra.
Qed.

Lemma F_root_unique S t t' : S <> [] -> Forall posw S -> F S t == 0 -> F S t' == 0 -> t == t'.
Proof.
  intros Sn G H1 H2.
  destruct (Qlt_le_dec t t') as [Hlt|Hle].
  - pose proof (F_strict_mono S t t' Sn G Hlt) as H. lra.
  - destruct (Qlt_le_dec t' t) as [Hlt'|Hle'].
    + pose proof (F_strict_mono S t' t Sn G Hlt') as H. lra.
    + lra.
Qed.

Lemma F_nonpos_below S m : Forall posw S -> (forall e, In e S -> m <= ey e) -> F S m <= 0.
Proof.
  intros G. induction G as [|e S Hw G IH]; intros Hm; simpl; [lra|].
  pose proof (V_expectile_nonpos e m Hw (Hm e (or_introl eq_refl))) as H0.
  assert (H1 : F S m <= 0) by (apply IH; intros e' He'; apply Hm; right; exact He').
  lra.
Qed.

(* ---------- the linear piece for a fixed split c ---------- *)

Fixpoint Nn (c : Q) (S : list elt) : Q :=
  match S with [] => 0 | e :: S' => ew e * kfac a (ey e) c * ey e + Nn c S' end.
Fixpoint Dn (c : Q) (S : list elt) : Q :=
  match S with [] => 0 | e :: S' => ew e * kfac a (ey e) c + Dn c S' end.
Fixpoint Fc (c : Q) (S : list elt) (t : Q) : Q :=
  match S with [] => 0 | e :: S' => ew e * (2 * kfac a (ey e) c * (t - ey e)) + Fc c S' t end.

Lemma num_eq c S :
  fold_right (fun e s => Qred (ew e * kfac a (ey e) c * ey e + s)) 0 S == Nn c S.
Proof. induction S as [|e S IH]; cbn [fold_right Nn Dn]; [reflexivity| rewrite Qred_correct, IH; reflexivity]. Qed.

Lemma den_eq c S :
  fold_right (fun e s => Qred (ew e * kfac a (ey e) c + s)) 0 S == Dn c S.
Proof. induction S as [|e S IH]; cbn [fold_right Nn Dn]; [reflexivity| rewrite Qred_correct, IH; reflexivity]. Qed.

Lemma ecand_eq c S : ecand a S c == Nn c S / Dn c S.
Proof. unfold ecand. rewrite Qred_correct, num_eq, den_eq. reflexivity. Qed.

Lemma Dn_nonneg c S : Forall posw S -> 0 <= Dn c S.
Proof.
  intros G. induction G as [|e S Hw G IH]; simpl; [lra|].
  unfold posw in Hw. pose proof (kfac_pos (ey e) c) as Hk. nra.
Qed.

Lemma Dn_pos c S : S <> [] -> Forall posw S -> 0 < Dn c S.
Proof.
  intros Sn G. destruct S as [|e S]; [congruence|]. inversion G as [|x l Hw G']; subst. simpl.
  pose proof (Dn_nonneg c S G') as H0. unfold posw in Hw.
  pose proof (kfac_pos (ey e) c) as Hk. nra.
Qed.

Lemma Fc_lin c S t : Fc c S t == 2 * (t * Dn c S - Nn c S).
Proof. induction S as [|e S IH]; simpl; [ring| rewrite IH; ring]. Qed.

Lemma Fc_ecand c S : S <> [] -> Forall posw S -> Fc c S (ecand a S c) == 0.
Proof.
  intros Sn G. pose proof (Dn_pos c S Sn G) as HD.
  rewrite Fc_lin, ecand_eq. field. lra.
Qed.

Lemma Fc_ext c S t :
  (forall e, In e S -> ew e * (2 * kfac a (ey e) c * (t - ey e)) == V_expectile a e t) ->
  Fc c S t == F S t.
Proof.
  induction S as [|e S IH]; intros H; simpl; [reflexivity|].
  rewrite (H e (or_introl eq_refl)), IH; [reflexivity|].
  intros e' He'. apply H. right. exact He'.
Qed.

Lemma Fc_same_split c S t :
  (forall e, In e S -> leb (ey e) c = leb (ey e) t) -> Fc c S t == F S t.
Proof.
  intros H. apply Fc_ext. intros e He. unfold V_expectile, kfac. rewrite (H e He). reflexivity.
Qed.

Lemma term_agree y w c c' : c < c' -> (y <= c \/ c' <= y) ->
  w * (2 * kfac a y c * (c' - y)) == w * (2 * kfac a y c' * (c' - y)).
Proof.
  intros Hc [H|H]; unfold kfac.
  - rewrite (leb_true y c), (leb_true y c') by lra. reflexivity.
  - rewrite (leb_false y c) by lra.
    destruct (leb_spec y c') as [[H1 E1]|[H1 E1]]; rewrite E1; [|reflexivity].
    assert (E : c' - y == 0) by lra. rewrite E. ring.
Qed.

(* ---------- (1) a valid candidate is a root ---------- *)

Lemma evalid_split S c t : evalid S c t = true -> forall e, In e S -> leb (ey e) c = leb (ey e) t.
Proof.
  unfold evalid. intros H e He. rewrite forallb_forall in H. apply eqb_prop. apply H. exact He.
Qed.

Lemma split_evalid S c t : (forall e, In e S -> leb (ey e) c = leb (ey e) t) -> evalid S c t = true.
Proof.
  unfold evalid. intros H. apply forallb_forall. intros e He. rewrite (H e He). apply eqb_reflx.
Qed.

Lemma valid_cand_root S c : S <> [] -> Forall posw S ->
  evalid S c (ecand a S c) = true -> F S (ecand a S c) == 0.
Proof.
  intros Sn G Hv. rewrite <- (Fc_same_split c S (ecand a S c) (evalid_split _ _ _ Hv)).
  apply Fc_ecand; assumption.
Qed.

(* ---------- (2) some data value is a valid candidate ---------- *)

Lemma exists_valid S : S <> [] -> Forall posw S ->
  exists c, In c (map ey S) /\ evalid S c (ecand a S c) = true.
Proof.
  intros Sn G.
  set (l := map ey S).
  assert (Hl : forall e, In e S -> In (ey e) l) by (intros e He; apply in_map; exact He).
  (* a least data value; the identification sum is non-positive there *)
  assert (Hex0 : exists x, In x l /\ (fun _ : Q => true) x = true).
  { destruct S as [|e0 S0]; [congruence|]. exists (ey e0). split; [left; reflexivity| reflexivity]. }
  destruct (exists_min_sat (fun _ => true) l Hex0) as [m [Hm [_ Hmin]]].
  assert (HFm : F S m <= 0).
  { apply F_nonpos_below; [exact G|]. intros e He. apply Hmin; [apply Hl; exact He| reflexivity]. }
  (* the largest data value with non-positive identification sum *)
  destruct (exists_max_sat (fun x => leb (F S x) 0) l) as [c [Hc [HPc Hmax]]].
  { exists m. split; [exact Hm| apply leb_true; exact HFm]. }
  assert (HFc : F S c <= 0) by (apply Qle_bool_iff; exact HPc).
  exists c. split; [exact Hc|].
  set (t := ecand a S c).
  pose proof (Dn_pos c S Sn G) as HD.
  assert (Ht0 : Fc c S t == 0) by (apply Fc_ecand; assumption).
  assert (Hcc : Fc c S c == F S c) by (apply Fc_same_split; intros; reflexivity).
  assert (Hct : c <= t).
  { destruct (Qlt_le_dec t c) as [Hlt|Hle]; [|exact Hle]. exfalso.
    rewrite Fc_lin in Ht0, Hcc. nra. }
  apply split_evalid. intros e He.
  destruct (Qlt_le_dec c (ey e)) as [Hgt|Hle].
  2:{ rewrite (leb_true _ _ Hle). symmetry. apply leb_true. lra. }
  (* the least data value above c *)
  destruct (exists_min_sat (fun x => negb (leb x c)) l) as [c' [Hc' [HPc' Hmin']]].
  { exists (ey e). split; [apply Hl; exact He| rewrite (leb_false _ _ Hgt); reflexivity]. }
  assert (Hcc' : c < c').
  { destruct (leb_spec c' c) as [[H1 E1]|[H1 E1]]; [rewrite E1 in HPc'; discriminate| exact H1]. }
  assert (HFc' : 0 < F S c').
  { destruct (Qlt_le_dec 0 (F S c')) as [Hp|Hn]; [exact Hp|]. exfalso.
    assert (Hle' : c' <= c) by (apply Hmax; [exact Hc'| apply leb_true; exact Hn]). lra. }
  assert (Heq : Fc c S c' == F S c').
  { apply Fc_ext. intros e0 He0. unfold V_expectile. apply term_agree; [exact Hcc'|].
    destruct (Qlt_le_dec c (ey e0)) as [Hg0|Hl0]; [right|left; exact Hl0].
    apply Hmin'; [apply Hl; exact He0| rewrite (leb_false _ _ Hg0); reflexivity]. }
  assert (Htc' : t < c').
  { destruct (Qlt_le_dec t c') as [Hlt|Hle]; [exact Hlt|]. exfalso.
    rewrite Fc_lin in Ht0, Heq. nra. }
  assert (Hey : c' <= ey e).
  { apply Hmin'; [apply Hl; exact He| rewrite (leb_false _ _ Hgt); reflexivity]. }
  rewrite (leb_false _ _ Hgt). symmetry. apply leb_false. lra.
Qed.

Lemma efirst_valid S cands :
  (exists c, In c cands /\ evalid S c (ecand a S c) = true) ->
  exists c, In c cands /\ evalid S c (ecand a S c) = true /\ efirst a S cands = ecand a S c.
Proof.
  induction cands as [|c0 cs IH]; intros [c [Hin Hv]]; [destruct Hin|].
  simpl. destruct (evalid S c0 (ecand a S c0)) eqn:E0.
  - exists c0. split; [left; reflexivity|]. split; [exact E0| reflexivity].
  - destruct Hin as [Heq|Hin]; [subst c0; congruence|].
    destruct IH as [c1 [Hin1 [Hv1 He1]]]; [exists c; split; assumption|].
    exists c1. split; [right; exact Hin1|]. split; [exact Hv1| exact He1].
Qed.

Theorem expectile_Q_root S : S <> [] -> Forall posw S ->
  hi elt (V_expectile a) S (expectile_Q a S) == 0.
Proof.
  intros Sn G. unfold expectile_Q.
  destruct (efirst_valid S (map ey S) (exists_valid S Sn G)) as [c [_ [Hv He]]].
  rewrite He. apply valid_cand_root; assumption.
Qed.

Lemma expectile_Q_single e : posw e -> expectile_Q a [e] == ey e.
Proof.
  intros Hw.
  assert (Sn : [e] <> []) by discriminate.
  assert (G : Forall posw [e]) by (constructor; [exact Hw| constructor]).
  apply (F_root_unique [e]); [exact Sn| exact G| apply expectile_Q_root; assumption|].
  simpl. unfold V_expectile. ring.
Qed.

(* ---------- (3) the instance ---------- *)

Lemma exp_V1 e t : posw e -> V_expectile a e t <= V_expectile a e t.
Proof. intros _. apply Qle_refl. Qed.

Lemma exp_V4 e t : posw e -> t <= ey e -> Neg false (V_expectile a e t).
Proof. intros Hw Hle. simpl. apply V_expectile_nonpos; assumption. Qed.

Lemma exp_T1 S : S <> [] -> Forall posw S -> hi elt (V_expectile a) S (expectile_Q a S) >= 0.
Proof. intros Sn G. pose proof (expectile_Q_root S Sn G) as H. lra. Qed.

Lemma exp_T2 S : S <> [] -> Forall posw S -> Neg false (lo elt (V_expectile a) S (expectile_Q a S)).
Proof. intros Sn G. simpl. rewrite lo_eq_hi. pose proof (expectile_Q_root S Sn G) as H. lra. Qed.

Lemma exp_T3 S t : S <> [] -> Forall posw S -> hi elt (V_expectile a) S t >= 0 -> expectile_Q a S <= t.
Proof.
  intros Sn G H. destruct (Qlt_le_dec t (expectile_Q a S)) as [Hlt|Hle]; [|exact Hle]. exfalso.
  pose proof (F_strict_mono S t (expectile_Q a S) Sn G Hlt) as H1.
  pose proof (expectile_Q_root S Sn G) as H2. lra.
Qed.

Lemma exp_T4 S t : S <> [] -> Forall posw S -> Neg false (lo elt (V_expectile a) S t) -> t <= expectile_Q a S.
Proof.
  intros Sn G H. simpl in H. rewrite lo_eq_hi in H.
  destruct (Qlt_le_dec (expectile_Q a S) t) as [Hlt|Hle]; [|exact Hle]. exfalso.
  pose proof (F_strict_mono S (expectile_Q a S) t Sn G Hlt) as H1.
  pose proof (expectile_Q_root S Sn G) as H2. lra.
Qed.

Definition expectile_inst : GInst :=
  {| g_elt := elt; g_yv := ey; g_good := posw;
     g_Vp := V_expectile a; g_Vm := V_expectile a; g_strict := false;
     g_T := expectile_Q a;
     g_V1 := exp_V1;
     g_V2 := V_expectile_mono;
     g_V3 := V_expectile_nonneg;
     g_V4 := exp_V4;
     g_Vp_proper := V_expectile_proper;
     g_Vm_proper := V_expectile_proper;
     g_T1 := exp_T1;
     g_T2 := exp_T2;
     g_T3 := exp_T3;
     g_T4 := exp_T4;
     g_T0 := expectile_Q_single |}.

End Exp.

(* ---------- (4) level one half is the mean ---------- *)

Lemma F_half S t : hi elt (V_expectile (1#2)) S t == t * wtot S - wsum S.
Proof.
  induction S as [|e S IH]; simpl; [ring|]. rewrite IH.
  unfold V_expectile, kfac. destruct (leb (ey e) t); ring.
Qed.

Theorem expectile_half_is_mean S : S <> [] -> Forall posw S -> expectile_Q (1#2) S == wmean S.
Proof.
  intros Sn G.
  assert (Hh : 0 < 1#2 /\ 1#2 < 1) by (split; reflexivity).
  pose proof (wtot_pos S Sn G) as HW.
  apply (F_root_unique (1#2) Hh S); [exact Sn| exact G| apply expectile_Q_root; assumption|].
  rewrite F_half, wmean_eq. field. lra.
Qed.

Print Assumptions expectile_inst.
Print Assumptions expectile_half_is_mean.
