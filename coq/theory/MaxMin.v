(* Generic theory of the generalised pool-adjacent-violators algorithm, part 3:
   the max-min (and min-max) formula from a block certificate, world Q.

   Data l = B_1 ++ ... ++ B_k, every block satisfies the block invariant
   [Inv B_j t_j] of theory/GpavaMerge.v and t_1 <= ... <= t_k.  Then for every
   position i (in block j) there is a saddle point:

     exists b0 >= i, forall a <= i,  T (l[a..b0]) <= t_j      (b0 = end of block j)
     exists a0 <= i, forall b >= i,  t_j <= T (l[a0..b])      (a0 = start of block j)

   hence   t_j == max_{a<=i} min_{b>=i} T (l[a..b]) == min_{b>=i} max_{a<=i} T (l[a..b]).

   Only V1, V2, properness and T3, T4 of the generic section are used.
   No axioms. *)
From Coq Require Import QArith Lqa Lia List Bool Sorted.
Import ListNotations.
Open Scope Q_scope.
From MD Require Import lib.QLists theory.GpavaMerge theory.GInst model.Gpava theory.GpavaCert.

(* ------------------------------------------------------------------ *)
(* Segments l[a..b], both ends inclusive, 0-based                      *)
(* ------------------------------------------------------------------ *)

Definition seg {A : Type} (l : list A) (a b : nat) : list A := firstn (S b - a) (skipn a l).

Lemma seg_skip_first (A : Type) (l : list A) a b : seg l a b = skipn a (firstn (S b) l).
Proof. unfold seg. symmetry. apply skipn_firstn_comm. Qed.

Lemma firstn_app_exact (A : Type) (P R : list A) : firstn (length P) (P ++ R) = P.
Proof. rewrite firstn_app, Nat.sub_diag, firstn_all, firstn_O, app_nil_r. reflexivity. Qed.

Lemma skipn_app_exact (A : Type) (P R : list A) : skipn (length P) (P ++ R) = R.
Proof. rewrite skipn_app, Nat.sub_diag, skipn_all, skipn_O. reflexivity. Qed.

Lemma seg_length (A : Type) (l : list A) a b : (a <= b < length l)%nat ->
  length (seg l a b) = (S b - a)%nat.
Proof. intros H. unfold seg. rewrite firstn_length, skipn_length. lia. Qed.

Lemma seg_nonempty (A : Type) (l : list A) a b : (a <= b < length l)%nat -> seg l a b <> [].
Proof.
  intros H E. pose proof (seg_length A l a b H) as HL. rewrite E in HL. cbn [length] in HL. lia.
Qed.

(* the k-th element of l[a..b] is l[a+k] *)
Lemma nth_firstn_lt (A : Type) (d : A) : forall n (l : list A) k, (k < n)%nat ->
  nth k (firstn n l) d = nth k l d.
Proof.
  induction n as [|n IH]; intros l k Hk; [lia|].
  destruct l as [|x l]; [reflexivity|]. destruct k as [|k]; [reflexivity|].
  cbn [firstn nth]. apply IH. lia.
Qed.

Lemma nth_skipn_add (A : Type) (d : A) : forall a (l : list A) k,
  nth k (skipn a l) d = nth (a + k) l d.
Proof.
  induction a as [|a IH]; intros l k; [reflexivity|].
  destruct l as [|x l]; [destruct k; reflexivity|]. cbn [skipn plus nth]. apply IH.
Qed.

Lemma seg_nth (A : Type) (d : A) (l : list A) a b k : (a + k <= b)%nat ->
  nth k (seg l a b) d = nth (a + k) l d.
Proof. intros H. unfold seg. rewrite nth_firstn_lt by lia. apply nth_skipn_add. Qed.

Lemma Forall_firstn (A : Type) (P : A -> Prop) n (l : list A) : Forall P l -> Forall P (firstn n l).
Proof.
  intros H. rewrite <- (firstn_skipn n l) in H. apply Forall_app in H. exact (proj1 H).
Qed.

Lemma Forall_skipn (A : Type) (P : A -> Prop) n (l : list A) : Forall P l -> Forall P (skipn n l).
Proof.
  intros H. rewrite <- (firstn_skipn n l) in H. apply Forall_app in H. exact (proj2 H).
Qed.

Lemma Forall_seg (A : Type) (P : A -> Prop) (l : list A) a b : Forall P l -> Forall P (seg l a b).
Proof. intros H. unfold seg. apply Forall_firstn, Forall_skipn. exact H. Qed.

(* reversal: (rev l)[a..b] = rev (l[n-1-b .. n-1-a]) *)
Lemma seg_rev (A : Type) (l : list A) a b : (a <= b < length l)%nat ->
  seg (rev l) a b = rev (seg l (length l - 1 - b) (length l - 1 - a)).
Proof.
  intros H. rewrite (seg_skip_first A (rev l)). rewrite firstn_rev, skipn_rev.
  rewrite skipn_length. unfold seg.
  replace (length l - (length l - S b) - a)%nat with (S (length l - 1 - a) - (length l - 1 - b))%nat by lia.
  replace (length l - S b)%nat with (length l - 1 - b)%nat by lia. reflexivity.
Qed.

(* ------------------------------------------------------------------ *)
(* Minimum / maximum of a finite list                                  *)
(* ------------------------------------------------------------------ *)

Definition lmin (xs : list Q) : Q := match xs with [] => 0 | x :: r => minQ x r end.
Definition lmax (xs : list Q) : Q := match xs with [] => 0 | x :: r => maxQ x r end.

Lemma minQ_spec : forall r x, (minQ x r <= x /\ forall y, In y r -> minQ x r <= y) /\
  (forall t, t <= x -> (forall y, In y r -> t <= y) -> t <= minQ x r).
Proof.
  induction r as [|y r IH]; intros x; cbn [minQ].
  - split; [split; [lra| intros y []]| intros t H _; exact H].
  - destruct (IH (if Qle_bool y x then y else x)) as [[H1 H2] H3].
    destruct (Qle_bool y x) eqn:Eb.
    + apply Qle_bool_iff in Eb. split.
      * split; [lra|]. intros z [<-|Hz]; [exact H1| exact (H2 z Hz)].
      * intros t Ht Hall. apply H3; [apply Hall; left; reflexivity|].
        intros z Hz. apply Hall. right. exact Hz.
    + assert (Hlt : x < y).
      { apply Qnot_le_lt. intros C. apply Qle_bool_iff in C. congruence. }
      split.
      * split; [exact H1|]. intros z [<-|Hz]; [lra| exact (H2 z Hz)].
      * intros t Ht Hall. apply H3; [exact Ht|].
        intros z Hz. apply Hall. right. exact Hz.
Qed.

Lemma maxQ_spec : forall r x, (x <= maxQ x r /\ forall y, In y r -> y <= maxQ x r) /\
  (forall t, x <= t -> (forall y, In y r -> y <= t) -> maxQ x r <= t).
Proof.
  induction r as [|y r IH]; intros x; cbn [maxQ].
  - split; [split; [lra| intros y []]| intros t H _; exact H].
  - destruct (IH (if Qle_bool x y then y else x)) as [[H1 H2] H3].
    destruct (Qle_bool x y) eqn:Eb.
    + apply Qle_bool_iff in Eb. split.
      * split; [lra|]. intros z [<-|Hz]; [exact H1| exact (H2 z Hz)].
      * intros t Ht Hall. apply H3; [apply Hall; left; reflexivity|].
        intros z Hz. apply Hall. right. exact Hz.
    + assert (Hlt : y < x).
      { apply Qnot_le_lt. intros C. apply Qle_bool_iff in C. congruence. }
      split.
      * split; [exact H1|]. intros z [<-|Hz]; [lra| exact (H2 z Hz)].
      * intros t Ht Hall. apply H3; [exact Ht|].
        intros z Hz. apply Hall. right. exact Hz.
Qed.

Lemma lmin_le xs x : In x xs -> lmin xs <= x.
Proof.
  destruct xs as [|x0 r]; [intros []|]. cbn [lmin].
  destruct (minQ_spec r x0) as [[H1 H2] _].
  intros [<-|H]; [exact H1| exact (H2 x H)].
Qed.

Lemma lmin_glb xs t : xs <> [] -> (forall x, In x xs -> t <= x) -> t <= lmin xs.
Proof.
  destruct xs as [|x0 r]; [congruence|]. intros _ H. cbn [lmin].
  destruct (minQ_spec r x0) as [_ H3].
  apply H3; [apply H; left; reflexivity| intros y Hy; apply H; right; exact Hy].
Qed.

Lemma lmax_ge xs x : In x xs -> x <= lmax xs.
Proof.
  destruct xs as [|x0 r]; [intros []|]. cbn [lmax].
  destruct (maxQ_spec r x0) as [[H1 H2] _].
  intros [<-|H]; [exact H1| exact (H2 x H)].
Qed.

Lemma lmax_lub xs t : xs <> [] -> (forall x, In x xs -> x <= t) -> lmax xs <= t.
Proof.
  destruct xs as [|x0 r]; [congruence|]. intros _ H. cbn [lmax].
  destruct (maxQ_spec r x0) as [_ H3].
  apply H3; [apply H; left; reflexivity| intros y Hy; apply H; right; exact Hy].
Qed.

(* max over a in 0..i of min over b in i..n-1, and the other way round *)
Definition maxmin {A : Type} (T : list A -> Q) (l : list A) (i : nat) : Q :=
  lmax (map (fun a => lmin (map (fun b => T (seg l a b)) (seq i (length l - i)))) (seq 0 (S i))).
Definition minmax {A : Type} (T : list A -> Q) (l : list A) (i : nat) : Q :=
  lmin (map (fun b => lmax (map (fun a => T (seg l a b)) (seq 0 (S i)))) (seq i (length l - i))).

Lemma maxmin_def (A : Type) (T : list A -> Q) l i : maxmin T l i =
  lmax (map (fun a => lmin (map (fun b => T (seg l a b)) (seq i (length l - i)))) (seq 0 (S i))).
Proof. reflexivity. Qed.
Lemma minmax_def (A : Type) (T : list A -> Q) l i : minmax T l i =
  lmin (map (fun b => lmax (map (fun a => T (seg l a b)) (seq 0 (S i)))) (seq i (length l - i))).
Proof. reflexivity. Qed.

(* lmax / lmin of a non-empty list: a member that bounds all members *)
Lemma lmax_spec xs : xs <> [] ->
  (exists x, In x xs /\ lmax xs == x) /\ forall x, In x xs -> x <= lmax xs.
Proof.
  intros Hn. split; [|intros x Hx; apply lmax_ge; exact Hx].
  destruct xs as [|x0 r]; [congruence|]. clear Hn. cbn [lmax].
  revert x0. induction r as [|y r IH]; intros x0; cbn [maxQ].
  - exists x0. split; [left; reflexivity| reflexivity].
  - destruct (IH (if Qle_bool x0 y then y else x0)) as (x & Hx & E).
    exists x. split; [|exact E].
    destruct Hx as [<-|Hx]; [|right; right; exact Hx].
    destruct (Qle_bool x0 y); [right; left; reflexivity| left; reflexivity].
Qed.

Lemma lmin_spec xs : xs <> [] ->
  (exists x, In x xs /\ lmin xs == x) /\ forall x, In x xs -> lmin xs <= x.
Proof.
  intros Hn. split; [|intros x Hx; apply lmin_le; exact Hx].
  destruct xs as [|x0 r]; [congruence|]. clear Hn. cbn [lmin].
  revert x0. induction r as [|y r IH]; intros x0; cbn [minQ].
  - exists x0. split; [left; reflexivity| reflexivity].
  - destruct (IH (if Qle_bool y x0 then y else x0)) as (x & Hx & E).
    exists x. split; [|exact E].
    destruct Hx as [<-|Hx]; [|right; right; exact Hx].
    destruct (Qle_bool y x0); [right; left; reflexivity| left; reflexivity].
Qed.

(* a saddle point gives both formulas *)
Definition saddle {A : Type} (T : list A -> Q) (l : list A) (i : nat) (t : Q) : Prop :=
  (exists b0, (i <= b0 < length l)%nat /\ forall a, (a <= i)%nat -> T (seg l a b0) <= t) /\
  (exists a0, (a0 <= i)%nat /\ forall b, (i <= b < length l)%nat -> t <= T (seg l a0 b)).

(* the form "max over a<=i of min over b>=i" spelled with quantifiers *)
Definition is_maxmin {A : Type} (T : list A -> Q) (l : list A) (i : nat) (t : Q) : Prop :=
  (forall a, (a <= i)%nat -> exists b, (i <= b < length l)%nat /\ T (seg l a b) <= t) /\
  (exists a, (a <= i)%nat /\ forall b, (i <= b < length l)%nat -> t <= T (seg l a b)).

Lemma saddle_is_maxmin (A : Type) (T : list A -> Q) l i t : saddle T l i t -> is_maxmin T l i t.
Proof.
  intros [(b0 & Hb0 & H1) H2]. split; [|exact H2].
  intros a Ha. exists b0. split; [exact Hb0| exact (H1 a Ha)].
Qed.

Lemma map_seq_nonempty (B : Type) (f : nat -> B) s n : (0 < n)%nat -> map f (seq s n) <> [].
Proof. intros H. destruct n as [|n]; [lia|]. discriminate. Qed.

Lemma is_maxmin_fold (A : Type) (T : list A -> Q) l i t : (i < length l)%nat ->
  is_maxmin T l i t -> t == maxmin T l i.
Proof.
  intros Hi [H1 (a0 & Ha0 & H2)]. unfold maxmin.
  apply Qle_antisym.
  - eapply Qle_trans; [|apply lmax_ge; apply in_map_iff; exists a0; split;
                         [reflexivity| apply in_seq; lia]].
    apply lmin_glb; [apply map_seq_nonempty; lia|].
    intros x Hx. apply in_map_iff in Hx. destruct Hx as (b & <- & Hb). apply in_seq in Hb.
    apply H2. lia.
  - apply lmax_lub; [apply map_seq_nonempty; lia|].
    intros x Hx. apply in_map_iff in Hx. destruct Hx as (a & <- & Ha). apply in_seq in Ha.
    destruct (H1 a ltac:(lia)) as (b & Hb & Hle).
    eapply Qle_trans; [|exact Hle].
    apply lmin_le. apply in_map_iff. exists b. split; [reflexivity| apply in_seq; lia].
Qed.

Lemma saddle_fold (A : Type) (T : list A -> Q) l i t : (i < length l)%nat ->
  saddle T l i t -> t == maxmin T l i /\ t == minmax T l i.
Proof.
  intros Hi HS. split; [apply is_maxmin_fold; [exact Hi| apply saddle_is_maxmin; exact HS]|].
  destruct HS as [(b0 & Hb0 & H1) (a0 & Ha0 & H2)]. unfold minmax.
  apply Qle_antisym.
  - apply lmin_glb; [apply map_seq_nonempty; lia|].
    intros x Hx. apply in_map_iff in Hx. destruct Hx as (b & <- & Hb). apply in_seq in Hb.
    eapply Qle_trans; [apply (H2 b); lia|].
    apply lmax_ge. apply in_map_iff. exists a0. split; [reflexivity| apply in_seq; lia].
  - eapply Qle_trans; [apply lmin_le; apply in_map_iff; exists b0; split;
                         [reflexivity| apply in_seq; lia]|].
    apply lmax_lub; [apply map_seq_nonempty; lia|].
    intros x Hx. apply in_map_iff in Hx. destruct Hx as (a & <- & Ha). apply in_seq in Ha.
    apply H1. lia.
Qed.

(* the mirrored notions for a non-increasing fit:
   t == min_{a<=i} max_{b>=i} T (l[a..b]) == max_{b>=i} min_{a<=i} T (l[a..b]) *)
Definition saddle_dec {A : Type} (T : list A -> Q) (l : list A) (i : nat) (t : Q) : Prop :=
  (exists a0, (a0 <= i)%nat /\ forall b, (i <= b < length l)%nat -> T (seg l a0 b) <= t) /\
  (exists b0, (i <= b0 < length l)%nat /\ forall a, (a <= i)%nat -> t <= T (seg l a b0)).

Definition minmax_dec {A : Type} (T : list A -> Q) (l : list A) (i : nat) : Q :=
  lmin (map (fun a => lmax (map (fun b => T (seg l a b)) (seq i (length l - i)))) (seq 0 (S i))).
Definition maxmin_dec {A : Type} (T : list A -> Q) (l : list A) (i : nat) : Q :=
  lmax (map (fun b => lmin (map (fun a => T (seg l a b)) (seq 0 (S i)))) (seq i (length l - i))).

Lemma saddle_dec_fold (A : Type) (T : list A -> Q) l i t : (i < length l)%nat ->
  saddle_dec T l i t -> t == minmax_dec T l i /\ t == maxmin_dec T l i.
Proof.
  intros Hi [(a0 & Ha0 & H1) (b0 & Hb0 & H2)]. split.
  - unfold minmax_dec. apply Qle_antisym.
    + apply lmin_glb; [apply map_seq_nonempty; lia|].
      intros x Hx. apply in_map_iff in Hx. destruct Hx as (a & <- & Ha). apply in_seq in Ha.
      eapply Qle_trans; [apply (H2 a); lia|].
      apply lmax_ge. apply in_map_iff. exists b0. split; [reflexivity| apply in_seq; lia].
    + eapply Qle_trans; [apply lmin_le; apply in_map_iff; exists a0; split;
                           [reflexivity| apply in_seq; lia]|].
      apply lmax_lub; [apply map_seq_nonempty; lia|].
      intros x Hx. apply in_map_iff in Hx. destruct Hx as (b & <- & Hb). apply in_seq in Hb.
      apply H1. lia.
  - unfold maxmin_dec. apply Qle_antisym.
    + eapply Qle_trans; [|apply lmax_ge; apply in_map_iff; exists b0; split;
                           [reflexivity| apply in_seq; lia]].
      apply lmin_glb; [apply map_seq_nonempty; lia|].
      intros x Hx. apply in_map_iff in Hx. destruct Hx as (a & <- & Ha). apply in_seq in Ha.
      apply H2. lia.
    + apply lmax_lub; [apply map_seq_nonempty; lia|].
      intros x Hx. apply in_map_iff in Hx. destruct Hx as (b & <- & Hb). apply in_seq in Hb.
      eapply Qle_trans; [|apply (H1 b); lia].
      apply lmin_le. apply in_map_iff. exists a0. split; [reflexivity| apply in_seq; lia].
Qed.

Lemma saddle_Qeq (A : Type) (T : list A -> Q) l i t t' : t == t' -> saddle T l i t -> saddle T l i t'.
Proof.
  intros E [(b0 & Hb0 & H1) (a0 & Ha0 & H2)]. split.
  - exists b0. split; [exact Hb0|]. intros a Ha. rewrite <- E. exact (H1 a Ha).
  - exists a0. split; [exact Ha0|]. intros b Hb. rewrite <- E. exact (H2 b Hb).
Qed.

Lemma saddle_dec_Qeq (A : Type) (T : list A -> Q) l i t t' : t == t' ->
  saddle_dec T l i t -> saddle_dec T l i t'.
Proof.
  intros E [(a0 & Ha0 & H1) (b0 & Hb0 & H2)]. split.
  - exists a0. split; [exact Ha0|]. intros b Hb. rewrite <- E. exact (H1 b Hb).
  - exists b0. split; [exact Hb0|]. intros a Ha. rewrite <- E. exact (H2 a Ha).
Qed.

(* a saddle point for the reversed data is a mirrored saddle point for the
   data, provided the functional does not depend on the order *)
Lemma saddle_rev (A : Type) (T : list A -> Q) l i t :
  (forall a b, (a <= b < length l)%nat -> T (rev (seg l a b)) == T (seg l a b)) ->
  (i < length l)%nat -> saddle T (rev l) (length l - 1 - i) t -> saddle_dec T l i t.
Proof.
  intros Hrev Hi [(b0 & Hb0 & H1) (a0 & Ha0 & H2)]. rewrite rev_length in *. split.
  - exists (length l - 1 - b0)%nat. split; [lia|]. intros b Hb.
    pose proof (H1 (length l - 1 - b)%nat ltac:(lia)) as H.
    rewrite seg_rev in H by lia.
    replace (length l - 1 - (length l - 1 - b))%nat with b in H by lia.
    rewrite Hrev in H by lia. exact H.
  - exists (length l - 1 - a0)%nat. split; [lia|]. intros a Ha.
    pose proof (H2 (length l - 1 - a)%nat ltac:(lia)) as H.
    rewrite seg_rev in H by lia.
    replace (length l - 1 - (length l - 1 - a))%nat with a in H by lia.
    rewrite Hrev in H by lia. exact H.
Qed.

(* ------------------------------------------------------------------ *)
(* The generic section                                                 *)
(* ------------------------------------------------------------------ *)

Section MaxMin.
Variable elt : Type.
Variable good : elt -> Prop.
Variables Vp Vm : elt -> Q -> Q.
Variable strict : bool.
Variable T : list elt -> Q.

Hypothesis V1 : forall e t, good e -> Vm e t <= Vp e t.
Hypothesis V2 : forall e t t', good e -> t < t' -> Vp e t <= Vm e t'.
Hypothesis Vp_proper : forall e t t', t == t' -> Vp e t == Vp e t'.
Hypothesis Vm_proper : forall e t t', t == t' -> Vm e t == Vm e t'.
Hypothesis T3 : forall S t, S <> [] -> Forall good S -> hi elt Vp S t >= 0 -> T S <= t.
Hypothesis T4 : forall S t, S <> [] -> Forall good S -> Neg strict (lo elt Vm S t) -> t <= T S.

Local Notation hi := (hi elt Vp).
Local Notation lo := (lo elt Vm).
Local Notation Neg := (Neg strict).
Local Notation Inv := (Inv elt good Vp Vm strict T).

Let hi_mono := hi_mono elt good Vp Vm V1 V2 Vp_proper.
Let lo_mono := lo_mono elt good Vp Vm V1 V2 Vm_proper.

(* blocks in data order *)
Definition bdat (bs : list (blk elt)) : list elt := concat (map bel bs).
Definition bval (bs : list (blk elt)) : list Q :=
  flat_map (fun b => repeat (bv b) (length (bel b))) bs.

Definition cert (bs : list (blk elt)) : Prop :=
  Forall (fun b => Inv (bel b) (bv b)) bs /\
  StronglySorted (fun b1 b2 => bv b1 <= bv b2) bs.

Lemma bdat_cons b bs : bdat (b :: bs) = bel b ++ bdat bs.
Proof. reflexivity. Qed.

Lemma bdat_app bs1 bs2 : bdat (bs1 ++ bs2) = bdat bs1 ++ bdat bs2.
Proof. unfold bdat. rewrite map_app, concat_app. reflexivity. Qed.

Lemma bval_cons b bs : bval (b :: bs) = repeat (bv b) (length (bel b)) ++ bval bs.
Proof. reflexivity. Qed.

Lemma bdat_good bs : Forall (fun b => Inv (bel b) (bv b)) bs -> Forall good (bdat bs).
Proof.
  intros H. induction H as [|b bs Hb H IH]; [constructor|].
  rewrite bdat_cons. apply Forall_app. split; [|exact IH].
  destruct Hb as (_ & G & _). exact G.
Qed.

(* every suffix of a run of certified blocks whose values are all <= t has a
   non-negative upper identification sum at t *)
Lemma suffix_hi t : forall bs, Forall (fun b => Inv (bel b) (bv b)) bs ->
  Forall (fun b => bv b <= t) bs ->
  forall p s, bdat bs = p ++ s -> hi s t >= 0.
Proof.
  induction bs as [|b bs IH]; intros HI HL p s E.
  - symmetry in E. apply app_eq_nil in E. destruct E as [_ ->]. simpl. lra.
  - pose proof (Forall_inv HI) as Hb. pose proof (Forall_inv_tail HI) as HI'.
    pose proof (Forall_inv HL) as Lb. pose proof (Forall_inv_tail HL) as HL'.
    cbv beta in Hb, Lb.
    rewrite bdat_cons in E.
    destruct (split_app _ _ _ _ _ E) as [[m [EB Es]]|[m [Ep ER]]].
    + subst s. rewrite hi_app.
      assert (H2 : hi (bdat bs) t >= 0) by (apply (IH HI' HL' [] (bdat bs)); reflexivity).
      destruct m as [|x m]; [simpl; lra|].
      destruct Hb as (_ & GB & _ & SB & _).
      assert (H1 : hi (x :: m) (bv b) >= 0) by (apply (SB p (x :: m)); [exact EB| discriminate]).
      assert (Gm : Forall good (x :: m)).
      { rewrite EB in GB. apply Forall_app in GB. exact (proj2 GB). }
      pose proof (hi_mono (x :: m) (bv b) t Gm Lb) as H3. lra.
    + exact (IH HI' HL' m s ER).
Qed.

(* every non-empty prefix of a run of certified blocks whose values are all
   >= t has a negative lower identification sum at t *)
Lemma prefix_lo t : forall bs, Forall (fun b => Inv (bel b) (bv b)) bs ->
  Forall (fun b => t <= bv b) bs ->
  forall p s, bdat bs = p ++ s -> p <> [] -> Neg (lo p t).
Proof.
  induction bs as [|b bs IH]; intros HI HL p s E pn.
  - symmetry in E. apply app_eq_nil in E. destruct E as [-> _]. congruence.
  - pose proof (Forall_inv HI) as Hb. pose proof (Forall_inv_tail HI) as HI'.
    pose proof (Forall_inv HL) as Lb. pose proof (Forall_inv_tail HL) as HL'.
    cbv beta in Hb, Lb.
    rewrite bdat_cons in E.
    destruct Hb as (Bn & GB & _ & _ & PB).
    destruct (split_app _ _ _ _ _ E) as [[m [EB Es]]|[m [Ep ER]]].
    + assert (H1 : Neg (lo p (bv b))) by (apply (PB p m); [exact EB| exact pn]).
      assert (Gp : Forall good p).
      { rewrite EB in GB. apply Forall_app in GB. exact (proj1 GB). }
      eapply Neg_le; [exact H1| apply lo_mono; assumption].
    + assert (H1 : Neg (lo (bel b) t)).
      { eapply Neg_le; [apply (PB (bel b) []); [symmetry; apply app_nil_r| exact Bn]|].
        apply lo_mono; assumption. }
      subst p. eapply Neg_proper; [symmetry; apply lo_app|].
      destruct m as [|x m].
      * eapply Neg_proper; [|exact H1]. simpl. ring.
      * apply Neg_add; [exact H1|].
        apply (IH HI' HL' (x :: m) s ER). discriminate.
Qed.

Lemma SS_app_mid (A : Type) (R : A -> A -> Prop) : forall (l1 : list A) x l2,
  StronglySorted R (l1 ++ x :: l2) -> Forall (fun y => R y x) l1 /\ Forall (R x) l2.
Proof.
  induction l1 as [|y l1 IH]; intros x l2 HS.
  - simpl in HS. destruct (StronglySorted_inv HS) as [_ H]. split; [constructor| exact H].
  - simpl in HS. destruct (StronglySorted_inv HS) as [HS' Hy].
    destruct (IH x l2 HS') as [H1 H2]. split; [|exact H2].
    constructor; [|exact H1].
    rewrite Forall_forall in Hy. apply Hy. apply in_or_app. right. left. reflexivity.
Qed.

(* the saddle point at one block, without indices *)
Theorem block_saddle bs1 b bs2 : cert (bs1 ++ b :: bs2) ->
  (forall p s, bdat bs1 ++ bel b = p ++ s -> s <> [] -> T s <= bv b) /\
  (forall p s, bel b ++ bdat bs2 = p ++ s -> p <> [] -> bv b <= T p).
Proof.
  intros [HI HS].
  destruct (SS_app_mid _ _ _ _ _ HS) as [HL HR].
  apply Forall_app in HI. destruct HI as [HI1 HI2].
  pose proof (Forall_inv HI2) as Hb. pose proof (Forall_inv_tail HI2) as HI3.
  cbv beta in Hb.
  split.
  - intros p s E sn.
    assert (G : Forall good (bdat bs1 ++ bel b)).
    { apply Forall_app. split; [apply bdat_good; exact HI1|]. destruct Hb as (_ & G & _). exact G. }
    apply T3; [exact sn| rewrite E in G; apply Forall_app in G; exact (proj2 G)|].
    apply (suffix_hi (bv b) (bs1 ++ [b])) with (p := p).
    + apply Forall_app. split; [exact HI1| constructor; [exact Hb| constructor]].
    + apply Forall_app. split; [exact HL| constructor; [apply Qle_refl| constructor]].
    + rewrite bdat_app. unfold bdat at 2. simpl. rewrite app_nil_r. exact E.
  - intros p s E pn.
    assert (G : Forall good (bel b ++ bdat bs2)).
    { apply Forall_app. split; [destruct Hb as (_ & G & _); exact G| apply bdat_good; exact HI3]. }
    apply T4; [exact pn| rewrite E in G; apply Forall_app in G; exact (proj1 G)|].
    apply (prefix_lo (bv b) (b :: bs2)) with (s := s).
    + exact HI2.
    + constructor; [apply Qle_refl| exact HR].
    + rewrite bdat_cons. exact E.
    + exact pn.
Qed.

(* the block a position belongs to *)
Lemma locate : forall bs i, (i < length (bdat bs))%nat ->
  exists bs1 b bs2, bs = bs1 ++ b :: bs2 /\
    (length (bdat bs1) <= i < length (bdat bs1) + length (bel b))%nat /\
    nth i (bval bs) 0 = bv b.
Proof.
  induction bs as [|b bs IH]; intros i Hi; [simpl in Hi; lia|].
  rewrite bdat_cons, app_length in Hi.
  destruct (Nat.lt_ge_cases i (length (bel b))) as [Hlt|Hge].
  - exists [], b, bs. split; [reflexivity|]. split; [simpl; lia|].
    rewrite bval_cons, app_nth1 by (rewrite repeat_length; exact Hlt).
    rewrite (nth_indep _ 0 (bv b)) by (rewrite repeat_length; exact Hlt).
    apply nth_repeat.
  - destruct (IH (i - length (bel b))%nat ltac:(lia)) as (bs1 & b' & bs2 & E & Hr & Hn).
    exists (b :: bs1), b', bs2. split; [rewrite E; reflexivity|]. split.
    + rewrite bdat_cons, app_length. lia.
    + rewrite bval_cons, app_nth2 by (rewrite repeat_length; exact Hge).
      rewrite repeat_length. exact Hn.
Qed.

(* the main theorem, with indices *)
Theorem cert_saddle bs : cert bs -> forall i, (i < length (bdat bs))%nat ->
  saddle T (bdat bs) i (nth i (bval bs) 0).
Proof.
  intros HC i Hi.
  destruct (locate bs i Hi) as (bs1 & b & bs2 & E & Hr & Hn).
  rewrite Hn. subst bs.
  destruct (block_saddle bs1 b bs2 HC) as [HU HD].
  assert (El : bdat (bs1 ++ b :: bs2) = (bdat bs1 ++ bel b) ++ bdat bs2).
  { rewrite bdat_app, bdat_cons, app_assoc. reflexivity. }
  assert (El' : bdat (bs1 ++ b :: bs2) = bdat bs1 ++ (bel b ++ bdat bs2)).
  { rewrite bdat_app, bdat_cons. reflexivity. }
  set (l := bdat (bs1 ++ b :: bs2)) in *.
  assert (HLl : length l = (length (bdat bs1) + length (bel b) + length (bdat bs2))%nat).
  { rewrite El, !app_length. reflexivity. }
  split.
  - exists (length (bdat bs1) + length (bel b) - 1)%nat. split; [lia|].
    intros a Ha.
    rewrite seg_skip_first.
    replace (S (length (bdat bs1) + length (bel b) - 1)) with (length (bdat bs1 ++ bel b))
      by (rewrite app_length; lia).
    rewrite El, firstn_app_exact.
    apply (HU (firstn a (bdat bs1 ++ bel b))).
    + symmetry. apply firstn_skipn.
    + intros C. pose proof (skipn_length a (bdat bs1 ++ bel b)) as HL.
      rewrite C, app_length in HL. cbn [length] in HL. lia.
  - exists (length (bdat bs1)). split; [lia|].
    intros c Hc. unfold seg. rewrite El', skipn_app_exact.
    apply (HD _ (skipn (S c - length (bdat bs1)) (bel b ++ bdat bs2))).
    + symmetry. apply firstn_skipn.
    + intros C. pose proof (firstn_length (S c - length (bdat bs1)) (bel b ++ bdat bs2)) as HL.
      rewrite C, app_length in HL. cbn [length] in HL. lia.
Qed.

Corollary cert_maxmin bs : cert bs -> forall i, (i < length (bdat bs))%nat ->
  is_maxmin T (bdat bs) i (nth i (bval bs) 0).
Proof. intros HC i Hi. apply saddle_is_maxmin, cert_saddle; assumption. Qed.

Corollary cert_maxmin_fold bs : cert bs -> forall i, (i < length (bdat bs))%nat ->
  nth i (bval bs) 0 == maxmin T (bdat bs) i /\ nth i (bval bs) 0 == minmax T (bdat bs) i.
Proof. intros HC i Hi. apply saddle_fold; [exact Hi| apply cert_saddle; assumption]. Qed.

(* the functional does not depend on the order of the block (needs T1 as well) *)
Hypothesis T1 : forall S, S <> [] -> Forall good S -> hi S (T S) >= 0.

Lemma hi_rev S t : hi (rev S) t == hi S t.
Proof.
  induction S as [|e S IH]; [reflexivity|].
  cbn [rev]. rewrite hi_app, IH. simpl. ring.
Qed.

Lemma T_rev S : S <> [] -> Forall good S -> T (rev S) == T S.
Proof.
  intros Sn G.
  assert (Rn : rev S <> []).
  { intros E. apply Sn. rewrite <- (rev_involutive S), E. reflexivity. }
  assert (GR : Forall good (rev S)) by (apply Forall_rev; exact G).
  apply Qle_antisym.
  - apply T3; [exact Rn| exact GR|]. rewrite hi_rev. apply T1; assumption.
  - apply T3; [exact Sn| exact G|]. rewrite <- hi_rev. apply T1; assumption.
Qed.

End MaxMin.

(* ------------------------------------------------------------------ *)
(* For the final stack of the model loop of an arbitrary instance      *)
(* ------------------------------------------------------------------ *)

Section Stack.
Variable I : GInst.
Notation E := (g_elt I).

Lemma stack_cert stk : stack_ok I stk ->
  cert E (g_good I) (g_Vp I) (g_Vm I) (g_strict I) (g_T I) (rev stk).
Proof.
  intros Hok. split.
  - destruct Hok as [HF _]. apply Forall_rev. exact HF.
  - pose proof (blocks_increasing I stk Hok) as HS.
    clear Hok. induction HS as [|b bs HS IH Hb]; constructor; [exact IH|].
    eapply Forall_impl; [|exact Hb]. intros b2 H. cbv beta in H. apply Qlt_le_weak. exact H.
Qed.

Theorem stack_saddle stk : stack_ok I stk -> forall i, (i < length (flat E stk))%nat ->
  saddle (g_T I) (flat E stk) i (nth i (expand E stk) 0).
Proof.
  intros Hok i Hi.
  exact (cert_saddle E (g_good I) (g_Vp I) (g_Vm I) (g_strict I) (g_T I)
           (g_V1 I) (g_V2 I) (g_Vp_proper I) (g_Vm_proper I) (g_T3 I) (g_T4 I)
           (rev stk) (stack_cert stk Hok) i Hi).
Qed.

Theorem stack_maxmin stk : stack_ok I stk -> forall i, (i < length (flat E stk))%nat ->
  is_maxmin (g_T I) (flat E stk) i (nth i (expand E stk) 0).
Proof. intros Hok i Hi. apply saddle_is_maxmin, stack_saddle; assumption. Qed.

Theorem stack_maxmin_fold stk : stack_ok I stk -> forall i, (i < length (flat E stk))%nat ->
  nth i (expand E stk) 0 == maxmin (g_T I) (flat E stk) i /\
  nth i (expand E stk) 0 == minmax (g_T I) (flat E stk) i.
Proof. intros Hok i Hi. apply saddle_fold; [exact Hi| apply stack_saddle; assumption]. Qed.

Lemma I_T_rev S : S <> [] -> Forall (g_good I) S -> g_T I (rev S) == g_T I S.
Proof.
  exact (T_rev E (g_good I) (g_Vp I) (g_T I) (g_T3 I) (g_T1 I) S).
Qed.

Lemma stack_good stk : stack_ok I stk -> Forall (g_good I) (flat E stk).
Proof.
  intros Hok.
  exact (bdat_good E (g_good I) (g_Vp I) (g_Vm I) (g_strict I) (g_T I) (rev stk)
           (proj1 (stack_cert stk Hok))).
Qed.

(* a certified stack over the reversed data: mirrored saddle point for the
   reversed expansion (this is how a non-increasing fit is computed) *)
Theorem stack_saddle_dec stk l : stack_ok I stk -> flat E stk = rev l ->
  forall i, (i < length l)%nat ->
  saddle_dec (g_T I) l i (nth (length l - 1 - i) (expand E stk) 0).
Proof.
  intros Hok Hflat i Hi.
  assert (Gl : Forall (g_good I) l).
  { pose proof (stack_good stk Hok) as G. rewrite Hflat in G.
    apply Forall_rev in G. rewrite rev_involutive in G. exact G. }
  apply saddle_rev; [|exact Hi|].
  - intros a b Hab. apply I_T_rev; [apply seg_nonempty; exact Hab| apply Forall_seg; exact Gl].
  - rewrite <- Hflat. apply stack_saddle; [exact Hok|]. rewrite Hflat, rev_length. lia.
Qed.

(* the output of the model loop *)
Theorem gpava_maxmin l stk : Forall (g_good I) l ->
  gpava_blocks E (g_yv I) (g_T I) l = Some stk ->
  forall i, (i < length l)%nat ->
    saddle (g_T I) l i (nth i (expand E stk) 0) /\
    is_maxmin (g_T I) l i (nth i (expand E stk) 0) /\
    nth i (expand E stk) 0 == maxmin (g_T I) l i /\
    nth i (expand E stk) 0 == minmax (g_T I) l i.
Proof.
  intros Gl HL i Hi. unfold gpava_blocks in HL.
  destruct (loop_cert I _ _ _ _ (stack_ok_nil I) Gl HL) as [Hok Hflat].
  rewrite flat_nil in Hflat. simpl in Hflat. rewrite <- Hflat in Hi |- *.
  split; [apply stack_saddle; assumption|].
  split; [apply stack_maxmin; assumption|].
  apply stack_maxmin_fold; assumption.
Qed.

End Stack.

Print Assumptions cert_saddle.
Print Assumptions cert_maxmin_fold.
Print Assumptions gpava_maxmin.
Print Assumptions I_T_rev.
