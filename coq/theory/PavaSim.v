(* Simulation: the running-sums model of Busing's PAVA (model/Pava.v) computes
   the same blocks as the generic stack model (model/Gpava.v) instantiated with
   the weighted mean, up to [Qeq] on the block values.  No axioms. *)
From Coq Require Import QArith Qreduction Lqa Lia List Bool Sorted.
Import ListNotations. Open Scope Q_scope.
From MD Require Import lib.QLists model.Functionals model.Gpava model.Pava theory.GpavaMerge theory.GInst theory.GpavaCert theory.InstMean.

(* a pava block summarises a generic block *)
Definition brel (p : pblk) (b : blk elt) : Prop :=
  pv p == bv b /\ pw p == wtot (bel b) /\ pn p = length (bel b) /\ bv b == wmean (bel b) /\ bel b <> [] /\ Forall posw (bel b).
Definition srel (ps : list pblk) (stk : list (blk elt)) : Prop := Forall2 brel ps stk.

(* the running sums (sb, wb, n) summarise the current block (B, v) *)
Definition sumrel (sb wb : Q) (n : nat) (B : list elt) (v : Q) : Prop :=
  sb == wsum B /\ wb == wtot B /\ n = length B /\ v == wmean B /\ B <> [] /\ Forall posw B.

Notation gup := (up elt ey wmean).
Notation gdown := (down elt wmean).
Notation gstep := (step elt ey wmean).
Notation gloop := (loop elt ey wmean).
Notation Pup := (pup pgeb l_wadd l_sadd qdiv).
Notation Pdown := (pdown pgeb l_wadd l_sadd qdiv).
Notation Pstep := (pstep pgeb pgeb pgeb l_sb0 l_wadd l_sadd qdiv).
Notation Ploop := (ploop pgeb pgeb pgeb l_sb0 l_wadd l_sadd qdiv).

(* ---------- unfolding lemmas ---------- *)

Lemma gup_nil B v : gup B v [] = (B, v, []).
Proof. reflexivity. Qed.
Lemma gup_cons B v e rest' :
  gup B v (e :: rest') =
  if geb v (ey e) then gup (B ++ [e]) (wmean (B ++ [e])) rest' else (B, v, e :: rest').
Proof. reflexivity. Qed.
Lemma gdown_nil B v : gdown B v [] = (B, v, []).
Proof. reflexivity. Qed.
Lemma gdown_cons B v b stk' :
  gdown B v (b :: stk') =
  if geb (bv b) v then gdown (bel b ++ B) (wmean (bel b ++ B)) stk' else (B, v, b :: stk').
Proof. reflexivity. Qed.
Lemma gstep_nil e rest : gstep [] e rest = ([mkblk [e] (ey e)], rest).
Proof. reflexivity. Qed.
Lemma gstep_cons p stk' e rest :
  gstep (p :: stk') e rest =
  if geb (bv p) (ey e) then
    let '(B1, v1, rest1) := gup (bel p ++ [e]) (wmean (bel p ++ [e])) rest in
    let '(B2, v2, stk2) := gdown B1 v1 stk' in
    (mkblk B2 v2 :: stk2, rest1)
  else (mkblk [e] (ey e) :: p :: stk', rest).
Proof. reflexivity. Qed.
Lemma gloop_nil fuel stk : gloop fuel stk [] = Some stk.
Proof. destruct fuel; reflexivity. Qed.
Lemma gloop_cons_O stk e rest' : gloop O stk (e :: rest') = None.
Proof. reflexivity. Qed.
Lemma gloop_cons_S fuel stk e rest' :
  gloop (S fuel) stk (e :: rest') =
  let '(stk1, rest1) := gstep stk e rest' in gloop fuel stk1 rest1.
Proof. reflexivity. Qed.

Lemma Pup_nil sb wb n : Pup sb wb n [] = (sb, wb, n, []).
Proof. reflexivity. Qed.
Lemma Pup_cons sb wb n e rest' :
  Pup sb wb n (e :: rest') =
  if pgeb (qdiv sb wb) (ey e)
  then Pup (l_sadd sb (ew e) (ey e)) (l_wadd wb (ew e)) (S n) rest'
  else (sb, wb, n, e :: rest').
Proof. reflexivity. Qed.
Lemma Pdown_nil sb wb n : Pdown sb wb n [] = (sb, wb, n, []).
Proof. reflexivity. Qed.
Lemma Pdown_cons sb wb n b stk' :
  Pdown sb wb n (b :: stk') =
  if pgeb (pv b) (qdiv sb wb)
  then Pdown (l_sadd sb (pw b) (pv b)) (l_wadd wb (pw b)) (n + pn b)%nat stk'
  else (sb, wb, n, b :: stk').
Proof. reflexivity. Qed.
Lemma Pstep_nil e rest : Pstep [] e rest = ([mkp (ey e) (ew e) 1], rest).
Proof. reflexivity. Qed.
Lemma Pstep_cons p stk' e rest :
  Pstep (p :: stk') e rest =
  if pgeb (pv p) (ey e) then
    let '(sb1, wb1, n1, rest1) :=
      Pup (l_sb0 (pw p) (pv p) (ew e) (ey e)) (l_wadd (ew e) (pw p)) (S (pn p)) rest in
    let '(sb2, wb2, n2, stk2) := Pdown sb1 wb1 n1 stk' in
    (mkp (qdiv sb2 wb2) wb2 n2 :: stk2, rest1)
  else (mkp (ey e) (ew e) 1 :: p :: stk', rest).
Proof. reflexivity. Qed.
Lemma Ploop_nil fuel stk : Ploop fuel stk [] = Some stk.
Proof. destruct fuel; reflexivity. Qed.
Lemma Ploop_cons_O stk e rest' : Ploop O stk (e :: rest') = None.
Proof. reflexivity. Qed.
Lemma Ploop_cons_S fuel stk e rest' :
  Ploop (S fuel) stk (e :: rest') =
  let '(stk1, rest1) := Pstep stk e rest' in Ploop fuel stk1 rest1.
Proof. reflexivity. Qed.

Lemma wsum_single e : wsum [e] = ew e * ey e + 0.
Proof. reflexivity. Qed.
Lemma wtot_single e : wtot [e] = ew e + 0.
Proof. reflexivity. Qed.

(* ---------- arithmetic helpers ---------- *)

Lemma Qle_bool_proper a a' b b' : a == a' -> b == b' -> Qle_bool a b = Qle_bool a' b'.
Proof.
  intros Ea Eb.
  destruct (Qle_bool a b) eqn:H1; destruct (Qle_bool a' b') eqn:H2; try reflexivity.
  - apply Qle_bool_iff in H1. rewrite Ea, Eb in H1. apply Qle_bool_iff in H1. congruence.
  - apply Qle_bool_iff in H2. rewrite <- Ea, <- Eb in H2. apply Qle_bool_iff in H2. congruence.
Qed.

Lemma sumrel_div sb wb n B v : sumrel sb wb n B v -> qdiv sb wb == v.
Proof.
  intros (Hs & Hw & _ & Hv & _ & _). unfold qdiv.
  rewrite Qred_correct, Hs, Hw, Hv, wmean_eq. reflexivity.
Qed.

Lemma brel_wsum p b : brel p b -> pw p * pv p == wsum (bel b).
Proof.
  intros (Hv & Hw & _ & Hm & Hn & Hp).
  rewrite Hv, Hw, Hm, <- (wmean_times_wtot (bel b) Hn Hp). ring.
Qed.

Lemma brel_single e : posw e -> brel (mkp (ey e) (ew e) 1) (mkblk [e] (ey e)).
Proof.
  intros He. unfold brel. cbn [pv pw pn bv bel].
  split; [reflexivity|]. split; [rewrite wtot_single; ring|].
  split; [reflexivity|]. split; [symmetry; apply mean_T0; exact He|].
  split; [discriminate| constructor; [exact He| constructor]].
Qed.

Lemma sumrel_snoc sb wb n B v e :
  sumrel sb wb n B v -> posw e ->
  sumrel (l_sadd sb (ew e) (ey e)) (l_wadd wb (ew e)) (S n) (B ++ [e]) (wmean (B ++ [e])).
Proof.
  intros (Hs & Hw & Hn & Hv & Hne & Hp) He. unfold sumrel, l_sadd, l_wadd.
  split; [rewrite Qred_correct, wsum_app, wsum_single, Hs; ring|].
  split; [rewrite Qred_correct, wtot_app, wtot_single, Hw; ring|].
  split; [rewrite app_length; cbn [length]; lia|].
  split; [reflexivity|].
  split.
  - intros H. apply app_eq_nil in H. destruct H as [_ H]. discriminate H.
  - apply Forall_app. split; [exact Hp| constructor; [exact He| constructor]].
Qed.

Lemma sumrel_init p b e :
  brel p b -> posw e ->
  sumrel (l_sb0 (pw p) (pv p) (ew e) (ey e)) (l_wadd (ew e) (pw p)) (S (pn p))
         (bel b ++ [e]) (wmean (bel b ++ [e])).
Proof.
  intros Hb He. pose proof (brel_wsum p b Hb) as Hs.
  destruct Hb as (Hv & Hw & Hn & Hm & Hne & Hp). unfold sumrel, l_sb0, l_wadd.
  split; [rewrite Qred_correct, wsum_app, wsum_single, Hs; ring|].
  split; [rewrite Qred_correct, wtot_app, wtot_single, Hw; ring|].
  split; [rewrite app_length; cbn [length]; lia|].
  split; [reflexivity|].
  split.
  - intros H. apply app_eq_nil in H. destruct H as [_ H]. discriminate H.
  - apply Forall_app. split; [exact Hp| constructor; [exact He| constructor]].
Qed.

Lemma sumrel_prepend sb wb n B v p b :
  sumrel sb wb n B v -> brel p b ->
  sumrel (l_sadd sb (pw p) (pv p)) (l_wadd wb (pw p)) (n + pn p)%nat
         (bel b ++ B) (wmean (bel b ++ B)).
Proof.
  intros (Hs & Hw & Hn & Hv & Hne & Hp) Hb. pose proof (brel_wsum p b Hb) as Hbs.
  destruct Hb as (Hbv & Hbw & Hbn & Hbm & Hbne & Hbp). unfold sumrel, l_sadd, l_wadd.
  split; [rewrite Qred_correct, wsum_app, Hs, Hbs; ring|].
  split; [rewrite Qred_correct, wtot_app, Hw, Hbw; ring|].
  split; [rewrite app_length; lia|].
  split; [reflexivity|].
  split.
  - intros H. apply app_eq_nil in H. destruct H as [H _]. contradiction.
  - apply Forall_app. split; [exact Hbp| exact Hp].
Qed.

Lemma sumrel_brel sb wb n B v :
  sumrel sb wb n B v -> brel (mkp (qdiv sb wb) wb n) (mkblk B v).
Proof.
  intros HS. pose proof (sumrel_div _ _ _ _ _ HS) as Hd.
  destruct HS as (Hs & Hw & Hn & Hv & Hne & Hp). unfold brel. cbn [pv pw pn bv bel].
  split; [exact Hd|]. split; [exact Hw|]. split; [exact Hn|].
  split; [exact Hv|]. split; [exact Hne| exact Hp].
Qed.

(* ---------- up ---------- *)

Lemma pup_sim : forall rest sb wb n B v,
  sumrel sb wb n B v -> Forall posw rest ->
  exists sb1 wb1 n1 B1 v1 rest1,
    Pup sb wb n rest = (sb1, wb1, n1, rest1) /\ gup B v rest = (B1, v1, rest1) /\
    sumrel sb1 wb1 n1 B1 v1 /\ Forall posw rest1.
Proof.
  induction rest as [|e rest' IH]; intros sb wb n B v HS HG.
  - exists sb, wb, n, B, v, []. rewrite Pup_nil, gup_nil.
    split; [reflexivity|]. split; [reflexivity|]. split; [exact HS| exact HG].
  - rewrite Pup_cons, gup_cons.
    pose proof (Forall_inv HG) as Ge. pose proof (Forall_inv_tail HG) as Gr.
    assert (Et : pgeb (qdiv sb wb) (ey e) = geb v (ey e)).
    { unfold pgeb, geb. apply Qle_bool_proper; [reflexivity|].
      exact (sumrel_div _ _ _ _ _ HS). }
    rewrite Et. destruct (geb v (ey e)).
    + exact (IH _ _ _ _ _ (sumrel_snoc _ _ _ _ _ e HS Ge) Gr).
    + exists sb, wb, n, B, v, (e :: rest').
      split; [reflexivity|]. split; [reflexivity|]. split; [exact HS| exact HG].
Qed.

(* ---------- down ---------- *)

Lemma pdown_sim : forall ps stk, srel ps stk -> forall sb wb n B v,
  sumrel sb wb n B v ->
  exists sb2 wb2 n2 ps2 B2 v2 stk2,
    Pdown sb wb n ps = (sb2, wb2, n2, ps2) /\ gdown B v stk = (B2, v2, stk2) /\
    sumrel sb2 wb2 n2 B2 v2 /\ srel ps2 stk2.
Proof.
  intros ps stk HR. unfold srel in HR.
  induction HR as [|p b ps' stk' Hb HR' IH]; intros sb wb n B v HS.
  - exists sb, wb, n, [], B, v, []. rewrite Pdown_nil, gdown_nil.
    split; [reflexivity|]. split; [reflexivity|]. split; [exact HS| constructor].
  - rewrite Pdown_cons, gdown_cons.
    assert (Et : pgeb (pv p) (qdiv sb wb) = geb (bv b) v).
    { unfold pgeb, geb. apply Qle_bool_proper.
      - exact (sumrel_div _ _ _ _ _ HS).
      - destruct Hb as (Hv & _). exact Hv. }
    rewrite Et. destruct (geb (bv b) v).
    + exact (IH _ _ _ _ _ (sumrel_prepend _ _ _ _ _ p b HS Hb)).
    + exists sb, wb, n, (p :: ps'), B, v, (b :: stk').
      split; [reflexivity|]. split; [reflexivity|]. split; [exact HS|].
      constructor; [exact Hb| exact HR'].
Qed.

(* ---------- step ---------- *)

Lemma pstep_sim : forall ps stk e rest,
  srel ps stk -> posw e -> Forall posw rest ->
  exists ps1 stk1 rest1,
    Pstep ps e rest = (ps1, rest1) /\ gstep stk e rest = (stk1, rest1) /\
    srel ps1 stk1 /\ Forall posw rest1.
Proof.
  intros ps stk e rest HR Ge Gr. unfold srel in HR.
  destruct HR as [|p b ps' stk' Hb HR'].
  - exists [mkp (ey e) (ew e) 1], [mkblk [e] (ey e)], rest.
    rewrite Pstep_nil, gstep_nil.
    split; [reflexivity|]. split; [reflexivity|]. split; [|exact Gr].
    constructor; [apply brel_single; exact Ge| constructor].
  - rewrite Pstep_cons, gstep_cons.
    assert (Et : pgeb (pv p) (ey e) = geb (bv b) (ey e)).
    { unfold pgeb, geb. apply Qle_bool_proper; [reflexivity|].
      destruct Hb as (Hv & _). exact Hv. }
    rewrite Et. destruct (geb (bv b) (ey e)).
    + destruct (pup_sim rest _ _ _ _ _ (sumrel_init p b e Hb Ge) Gr)
        as (sb1 & wb1 & n1 & B1 & v1 & rest1 & EP & EG & HS1 & G1).
      rewrite EP, EG.
      destruct (pdown_sim ps' stk' HR' _ _ _ _ _ HS1)
        as (sb2 & wb2 & n2 & ps2 & B2 & v2 & stk2 & EP2 & EG2 & HS2 & HR2).
      rewrite EP2, EG2.
      exists (mkp (qdiv sb2 wb2) wb2 n2 :: ps2), (mkblk B2 v2 :: stk2), rest1.
      split; [reflexivity|]. split; [reflexivity|]. split; [|exact G1].
      constructor; [apply sumrel_brel; exact HS2| exact HR2].
    + exists (mkp (ey e) (ew e) 1 :: p :: ps'), (mkblk [e] (ey e) :: b :: stk'), rest.
      split; [reflexivity|]. split; [reflexivity|]. split; [|exact Gr].
      constructor; [apply brel_single; exact Ge|].
      constructor; [exact Hb| exact HR'].
Qed.

(* ---------- loop ---------- *)

Theorem ploop_sim : forall fuel ps stk rest,
  srel ps stk -> Forall posw rest ->
  match ploop pgeb pgeb pgeb l_sb0 l_wadd l_sadd qdiv fuel ps rest,
        loop elt ey wmean fuel stk rest with
  | Some ps', Some stk' => srel ps' stk'
  | None, None => True
  | _, _ => False
  end.
Proof.
  induction fuel as [|fuel IH]; intros ps stk rest HR HG.
  - destruct rest as [|e rest'].
    + rewrite Ploop_nil, gloop_nil. exact HR.
    + rewrite Ploop_cons_O, gloop_cons_O. exact Logic.I.
  - destruct rest as [|e rest'].
    + rewrite Ploop_nil, gloop_nil. exact HR.
    + rewrite Ploop_cons_S, gloop_cons_S.
      pose proof (Forall_inv HG) as Ge. pose proof (Forall_inv_tail HG) as Gr.
      destruct (pstep_sim ps stk e rest' HR Ge Gr) as (ps1 & stk1 & rest1 & EP & EG & HR1 & G1).
      rewrite EP, EG. exact (IH ps1 stk1 rest1 HR1 G1).
Qed.

Theorem pava_blocks_sim : forall l, Forall posw l ->
  exists ps stk, pava_blocks l = Some ps /\ gpava_blocks elt ey wmean l = Some stk /\ srel ps stk.
Proof.
  intros l Gl. unfold pava_blocks, gpava_blocks.
  destruct (loop_total mean_inst (length l) [] l (le_n _)) as [stk Hstk].
  change (loop elt ey wmean (length l) [] l = Some stk) in Hstk.
  assert (H0 : srel [] []) by constructor.
  pose proof (ploop_sim (length l) [] [] l H0 Gl) as HS.
  rewrite Hstk in HS.
  destruct (ploop pgeb pgeb pgeb l_sb0 l_wadd l_sadd qdiv (length l) [] l) as [ps|].
  - exists ps, stk. split; [reflexivity|]. split; [exact Hstk| exact HS].
  - contradiction.
Qed.

(* ---------- consequences for the outputs ---------- *)

Lemma Forall2_snoc (A B : Type) (R : A -> B -> Prop) (l : list A) (m : list B) a b :
  Forall2 R l m -> R a b -> Forall2 R (l ++ [a]) (m ++ [b]).
Proof.
  intros H Hab. apply Forall2_app; [exact H| constructor; [exact Hab| constructor]].
Qed.

Lemma Forall2_rev_both (A B : Type) (R : A -> B -> Prop) (l : list A) (m : list B) :
  Forall2 R l m -> Forall2 R (rev l) (rev m).
Proof.
  intros H. induction H as [|a b l m Hab H IH]; cbn [rev].
  - constructor.
  - apply Forall2_snoc; [exact IH| exact Hab].
Qed.

Lemma Forall2_repeat (a b : Q) (n : nat) : a == b -> Forall2 Qeq (repeat a n) (repeat b n).
Proof.
  intros E. induction n as [|n IH]; cbn [repeat]; constructor; [exact E| exact IH].
Qed.

Lemma pexpand_gen (a : list pblk) (b : list (blk elt)) :
  Forall2 brel a b ->
  Forall2 Qeq (flat_map (fun p => repeat (pv p) (pn p)) a)
              (flat_map (fun g : blk elt => repeat (bv g) (length (bel g))) b).
Proof.
  intros H. induction H as [|p g a b Hpg H IH]; cbn [flat_map].
  - constructor.
  - apply Forall2_app; [|exact IH].
    destruct Hpg as (Hv & _ & Hn & _). rewrite Hn. apply Forall2_repeat. exact Hv.
Qed.

Theorem pexpand_sim : forall ps stk, srel ps stk -> Forall2 Qeq (pexpand ps) (expand elt stk).
Proof.
  intros ps stk HR. unfold pexpand, expand.
  apply pexpand_gen. apply Forall2_rev_both. exact HR.
Qed.

Lemma pstarts_gen (a : list pblk) (b : list (blk elt)) :
  Forall2 brel a b -> forall from, pstarts from a = starts elt from b.
Proof.
  intros H. induction H as [|p g a b Hpg H IH]; intros from; cbn [pstarts starts].
  - reflexivity.
  - destruct Hpg as (_ & _ & Hn & _). rewrite Hn, IH. reflexivity.
Qed.

Theorem prvec_sim : forall ps stk, srel ps stk -> prvec ps = rvec elt stk.
Proof.
  intros ps stk HR. unfold prvec, rvec.
  apply pstarts_gen. apply Forall2_rev_both. exact HR.
Qed.

Theorem pava_sim : forall l, l <> [] -> Forall posw l ->
  exists x r x' , pava l = Some (x, r) /\ gpava elt ey wmean l = Some (x', r) /\ Forall2 Qeq x x'.
Proof.
  intros l Hn Gl.
  destruct (pava_blocks_sim l Gl) as (ps & stk & EP & EG & HR).
  destruct l as [|e l']; [congruence|].
  exists (pexpand ps), (prvec ps), (expand elt stk).
  unfold pava, gpava. rewrite EP, EG. cbn [option_map].
  split; [reflexivity|]. split; [rewrite (prvec_sim ps stk HR); reflexivity|].
  apply pexpand_sim. exact HR.
Qed.

Print Assumptions ploop_sim.
Print Assumptions pava_blocks_sim.
Print Assumptions pava_sim.
